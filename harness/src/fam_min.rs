//! Family `min`: Automaton::minimize validated by the verified checker, the Hopcroft `Minimizer`
//! on abstract DFAs, BasePartition / Partition driven directly (C04).
//!
//! Encodings (identical to lean/Driver/FamMinimize.lean; one token each, no spaces):
//!   automaton  as in family `aut` (`fam_aut::aut_str`)
//!   script     `-` or `;`-joined steps: `R<i>:[x,..]` refine_block(i, p) with p(x) = x in the list;
//!              `F<i>:<b>:[f0,f1,..]` refine_block_with_fun(i, f, b) with f(y) = y-th entry
//!   dump       `nb|index|size|[block 0];[block 1];..|[block sizes]|[pick_element(1..)]|[block ids]|[b1>b2,..]`
//!              (`-` instead of the block ids for BasePartition)
//!
//!   min minimize <A> <A'> => ok            A' = aut_str after the real minimize() (PANIC if it
//!                                          panicked); the driver answers `ok` iff the verified
//!                                          checker accepts (A, A'), so the constant `ok` printed
//!                                          here is "the implementation claims A' minimizes A"
//!   min minimize_num_states <A> => n       num_states() after minimize()
//!   min quotient_check <A> => 1            specification self-test, nothing of the crate is called
//!   min hopcroft <n> <k> <fin> <rows> <ids> => ok    ids = block_id(s) after Minimizer::refine()
//!   min bpart <n> <script> => dump | PANIC
//!   min part <n> <script> => dump | PANIC
//!
//! Literal comparison with the line-by-line model (lean/SmtModel/Model/Hopcroft.lean, FastSet.lean):
//!   min hopcroft_blocks <n> <k> <fin> <rows> => [block_id(s)..]|[block 0];[block 1];..   | PANIC
//!   min hopcroft_state <n> <k> <fin> <rows> => <state after new>#<state after refine>      | PANIC
//!        state = M<blocks 1..>|P<pc 0>/<pc 1>/..|A[b:c:cls,..]|I[b:c:cls,..]   (parsed from
//!        `impl Display for Minimizer`: main partition, pred_classes, active / inactive splitters)
//!   min hopcroft_trace <n> <k> <fin> <rows> => <blocks 1..>#S<b>:<c>:<cls>|[pre]|<blocks 1..>#..  | PANIC
//!        (parsed from what `refine_and_trace` prints on stdout, captured through a temporary file)
//!   min minimize_literal <A> => <A'> | PANIC      aut_str after the real minimize()
//!   min fastset <max> <script> => card|[iter()]|[C results]|[contains(x), x in 0..max] | PANIC
//!        script = `-` or `;`-joined I<x> insert, R<x> remove, C<x> contains, Z reset

use crate::fam_aut::{aut_str, gen_seq, mk_builder, shuffle, tiling, Op, Shape};
use crate::rng::Rng;
use crate::trace::*;
use aws_smt_strings::automata::Automaton;
use aws_smt_strings::regular_expressions::{ReManager, RegLan};
use aws_smt_strings::smt_strings::MAX_CHAR;
use aws_smt_strings::verif_hooks::{BasePartition, FastSet, Minimizer, Partition};

// ---------- minimize on automata ----------

/// minimize `a` (consumed), emit the ops; returns the minimized automaton unless it panicked
fn run_minimize(t: &mut Trace, a: Automaton, tag: &str, again: bool) {
    let mut a = a;
    let tok = guarded(|| aut_str(&a));
    if tok == "PANIC" {
        t.count("aut_str=PANIC");
        return;
    }
    let n = a.num_states();
    let r = guarded(|| {
        a.minimize();
        aut_str(&a)
    });
    t.count(&format!("gen={}", tag));
    if r == "PANIC" {
        t.count("minimize=PANIC");
        t.op(&format!("min minimize {} PANIC", tok), "ok", true);
        t.op(&format!("min minimize_literal {}", tok), "PANIC", true);
        return;
    }
    let n2 = a.num_states();
    t.count(&format!("states_in={}", std::cmp::min(n, 16)));
    t.count(if n2 < n { "minimize=merged" } else { "minimize=already-minimal" });
    t.count(&format!("states_out={}", std::cmp::min(n2, 16)));
    let nf = a.num_final_states();
    t.count(if nf == 0 { "finals=none" } else if nf == n2 { "finals=all" } else { "finals=some" });
    t.op(&format!("min minimize {} {}", tok, r), "ok", true);
    t.op(&format!("min minimize_literal {}", tok), &r, true);
    t.op(&format!("min minimize_num_states {}", tok), &n2.to_string(), true);
    // minimization may renumber the initial state; pruning afterwards must start from it
    let r2 = guarded(|| {
        a.remove_unreachable_states();
        aut_str(&a)
    });
    t.op(&format!("min minimize_then_prune {}", tok), &r2, true);
    if r2 == "PANIC" {
        return;
    }
    t.op(&format!("min quotient_check {}", tok), "1", n2 < n);
    if again {
        // the result is minimal: a second call must not change the number of states
        run_minimize(t, a, "again", false);
    }
}

/// a complete DFA with `n` states; `global`: all states use the same tiling of the alphabet
fn gen_dfa(rng: &mut Rng, n: usize, finals: u32) -> (u32, Vec<Op>) {
    let keys: Vec<u32> = (0..n as u32).collect();
    let global = rng.chance(2, 3);
    let mut tiles_g = tiling(rng);
    while tiles_g.len() < 2 || tiles_g.len() > 4 {
        tiles_g = tiling(rng);
    }
    let mut ops = Vec::new();
    // few distinct behaviours so that equivalent states are frequent
    let spread = rng.range(1, n as u64) as usize;
    for &k in &keys {
        let tiles = if global { tiles_g.clone() } else { tiling(rng) };
        let dflt_tile = if rng.chance(1, 2) { Some(rng.below(tiles.len() as u64) as usize) } else { None };
        for (i, &(a, b)) in tiles.iter().enumerate() {
            let tgt = keys[rng.below(spread as u64) as usize];
            if Some(i) == dflt_tile {
                ops.push(Op::D(k, tgt));
            } else {
                ops.push(Op::T(k, a, b, tgt));
            }
        }
        let fin = match finals {
            0 => false,
            1 => true,
            _ => rng.chance(1, 2),
        };
        if fin {
            ops.push(Op::F(k));
        }
    }
    (0, ops)
}

/// few states, many singleton labels (a wide combined alphabet), most of them self-loops or
/// transitions into one target, one informative letter: a(b|c|d|…)*-like automata
fn gen_wide(rng: &mut Rng) -> (u32, Vec<Op>) {
    let n = rng.range(2, 5) as u32;
    let k = rng.range(6, 22) as u32;
    let sink = n; // extra sink state
    let mut ops = Vec::new();
    for s in 0..n {
        let home = rng.below(n as u64) as u32;
        for c in 0..k {
            let ch = 97 + c;
            let tgt = if rng.chance(1, 6) { rng.below(n as u64 + 1) as u32 } else { home };
            if rng.chance(5, 6) {
                ops.push(Op::T(s, ch, ch, tgt));
            }
        }
        ops.push(Op::D(s, sink));
        if rng.chance(1, 2) {
            ops.push(Op::F(s));
        }
    }
    ops.push(Op::D(sink, sink));
    (0, ops)
}

/// every state of the DFA duplicated: key k+100 behaves like k (targets chosen among original and copy)
fn duplicate(rng: &mut Rng, ops: &[Op]) -> Vec<Op> {
    let mut out: Vec<Op> = Vec::new();
    let alt = |rng: &mut Rng, k: u32| if rng.chance(1, 2) { k + 100 } else { k };
    for o in ops {
        match o {
            Op::T(k, a, b, k2) => {
                out.push(Op::T(*k, *a, *b, alt(rng, *k2)));
                out.push(Op::T(*k + 100, *a, *b, alt(rng, *k2)));
            }
            Op::D(k, k2) => {
                out.push(Op::D(*k, alt(rng, *k2)));
                out.push(Op::D(*k + 100, alt(rng, *k2)));
            }
            Op::F(k) => {
                out.push(Op::F(*k));
                out.push(Op::F(*k + 100));
            }
            Op::B | Op::U => {}
        }
    }
    out
}

/// extra states 200.. that nothing leads to, with transitions into the existing keys
fn add_unreachable(rng: &mut Rng, ops: &mut Vec<Op>, keys: &[u32]) {
    let m = rng.range(1, 3) as u32;
    for j in 0..m {
        let k = 200 + j;
        let tiles = tiling(rng);
        for &(a, b) in &tiles {
            let tgt = if rng.chance(1, 3) { 200 + rng.below(m as u64) as u32 } else { *rng.pick(keys) };
            ops.push(Op::T(k, a, b, tgt));
        }
        if rng.chance(1, 2) {
            ops.push(Op::F(k));
        }
    }
}

fn build(k0: u32, ops: &[Op]) -> Option<Automaton> {
    let mut out = None;
    let _ = guarded(|| {
        if let Ok(a) = mk_builder(k0, ops).build() {
            out = Some(a);
        }
        String::new()
    });
    out
}

// ---------- small random regexes ----------

fn gen_re(m: &mut ReManager, rng: &mut Rng, depth: u32) -> RegLan {
    const LETTERS: [u32; 4] = [97, 98, 99, 100];
    if depth == 0 || rng.chance(1, 4) {
        return match rng.below(7) {
            0 => m.char(*rng.pick(&LETTERS)),
            1 => {
                let a = *rng.pick(&LETTERS);
                let b = *rng.pick(&LETTERS);
                m.range(std::cmp::min(a, b), std::cmp::max(a, b))
            }
            2 => m.all_chars(),
            3 => m.epsilon(),
            4 => {
                let len = rng.range(1, 3);
                let w: Vec<u32> = (0..len).map(|_| *rng.pick(&LETTERS)).collect();
                m.str(&w[..].into())
            }
            5 => m.full(),
            _ => m.char(*rng.pick(&LETTERS)),
        };
    }
    match rng.below(9) {
        0 | 1 => {
            let a = gen_re(m, rng, depth - 1);
            let b = gen_re(m, rng, depth - 1);
            m.concat(a, b)
        }
        2 | 3 => {
            let a = gen_re(m, rng, depth - 1);
            let b = gen_re(m, rng, depth - 1);
            m.union(a, b)
        }
        4 => {
            let a = gen_re(m, rng, depth - 1);
            let b = gen_re(m, rng, depth - 1);
            m.inter(a, b)
        }
        5 => {
            let a = gen_re(m, rng, depth - 1);
            m.star(a)
        }
        6 => {
            let a = gen_re(m, rng, depth - 1);
            m.complement(a)
        }
        7 => {
            let a = gen_re(m, rng, depth - 1);
            let i = rng.range(0, 2) as u32;
            let j = i + rng.range(0, 2) as u32;
            m.smt_loop(a, i, j)
        }
        _ => {
            let a = gen_re(m, rng, depth - 1);
            m.opt(a)
        }
    }
}

fn compiled(rng: &mut Rng, depth: u32, bound: usize) -> Option<Automaton> {
    let mut out = None;
    let _ = guarded(|| {
        let mut m = ReManager::new();
        let e = gen_re(&mut m, rng, depth);
        out = m.try_compile(e, bound);
        String::new()
    });
    out
}

// ---------- Hopcroft on abstract DFAs ----------

fn hopcroft_case(t: &mut Trace, n: usize, k: usize, rows: &[Vec<u32>], fin: &[bool]) {
    let r = guarded(|| {
        let mut mz = Minimizer::new(n as u32, k as u32, |s: u32, c: u32| rows[s as usize][c as usize], |s: u32| fin[s as usize]);
        let p = mz.refine();
        let ids: Vec<u32> = (0..n as u32).map(|s| p.block_id(s)).collect();
        p_nats(&ids)
    });
    t.count(if r == "PANIC" { "hopcroft=PANIC" } else { "hopcroft=ok" });
    let rows_s: Vec<String> = rows.iter().map(|r| p_nats(r)).collect();
    t.op(
        &format!("min hopcroft {} {} {} {} {}", n, k, p_list(fin, |b| p_bool(*b)), rows_s.join(";"), r),
        "ok",
        true,
    );
    hopcroft_literal(t, n, k, rows, fin);
}

// ---------- Hopcroft, literally ----------

fn block_line(l: &str) -> String {
    // `block[i]:  x y z`
    let rest = l.splitn(2, "]:").nth(1).unwrap_or("");
    let v: Vec<u32> = rest.split_whitespace().map(|x| x.parse().unwrap()).collect();
    p_nats(&v)
}

fn splitter_line(l: &str) -> String {
    // `  Splitter(b, c, cls, flag)`
    let inner = l.trim().trim_start_matches("Splitter(").trim_end_matches(')');
    let f: Vec<&str> = inner.split(", ").collect();
    format!("{}:{}:{}", f[0], f[1], f[2])
}

/// canonical token of everything `impl Display for Minimizer` prints
fn minimizer_state<D, F>(mz: &Minimizer<D, F>) -> String {
    let text = format!("{}", mz);
    let mut main: Vec<String> = Vec::new();
    let mut pcs: Vec<Vec<String>> = Vec::new();
    let mut act: Vec<String> = Vec::new();
    let mut inact: Vec<String> = Vec::new();
    let mut sec = 0; // 1 main, 2 pred class, 3 active, 4 inactive
    for l in text.lines() {
        if l == "main partition" {
            sec = 1;
        } else if l.starts_with("pred_class[") {
            sec = 2;
            pcs.push(Vec::new());
        } else if l == "Active splitters" {
            sec = 3;
        } else if l == "Inactive splitters" {
            sec = 4;
        } else if l.starts_with("block[") {
            if sec == 1 {
                main.push(block_line(l));
            } else {
                pcs.last_mut().unwrap().push(block_line(l));
            }
        } else if l.trim_start().starts_with("Splitter(") {
            if sec == 3 {
                act.push(splitter_line(l));
            } else {
                inact.push(splitter_line(l));
            }
        }
    }
    let pcs_s: Vec<String> = pcs.iter().map(|b| b.join(";")).collect();
    format!("M{}|P{}|A[{}]|I[{}]", main.join(";"), pcs_s.join("/"), act.join(","), inact.join(","))
}

extern "C" {
    fn dup(fd: i32) -> i32;
    fn dup2(oldfd: i32, newfd: i32) -> i32;
    fn close(fd: i32) -> i32;
}

/// run `f` with file descriptor 1 redirected to a temporary file (opened once, reused);
/// what it printed, or None if it panicked
fn capture_stdout<F: FnOnce()>(f: F) -> Option<String> {
    use std::io::{Read, Seek, SeekFrom, Write};
    use std::os::unix::io::AsRawFd;
    thread_local! {
        static CAPTURE: std::cell::RefCell<Option<std::fs::File>> = std::cell::RefCell::new(None);
    }
    CAPTURE.with(|cell| {
        let mut slot = cell.borrow_mut();
        if slot.is_none() {
            let dir = if std::path::Path::new("/dev/shm").is_dir() { std::path::PathBuf::from("/dev/shm") } else { std::env::temp_dir() };
            let path = dir.join(format!("verif-harness-stdout-{}", std::process::id()));
            let file = std::fs::OpenOptions::new().read(true).write(true).create(true).truncate(true).open(&path).expect("capture file");
            let _ = std::fs::remove_file(&path); // stays open, disappears with the process
            *slot = Some(file);
        }
        let file = slot.as_mut().unwrap();
        file.set_len(0).unwrap();
        file.seek(SeekFrom::Start(0)).unwrap();
        std::io::stdout().flush().unwrap();
        let saved = unsafe { dup(1) };
        assert!(saved >= 0);
        assert!(unsafe { dup2(file.as_raw_fd(), 1) } >= 0);
        let r = std::panic::catch_unwind(std::panic::AssertUnwindSafe(f));
        std::io::stdout().flush().unwrap();
        assert!(unsafe { dup2(saved, 1) } >= 0);
        unsafe { close(saved) };
        file.seek(SeekFrom::Start(0)).unwrap();
        let mut text = String::new();
        file.read_to_string(&mut text).expect("read capture file");
        match r {
            Ok(()) => Some(text),
            Err(_) => None,
        }
    })
}

/// canonical token of what `refine_and_trace` prints
fn trace_token(text: &str) -> String {
    let mut parts: Vec<String> = Vec::new();
    let mut blocks: Vec<String> = Vec::new();
    let mut head = String::new(); // `S..|[pre]|` of the current round, empty for the initial partition
    let mut started = false;
    for l in text.lines() {
        if l == "Initial partition" {
            started = true;
        } else if l.starts_with("--- round") {
            parts.push(format!("{}{}", head, blocks.join(";")));
            blocks.clear();
            head.clear();
        } else if l.starts_with("Splitter(") {
            head = format!("S{}|", splitter_line(l));
        } else if l.starts_with("pre(") {
            let inner = l.splitn(2, '{').nth(1).unwrap_or("").trim_end_matches('}');
            let v: Vec<u32> = inner.split_whitespace().map(|x| x.parse().unwrap()).collect();
            head.push_str(&p_nats(&v));
            head.push('|');
        } else if l.starts_with("block[") {
            blocks.push(block_line(l));
        }
    }
    if started {
        parts.push(format!("{}{}", head, blocks.join(";")));
    }
    parts.join("#")
}

fn hopcroft_literal(t: &mut Trace, n: usize, k: usize, rows: &[Vec<u32>], fin: &[bool]) {
    let rows_s: Vec<String> = rows.iter().map(|r| p_nats(r)).collect();
    let rows_tok = if rows_s.is_empty() { "-".to_string() } else { rows_s.join(";") };
    let args = format!("{} {} {} {}", n, k, p_list(fin, |b| p_bool(*b)), rows_tok);
    let delta = |s: u32, c: u32| rows[s as usize][c as usize];
    let is_final = |s: u32| fin[s as usize];
    // the Partition returned by refine(), literally
    let r = guarded(|| {
        let mut mz = Minimizer::new(n as u32, k as u32, delta, is_final);
        let p = mz.refine();
        let ids: Vec<u32> = (0..n as u32).map(|s| p.block_id(s)).collect();
        let blocks: Vec<String> = (0..p.num_blocks())
            .map(|i| {
                let v: Vec<u32> = p.block_elements(i).collect();
                p_nats(&v)
            })
            .collect();
        format!("{}|{}", p_nats(&ids), blocks.join(";"))
    });
    t.count(if r == "PANIC" { "hopcroft_blocks=PANIC" } else { "hopcroft_blocks=ok" });
    t.op(&format!("min hopcroft_blocks {}", args), &r, true);
    // the whole internal state after new() and after refine()
    let mut splits = 0usize;
    let r = guarded(|| {
        let mut mz = Minimizer::new(n as u32, k as u32, delta, is_final);
        let s0 = minimizer_state(&mz);
        let nb = mz.refine().num_blocks() as usize;
        splits = nb.saturating_sub(2);
        let s1 = minimizer_state(&mz);
        format!("{}#{}", s0, s1)
    });
    t.count(&format!("hopcroft_blocks_out={}", std::cmp::min(splits + 1, 12)));
    t.op(&format!("min hopcroft_state {}", args), &r, true);
    // the rounds of the loop
    let mut out = None;
    let r = guarded(|| {
        let mut mz = Minimizer::new(n as u32, k as u32, delta, is_final);
        out = capture_stdout(|| mz.refine_and_trace());
        String::new()
    });
    let r = match (r.as_str(), out) {
        ("PANIC", _) | (_, None) => "PANIC".to_string(),
        (_, Some(text)) => trace_token(&text),
    };
    let rounds = r.matches('#').count();
    t.count(&format!("hopcroft_rounds={}", std::cmp::min(rounds, 16)));
    t.op(&format!("min hopcroft_trace {}", args), &r, rounds > 0);
}

// ---------- FastSet ----------

#[derive(Clone)]
enum FStep {
    I(u32),
    R(u32),
    C(u32),
    Z,
}

fn fscript_str(script: &[FStep]) -> String {
    if script.is_empty() {
        return "-".into();
    }
    script
        .iter()
        .map(|s| match s {
            FStep::I(x) => format!("I{}", x),
            FStep::R(x) => format!("R{}", x),
            FStep::C(x) => format!("C{}", x),
            FStep::Z => "Z".to_string(),
        })
        .collect::<Vec<_>>()
        .join(";")
}

fn run_fastset(t: &mut Trace, max: u32, script: &[FStep]) {
    let r = guarded(|| {
        let mut set = FastSet::new(max);
        let mut results: Vec<bool> = Vec::new();
        for s in script {
            match s {
                FStep::I(x) => set.insert(*x),
                FStep::R(x) => set.remove(*x),
                FStep::C(x) => results.push(set.contains(*x)),
                FStep::Z => set.reset(),
            }
        }
        let it: Vec<u32> = set.iter().collect();
        let all: Vec<bool> = (0..max).map(|x| set.contains(x)).collect();
        format!("{}|{}|{}|{}", set.card(), p_nats(&it), p_list(&results, |b| p_bool(*b)), p_list(&all, |b| p_bool(*b)))
    });
    t.count(if r == "PANIC" { "fastset=PANIC" } else { "fastset=ok" });
    t.op(&format!("min fastset {} {}", max, fscript_str(script)), &r, !script.is_empty());
}

fn gen_fscript(rng: &mut Rng, max: u32, wild: bool) -> Vec<FStep> {
    let steps = rng.range(0, 14);
    let mut v = Vec::new();
    for _ in 0..steps {
        let x = if max == 0 || (wild && rng.chance(1, 8)) { max + rng.below(2) as u32 } else { rng.below(max as u64) as u32 };
        v.push(match rng.below(10) {
            0..=4 => FStep::I(x),
            5..=7 => FStep::R(x),
            8 => FStep::C(x),
            _ => FStep::Z,
        });
    }
    v
}

fn run_hopcroft(t: &mut Trace, rng: &mut Rng) {
    // one case in five: few states over a wide alphabet (6..25 letters) — many pending splitters
    let wide = rng.chance(1, 5);
    let n = if wide { rng.range(2, 7) as usize } else { rng.range(1, 20) as usize };
    let k = if wide { rng.range(6, 25) as usize } else { rng.range(1, 5) as usize };
    // a small DFA with m states blown up along a random surjection-like map pi
    let m = rng.range(1, n as u64) as usize;
    let pi: Vec<usize> = (0..n).map(|s| if s < m { s } else { rng.below(m as u64) as usize }).collect();
    let small: Vec<Vec<usize>> = (0..m).map(|_| (0..k).map(|_| rng.below(m as u64) as usize).collect()).collect();
    let fin_mode = rng.below(6);
    let small_fin: Vec<bool> = (0..m)
        .map(|_| match fin_mode {
            0 => false,
            1 => true,
            _ => rng.chance(1, 2),
        })
        .collect();
    let exact = rng.chance(3, 4); // otherwise: fully random transitions
    let mut rows: Vec<Vec<u32>> = Vec::new();
    for s in 0..n {
        let mut row = Vec::new();
        for c in 0..k {
            let tgt = if exact {
                let want = small[pi[s]][c];
                let pre: Vec<usize> = (0..n).filter(|&x| pi[x] == want).collect();
                *rng.pick(&pre)
            } else {
                rng.below(n as u64) as usize
            };
            row.push(tgt as u32);
        }
        rows.push(row);
    }
    let fin: Vec<bool> = (0..n).map(|s| small_fin[pi[s]]).collect();
    hopcroft_case(t, n, k, &rows, &fin);
}

// ---------- partitions ----------

#[derive(Clone)]
enum Step {
    R(u32, Vec<u32>),
    F(u32, u32, Vec<u32>),
}

fn step_str(s: &Step) -> String {
    match s {
        Step::R(i, set) => format!("R{}:{}", i, p_nats(set)),
        Step::F(i, b, f) => format!("F{}:{}:{}", i, b, p_nats(f)),
    }
}

fn script_str(script: &[Step]) -> String {
    if script.is_empty() {
        "-".into()
    } else {
        script.iter().map(step_str).collect::<Vec<_>>().join(";")
    }
}

fn dump_base(p: &BasePartition, ids: String, results: &[(u32, u32)]) -> String {
    let nb = p.num_blocks();
    let blocks: Vec<String> = (0..nb)
        .map(|i| {
            let v: Vec<u32> = p.block_elements(i).collect();
            p_nats(&v)
        })
        .collect();
    let sizes: Vec<u32> = (0..nb).map(|i| p.block_size(i)).collect();
    let picks: Vec<u32> = (1..nb).map(|i| p.pick_element(i)).collect();
    format!(
        "{}|{}|{}|{}|{}|{}|{}|{}",
        nb,
        p.index(),
        p.size(),
        blocks.join(";"),
        p_nats(&sizes),
        p_nats(&picks),
        ids,
        p_list(results, |(a, b)| format!("{}>{}", a, b))
    )
}

fn dump_part(p: &Partition, results: &[(u32, u32)]) -> String {
    // Partition exposes the same accessors as its base; go through them
    let nb = p.num_blocks();
    let blocks: Vec<String> = (0..nb)
        .map(|i| {
            let v: Vec<u32> = p.block_elements(i).collect();
            p_nats(&v)
        })
        .collect();
    let sizes: Vec<u32> = (0..nb).map(|i| p.block_size(i)).collect();
    let picks: Vec<u32> = (1..nb).map(|i| p.pick_element(i)).collect();
    let ids: Vec<u32> = (0..p.size()).map(|x| p.block_id(x)).collect();
    format!(
        "{}|{}|{}|{}|{}|{}|{}|{}",
        nb,
        p.index(),
        p.size(),
        blocks.join(";"),
        p_nats(&sizes),
        p_nats(&picks),
        p_nats(&ids),
        p_list(results, |(a, b)| format!("{}>{}", a, b))
    )
}

/// number of blocks after running `script` on the real Partition (None: it panics)
fn replay_nb(n: u32, script: &[Step]) -> Option<u32> {
    let mut out = None;
    let _ = guarded(|| {
        let mut p = Partition::new(n);
        for s in script {
            match s {
                Step::R(i, set) => p.refine_block(*i, |x| set.contains(&x)),
                Step::F(i, b, f) => p.refine_block_with_fun(*i, |y| f[y as usize], *b),
            };
        }
        out = Some(p.num_blocks());
        String::new()
    });
    out
}

fn gen_script(rng: &mut Rng, n: u32, with_fun: bool, wild: bool) -> Vec<Step> {
    let steps = rng.range(0, 6);
    let mut script: Vec<Step> = Vec::new();
    for _ in 0..steps {
        // the real number of blocks so far (block ids are 0..nb); stop after a panicking step
        let nb = match replay_nb(n, &script) {
            Some(nb) => nb,
            None => break,
        };
        let i = if wild && rng.chance(1, 6) { nb + rng.below(2) as u32 } else if nb > 1 && rng.chance(5, 6) { rng.range(1, nb as u64 - 1) as u32 } else { rng.below(nb as u64) as u32 };
        if with_fun && rng.chance(1, 2) {
            let b = if wild && rng.chance(1, 8) { nb + 1 } else if nb > 1 && rng.chance(5, 6) { rng.range(1, nb as u64 - 1) as u32 } else { rng.below(nb as u64) as u32 };
            let f: Vec<u32> = (0..n)
                .map(|_| if wild && rng.chance(1, 10) { n + rng.below(2) as u32 } else { rng.below(std::cmp::max(n, 1) as u64) as u32 })
                .collect();
            script.push(Step::F(i, b, f));
        } else {
            let set: Vec<u32> = match rng.below(6) {
                0 => vec![],
                1 => (0..n).collect(),
                2 => (0..n).filter(|x| x % 2 == 0).collect(),
                _ => {
                    let mut v: Vec<u32> = (0..n + 1).filter(|_| rng.chance(1, 2)).collect();
                    if rng.chance(1, 2) {
                        shuffle(rng, &mut v);
                    }
                    v
                }
            };
            script.push(Step::R(i, set));
        }
    }
    script
}

fn run_bpart(t: &mut Trace, n: u32, script: &[Step]) {
    let r = guarded(|| {
        let mut p = BasePartition::new(n);
        let mut results = Vec::new();
        for s in script {
            match s {
                Step::R(i, set) => results.push(p.refine_block(*i, |x| set.contains(&x))),
                Step::F(..) => unreachable!(),
            }
        }
        dump_base(&p, "-".into(), &results)
    });
    t.count(if r == "PANIC" { "bpart=PANIC" } else { "bpart=ok" });
    t.op(&format!("min bpart {} {}", n, script_str(script)), &r, !script.is_empty());
}

fn run_part(t: &mut Trace, n: u32, script: &[Step]) {
    let mut splits = 0;
    let r = guarded(|| {
        let mut p = Partition::new(n);
        let mut results = Vec::new();
        for s in script {
            let res = match s {
                Step::R(i, set) => p.refine_block(*i, |x| set.contains(&x)),
                Step::F(i, b, f) => p.refine_block_with_fun(*i, |y| f[y as usize], *b),
            };
            if res.0 != 0 && res.1 != 0 {
                splits += 1;
            }
            results.push(res);
        }
        dump_part(&p, &results)
    });
    t.count(if r == "PANIC" { "part=PANIC" } else { "part=ok" });
    t.count(&format!("part_splits={}", splits));
    t.op(&format!("min part {} {}", n, script_str(script)), &r, !script.is_empty());
}

// ---------- run ----------

pub fn run(t: &mut Trace, rng: &mut Rng, thorough: bool) {
    t.rule = "minimize(): automata from the real builder — valid call sequences of family aut (1..5 states, unreachable components), random complete DFAs with 1..12 states over 2..4 classes (same tiling for all states or one per state; transitions or default; few distinct targets so that equivalent states are frequent; all-final / none-final / random), each also with every state duplicated and with extra unreachable states, the minimized result minimized again — and automata compiled from small random regexes (try_compile, bound 40); observable = the pair (A, minimize(A)) decided by the verified checker, num_states() of the result, and the model's own quotient through the checker. Minimizer::refine() on abstract DFAs (1..20 states, 1..5 letters, blown-up small DFAs and fully random ones). BasePartition/Partition: random scripts of up to 6 refine_block / refine_block_with_fun steps on 0..12 elements (predicates as element sets incl. empty/all/out-of-range, block ids incl. 0 and out of range, functions with out-of-range values). Non-trivial: every op except quotient_check on an already minimal automaton and empty partition scripts".into();

    // ---- corpus: the crate's own test automata and corner cases ----
    let corpus: Vec<(u32, Vec<Op>)> = vec![
        // automata.rs test_minimizer / test_remove_unreachable automaton
        (0, vec![Op::T(5, 122, 122, 6), Op::D(5, 8), Op::T(6, 121, 121, 5), Op::D(6, 8), Op::D(8, 5), Op::F(6),
                 Op::T(0, 97, 97, 0), Op::T(0, 98, 98, 1), Op::T(0, 99, 99, 2), Op::T(1, 97, 97, 3), Op::T(1, 99, 99, 2),
                 Op::T(2, 98, 98, 3), Op::T(2, 99, 99, 3), Op::T(3, 97, 97, 0), Op::T(3, 98, 98, 1), Op::T(3, 99, 99, 3),
                 Op::D(0, 4), Op::D(1, 4), Op::D(2, 4), Op::D(3, 4), Op::D(4, 4), Op::F(3)]),
        // one state, final / not final
        (4, vec![Op::D(4, 4), Op::F(4)]),
        (4, vec![Op::D(4, 4)]),
        // two equivalent states, all final
        (0, vec![Op::D(0, 1), Op::D(1, 0), Op::F(0), Op::F(1)]),
        // two equivalent states, none final
        (0, vec![Op::D(0, 1), Op::D(1, 0)]),
        // two states distinguished only by finality
        (0, vec![Op::D(0, 1), Op::D(1, 0), Op::F(1)]),
        // a chain 0 -a-> 1 -a-> 2 -a-> 3(final), sink 4: minimal
        (0, vec![Op::T(0, 97, 97, 1), Op::D(0, 4), Op::T(1, 97, 97, 2), Op::D(1, 4), Op::T(2, 97, 97, 3), Op::D(2, 4),
                 Op::D(3, 4), Op::D(4, 4), Op::F(3)]),
        // states that differ only in how the same function is written (interval vs default)
        (0, vec![Op::T(0, 0, 96, 2), Op::T(0, 97, MAX_CHAR, 1), Op::T(1, 97, MAX_CHAR, 1), Op::D(1, 2), Op::D(2, 2), Op::F(1),
                 Op::T(3, 0, 96, 2), Op::D(3, 1)]),
        // FINDING (C04): two states without incoming transitions in a block that is split later:
        // SplitterSet::take_list indexes past the end of the splitter table (minimizer.rs:222)
        (0, vec![Op::T(0, 97, 97, 0), Op::T(1, 97, 97, 2), Op::D(3, 0), Op::D(0, 2), Op::D(1, 0), Op::D(2, 0), Op::F(2)]),
        // the initial state is merged into a block whose representative is another state
        (7, vec![Op::D(7, 1), Op::D(1, 7), Op::T(1, 97, 97, 7), Op::F(7), Op::F(1)]),
    ];
    for (k0, ops) in &corpus {
        if let Some(a) = build(*k0, ops) {
            run_minimize(t, a, "corpus", true);
        }
    }
    // the regex of the crate's compile doc test: (ac + bc)*
    if let Some(a) = {
        let mut out = None;
        let _ = guarded(|| {
            let mut m = ReManager::new();
            let ac = m.str(&"ac".into());
            let bc = m.str(&"bc".into());
            let sum = m.union(ac, bc);
            let e = m.star(sum);
            out = Some(m.compile(e));
            String::new()
        });
        out
    } {
        run_minimize(t, a, "corpus", true);
    }

    // the same witness for the Minimizer hook
    hopcroft_case(t, 4, 2, &[vec![0, 2], vec![2, 0], vec![0, 0], vec![0, 0]], &[false, false, true, false]);

    // a(b|c|d|e|f|g)* written with one singleton self-loop per letter
    {
        let mut ops = vec![Op::T(0, 97, 97, 1), Op::D(0, 2), Op::D(1, 2), Op::D(2, 2), Op::F(1)];
        for ch in 98..=103u32 {
            ops.push(Op::T(1, ch, ch, 1));
        }
        if let Some(a) = build(0, &ops) {
            run_minimize(t, a, "corpus", true);
        }
    }
    let n_wide = if thorough { 1500 } else { 300 };
    for _ in 0..n_wide {
        let (k0, ops) = gen_wide(rng);
        if let Some(a) = build(k0, &ops) {
            run_minimize(t, a, "wide", rng.chance(1, 4));
        }
    }
    let n_aut = if thorough { 6000 } else { 1200 };
    for i in 0..n_aut {
        match i % 4 {
            0 => {
                // builder sequences of family aut (small, unreachable parts by construction)
                let (k0, ops) = gen_seq(rng, Shape::Valid);
                if let Some(a) = build(k0, &ops) {
                    run_minimize(t, a, "aut-valid", rng.chance(1, 4));
                }
            }
            _ => {
                let n = rng.range(1, 12) as usize;
                let finals = match rng.below(8) {
                    0 => 0,
                    1 => 1,
                    _ => 2,
                };
                let (k0, mut ops) = gen_dfa(rng, n, finals);
                let variant = rng.below(4);
                let mut tag = "dfa";
                if variant == 1 {
                    ops = duplicate(rng, &ops);
                    tag = "dfa-duplicated";
                }
                if variant == 2 {
                    let keys: Vec<u32> = (0..n as u32).collect();
                    add_unreachable(rng, &mut ops, &keys);
                    tag = "dfa-unreachable";
                }
                if rng.chance(1, 5) {
                    shuffle(rng, &mut ops);
                }
                if let Some(a) = build(k0, &ops) {
                    run_minimize(t, a, tag, rng.chance(1, 3));
                } else {
                    t.count("gen=build-refused");
                }
            }
        }
    }
    let n_re = if thorough { 3000 } else { 500 };
    for _ in 0..n_re {
        let depth = rng.range(1, 4) as u32;
        match compiled(rng, depth, 40) {
            Some(a) => run_minimize(t, a, "compiled", rng.chance(1, 4)),
            None => t.count("gen=compile-over-bound"),
        }
    }
    // literal ops only: corner cases of the hook the `hopcroft` op is not defined on
    // (no letters: the splitter table stays empty and `has_active_splitter` indexes it; no states)
    hopcroft_literal(t, 3, 0, &[vec![], vec![], vec![]], &[true, false, false]);
    hopcroft_literal(t, 2, 0, &[vec![], vec![]], &[true, false]);
    hopcroft_literal(t, 2, 0, &[vec![], vec![]], &[true, true]);
    hopcroft_literal(t, 0, 1, &[], &[]);
    // a transition out of range / a row too short: the closure panics
    hopcroft_literal(t, 3, 1, &[vec![1], vec![3], vec![0]], &[true, false, false]);
    hopcroft_literal(t, 3, 2, &[vec![1, 1], vec![2], vec![0, 0]], &[true, false, false]);
    // all final / none final: no split in `new`, refine() loops over inactive splitters only
    hopcroft_literal(t, 3, 1, &[vec![1], vec![2], vec![0]], &[true, true, true]);
    hopcroft_literal(t, 3, 1, &[vec![1], vec![2], vec![0]], &[false, false, false]);
    // the splitter's own block is split by itself (self_refine: must be done last)
    hopcroft_literal(t, 4, 1, &[vec![1], vec![2], vec![3], vec![3]], &[false, false, false, true]);
    hopcroft_literal(t, 6, 2, &[vec![1, 2], vec![3, 4], vec![4, 3], vec![5, 5], vec![5, 5], vec![5, 5]], &[false, false, false, false, false, true]);

    let n_h = if thorough { 20000 } else { 3000 };
    for _ in 0..n_h {
        run_hopcroft(t, rng);
    }
    let n_p = if thorough { 60000 } else { 8000 };
    for i in 0..n_p {
        let n = if rng.chance(1, 15) { 0 } else { rng.range(1, 12) as u32 };
        let wild = rng.chance(1, 6);
        if i % 3 == 0 {
            let s = gen_script(rng, n, false, wild);
            run_bpart(t, n, &s);
        } else {
            let s = gen_script(rng, n, true, wild);
            run_part(t, n, &s);
        }
    }
    // FastSet driven directly (appended after all other generation: earlier ops are unchanged)
    run_fastset(t, 100, &[FStep::I(10), FStep::I(20), FStep::I(10), FStep::I(40), FStep::I(40), FStep::C(10), FStep::C(30), FStep::R(30), FStep::R(40), FStep::C(40), FStep::R(10), FStep::Z, FStep::C(20)]);
    run_fastset(t, 0, &[]);
    run_fastset(t, 0, &[FStep::Z]);
    run_fastset(t, 0, &[FStep::C(0)]);
    run_fastset(t, 3, &[FStep::I(0), FStep::I(1), FStep::I(2), FStep::R(0), FStep::I(0), FStep::R(2), FStep::R(1), FStep::R(0)]);
    // more abstract DFAs for the literal ops only (appended: earlier ops are unchanged): mixed
    // finality so that `new` splits, up to 24 states, sparse images so that pred classes are
    // empty for some (block, letter) pairs and some blocks have no incoming transition
    let n_hx = if thorough { 12000 } else { 2000 };
    for _ in 0..n_hx {
        let n = rng.range(2, 24) as usize;
        let k = rng.range(1, 4) as usize;
        let image = rng.range(1, n as u64) as usize; // transitions only into the first `image` states
        let mode = rng.below(3);
        let rows: Vec<Vec<u32>> = (0..n)
            .map(|s| {
                (0..k)
                    .map(|c| match mode {
                        0 => rng.below(image as u64) as u32,
                        1 => ((s + c + 1) % n) as u32,                     // a permutation per letter
                        _ => if rng.chance(1, 2) { s as u32 } else { rng.below(n as u64) as u32 },
                    })
                    .collect()
            })
            .collect();
        let nfin = rng.range(1, n as u64 - 1) as usize;
        let fin: Vec<bool> = match rng.below(3) {
            0 => (0..n).map(|s| s < nfin).collect(),
            1 => (0..n).map(|s| s % 3 == 0).collect(),
            _ => (0..n).map(|_| rng.chance(1, 2)).collect(),
        };
        hopcroft_literal(t, n, k, &rows, &fin);
    }
    let n_f = if thorough { 40000 } else { 5000 };
    for _ in 0..n_f {
        let max = if rng.chance(1, 20) { 0 } else { rng.range(1, 10) as u32 };
        let wild = rng.chance(1, 6);
        let s = gen_fscript(rng, max, wild);
        run_fastset(t, max, &s);
    }
}
