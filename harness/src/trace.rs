//! Trace writer: one operation per line `fam op args.. => result`, plus run statistics.

use std::collections::{BTreeMap, HashSet};
use std::fmt::Write as _;
use std::fs::File;
use std::io::{BufWriter, Write};
use std::panic::{catch_unwind, AssertUnwindSafe};

pub struct Trace {
    out: BufWriter<File>,
    pub evaluations: u64,
    distinct: HashSet<u64>,
    pub hist: BTreeMap<String, u64>,
    pub samples: Vec<String>,
    sample_stride: u64,
    pub rule: String,
    distinct_by_op: BTreeMap<String, HashSet<u64>>,
    evals_by_op: BTreeMap<String, u64>,
    samples_by_op: BTreeMap<String, Vec<String>>,
}

fn fnv(s: &str) -> u64 {
    let mut h: u64 = 0xcbf29ce484222325;
    for b in s.bytes() {
        h ^= b as u64;
        h = h.wrapping_mul(0x100000001b3);
    }
    h
}

impl Trace {
    pub fn new(path: &str) -> Trace {
        let f = File::create(path).expect("cannot create trace file");
        Trace {
            out: BufWriter::new(f),
            evaluations: 0,
            distinct: HashSet::new(),
            hist: BTreeMap::new(),
            samples: Vec::new(),
            sample_stride: 1,
            rule: String::new(),
            distinct_by_op: BTreeMap::new(),
            evals_by_op: BTreeMap::new(),
            samples_by_op: BTreeMap::new(),
        }
    }

    pub fn comment(&mut self, s: &str) {
        writeln!(self.out, "# {}", s).unwrap();
    }

    /// raw line without `=>` (e.g. term-table lines); still counted by the driver
    pub fn raw(&mut self, line: &str) {
        writeln!(self.out, "{}", line).unwrap();
    }

    /// record one operation. `nontrivial`: whether this case counts as non-trivial by the family's rule
    pub fn op(&mut self, lhs: &str, result: &str, nontrivial: bool) {
        writeln!(self.out, "{} => {}", lhs, result).unwrap();
        self.evaluations += 1;
        let opname = lhs.split(' ').nth(1).unwrap_or("?").to_string();
        *self.evals_by_op.entry(opname.clone()).or_insert(0) += 1;
        if nontrivial {
            let h = fnv(lhs);
            self.distinct.insert(h);
            self.distinct_by_op.entry(opname.clone()).or_default().insert(h);
        }
        let sv = self.samples_by_op.entry(opname).or_default();
        if sv.len() < 3 && (sv.is_empty() || self.evaluations % 97 == 0) {
            sv.push(format!("{} => {}", lhs, result));
        }
        if self.evaluations % self.sample_stride == 0 && self.samples.len() < 12 {
            self.samples.push(format!("{} => {}", lhs, result));
            self.sample_stride = self.sample_stride * 7 + 1;
        }
    }

    pub fn count(&mut self, key: &str) {
        *self.hist.entry(key.to_string()).or_insert(0) += 1;
    }

    pub fn distinct_nontrivial(&self) -> u64 {
        self.distinct.len() as u64
    }

    pub fn finish(mut self, stats_path: &str, extra: &[(String, String)]) {
        self.out.flush().unwrap();
        let mut s = String::new();
        s.push_str("{\n");
        write!(s, "  \"evaluations\": {},\n", self.evaluations).unwrap();
        write!(s, "  \"distinct_nontrivial\": {},\n", self.distinct.len()).unwrap();
        write!(s, "  \"rule\": {},\n", json_str(&self.rule)).unwrap();
        s.push_str("  \"samples\": [");
        for (i, x) in self.samples.iter().enumerate() {
            if i > 0 {
                s.push_str(", ");
            }
            s.push_str(&json_str(x));
        }
        s.push_str("],\n");
        for (k, v) in extra {
            write!(s, "  {}: {},\n", json_str(k), v).unwrap();
        }
        s.push_str("  \"by_op\": {");
        for (i, (k, v)) in self.evals_by_op.iter().enumerate() {
            if i > 0 {
                s.push_str(", ");
            }
            let d = self.distinct_by_op.get(k).map(|x| x.len()).unwrap_or(0);
            let empty = Vec::new();
            let sm = self.samples_by_op.get(k).unwrap_or(&empty);
            let sms: Vec<String> = sm.iter().map(|x| json_str(x)).collect();
            write!(s, "{}: {{\"evaluations\": {}, \"distinct_nontrivial\": {}, \"samples\": [{}]}}", json_str(k), v, d, sms.join(", ")).unwrap();
        }
        s.push_str("},\n");
        s.push_str("  \"histogram\": {");
        for (i, (k, v)) in self.hist.iter().enumerate() {
            if i > 0 {
                s.push_str(", ");
            }
            write!(s, "{}: {}", json_str(k), v).unwrap();
        }
        s.push_str("}\n}\n");
        std::fs::write(stats_path, s).expect("cannot write stats");
    }
}

pub fn json_str(x: &str) -> String {
    let mut s = String::from("\"");
    for c in x.chars() {
        match c {
            '"' => s.push_str("\\\""),
            '\\' => s.push_str("\\\\"),
            '\n' => s.push_str("\\n"),
            c if (c as u32) < 32 => write!(s, "\\u{:04x}", c as u32).unwrap(),
            c => s.push(c),
        }
    }
    s.push('"');
    s
}

/// run `f`, mapping a panic to the token `PANIC`
pub fn guarded<F: FnOnce() -> String>(f: F) -> String {
    match catch_unwind(AssertUnwindSafe(f)) {
        Ok(s) => s,
        Err(_) => "PANIC".to_string(),
    }
}

pub fn silence_panics() {
    std::panic::set_hook(Box::new(|_| {}));
}

// ---- canonical printers ----

pub fn p_bool(b: bool) -> String {
    if b { "1".into() } else { "0".into() }
}

pub fn p_list<T, F: Fn(&T) -> String>(v: &[T], f: F) -> String {
    let mut s = String::from("[");
    for (i, x) in v.iter().enumerate() {
        if i > 0 {
            s.push(',');
        }
        s.push_str(&f(x));
    }
    s.push(']');
    s
}

pub fn p_nats(v: &[u32]) -> String {
    p_list(v, |x| x.to_string())
}

pub fn p_opt<T, F: Fn(&T) -> String>(v: &Option<T>, f: F) -> String {
    match v {
        None => "none".into(),
        Some(x) => format!("some:{}", f(x)),
    }
}
