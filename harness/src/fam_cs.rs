//! Family `cs`: CharSet operations (C20).
//! Exhaustive over all intervals with end points in a 10-point boundary set (pairs, and triples
//! for inter_list), plus seeded random intervals.  Runs in the dev profile so that a u32
//! underflow in `union` would surface as PANIC.

use crate::rng::Rng;
use crate::trace::*;
use aws_smt_strings::character_sets::CharSet;
use aws_smt_strings::smt_strings::MAX_CHAR;
use std::cmp::Ordering;

pub fn cs_str(c: &CharSet) -> String {
    let a = c.pick();
    let b = a + c.size() - 1;
    format!("{}-{}", a, b)
}

fn p_ord(o: Option<Ordering>) -> String {
    match o {
        None => "none".into(),
        Some(Ordering::Less) => "some:Less".into(),
        Some(Ordering::Equal) => "some:Equal".into(),
        Some(Ordering::Greater) => "some:Greater".into(),
    }
}

const POINTS: [u32; 14] = [0, 1, 2, 47, 48, 57, 58, 97, 0xD800, 0xDBFF, 0xDFFF, 0xE000, MAX_CHAR - 1, MAX_CHAR];

fn unary(t: &mut Trace, s: &CharSet, xs: &[u32]) {
    let ss = cs_str(s);
    t.op(&format!("cs size {}", ss), &guarded(|| s.size().to_string()), true);
    t.op(&format!("cs is_singleton {}", ss), &guarded(|| p_bool(s.is_singleton())), true);
    t.op(&format!("cs is_alphabet {}", ss), &guarded(|| p_bool(s.is_alphabet())), true);
    t.op(&format!("cs pick {}", ss), &guarded(|| s.pick().to_string()), true);
    for &x in xs {
        t.op(&format!("cs contains {} {}", ss, x), &guarded(|| p_bool(s.contains(x))), true);
        t.op(&format!("cs is_before {} {}", ss, x), &guarded(|| p_bool(s.is_before(x))), true);
        t.op(&format!("cs is_after {} {}", ss, x), &guarded(|| p_bool(s.is_after(x))), true);
    }
}

fn binary(t: &mut Trace, s: &CharSet, u: &CharSet) {
    let (ss, us) = (cs_str(s), cs_str(u));
    let r = guarded(|| p_bool(s.covers(u)));
    t.count(&format!("covers={}", r));
    t.op(&format!("cs covers {} {}", ss, us), &r, true);
    let r = guarded(|| p_opt(&s.inter(u), cs_str));
    t.count(if r == "none" { "inter=none" } else { "inter=some" });
    t.op(&format!("cs inter {} {}", ss, us), &r, true);
    let r = guarded(|| p_opt(&s.union(u), cs_str));
    t.count(if r == "none" { "union=none" } else if r == "PANIC" { "union=PANIC" } else { "union=some" });
    t.op(&format!("cs union {} {}", ss, us), &r, true);
    let r = guarded(|| p_ord(s.partial_cmp(u)));
    t.count(&format!("cmp={}", r));
    t.op(&format!("cs partial_cmp {} {}", ss, us), &r, true);
    // the comparison operators must be the ones derived from partial_cmp
    t.op(&format!("cs lt {} {}", ss, us), &guarded(|| p_bool(s < u)), true);
    t.op(&format!("cs le {} {}", ss, us), &guarded(|| p_bool(s <= u)), true);
    t.op(&format!("cs gt {} {}", ss, us), &guarded(|| p_bool(s > u)), true);
    t.op(&format!("cs ge {} {}", ss, us), &guarded(|| p_bool(s >= u)), true);
    t.op(&format!("cs eq {} {}", ss, us), &guarded(|| p_bool(s == u)), true);
}

fn inter_list(t: &mut Trace, l: &[CharSet]) {
    let r = guarded(|| p_opt(&CharSet::inter_list(l), cs_str));
    t.count(if r == "none" { "inter_list=none" } else { "inter_list=some" });
    t.op(&format!("cs inter_list {}", p_list(l, cs_str)), &r, l.len() >= 2);
}

pub fn run(t: &mut Trace, rng: &mut Rng, thorough: bool) {
    t.rule = "all intervals [a,b] with a<=b over the boundary points {0,1,2,47,48,57,58,97,0xD800,0xDBFF,0xDFFF,0xE000,MAX-1,MAX}: every unary op at every point and at u32 values past the alphabet (MAX+1, MAX+2, 0x10FFFF, u32::MAX-1, u32::MAX), every binary op on every ordered pair, inter_list on lists of length 0..4 (all triples in thorough); plus seeded random intervals. Every case is distinct by construction (keyed by the operation line); all are counted non-trivial except inter_list on lists shorter than 2".into();
    let mut sets = Vec::new();
    for (i, &a) in POINTS.iter().enumerate() {
        for &b in &POINTS[i..] {
            sets.push(CharSet::range(a, b));
        }
    }
    let mut xs: Vec<u32> = POINTS.to_vec();
    xs.extend_from_slice(&[3, 46, 49, 56, 59, 96, 98, MAX_CHAR - 2]);
    // the argument is a u32: values past the alphabet (one-past-the-end bounds) are legal questions
    xs.extend_from_slice(&[MAX_CHAR + 1, MAX_CHAR + 2, 0x10FFFF, u32::MAX - 1, u32::MAX]);
    for s in &sets {
        unary(t, s, &xs);
    }
    for s in &sets {
        for u in &sets {
            binary(t, s, u);
        }
    }
    inter_list(t, &[]);
    for s in &sets {
        inter_list(t, &[*s]);
    }
    if thorough {
        for a in &sets {
            for b in &sets {
                for c in &sets {
                    inter_list(t, &[*a, *b, *c]);
                }
            }
        }
    }
    let n_rand = if thorough { 40000 } else { 4000 };
    for _ in 0..n_rand {
        let k = rng.range(2, 4) as usize;
        let l: Vec<CharSet> = (0..k).map(|_| *rng.pick(&sets)).collect();
        inter_list(t, &l);
    }
    // random intervals anywhere in the alphabet, neighbours of each other
    for _ in 0..n_rand {
        let a = rng.range(0, MAX_CHAR as u64) as u32;
        let w = rng.range(0, 50);
        let b = rng.range(a as u64, std::cmp::min(MAX_CHAR as u64, a as u64 + w)) as u32;
        let s = CharSet::range(a, b);
        let c = (a as i64 + rng.range(0, 60) as i64 - 30).clamp(0, MAX_CHAR as i64) as u32;
        let w = rng.range(0, 50);
        let d = rng.range(c as u64, std::cmp::min(MAX_CHAR as u64, c as u64 + w)) as u32;
        let u = CharSet::range(c, d);
        binary(t, &s, &u);
        unary(t, &s, &[a.saturating_sub(1), a, b, std::cmp::min(b + 1, MAX_CHAR), c, d]);
    }
}
