//! Family `lr`: LoopRange operations (C15).
//!
//! Encoding: a range is `i..j` (finite `[i,j]`) or `i..inf` (`[i,+infinity)`); a result range is
//! printed the same way (recovered from the derived `Debug` form `LoopRange(i, Some(j))` /
//! `LoopRange(i, None)`, since there is no public `end()`); an arithmetic-overflow panic is `PANIC`.
//!
//! Inputs: (1) regression corpus (doc-test and unit-test pairs, the overflow witnesses);
//! (2) exhaustive: all ranges with bounds in 0..=8 (quick; a superset of {0,1,2,3,5,7,inf}) or
//! 0..=16 (thorough): every unary op, contains at every point 0..=bound+2, scale / add_point by
//! 0..=8, every binary op on every ordered pair; (3) all ranges over a 14-value set reaching
//! u32::MAX, every ordered pair (the panic paths of add / mul / scale / right_mul_is_exact);
//! (4) seeded random ranges.  Runs in dev and release profiles.

use crate::rng::Rng;
use crate::trace::*;
use aws_smt_strings::loop_ranges::LoopRange;

const M: u32 = u32::MAX;

/// a range we built ourselves: (start, end) with `None` = +infinity
#[derive(Clone, Copy, PartialEq, Eq)]
struct R(u32, Option<u32>);

impl R {
    fn mk(&self) -> LoopRange {
        match self.1 {
            Some(j) => LoopRange::finite(self.0, j),
            None => LoopRange::infinite(self.0),
        }
    }
    fn s(&self) -> String {
        match self.1 {
            Some(j) => format!("{}..{}", self.0, j),
            None => format!("{}..inf", self.0),
        }
    }
}

/// canonical form of a result range, from its `Debug` output
fn lr_str(r: &LoopRange) -> String {
    let d = format!("{:?}", r);
    // LoopRange(i, Some(j))  |  LoopRange(i, None)
    let inner = d
        .strip_prefix("LoopRange(")
        .and_then(|x| x.strip_suffix(")"))
        .unwrap_or_else(|| panic!("unexpected Debug form {}", d));
    let (a, b) = inner.split_once(", ").unwrap_or_else(|| panic!("unexpected Debug form {}", d));
    let s = if b == "None" {
        format!("{}..inf", a)
    } else {
        let j = b
            .strip_prefix("Some(")
            .and_then(|x| x.strip_suffix(")"))
            .unwrap_or_else(|| panic!("unexpected Debug form {}", d));
        format!("{}..{}", a, j)
    };
    // the start is also available through the public getter: cross-check
    assert!(s.starts_with(&format!("{}..", r.start())));
    s
}

fn kind(res: &str) -> &'static str {
    if res == "PANIC" {
        "PANIC"
    } else if res.ends_with("..inf") {
        "inf"
    } else {
        "fin"
    }
}

fn unary(t: &mut Trace, r: &R, xs: &[u32], ks: &[u32]) {
    let rs = r.s();
    let lr = r.mk();
    t.op(&format!("lr start {}", rs), &guarded(|| lr.start().to_string()), true);
    t.op(&format!("lr is_finite {}", rs), &guarded(|| p_bool(lr.is_finite())), true);
    t.op(&format!("lr is_infinite {}", rs), &guarded(|| p_bool(lr.is_infinite())), true);
    t.op(&format!("lr is_point {}", rs), &guarded(|| p_bool(lr.is_point())), true);
    t.op(&format!("lr is_zero {}", rs), &guarded(|| p_bool(lr.is_zero())), true);
    t.op(&format!("lr is_one {}", rs), &guarded(|| p_bool(lr.is_one())), true);
    t.op(&format!("lr is_all {}", rs), &guarded(|| p_bool(lr.is_all())), true);
    let res = guarded(|| lr_str(&lr.shift()));
    t.op(&format!("lr shift {}", rs), &res, true);
    for &x in xs {
        let res = guarded(|| p_bool(lr.contains(x)));
        t.count(&format!("contains={}", res));
        t.op(&format!("lr contains {} {}", rs, x), &res, true);
    }
    for &k in ks {
        let res = guarded(|| lr_str(&lr.scale(k)));
        t.count(&format!("scale={}", kind(&res)));
        t.op(&format!("lr scale {} {}", rs, k), &res, true);
        let res = guarded(|| lr_str(&lr.add_point(k)));
        t.count(&format!("add_point={}", kind(&res)));
        t.op(&format!("lr add_point {} {}", rs, k), &res, true);
    }
}

fn binary(t: &mut Trace, r: &R, s: &R) {
    let (rs, ss) = (r.s(), s.s());
    let (a, b) = (r.mk(), s.mk());
    let res = guarded(|| p_bool(a.includes(&b)));
    t.count(&format!("includes={}", res));
    t.op(&format!("lr includes {} {}", rs, ss), &res, true);
    let res = guarded(|| lr_str(&a.add(&b)));
    t.count(&format!("add={}", kind(&res)));
    t.op(&format!("lr add {} {}", rs, ss), &res, true);
    let res = guarded(|| lr_str(&a.mul(&b)));
    t.count(&format!("mul={}", kind(&res)));
    t.op(&format!("lr mul {} {}", rs, ss), &res, true);
    let res = guarded(|| p_bool(a.right_mul_is_exact(&b)));
    // which branch of right_mul_is_exact decides
    let branch = if s.1 == Some(s.0) {
        "point"
    } else if r.1.is_none() {
        "self-infinite"
    } else {
        "self-finite"
    };
    t.count(&format!("right_mul_is_exact[{}]={}", branch, res));
    t.op(&format!("lr right_mul_is_exact {} {}", rs, ss), &res, true);
}

fn ranges_over(vals: &[u32]) -> Vec<R> {
    let mut v = Vec::new();
    for (i, &a) in vals.iter().enumerate() {
        for &b in &vals[i..] {
            v.push(R(a, Some(b)));
        }
        v.push(R(a, None));
    }
    v
}

fn rand_bound(rng: &mut Rng) -> u32 {
    match rng.below(6) {
        0 | 1 => rng.range(0, 12) as u32,
        2 => rng.range(0, 70000) as u32,
        3 => (M as u64 - rng.range(0, 5)) as u32,
        4 => *rng.pick(&[65535u32, 65536, 65537, 1 << 31, (1u32 << 31) - 1, M / 3, M / 3 + 1, 46340, 46341, 92681, 92682]),
        _ => rng.range(0, M as u64) as u32,
    }
}

fn rand_range(rng: &mut Rng) -> R {
    let a = rand_bound(rng);
    match rng.below(4) {
        0 => R(a, None),
        1 => R(a, Some(a)),
        2 => {
            let w = rng.range(0, 6) as u32;
            R(a, Some(a.saturating_add(w)))
        }
        _ => {
            let b = rand_bound(rng);
            R(a.min(b), Some(a.max(b)))
        }
    }
}

pub fn run(t: &mut Trace, rng: &mut Rng, thorough: bool) {
    t.rule = "all ranges [i,j] / [i,inf) with bounds in 0..=8 (quick) or 0..=16 (thorough): every unary op, contains at every point up to bound+2, scale and add_point by 0..=8, and includes/add/mul/right_mul_is_exact on every ordered pair; all ranges over {0,1,2,3,65535,65536,65537,2^31-1,2^31,MAX/3,MAX/3+1,MAX-2,MAX-1,MAX} with every ordered pair and large scale factors (overflow => PANIC); seeded random ranges (small, near 2^16, near 2^32, uniform). Every case is distinct by construction (keyed by the operation line) and counted non-trivial".into();

    // ---- regression corpus: documentation / unit-test pairs and the overflow witnesses
    let corpus: Vec<(R, R)> = vec![
        (R(2, Some(2)), R(0, None)),          // doc test: not exact
        (R(0, None), R(2, Some(2))),          // doc test: exact
        (R(0, Some(1)), R(3, Some(4))),       // doc of mul: {0,3,4} vs [0,4]
        (R(2, Some(3)), R(1, None)),          // [2,3]^+ exact
        (R(2, Some(2)), R(1, None)),          // 2^+ not exact
        (R(2, None), R(0, Some(1))),          // [2,inf)^opt not exact (gap element 1)
        (R(1, None), R(0, Some(1))),          // plus^opt = star
        (R(3, Some(4)), R(1, Some(5))),       // gap at 5
        (R(3, Some(4)), R(2, Some(5))),       // threshold: 2*(4-3) >= 3-1
        (R(1, Some(M)), R(2, None)),          // mul = [2,inf) but right_mul_is_exact overflows
        (R(1, Some(M)), R(0, Some(1))),       // add overflows in the upper bound only
        (R(M, None), R(1, Some(1))),          // add overflows in the lower bound
        (R(65536, None), R(65536, None)),     // mul overflows in the lower bound
        (R(1, Some(65536)), R(1, Some(65536))), // mul overflows in the upper bound only
        (R(0, None), R(0, Some(0))),          // 0 * infinity = 0
        (R(M, Some(M)), R(0, Some(0))),
    ];
    for (r, s) in &corpus {
        binary(t, r, s);
        binary(t, s, r);
    }

    // ---- exhaustive over small bounds
    let top: u32 = if thorough { 16 } else { 8 };
    let small_vals: Vec<u32> = (0..=top).collect();
    let small = ranges_over(&small_vals);
    let xs: Vec<u32> = (0..=top + 2).collect();
    let ks: Vec<u32> = (0..=8).collect();
    for r in &small {
        unary(t, r, &xs, &ks);
    }
    for r in &small {
        for s in &small {
            binary(t, r, s);
        }
    }

    // ---- values reaching u32::MAX: the panic paths
    let big_vals: [u32; 14] = [
        0, 1, 2, 3, 65535, 65536, 65537, M / 3, M / 3 + 1, (1u32 << 31) - 1, 1u32 << 31, M - 2, M - 1, M,
    ];
    let big = ranges_over(&big_vals);
    let bxs: [u32; 12] = [0, 1, 2, 65535, 65536, 65537, (1u32 << 31) - 1, 1u32 << 31, M / 3 + 1, M - 2, M - 1, M];
    let bks: [u32; 12] = [0, 1, 2, 3, 65535, 65536, 65537, (1u32 << 31) - 1, 1u32 << 31, M / 3 + 1, M - 1, M];
    for r in &big {
        unary(t, r, &bxs, &bks);
    }
    for r in &big {
        for s in &big {
            binary(t, r, s);
        }
    }

    // ---- seeded random ranges
    let n_rand = if thorough { 60000 } else { 5000 };
    for _ in 0..n_rand {
        let r = rand_range(rng);
        let s = rand_range(rng);
        binary(t, &r, &s);
        let k = match rng.below(3) {
            0 => rng.range(0, 8) as u32,
            1 => rand_bound(rng),
            _ => {
                // a factor close to the overflow threshold of the larger bound
                let e = r.1.unwrap_or(r.0).max(1);
                ((M / e) as u64 + rng.range(0, 2)).saturating_sub(1).min(M as u64) as u32
            }
        };
        let e = r.1.unwrap_or(r.0);
        unary(t, &r, &[r.0.saturating_sub(1), r.0, e, e.saturating_add(1), s.0], &[k]);
    }
}
