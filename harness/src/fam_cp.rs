//! Family `cp`: CharPartition (C11) and merge_partitions / merge_partition_list (C12).
//!
//! Encodings (identical to lean/Driver/FamCharPartition.lean):
//!   interval `a-b`; interval list `[a-b,c-d]`; partition `[a-b,c-d]|w` (intervals as stored +
//!   comp_witness, `[]|0` = new()); partition list `{P1;P2}`; ClassId `Interval:i`/`Complement`;
//!   CoverResult `CoveredBy:i`/`DisjointFromAll`/`Overlaps`; `get` prints its pair as `a-b`.
//!
//! Every partition is built through the real constructors (new / from_set / push / try_from_list /
//! try_from_iter / merge_partitions); the printed form is read back through `ranges()` and
//! `pick_complement()`.  Dev profile: `debug_assert!` and overflow checks are on, so a violated
//! precondition of `push` (also inside `merge_partitions`) or a u32 underflow surfaces as PANIC.

use crate::fam_cs::cs_str;
use crate::rng::Rng;
use crate::trace::*;
use aws_smt_strings::character_sets::{
    merge_partition_list, merge_partitions, CharPartition, CharSet, ClassId, CoverResult,
};
use aws_smt_strings::errors::Error;
use aws_smt_strings::smt_strings::MAX_CHAR;
use std::panic::{catch_unwind, AssertUnwindSafe};

type Iv = (u32, u32);

// ---------- printers ----------

fn iv_str(l: &[Iv]) -> String {
    p_list(l, |&(a, b)| format!("{}-{}", a, b))
}

pub fn cp_str(p: &CharPartition) -> String {
    let v: Vec<CharSet> = p.ranges().copied().collect();
    format!("{}|{}", p_list(&v, cs_str), p.pick_complement())
}

pub fn cps_str(l: &[CharPartition]) -> String {
    let mut s = String::from("{");
    for (i, p) in l.iter().enumerate() {
        if i > 0 {
            s.push(';');
        }
        s.push_str(&cp_str(p));
    }
    s.push('}');
    s
}

pub fn cid_str(c: ClassId) -> String {
    match c {
        ClassId::Interval(i) => format!("Interval:{}", i),
        ClassId::Complement => "Complement".into(),
    }
}

fn cover_str(c: CoverResult) -> String {
    match c {
        CoverResult::CoveredBy(i) => format!("CoveredBy:{}", i),
        CoverResult::DisjointFromAll => "DisjointFromAll".into(),
        CoverResult::Overlaps => "Overlaps".into(),
    }
}

fn err_str(e: &Error) -> String {
    format!("Err:{:?}", e)
}

fn res_cp(r: &Result<CharPartition, Error>) -> String {
    match r {
        Ok(p) => cp_str(p),
        Err(e) => err_str(e),
    }
}

fn sets(l: &[Iv]) -> Vec<CharSet> {
    l.iter().map(|&(a, b)| CharSet::range(a, b)).collect()
}

// ---------- constructors (each emits its own line) ----------

fn mk_new(t: &mut Trace) -> CharPartition {
    let p = CharPartition::new();
    t.op("cp new", &cp_str(&p), false);
    p
}

fn mk_from_set(t: &mut Trace, iv: Iv) -> CharPartition {
    let p = CharPartition::from_set(&CharSet::range(iv.0, iv.1));
    t.op(&format!("cp from_set {}-{}", iv.0, iv.1), &cp_str(&p), true);
    p
}

/// new() followed by pushes; `None` when a debug assertion of `push` fires
fn mk_push_seq(t: &mut Trace, l: &[Iv]) -> Option<CharPartition> {
    let r = catch_unwind(AssertUnwindSafe(|| {
        let mut p = CharPartition::new();
        for &(a, b) in l {
            p.push(a, b);
        }
        p
    }));
    let (s, out) = match r {
        Ok(p) => (cp_str(&p), Some(p)),
        Err(_) => ("PANIC".to_string(), None),
    };
    t.count(if out.is_some() { "push_seq=ok" } else { "push_seq=PANIC" });
    t.op(&format!("cp push_seq {}", iv_str(l)), &s, !l.is_empty());
    out
}

fn mk_try_from_list(t: &mut Trace, l: &[Iv], via_iter: bool) -> Option<CharPartition> {
    let v = sets(l);
    let r = catch_unwind(AssertUnwindSafe(|| {
        if via_iter {
            CharPartition::try_from_iter(v.iter().copied())
        } else {
            CharPartition::try_from_list(&v)
        }
    }));
    let (s, out) = match r {
        Ok(r) => (res_cp(&r), r.ok()),
        Err(_) => ("PANIC".to_string(), None),
    };
    t.count(if out.is_some() { "try_from=ok" } else { "try_from=err" });
    let name = if via_iter { "try_from_iter" } else { "try_from_list" };
    t.op(&format!("cp {} {}", name, iv_str(l)), &s, l.len() >= 2);
    out
}

// ---------- queries ----------

fn accessors(t: &mut Trace, p: &CharPartition) {
    let ps = cp_str(p);
    let nt = !p.is_empty();
    t.op(&format!("cp len {}", ps), &guarded(|| p.len().to_string()), nt);
    t.op(&format!("cp is_empty {}", ps), &guarded(|| p_bool(p.is_empty())), nt);
    t.op(
        &format!("cp ranges {}", ps),
        &guarded(|| {
            let v: Vec<CharSet> = p.ranges().copied().collect();
            p_list(&v, cs_str)
        }),
        nt,
    );
    let r = guarded(|| p_bool(p.empty_complement()));
    t.count(&format!("empty_complement={}", r));
    t.op(&format!("cp empty_complement {}", ps), &r, nt);
    t.op(&format!("cp pick_complement {}", ps), &guarded(|| p.pick_complement().to_string()), nt);
    t.op(&format!("cp num_classes {}", ps), &guarded(|| p.num_classes().to_string()), nt);
    t.op(
        &format!("cp class_ids {}", ps),
        &guarded(|| {
            let v: Vec<ClassId> = p.class_ids().collect();
            p_list(&v, |c| cid_str(*c))
        }),
        nt,
    );
    t.op(
        &format!("cp picks {}", ps),
        &guarded(|| {
            let v: Vec<u32> = p.picks().collect();
            p_nats(&v)
        }),
        nt,
    );
    let n = p.len();
    let mut idx: Vec<usize> = (0..=n + 1).collect();
    idx.push(n + 5);
    if n > 6 {
        // keep the output small for long partitions: both ends and the middle
        idx = vec![0, 1, n / 2, n - 2, n - 1, n, n + 1, n + 5];
    }
    for &i in &idx {
        let r = guarded(|| {
            let (a, b) = p.get(i);
            format!("{}-{}", a, b)
        });
        t.op(&format!("cp get {} {}", ps, i), &r, nt);
        t.op(&format!("cp start {} {}", ps, i), &guarded(|| p.start(i).to_string()), nt);
        t.op(&format!("cp end {} {}", ps, i), &guarded(|| p.end(i).to_string()), nt);
        let r = guarded(|| cs_str(&p.interval(i)));
        if r == "PANIC" {
            t.count("interval=PANIC");
        }
        t.op(&format!("cp interval {} {}", ps, i), &r, nt);
        t.op(&format!("cp pick {} {}", ps, i), &guarded(|| p.pick(i).to_string()), nt);
        let cid = ClassId::Interval(i);
        t.op(
            &format!("cp valid_class_id {} {}", ps, cid_str(cid)),
            &guarded(|| p_bool(p.valid_class_id(cid))),
            nt,
        );
        t.op(
            &format!("cp pick_in_class {} {}", ps, cid_str(cid)),
            &guarded(|| p.pick_in_class(cid).to_string()),
            nt,
        );
    }
    let cid = ClassId::Complement;
    t.op(
        &format!("cp valid_class_id {} {}", ps, cid_str(cid)),
        &guarded(|| p_bool(p.valid_class_id(cid))),
        nt,
    );
    let r = guarded(|| p.pick_in_class(cid).to_string());
    if r == "PANIC" {
        t.count("pick_in_class(Complement)=PANIC");
    }
    t.op(&format!("cp pick_in_class {} {}", ps, cid_str(cid)), &r, nt);
}

/// the partition's cut points and their neighbours, plus both ends of the alphabet
fn query_points(p: &CharPartition) -> Vec<u32> {
    let mut v: Vec<u32> = vec![0, MAX_CHAR];
    for c in p.ranges() {
        let a = c.pick();
        let b = a + c.size() - 1;
        for x in [a, b] {
            if x > 0 {
                v.push(x - 1);
            }
            v.push(x);
            if x < MAX_CHAR {
                v.push(x + 1);
            }
        }
    }
    v.sort_unstable();
    v.dedup();
    v
}

fn class_of_char(t: &mut Trace, p: &CharPartition, ps: &str, x: u32) {
    let r = guarded(|| cid_str(p.class_of_char(x)));
    t.count(if r == "Complement" { "class_of_char=Complement" } else { "class_of_char=Interval" });
    t.op(&format!("cp class_of_char {} {}", ps, x), &r, !p.is_empty());
}

/// where `a` lies relative to the partition (histogram only; linear scan)
fn region(p: &CharPartition, a: u32) -> &'static str {
    let n = p.len();
    if n == 0 {
        return "empty";
    }
    if a < p.start(0) {
        return "before_first";
    }
    if a > p.end(n - 1) {
        return "after_last";
    }
    for c in p.ranges() {
        if c.contains(a) {
            return "in_interval";
        }
    }
    "in_gap"
}

fn set_queries(t: &mut Trace, p: &CharPartition, ps: &str, a: u32, b: u32) {
    let s = CharSet::range(a, b);
    let ss = format!("{}-{}", a, b);
    let nt = !p.is_empty();
    let r = guarded(|| cover_str(p.interval_cover(&s)));
    let kind = r.split(':').next().unwrap_or("").to_string();
    t.count(&format!("cover {} {}", region(p, a), kind));
    t.op(&format!("cp interval_cover {} {}", ps, ss), &r, nt);
    let r = guarded(|| match p.class_of_set(&s) {
        Ok(c) => cid_str(c),
        Err(e) => err_str(&e),
    });
    t.op(&format!("cp class_of_set {} {}", ps, ss), &r, nt);
    t.op(&format!("cp good_char_set {} {}", ps, ss), &guarded(|| p_bool(p.good_char_set(&s))), nt);
}

/// all characters and all sets [a,b] over the partition's cut points +-1 (sampled when `max_sets`
/// is smaller than the number of pairs)
fn all_queries(t: &mut Trace, rng: &mut Rng, p: &CharPartition, max_sets: usize) {
    let ps = cp_str(p);
    let pts = query_points(p);
    for &x in &pts {
        class_of_char(t, p, &ps, x);
    }
    let n = pts.len();
    if n * (n + 1) / 2 <= max_sets {
        for i in 0..n {
            for j in i..n {
                set_queries(t, p, &ps, pts[i], pts[j]);
            }
        }
    } else {
        for _ in 0..max_sets {
            let i = rng.below(n as u64) as usize;
            // mostly short spans: the interesting alignments are between neighbouring cut points
            let w = if rng.chance(3, 4) { rng.below(8) } else { rng.below(n as u64) } as usize;
            let j = std::cmp::min(n - 1, i + w);
            set_queries(t, p, &ps, pts[i], pts[j]);
        }
    }
}

// ---------- generators ----------

/// all partitions whose end points are taken from `pts` (increasing), as interval lists
fn all_partitions(pts: &[u32]) -> Vec<Vec<Iv>> {
    fn rec(pts: &[u32], from: usize, cur: &mut Vec<Iv>, out: &mut Vec<Vec<Iv>>) {
        out.push(cur.clone());
        for i in from..pts.len() {
            for j in i..pts.len() {
                cur.push((pts[i], pts[j]));
                rec(pts, j + 1, cur, out);
                cur.pop();
            }
        }
    }
    let mut out = Vec::new();
    rec(pts, 0, &mut Vec::new(), &mut out);
    out
}

/// a random partition (sorted, disjoint interval list) over the sorted point set `pts`
fn random_partition(rng: &mut Rng, pts: &[u32], density: u64) -> Vec<Iv> {
    let mut l = Vec::new();
    let mut i = 0;
    while i < pts.len() {
        if rng.chance(density, 10) {
            let mut j = i;
            while j + 1 < pts.len() && rng.chance(1, 3) {
                j += 1;
            }
            l.push((pts[i], pts[j]));
            i = j + 1;
        } else {
            i += 1;
        }
    }
    l
}

fn shuffle<T>(rng: &mut Rng, v: &mut [T]) {
    for i in (1..v.len()).rev() {
        let j = rng.below(i as u64 + 1) as usize;
        v.swap(i, j);
    }
}

fn permutations<T: Clone>(v: &[T]) -> Vec<Vec<T>> {
    if v.len() <= 1 {
        return vec![v.to_vec()];
    }
    let mut out = Vec::new();
    for i in 0..v.len() {
        let mut rest = v.to_vec();
        let x = rest.remove(i);
        for mut p in permutations(&rest) {
            p.insert(0, x.clone());
            out.push(p);
        }
    }
    out
}

/// build a (valid) partition through a constructor path chosen by `how`
fn build(t: &mut Trace, rng: &mut Rng, l: &[Iv], how: u64) -> CharPartition {
    let p = match how % 4 {
        0 => mk_push_seq(t, l),
        1 => {
            let mut s = l.to_vec();
            shuffle(rng, &mut s);
            mk_try_from_list(t, &s, false)
        }
        2 => {
            let mut s = l.to_vec();
            s.reverse();
            mk_try_from_list(t, &s, true)
        }
        _ => {
            if l.is_empty() {
                Some(mk_new(t))
            } else if l.len() == 1 {
                Some(mk_from_set(t, l[0]))
            } else {
                mk_push_seq(t, l)
            }
        }
    };
    // `l` is sorted and disjoint: every path must succeed; if one does not, the line just emitted
    // already disagrees with the model, and we continue with the reference path
    p.unwrap_or_else(|| {
        let mut q = CharPartition::new();
        for &(a, b) in l {
            q = merge_partitions(&q, &CharPartition::from_set(&CharSet::range(a, b)));
        }
        q
    })
}

fn merge2(t: &mut Trace, p: &CharPartition, q: &CharPartition) {
    let r = guarded(|| cp_str(&merge_partitions(p, q)));
    if r == "PANIC" {
        t.count("merge=PANIC");
    }
    t.op(&format!("cp merge {} {}", cp_str(p), cp_str(q)), &r, !p.is_empty() && !q.is_empty());
}

fn merge_list(t: &mut Trace, l: &[CharPartition]) {
    let r = guarded(|| cp_str(&merge_partition_list(l.iter())));
    t.op(&format!("cp merge_list {}", cps_str(l)), &r, l.len() >= 2);
    // the same list through iterators that do not know their length (size_hint lower bound 0),
    // that over-report nothing, and by value through a chain: the argument is `impl Iterator`
    let r = guarded(|| cp_str(&merge_partition_list(l.iter().filter(|_| true))));
    t.op(&format!("cp merge_list_iter filter {}", cps_str(l)), &r, l.len() >= 2);
    let r = guarded(|| {
        let mut k = 0;
        cp_str(&merge_partition_list(std::iter::from_fn(|| {
            k += 1;
            l.get(k - 1)
        })))
    });
    t.op(&format!("cp merge_list_iter from_fn {}", cps_str(l)), &r, l.len() >= 2);
    let h = l.len() / 2;
    let r = guarded(|| cp_str(&merge_partition_list(l[..h].iter().chain(l[h..].iter().skip_while(|_| false)))));
    t.op(&format!("cp merge_list_iter chain {}", cps_str(l)), &r, l.len() >= 2);
}

/// `clone_from` into targets with a different history, and the iterators entered through `nth`
/// (which `skip`, `step_by` ... call) after some `next` calls
fn copies_and_iterators(t: &mut Trace, p: &CharPartition, others: &[&CharPartition]) {
    let ps = cp_str(p);
    let nt = !p.is_empty();
    for q in others {
        let r = guarded(|| {
            let mut x = (*q).clone();
            x.clone_from(p);
            cp_str(&x)
        });
        t.op(&format!("cp clone_from {} {}", cp_str(q), ps), &r, nt);
    }
    let r = guarded(|| cp_str(&p.clone()));
    t.op(&format!("cp clone {}", ps), &r, nt);
    let n = p.len();
    for k in 0..=std::cmp::min(n + 1, 4) {
        for j in 0..=std::cmp::min(n + 1, 4) {
            let r = guarded(|| {
                let mut it = p.class_ids();
                for _ in 0..k {
                    it.next();
                }
                match it.nth(j) {
                    Some(c) => cid_str(c),
                    None => "none".to_string(),
                }
            });
            t.op(&format!("cp class_ids_nth {} {} {}", ps, k, j), &r, nt);
            let r = guarded(|| {
                let mut it = p.picks();
                for _ in 0..k {
                    it.next();
                }
                match it.nth(j) {
                    Some(c) => c.to_string(),
                    None => "none".to_string(),
                }
            });
            t.op(&format!("cp picks_nth {} {} {}", ps, k, j), &r, nt);
        }
    }
    for step in 1..=3usize {
        let r = guarded(|| {
            let v: Vec<ClassId> = p.class_ids().step_by(step).take(n + 3).collect();
            p_list(&v, |c| cid_str(*c))
        });
        t.op(&format!("cp class_ids_step {} {}", ps, step), &r, nt);
        let r = guarded(|| {
            let v: Vec<u32> = p.picks().skip(step).take(n + 3).collect();
            p_nats(&v)
        });
        t.op(&format!("cp picks_skip {} {}", ps, step), &r, nt);
    }
}

// ---------- the run ----------

pub fn run(t: &mut Trace, rng: &mut Rng, thorough: bool) {
    t.rule = "partitions built through the real constructors (new/from_set/push/try_from_list/try_from_iter): ALL partitions over the 7 end points {0,1,2,3,MAX-2,MAX-1,MAX} (610), each queried at ALL characters and ALL sets [a,b] over its cut points +-1 and 0/MAX, every accessor at every index 0..len+1 and len+5, clone / clone_from into four targets with different complement witnesses, class_ids/picks entered through nth after k next calls (k,j <= 4) and through step_by/skip; random partitions over a 19-point set on both ends and the middle of the alphabet and long random partitions (binary-search depth); try_from_list on all ordered pairs (thorough: triples) of intervals over the 7 points and on all permutations of random lists (overlapping, equal starts); push_seq with violated preconditions; merge on all ordered pairs of the 89 partitions over {0,1,2,MAX-1,MAX} + random pairs, merge_list on all permutations of random lists, each list also through filter / from_fn / chain+skip_while iterators. A case counts as non-trivial when its partition(s) have at least one interval (lists: at least two elements); cases are distinct by operation line".into();

    // ---- maximal families: the alphabet tiled by consecutive blocks of width w, given in a
    // shuffled order (w = 1 is one singleton per code point: the largest pairwise disjoint family).
    // Only a summary is printed: Ok/Err, number of intervals, empty_complement, the class of MAX_CHAR,
    // of 0 and of a middle character, and whether interval i is the i-th block for sampled i.
    for &w in &[1u32, 2, 3, 1000, 65536] {
        let nblocks = (MAX_CHAR + 1 + w - 1) / w;
        let mut v: Vec<CharSet> = (0..nblocks)
            .map(|k| CharSet::range(k * w, std::cmp::min(k * w + w - 1, MAX_CHAR)))
            .collect();
        // deterministic shuffle: reverse halves
        let half = v.len() / 2;
        v[..half].reverse();
        let r = guarded(|| match CharPartition::try_from_iter(v.iter().copied()) {
            Err(e) => format!("Err:{:?}", e),
            Ok(p) => {
                let mid = (MAX_CHAR / 2 / w) * w;
                let sample_ok = [0u32, 1, nblocks / 2, nblocks - 1]
                    .iter()
                    .all(|&i| (i as usize) < p.len() && p.get(i as usize) == (i * w, std::cmp::min(i * w + w - 1, MAX_CHAR)));
                format!(
                    "Ok:{}:{}:{}:{}:{}:{}",
                    p.len(),
                    p_bool(p.empty_complement()),
                    cid_str(p.class_of_char(MAX_CHAR)),
                    cid_str(p.class_of_char(0)),
                    cid_str(p.class_of_char(mid)),
                    p_bool(sample_ok)
                )
            }
        });
        t.op(&format!("cp tiling {}", w), &r, true);
    }

    // ---- regression corpus (DESIGN.md §9 D2 and the crate's own examples)
    {
        let p = mk_push_seq(t, &[(10, 20), (30, 40)]).unwrap();
        let ps = cp_str(&p);
        set_queries(t, &p, &ps, 25, 35); // D2: starts in a gap, ends inside the next interval
        set_queries(t, &p, &ps, 21, 30);
        set_queries(t, &p, &ps, 21, 29);
        set_queries(t, &p, &ps, 5, 10);
        set_queries(t, &p, &ps, 41, 50);
        set_queries(t, &p, &ps, 35, 45);
        set_queries(t, &p, &ps, 25, 45);
        accessors(t, &p);
        all_queries(t, rng, &p, 1000);
        let p = mk_from_set(t, ('0' as u32, '9' as u32));
        let ps = cp_str(&p);
        set_queries(t, &p, &ps, '4' as u32, '8' as u32);
        set_queries(t, &p, &ps, 'a' as u32, 'z' as u32);
        set_queries(t, &p, &ps, '5' as u32, '?' as u32);
        let q = mk_try_from_list(t, &[(120, 400), (0, 10), (1000, 2000)], false).unwrap();
        accessors(t, &q);
        all_queries(t, rng, &q, 1000);
        let p1 = mk_push_seq(t, &[(48, 57), (97, 103)]).unwrap();
        let p2 = mk_push_seq(t, &[(53, 53), (99, 122)]).unwrap();
        merge2(t, &p1, &p2);
        merge2(t, &p2, &p1);
        let full = mk_push_seq(t, &[(0, 127), (128, MAX_CHAR)]).unwrap();
        accessors(t, &full);
        all_queries(t, rng, &full, 1000);
        let e = mk_new(t);
        accessors(t, &e);
        all_queries(t, rng, &e, 1000);
        merge2(t, &e, &e);
        merge2(t, &e, &full);
        merge_list(t, &[]);
    }

    // ---- exhaustive: all partitions over 7 end points, every constructor path
    let p7: [u32; 7] = [0, 1, 2, 3, MAX_CHAR - 2, MAX_CHAR - 1, MAX_CHAR];
    let all7 = all_partitions(&p7);
    // targets of `clone_from` with different complement witnesses: empty, covering the alphabet,
    // starting at 0, starting later
    let mut tg_zero = CharPartition::new();
    tg_zero.push(0, 5);
    tg_zero.push(7, MAX_CHAR);
    let mut tg_mid = CharPartition::new();
    tg_mid.push(10, 20);
    let tg_new = CharPartition::new();
    let tg_full = CharPartition::from_set(&CharSet::all_chars());
    for (k, l) in all7.iter().enumerate() {
        let p = build(t, rng, l, k as u64);
        copies_and_iterators(t, &p, &[&tg_new, &tg_full, &tg_zero, &tg_mid]);
        // the other constructor paths must give the same partition (the lines are compared by the driver)
        if k % 3 == 0 {
            let mut s = l.clone();
            shuffle(rng, &mut s);
            mk_try_from_list(t, &s, false);
        }
        accessors(t, &p);
        all_queries(t, rng, &p, 1000);
    }

    // ---- random partitions over cut points on both ends and in the middle of the alphabet
    let mut p19: Vec<u32> = vec![0, 1, 2, 3, 4, 5, 6, 47, 48, 57, 58, 65, 66];
    p19.extend((0..6).map(|k| MAX_CHAR - 5 + k));
    let n_rand = if thorough { 4000 } else { 130 };
    for k in 0..n_rand {
        let d = rng.range(2, 9);
        let l = random_partition(rng, &p19, d);
        let p = build(t, rng, &l, k);
        if k % 8 == 0 {
            accessors(t, &p);
            copies_and_iterators(t, &p, &[&tg_full, &tg_zero]);
        }
        all_queries(t, rng, &p, if thorough { 2000 } else { 250 });
    }

    // ---- long partitions anywhere in the alphabet (depth of the binary searches)
    let n_long = if thorough { 300 } else { 25 };
    for k in 0..n_long {
        let n_iv = rng.range(5, if k % 5 == 0 { 300 } else { 40 }) as usize;
        let mut cuts: Vec<u32> = Vec::new();
        // clusters of nearby points so that adjacency and 1-wide gaps are frequent
        while cuts.len() < 2 * n_iv {
            let base = rng.range(0, MAX_CHAR as u64) as u32;
            for _ in 0..rng.range(1, 6) {
                cuts.push(std::cmp::min(MAX_CHAR, base + rng.below(6) as u32));
            }
        }
        if k % 3 == 0 {
            cuts.push(0);
        }
        if k % 4 == 0 {
            cuts.push(MAX_CHAR);
        }
        cuts.sort_unstable();
        cuts.dedup();
        let l = random_partition(rng, &cuts, 7);
        let p = build(t, rng, &l, k);
        accessors(t, &p);
        all_queries(t, rng, &p, if thorough { 3000 } else { 600 });
    }

    // ---- try_from_list / try_from_iter on arbitrary (overlapping, equal-start) inputs
    let mut ivs7: Vec<Iv> = Vec::new();
    for (i, &a) in p7.iter().enumerate() {
        for &b in &p7[i..] {
            ivs7.push((a, b));
        }
    }
    for &x in &ivs7 {
        mk_try_from_list(t, &[x], false);
        for &y in &ivs7 {
            mk_try_from_list(t, &[x, y], false);
        }
    }
    if thorough {
        for &x in &ivs7 {
            for &y in &ivs7 {
                for &z in &ivs7 {
                    mk_try_from_list(t, &[x, y, z], true);
                }
            }
        }
    }
    let n_perm = if thorough { 3000 } else { 300 };
    for k in 0..n_perm {
        let n = rng.range(2, 4) as usize;
        let l: Vec<Iv> = if k % 2 == 0 {
            // arbitrary intervals: mostly overlapping
            (0..n).map(|_| *rng.pick(&ivs7)).collect()
        } else {
            // a disjoint list, sometimes with one duplicated / overlapping element added
            let mut l = random_partition(rng, &p19, 5);
            l.truncate(4);
            if rng.chance(1, 3) && !l.is_empty() {
                let (a, b) = *rng.pick(&l);
                l.push(if rng.chance(1, 2) { (a, b) } else { (a, std::cmp::min(MAX_CHAR, b + 1)) });
            }
            l
        };
        for perm in permutations(&l) {
            mk_try_from_list(t, &perm, k % 3 == 0);
        }
    }

    // ---- push with violated preconditions (dev profile only: debug_assert)
    if cfg!(debug_assertions) {
        let bad: Vec<Vec<Iv>> = vec![
            vec![(5, 3)],
            vec![(0, MAX_CHAR + 1)],
            vec![(MAX_CHAR + 1, MAX_CHAR + 1)],
            vec![(0, 5), (5, 9)],
            vec![(0, 5), (3, 9)],
            vec![(10, 20), (0, 5)],
            vec![(0, 5), (6, 9), (9, 12)],
            vec![(0, 5), (6, 9), (10, 9)],
            vec![(0, MAX_CHAR), (MAX_CHAR, MAX_CHAR)],
        ];
        for l in &bad {
            mk_push_seq(t, l);
        }
        for _ in 0..(if thorough { 2000 } else { 200 }) {
            let n = rng.range(1, 4) as usize;
            let l: Vec<Iv> = (0..n).map(|_| *rng.pick(&ivs7)).collect();
            mk_push_seq(t, &l);
        }
    }

    // ---- merge: all ordered pairs of the 89 partitions over 5 end points
    let p5: [u32; 5] = [0, 1, 2, MAX_CHAR - 1, MAX_CHAR];
    let all5: Vec<CharPartition> = all_partitions(&p5)
        .iter()
        .enumerate()
        .map(|(k, l)| build(t, rng, l, k as u64))
        .collect();
    for p in &all5 {
        for q in &all5 {
            merge2(t, p, q);
        }
    }
    // random pairs over the 7-point set and the 19-point set (nested, interleaved, adjacent, touching ends)
    let n_merge = if thorough { 60000 } else { 4000 };
    for k in 0..n_merge {
        let (l1, l2) = if k % 2 == 0 {
            (rng.pick(&all7).clone(), rng.pick(&all7).clone())
        } else {
            let d1 = rng.range(1, 9);
            let d2 = rng.range(1, 9);
            (random_partition(rng, &p19, d1), random_partition(rng, &p19, d2))
        };
        let p = build(t, rng, &l1, 0);
        let q = build(t, rng, &l2, 0);
        merge2(t, &p, &q);
        if k % 16 == 1 {
            // the result is a partition like any other: query it
            // (a panic here was already reported by the `merge` line above)
            if let Ok(m) = catch_unwind(AssertUnwindSafe(|| merge_partitions(&p, &q))) {
                all_queries(t, rng, &m, 60);
            }
        }
    }
    // merge_list: every order of the same list
    let n_ml = if thorough { 4000 } else { 400 };
    for k in 0..n_ml {
        let n = rng.range(0, 4) as usize;
        let l: Vec<CharPartition> = (0..n)
            .map(|_| {
                if k % 2 == 0 {
                    rng.pick(&all5).clone()
                } else {
                    let d = rng.range(1, 9);
                    let l = random_partition(rng, &p19, d);
                    build(t, rng, &l, 0)
                }
            })
            .collect();
        for perm in permutations(&l) {
            merge_list(t, &perm);
        }
    }
    // long lists (5..40 partitions, each contributing a boundary the others do not imply), in the
    // given order, reversed and rotated: tree-shaped or batched merges lose operands only beyond a
    // dozen elements
    let n_long = if thorough { 600 } else { 60 };
    for _ in 0..n_long {
        let n = rng.range(5, 40) as usize;
        let base = rng.range(0, 50) as u32;
        let l: Vec<CharPartition> = (0..n)
            .map(|k| {
                let a = base + 10 * k as u32 + if k % 2 == 1 { 2 } else { 0 };
                let mut p = CharPartition::new();
                p.push(a, a + 3);
                if rng.chance(1, 4) {
                    p.push(a + 5, a + 6);
                }
                p
            })
            .collect();
        merge_list(t, &l);
        let mut r = l.clone();
        r.reverse();
        merge_list(t, &r);
        let mut rot = l.clone();
        rot.rotate_left(n / 3);
        merge_list(t, &rot);
    }
}
