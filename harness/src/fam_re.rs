//! Family `re`: regular expressions through the real `ReManager` (and the thread-local manager
//! behind the `re_*` wrappers).  See lean/Driver/FamRe.lean for the line format.
//!
//! A session = one manager.  Operations are buffered; at the end of the session the manager's
//! complete term table is dumped first (it is the model's id oracle), then the operations.
//! Terms are referenced by id everywhere.

use crate::rng::Rng;
use crate::trace::*;
use aws_smt_strings::character_sets::*;
use aws_smt_strings::loop_ranges::LoopRange;
use aws_smt_strings::regular_expressions::*;
use aws_smt_strings::smt_strings::{SmtString, MAX_CHAR};

pub fn cs_str(c: &CharSet) -> String {
    let a = c.pick();
    format!("{}-{}", a, a + c.size() - 1)
}

/// (lo, hi) of a LoopRange via its Debug form `LoopRange(i, Some(j))` / `LoopRange(i, None)`
pub fn range_parts(r: &LoopRange) -> (u32, Option<u32>) {
    let d = format!("{:?}", r);
    let inner = d.trim_start_matches("LoopRange(").trim_end_matches(')');
    let mut it = inner.splitn(2, ", ");
    let lo: u32 = it.next().unwrap().parse().unwrap();
    let rest = it.next().unwrap();
    if rest == "None" {
        (lo, None)
    } else {
        let j = rest.trim_start_matches("Some(").trim_end_matches(')');
        (lo, Some(j.parse().unwrap()))
    }
}

pub fn enc_node(re: RegLan) -> String {
    let ids = |l: &[RegLan]| l.iter().map(|x| x.verif_id().to_string()).collect::<Vec<_>>().join(",");
    match re.verif_expr() {
        BaseRegLan::Empty => "E".into(),
        BaseRegLan::Epsilon => "e".into(),
        BaseRegLan::Range(c) => {
            let a = c.pick();
            format!("R:{}:{}", a, a + c.size() - 1)
        }
        BaseRegLan::Concat(l, r) => format!("C:{}:{}", l.verif_id(), r.verif_id()),
        BaseRegLan::Loop(e, r) => {
            let (lo, hi) = range_parts(r);
            match hi {
                None => format!("L:{}:{}:inf", e.verif_id(), lo),
                Some(h) => format!("L:{}:{}:{}", e.verif_id(), lo, h),
            }
        }
        BaseRegLan::Complement(e) => format!("N:{}", e.verif_id()),
        BaseRegLan::Union(l) => format!("U:{}", ids(l)),
        BaseRegLan::Inter(l) => format!("I:{}", ids(l)),
    }
}

fn p_cid(c: ClassId) -> String {
    match c {
        ClassId::Interval(i) => format!("I{}", i),
        ClassId::Complement => "C".into(),
    }
}

fn p_partition_of(re: RegLan) -> String {
    let p = re.verif_deriv_class();
    let v: Vec<String> = p.ranges().map(cs_str).collect();
    format!("[{}]|{}", v.join(","), p.pick_complement())
}

fn p_err(e: aws_smt_strings::errors::Error) -> String {
    format!("Err:{:?}", e)
}

struct Session<'a> {
    m: ReManager,
    ops: Vec<(String, String, bool)>,
    pool: Vec<(RegLan, u32)>, // term, approximate size
    chars: Vec<u32>,          // test alphabet
    maxlen: usize,
    observed: std::collections::HashSet<usize>,
    last_end: u32,
    t: &'a mut Trace,
}

impl<'a> Session<'a> {
    fn new(t: &'a mut Trace, chars: Vec<u32>, maxlen: usize) -> Self {
        Session { m: ReManager::new(), ops: Vec::new(), pool: Vec::new(), chars, maxlen, observed: std::collections::HashSet::new(), last_end: 96, t }
    }

    fn rec(&mut self, lhs: String, res: String, nontrivial: bool) {
        self.ops.push((lhs, res, nontrivial));
    }

    fn id(r: RegLan) -> String {
        r.verif_id().to_string()
    }

    /// run a constructor, record it, add the result to the pool
    fn cons<F: FnOnce(&mut ReManager) -> RegLan>(&mut self, lhs: String, size: u32, f: F) -> Option<RegLan> {
        let m = &mut self.m;
        let r = std::panic::catch_unwind(std::panic::AssertUnwindSafe(|| f(m)));
        match r {
            Ok(re) => {
                self.rec(lhs, Self::id(re), true);
                self.pool.push((re, size));
                Some(re)
            }
            Err(_) => {
                self.rec(lhs, "PANIC".into(), true);
                None
            }
        }
    }

    fn finish(mut self) {
        let n = self.m.verif_num_terms();
        self.t.op("re begin", "ok", false);
        for i in 0..n {
            let re = self.m.verif_term(i);
            self.t.op(&format!("re node {} {}", i, enc_node(re)), "ok", false);
        }
        self.t.op(
            &format!("re strings {} {}", p_nats(&self.chars), self.maxlen),
            "ok",
            false,
        );
        self.t.count(&format!("table_size_bucket={}", (n / 50) * 50));
        let ops = std::mem::take(&mut self.ops);
        for (lhs, res, nt) in ops {
            let opname = lhs.split(' ').nth(1).unwrap_or("?").to_string();
            self.t.count(&format!("op={}", opname));
            self.t.op(&lhs, &res, nt);
        }
    }
}

const CORE: [u32; 4] = [97, 98, 99, 100];

fn pick_char(rng: &mut Rng, chars: &[u32]) -> u32 {
    if rng.chance(4, 5) {
        *rng.pick(chars)
    } else {
        *rng.pick(&[0u32, 1, 96, 97, 98, 99, 100, 101, 120, 0xF0, 0xFF, 0x100, 0x110, 0x161, 0xFFFF, 0x10000, 0x10061, MAX_CHAR - 1, MAX_CHAR])
    }
}

fn rand_string(rng: &mut Rng, chars: &[u32], maxlen: u64) -> Vec<u32> {
    let n = rng.range(0, maxlen);
    (0..n).map(|_| pick_char(rng, chars)).collect()
}

fn rand_loop_range(rng: &mut Rng) -> LoopRange {
    let lo = *rng.pick(&[0u32, 0, 1, 1, 2, 3]);
    if rng.chance(1, 3) {
        LoopRange::infinite(lo)
    } else {
        let hi = lo + *rng.pick(&[0u32, 0, 1, 2, 3]);
        LoopRange::finite(lo, hi)
    }
}

fn lr_str(r: &LoopRange) -> String {
    let (lo, hi) = range_parts(r);
    match hi {
        None => format!("{}..inf", lo),
        Some(h) => format!("{}..{}", lo, h),
    }
}

/// one random constructor step
fn gen_constructor(s: &mut Session, rng: &mut Rng, size_cap: u32) {
    let n = s.pool.len();
    let pick = |rng: &mut Rng, pool: &Vec<(RegLan, u32)>| -> (RegLan, u32) {
        // bias towards recent terms, and away from the built-in constants (ids 0..5)
        let n = pool.len();
        let mut best = pool[rng.below(n as u64) as usize];
        for _ in 0..3 {
            let cand = if rng.chance(1, 2) && n > 6 {
                pool[n - 1 - rng.below(6) as usize]
            } else {
                pool[rng.below(n as u64) as usize]
            };
            best = cand;
            if cand.0.verif_id() >= 6 || rng.chance(1, 6) {
                break;
            }
        }
        best
    };
    let kind = rng.below(100);
    if n < 4 || kind < 14 {
        // atoms
        match rng.below(9) {
            0 => {
                let a = pick_char(rng, &s.chars.clone());
                let b0 = pick_char(rng, &s.chars.clone());
                let (a, b) = if a <= b0 { (a, b0) } else { (b0, a) };
                s.cons(format!("re range {} {}", a, b), 1, |m| m.range(a, b));
            }
            1 => {
                let a = pick_char(rng, &s.chars.clone());
                s.cons(format!("re char {}", a), 1, |m| m.char(a));
            }
            2 => {
                let w = rand_string(rng, &s.chars.clone(), 3);
                let w2 = w.clone();
                s.cons(format!("re str {}", p_nats(&w)), w.len() as u32 + 1, move |m| m.str(&SmtString::from(&w2[..])));
            }
            3 => {
                let a = pick_char(rng, &s.chars.clone());
                let b = pick_char(rng, &s.chars.clone());
                let (s1, s2): (Vec<u32>, Vec<u32>) = match rng.below(6) {
                    0 => (vec![], vec![b]),
                    1 => (vec![a, a], vec![b]),
                    _ => (vec![a], vec![b]),
                };
                let (t1, t2) = (s1.clone(), s2.clone());
                s.cons(format!("re smt_range {} {}", p_nats(&s1), p_nats(&s2)), 1, move |m| {
                    m.smt_range(&SmtString::from(&t1[..]), &SmtString::from(&t2[..]))
                });
            }
            4 => {
                let c = *rng.pick(&["empty", "full", "epsilon", "sigma_plus", "all_chars"]);
                s.cons(format!("re {}", c), 1, |m| match c {
                    "empty" => m.empty(),
                    "full" => m.full(),
                    "epsilon" => m.epsilon(),
                    "sigma_plus" => m.sigma_plus(),
                    _ => m.all_chars(),
                });
            }
            _ => {
                // ranges aligned with earlier ones: adjacent to the previous range, or starting at 0,
                // or ending at MAX_CHAR (alphabet-covering class structures)
                let a = match rng.below(6) {
                    0 => 0,
                    1 | 2 => std::cmp::min(s.last_end.saturating_add(1), MAX_CHAR),
                    _ => pick_char(rng, &s.chars.clone()),
                };
                let w = rng.range(0, 3) as u32;
                let b = if rng.chance(1, 8) { MAX_CHAR } else { std::cmp::min(a + w, MAX_CHAR) };
                s.last_end = b;
                s.cons(format!("re char_set {}-{}", a, b), 1, |m| m.char_set(CharSet::range(a, b)));
            }
        }
        return;
    }
    let (x, sx) = pick(rng, &s.pool);
    let (y, sy) = pick(rng, &s.pool);
    if sx + sy > size_cap {
        return;
    }
    let (ix, iy) = (Session::id(x), Session::id(y));
    if rng.chance(1, 12) {
        // law-shaped terms (absorption, idempotence, excluded middle): operands that share a
        // sub-term, where the subsumption test can fire in both directions
        let w = if rng.chance(1, 2) {
            // a range covering x's first characters, so that x ⊆ y is provable
            let a = pick_char(rng, &s.chars.clone());
            let b = std::cmp::min(a + 3, MAX_CHAR);
            s.cons(format!("re range {} {}", a, b), 1, |m| m.range(a, b)).unwrap_or(y)
        } else {
            y
        };
        let iw = Session::id(w);
        match rng.below(5) {
            0 => {
                if let Some(i) = s.cons(format!("re inter {} {}", ix, iw), sx + sy + 1, |m| m.inter(x, w)) {
                    let ii = Session::id(i);
                    if rng.chance(1, 2) {
                        s.cons(format!("re union {} {}", ix, ii), 2 * sx + sy + 2, |m| m.union(x, i));
                    } else {
                        s.cons(format!("re union {} {}", ii, ix), 2 * sx + sy + 2, |m| m.union(i, x));
                    }
                }
            }
            1 => {
                if let Some(u) = s.cons(format!("re union {} {}", ix, iw), sx + sy + 1, |m| m.union(x, w)) {
                    let iu = Session::id(u);
                    s.cons(format!("re inter {} {}", ix, iu), 2 * sx + sy + 2, |m| m.inter(x, u));
                    s.cons(format!("re union {} {}", iu, ix), 2 * sx + sy + 2, |m| m.union(u, x));
                }
            }
            2 => {
                if let Some(c) = s.cons(format!("re concat {} 3", ix), sx + 2, |m| {
                    let f = m.full();
                    m.concat(x, f)
                }) {
                    let ic = Session::id(c);
                    s.cons(format!("re union {} {}", ix, ic), 2 * sx + 3, |m| m.union(x, c));
                    if let Some(i) = s.cons(format!("re inter {} {}", ix, ic), 2 * sx + 3, |m| m.inter(x, c)) {
                        s.cons(format!("re union {} {}", Session::id(i), ix), 3 * sx + 4, |m| m.union(i, x));
                    }
                }
            }
            3 => {
                s.cons(format!("re diff {} {}", ix, ix), 2 * sx + 1, |m| m.diff(x, x));
                if let Some(c) = s.cons(format!("re comp {}", ix), sx + 1, |m| m.complement(x)) {
                    s.cons(format!("re union {} {}", ix, Session::id(c)), 2 * sx + 2, |m| m.union(x, c));
                    s.cons(format!("re inter {} {}", Session::id(c), ix), 2 * sx + 2, |m| m.inter(c, x));
                }
            }
            _ => {
                s.cons(format!("re union_list [{},{},{}]", ix, iw, ix), 2 * sx + sy + 1, |m| m.union_list([x, w, x]));
                s.cons(format!("re inter_list [{},{},{}]", ix, iw, ix), 2 * sx + sy + 1, |m| m.inter_list([x, w, x]));
            }
        }
        return;
    }
    if rng.chance(1, 16) {
        // hidden emptiness: a semantically (not syntactically) empty term buried under concat /
        // zero-able loop / concat — the structural shortcuts of start_char, is_empty, derivatives
        let b = s.cons("re char 98".into(), 1, |m| m.char(98));
        let c = s.cons("re char 99".into(), 1, |m| m.char(99));
        if let (Some(b), Some(c)) = (b, c) {
            if let Some(em) = s.cons(format!("re inter {} {}", Session::id(b), Session::id(c)), 3, |m| m.inter(b, c)) {
                let iem = Session::id(em);
                if let Some(yy) = s.cons(format!("re concat {} {}", ix, iem), sx + 4, |m| m.concat(x, em)) {
                    let r = *rng.pick(&[LoopRange::star(), LoopRange::opt(), LoopRange::finite(0, 2), LoopRange::plus()]);
                    if let Some(z) = s.cons(format!("re mk_loop {} {}", Session::id(yy), lr_str(&r)), sx + 5, |m| m.mk_loop(yy, r)) {
                        s.cons(format!("re concat {} {}", Session::id(z), iy), sx + sy + 6, |m| m.concat(z, y));
                    }
                }
            }
        }
        return;
    }
    if rng.chance(1, 14) {
        // wildcard prefixes/suffixes: (bounded or unbounded) loops of Σ concatenated with a term
        if let Some(sg) = s.cons("re all_chars".into(), 1, |m| m.all_chars()) {
            let r = match rng.below(5) {
                0 => LoopRange::point(rng.range(1, 3) as u32),
                1 => LoopRange::opt(),
                2 => LoopRange::finite(rng.below(2) as u32, rng.range(2, 3) as u32),
                3 => LoopRange::star(),
                _ => LoopRange::plus(),
            };
            if let Some(l) = s.cons(format!("re mk_loop {} {}", Session::id(sg), lr_str(&r)), 2, |m| m.mk_loop(sg, r)) {
                let il = Session::id(l);
                if rng.chance(2, 3) {
                    s.cons(format!("re concat {} {}", il, ix), sx + 3, |m| m.concat(l, x));
                } else {
                    s.cons(format!("re concat {} {}", ix, il), sx + 3, |m| m.concat(x, l));
                }
            }
        }
        return;
    }
    if kind < 30 {
        s.cons(format!("re concat {} {}", ix, iy), sx + sy + 1, |m| m.concat(x, y));
    } else if kind < 42 {
        s.cons(format!("re union {} {}", ix, iy), sx + sy + 1, |m| m.union(x, y));
    } else if kind < 52 {
        s.cons(format!("re inter {} {}", ix, iy), sx + sy + 1, |m| m.inter(x, y));
    } else if kind < 60 {
        s.cons(format!("re comp {}", ix), sx + 1, |m| m.complement(x));
    } else if kind < 65 {
        s.cons(format!("re diff {} {}", ix, iy), sx + sy + 1, |m| m.diff(x, y));
    } else if kind < 71 {
        s.cons(format!("re star {}", ix), sx + 1, |m| m.star(x));
    } else if kind < 75 {
        s.cons(format!("re plus {}", ix), sx + 1, |m| m.plus(x));
    } else if kind < 79 {
        s.cons(format!("re opt {}", ix), sx + 1, |m| m.opt(x));
    } else if kind < 82 {
        let k = rng.below(4) as u32;
        if sx * std::cmp::max(k, 1) <= size_cap {
            s.cons(format!("re exp {} {}", ix, k), sx * std::cmp::max(k, 1) + 1, |m| m.exp(x, k));
        }
    } else if kind < 85 {
        let i = rng.below(4) as u32;
        let j = rng.below(4) as u32;
        s.cons(format!("re smt_loop {} {} {}", ix, i, j), sx * 2 + 1, |m| m.smt_loop(x, i, j));
    } else if kind < 91 {
        let r = rand_loop_range(rng);
        s.cons(format!("re mk_loop {} {}", ix, lr_str(&r)), sx * 2 + 1, |m| m.mk_loop(x, r));
    } else {
        // n-ary
        let k = rng.range(0, 4) as usize;
        let mut items = Vec::new();
        let mut tot = 1;
        for _ in 0..k {
            let (z, sz) = pick(rng, &s.pool);
            items.push(z);
            tot += sz;
        }
        if tot > size_cap {
            return;
        }
        let ids: Vec<u32> = items.iter().map(|z| z.verif_id() as u32).collect();
        let its = items.clone();
        match rng.below(4) {
            0 => s.cons(format!("re concat_list {}", p_nats(&ids)), tot, move |m| m.concat_list(its)),
            1 => s.cons(format!("re union_list {}", p_nats(&ids)), tot, move |m| m.union_list(its)),
            2 => s.cons(format!("re inter_list {}", p_nats(&ids)), tot, move |m| m.inter_list(its)),
            _ => s.cons(format!("re diff_list {} {}", ix, p_nats(&ids)), tot + sx, move |m| m.diff_list(x, its)),
        };
    }
}

/// cut points of a term's derivative classes, ±1
fn cut_points(re: RegLan) -> Vec<u32> {
    let mut v = vec![0u32, MAX_CHAR];
    for c in re.char_ranges() {
        let a = c.pick();
        let b = a + c.size() - 1;
        for x in [a.saturating_sub(1), a, b, std::cmp::min(b + 1, MAX_CHAR)] {
            v.push(x);
        }
    }
    v.sort_unstable();
    v.dedup();
    v
}

fn guarded_m<F: FnOnce(&mut ReManager) -> String>(m: &mut ReManager, f: F) -> String {
    match std::panic::catch_unwind(std::panic::AssertUnwindSafe(|| f(m))) {
        Ok(s) => s,
        Err(_) => "PANIC".into(),
    }
}

/// observation ops on one term
fn observe(s: &mut Session, rng: &mut Rng, e: RegLan, size: u32, heavy: bool) {
    if !s.observed.insert(e.verif_id()) {
        return;
    }
    let ie = Session::id(e);
    s.rec(format!("re nullable {}", ie), p_bool(e.nullable), true);
    s.rec(format!("re deriv_class {}", ie), p_partition_of(e), true);
    let cids: Vec<ClassId> = e.class_ids().collect();
    s.rec(format!("re class_ids {}", ie), p_list(&cids, |c| p_cid(*c)), true);
    s.rec(format!("re is_empty_syn {}", ie), p_bool(e.is_empty()), false);
    // membership
    let chars = s.chars.clone();
    for _ in 0..4 {
        let w = rand_string(rng, &chars, 5);
        let r = guarded_m(&mut s.m, |m| p_bool(m.str_in_re(&SmtString::from(&w[..]), e)));
        s.rec(format!("re str_in_re {} {}", ie, p_nats(&w)), r, true);
    }
    // derivatives at cut points
    let cps = cut_points(e);
    for &c in cps.iter().take(10) {
        let r = guarded_m(&mut s.m, |m| Session::id(m.char_derivative(e, c)));
        s.rec(format!("re char_deriv {} {}", ie, c), r, true);
    }
    for &cid in cids.iter().take(6) {
        let r = guarded_m(&mut s.m, |m| match m.class_derivative(e, cid) {
            Ok(d) => Session::id(d),
            Err(x) => p_err(x),
        });
        s.rec(format!("re class_deriv {} {}", ie, p_cid(cid)), r, true);
    }
    // invalid class ids
    let bad = ClassId::Interval(e.num_deriv_classes() + rng.below(2) as usize);
    let r = guarded_m(&mut s.m, |m| match m.class_derivative(e, bad) {
        Ok(d) => Session::id(d),
        Err(x) => p_err(x),
    });
    s.rec(format!("re class_deriv {} {}", ie, p_cid(bad)), r, true);
    if e.empty_complement() {
        let r = guarded_m(&mut s.m, |m| match m.class_derivative(e, ClassId::Complement) {
            Ok(d) => Session::id(d),
            Err(x) => p_err(x),
        });
        s.rec(format!("re class_deriv {} C", ie), r, true);
    }
    // set derivatives over the cut points
    let k = cps.len();
    for _ in 0..std::cmp::min(8, k * k) {
        let a = cps[rng.below(k as u64) as usize];
        let b = cps[rng.below(k as u64) as usize];
        let (a, b) = if a <= b { (a, b) } else { (b, a) };
        let set = CharSet::range(a, b);
        let r = guarded_m(&mut s.m, |m| match m.set_derivative(e, &set) {
            Ok(d) => Session::id(d),
            Err(x) => p_err(x),
        });
        s.t.count(if r.starts_with("Err") { "set_deriv=Err" } else { "set_deriv=Ok" });
        s.rec(format!("re set_deriv {} {}-{}", ie, a, b), r, true);
    }
    let w = rand_string(rng, &chars, 4);
    let r = guarded_m(&mut s.m, |m| Session::id(m.str_derivative(e, &SmtString::from(&w[..]))));
    s.rec(format!("re str_deriv {} {}", ie, p_nats(&w)), r, true);

    if heavy && size <= 22 {
        let r = guarded_m(&mut s.m, |m| {
            let v: Vec<String> = m.iter_derivatives(e).map(|x| x.verif_id().to_string()).collect();
            format!("[{}]", v.join(","))
        });
        let nd = r.matches(',').count() + 1;
        s.t.count(&format!("closure_size_bucket={}", std::cmp::min(nd / 4 * 4, 40)));
        s.rec(format!("re iter_derivs {}", ie), r, true);
        let r = guarded_m(&mut s.m, |m| p_bool(m.is_empty_re(e)));
        s.t.count(&format!("is_empty_re={}", r));
        s.rec(format!("re is_empty_re {}", ie), r, true);
        let r = guarded_m(&mut s.m, |m| match m.get_string(e) {
            None => "none".into(),
            Some(w) => format!("some:{}", p_nats(w.as_ref())),
        });
        s.rec(format!("re get_string {}", ie), r, true);
        // history: the same questions about the derivatives just explored (their answers must not
        // depend on what an earlier search left behind in the manager), then about e again
        let closure_ids: Vec<usize> = guarded_m(&mut s.m, |m| {
            let v: Vec<String> = m.iter_derivatives(e).map(|x| x.verif_id().to_string()).collect();
            v.join(",")
        })
        .split(',')
        .filter_map(|x| x.parse().ok())
        .collect();
        for &did in closure_ids.iter().skip(1).take(6) {
            let d = s.m.verif_term(did);
            let r = guarded_m(&mut s.m, |m| p_bool(m.is_empty_re(d)));
            s.rec(format!("re is_empty_re {}", did), r, true);
            let r = guarded_m(&mut s.m, |m| match m.get_string(d) {
                None => "none".into(),
                Some(w) => format!("some:{}", p_nats(w.as_ref())),
            });
            s.rec(format!("re get_string {}", did), r, true);
        }
        let r = guarded_m(&mut s.m, |m| p_bool(m.is_empty_re(e)));
        s.rec(format!("re is_empty_re {}", ie), r, true);
        for &c in cps.iter().take(5) {
            let r = guarded_m(&mut s.m, |m| p_bool(m.start_char(e, c)));
            s.t.count(&format!("start_char={}", r));
            s.rec(format!("re start_char {} {}", ie, c), r, true);
        }
        for &cid in cids.iter().take(3) {
            let r = guarded_m(&mut s.m, |m| match m.start_class(e, cid) {
                Ok(b) => p_bool(b),
                Err(x) => p_err(x),
            });
            s.rec(format!("re start_class {} {}", ie, p_cid(cid)), r, true);
        }
        let r = guarded_m(&mut s.m, |m| match m.start_class(e, bad) {
            Ok(b) => p_bool(b),
            Err(x) => p_err(x),
        });
        s.rec(format!("re start_class {} {}", ie, p_cid(bad)), r, true);
        // compilation
        let r = guarded_m(&mut s.m, |m| crate::fam_aut::aut_str(&m.compile(e)));
        s.rec(format!("re compile {}", ie), r, true);
        let r = guarded_m(&mut s.m, |m| m.compile(e).num_states().to_string());
        s.rec(format!("re compile_size {}", ie), r, true);
        let k = nd;
        for n in [0usize, k.saturating_sub(1), k, k + 1] {
            let r = guarded_m(&mut s.m, |m| match m.try_compile(e, n) {
                None => "none".into(),
                Some(a) => format!("some:{}", crate::fam_aut::aut_str(&a)),
            });
            s.t.count(if r == "none" { "try_compile=none" } else { "try_compile=some" });
            s.rec(format!("re try_compile {} {}", ie, n), r, true);
            // C19 only answers for Some/None and the number of states
            let r = guarded_m(&mut s.m, |m| match m.try_compile(e, n) {
                None => "none".into(),
                Some(a) => format!("some:{}", a.num_states()),
            });
            s.rec(format!("re try_compile_size {} {}", ie, n), r, true);
        }
        // search (hook) on short strings
        for _ in 0..2 {
            let w = rand_string(rng, &chars, 5);
            let k = rng.below(w.len() as u64 + 2) as usize;
            let allow = rng.chance(1, 2);
            let r = guarded_m(&mut s.m, |m| {
                match aws_smt_strings::verif_hooks::naive_re_search(m, e, &w, k, allow) {
                    aws_smt_strings::verif_hooks::SearchResult::Found(i, j) => format!("some:{}:{}", i, j),
                    aws_smt_strings::verif_hooks::SearchResult::NotFound => "none".into(),
                }
            });
            s.rec(format!("re re_search {} {} {} {}", ie, p_nats(&w), k, p_bool(allow)), r, true);
        }
    }
}

fn corpus(t: &mut Trace) {
    // D1: star/opt/loop of the empty language; D2: straddling set derivative; D8: start_char
    let mut s = Session::new(t, vec![97, 98, 99], 3);
    let e = s.cons("re empty".into(), 1, |m| m.empty()).unwrap();
    let ie = Session::id(e);
    let st = s.cons(format!("re star {}", ie), 2, |m| m.star(e)).unwrap();
    s.cons(format!("re opt {}", ie), 2, |m| m.opt(e));
    s.cons(format!("re smt_loop {} 0 3", ie), 2, |m| m.smt_loop(e, 0, 3));
    s.cons(format!("re plus {}", ie), 2, |m| m.plus(e));
    let r = guarded_m(&mut s.m, |m| p_bool(m.str_in_re(&SmtString::from(""), st)));
    s.rec(format!("re str_in_re {} []", Session::id(st)), r, true);
    // ([a-z] ∪ [0-9])+ with the straddling set [60,100]
    let az = s.cons("re range 97 122".into(), 1, |m| m.range(97, 122)).unwrap();
    let dg = s.cons("re range 48 57".into(), 1, |m| m.range(48, 57)).unwrap();
    let u = s.cons(format!("re union {} {}", Session::id(az), Session::id(dg)), 3, |m| m.union(az, dg)).unwrap();
    let p = s.cons(format!("re plus {}", Session::id(u)), 4, |m| m.plus(u)).unwrap();
    let set = CharSet::range(60, 100);
    let r = guarded_m(&mut s.m, |m| match m.set_derivative(p, &set) {
        Ok(d) => Session::id(d),
        Err(x) => p_err(x),
    });
    s.rec(format!("re set_deriv {} 60-100", Session::id(p)), r, true);
    // sigma ∩ "ab": no member starts with 'a'
    let sg = s.cons("re all_chars".into(), 1, |m| m.all_chars()).unwrap();
    let ab = s.cons("re str [97,98]".into(), 3, |m| m.str(&SmtString::from("ab"))).unwrap();
    let it = s.cons(format!("re inter {} {}", Session::id(sg), Session::id(ab)), 5, |m| m.inter(sg, ab)).unwrap();
    let r = guarded_m(&mut s.m, |m| p_bool(m.start_char(it, 97)));
    s.rec(format!("re start_char {} 97", Session::id(it)), r, true);
    let all: Vec<(RegLan, u32)> = s.pool.clone();
    let mut rng = Rng::new(7);
    for (e, sz) in all {
        observe(&mut s, &mut rng, e, sz, true);
    }
    s.finish();
}

fn member_ops(s: &mut Session, e: RegLan, words: &[Vec<u32>]) {
    let ie = Session::id(e);
    for w in words {
        let r = guarded_m(&mut s.m, |m| p_bool(m.str_in_re(&SmtString::from(&w[..]), e)));
        s.rec(format!("re str_in_re {} {}", ie, p_nats(w)), r, true);
    }
}

/// loops over one body with different ranges, combined by union / intersection / concatenation /
/// outer loops, alone and behind a prefix character (so that the combination only arises inside a
/// derivative); bodies include variable-length ones (a|aa, ε|a, Σ*b).  Membership is asked for
/// every power of the body's words up to 10 copies.
fn loop_algebra_session(t: &mut Trace, rng: &mut Rng, maxlen: usize) {
    let mut s = Session::new(t, vec![97, 98, 99], maxlen);
    let id = Session::id;
    let a = s.cons("re char 97".into(), 1, |m| m.char(97)).unwrap();
    let b = s.cons("re char 98".into(), 1, |m| m.char(98)).unwrap();
    let c = s.cons("re char 99".into(), 1, |m| m.char(99)).unwrap();
    let aa = s.cons(format!("re concat {} {}", id(a), id(a)), 2, |m| m.concat(a, a)).unwrap();
    let body = match rng.below(5) {
        0 => a,
        1 => s.cons(format!("re union {} {}", id(a), id(aa)), 3, |m| m.union(a, aa)).unwrap(),
        2 => s.cons(format!("re opt {}", id(a)), 2, |m| m.opt(a)).unwrap(),
        3 => s.cons("re str [97,98]".into(), 3, |m| m.str(&SmtString::from("ab"))).unwrap(),
        _ => {
            let f = s.cons("re full".into(), 1, |m| m.full()).unwrap();
            s.cons(format!("re concat {} {}", id(f), id(b)), 3, |m| m.concat(f, b)).unwrap()
        }
    };
    let ranges = [
        LoopRange::opt(), LoopRange::point(2), LoopRange::point(3), LoopRange::finite(2, 3), LoopRange::finite(3, 4),
        LoopRange::finite(4, 5), LoopRange::star(), LoopRange::plus(), LoopRange::infinite(2), LoopRange::infinite(3),
    ];
    let words: Vec<Vec<u32>> = {
        let mut v = Vec::new();
        for n in 0..=10usize {
            v.push(vec![97u32; n]);
        }
        for n in 1..=5usize {
            v.push([97u32, 98].iter().cycle().take(2 * n).cloned().collect());
            let mut x = vec![99u32];
            x.extend(vec![97u32; n]);
            v.push(x);
        }
        v
    };
    let ib = id(body);
    let mut results: Vec<(RegLan, u32)> = Vec::new();
    for _ in 0..14 {
        let r1 = *rng.pick(&ranges);
        let r2 = *rng.pick(&ranges);
        let l1 = match s.cons(format!("re mk_loop {} {}", ib, lr_str(&r1)), 5, |m| m.mk_loop(body, r1)) { Some(x) => x, None => continue };
        let l2 = match s.cons(format!("re mk_loop {} {}", ib, lr_str(&r2)), 5, |m| m.mk_loop(body, r2)) { Some(x) => x, None => continue };
        let (i1, i2) = (id(l1), id(l2));
        let comb = match rng.below(7) {
            0 => s.cons(format!("re union {} {}", i1, i2), 11, |m| m.union(l1, l2)),
            1 => s.cons(format!("re inter {} {}", i1, i2), 11, |m| m.inter(l1, l2)),
            2 => s.cons(format!("re concat {} {}", i1, i2), 11, |m| m.concat(l1, l2)),
            3 => s.cons(format!("re plus {}", i1), 6, |m| m.plus(l1)),
            4 => s.cons(format!("re mk_loop {} {}", i1, lr_str(&r2)), 6, |m| m.mk_loop(l1, r2)),
            5 => s.cons(format!("re diff {} {}", i1, i2), 11, |m| m.diff(l1, l2)),
            _ => {
                // behind a prefix: c·l1 op c·l2, so the loop combination only appears in a derivative
                let p1 = s.cons(format!("re concat {} {}", id(c), i1), 7, |m| m.concat(c, l1));
                let p2 = s.cons(format!("re concat {} {}", id(c), i2), 7, |m| m.concat(c, l2));
                match (p1, p2) {
                    (Some(p1), Some(p2)) => {
                        if rng.chance(1, 2) {
                            s.cons(format!("re union {} {}", id(p1), id(p2)), 15, |m| m.union(p1, p2))
                        } else {
                            s.cons(format!("re inter {} {}", id(p1), id(p2)), 15, |m| m.inter(p1, p2))
                        }
                    }
                    _ => None,
                }
            }
        };
        if let Some(e) = comb {
            results.push((e, 12));
        }
    }
    for (e, sz) in results {
        member_ops(&mut s, e, &words);
        observe(&mut s, rng, e, sz, true);
    }
    s.finish();
}

/// the same string (or language) reached along different constructor paths — str("abab") vs
/// (str "ab")^2 vs chars concatenated left-nested — and then combined (intersection, union with a
/// complement, difference): hash-consing does not canonicalise these, so rewrites that identify
/// "different term" with "different language" show here
fn same_language_session(t: &mut Trace, rng: &mut Rng, maxlen: usize) {
    let mut s = Session::new(t, vec![97, 98, 99], maxlen);
    let id = Session::id;
    let word: Vec<u32> = match rng.below(4) {
        0 => vec![97, 97, 98],
        1 => vec![97, 98, 97, 98],
        2 => vec![97, 97, 97],
        _ => vec![97, 98, 99, 97, 98, 99],
    };
    let mut variants: Vec<RegLan> = Vec::new();
    let w2 = word.clone();
    if let Some(v) = s.cons(format!("re str {}", p_nats(&word)), 5, move |m| m.str(&SmtString::from(&w2[..]))) {
        variants.push(v);
    }
    // left-nested concatenation of the characters
    let mut acc: Option<RegLan> = None;
    for &ch in &word {
        let cc = s.cons(format!("re char {}", ch), 1, |m| m.char(ch)).unwrap();
        acc = match acc {
            None => Some(cc),
            Some(x) => s.cons(format!("re concat {} {}", id(x), id(cc)), 5, |m| m.concat(x, cc)),
        };
    }
    if let Some(v) = acc {
        variants.push(v);
    }
    // periodic words as a power of the period
    let n = word.len();
    for per in 1..n {
        if n % per == 0 && (0..n).all(|i| word[i] == word[i % per]) {
            let half: Vec<u32> = word[..per].to_vec();
            let h2 = half.clone();
            if let Some(h) = s.cons(format!("re str {}", p_nats(&half)), 3, move |m| m.str(&SmtString::from(&h2[..]))) {
                let k = (n / per) as u32;
                if let Some(v) = s.cons(format!("re exp {} {}", id(h), k), 5, |m| m.exp(h, k)) {
                    variants.push(v);
                }
                if let Some(v) = s.cons(format!("re smt_loop {} {} {}", id(h), k, k), 5, |m| m.smt_loop(h, k, k)) {
                    variants.push(v);
                }
            }
            break;
        }
    }
    let cch = s.cons("re char 99".into(), 1, |m| m.char(99)).unwrap();
    let mut results: Vec<RegLan> = Vec::new();
    for &x in &variants {
        for &y in &variants {
            let (ix, iy) = (id(x), id(y));
            if let Some(e) = s.cons(format!("re inter {} {}", ix, iy), 11, |m| m.inter(x, y)) { results.push(e); }
            if let Some(cy) = s.cons(format!("re comp {}", iy), 6, |m| m.complement(y)) {
                if let Some(u) = s.cons(format!("re union {} {}", ix, id(cy)), 12, |m| m.union(x, cy)) {
                    results.push(u);
                    if let Some(e) = s.cons(format!("re comp {}", id(u)), 13, |m| m.complement(u)) { results.push(e); }
                }
            }
            if let Some(e) = s.cons(format!("re diff {} {}", ix, iy), 11, |m| m.diff(x, y)) { results.push(e); }
            // behind a prefix
            let px = s.cons(format!("re concat {} {}", id(cch), ix), 6, |m| m.concat(cch, x));
            let py = s.cons(format!("re concat {} {}", id(cch), iy), 6, |m| m.concat(cch, y));
            if let (Some(px), Some(py)) = (px, py) {
                if let Some(e) = s.cons(format!("re inter {} {}", id(px), id(py)), 13, |m| m.inter(px, py)) { results.push(e); }
                if let Some(e) = s.cons(format!("re diff {} {}", id(px), id(py)), 13, |m| m.diff(px, py)) { results.push(e); }
            }
        }
    }
    let mut pw = vec![99u32];
    pw.extend_from_slice(&word);
    let words = vec![word.clone(), pw, vec![], word[..word.len() - 1].to_vec()];
    for e in results {
        member_ops(&mut s, e, &words);
        observe(&mut s, rng, e, 12, true);
    }
    s.finish();
}

/// long literals (35..95 characters): closures of several dozen derivatives, with history — a
/// derivative of e is compiled first, then e is compiled with bounds around the exact closure size
fn long_literal_session(t: &mut Trace, rng: &mut Rng) {
    let mut s = Session::new(t, vec![97, 98, 32], 2);
    let id = Session::id;
    let n = rng.range(35, 95) as usize;
    let text: Vec<u32> = (0..n).map(|_| *rng.pick(&[97u32, 98, 99, 100, 101, 32, 111, 116])).collect();
    let t2 = text.clone();
    let lit = s.cons(format!("re str {}", p_nats(&text)), 8, move |m| m.str(&SmtString::from(&t2[..]))).unwrap();
    let e = match rng.below(3) {
        0 => s.cons(format!("re star {}", id(lit)), 9, |m| m.star(lit)).unwrap(),
        1 => {
            let pre = s.cons("re str [97,98,99,47]".into(), 5, |m| m.str(&SmtString::from("abc/"))).unwrap();
            s.cons(format!("re concat {} {}", id(pre), id(lit)), 12, |m| m.concat(pre, lit)).unwrap()
        }
        _ => lit,
    };
    let ie = id(e);
    let r = guarded_m(&mut s.m, |m| {
        let v: Vec<String> = m.iter_derivatives(e).map(|x| x.verif_id().to_string()).collect();
        format!("[{}]", v.join(","))
    });
    let k = r.matches(',').count() + 1;
    s.t.count(&format!("long_literal_closure_bucket={}", k / 16 * 16));
    s.rec(format!("re iter_derivs {}", ie), r, true);
    // history: compile a derivative of e first
    let c0 = text[0];
    let d = s.m.char_derivative(e, c0);
    s.rec(format!("re char_deriv {} {}", ie, c0), id(d), true);
    let r = guarded_m(&mut s.m, |m| m.compile(d).num_states().to_string());
    s.rec(format!("re compile_size {}", id(d)), r, true);
    if rng.chance(1, 2) {
        let r = guarded_m(&mut s.m, |m| m.compile(lit).num_states().to_string());
        s.rec(format!("re compile_size {}", id(lit)), r, true);
    }
    for nb in [k.saturating_sub(1), k, k + 1, k + 7] {
        let r = guarded_m(&mut s.m, |m| match m.try_compile(e, nb) {
            None => "none".into(),
            Some(a) => format!("some:{}", a.num_states()),
        });
        s.rec(format!("re try_compile_size {} {}", ie, nb), r, true);
    }
    let r = guarded_m(&mut s.m, |m| crate::fam_aut::aut_str(&m.compile(e)));
    s.rec(format!("re compile {}", ie), r, true);
    let r = guarded_m(&mut s.m, |m| p_bool(m.is_empty_re(e)));
    s.rec(format!("re is_empty_re {}", ie), r, true);
    let r = guarded_m(&mut s.m, |m| match m.get_string(e) {
        None => "none".into(),
        Some(w) => format!("some:{}", p_nats(w.as_ref())),
    });
    s.rec(format!("re get_string {}", ie), r, true);
    member_ops(&mut s, e, &[text.clone(), text[..n - 1].to_vec()]);
    s.finish();
}

/// loops with counters near u32::MAX (string lengths reaching 2^32 and nested products reaching
/// 2^64), bounds near usize::MAX, and very long subject strings: only operations that do not
/// enumerate the (astronomically large) closure are used
fn huge_session(t: &mut Trace, rng: &mut Rng, thorough: bool) {
    let mut s = Session::new(t, vec![97, 98, 99], 2);
    let id = Session::id;
    let a = s.cons("re char 97".into(), 1, |m| m.char(97)).unwrap();
    let b = s.cons("re char 98".into(), 1, |m| m.char(98)).unwrap();
    let c = s.cons("re char 99".into(), 1, |m| m.char(99)).unwrap();
    let um = u32::MAX;
    let big = *rng.pick(&[um, um - 1, 1u32 << 31, 65536]);
    let mut terms: Vec<RegLan> = Vec::new();
    if let Some(l) = s.cons(format!("re smt_loop {} 0 {}", id(a), big), 3, |m| m.smt_loop(a, 0, big)) {
        if let Some(e) = s.cons(format!("re concat {} {}", id(l), id(b)), 5, |m| m.concat(l, b)) {
            terms.push(e);
        }
    }
    if let Some(p) = s.cons(format!("re exp {} {}", id(a), big), 3, |m| m.exp(a, big)) {
        if let Some(e1) = s.cons(format!("re concat {} {}", id(p), id(b)), 5, |m| m.concat(p, b)) {
            terms.push(e1);
            if let Some(p1) = s.cons(format!("re exp {} 65536", id(e1)), 7, |m| m.exp(e1, 65536)) {
                if let Some(e2) = s.cons(format!("re union {} {}", id(p1), id(c)), 9, |m| m.union(p1, c)) {
                    if let Some(e3) = s.cons(format!("re exp {} 65536", id(e2)), 11, |m| m.exp(e2, 65536)) {
                        terms.push(e3);
                    }
                }
            }
        }
    }
    let dg = s.cons("re range 48 57".into(), 1, |m| m.range(48, 57)).unwrap();
    if let Some(l) = s.cons(format!("re smt_loop {} 1 {}", id(dg), um - 1), 3, |m| m.smt_loop(dg, 1, um - 1)) {
        let ab = s.cons("re str [97,98]".into(), 3, |m| m.str(&SmtString::from("ab"))).unwrap();
        if let Some(e) = s.cons(format!("re concat {} {}", id(l), id(ab)), 6, |m| m.concat(l, ab)) {
            terms.push(e);
        }
    }
    let small = s.cons("re str [97,99]".into(), 3, |m| m.str(&SmtString::from("ac"))).unwrap();
    let sp = s.cons(format!("re plus {}", id(small)), 4, |m| m.plus(small)).unwrap();
    for &e in &terms {
        let ie = id(e);
        s.rec(format!("re nullable {}", ie), p_bool(e.nullable), true);
        for w in [vec![99u32], vec![97, 98], vec![97, 97, 98], vec![]] {
            let r = guarded_m(&mut s.m, |m| id(m.str_derivative(e, &SmtString::from(&w[..]))));
            s.rec(format!("re str_deriv {} {}", ie, p_nats(&w)), r, true);
            let r = guarded_m(&mut s.m, |m| p_bool(m.str_in_re(&SmtString::from(&w[..]), e)));
            s.rec(format!("re str_in_re {} {}", ie, p_nats(&w)), r, true);
        }
        for ch in [97u32, 98, 99, 48] {
            let r = guarded_m(&mut s.m, |m| id(m.char_derivative(e, ch)));
            s.rec(format!("re char_deriv {} {}", ie, ch), r, true);
        }
        for n in [0usize, 1, 5] {
            let r = guarded_m(&mut s.m, |m| match m.try_compile(e, n) {
                None => "none".into(),
                Some(a) => format!("some:{}", a.num_states()),
            });
            s.rec(format!("re try_compile_size {} {}", ie, n), r, true);
        }
    }
    // bounds near usize::MAX on a small expression
    for n in [usize::MAX - 1, usize::MAX / 2, 1usize << 62, 1usize << 61, usize::MAX] {
        let r = guarded_m(&mut s.m, |m| match m.try_compile(sp, n) {
            None => "none".into(),
            Some(a) => format!("some:{}", a.num_states()),
        });
        s.rec(format!("re try_compile_size {} {}", id(sp), n), r, true);
    }
    // a very long subject string (recursion depth / quadratic behaviour)
    let n = if thorough { 200_000 } else { 60_000 };
    let az = s.cons("re range 97 122".into(), 1, |m| m.range(97, 122)).unwrap();
    let azp = s.cons(format!("re plus {}", id(az)), 2, |m| m.plus(az)).unwrap();
    let step = s.cons(format!("re concat {} {}", id(azp), id(dg)), 4, |m| m.concat(azp, dg)).unwrap();
    let e = s.cons(format!("re star {}", id(step)), 5, |m| m.star(step)).unwrap();
    let w: Vec<u32> = (0..n).map(|i| if i % 7 == 6 { 55 } else { 113 }).collect();
    let r = guarded_m(&mut s.m, |m| p_bool(m.str_in_re(&SmtString::from(&w[..]), e)));
    s.rec(format!("re str_in_re {} {}", id(e), p_nats(&w)), r, true);
    let r = guarded_m(&mut s.m, |m| id(m.str_derivative(e, &SmtString::from(&w[..]))));
    s.rec(format!("re str_deriv {} {}", id(e), p_nats(&w)), r, true);
    s.finish();
}

/// wide n-ary unions / intersections (9..24 operands with pairwise different class boundaries)
fn wide_session(t: &mut Trace, rng: &mut Rng, maxlen: usize) {
    let k = rng.range(9, 24) as usize;
    let mut s = Session::new(t, vec![97, 98, 97 + k as u32 - 1, 120], maxlen);
    let id = Session::id;
    let mut words: Vec<RegLan> = Vec::new();
    let mut texts: Vec<Vec<u32>> = Vec::new();
    for i in 0..k {
        let w: Vec<u32> = vec![97 + i as u32, 120, 97 + ((i * 7) % 5) as u32];
        let w2 = w.clone();
        if let Some(v) = s.cons(format!("re str {}", p_nats(&w)), 4, move |m| m.str(&SmtString::from(&w2[..]))) {
            words.push(v);
            texts.push(w);
        }
    }
    let ids: Vec<u32> = words.iter().map(|z| z.verif_id() as u32).collect();
    let ws = words.clone();
    let u = s.cons(format!("re union_list {}", p_nats(&ids)), 4 * k as u32, move |m| m.union_list(ws));
    let mut comps: Vec<RegLan> = Vec::new();
    for &w in &words {
        if let Some(cw) = s.cons(format!("re comp {}", id(w)), 5, |m| m.complement(w)) {
            comps.push(cw);
        }
    }
    let cids: Vec<u32> = comps.iter().map(|z| z.verif_id() as u32).collect();
    let cs = comps.clone();
    let it = s.cons(format!("re inter_list {}", p_nats(&cids)), 5 * k as u32, move |m| m.inter_list(cs));
    for e in [u, it].iter().flatten() {
        let e = *e;
        let ie = id(e);
        member_ops(&mut s, e, &texts);
        s.rec(format!("re deriv_class {}", ie), p_partition_of(e), true);
        for i in 0..k {
            let ch = 97 + i as u32;
            let r = guarded_m(&mut s.m, |m| id(m.char_derivative(e, ch)));
            s.rec(format!("re char_deriv {} {}", ie, ch), r, true);
            let set = CharSet::range(ch, std::cmp::min(ch + 1, MAX_CHAR));
            let r = guarded_m(&mut s.m, |m| match m.set_derivative(e, &set) {
                Ok(d) => id(d),
                Err(x) => p_err(x),
            });
            s.rec(format!("re set_deriv {} {}-{}", ie, ch, ch + 1), r, true);
        }
    }
    s.finish();
}

/// pairs for the inclusion test: u = a short concatenation of ranges; v = alternating Σ* and rigid
/// blocks whose ranges are taken from (or cover) elements of u, with optional rigid prefix/suffix —
/// overlapping candidate matches, blocks that share elements, too few elements, reversed order
fn inclusion_session(t: &mut Trace, rng: &mut Rng, maxlen: usize) {
    let chars = vec![97u32, 98, 99, 100];
    let mut s = Session::new(t, chars.clone(), maxlen);
    let full = s.cons("re full".into(), 1, |m| m.full()).unwrap();
    // atoms: single characters and small ranges
    let mut atoms: Vec<RegLan> = Vec::new();
    for &c in &[97u32, 98, 99] {
        atoms.push(s.cons(format!("re char {}", c), 1, |m| m.char(c)).unwrap());
    }
    for &(a, b) in &[(97u32, 98u32), (98, 99), (97, 100)] {
        atoms.push(s.cons(format!("re range {} {}", a, b), 1, |m| m.range(a, b)).unwrap());
    }
    let id = Session::id;
    let mut lefts: Vec<RegLan> = Vec::new();
    let mut rights: Vec<RegLan> = Vec::new();
    for _ in 0..8 {
        // u: 1..4 atoms (mostly single characters)
        let n = rng.range(1, 4) as usize;
        let us: Vec<RegLan> = (0..n).map(|_| atoms[rng.below(4) as usize]).collect();
        let ids: Vec<u32> = us.iter().map(|z| z.verif_id() as u32).collect();
        let usc = us.clone();
        if let Some(u) = s.cons(format!("re concat_list {}", p_nats(&ids)), n as u32 + 1, move |m| m.concat_list(usc)) {
            lefts.push(u);
        }
        // v: [prefix?] Σ* block Σ* block … Σ* [suffix?], blocks built from slices of u (or covering ranges)
        let mut vs: Vec<RegLan> = Vec::new();
        if rng.chance(1, 4) {
            vs.push(us[0]);
        }
        let nblocks = rng.range(1, 3);
        for _ in 0..nblocks {
            vs.push(full);
            let start = rng.below(n as u64) as usize;
            let len = rng.range(1, 2) as usize;
            for q in start..std::cmp::min(start + len, n) {
                vs.push(if rng.chance(1, 3) { atoms[3 + rng.below(3) as usize] } else { us[q] });
            }
        }
        if rng.chance(3, 4) {
            vs.push(full);
        }
        if rng.chance(1, 4) {
            vs.push(us[n - 1]);
        }
        let ids: Vec<u32> = vs.iter().map(|z| z.verif_id() as u32).collect();
        let k = vs.len() as u32;
        if let Some(v) = s.cons(format!("re concat_list {}", p_nats(&ids)), k + 1, move |m| m.concat_list(vs)) {
            rights.push(v);
        }
    }
    for &u in &lefts {
        for &v in &rights {
            let r = p_bool(u.included_in(v));
            s.t.count(&format!("included_in(pattern)={}", r));
            s.rec(format!("re included_in {} {}", id(u), id(v)), r, true);
            if rng.chance(1, 3) {
                s.cons(format!("re union {} {}", id(u), id(v)), 12, |m| m.union(u, v));
            }
        }
    }
    for &v in &rights {
        for &w in &rights {
            let r = p_bool(v.included_in(w));
            s.rec(format!("re included_in {} {}", id(v), id(w)), r, true);
        }
    }
    s.finish();
}

/// terms whose operands have abutting class structures: a nullable head whose classes cover a
/// prefix [0,k] of the alphabet followed by alternatives starting exactly at k+1 with adjacent
/// intervals (also variants ending at MAX_CHAR) — exercises merge_partitions carry/witness paths
/// through deriv_class, class/char/set derivatives and compilation
fn aligned_session(t: &mut Trace, rng: &mut Rng, maxlen: usize) {
    let k = rng.below(3) as u32; // head covers [0,k]
    // first alternative [lo1,m]: normally starts right after the head; one time in three it starts
    // at 0 as well (its classes then overlap the head's and tile on from there)
    let lo1 = if rng.chance(1, 3) { 0 } else { k + 1 };
    let m = k + 1 + rng.below(3) as u32; // first alternative [lo1,m]
    let n = m + 1 + rng.below(4) as u32; // second alternative [m+1,n]
    let top = rng.chance(1, 3); // second alternative reaches MAX_CHAR
    let hi = if top { MAX_CHAR } else { n };
    let chars = vec![0u32, k + 1, m + 1, hi.min(n + 1)];
    let mut s = Session::new(t, chars, maxlen);
    let r0 = s.cons(format!("re range 0 {}", k), 1, |mm| mm.range(0, k)).unwrap();
    let r1 = s.cons(format!("re range {} {}", lo1, m), 1, |mm| mm.range(lo1, m)).unwrap();
    let r2 = s.cons(format!("re range {} {}", m + 1, hi), 1, |mm| mm.range(m + 1, hi)).unwrap();
    let x = s.cons("re char 120".into(), 1, |mm| mm.char(120)).unwrap();
    let y = s.cons("re char 121".into(), 1, |mm| mm.char(121)).unwrap();
    let id = Session::id;
    let head = match rng.below(3) {
        0 => s.cons(format!("re opt {}", id(r0)), 2, |mm| mm.opt(r0)).unwrap(),
        1 => s.cons(format!("re star {}", id(r0)), 2, |mm| mm.star(r0)).unwrap(),
        _ => s.cons(format!("re smt_loop {} 0 2", id(r0)), 2, |mm| mm.smt_loop(r0, 0, 2)).unwrap(),
    };
    let a1 = s.cons(format!("re concat {} {}", id(r1), id(x)), 3, |mm| mm.concat(r1, x)).unwrap();
    let a2 = s.cons(format!("re concat {} {}", id(r2), id(y)), 3, |mm| mm.concat(r2, y)).unwrap();
    let alt = match rng.below(3) {
        0 => s.cons(format!("re union {} {}", id(a1), id(a2)), 7, |mm| mm.union(a1, a2)).unwrap(),
        1 => {
            let c2 = s.cons(format!("re comp {}", id(a2)), 4, |mm| mm.complement(a2)).unwrap();
            s.cons(format!("re inter {} {}", id(a1), id(c2)), 8, |mm| mm.inter(a1, c2)).unwrap()
        }
        _ => s.cons(format!("re union_list [{},{},{}]", id(a1), id(a2), id(x)), 8, |mm| mm.union_list([a1, a2, x])).unwrap(),
    };
    let alt = if rng.chance(1, 3) {
        s.cons(format!("re union {} {}", id(r1), id(r2)), 3, |mm| mm.union(r1, r2)).unwrap()
    } else {
        alt
    };
    let e = s.cons(format!("re concat {} {}", id(head), id(alt)), 10, |mm| mm.concat(head, alt)).unwrap();
    let e2 = s.cons(format!("re union {} {}", id(e), id(alt)), 12, |mm| mm.union(e, alt)).unwrap();
    let pool = s.pool.clone();
    for (q, sz) in pool {
        observe(&mut s, rng, q, sz, true);
    }
    let _ = e2;
    s.finish();
}

fn random_session(t: &mut Trace, rng: &mut Rng, n_cons: usize, size_cap: u32, maxlen: usize) {
    // test alphabet: three core letters plus one "other" character
    let other = *rng.pick(&[0u32, 96, 101, 120, MAX_CHAR]);
    let mut chars: Vec<u32> = CORE[..3].to_vec();
    chars.push(other);
    // one session in four uses an alphabet whose letters alias modulo 2^8 / 2^16
    // (97, 97+256, 97+65536, 98): truncating keys, tables indexed by a byte or a u16
    if rng.chance(1, 4) {
        chars = vec![97, 97 + 256, 97 + 65536, 98];
    }
    let mut s = Session::new(t, chars, maxlen);
    for _ in 0..n_cons {
        gen_constructor(&mut s, rng, size_cap);
    }
    // observations on a sample of the pool
    let pool = s.pool.clone();
    for (k, (e, sz)) in pool.iter().enumerate() {
        if k % 2 == 0 || *sz <= 8 {
            observe(&mut s, rng, e, *sz, k % 3 != 1);
        }
    }
    // history: ask derivative / membership / start questions again after everything else has run
    // (operands of unions after start_class on the union, derivatives after closures, ...)
    for _ in 0..std::cmp::min(24, pool.len()) {
        let (e, _) = pool[rng.below(pool.len() as u64) as usize];
        let ie = Session::id(e);
        let cps = cut_points(e);
        let c = cps[rng.below(cps.len() as u64) as usize];
        let r = guarded_m(&mut s.m, |m| Session::id(m.char_derivative(e, c)));
        s.rec(format!("re char_deriv {} {}", ie, c), r, true);
        let w = rand_string(rng, &s.chars.clone(), 4);
        let r = guarded_m(&mut s.m, |m| p_bool(m.str_in_re(&SmtString::from(&w[..]), e)));
        s.rec(format!("re str_in_re {} {}", ie, p_nats(&w)), r, true);
        if let BaseRegLan::Union(ops) = e.verif_expr() {
            // the operands of a union, after start_class on the union
            let cids: Vec<ClassId> = e.class_ids().collect();
            for &cid in cids.iter().take(2) {
                let r = guarded_m(&mut s.m, |m| match m.start_class(e, cid) {
                    Ok(b) => p_bool(b),
                    Err(x) => p_err(x),
                });
                s.rec(format!("re start_class {} {}", ie, p_cid(cid)), r, true);
            }
            for &o in ops.iter().take(3) {
                for &c2 in cut_points(o).iter().take(3) {
                    let r = guarded_m(&mut s.m, |m| Session::id(m.char_derivative(o, c2)));
                    s.rec(format!("re char_deriv {} {}", Session::id(o), c2), r, true);
                }
                let w = rand_string(rng, &s.chars.clone(), 3);
                let r = guarded_m(&mut s.m, |m| p_bool(m.str_in_re(&SmtString::from(&w[..]), o)));
                s.rec(format!("re str_in_re {} {}", Session::id(o), p_nats(&w)), r, true);
            }
        }
    }
    // inclusion on random ordered pairs
    for _ in 0..(pool.len() * 2) {
        let (a, _) = pool[rng.below(pool.len() as u64) as usize];
        let (b, _) = pool[rng.below(pool.len() as u64) as usize];
        let r = p_bool(a.included_in(b));
        s.t.count(&format!("included_in={}", r));
        s.rec(format!("re included_in {} {}", Session::id(a), Session::id(b)), r, true);
    }
    s.finish();
}

/// a session on the thread-local manager behind the `re_*` wrappers, in a fresh thread
/// (fresh manager); exercises str_in_re / str_replace_re / str_replace_re_all (C01, C07, C10)
fn global_session(seed: u64, maxlen: usize) -> Vec<(String, String, bool)> {
    use aws_smt_strings::smt_regular_expressions as w;
    let h = std::thread::spawn(move || {
        let mut rng = Rng::new(seed);
        let mut out: Vec<(String, String, bool)> = Vec::new();
        let mut ops: Vec<(String, String, bool)> = Vec::new();
        let other = *rng.pick(&[0u32, 96, 101, 120, MAX_CHAR]);
        let chars: Vec<u32> = vec![97, 98, 99, other];
        let mut pool: Vec<RegLan> = Vec::new();
        let id = |r: RegLan| r.verif_id().to_string();
        let smt = |v: &[u32]| SmtString::from(v);
        for _ in 0..40 {
            let n = pool.len();
            let kind = if n < 3 { rng.below(4) } else { rng.below(16) };
            let x = if n > 0 { pool[rng.below(n as u64) as usize] } else { w::re_none() };
            let y = if n > 0 { pool[rng.below(n as u64) as usize] } else { w::re_none() };
            let (lhs, f): (String, Box<dyn FnOnce() -> RegLan>) = match kind {
                0 => {
                    let v = rand_string(&mut rng, &chars, 3);
                    (format!("re str {}", p_nats(&v)), Box::new(move || w::str_to_re(&SmtString::from(&v[..]))))
                }
                1 => {
                    let a = pick_char(&mut rng, &chars);
                    let b = pick_char(&mut rng, &chars);
                    (
                        format!("re smt_range [{}] [{}]", a, b),
                        Box::new(move || w::re_range(&SmtString::from(a), &SmtString::from(b))),
                    )
                }
                2 => ("re all_chars".into(), Box::new(|| w::re_allchar())),
                3 => {
                    let c = *rng.pick(&["empty", "full"]);
                    (format!("re {}", c), Box::new(move || if c == "empty" { w::re_none() } else { w::re_all() }))
                }
                4 | 5 => (format!("re concat {} {}", id(x), id(y)), Box::new(move || w::re_concat(x, y))),
                6 | 7 => (format!("re union {} {}", id(x), id(y)), Box::new(move || w::re_union(x, y))),
                8 => (format!("re inter {} {}", id(x), id(y)), Box::new(move || w::re_inter(x, y))),
                9 => (format!("re comp {}", id(x)), Box::new(move || w::re_comp(x))),
                10 => (format!("re diff {} {}", id(x), id(y)), Box::new(move || w::re_diff(x, y))),
                11 => (format!("re star {}", id(x)), Box::new(move || w::re_star(x))),
                12 => (format!("re plus {}", id(x)), Box::new(move || w::re_plus(x))),
                13 => (format!("re opt {}", id(x)), Box::new(move || w::re_opt(x))),
                14 => {
                    let k = rng.below(4) as u32;
                    // half of the time a bounded loop of Σ (wildcard prefix material)
                    let x = if rng.chance(1, 2) { w::re_allchar() } else { x };
                    (format!("re exp {} {}", id(x), k), Box::new(move || w::re_power(x, k)))
                }
                _ => {
                    let i = rng.below(3) as u32;
                    let j = rng.below(4) as u32;
                    (format!("re smt_loop {} {} {}", id(x), i, j), Box::new(move || w::re_loop(x, i, j)))
                }
            };
            match std::panic::catch_unwind(std::panic::AssertUnwindSafe(f)) {
                Ok(r) => {
                    ops.push((lhs, id(r), true));
                    pool.push(r);
                }
                Err(_) => ops.push((lhs, "PANIC".into(), true)),
            }
        }
        // search patterns with wildcard prefixes/suffixes and subjects whose leftmost match starts
        // after the search start (C10)
        {
            let lit_codes: Vec<u32> = if rng.chance(1, 2) { vec![58] } else { vec![97, 98] };
            let lc = lit_codes.clone();
            let lit = w::str_to_re(&SmtString::from(&lc[..]));
            ops.push((format!("re str {}", p_nats(&lit_codes)), id(lit), true));
            let sg = w::re_allchar();
            ops.push(("re all_chars".into(), id(sg), true));
            let n = rng.range(1, 2) as u32;
            let (wl, lhs) = match rng.below(3) {
                0 => (w::re_power(sg, n), format!("re exp {} {}", id(sg), n)),
                1 => (w::re_opt(sg), format!("re opt {}", id(sg))),
                _ => (w::re_loop(sg, 1, 2), format!("re smt_loop {} 1 2", id(sg))),
            };
            ops.push((lhs, id(wl), true));
            let pat = if rng.chance(3, 4) {
                let r = w::re_concat(wl, lit);
                ops.push((format!("re concat {} {}", id(wl), id(lit)), id(r), true));
                r
            } else {
                let r = w::re_concat(lit, wl);
                ops.push((format!("re concat {} {}", id(lit), id(wl)), id(r), true));
                r
            };
            pool.push(pat);
            for _ in 0..6 {
                let mut subj = rand_string(&mut rng, &[97, 98, 99], 3);
                subj.extend(rand_string(&mut rng, &[97, 98, 99], 2));
                subj.extend_from_slice(&lit_codes);
                subj.extend(rand_string(&mut rng, &[97, 98, 99, 58], 3));
                if rng.chance(1, 3) {
                    subj.extend_from_slice(&lit_codes);
                }
                let t = vec![84u32];
                let r = guarded(|| p_nats(w::str_replace_re(&smt(&subj), pat, &smt(&t)).as_ref()));
                ops.push((format!("re replace_re {} {} {}", p_nats(&subj), id(pat), p_nats(&t)), r, true));
                let r = guarded(|| p_nats(w::str_replace_re_all(&smt(&subj), pat, &smt(&t)).as_ref()));
                ops.push((format!("re replace_re_all {} {} {}", p_nats(&subj), id(pat), p_nats(&t)), r, true));
            }
        }
        // long patterns (closure of several hundred derivatives) and patterns whose first-character
        // class straddles a multiple of 256 or lies above 0xFFFF
        if rng.chance(1, 3) {
            let n = rng.range(260, 320) as usize;
            let wv: Vec<u32> = (0..n).map(|_| if rng.chance(1, 2) { 97 } else { 98 }).collect();
            let wv2 = wv.clone();
            let lit = w::str_to_re(&SmtString::from(&wv2[..]));
            ops.push((format!("re str {}", p_nats(&wv)), id(lit), true));
            let mut subj = vec![120u32, 120];
            subj.extend_from_slice(&wv);
            subj.extend_from_slice(&[121, 121]);
            let t = vec![84u32];
            let r = guarded(|| p_nats(w::str_replace_re(&smt(&subj), lit, &smt(&t)).as_ref()));
            ops.push((format!("re replace_re {} {} {}", p_nats(&subj), id(lit), p_nats(&t)), r, true));
            let r = guarded(|| p_nats(w::str_replace_re_all(&smt(&subj), lit, &smt(&t)).as_ref()));
            ops.push((format!("re replace_re_all {} {} {}", p_nats(&subj), id(lit), p_nats(&t)), r, true));
        }
        {
            let (lo, hi) = *rng.pick(&[(0xC0u32, 0x17Fu32), (0xF0, 0x110), (0xFFFF, 0x10000), (0x10061, 0x10061), (0x161, 0x161)]);
            let rg = w::re_range(&SmtString::from(lo), &SmtString::from(hi));
            ops.push((format!("re smt_range [{}] [{}]", lo, hi), id(rg), true));
            let pat = if rng.chance(1, 2) {
                let p = w::re_plus(rg);
                ops.push((format!("re plus {}", id(rg)), id(p), true));
                p
            } else {
                rg
            };
            pool.push(pat);
            for _ in 0..4 {
                let mut subj = rand_string(&mut rng, &[97, 98, lo & 0xFF, hi & 0xFF, 0x61], 3);
                subj.push(if rng.chance(1, 2) { lo } else { hi });
                subj.extend(rand_string(&mut rng, &[97, lo, hi, 0xE9], 3));
                let t = vec![84u32];
                let r = guarded(|| p_nats(w::str_replace_re(&smt(&subj), pat, &smt(&t)).as_ref()));
                ops.push((format!("re replace_re {} {} {}", p_nats(&subj), id(pat), p_nats(&t)), r, true));
                let r = guarded(|| p_nats(w::str_replace_re_all(&smt(&subj), pat, &smt(&t)).as_ref()));
                ops.push((format!("re replace_re_all {} {} {}", p_nats(&subj), id(pat), p_nats(&t)), r, true));
                let r = guarded(|| p_bool(w::str_in_re(&smt(&subj), pat)));
                ops.push((format!("re str_in_re {} {}", id(pat), p_nats(&subj)), r, true));
            }
        }
        // every term handed out by a wrapper must be the thread-local manager's own node (C07)
        for &e in pool.iter() {
            let same = w::verif_with_manager(|m| {
                let i = e.verif_id();
                i < m.verif_num_terms() && std::ptr::eq(e, m.verif_term(i))
            });
            ops.push((format!("re ptr_in_table {}", id(e)), p_bool(same), true));
        }
        {
            let checks: [(&str, bool); 4] = [
                ("comp_comp_all", std::ptr::eq(w::re_comp(w::re_comp(w::re_all())), w::re_all())),
                ("comp_none_is_all", std::ptr::eq(w::re_comp(w::re_none()), w::re_all())),
                ("star_allchar_is_all", std::ptr::eq(w::re_star(w::re_allchar()), w::re_all())),
                ("none_twice", std::ptr::eq(w::re_none(), w::re_none())),
            ];
            for (name, b) in checks {
                ops.push((format!("re ptr_in_table {}", name), p_bool(b), true));
            }
        }
        // membership and replacement through the wrappers
        let mut seen = std::collections::HashSet::new();
        for &e in pool.iter() {
            if !seen.insert(e.verif_id()) {
                continue;
            }
            for _ in 0..3 {
                let s = rand_string(&mut rng, &chars, 5);
                let r = guarded(|| p_bool(w::str_in_re(&smt(&s), e)));
                ops.push((format!("re str_in_re {} {}", id(e), p_nats(&s)), r, true));
            }
            for _ in 0..3 {
                let s = rand_string(&mut rng, &chars, 6);
                let t = match rng.below(3) {
                    0 => vec![],
                    1 => vec![120u32],
                    _ => rand_string(&mut rng, &chars, 2),
                };
                let r = guarded(|| p_nats(w::str_replace_re(&smt(&s), e, &smt(&t)).as_ref()));
                ops.push((format!("re replace_re {} {} {}", p_nats(&s), id(e), p_nats(&t)), r, true));
                let r = guarded(|| p_nats(w::str_replace_re_all(&smt(&s), e, &smt(&t)).as_ref()));
                ops.push((format!("re replace_re_all {} {} {}", p_nats(&s), id(e), p_nats(&t)), r, true));
            }
        }
        // dump the thread-local table
        out.push(("re begin".into(), "ok".into(), false));
        let n = w::verif_with_manager(|m| m.verif_num_terms());
        for i in 0..n {
            let node = w::verif_with_manager(|m| enc_node(m.verif_term(i)));
            out.push((format!("re node {} {}", i, node), "ok".into(), false));
        }
        out.push((format!("re strings {} {}", p_nats(&chars), maxlen), "ok".into(), false));
        out.extend(ops);
        out
    });
    h.join().unwrap_or_default()
}

/// abstract construction step: operands are indices into the list of earlier results
#[derive(Clone, Debug)]
enum Step {
    Range(u32, u32),
    Str(Vec<u32>),
    Const(u8),
    Concat(usize, usize),
    Union(usize, usize),
    Inter(usize, usize),
    Comp(usize),
    Diff(usize, usize),
    DiffList(usize, Vec<usize>),
    UnionList(Vec<usize>),
    InterList(Vec<usize>),
    Loop(usize, u32, Option<u32>),
}

fn exec_step(m: &mut ReManager, st: &Step, pool: &[RegLan]) -> RegLan {
    match st {
        Step::Range(a, b) => m.range(*a, *b),
        Step::Str(v) => m.str(&SmtString::from(&v[..])),
        Step::Const(k) => match k {
            0 => m.empty(),
            1 => m.full(),
            2 => m.epsilon(),
            3 => m.sigma_plus(),
            _ => m.all_chars(),
        },
        Step::Concat(a, b) => m.concat(pool[*a], pool[*b]),
        Step::Union(a, b) => m.union(pool[*a], pool[*b]),
        Step::Inter(a, b) => m.inter(pool[*a], pool[*b]),
        Step::Comp(a) => m.complement(pool[*a]),
        Step::Diff(a, b) => m.diff(pool[*a], pool[*b]),
        Step::DiffList(a, l) => {
            let v: Vec<RegLan> = l.iter().map(|i| pool[*i]).collect();
            m.diff_list(pool[*a], v)
        }
        Step::UnionList(l) => {
            let v: Vec<RegLan> = l.iter().map(|i| pool[*i]).collect();
            m.union_list(v)
        }
        Step::InterList(l) => {
            let v: Vec<RegLan> = l.iter().map(|i| pool[*i]).collect();
            m.inter_list(v)
        }
        Step::Loop(a, lo, hi) => {
            let r = match hi {
                None => LoopRange::infinite(*lo),
                Some(h) => LoopRange::finite(*lo, *h),
            };
            m.mk_loop(pool[*a], r)
        }
    }
}

fn gen_step(rng: &mut Rng, n: usize, chars: &[u32]) -> Step {
    let k = if n < 3 { rng.below(3) } else { rng.below(14) };
    let i = |rng: &mut Rng| rng.below(n as u64) as usize;
    match k {
        0 => {
            let a = pick_char(rng, chars);
            let b = pick_char(rng, chars);
            Step::Range(a.min(b), a.max(b))
        }
        1 => Step::Str(rand_string(rng, chars, 3)),
        2 => Step::Const(rng.below(5) as u8),
        3 | 4 => Step::Concat(i(rng), i(rng)),
        5 => Step::Union(i(rng), i(rng)),
        6 => Step::Inter(i(rng), i(rng)),
        7 | 8 => Step::Comp(i(rng)),
        9 => Step::Diff(i(rng), i(rng)),
        10 => {
            let l = (0..rng.range(1, 3)).map(|_| i(rng)).collect();
            Step::DiffList(i(rng), l)
        }
        11 => Step::UnionList((0..rng.range(0, 3)).map(|_| i(rng)).collect()),
        12 => Step::InterList((0..rng.range(0, 3)).map(|_| i(rng)).collect()),
        _ => {
            let lo = rng.below(3) as u32;
            let hi = if rng.chance(1, 3) { None } else { Some(lo + rng.below(3) as u32) };
            Step::Loop(i(rng), lo, hi)
        }
    }
}

/// membership signature on all strings up to length 3 over `chars`
fn signature(m: &mut ReManager, e: RegLan, chars: &[u32]) -> String {
    let mut words: Vec<Vec<u32>> = vec![vec![]];
    let mut frontier: Vec<Vec<u32>> = vec![vec![]];
    for _ in 0..3 {
        let mut next = Vec::new();
        for w in &frontier {
            for &c in chars {
                let mut x = w.clone();
                x.push(c);
                next.push(x);
            }
        }
        words.extend(next.iter().cloned());
        frontier = next;
    }
    let mut sig = String::new();
    for w in words {
        sig.push(if m.str_in_re(&SmtString::from(&w[..]), e) { '1' } else { '0' });
    }
    sig
}

/// C07: the same construction program on two managers with different histories (the second one
/// creates unrelated terms and computes unrelated derivatives between the steps) must denote the
/// same languages step by step
fn twin_session(t: &mut Trace, rng: &mut Rng, tag: u64) {
    let chars: Vec<u32> = vec![97, 98, 99];
    let mut a = ReManager::new();
    let mut b = ReManager::new();
    let mut pa: Vec<RegLan> = Vec::new();
    let mut pb: Vec<RegLan> = Vec::new();
    let mut noise: Vec<RegLan> = Vec::new();
    for k in 0..25 {
        // history noise on b only
        for _ in 0..rng.range(0, 3) {
            let st = gen_step(rng, noise.len().max(1), &[100, 101, 102, 97]);
            if noise.is_empty() {
                noise.push(b.char(100));
            }
            let r = std::panic::catch_unwind(std::panic::AssertUnwindSafe(|| exec_step(&mut b, &st, &noise)));
            if let Ok(x) = r {
                noise.push(x);
                let c = *rng.pick(&[97u32, 100, 101]);
                let _ = std::panic::catch_unwind(std::panic::AssertUnwindSafe(|| b.char_derivative(x, c)));
                if rng.chance(1, 4) {
                    let _ = std::panic::catch_unwind(std::panic::AssertUnwindSafe(|| b.is_empty_re(x)));
                }
            }
        }
        let st = gen_step(rng, pa.len(), &chars);
        let ra = std::panic::catch_unwind(std::panic::AssertUnwindSafe(|| exec_step(&mut a, &st, &pa)));
        let rb = std::panic::catch_unwind(std::panic::AssertUnwindSafe(|| exec_step(&mut b, &st, &pb)));
        match (ra, rb) {
            (Ok(x), Ok(y)) => {
                pa.push(x);
                pb.push(y);
                let sa = signature(&mut a, x, &chars);
                let sb = guarded(|| signature(&mut b, y, &chars));
                t.count("twin=both-ok");
                t.op(&format!("re twin {}:{}:{} {}", tag, k, format!("{:?}", st).replace(' ', ""), sa), &sb, true);
            }
            (Err(_), Err(_)) => {
                t.count("twin=both-panic");
                t.op(&format!("re twin {}:{}:{} PANIC", tag, k, format!("{:?}", st).replace(' ', "")), "PANIC", true);
                break;
            }
            (Ok(_), Err(_)) => {
                t.op(&format!("re twin {}:{}:{} OK", tag, k, format!("{:?}", st).replace(' ', "")), "PANIC", true);
                break;
            }
            (Err(_), Ok(_)) => {
                t.op(&format!("re twin {}:{}:{} PANIC", tag, k, format!("{:?}", st).replace(' ', "")), "OK", true);
                break;
            }
        }
    }
}

pub fn run(t: &mut Trace, rng: &mut Rng, thorough: bool) {
    t.rule = "sessions on a fresh ReManager: random constructor programs over all 17 public constructors (atoms over a 4-letter test alphabet plus boundary characters; binary and n-ary operators on earlier results, size-capped), after which the full term table is dumped and every operation is replayed by the model by id; observations per term: nullable, derivative classes, membership on random strings, char/class/set/str derivatives at class cut points ±1 and invalid class ids, derivative closure, emptiness, witness, start_char/start_class, regex search, included_in on random ordered pairs. distinct = distinct operation lines; non-trivial = every line except table/bookkeeping lines".into();
    corpus(t);
    let sessions = if thorough { 1200 } else { 100 };
    for k in 0..sessions {
        let (n_cons, cap) = match k % 4 { 0 => (30, 12), 1 => (50, 20), 2 => (70, 30), _ => (90, 40) };
        random_session(t, rng, n_cons, cap, if thorough { 4 } else { 3 });
    }
    let la = if thorough { 200 } else { 24 };
    for _ in 0..la {
        loop_algebra_session(t, rng, 3);
    }
    let sl = if thorough { 100 } else { 12 };
    for _ in 0..sl {
        same_language_session(t, rng, 3);
    }
    for _ in 0..(if thorough { 6 } else { 2 }) {
        huge_session(t, rng, thorough);
    }
    let ll = if thorough { 60 } else { 8 };
    for _ in 0..ll {
        long_literal_session(t, rng);
    }
    let wd = if thorough { 60 } else { 8 };
    for _ in 0..wd {
        wide_session(t, rng, 3);
    }
    let incl = if thorough { 300 } else { 30 };
    for _ in 0..incl {
        inclusion_session(t, rng, if thorough { 4 } else { 3 });
    }
    let aligned = if thorough { 300 } else { 30 };
    for _ in 0..aligned {
        aligned_session(t, rng, if thorough { 4 } else { 3 });
    }
    let twins = if thorough { 600 } else { 60 };
    for k in 0..twins {
        twin_session(t, rng, k);
    }
    let gsessions = if thorough { 200 } else { 20 };
    for _ in 0..gsessions {
        let seed = rng.next();
        for (lhs, res, nt) in global_session(seed, 3) {
            let opname = lhs.split(' ').nth(1).unwrap_or("?").to_string();
            t.count(&format!("wrapper-op={}", opname));
            t.op(&lhs, &res, nt);
        }
    }
}
