//! One xorshift64* state; every random choice of a run derives from VERIF_SEED.

pub struct Rng(u64);

impl Rng {
    pub fn new(seed: u64) -> Rng {
        let mut s = seed ^ 0x9E37_79B9_7F4A_7C15;
        if s == 0 {
            s = 0x1234_5678_9ABC_DEF1;
        }
        let mut r = Rng(s);
        for _ in 0..8 {
            r.next();
        }
        r
    }

    pub fn next(&mut self) -> u64 {
        let mut x = self.0;
        x ^= x >> 12;
        x ^= x << 25;
        x ^= x >> 27;
        self.0 = x;
        x.wrapping_mul(0x2545_F491_4F6C_DD1D)
    }

    /// uniform in [0, n)
    pub fn below(&mut self, n: u64) -> u64 {
        if n == 0 {
            0
        } else {
            self.next() % n
        }
    }

    /// uniform in [lo, hi]
    pub fn range(&mut self, lo: u64, hi: u64) -> u64 {
        lo + self.below(hi - lo + 1)
    }

    pub fn chance(&mut self, num: u64, den: u64) -> bool {
        self.below(den) < num
    }

    pub fn pick<'a, T>(&mut self, v: &'a [T]) -> &'a T {
        &v[self.below(v.len() as u64) as usize]
    }
}
