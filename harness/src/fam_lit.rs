//! Family `lit`: string literals and constructors of `smt_strings.rs` (C08, C17).
//!
//! Encoding (same as lean/Driver/FamLiteral.lean): texts (contents of a Rust `&str`), SMT strings
//! and printed bodies are lists of code points `[c1,c2,..]`; a char / u32 is a decimal number;
//! a constructor result is `<code points>;<is_good 0/1>`.
//!
//!   lit parse <text>            => parse_smt_literal(text)
//!   lit display <string>        => s.to_string() without its two outer quotes (`BADQUOTES` if absent)
//!   lit char_to_smt <x>         => char_to_smt(x)            lit smt_char_as_string <x> likewise
//!   lit roundtrip <string>      => parse_smt_literal(body with `""` replaced by `"`)
//!   lit from_str|from_string <text>, from_char <x>, from_u32 <x>, from_slice|from_vec <vector>
//!                               => <string>;<is_good>
//!   lit is_good <string>        => 0/1
//!   lit is_unicode <string>     => 0/1
//!   lit to_unicode <string>     => <text>   chars of `to_unicode_string()`
//!   lit uni_roundtrip <string>  => <string>;<is_good>   `SmtString::from(s.to_unicode_string().as_str())`
//!   lit re_str_ok <string>      => 1 if `ReManager::str(&s)` returns (PANIC if an assertion fires)

use crate::rng::Rng;
use crate::trace::*;
use aws_smt_strings::regular_expressions::ReManager;
use aws_smt_strings::smt_strings::*;

const BS: u32 = 92;

fn text_of(cps: &[u32]) -> String {
    cps.iter().map(|&c| char::from_u32(c).expect("generator produced a non-scalar")).collect()
}

fn cps_of(s: &str) -> Vec<u32> {
    s.chars().map(|c| c as u32).collect()
}

fn smt(s: &SmtString) -> String {
    p_nats(s.as_ref())
}

fn ctor_res(s: &SmtString) -> String {
    format!("{};{}", smt(s), p_bool(s.is_good()))
}

struct Ctx {
    rm: ReManager,
}

fn op_parse(t: &mut Trace, cps: &[u32]) {
    let text = text_of(cps);
    let r = guarded(|| smt(&parse_smt_literal(&text)));
    let has_bs = cps.contains(&BS);
    let has_big = cps.iter().any(|&c| c > MAX_CHAR);
    if r == "PANIC" {
        t.count("parse=PANIC");
    } else if r == p_nats(cps) {
        t.count(if has_bs { "parse=verbatim(with-backslash)" } else { "parse=verbatim" });
    } else if has_big {
        t.count("parse=replaced/decoded");
    } else {
        t.count("parse=decoded");
    }
    t.op(&format!("lit parse {}", p_nats(cps)), &r, has_bs || has_big);
}

fn body_of(printed: &str) -> Option<String> {
    let n = printed.len();
    if n >= 2 && printed.starts_with('"') && printed.ends_with('"') {
        Some(printed[1..n - 1].to_string())
    } else {
        None
    }
}

fn piece_kind(x: u32) -> &'static str {
    if x == 34 {
        "piece=quote"
    } else if x == BS {
        "piece=backslash"
    } else if (32..127).contains(&x) {
        "piece=plain"
    } else if x < 32 || x == 127 {
        "piece=brace2"
    } else if x < 0x10000 {
        "piece=hex4"
    } else {
        "piece=brace5"
    }
}

/// display + roundtrip of a good string given by its code points
fn op_display(t: &mut Trace, v: &[u32]) {
    let s = SmtString::from(v);
    let sv: Vec<u32> = s.as_ref().to_vec();
    for &x in &sv {
        t.count(piece_kind(x));
    }
    let special = sv.iter().any(|&x| !(32..127).contains(&x) || x == 34 || x == BS);
    let r = guarded(|| match body_of(&s.to_string()) {
        Some(b) => p_nats(&cps_of(&b)),
        None => "BADQUOTES".to_string(),
    });
    t.op(&format!("lit display {}", p_nats(&sv)), &r, special);
    let r = guarded(|| match body_of(&s.to_string()) {
        Some(b) => smt(&parse_smt_literal(&b.replace("\"\"", "\""))),
        None => "BADQUOTES".to_string(),
    });
    t.count(if r == p_nats(&sv) { "roundtrip=same" } else { "roundtrip=DIFFERENT" });
    t.op(&format!("lit roundtrip {}", p_nats(&sv)), &r, special);
}

fn op_char(t: &mut Trace, x: u32) {
    let r = guarded(|| p_nats(&cps_of(&char_to_smt(x))));
    t.op(&format!("lit char_to_smt {}", x), &r, true);
    let r = guarded(|| p_nats(&cps_of(&smt_char_as_string(x))));
    t.op(&format!("lit smt_char_as_string {}", x), &r, true);
}

/// follow-up on a constructed string: is_good and usability as a regular expression
fn follow_up(t: &mut Trace, cx: &mut Ctx, s: &SmtString) {
    let sv = smt(s);
    t.op(&format!("lit is_good {}", sv), &guarded(|| p_bool(s.is_good())), true);
    let r = guarded(|| {
        let _ = cx.rm.str(s);
        "1".to_string()
    });
    if r == "PANIC" {
        cx.rm = ReManager::new();
    }
    t.count(&format!("re_str_ok={}", r));
    t.op(&format!("lit re_str_ok {}", sv), &r, true);
    // the way out of the crate: is_unicode, to_unicode_string, and the String read back
    let uni = guarded(|| p_bool(s.is_unicode()));
    t.count(&format!("is_unicode={}", uni));
    t.op(&format!("lit is_unicode {}", sv), &uni, true);
    t.op(&format!("lit to_unicode {}", sv), &guarded(|| p_nats(&cps_of(&s.to_unicode_string()))), true);
    t.op(
        &format!("lit uni_roundtrip {}", sv),
        &guarded(|| ctor_res(&SmtString::from(s.to_unicode_string().as_str()))),
        true,
    );
}

fn op_from_text(t: &mut Trace, cx: &mut Ctx, cps: &[u32]) {
    let text = text_of(cps);
    let mut made: Option<SmtString> = None;
    let r = guarded(|| {
        let s = SmtString::from(text.as_str());
        let r = ctor_res(&s);
        made = Some(s);
        r
    });
    t.count(if cps.iter().any(|&c| c > MAX_CHAR) { "from_text=replaced" } else { "from_text=kept" });
    t.op(&format!("lit from_str {}", p_nats(cps)), &r, true);
    let r = guarded(|| ctor_res(&SmtString::from(text.clone())));
    t.op(&format!("lit from_string {}", p_nats(cps)), &r, true);
    if let Some(s) = made {
        follow_up(t, cx, &s);
    }
    // the parser on the same text (it applies the same replacement in `push`)
    op_parse(t, cps);
    let mut made: Option<SmtString> = None;
    let _ = guarded(|| {
        made = Some(parse_smt_literal(&text));
        String::new()
    });
    if let Some(s) = made {
        follow_up(t, cx, &s);
    }
}

fn op_from_char(t: &mut Trace, cx: &mut Ctx, c: u32) {
    let ch = char::from_u32(c).expect("scalar");
    let mut made: Option<SmtString> = None;
    let r = guarded(|| {
        let s = SmtString::from(ch);
        let r = ctor_res(&s);
        made = Some(s);
        r
    });
    t.op(&format!("lit from_char {}", c), &r, true);
    if let Some(s) = made {
        follow_up(t, cx, &s);
    }
}

fn op_from_u32(t: &mut Trace, cx: &mut Ctx, x: u32) {
    let mut made: Option<SmtString> = None;
    let r = guarded(|| {
        let s = SmtString::from(x);
        let r = ctor_res(&s);
        made = Some(s);
        r
    });
    t.count(if x > MAX_CHAR { "from_u32=replaced" } else { "from_u32=kept" });
    t.op(&format!("lit from_u32 {}", x), &r, true);
    if let Some(s) = made {
        follow_up(t, cx, &s);
    }
}

fn op_from_vec(t: &mut Trace, cx: &mut Ctx, v: &[u32]) {
    let mut made: Option<SmtString> = None;
    let r = guarded(|| {
        let s = SmtString::from(v);
        let r = ctor_res(&s);
        made = Some(s);
        r
    });
    t.op(&format!("lit from_slice {}", p_nats(v)), &r, true);
    let r = guarded(|| ctor_res(&SmtString::from(v.to_vec())));
    t.count(if v.iter().all(|&x| x <= MAX_CHAR) { "from_vec=all-valid" } else { "from_vec=replaced" });
    t.op(&format!("lit from_vec {}", p_nats(v)), &r, true);
    if let Some(s) = made {
        follow_up(t, cx, &s);
    }
}

/// all words over `alpha` of length exactly `n`, each prefixed by `prefix`
fn for_words<F: FnMut(&[u32])>(prefix: &[u32], alpha: &[u32], n: usize, f: &mut F) {
    let mut idx = vec![0usize; n];
    let mut w: Vec<u32> = prefix.to_vec();
    w.extend(std::iter::repeat(alpha[0]).take(n));
    let p = prefix.len();
    loop {
        for i in 0..n {
            w[p + i] = alpha[idx[i]];
        }
        f(&w);
        // increment
        let mut k = n;
        loop {
            if k == 0 {
                return;
            }
            k -= 1;
            idx[k] += 1;
            if idx[k] < alpha.len() {
                break;
            }
            idx[k] = 0;
        }
    }
}

fn hex_text(v: u32, width: usize, upper: bool) -> Vec<u32> {
    let s = if upper { format!("{:0w$X}", v, w = width) } else { format!("{:0w$x}", v, w = width) };
    cps_of(&s)
}

/// `\ , u, {, }, 0, 2, a, F, g, 3`
const ALPHA: [u32; 10] = [92, 117, 123, 125, 48, 50, 97, 70, 103, 51];

/// the 16-character tricky set for strings
const TRICKY: [u32; 16] =
    [0, 0x1f, 34, 48, 52, 92, 97, 117, 123, 125, 0x7e, 0x7f, 0x80, 0xFFFF, 0x10000, 0x2FFFF];

pub fn run(t: &mut Trace, rng: &mut Rng, thorough: bool) {
    t.rule = "parse: ALL texts up to length 5 (thorough: 6) over {\\,u,{,},0,2,a,F,g,3}, all `\\u`+4 and `\\u{`+4 (thorough: +5) continuations over the same alphabet, brace/plain escapes of boundary values (0, 0x7f, 0xFFFF, 0x10000, 0x2FFFE..0x30001, 0xFFFFF, 0x100000) with 1..6 digits in both cases followed by nothing / } / a digit / a backslash, seeded random texts of length 11 built from escape fragments, every printable ASCII character substituted at and inserted before every position of nine well-formed / nearly well-formed escapes, texts with code points above 0x2FFFF; display+roundtrip: ALL strings up to length 3 over the 16-character set {0,0x1f,\",0,4,\\,a,u,{,},0x7e,0x7f,0x80,0xFFFF,0x10000,0x2FFFF}, the printed bodies of those of length <= 2 taken as strings again (strings that spell escapes), random longer strings; char_to_smt/smt_char_as_string: 0..0x200, boundaries, > 0x2FFFF up to u32::MAX; constructors: Rust strings/chars incl. U+2FFFF, U+30000, U+10FFFF, u32 vectors incl. u32::MAX, each result followed by is_good, ReManager::str, is_unicode, to_unicode_string and the String read back by From<&str> (vectors over {0,a,0xD7FF,0xD800,0xDFFF,0xE000,0x2FFFF,0x30000,u32::MAX}). A case counts as non-trivial when the text contains a backslash or a code point > 0x2FFFF (parse), when the string has a character that is not printed as itself (display/roundtrip); all constructor/char cases count".into();
    let mut cx = Ctx { rm: ReManager::new() };

    // ---- regression corpus (DESIGN.md §9: D4, D6)
    op_display(t, &[92, 117, 123, 52, 49, 125]);
    op_display(t, &[92]);
    op_display(t, &[92, 117, 48, 48, 52, 49]);
    op_from_text(t, &mut cx, &[0x30000]);
    op_from_char(t, &mut cx, 0x30000);
    op_from_text(t, &mut cx, &[97, 0x10FFFF, 98]);

    // ---- parser: exhaustive short texts
    let max_len = if thorough { 6 } else { 5 };
    for n in 0..=max_len {
        for_words(&[], &ALPHA, n, &mut |w| op_parse(t, w));
    }
    // every continuation of an escape prefix
    let cont = if thorough { 5 } else { 4 };
    for n in (max_len - 1)..=cont {
        for_words(&[92, 117], &ALPHA, n, &mut |w| op_parse(t, w));
    }
    for n in (max_len - 2)..=cont {
        for_words(&[92, 117, 123], &ALPHA, n, &mut |w| op_parse(t, w));
    }
    // boundary values, 1..6 digits, both cases, every kind of continuation
    let values: [u32; 14] = [
        0, 0xa, 0x41, 0x7f, 0xFF, 0xFFFF, 0x10000, 0x2FFFE, 0x2FFFF, 0x30000, 0x30001, 0xFFFFF, 0x100000, 0xABCDEF,
    ];
    let tails: [&[u32]; 8] = [&[], &[125], &[125, 125], &[48], &[92], &[103], &[123], &[125, 92, 117, 48, 48, 52, 49]];
    for &v in &values {
        for width in 1..=7usize {
            for &upper in &[false, true] {
                let digits = hex_text(v, width, upper);
                for tail in &tails {
                    let mut w = vec![92, 117, 123];
                    w.extend_from_slice(&digits);
                    w.extend_from_slice(tail);
                    op_parse(t, &w);
                    let mut w = vec![97, 92, 117];
                    w.extend_from_slice(&digits);
                    w.extend_from_slice(tail);
                    op_parse(t, &w);
                }
            }
        }
    }
    // random texts of length 11 from escape fragments
    let frags: [&[u32]; 18] = [
        &[92], &[117], &[123], &[125], &[92, 117], &[92, 117, 123], &[48], &[50], &[70], &[102], &[57], &[65],
        &[103], &[34], &[92, 92], &[50, 70, 70, 70, 70], &[51, 48, 48, 48, 48], &[0x30000],
    ];
    let n_rand = if thorough { 400_000 } else { 40_000 };
    for _ in 0..n_rand {
        let mut w: Vec<u32> = Vec::new();
        while w.len() < 11 {
            let f: &[u32] = *rng.pick(&frags[..]);
            w.extend_from_slice(f);
        }
        w.truncate(11);
        op_parse(t, &w);
    }
    // non-ASCII characters that alias an ASCII escape character modulo 2^8 / 2^16, or are Unicode
    // hex digits / look-alikes, substituted at every position of well-formed and nearly well-formed
    // escapes; and a non-ASCII character ahead of the first backslash (byte offset vs character
    // count)
    let templates: [&[u32]; 9] = [
        &[92, 117, 48, 48, 52, 49],                  // \u0041
        &[92, 117, 123, 52, 49, 125],                // \u{41}
        &[92, 117, 123, 50, 70, 102, 102, 102, 125], // \u{2Ffff}
        &[92, 117, 123, 97, 125],                    // \u{a}
        &[92, 117, 48, 48, 52],                      // \u004 (incomplete)
        &[92, 117, 123, 52, 49],                     // \u{41 (unclosed)
        &[97, 92, 117, 48, 48, 52, 49, 98],
        &[92, 117, 123, 48, 48, 48, 48, 52, 49, 125], // six digits
        &[92, 117, 51, 103, 92, 117, 48, 48, 52, 49], // aborted prefix with a digit, then an escape
    ];
    let twins: [u32; 6] = [0x100, 0x200, 0x300, 0x10000, 0x20000, 0xFF00];
    for tpl in &templates {
        op_parse(t, tpl);
        for pos in 0..tpl.len() {
            for &d in &twins {
                let c = tpl[pos] + d;
                if c <= 0x10FFFF && !(0xD800..=0xDFFF).contains(&c) {
                    let mut w = tpl.to_vec();
                    w[pos] = c;
                    op_parse(t, &w);
                }
            }
            // full-width and other Unicode digits/letters in hex positions
            for &c in &[0xFF10u32, 0xFF21, 0xFF41, 0x0660, 0x0131, 0x212A, 0x017F] {
                let mut w = tpl.to_vec();
                w[pos] = c;
                op_parse(t, &w);
            }
        }
        // every printable ASCII character substituted at, and inserted before, every position
        // (signs, the other case of `u`, `x`, blanks, quotes ... where a digit or a brace belongs)
        for pos in 0..=tpl.len() {
            for c in 0x20u32..0x7F {
                if pos < tpl.len() && tpl[pos] != c {
                    let mut w = tpl.to_vec();
                    w[pos] = c;
                    op_parse(t, &w);
                }
                let mut w = tpl.to_vec();
                w.insert(pos, c);
                op_parse(t, &w);
            }
        }
        for &pre in &[0xE9u32, 0x20AC, 0x1F600, 0x2FFFF, 0x30000] {
            let mut w = vec![pre];
            w.extend_from_slice(tpl);
            op_parse(t, &w);
            let mut w = vec![97, pre, pre];
            w.extend_from_slice(tpl);
            w.push(pre);
            op_parse(t, &w);
        }
    }
    // texts with characters outside the SMT-LIB alphabet
    for n in 0..=4 {
        for_words(&[], &[92, 117, 0x30000, 48], n, &mut |w| op_parse(t, w));
    }

    // ---- printing: all short strings over the tricky set
    let mut bodies: Vec<Vec<u32>> = Vec::new();
    for n in 0..=3 {
        for_words(&[], &TRICKY, n, &mut |w| {
            op_display(t, w);
            if n <= 2 {
                let s = SmtString::from(w);
                if let Some(b) = body_of(&s.to_string()) {
                    bodies.push(cps_of(&b));
                }
            }
        });
    }
    // strings that spell escapes: printed bodies as strings (and once more)
    for b in &bodies {
        op_display(t, b);
    }
    for x in [0xD7FFu32, 0xD800, 0xDFFF, 0xE000, 0xFFFD, 0xFF, 0x100, 32, 126, 127, 128, 0x2FFFE, 0xFFFE, 0x10001] {
        op_display(t, &[x]);
        op_display(t, &[92, 117, x, 125]);
    }
    let n_rs = if thorough { 60_000 } else { 6_000 };
    for _ in 0..n_rs {
        let len = rng.range(4, 9) as usize;
        let w: Vec<u32> = (0..len)
            .map(|_| {
                if rng.chance(3, 4) {
                    *rng.pick(&TRICKY)
                } else {
                    rng.range(0, MAX_CHAR as u64) as u32
                }
            })
            .collect();
        op_display(t, &w);
    }

    // ---- char_to_smt / smt_char_as_string
    for x in 0..=0x200u32 {
        op_char(t, x);
    }
    for b in [0xFFFu32, 0x1000, 0xD800, 0xFFFF, 0x10000, 0xFFFFF, 0x100000, MAX_CHAR, 0x30000, 0x10FFFF, 0x110000,
        0xFFFFFF, 0x1000000, 0x7FFFFFFF, 0x80000000, u32::MAX]
    {
        for d in [-1i64, 0, 1] {
            let x = b as i64 + d;
            if x >= 0 && x <= u32::MAX as i64 {
                op_char(t, x as u32);
            }
        }
    }
    for _ in 0..(if thorough { 20_000 } else { 2_000 }) {
        let x = if rng.chance(1, 2) { rng.range(0, MAX_CHAR as u64) } else { rng.range(0, u32::MAX as u64) };
        op_char(t, x as u32);
    }

    // ---- constructors
    let scalars: [u32; 8] = [97, 0x7f, 0xD7FF, 0xE000, 0x2FFFF, 0x30000, 0xFFFD, 0x10FFFF];
    for n in 0..=3 {
        for_words(&[], &scalars, n, &mut |w| op_from_text(t, &mut cx, w));
    }
    for c in [0u32, 34, 92, 97, 0x7f, 0xD7FF, 0xE000, 0xFFFD, 0x2FFFE, 0x2FFFF, 0x30000, 0x30001, 0x10FFFE, 0x10FFFF] {
        op_from_char(t, &mut cx, c);
    }
    for x in [0u32, 97, 0xD800, 0xFFFD, 0x2FFFE, 0x2FFFF, 0x30000, 0x30001, 0x10FFFF, 0x110000, 0x7FFFFFFF, 0x80000000,
        u32::MAX - 1, u32::MAX]
    {
        op_from_u32(t, &mut cx, x);
    }
    let words: [u32; 9] = [0, 97, 0xD7FF, 0xD800, 0xDFFF, 0xE000, 0x2FFFF, 0x30000, u32::MAX];
    for n in 0..=3 {
        for_words(&[], &words, n, &mut |w| op_from_vec(t, &mut cx, w));
    }
    for _ in 0..(if thorough { 20_000 } else { 2_000 }) {
        let len = rng.range(0, 6) as usize;
        let v: Vec<u32> = (0..len)
            .map(|_| match rng.below(4) {
                0 => rng.range(0, MAX_CHAR as u64) as u32,
                1 => rng.range(MAX_CHAR as u64 - 2, MAX_CHAR as u64 + 2) as u32,
                2 => rng.range(0, u32::MAX as u64) as u32,
                _ => *rng.pick(&words),
            })
            .collect();
        op_from_vec(t, &mut cx, &v);
        if let Some(&x) = v.first() {
            op_from_u32(t, &mut cx, x);
        }
        // the same numbers as a Rust string where they are scalar values
        let sc: Vec<u32> = v.iter().copied().filter(|&c| char::from_u32(c).is_some()).collect();
        op_from_text(t, &mut cx, &sc);
    }
}
