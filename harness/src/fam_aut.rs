//! Family `aut`: AutomatonBuilder / Automaton / CompactTable (C13, C14).
//!
//! Encodings (identical to lean/Driver/FamAutomaton.lean; one token each, no spaces):
//!   automaton   `n|init|nfinal|state;state;...`   n = num_states(), init = initial_state().id(),
//!               nfinal = num_final_states(), states in array order
//!   state       `id:final:[a-b,c-d]:w:[succ,...]:default`
//!               final 0/1; intervals = char_ranges(); w = the complementary-class witness
//!               (last element of char_picks()) when the complementary class is non-empty, `-` when
//!               it is empty (State has no accessor for the stored comp_witness; the model reads `-`
//!               back as MAX_CHAR+1); succ = class_next(s, Interval(i)).id(); default = `-` or
//!               default_successor()
//!   op sequence `N<k0>,<op>,...`  op = `T<k>:<a>-<b>:<k'>` add_transition | `D<k>:<k'>`
//!               set_default_successor | `F<k>` mark_final | `B` build() called here, result dropped
//!               | `U` build_unchecked() called here, result (or panic) dropped
//!   table       `size|alpha|[e00,e01,..];[e10,..];...`   size(), alphabet_size(), rows of eval(s,c)
//!   ctb script  `-` or `;`-joined `D<i>:<d>` / `S<i>:[c>v,...]`
//!   partition   `[a-b,...]|w`        edges `[I0>3,C>4]`
//!
//! Every automaton is produced by the real builder (and by remove_unreachable_states); all
//! observations go through the public API.  Dev profile: debug_assert!s are on.

use crate::fam_cs::cs_str;
use crate::rng::Rng;
use crate::trace::*;
use aws_smt_strings::automata::{Automaton, AutomatonBuilder, State};
use aws_smt_strings::character_sets::{CharSet, ClassId};
use aws_smt_strings::errors::Error;
use aws_smt_strings::smt_strings::{SmtString, MAX_CHAR};
use aws_smt_strings::verif_hooks::{CompactTable, CompactTableBuilder};

#[derive(Clone, Debug)]
pub enum Op {
    T(u32, u32, u32, u32), // key, a, b, key'
    D(u32, u32),
    F(u32),
    B,
    U,
}

fn op_str(o: &Op) -> String {
    match o {
        Op::T(k, a, b, k2) => format!("T{}:{}-{}:{}", k, a, b, k2),
        Op::D(k, k2) => format!("D{}:{}", k, k2),
        Op::F(k) => format!("F{}", k),
        Op::B => "B".into(),
        Op::U => "U".into(),
    }
}

pub fn seq_str(k0: u32, ops: &[Op]) -> String {
    let mut s = format!("N{}", k0);
    for o in ops {
        s.push(',');
        s.push_str(&op_str(o));
    }
    s
}

/// keys in order of first mention (the harness's own bookkeeping, used only to find the state of
/// a key for build_delta / build_final; the builder's numbering itself is compared literally
/// through the automaton token)
fn key_order(k0: u32, ops: &[Op]) -> Vec<u32> {
    let mut v = vec![k0];
    let add = |k: u32, v: &mut Vec<u32>| {
        if !v.contains(&k) {
            v.push(k)
        }
    };
    for o in ops {
        match o {
            Op::T(k, _, _, k2) | Op::D(k, k2) => {
                add(*k, &mut v);
                add(*k2, &mut v);
            }
            Op::F(k) => add(*k, &mut v),
            Op::B | Op::U => {}
        }
    }
    v
}

pub fn mk_builder(k0: u32, ops: &[Op]) -> AutomatonBuilder<u32> {
    let mut b = AutomatonBuilder::new(&k0);
    for o in ops {
        match o {
            Op::T(k, a, c, k2) => {
                b.add_transition(k, &CharSet::range(*a, *c), k2);
            }
            Op::D(k, k2) => {
                b.set_default_successor(k, k2);
            }
            Op::F(k) => {
                b.mark_final(k);
            }
            Op::B => {
                let _ = b.build();
            }
            Op::U => {
                // build_unchecked may panic (overlapping labels): the call sequence goes on
                let _ = std::panic::catch_unwind(std::panic::AssertUnwindSafe(|| {
                    let _ = b.build_unchecked();
                }));
            }
        }
    }
    b
}

fn err_str(e: &Error) -> String {
    format!("Err:{:?}", e)
}

fn state_str(a: &Automaton, s: &State) -> String {
    let ranges: Vec<CharSet> = s.char_ranges().copied().collect();
    let w = if s.valid_class_id(ClassId::Complement) {
        s.char_picks().last().unwrap().to_string()
    } else {
        "-".to_string()
    };
    let succ: Vec<usize> = (0..ranges.len())
        .map(|i| a.class_next(s, ClassId::Interval(i)).id())
        .collect();
    let d = match s.default_successor() {
        None => "-".to_string(),
        Some(d) => d.to_string(),
    };
    format!(
        "{}:{}:{}:{}:{}:{}",
        s.id(),
        p_bool(s.is_final()),
        p_list(&ranges, cs_str),
        w,
        p_list(&succ, |x| x.to_string()),
        d
    )
}

pub fn aut_str(a: &Automaton) -> String {
    let sts: Vec<String> = a.states().map(|s| state_str(a, s)).collect();
    format!(
        "{}|{}|{}|{}",
        a.num_states(),
        a.initial_state().id(),
        a.num_final_states(),
        sts.join(";")
    )
}

fn table_str(t: &CompactTable) -> String {
    let n = t.num_states() as u32;
    let m = t.alphabet_size() as u32;
    let rows: Vec<String> = (0..n)
        .map(|s| {
            let r: Vec<u32> = (0..m).map(|c| t.eval(s, c)).collect();
            p_nats(&r)
        })
        .collect();
    format!("{}|{}|{}", t.size(), m, rows.join(";"))
}

fn rows_str(t: &CompactTable) -> String {
    let n = t.num_states() as u32;
    let m = t.alphabet_size() as u32;
    let rows: Vec<String> = (0..n)
        .map(|s| {
            let r: Vec<u32> = (0..m).map(|c| t.eval(s, c)).collect();
            p_nats(&r)
        })
        .collect();
    rows.join(";")
}

fn cid_str(c: ClassId) -> String {
    match c {
        ClassId::Interval(i) => format!("I{}", i),
        ClassId::Complement => "C".into(),
    }
}

/// characters worth asking about: every cut point of every state, +-1, and the ends of the alphabet
fn probe_chars(a: &Automaton, extra_max: bool) -> Vec<u32> {
    let mut v: Vec<u32> = vec![0, 1, MAX_CHAR - 1, MAX_CHAR];
    for s in a.states() {
        for r in s.char_ranges() {
            let lo = r.pick();
            let hi = lo + r.size() - 1;
            for x in [lo.saturating_sub(1), lo, lo + 1, hi.saturating_sub(1), hi, hi + 1] {
                if x <= MAX_CHAR {
                    v.push(x);
                }
            }
        }
    }
    if extra_max {
        v.push(MAX_CHAR + 1);
    }
    v.sort_unstable();
    v.dedup();
    v
}

fn short_strings(rng: &mut Rng, alphabet: &[u32], n: usize) -> Vec<Vec<u32>> {
    let mut out: Vec<Vec<u32>> = vec![vec![]];
    if alphabet.is_empty() {
        return out;
    }
    // all strings of length 1, some of length 2..5
    for &c in alphabet.iter().take(12) {
        out.push(vec![c]);
    }
    for _ in 0..n {
        let len = rng.range(2, 5) as usize;
        out.push((0..len).map(|_| *rng.pick(alphabet)).collect());
    }
    out
}

/// all observations on one automaton. `full`: also the heavier ones (strings, table, pruning)
fn observe(t: &mut Trace, rng: &mut Rng, a: &mut Automaton, full: bool, depth: u32) {
    let tok = guarded(|| aut_str(a));
    if tok == "PANIC" {
        t.count("aut_str=PANIC");
        return;
    }
    let n = a.num_states();
    t.count(&format!("num_states={}", std::cmp::min(n, 8)));
    t.op(&format!("aut num_states {}", tok), &guarded(|| a.num_states().to_string()), true);
    t.op(&format!("aut num_final_states {}", tok), &guarded(|| a.num_final_states().to_string()), true);
    t.op(
        &format!("aut final_states {}", tok),
        &guarded(|| {
            let v: Vec<usize> = a.final_states().map(|s| s.id()).collect();
            p_list(&v, |x| x.to_string())
        }),
        true,
    );
    let chars = probe_chars(a, rng.chance(1, 4));
    for i in 0..n {
        let r = guarded(|| {
            let s = a.state(i);
            let v: Vec<String> = a.edges(s).map(|(c, nx)| format!("{}>{}", cid_str(c), nx.id())).collect();
            format!("[{}]", v.join(","))
        });
        t.op(&format!("aut edges {} {}", tok, i), &r, true);
        for &c in &chars {
            let r = guarded(|| a.next(a.state(i), c).id().to_string());
            t.count(if r == "PANIC" { "next=PANIC" } else { "next=ok" });
            t.op(&format!("aut next {} {} {}", tok, i, c), &r, true);
        }
        if full {
            // char_set_next on a few intervals over the probe characters
            for _ in 0..4 {
                let x = *rng.pick(&chars);
                let y = *rng.pick(&chars);
                let (x, y) = (std::cmp::min(x, y), std::cmp::max(x, y));
                if y > MAX_CHAR {
                    continue;
                }
                let r = guarded(|| match a.char_set_next(a.state(i), &CharSet::range(x, y)) {
                    Ok(s) => s.id().to_string(),
                    Err(e) => err_str(&e),
                });
                t.count(&format!("char_set_next={}", if r.starts_with("Err") || r == "PANIC" { r.as_str() } else { "ok" }));
                t.op(&format!("aut char_set_next {} {} {}-{}", tok, i, x, y), &r, true);
            }
        }
    }
    if !full {
        return;
    }
    let r = guarded(|| {
        let p = a.combined_char_partition();
        let v: Vec<CharSet> = p.ranges().copied().collect();
        format!("{}|{}", p_list(&v, cs_str), p.pick_complement())
    });
    t.op(&format!("aut combined_char_partition {}", tok), &r, true);
    let alpha_r = guarded(|| p_nats(&a.pick_alphabet()));
    t.op(&format!("aut pick_alphabet {}", tok), &alpha_r, true);
    let alphabet: Vec<u32> = if alpha_r == "PANIC" { vec![] } else { a.pick_alphabet() };
    t.count(&format!("alphabet_size={}", std::cmp::min(alphabet.len(), 12)));
    for w in short_strings(rng, &alphabet, 6) {
        let r = guarded(|| p_bool(a.accepts(&SmtString::from(&w[..]))));
        t.count(&format!("accepts={}", r));
        t.op(&format!("aut accepts {} {}", tok, p_nats(&w)), &r, !w.is_empty());
        if n > 1 && rng.chance(1, 3) {
            let i = rng.below(n as u64) as usize;
            let r = guarded(|| a.str_next(a.state(i), &SmtString::from(&w[..])).id().to_string());
            t.op(&format!("aut str_next {} {} {}", tok, i, p_nats(&w)), &r, !w.is_empty());
        }
    }
    let r = guarded(|| table_str(&a.compile_successors()));
    t.count(if r == "PANIC" { "compile=PANIC" } else { "compile=ok" });
    t.op(&format!("aut compile_successors {}", tok), &r, true);
    let r = guarded(|| rows_str(&a.compile_successors()));
    t.op(&format!("aut compile_eval {}", tok), &r, true);
    // pruning last: it consumes the automaton
    let r = guarded(|| {
        a.remove_unreachable_states();
        aut_str(a)
    });
    if r != "PANIC" {
        let kept = a.num_states();
        t.count(if kept < n { "prune=removed" } else { "prune=nothing" });
    } else {
        t.count("prune=PANIC");
    }
    t.op(&format!("aut remove_unreachable {}", tok), &r, true);
    if r != "PANIC" && depth > 0 && a.num_states() < n {
        observe(t, rng, a, true, depth - 1);
    }
}

fn run_seq(t: &mut Trace, rng: &mut Rng, k0: u32, ops: &[Op]) {
    let ss = seq_str(k0, ops);
    let has_b = ops.iter().any(|o| matches!(o, Op::B | Op::U));
    // build
    let mut built: Option<Automaton> = None;
    let r = guarded(|| match mk_builder(k0, ops).build() {
        Ok(a) => {
            let s = aut_str(&a);
            built = Some(a);
            s
        }
        Err(e) => err_str(&e),
    });
    let verdict = if r.starts_with("Err") || r == "PANIC" { r.clone() } else { "ok".to_string() };
    t.count(&format!("build={}{}", verdict, if has_b { "(B)" } else { "" }));
    t.op(&format!("aut build {}", ss), &r, true);
    t.op(&format!("aut build_verdict {}", ss), &verdict, true);
    // build_unchecked
    let mut unchecked: Option<Automaton> = None;
    let ru = guarded(|| {
        let a = mk_builder(k0, ops).build_unchecked();
        let s = aut_str(&a);
        unchecked = Some(a);
        s
    });
    t.count(if ru == "PANIC" { "build_unchecked=PANIC" } else { "build_unchecked=ok" });
    t.op(&format!("aut build_unchecked {}", ss), &ru, true);
    if let Some(mut a) = built {
        let keys = key_order(k0, ops);
        let chars = probe_chars(&a, false);
        for (i, k) in keys.iter().enumerate() {
            let r = guarded(|| p_bool(a.state(i).is_final()));
            t.op(&format!("aut build_final {} {}", ss, k), &r, true);
            for &c in &chars {
                let r = guarded(|| a.next(a.state(i), c).id().to_string());
                t.op(&format!("aut build_delta {} {} {}", ss, k, c), &r, true);
            }
        }
        observe(t, rng, &mut a, true, 2);
    } else if let Some(mut a) = unchecked {
        // automata the checked build refuses: incomplete / with invented defaults
        let full = ru != r && rng.chance(1, 2);
        observe(t, rng, &mut a, full, 1);
    }
}

// ---------- generators ----------

pub const CUTS: [u32; 14] = [0, 1, 2, 47, 48, 57, 58, 97, 98, 99, 100, 122, MAX_CHAR - 1, MAX_CHAR];

/// a random chain of consecutive intervals covering [0, MAX_CHAR]
pub fn tiling(rng: &mut Rng) -> Vec<(u32, u32)> {
    let mut cuts: Vec<u32> = Vec::new(); // interval starts (other than 0)
    let k = rng.range(0, 5);
    for _ in 0..k {
        let c = if rng.chance(3, 4) { *rng.pick(&CUTS) } else { rng.range(1, MAX_CHAR as u64) as u32 };
        if c > 0 {
            cuts.push(c);
        }
    }
    cuts.sort_unstable();
    cuts.dedup();
    let mut out = Vec::new();
    let mut lo = 0u32;
    for c in cuts {
        out.push((lo, c - 1));
        lo = c;
    }
    out.push((lo, MAX_CHAR));
    out
}

#[derive(Clone, Copy, PartialEq)]
pub enum Shape {
    Valid,
    Perturbed,
    Overlap,
    Random,
}

pub fn shuffle<T>(rng: &mut Rng, v: &mut Vec<T>) {
    for i in (1..v.len()).rev() {
        let j = rng.below(i as u64 + 1) as usize;
        v.swap(i, j);
    }
}

pub fn gen_seq(rng: &mut Rng, shape: Shape) -> (u32, Vec<Op>) {
    const KEYS: [u32; 8] = [0, 1, 2, 3, 5, 8, 13, 7];
    let n = rng.range(1, 5) as usize;
    let mut pool: Vec<u32> = KEYS.to_vec();
    shuffle(rng, &mut pool);
    let keys: Vec<u32> = pool[..n].to_vec();
    let k0 = keys[0];
    let mut ops: Vec<Op> = Vec::new();
    if shape == Shape::Random {
        let m = rng.range(0, 10);
        for _ in 0..m {
            let k = *rng.pick(&keys);
            let k2 = *rng.pick(&keys);
            match rng.below(4) {
                0 | 1 => {
                    let a = *rng.pick(&CUTS);
                    let b = *rng.pick(&CUTS);
                    ops.push(Op::T(k, std::cmp::min(a, b), std::cmp::max(a, b), k2));
                }
                2 => ops.push(Op::D(k, k2)),
                _ => ops.push(Op::F(k)),
            }
        }
        return (k0, ops);
    }
    // how many states form the part reachable by construction: the others are only sources
    let n_main = if rng.chance(1, 3) { rng.range(1, n as u64) as usize } else { n };
    for (si, &k) in keys.iter().enumerate() {
        let tiles = tiling(rng);
        let targets_pool: &[u32] = if si < n_main { &keys[..n_main] } else { &keys[..] };
        // target distribution: 0 = one dominant target, 1 = all different where possible,
        // 2 = exactly half on one target, 3 = uniform
        let dist = rng.below(4);
        let dom = *rng.pick(targets_pool);
        let mut trans: Vec<Op> = Vec::new();
        let mut uncovered = false;
        let leave = rng.below(3); // 0: cover all, 1: leave some, 2: leave many
        for (i, &(a, b)) in tiles.iter().enumerate() {
            let skip = match leave {
                0 => false,
                1 => rng.chance(1, 4),
                _ => rng.chance(1, 2),
            };
            if skip {
                uncovered = true;
                continue;
            }
            let tgt = match dist {
                0 => {
                    if rng.chance(3, 4) {
                        dom
                    } else {
                        *rng.pick(targets_pool)
                    }
                }
                1 => targets_pool[i % targets_pool.len()],
                2 => {
                    if i % 2 == 0 {
                        dom
                    } else {
                        targets_pool[(i / 2) % targets_pool.len()]
                    }
                }
                _ => *rng.pick(targets_pool),
            };
            trans.push(Op::T(k, a, b, tgt));
        }
        let mut declare = uncovered;
        if shape == Shape::Perturbed && rng.chance(1, 3) {
            declare = !declare;
        }
        let dflt = *rng.pick(targets_pool);
        if shape == Shape::Overlap && rng.chance(1, 2) && !trans.is_empty() {
            // an extra label overlapping an existing one: same target, other target, or
            // overlapping a transition that goes to the (declared or future majority) default
            let (a, b, tg) = match rng.pick(&trans) {
                Op::T(_, a, b, tg) => (*a, *b, *tg),
                _ => unreachable!(),
            };
            let x = rng.range(a as u64, b as u64) as u32;
            let ext = rng.below(3);
            let y = rng.range(x as u64, std::cmp::min(b as u64 + ext, MAX_CHAR as u64)) as u32;
            let tg2 = match rng.below(3) {
                0 => tg,
                1 => dflt,
                _ => *rng.pick(&keys),
            };
            trans.push(Op::T(k, x, y, tg2));
            if rng.chance(1, 2) {
                // make the overlapped transition point to the default target (the D7 shape)
                for o in trans.iter_mut() {
                    if let Op::T(_, a2, b2, t2) = o {
                        if *a2 == a && *b2 == b {
                            *t2 = dflt;
                        }
                    }
                }
                declare = true;
            }
        }
        shuffle(rng, &mut trans);
        ops.append(&mut trans);
        if declare {
            if rng.chance(1, 6) {
                ops.push(Op::D(k, *rng.pick(&keys))); // overridden below: the last one wins
            }
            ops.push(Op::D(k, dflt));
        }
        if rng.chance(1, 3) {
            ops.push(Op::F(k));
        }
    }
    if rng.chance(1, 3) {
        // interleave the per-state groups
        shuffle(rng, &mut ops);
    }
    if rng.chance(1, 12) {
        let pos = rng.below(ops.len() as u64 + 1) as usize;
        ops.insert(pos, Op::B);
    }
    if rng.chance(1, 5) {
        // an intermediate build_unchecked(): at the very end (right before the final build) half
        // of the time, otherwise anywhere
        let pos = if rng.chance(1, 2) { ops.len() } else { rng.below(ops.len() as u64 + 1) as usize };
        ops.insert(pos, Op::U);
    }
    (k0, ops)
}

fn run_ctb(t: &mut Trace, rng: &mut Rng) {
    let n = if rng.chance(1, 20) { 0 } else { rng.range(1, 5) as u32 };
    let alpha = if rng.chance(1, 20) { 0 } else { rng.range(1, 6) as u32 };
    let steps = rng.range(0, 7);
    #[derive(Clone)]
    enum C {
        D(u32, u32),
        S(u32, Vec<(u32, u32)>),
    }
    let mut script: Vec<C> = Vec::new();
    let wild = rng.chance(1, 10);
    let nn = std::cmp::max(n, 1);
    let aa = std::cmp::max(alpha, 1);
    for _ in 0..steps {
        let i = if wild && rng.chance(1, 4) { nn } else { rng.below(nn as u64) as u32 };
        if rng.chance(1, 3) {
            let d = if wild && rng.chance(1, 4) { nn } else { rng.below(nn as u64) as u32 };
            script.push(C::D(i, d));
        } else {
            let mut row: Vec<(u32, u32)> = Vec::new();
            for c in 0..aa {
                if rng.chance(1, 2) {
                    row.push((c, rng.below(nn as u64) as u32));
                }
            }
            if rng.chance(1, 4) {
                shuffle(rng, &mut row);
            }
            if wild && rng.chance(1, 3) {
                row.push((aa + rng.below(3) as u32, 0));
            }
            if wild && rng.chance(1, 3) && !row.is_empty() {
                let d = row[0];
                row.push(d);
            }
            script.push(C::S(i, row));
        }
    }
    let s = if script.is_empty() {
        "-".to_string()
    } else {
        script
            .iter()
            .map(|c| match c {
                C::D(i, d) => format!("D{}:{}", i, d),
                C::S(i, row) => format!("S{}:{}", i, p_list(row, |(c, v)| format!("{}>{}", c, v))),
            })
            .collect::<Vec<_>>()
            .join(";")
    };
    let r = guarded(|| {
        let mut b = CompactTableBuilder::new(n, alpha);
        for c in &script {
            match c {
                C::D(i, d) => b.set_default(*i, *d),
                C::S(i, row) => b.set_successors(*i, row),
            }
        }
        table_str(&b.build())
    });
    t.count(if r == "PANIC" { "ctb=PANIC" } else { "ctb=ok" });
    t.op(&format!("aut ctb {} {} {}", n, alpha, s), &r, true);
}

pub fn run(t: &mut Trace, rng: &mut Rng, thorough: bool) {
    t.rule = "builder call sequences over 1..5 keys with labels over 14 boundary cut points: (valid) per state a tiling of the alphabet with some tiles left uncovered and a default declared iff needed, target distributions dominant/all-different/exactly-half/uniform; (perturbed) default missing or superfluous; (overlap) an extra label overlapping an existing one with equal/default/other target, incl. the D7 shape; (random) arbitrary ops; unreachable components, shuffled op order, overridden defaults, occasional mid-sequence build() and build_unchecked() calls (pseudo-ops B, U). Each built automaton: structure, build_delta/build_final against the specification, next at all cut points +-1, edges, iterators, counts, short strings, combined partition, alphabet, compiled table (all cells), pruning (recursively observed). CompactTableBuilder scripts driven directly. A case counts as non-trivial unless it is accepts/str_next on the empty string".into();

    // ---- regression corpus: the two D7 witnesses (DESIGN.md §9), and neighbours ----
    let corpus: Vec<(u32, Vec<Op>)> = vec![
        // incomplete state 0, default invented by majority promotion
        (0, vec![Op::T(0, 97, 99, 1), Op::D(1, 1)]),
        // conflicting overlap hidden by removal of the transitions into the default
        (0, vec![Op::T(0, 97, 99, 1), Op::T(0, 98, 98, 0), Op::D(0, 1), Op::D(1, 1)]),
        // same, the overlapping pair in the other order
        (0, vec![Op::T(0, 98, 98, 0), Op::T(0, 97, 99, 1), Op::D(0, 1), Op::D(1, 1)]),
        // overlap with equal targets (rejected: labels must be pairwise disjoint)
        (0, vec![Op::T(0, 97, 99, 1), Op::T(0, 98, 98, 1), Op::D(0, 1), Op::D(1, 1)]),
        // complete state, superfluous default
        (0, vec![Op::T(0, 0, MAX_CHAR, 0), Op::D(0, 0)]),
        // complete, no default: promotion of the only target
        (0, vec![Op::T(0, 0, MAX_CHAR, 0)]),
        // threshold len/2: targets 1,2,3 (n=1 >= 3/2=1), targets 1,1,2,3
        (0, vec![Op::T(0, 0, 9, 1), Op::T(0, 10, 19, 2), Op::T(0, 20, MAX_CHAR, 3), Op::D(1, 1), Op::D(2, 2), Op::D(3, 3)]),
        (0, vec![Op::T(0, 0, 9, 1), Op::T(0, 10, 19, 2), Op::T(0, 20, 29, 3), Op::T(0, 30, 39, 4), Op::T(0, 40, MAX_CHAR, 5),
                 Op::D(1, 1), Op::D(2, 2), Op::D(3, 3), Op::D(4, 4), Op::D(5, 5)]),
        // the crate's own test automaton with an unreachable component (test_remove_unreachable)
        (0, vec![Op::T(5, 122, 122, 6), Op::D(5, 8), Op::T(6, 121, 121, 5), Op::D(6, 8), Op::D(8, 5), Op::F(6),
                 Op::T(0, 97, 97, 0), Op::T(0, 98, 98, 1), Op::T(0, 99, 99, 2), Op::T(1, 97, 97, 3), Op::T(1, 99, 99, 2),
                 Op::T(2, 98, 98, 3), Op::T(2, 99, 99, 3), Op::T(3, 97, 97, 0), Op::T(3, 98, 98, 1), Op::T(3, 99, 99, 3),
                 Op::D(0, 4), Op::D(1, 4), Op::D(2, 4), Op::D(3, 4), Op::D(4, 4), Op::F(3)]),
        // build() twice: the first call promotes a default inside the builder
        (0, vec![Op::T(0, 0, MAX_CHAR, 1), Op::D(1, 1), Op::B, Op::T(0, 97, 97, 2), Op::D(2, 2)]),
        // build_unchecked() in the middle must not alter the builder either
        (0, vec![Op::T(0, 97, 97, 1), Op::T(0, 98, 98, 1), Op::D(1, 1), Op::F(1), Op::U]),
        (0, vec![Op::T(0, 0, MAX_CHAR, 1), Op::D(1, 1), Op::U, Op::T(0, 97, 97, 2), Op::D(2, 2)]),
        (0, vec![Op::T(0, 97, 99, 1), Op::T(0, 98, 98, 0), Op::D(0, 1), Op::D(1, 1), Op::U]),
        (0, vec![Op::T(0, 0, 9, 1), Op::T(0, 10, MAX_CHAR, 1), Op::D(1, 1), Op::U, Op::T(0, 5, 5, 1)]),
        // a single state, nothing else
        (4, vec![]),
        (4, vec![Op::D(4, 4), Op::F(4)]),
    ];
    for (k0, ops) in &corpus {
        run_seq(t, rng, *k0, ops);
    }

    let n_seq = if thorough { 12000 } else { 700 };
    for i in 0..n_seq {
        let shape = match i % 8 {
            0 | 1 | 2 => Shape::Valid,
            3 | 4 => Shape::Perturbed,
            5 | 6 => Shape::Overlap,
            _ => Shape::Random,
        };
        let (k0, ops) = gen_seq(rng, shape);
        run_seq(t, rng, k0, &ops);
    }
    let n_ctb = if thorough { 40000 } else { 3000 };
    for _ in 0..n_ctb {
        run_ctb(t, rng);
    }
}
