//! verif-harness <family> <quick|thorough> <seed> <trace-out>
//!
//! Calls the real crate (current /repo working tree, feature `verif`) in-process on generated
//! and boundary-directed inputs and writes one canonical line per operation; the Lean driver
//! re-evaluates the same lines with the model.  Statistics go to `<trace-out>.stats.json`.

mod fam_cp;
mod fam_aut;
mod fam_cs;
mod fam_lit;
mod fam_lr;
mod fam_mgr;
mod fam_min;
mod fam_re;
mod fam_store;
mod fam_str;
mod rng;
mod trace;

use rng::Rng;
use trace::Trace;

fn main() {
    let args: Vec<String> = std::env::args().collect();
    if args.len() != 5 {
        eprintln!("usage: verif-harness <family> <quick|thorough> <seed> <trace-out>");
        std::process::exit(2);
    }
    let family = args[1].as_str();
    let thorough = args[2] == "thorough";
    let seed: u64 = args[3].parse().expect("seed");
    let out = &args[4];
    trace::silence_panics();
    let mut t = Trace::new(out);
    let mut rng = Rng::new(seed);
    t.comment(&format!(
        "family={} tier={} seed={} profile={}",
        family,
        args[2],
        seed,
        if cfg!(debug_assertions) { "dev" } else { "release" }
    ));
    match family {
        "cs" => fam_cs::run(&mut t, &mut rng, thorough),
        "lit" => fam_lit::run(&mut t, &mut rng, thorough),
        "store" => fam_store::run(&mut t, &mut rng, thorough),
        "aut" => fam_aut::run(&mut t, &mut rng, thorough),
        "lr" => fam_lr::run(&mut t, &mut rng, thorough),
        "cp" => fam_cp::run(&mut t, &mut rng, thorough),
        "min" => fam_min::run(&mut t, &mut rng, thorough),
        "mgr" => fam_mgr::run(&mut t, &mut rng, thorough),
        "re" => fam_re::run(&mut t, &mut rng, thorough),
        "str" => fam_str::run(&mut t, &mut rng, thorough),
        _ => {
            eprintln!("unknown family {}", family);
            std::process::exit(2);
        }
    }
    let stats = format!("{}.stats.json", out);
    t.finish(&stats, &[]);
}
