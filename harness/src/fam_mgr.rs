//! Family `mgr`: sessions on a fresh `ReManager` made only of constructor and derivative calls,
//! replayed by the Lean driver on the STATEFUL manager model (lean/SmtModel/Model/Manager.lean)
//! starting from its own fresh state — no term table is handed to the model.  Every returned term
//! is compared by id, and the complete term table (`verif_term(0..n)`, every node over child ids)
//! is compared literally several times per session: the model must allocate the same nodes in the
//! same order.  See lean/Driver/FamMgr.lean for the line format.
//!
//! Besides constructors and derivatives the sessions interleave EVERY allocating operation of the
//! manager (lean/SmtModel/Model/ManagerOps.lean): set/class derivatives, iter_derivatives,
//! is_empty_re, get_string, start_char/start_class, compile/try_compile, naive_re_search (hook) and,
//! on the thread-local manager of a fresh thread, str_replace_re / str_replace_re_all.  Their
//! results and the table size after each are compared literally.

use crate::fam_re::enc_node;
use crate::rng::Rng;
use crate::trace::*;
use aws_smt_strings::character_sets::*;
use aws_smt_strings::loop_ranges::LoopRange;
use aws_smt_strings::regular_expressions::*;
use aws_smt_strings::smt_strings::{SmtString, MAX_CHAR};
use std::panic::{catch_unwind, AssertUnwindSafe};

/// loop bounds are kept far below u32::MAX: the model has unbounded bounds, the crate panics
const BOUND_CAP: u64 = 50_000;

fn p_nats(v: &[u32]) -> String {
    format!("[{}]", v.iter().map(|x| x.to_string()).collect::<Vec<_>>().join(","))
}

fn p_ids(v: &[RegLan]) -> String {
    format!("[{}]", v.iter().map(|x| x.verif_id().to_string()).collect::<Vec<_>>().join(","))
}

fn p_usizes(v: &[usize]) -> String {
    format!("[{}]", v.iter().map(|x| x.to_string()).collect::<Vec<_>>().join(","))
}

fn p_cid(c: ClassId) -> String {
    match c {
        ClassId::Interval(i) => format!("I{}", i),
        ClassId::Complement => "C".into(),
    }
}

fn enc_table(re: &ReManager) -> String {
    let n = re.verif_num_terms();
    let mut s = String::with_capacity(n * 10);
    for i in 0..n {
        if i > 0 {
            s.push(';');
        }
        s.push_str(&enc_node(re.verif_term(i)));
    }
    s
}

struct Session<'a> {
    m: ReManager,
    pool: Vec<(RegLan, u64)>, // term, conservative bound on its loop bounds
    t: &'a mut Trace,
}

impl<'a> Session<'a> {
    fn new(t: &'a mut Trace) -> Self {
        t.op("mgr begin", "ok", false);
        Session { m: ReManager::new(), pool: Vec::new(), t }
    }

    fn id(r: RegLan) -> String {
        r.verif_id().to_string()
    }

    /// run a call returning a term; record it; add the result to the pool
    fn call<F: FnOnce(&mut ReManager) -> RegLan>(&mut self, lhs: String, bound: u64, f: F) -> Option<RegLan> {
        let m = &mut self.m;
        match catch_unwind(AssertUnwindSafe(|| f(m))) {
            Ok(re) => {
                self.t.op(&lhs, &Self::id(re), true);
                self.t.count("term");
                self.pool.push((re, bound));
                Some(re)
            }
            Err(_) => {
                self.t.op(&lhs, "PANIC", true);
                self.t.count("panic");
                None
            }
        }
    }

    fn dump(&mut self) {
        let n = self.m.verif_num_terms();
        self.t.op("mgr size", &n.to_string(), true);
        let enc = enc_table(&self.m);
        self.t.op("mgr table", &enc, true);
        self.t.count("table-dump");
    }

    fn pick(&self, rng: &mut Rng) -> (RegLan, u64) {
        self.pool[rng.below(self.pool.len() as u64) as usize]
    }

    /// bias to recent terms (deep nesting) half of the time
    fn pick_recent(&self, rng: &mut Rng) -> (RegLan, u64) {
        let n = self.pool.len() as u64;
        if rng.chance(1, 2) && n > 6 {
            self.pool[(n - 1 - rng.below(6)) as usize]
        } else {
            self.pick(rng)
        }
    }
}

fn rand_char(rng: &mut Rng) -> u32 {
    match rng.below(10) {
        0 => 0,
        1 => MAX_CHAR,
        2 => 96,
        3 => 101,
        _ => 97 + rng.below(4) as u32,
    }
}

fn rand_string(rng: &mut Rng, maxlen: u64) -> Vec<u32> {
    let n = rng.below(maxlen + 1);
    (0..n).map(|_| 97 + rng.below(4) as u32).collect()
}

/// number of nodes of the term as a tree, capped
fn tsize(re: RegLan, cap: usize) -> usize {
    fn go(re: RegLan, left: &mut usize) {
        if *left == 0 {
            return;
        }
        *left -= 1;
        match re.verif_expr() {
            BaseRegLan::Empty | BaseRegLan::Epsilon | BaseRegLan::Range(_) => {}
            BaseRegLan::Concat(l, r) => {
                go(l, left);
                go(r, left);
            }
            BaseRegLan::Loop(e, _) => go(e, left),
            BaseRegLan::Complement(e) => go(e, left),
            BaseRegLan::Union(l) | BaseRegLan::Inter(l) => {
                for x in l.iter() {
                    go(x, left);
                }
            }
        }
    }
    let mut left = cap;
    go(re, &mut left);
    cap - left
}

fn p_search(r: aws_smt_strings::verif_hooks::SearchResult) -> String {
    match r {
        aws_smt_strings::verif_hooks::SearchResult::Found(i, j) => format!("some:{}:{}", i, j),
        aws_smt_strings::verif_hooks::SearchResult::NotFound => "none".into(),
    }
}

/// the operations of Model/ManagerOps.lean: searches over the derivative closure, compilation,
/// regex search — every one allocates through the derivative cache; after each, the table size is
/// compared (the complete table is compared by the periodic `dump`)
fn heavy_step(s: &mut Session, rng: &mut Rng) {
    // a small term (the closure of a big one may be huge): a few attempts
    let mut pick = None;
    for k in 0..12 {
        let (x, bx) = s.pick_recent(rng);
        let sz = tsize(x, 60);
        // prefer terms with some structure; fall back to any small term
        if sz <= 26 && (sz >= 4 || k >= 8) && 2 * bx + 64 <= BOUND_CAP {
            pick = Some((x, bx));
            break;
        }
    }
    let (x, bx) = match pick {
        Some(p) => p,
        None => return,
    };
    let ix = Session::id(x);
    let nb = 2 * bx + 64;
    match rng.below(12) {
        0 | 1 => {
            let m = &mut s.m;
            let mut out: Vec<usize> = Vec::new();
            let r = guarded(|| {
                for d in m.iter_derivatives(x) {
                    out.push(d.verif_id());
                }
                p_usizes(&out)
            });
            s.t.count(&format!("iter_derivs_bucket={}", std::cmp::min(out.len() / 4 * 4, 40)));
            s.t.op(&format!("mgr iter_derivs {}", ix), &r, true);
            // a few of the derivatives join the pool
            for d in out.iter().skip(1).take(3) {
                let re = s.m.verif_term(*d);
                s.pool.push((re, nb));
            }
        }
        2 => {
            let m = &mut s.m;
            let r = guarded(|| p_bool(m.is_empty_re(x)));
            s.t.count(&format!("is_empty_re={}", r));
            s.t.op(&format!("mgr is_empty_re {}", ix), &r, true);
        }
        3 => {
            let m = &mut s.m;
            let r = guarded(|| match m.get_string(x) {
                None => "none".into(),
                Some(w) => format!("some:{}", p_nats(w.as_ref())),
            });
            s.t.count(if r == "none" { "get_string=none" } else { "get_string=some" });
            s.t.op(&format!("mgr get_string {}", ix), &r, true);
        }
        4 | 5 => {
            let c = rand_char(rng);
            let m = &mut s.m;
            let r = guarded(|| p_bool(m.start_char(x, c)));
            s.t.count(&format!("start_char={}", r));
            s.t.op(&format!("mgr start_char {} {}", ix, c), &r, true);
        }
        6 => {
            let mut cids: Vec<ClassId> = x.class_ids().collect();
            cids.push(ClassId::Interval(x.num_deriv_classes() + 1));
            let cid = *rng.pick(&cids);
            let m = &mut s.m;
            let r = guarded(|| match m.start_class(x, cid) {
                Ok(b) => p_bool(b),
                Err(e) => format!("Err:{:?}", e),
            });
            s.t.op(&format!("mgr start_class {} {}", ix, p_cid(cid)), &r, true);
        }
        7 => {
            let m = &mut s.m;
            let r = guarded(|| crate::fam_aut::aut_str(&m.compile(x)));
            s.t.count("compile");
            s.t.op(&format!("mgr compile {}", ix), &r, true);
        }
        8 => {
            // the closure size decides Some/None: enumerate it first (that call allocates: recorded)
            let m = &mut s.m;
            let mut k = 0usize;
            let r = guarded(|| {
                let v: Vec<usize> = m.iter_derivatives(x).map(|d| d.verif_id()).collect();
                k = v.len();
                p_usizes(&v)
            });
            s.t.op(&format!("mgr iter_derivs {}", ix), &r, true);
            let n = match rng.below(4) {
                0 => 0,
                1 => k.saturating_sub(1),
                2 => k,
                _ => k + 1 + rng.below(3) as usize,
            };
            let m = &mut s.m;
            let r = guarded(|| match m.try_compile(x, n) {
                None => "none".into(),
                Some(a) => format!("some:{}", crate::fam_aut::aut_str(&a)),
            });
            s.t.count(if r == "none" { "try_compile=none" } else { "try_compile=some" });
            s.t.op(&format!("mgr try_compile {} {}", ix, n), &r, true);
        }
        9 | 10 => {
            let w = rand_string(rng, 5);
            let k = rng.below(w.len() as u64 + 2) as usize;
            let allow = rng.chance(1, 2);
            let m = &mut s.m;
            let r = guarded(|| p_search(aws_smt_strings::verif_hooks::naive_re_search(m, x, &w, k, allow)));
            s.t.count(if r == "none" { "re_search=none" } else { "re_search=some" });
            s.t.op(&format!("mgr re_search {} {} {} {}", ix, p_nats(&w), k, p_bool(allow)), &r, true);
        }
        _ => {
            // set derivatives at the cut points of the term's classes, unchecked class derivative
            let mut cps: Vec<u32> = vec![0, 96, 97, 98, 99, 100, 101, MAX_CHAR];
            for r in x.char_ranges() {
                let a = r.pick();
                cps.push(a);
                cps.push(a + r.size() - 1);
            }
            let a = *rng.pick(&cps);
            let b = *rng.pick(&cps);
            let (a, b) = if a <= b { (a, b) } else { (b, a) };
            let set = CharSet::range(a, b);
            match rng.below(3) {
                0 => {
                    let lhs = format!("mgr set_deriv {} {}-{}", ix, a, b);
                    let m = &mut s.m;
                    match catch_unwind(AssertUnwindSafe(|| m.set_derivative(x, &set))) {
                        Ok(Ok(re)) => {
                            s.t.op(&lhs, &Session::id(re), true);
                            s.t.count("set_deriv=Ok");
                            s.pool.push((re, nb));
                        }
                        Ok(Err(e)) => {
                            s.t.count("set_deriv=Err");
                            s.t.op(&lhs, &format!("Err:{:?}", e), true)
                        }
                        Err(_) => s.t.op(&lhs, "PANIC", true),
                    }
                }
                1 => {
                    s.call(format!("mgr set_deriv_unchecked {} {}-{}", ix, a, b), nb, |m| m.set_derivative_unchecked(x, &set));
                }
                _ => {
                    let mut cids: Vec<ClassId> = x.class_ids().collect();
                    cids.push(ClassId::Interval(x.num_deriv_classes() + 1));
                    cids.push(ClassId::Complement);
                    let cid = *rng.pick(&cids);
                    s.call(format!("mgr class_deriv_unchecked {} {}", ix, p_cid(cid)), nb, |m| m.class_derivative_unchecked(x, cid));
                }
            }
        }
    }
    let n = s.m.verif_num_terms();
    s.t.op("mgr size", &n.to_string(), true);
}

/// a session on the THREAD-LOCAL manager of src/smt_regular_expressions.rs (the only manager
/// `str_replace_re` / `str_replace_re_all` work on), run in a fresh thread so that the manager is
/// fresh: terms are built through `verif_with_manager`, then replaced in random strings
fn replace_session(t: &mut Trace, rng: &mut Rng) {
    use aws_smt_strings::smt_regular_expressions::{str_replace_re, str_replace_re_all, verif_with_manager};
    std::thread::scope(|sc| {
        sc.spawn(|| {
            t.op("mgr begin", "ok", false);
            let mut pool: Vec<RegLan> = Vec::new();
            let mut mk = |t: &mut Trace, lhs: String, f: &mut dyn FnMut(&mut ReManager) -> RegLan| -> RegLan {
                let re = verif_with_manager(|m| f(m));
                t.op(&lhs, &Session::id(re), true);
                re
            };
            for c in 97..100u32 {
                let r = mk(t, format!("mgr char {}", c), &mut |m| m.char(c));
                pool.push(r);
            }
            let r = mk(t, "mgr full".into(), &mut |m| m.full());
            pool.push(r);
            let r = mk(t, "mgr all_chars".into(), &mut |m| m.all_chars());
            pool.push(r);
            let steps = 6 + rng.below(10);
            for _ in 0..steps {
                let x = pool[rng.below(pool.len() as u64) as usize];
                let y = pool[rng.below(pool.len() as u64) as usize];
                let (ix, iy) = (Session::id(x), Session::id(y));
                let r = match rng.below(8) {
                    0 => {
                        let w = rand_string(rng, 3);
                        let w2 = w.clone();
                        mk(t, format!("mgr str {}", p_nats(&w)), &mut move |m| m.str(&SmtString::from(&w2[..])))
                    }
                    1 | 2 => mk(t, format!("mgr concat {} {}", ix, iy), &mut |m| m.concat(x, y)),
                    3 => mk(t, format!("mgr union {} {}", ix, iy), &mut |m| m.union(x, y)),
                    4 => mk(t, format!("mgr inter {} {}", ix, iy), &mut |m| m.inter(x, y)),
                    5 => mk(t, format!("mgr comp {}", ix), &mut |m| m.complement(x)),
                    6 => mk(t, format!("mgr star {}", ix), &mut |m| m.star(x)),
                    _ => mk(t, format!("mgr plus {}", ix), &mut |m| m.plus(x)),
                };
                pool.push(r);
                if tsize(r, 40) <= 14 {
                    let w = rand_string(rng, 6);
                    let rep = rand_string(rng, 2);
                    let (s1, s2) = (SmtString::from(&w[..]), SmtString::from(&rep[..]));
                    let ir = Session::id(r);
                    let res = guarded(|| p_nats(str_replace_re(&s1, r, &s2).as_ref()));
                    t.op(&format!("mgr replace_re {} {} {}", p_nats(&w), ir, p_nats(&rep)), &res, true);
                    let res = guarded(|| p_nats(str_replace_re_all(&s1, r, &s2).as_ref()));
                    t.op(&format!("mgr replace_re_all {} {} {}", p_nats(&w), ir, p_nats(&rep)), &res, true);
                    t.count("replace");
                    let n = verif_with_manager(|m| m.verif_num_terms());
                    t.op("mgr size", &n.to_string(), true);
                }
            }
            let (n, enc) = verif_with_manager(|m| (m.verif_num_terms(), enc_table(m)));
            t.op("mgr size", &n.to_string(), true);
            t.op("mgr table", &enc, true);
            t.count("table-dump");
        })
        .join()
        .unwrap();
    });
}

fn step(s: &mut Session, rng: &mut Rng) {
    let (x, bx) = s.pick_recent(rng);
    let (y, by) = s.pick(rng);
    let (ix, iy) = (Session::id(x), Session::id(y));
    match rng.below(34) {
        0 => {
            let a = rand_char(rng);
            let b = rand_char(rng);
            // also the panicking orders (a > b)
            s.call(format!("mgr range {} {}", a, b), 1, |m| m.range(a, b));
        }
        1 => {
            let a = if rng.chance(1, 12) { MAX_CHAR + 1 + rng.below(3) as u32 } else { rand_char(rng) };
            s.call(format!("mgr char {}", a), 1, |m| m.char(a));
        }
        2 => {
            let w = rand_string(rng, 4);
            let w2 = w.clone();
            s.call(format!("mgr str {}", p_nats(&w)), 2, move |m| m.str(&SmtString::from(&w2[..])));
        }
        3 => {
            let a = 97 + rng.below(4) as u32;
            let b = a + rng.below(3) as u32;
            s.call(format!("mgr char_set {}-{}", a, b), 1, |m| m.char_set(CharSet::range(a, b)));
        }
        4 => {
            let s1 = rand_string(rng, 2);
            let s2 = rand_string(rng, 2);
            let (t1, t2) = (s1.clone(), s2.clone());
            s.call(format!("mgr smt_range {} {}", p_nats(&s1), p_nats(&s2)), 1, move |m| {
                m.smt_range(&SmtString::from(&t1[..]), &SmtString::from(&t2[..]))
            });
        }
        5 => {
            let c = *rng.pick(&["empty", "full", "epsilon", "sigma_plus", "all_chars"]);
            s.call(format!("mgr {}", c), 1, |m| match c {
                "empty" => m.empty(),
                "full" => m.full(),
                "epsilon" => m.epsilon(),
                "sigma_plus" => m.sigma_plus(),
                _ => m.all_chars(),
            });
        }
        6..=9 => {
            if bx + by + 2 <= BOUND_CAP {
                s.call(format!("mgr concat {} {}", ix, iy), bx + by + 2, |m| m.concat(x, y));
            }
        }
        10..=12 => {
            s.call(format!("mgr union {} {}", ix, iy), bx.max(by), |m| m.union(x, y));
        }
        13..=15 => {
            s.call(format!("mgr inter {} {}", ix, iy), bx.max(by), |m| m.inter(x, y));
        }
        16 => {
            s.call(format!("mgr diff {} {}", ix, iy), bx.max(by), |m| m.diff(x, y));
        }
        17 | 18 => {
            s.call(format!("mgr comp {}", ix), bx, |m| m.complement(x));
        }
        19 => {
            if 2 * bx + 2 <= BOUND_CAP {
                match rng.below(3) {
                    0 => s.call(format!("mgr star {}", ix), 2 * bx + 2, |m| m.star(x)),
                    1 => s.call(format!("mgr plus {}", ix), 2 * bx + 2, |m| m.plus(x)),
                    _ => s.call(format!("mgr opt {}", ix), 2 * bx + 2, |m| m.opt(x)),
                };
            }
        }
        20 => {
            let k = rng.below(4) as u32;
            if (bx + 1) * (k as u64 + 1) <= BOUND_CAP {
                s.call(format!("mgr exp {} {}", ix, k), (bx + 1) * (k as u64 + 1), |m| m.exp(x, k));
            }
        }
        21 => {
            let i = rng.below(4) as u32;
            let j = rng.below(4) as u32;
            if (bx + 1) * 4 <= BOUND_CAP {
                s.call(format!("mgr smt_loop {} {} {}", ix, i, j), (bx + 1) * 4, |m| m.smt_loop(x, i, j));
            }
        }
        22 => {
            let i = rng.below(3) as u32;
            if (bx + 1) * 5 <= BOUND_CAP {
                if rng.chance(1, 2) {
                    s.call(format!("mgr mk_loop {} {}..inf", ix, i), (bx + 1) * 5, |m| m.mk_loop(x, LoopRange::infinite(i)));
                } else {
                    let j = i + rng.below(3) as u32;
                    s.call(format!("mgr mk_loop {} {}..{}", ix, i, j), (bx + 1) * 5, |m| m.mk_loop(x, LoopRange::finite(i, j)));
                }
            }
        }
        23 | 24 => {
            // list constructors, with duplicates and complements among the operands
            let n = 2 + rng.below(3);
            let mut its: Vec<RegLan> = Vec::new();
            let mut b: u64 = 0;
            let mut sum: u64 = 0;
            for _ in 0..n {
                let (z, bz) = s.pick(rng);
                its.push(z);
                b = b.max(bz);
                sum += bz + 2;
            }
            if rng.chance(1, 3) {
                its.push(x);
                b = b.max(bx);
                sum += bx + 2;
            }
            let ids = p_ids(&its);
            match rng.below(4) {
                0 => {
                    if sum <= BOUND_CAP {
                        s.call(format!("mgr concat_list {}", ids), sum, move |m| m.concat_list(its));
                    }
                }
                1 => {
                    s.call(format!("mgr union_list {}", ids), b, move |m| m.union_list(its));
                }
                2 => {
                    s.call(format!("mgr inter_list {}", ids), b, move |m| m.inter_list(its));
                }
                _ => {
                    s.call(format!("mgr diff_list {} {}", ix, ids), b.max(bx), move |m| m.diff_list(x, its));
                }
            }
        }
        25..=28 => {
            let c = rand_char(rng);
            if 2 * bx + 4 <= BOUND_CAP {
                s.call(format!("mgr char_deriv {} {}", ix, c), 2 * bx + 4, |m| m.char_derivative(x, c));
            }
        }
        29 => {
            let w = rand_string(rng, 3);
            let w2 = w.clone();
            if (2 * bx + 4) * 8 <= BOUND_CAP {
                s.call(format!("mgr str_deriv {} {}", ix, p_nats(&w)), (2 * bx + 4) * 8, move |m| {
                    m.str_derivative(x, &SmtString::from(&w2[..]))
                });
            }
        }
        30 | 31 => {
            // class derivative: every class of x, and one invalid class id
            if 2 * bx + 4 <= BOUND_CAP {
                let mut cids: Vec<ClassId> = x.class_ids().collect();
                cids.push(ClassId::Interval(x.num_deriv_classes() + 1));
                let cid = *rng.pick(&cids);
                let lhs = format!("mgr class_deriv {} {}", ix, p_cid(cid));
                let m = &mut s.m;
                match catch_unwind(AssertUnwindSafe(|| m.class_derivative(x, cid))) {
                    Ok(Ok(re)) => {
                        s.t.op(&lhs, &Session::id(re), true);
                        s.pool.push((re, 2 * bx + 4));
                    }
                    Ok(Err(e)) => s.t.op(&lhs, &format!("Err:{:?}", e), true),
                    Err(_) => s.t.op(&lhs, "PANIC", true),
                }
            }
        }
        32 => {
            let w = rand_string(rng, 4);
            let lhs = format!("mgr str_in_re {} {}", ix, p_nats(&w));
            let m = &mut s.m;
            let r = guarded(|| if m.str_in_re(&SmtString::from(&w[..]), x) { "1".into() } else { "0".into() });
            s.t.op(&lhs, &r, true);
        }
        _ => {
            s.t.op(&format!("mgr nullable {}", ix), if x.nullable { "1" } else { "0" }, false);
        }
    }
}

/// hard-coded sessions: the doc example of `ReManager`, the built-in complement pairs, operand
/// vectors that only differ in id order, complement pairs inside union / intersection
fn corpus(t: &mut Trace) {
    let mut s = Session::new(t);
    // (ac + bc)* and its derivatives w.r.t. a and b are the same term (doc example of ReManager)
    let ac = s.call("mgr str [97,99]".into(), 1, |m| m.str(&"ac".into())).unwrap();
    let bc = s.call("mgr str [98,99]".into(), 1, |m| m.str(&"bc".into())).unwrap();
    let sum = s.call(format!("mgr union {} {}", Session::id(ac), Session::id(bc)), 1, |m| m.union(ac, bc)).unwrap();
    let e = s.call(format!("mgr star {}", Session::id(sum)), 4, |m| m.star(sum)).unwrap();
    let ie = Session::id(e);
    s.call(format!("mgr char_deriv {} 97", ie), 12, |m| m.char_derivative(e, 97));
    s.call(format!("mgr char_deriv {} 98", ie), 12, |m| m.char_derivative(e, 98));
    s.call(format!("mgr char_deriv {} 97", ie), 12, |m| m.char_derivative(e, 97));
    s.dump();
    // operands given in decreasing id order are sorted by id
    s.call(format!("mgr union {} {}", Session::id(bc), Session::id(ac)), 1, |m| m.union(bc, ac));
    s.call(format!("mgr inter {} {}", Session::id(bc), Session::id(ac)), 1, |m| m.inter(bc, ac));
    // x ∪ ¬x, x ∩ ¬x by adjacent ids; the built-in pairs
    let nac = s.call(format!("mgr comp {}", Session::id(ac)), 1, |m| m.complement(ac)).unwrap();
    s.call(format!("mgr union {} {}", Session::id(nac), Session::id(ac)), 1, |m| m.union(nac, ac));
    s.call(format!("mgr inter {} {}", Session::id(ac), Session::id(nac)), 1, |m| m.inter(ac, nac));
    let em = s.call("mgr empty".into(), 1, |m| m.empty()).unwrap();
    let fu = s.call(format!("mgr comp {}", Session::id(em)), 1, |m| m.complement(em)).unwrap();
    s.call(format!("mgr comp {}", Session::id(fu)), 1, |m| m.complement(fu));
    let ep = s.call("mgr epsilon".into(), 1, |m| m.epsilon()).unwrap();
    let sp = s.call(format!("mgr comp {}", Session::id(ep)), 1, |m| m.complement(ep)).unwrap();
    s.call(format!("mgr union {} {}", Session::id(ep), Session::id(sp)), 1, |m| m.union(ep, sp));
    s.call(format!("mgr inter {} {}", Session::id(sp), Session::id(ac)), 1, |m| m.inter(sp, ac));
    // D1 of DESIGN.md §9: ∅* is ε
    s.call(format!("mgr star {}", Session::id(em)), 1, |m| m.star(em));
    s.call(format!("mgr mk_loop {} 0..3", Session::id(em)), 1, |m| m.mk_loop(em, LoopRange::finite(0, 3)));
    // concat re-association and the loop arms
    let a = s.call("mgr char 97".into(), 1, |m| m.char(97)).unwrap();
    let ia = Session::id(a);
    let aa = s.call(format!("mgr concat {} {}", ia, ia), 4, |m| m.concat(a, a)).unwrap();
    let aaa = s.call(format!("mgr concat {} {}", Session::id(aa), ia), 8, |m| m.concat(aa, a)).unwrap();
    s.call(format!("mgr concat {} {}", ia, Session::id(aaa)), 12, |m| m.concat(a, aaa));
    s.call(format!("mgr concat {} {}", Session::id(aa), Session::id(aaa)), 20, |m| m.concat(aa, aaa));
    let abc = s.call("mgr str [97,98,99]".into(), 1, |m| m.str(&"abc".into())).unwrap();
    s.call(format!("mgr concat {} {}", Session::id(abc), Session::id(abc)), 4, |m| m.concat(abc, abc));
    s.call(format!("mgr concat {} {}", Session::id(abc), Session::id(ac)), 4, |m| m.concat(abc, ac));
    s.call("mgr range 98 97".into(), 1, |m| m.range(98, 97));
    s.call(format!("mgr char {}", MAX_CHAR + 1), 1, |m| m.char(MAX_CHAR + 1));
    s.dump();
    corpus_ops(t);
}

/// the searches on a fresh manager: allocation order of `DerivativeIterator::next` (all class
/// derivatives of the popped term before it is yielded), `is_empty_re` stopping at the first
/// nullable term, the D8 witness of `start_char` (Sigma & ab at 'a'), `try_compile` at the bound
fn corpus_ops(t: &mut Trace) {
    let mut s = Session::new(t);
    let ac = s.call("mgr str [97,99]".into(), 1, |m| m.str(&"ac".into())).unwrap();
    let bc = s.call("mgr str [98,99]".into(), 1, |m| m.str(&"bc".into())).unwrap();
    let sum = s.call(format!("mgr union {} {}", Session::id(ac), Session::id(bc)), 1, |m| m.union(ac, bc)).unwrap();
    let e = s.call(format!("mgr plus {}", Session::id(sum)), 4, |m| m.plus(sum)).unwrap();
    let ie = Session::id(e);
    // is_empty_re first: it must allocate only the derivatives of the terms popped before the
    // first nullable one
    let r = guarded(|| p_bool(s.m.is_empty_re(e)));
    s.t.op(&format!("mgr is_empty_re {}", ie), &r, true);
    s.dump();
    let r = guarded(|| match s.m.get_string(e) {
        None => "none".into(),
        Some(w) => format!("some:{}", p_nats(w.as_ref())),
    });
    s.t.op(&format!("mgr get_string {}", ie), &r, true);
    s.dump();
    for n in [0usize, 3, 4] {
        let r = guarded(|| match s.m.try_compile(e, n) {
            None => "none".into(),
            Some(a) => format!("some:{}", crate::fam_aut::aut_str(&a)),
        });
        s.t.op(&format!("mgr try_compile {} {}", ie, n), &r, true);
        s.dump();
    }
    let r = guarded(|| {
        let v: Vec<usize> = s.m.iter_derivatives(e).map(|d| d.verif_id()).collect();
        p_usizes(&v)
    });
    s.t.op(&format!("mgr iter_derivs {}", ie), &r, true);
    let r = guarded(|| crate::fam_aut::aut_str(&s.m.compile(e)));
    s.t.op(&format!("mgr compile {}", ie), &r, true);
    s.dump();
    // D8: Sigma & "ab" at 'a'
    let sg = s.call("mgr all_chars".into(), 1, |m| m.all_chars()).unwrap();
    let ab = s.call("mgr str [97,98]".into(), 1, |m| m.str(&"ab".into())).unwrap();
    let it = s.call(format!("mgr inter {} {}", Session::id(sg), Session::id(ab)), 1, |m| m.inter(sg, ab)).unwrap();
    let r = guarded(|| p_bool(s.m.start_char(it, 97)));
    s.t.op(&format!("mgr start_char {} 97", Session::id(it)), &r, true);
    let nit = s.call(format!("mgr comp {}", Session::id(it)), 1, |m| m.complement(it)).unwrap();
    let r = guarded(|| p_bool(s.m.start_char(nit, 97)));
    s.t.op(&format!("mgr start_char {} 97", Session::id(nit)), &r, true);
    let un = s.call(format!("mgr union {} {}", Session::id(it), Session::id(e)), 4, |m| m.union(it, e)).unwrap();
    for c in [97u32, 98, 99, 100] {
        let r = guarded(|| p_bool(s.m.start_char(un, c)));
        s.t.op(&format!("mgr start_char {} {}", Session::id(un), c), &r, true);
    }
    s.dump();
    // search: stops at the first nullable / syntactically empty derivative
    for (w, k, allow) in [(vec![100u32, 97, 99, 98, 99], 0usize, false), (vec![97u32, 97, 99], 1, true), (vec![99u32, 99], 0, true), (vec![97u32], 2, true)] {
        let r = guarded(|| p_search(aws_smt_strings::verif_hooks::naive_re_search(&mut s.m, e, &w, k, allow)));
        s.t.op(&format!("mgr re_search {} {} {} {}", ie, p_nats(&w), k, p_bool(allow)), &r, true);
    }
    let st = s.call(format!("mgr star {}", Session::id(sum)), 4, |m| m.star(sum)).unwrap();
    let r = guarded(|| p_search(aws_smt_strings::verif_hooks::naive_re_search(&mut s.m, st, &[100, 97], 5, true)));
    s.t.op(&format!("mgr re_search {} [100,97] 5 1", Session::id(st)), &r, true);
    // set derivatives: inside a class, straddling (D2), complementary class
    for (a, b) in [(97u32, 97u32), (97, 98), (100, 200), (0, 96), (96, 97)] {
        let lhs = format!("mgr set_deriv {} {}-{}", ie, a, b);
        let set = CharSet::range(a, b);
        let r = guarded(|| match s.m.set_derivative(e, &set) {
            Ok(d) => Session::id(d),
            Err(x) => format!("Err:{:?}", x),
        });
        s.t.op(&lhs, &r, true);
        s.call(format!("mgr set_deriv_unchecked {} {}-{}", ie, a, b), 8, |m| m.set_derivative_unchecked(e, &set));
    }
    s.call(format!("mgr class_deriv_unchecked {} I7", ie), 8, |m| m.class_derivative_unchecked(e, ClassId::Interval(7)));
    s.call(format!("mgr class_deriv_unchecked {} C", ie), 8, |m| m.class_derivative_unchecked(e, ClassId::Complement));
    let r = guarded(|| match s.m.start_class(e, ClassId::Interval(0)) {
        Ok(b) => p_bool(b),
        Err(x) => format!("Err:{:?}", x),
    });
    s.t.op(&format!("mgr start_class {} I0", ie), &r, true);
    let r = guarded(|| match s.m.start_class(e, ClassId::Interval(9)) {
        Ok(b) => p_bool(b),
        Err(x) => format!("Err:{:?}", x),
    });
    s.t.op(&format!("mgr start_class {} I9", ie), &r, true);
    s.dump();
}

pub fn run(t: &mut Trace, rng: &mut Rng, thorough: bool) {
    t.rule = "every call that returns a term, a Boolean, a search result, an automaton or the table (size) of a session replayed from a fresh model state (all but the nullable reads)".into();
    corpus(t);
    let sessions = if thorough { 900 } else { 90 };
    for k in 0..sessions {
        let mut s = Session::new(t);
        // seed the pool
        for c in ["empty", "full", "epsilon", "sigma_plus", "all_chars"] {
            s.call(format!("mgr {}", c), 1, |m| match c {
                "empty" => m.empty(),
                "full" => m.full(),
                "epsilon" => m.epsilon(),
                "sigma_plus" => m.sigma_plus(),
                _ => m.all_chars(),
            });
        }
        for c in 97..100u32 {
            s.call(format!("mgr char {}", c), 1, |m| m.char(c));
        }
        let steps = if k % 10 == 0 { 500 } else { 60 + rng.below(120) };
        for i in 0..steps {
            step(&mut s, rng);
            // every operation of the manager: interleave the searches / compilation / regex search
            if i % 6 == 5 {
                heavy_step(&mut s, rng);
            }
            if i % 30 == 29 {
                s.dump();
            }
        }
        s.dump();
        if k % 3 == 0 {
            replace_session(t, rng);
        }
    }
}
