//! Family `str`: the SMT-LIB string functions of src/smt_strings.rs and `matcher::naive_search`
//! (C06, C09).  Run in BOTH profiles (dev: overflow checks on; release: wrapping arithmetic);
//! a panic of the crate is caught per operation and printed as `PANIC` in either profile.
//!
//! Line protocol (strings are lists of code points, i32 arguments decimal):
//!   str search <pattern> <string> <k>   => none | found:<i>:<j>      (naive_search)
//!   str concat <s1> <s2>                => <string>
//!   str len <s>                         => <int>
//!   str at <s> <i>                      => <string>
//!   str substr <s> <i> <n>              => <string>
//!   str lt|le|prefixof|suffixof|contains <s1> <s2>  => 0|1
//!   str indexof <s1> <s2> <i>           => <int>
//!   str replace|replace_all <s> <p> <r> => <string>
//!   str is_digit <s>  => 0|1      str to_code <s> => <int>      str from_code <x> => <string>
//!   str to_int <s>    => <int>    str from_int <x> => <string>
//!
//! Generators: (1) regression corpus (defect witnesses D3, D5 of DESIGN.md §9);
//! (2) exhaustive: all strings over {a,b} up to length 3 (thorough: 4) plus strings with the code
//! points 0 and 0x2FFFF — every unary op, every binary op on every ordered pair, replace /
//! replace_all on every triple, every i32 argument in [-2, len+2] ∪ {i32::MIN, i32::MAX};
//! (3) digit strings around 2^31, leading zeros, a non-digit at every position; code points around
//! 0 and MAX_CHAR; (4) random longer strings with planted, repeated and overlapping occurrences.

use crate::rng::Rng;
use crate::trace::*;
use aws_smt_strings::smt_strings::*;
use aws_smt_strings::verif_hooks::{naive_search, SearchResult};

const A: u32 = 97;
const B: u32 = 98;

fn mk(v: &[u32]) -> SmtString {
    SmtString::from(v)
}

fn ps(s: &SmtString) -> String {
    p_nats(s.as_ref())
}

fn digits(s: &str) -> Vec<u32> {
    s.chars().map(|c| c as u32).collect()
}

/// i32 arguments for a string of length `len`: [-2, len+2] ∪ {MIN, MAX}
fn int_args(len: usize) -> Vec<i32> {
    let mut v: Vec<i32> = (-2..=(len as i32 + 2)).collect();
    v.push(i32::MIN);
    v.push(i32::MAX);
    v
}

fn cls_int(r: &str) -> &'static str {
    match r {
        "PANIC" => "PANIC",
        "-1" => "-1",
        _ => "value",
    }
}

// ---- one operation each ----

fn op_search(t: &mut Trace, p: &[u32], s: &[u32], k: usize) {
    let r = guarded(|| match naive_search(p, s, k) {
        SearchResult::NotFound => "none".to_string(),
        SearchResult::Found(i, j) => format!("found:{}:{}", i, j),
    });
    t.count(if r == "none" { "search=none" } else if r == "PANIC" { "search=PANIC" } else { "search=found" });
    t.op(&format!("str search {} {} {}", p_nats(p), p_nats(s), k), &r, true);
}

fn op_len(t: &mut Trace, s: &SmtString) {
    t.op(&format!("str len {}", ps(s)), &guarded(|| str_len(s).to_string()), true);
}

fn op_at(t: &mut Trace, s: &SmtString, i: i32) {
    let r = guarded(|| ps(&str_at(s, i)));
    t.count(if r == "[]" { "at=empty" } else { "at=char" });
    t.op(&format!("str at {} {}", ps(s), i), &r, true);
}

fn op_substr(t: &mut Trace, s: &SmtString, i: i32, n: i32) {
    let r = guarded(|| ps(&str_substr(s, i, n)));
    t.count(if r == "[]" { "substr=empty" } else if r == "PANIC" { "substr=PANIC" } else { "substr=nonempty" });
    t.op(&format!("str substr {} {} {}", ps(s), i, n), &r, true);
}

fn op_bool2(t: &mut Trace, name: &str, f: fn(&SmtString, &SmtString) -> bool, a: &SmtString, b: &SmtString) {
    let r = guarded(|| p_bool(f(a, b)));
    t.count(&format!("{}={}", name, r));
    t.op(&format!("str {} {} {}", name, ps(a), ps(b)), &r, true);
}

fn op_concat(t: &mut Trace, a: &SmtString, b: &SmtString) {
    t.op(&format!("str concat {} {}", ps(a), ps(b)), &guarded(|| ps(&str_concat(a, b))), true);
}

fn op_indexof(t: &mut Trace, a: &SmtString, b: &SmtString, i: i32) {
    let r = guarded(|| str_indexof(a, b, i).to_string());
    t.count(&format!("indexof={}", cls_int(&r)));
    if b.is_empty() && i >= 0 && i as usize == a.len() {
        t.count("indexof:empty-pattern-at-len");
    }
    t.op(&format!("str indexof {} {} {}", ps(a), ps(b), i), &r, true);
}

fn op_replace(t: &mut Trace, s: &SmtString, p: &SmtString, r: &SmtString) {
    let sstr = ps(s);
    let res = guarded(|| ps(&str_replace(s, p, r)));
    t.count(if res == sstr { "replace=unchanged" } else { "replace=changed" });
    t.op(&format!("str replace {} {} {}", sstr, ps(p), ps(r)), &res, true);
    let res = guarded(|| ps(&str_replace_all(s, p, r)));
    t.count(if res == sstr { "replace_all=unchanged" } else { "replace_all=changed" });
    t.op(&format!("str replace_all {} {} {}", sstr, ps(p), ps(r)), &res, true);
}

fn op_is_digit(t: &mut Trace, s: &SmtString) {
    let r = guarded(|| p_bool(str_is_digit(s)));
    t.count(&format!("is_digit={}", r));
    t.op(&format!("str is_digit {}", ps(s)), &r, true);
}

fn op_to_code(t: &mut Trace, s: &SmtString) {
    let r = guarded(|| str_to_code(s).to_string());
    t.count(&format!("to_code={}", cls_int(&r)));
    t.op(&format!("str to_code {}", ps(s)), &r, true);
}

fn op_from_code(t: &mut Trace, x: i32) {
    let mut out: Option<SmtString> = None;
    let r = guarded(|| {
        let s = str_from_code(x);
        let p = ps(&s);
        out = Some(s);
        p
    });
    t.count(if r == "[]" { "from_code=empty" } else { "from_code=char" });
    t.op(&format!("str from_code {}", x), &r, true);
    // round trip: to_code(from_code(x))
    if let Some(s) = out {
        op_to_code(t, &s);
    }
}

fn op_to_int(t: &mut Trace, s: &SmtString) {
    let r = guarded(|| str_to_int(s).to_string());
    t.count(&format!("to_int={}", cls_int(&r)));
    t.op(&format!("str to_int {}", ps(s)), &r, true);
}

fn op_from_int(t: &mut Trace, x: i32) {
    let mut out: Option<SmtString> = None;
    let r = guarded(|| {
        let s = str_from_int(x);
        let p = ps(&s);
        out = Some(s);
        p
    });
    t.count(if r == "[]" { "from_int=empty" } else { "from_int=digits" });
    t.op(&format!("str from_int {}", x), &r, true);
    // round trip: to_int(from_int(x))
    if let Some(s) = out {
        op_to_int(t, &s);
    }
}

// ---- groups ----

fn unary(t: &mut Trace, s: &SmtString) {
    op_len(t, s);
    op_is_digit(t, s);
    op_to_code(t, s);
    op_to_int(t, s);
    let args = int_args(s.len());
    for &i in &args {
        op_at(t, s, i);
    }
    for &i in &args {
        for &n in &args {
            op_substr(t, s, i, n);
        }
    }
}

fn binary(t: &mut Trace, a: &SmtString, b: &SmtString) {
    op_concat(t, a, b);
    op_bool2(t, "lt", str_lt, a, b);
    op_bool2(t, "le", str_le, a, b);
    op_bool2(t, "prefixof", str_prefixof, a, b);
    op_bool2(t, "suffixof", str_suffixof, a, b);
    op_bool2(t, "contains", str_contains, a, b);
    for i in int_args(a.len()) {
        op_indexof(t, a, b, i);
    }
    // naive_search(pattern = b, string = a, k)
    for k in 0..=(a.len() + 2) {
        op_search(t, b.as_ref(), a.as_ref(), k);
    }
}

fn all_ab(max_len: usize) -> Vec<Vec<u32>> {
    let mut out: Vec<Vec<u32>> = vec![vec![]];
    let mut layer: Vec<Vec<u32>> = vec![vec![]];
    for _ in 0..max_len {
        let mut next = Vec::new();
        for s in &layer {
            for &c in &[A, B] {
                let mut x = s.clone();
                x.push(c);
                next.push(x);
            }
        }
        out.extend(next.iter().cloned());
        layer = next;
    }
    out
}

fn rand_ab(rng: &mut Rng, len: usize, alphabet: &[u32]) -> Vec<u32> {
    (0..len).map(|_| *rng.pick(alphabet)).collect()
}

fn corpus(t: &mut Trace) {
    // D3: str_indexof("abc","",3) and str_indexof("","",0) returned -1
    op_indexof(t, &mk(&[97, 98, 99]), &mk(&[]), 3);
    op_indexof(t, &mk(&[]), &mk(&[]), 0);
    // D5: str_to_int("5000000000") returned 705032704 in a build without overflow checks;
    // "99999999999a" contains a non-digit (SMT-LIB: -1) but the digit prefix overflowed first
    op_to_int(t, &mk(&digits("5000000000")));
    op_to_int(t, &mk(&digits("99999999999a")));
}

fn digit_cases(t: &mut Trace, rng: &mut Rng, thorough: bool) {
    let fixed = [
        "", "0", "9", "00", "000", "00982", "10", "99", "100", "2147483646", "2147483647", "2147483648",
        "2147483649", "2147483650", "2147483657", "21474836470", "214748364", "4294967295", "4294967296",
        "4294967297", "5000000000", "6442450943", "6442450944", "8589934591", "8589934592", "9999999999",
        "10000000000", "99999999999", "18446744073709551616", "00000000002147483647",
        "00000000002147483648", "0000000000000000000000000", "99999999999a", "a", "12a", "a12", "1a2",
        "-1", "+1", " 1", "1 ", "1.0", "/", ":", "0/", "0:",
    ];
    for s in fixed.iter() {
        op_to_int(t, &mk(&digits(s)));
    }
    // every value around 2^31 and 2^32, with 0..3 leading zeros
    for base in [2147483647u64, 4294967296u64, 10000000000u64, 1000000000u64] {
        for d in -4i64..=4 {
            let v = (base as i64 + d) as u64;
            for z in 0..4 {
                let s = format!("{}{}", "0".repeat(z), v);
                op_to_int(t, &mk(&digits(&s)));
            }
        }
    }
    // a non-digit at every position of digit strings of several lengths
    let others: [u32; 6] = [47, 58, 97, 0, MAX_CHAR, 0x660];
    for host in ["7", "42", "2147483647", "2147483648", "99999999999", "000123"] {
        let h = digits(host);
        for pos in 0..h.len() {
            for &o in &others {
                let mut x = h.clone();
                x[pos] = o;
                op_to_int(t, &mk(&x));
                let mut y = h.clone();
                y.insert(pos, o);
                op_to_int(t, &mk(&y));
            }
        }
        for &o in &others {
            let mut y = h.clone();
            y.push(o);
            op_to_int(t, &mk(&y));
        }
    }
    // random digit strings, lengths 1..12, biased to leading zeros and to 10 digits
    let n = if thorough { 40000 } else { 3000 };
    for _ in 0..n {
        let len = if rng.chance(1, 3) { 10 } else { rng.range(1, 12) as usize };
        let mut x: Vec<u32> = (0..len).map(|_| 48 + rng.below(10) as u32).collect();
        if rng.chance(1, 4) {
            let z = rng.range(1, 3) as usize;
            for c in x.iter_mut().take(z) {
                *c = 48;
            }
        }
        if len == 10 && rng.chance(1, 2) {
            // near the boundary: 21474836dd
            let pre = digits("21474836");
            x[..8].copy_from_slice(&pre);
        }
        if rng.chance(1, 10) {
            let pos = rng.below(len as u64) as usize;
            x[pos] = *rng.pick(&others);
        }
        op_to_int(t, &mk(&x));
    }
    // from_int and the round trip
    let mut xs: Vec<i32> = vec![
        i32::MIN, i32::MIN + 1, -1000, -10, -2, -1, 0, 1, 2, 9, 10, 11, 99, 100, 101, 999, 1000, 1001,
        999999999, 1000000000, 1000000001, 2147483639, 2147483640, i32::MAX - 1, i32::MAX,
    ];
    for _ in 0..(if thorough { 20000 } else { 1500 }) {
        let bits = rng.range(1, 31);
        let v = (rng.next() & ((1u64 << bits) - 1)) as i64;
        xs.push(if rng.chance(1, 8) { (-v) as i32 } else { v as i32 });
    }
    for x in xs {
        op_from_int(t, x);
    }
    // from_code / to_code
    let mc = MAX_CHAR as i32;
    let mut cs: Vec<i32> = vec![
        i32::MIN, -1000, -2, -1, 0, 1, 2, 47, 48, 49, 56, 57, 58, 97, 127, 128, 255, 256, 0xD7FF, 0xD800,
        0xDFFF, 0xE000, 0xFFFD, 0xFFFF, 0x10000, 0x10FFFF, 0x110000, mc - 1, mc, mc + 1, mc + 2, 0x30000,
        0x3FFFF, i32::MAX - 1, i32::MAX,
    ];
    for _ in 0..(if thorough { 5000 } else { 500 }) {
        cs.push(rng.range(0, (MAX_CHAR + 16) as u64) as i32);
    }
    for x in cs {
        op_from_code(t, x);
    }
    // is_digit / to_code on all one- and some two-character strings around the digit range
    for c in [0u32, 1, 46, 47, 48, 49, 50, 51, 52, 53, 54, 55, 56, 57, 58, 59, 0x660, 0xFF10, MAX_CHAR] {
        let s = mk(&[c]);
        op_is_digit(t, &s);
        op_to_code(t, &s);
        let s2 = mk(&[c, 48]);
        op_is_digit(t, &s2);
        op_to_code(t, &s2);
    }
}

fn random_long(t: &mut Trace, rng: &mut Rng, thorough: bool) {
    let n = if thorough { 12000 } else { 1200 };
    for case in 0..n {
        let alphabet: &[u32] = match case % 4 {
            0 => &[A],
            1 => &[A, B],
            2 => &[A, B, 99],
            _ => &[0, A, MAX_CHAR],
        };
        let plen = rng.range(1, 4) as usize;
        let p = rand_ab(rng, plen, alphabet);
        // string: random pieces interleaved with copies (sometimes overlapping) of the pattern
        let mut s: Vec<u32> = Vec::new();
        let pieces = rng.range(0, 5);
        for _ in 0..pieces {
            let l = rng.range(0, 4) as usize;
            s.extend(rand_ab(rng, l, alphabet));
            if rng.chance(2, 3) {
                s.extend_from_slice(&p);
                if rng.chance(1, 3) && plen > 1 {
                    // overlap: append the pattern minus its first character
                    s.extend_from_slice(&p[1..]);
                }
            }
        }
        let l = rng.range(0, 4) as usize;
        s.extend(rand_ab(rng, l, alphabet));
        let rl = rng.range(0, 3) as usize;
        let r = if rng.chance(1, 4) { p.clone() } else { rand_ab(rng, rl, alphabet) };
        let (ss, pp, rr) = (mk(&s), mk(&p), mk(&r));
        op_replace(t, &ss, &pp, &rr);
        op_bool2(t, "contains", str_contains, &ss, &pp);
        for i in [-1i32, 0, 1, (s.len() / 2) as i32, s.len() as i32 - plen as i32, s.len() as i32 - 1, s.len() as i32, s.len() as i32 + 1, i32::MAX] {
            op_indexof(t, &ss, &pp, i);
        }
        let k = rng.range(0, s.len() as u64 + 1) as usize;
        op_search(t, &p, &s, k);
        op_search(t, &p, &s, 0);
        // true and near-miss prefixes / suffixes, order against a neighbour
        let cut = rng.range(0, s.len() as u64) as usize;
        let pre = mk(&s[..cut]);
        let suf = mk(&s[cut..]);
        op_bool2(t, "prefixof", str_prefixof, &pre, &ss);
        op_bool2(t, "suffixof", str_suffixof, &suf, &ss);
        op_bool2(t, "prefixof", str_prefixof, &suf, &ss);
        op_bool2(t, "suffixof", str_suffixof, &pre, &ss);
        let mut nb = s.clone();
        if !nb.is_empty() && rng.chance(2, 3) {
            let pos = rng.below(nb.len() as u64) as usize;
            nb[pos] = *rng.pick(alphabet);
        } else {
            nb.push(*rng.pick(alphabet));
        }
        let nbs = mk(&nb);
        op_bool2(t, "lt", str_lt, &ss, &nbs);
        op_bool2(t, "lt", str_lt, &nbs, &ss);
        op_bool2(t, "le", str_le, &ss, &nbs);
        op_bool2(t, "le", str_le, &nbs, &ss);
        op_bool2(t, "lt", str_lt, &pre, &ss);
        op_bool2(t, "le", str_le, &ss, &pre);
        let i = rng.range(0, s.len() as u64 + 1) as i32 - 1;
        let nn = rng.range(0, s.len() as u64 + 2) as i32 - 1;
        op_substr(t, &ss, i, nn);
        op_substr(t, &ss, i, i32::MAX);
        op_at(t, &ss, i);
        op_concat(t, &pre, &suf);
    }
    // "aa" in "aaaa…": overlapping occurrences, every length
    for n in 0..(if thorough { 14 } else { 9 }) {
        let s = mk(&vec![A; n]);
        for m in 0..=4usize {
            let p = mk(&vec![A; m]);
            for r in [vec![], vec![B], vec![A], vec![A, A, A]] {
                op_replace(t, &s, &p, &mk(&r));
            }
            for i in int_args(n) {
                op_indexof(t, &s, &p, i);
            }
        }
    }
}

pub fn run(t: &mut Trace, rng: &mut Rng, thorough: bool) {
    t.rule = "regression corpus (D3, D5); all strings over {a,b} up to length 3 (thorough 4) plus 6 strings with code points 0 and 0x2FFFF: every unary op (at/substr with every i,n in [-2,len+2] ∪ {i32::MIN,i32::MAX}), every binary op on every ordered pair (indexof with every such i, naive_search at every k in [0,len+2]), replace/replace_all on every triple of {a,b}-strings; digit strings around 2^31 and 2^32 with leading zeros and a non-digit at every position, from_int/from_code at the range ends with their round trips; seeded random longer strings with planted, repeated and overlapping occurrences; a string of 21846 (thorough: also 32768 and 33001) high code points (sum of the codes >= 2^32) with a short tail, searched and replaced. Every line is keyed by its operation text (distinct by construction) and counted non-trivial".into();
    corpus(t);
    let max_len = if thorough { 4 } else { 3 };
    let ab = all_ab(max_len);
    let mut pool: Vec<SmtString> = ab.iter().map(|v| mk(v)).collect();
    let n_ab = pool.len();
    for v in [
        vec![0u32],
        vec![MAX_CHAR],
        vec![0, MAX_CHAR],
        vec![MAX_CHAR, A],
        vec![A, 0, A],
        vec![MAX_CHAR, MAX_CHAR],
    ] {
        pool.push(mk(&v));
    }
    for s in &pool {
        unary(t, s);
    }
    for a in &pool {
        for b in &pool {
            binary(t, a, b);
        }
    }
    for s in &pool[..n_ab] {
        for p in &pool[..n_ab] {
            for r in &pool[..n_ab] {
                op_replace(t, s, p, r);
            }
        }
    }
    // replace with the special code points
    for s in &pool[n_ab..] {
        for p in &pool[n_ab..] {
            for r in [&pool[0], &pool[1], &pool[n_ab + 1]] {
                op_replace(t, s, p, r);
            }
        }
    }
    digit_cases(t, rng, thorough);
    random_long(t, rng, thorough);
    overlap_stress(t, rng, thorough);
    alias_alphabet(t, thorough);
    heavy(t, thorough);
}

/// Tens of thousands of high code points followed by a short tail: any accumulator over the
/// characters of a string (sums, hashes, counters kept in 16 or 32 bits) overflows only here.
fn heavy(t: &mut Trace, thorough: bool) {
    // the model's search is quadratic on such strings: one case in the quick tier
    let cases: &[(usize, u32)] = if thorough { &[(21846, MAX_CHAR), (32768, 0x20000), (33001, 0x2FF00)] } else { &[(21846, MAX_CHAR)] };
    for &(n, c) in cases {
        let mut v: Vec<u32> = vec![c; n];
        v.extend_from_slice(&[120, 121, 122]);
        let s = mk(&v);
        let pat = mk(&[120, 121, 122]);
        let pat2 = mk(&[c, 120]);
        let absent = mk(&[121, 120]);
        t.count("heavy");
        for p in [&pat, &pat2, &absent] {
            op_bool2(t, "contains", str_contains, &s, p);
            op_indexof(t, &s, p, 0);
            op_indexof(t, &s, p, 5);
            op_bool2(t, "suffixof", str_suffixof, p, &s);
        }
        op_replace(t, &s, &pat, &mk(&[65]));
        op_replace(t, &s, &absent, &mk(&[65]));
    }
}

/// Code points that alias modulo 2^8 / 2^16 (97, 97+256, 97+512, 97+65536) together with an
/// unrelated letter: skip tables or hashes keyed by a truncated character confuse them.
/// Exhaustive: all patterns up to length 2 (thorough 3) in all texts up to length 4 (thorough 5).
fn alias_alphabet(t: &mut Trace, thorough: bool) {
    let alpha: [u32; 4] = [120, 97, 97 + 256, 97 + 65536];
    let gen = |maxlen: usize| -> Vec<Vec<u32>> {
        let mut out: Vec<Vec<u32>> = vec![vec![]];
        let mut frontier: Vec<Vec<u32>> = vec![vec![]];
        for _ in 0..maxlen {
            let mut next = Vec::new();
            for w in &frontier {
                for &c in &alpha {
                    let mut x = w.clone();
                    x.push(c);
                    next.push(x);
                }
            }
            out.extend(next.iter().cloned());
            frontier = next;
        }
        out
    };
    let pats = gen(if thorough { 3 } else { 2 });
    let texts = gen(if thorough { 5 } else { 4 });
    let z = mk(&[90]);
    for p in pats.iter().filter(|p| !p.is_empty()) {
        let ps_ = mk(p);
        for tx in &texts {
            if tx.len() < p.len() {
                continue;
            }
            let ts = mk(tx);
            t.count("alias_alphabet");
            op_indexof(t, &ts, &ps_, 0);
            op_bool2(t, "contains", str_contains, &ts, &ps_);
            if tx.len() >= 3 {
                op_replace(t, &ts, &ps_, &z);
            }
        }
    }
    // lexicographic order and surrogates / aliasing characters at single positions
    let specials: [u32; 8] = [0xD7FF, 0xD800, 0xDFFF, 0xE000, 0xFFFD, 0xFFFF, 0x10000, 97 + 256];
    for &c in &specials {
        let s1 = mk(&[97, c, 98]);
        for i in -1..4 {
            op_at(t, &s1, i);
            op_substr(t, &s1, i, 1);
        }
        for &d in &specials {
            let s2 = mk(&[97, d, 98]);
            op_bool2(t, "lt", str_lt, &s1, &s2);
            op_bool2(t, "le", str_le, &s1, &s2);
        }
    }
    // long common prefixes: the first difference at every index up to 70 (block-wise comparisons)
    for n in 0..70usize {
        let mut v = vec![97u32; n];
        let mut w = v.clone();
        v.push(98);
        w.push(99);
        v.extend_from_slice(&[100; 3]);
        w.extend_from_slice(&[97; 5]);
        let (sv, sw) = (mk(&v), mk(&w));
        op_bool2(t, "lt", str_lt, &sv, &sw);
        op_bool2(t, "le", str_le, &sw, &sv);
        let pre = mk(&v[..n]);
        op_bool2(t, "lt", str_lt, &pre, &sv);
        op_bool2(t, "le", str_le, &sv, &pre);
        op_bool2(t, "prefixof", str_prefixof, &pre, &sv);
        op_bool2(t, "suffixof", str_suffixof, &pre, &sv);
    }
}

/// Adversarial inputs for any search that skips ahead after a partial match (KMP-, two-way-,
/// hash-style rewrites of the naive loop): every pattern p over {a,b} with 2 <= |p| <= 7
/// (thorough 10), searched in texts of the form  p[..m] ++ p ++ tail  for every proper prefix
/// length m — a long partial match immediately followed by an overlapping real occurrence — and in
/// p ++ p[..m] ++ p (two occurrences separated by a border).
fn overlap_stress(t: &mut Trace, rng: &mut Rng, thorough: bool) {
    let max_p = if thorough { 10 } else { 7 };
    let z = mk(&[90]);
    for plen in 2..=max_p {
        let count = 1u32 << plen;
        // all patterns up to length 7; beyond that a seeded sample of 300 per length
        let picks: Vec<u32> = if plen <= 7 {
            (0..count).collect()
        } else {
            (0..300).map(|_| rng.below(count as u64) as u32).collect()
        };
        for bits in picks {
            let p: Vec<u32> = (0..plen).map(|i| if (bits >> i) & 1 == 0 { A } else { B }).collect();
            // only patterns with a non-trivial border can fool a skip table; keep all short ones
            let has_border = (1..plen).any(|k| p[..k] == p[plen - k..]);
            if plen > 5 && !has_border {
                continue;
            }
            let ps_ = mk(&p);
            for m in 1..plen {
                let mut text: Vec<u32> = p[..m].to_vec();
                text.extend_from_slice(&p);
                if rng.chance(1, 2) {
                    text.push(if rng.chance(1, 2) { A } else { B });
                }
                let ts = mk(&text);
                t.count("overlap_stress");
                op_bool2(t, "contains", str_contains, &ts, &ps_);
                op_indexof(t, &ts, &ps_, 0);
                op_indexof(t, &ts, &ps_, 1);
                op_replace(t, &ts, &ps_, &z);
                op_search(t, &p, &text, 0);
                if m >= 2 && plen >= 4 {
                    let mut text2: Vec<u32> = p.clone();
                    text2.extend_from_slice(&p[..m]);
                    text2.extend_from_slice(&p);
                    let ts2 = mk(&text2);
                    op_replace(t, &ts2, &ps_, &z);
                    op_indexof(t, &ts2, &ps_, (plen - 1) as i32);
                }
            }
        }
    }
}
