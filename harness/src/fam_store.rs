//! Family `store`: the hash-consing discipline of `ReManager` (C07, store level).
//! See lean/Driver/FamStore.lean for the line format.
//!
//! Table encoding (ONE token): the nodes of ids 0,1,2,… separated by `;`, each node
//!   `E` | `e` | `R:<a>:<b>` | `C:<l>:<r>` | `L:<e>:<lo>:<hi|inf>` | `N:<e>` | `U:<i>,<j>,…` | `I:<i>,<j>,…`
//! (children by id, numbers decimal).
//!
//! A session = one fresh `ReManager`.  Random constructions through the public API are recorded
//! (constructor + argument terms + first result); in between, unrelated history is created
//! (other constructions, derivatives, `try_compile`, `is_empty_re`, `get_string`, `str_in_re`).
//! At random times and at the end every recorded construction is re-issued and compared with its
//! first result (`std::ptr::eq`, `==`, id, and no new term allocated).  The complete term table is dumped in the middle and
//! at the end of the session and checked by the Lean `checkTable`.

use crate::rng::Rng;
use crate::trace::*;
use aws_smt_strings::loop_ranges::LoopRange;
use aws_smt_strings::regular_expressions::*;
use aws_smt_strings::smt_strings::{SmtString, MAX_CHAR};
use std::panic::{catch_unwind, AssertUnwindSafe};

/// (lo, hi) of a LoopRange via its Debug form `LoopRange(i, Some(j))` / `LoopRange(i, None)`
fn range_parts(r: &LoopRange) -> (u32, Option<u32>) {
    let d = format!("{:?}", r);
    let inner = d.trim_start_matches("LoopRange(").trim_end_matches(')');
    let mut it = inner.splitn(2, ", ");
    let lo: u32 = it.next().unwrap().parse().unwrap();
    let rest = it.next().unwrap();
    if rest == "None" {
        (lo, None)
    } else {
        let j = rest.trim_start_matches("Some(").trim_end_matches(')');
        (lo, Some(j.parse().unwrap()))
    }
}

fn enc_node(re: RegLan) -> String {
    let ids = |l: &[RegLan]| l.iter().map(|x| x.verif_id().to_string()).collect::<Vec<_>>().join(",");
    match re.verif_expr() {
        BaseRegLan::Empty => "E".into(),
        BaseRegLan::Epsilon => "e".into(),
        BaseRegLan::Range(c) => {
            let a = c.pick();
            format!("R:{}:{}", a, a + c.size() - 1)
        }
        BaseRegLan::Concat(l, r) => format!("C:{}:{}", l.verif_id(), r.verif_id()),
        BaseRegLan::Loop(e, r) => {
            let (lo, hi) = range_parts(r);
            match hi {
                None => format!("L:{}:{}:inf", e.verif_id(), lo),
                Some(h) => format!("L:{}:{}:{}", e.verif_id(), lo, h),
            }
        }
        BaseRegLan::Complement(e) => format!("N:{}", e.verif_id()),
        BaseRegLan::Union(l) => format!("U:{}", ids(l)),
        BaseRegLan::Inter(l) => format!("I:{}", ids(l)),
    }
}

/// the manager's complete table, in id order
fn enc_table(re: &ReManager) -> String {
    let n = re.verif_num_terms();
    let mut s = String::with_capacity(n * 10);
    for i in 0..n {
        if i > 0 {
            s.push(';');
        }
        s.push_str(&enc_node(re.verif_term(i)));
    }
    s
}

/// a recorded construction: public constructor + arguments (terms by pool index)
#[derive(Clone, Debug)]
enum Cons {
    Empty,
    Full,
    Epsilon,
    SigmaPlus,
    AllChars,
    Range(u32, u32),
    Char(u32),
    Str(Vec<u32>),
    Concat(usize, usize),
    Union(usize, usize),
    Inter(usize, usize),
    Diff(usize, usize),
    Complement(usize),
    Star(usize),
    Plus(usize),
    Opt(usize),
    Exp(usize, u32),
    MkLoop(usize, u32, Option<u32>),
    SmtLoop(usize, u32, u32),
    UnionList(Vec<usize>),
    InterList(Vec<usize>),
    ConcatList(Vec<usize>),
    Deriv(usize, u32),
    StrDeriv(usize, Vec<u32>),
}

impl Cons {
    fn name(&self) -> &'static str {
        match self {
            Cons::Empty => "empty",
            Cons::Full => "full",
            Cons::Epsilon => "epsilon",
            Cons::SigmaPlus => "sigma_plus",
            Cons::AllChars => "all_chars",
            Cons::Range(..) => "range",
            Cons::Char(..) => "char",
            Cons::Str(..) => "str",
            Cons::Concat(..) => "concat",
            Cons::Union(..) => "union",
            Cons::Inter(..) => "inter",
            Cons::Diff(..) => "diff",
            Cons::Complement(..) => "complement",
            Cons::Star(..) => "star",
            Cons::Plus(..) => "plus",
            Cons::Opt(..) => "opt",
            Cons::Exp(..) => "exp",
            Cons::MkLoop(..) => "mk_loop",
            Cons::SmtLoop(..) => "smt_loop",
            Cons::UnionList(..) => "union_list",
            Cons::InterList(..) => "inter_list",
            Cons::ConcatList(..) => "concat_list",
            Cons::Deriv(..) => "char_derivative",
            Cons::StrDeriv(..) => "str_derivative",
        }
    }
}

fn apply(re: &mut ReManager, pool: &[RegLan], c: &Cons) -> RegLan {
    match c {
        Cons::Empty => re.empty(),
        Cons::Full => re.full(),
        Cons::Epsilon => re.epsilon(),
        Cons::SigmaPlus => re.sigma_plus(),
        Cons::AllChars => re.all_chars(),
        Cons::Range(a, b) => re.range(*a, *b),
        Cons::Char(a) => re.char(*a),
        Cons::Str(s) => re.str(&SmtString::from(s.as_slice())),
        Cons::Concat(a, b) => re.concat(pool[*a], pool[*b]),
        Cons::Union(a, b) => re.union(pool[*a], pool[*b]),
        Cons::Inter(a, b) => re.inter(pool[*a], pool[*b]),
        Cons::Diff(a, b) => re.diff(pool[*a], pool[*b]),
        Cons::Complement(a) => re.complement(pool[*a]),
        Cons::Star(a) => re.star(pool[*a]),
        Cons::Plus(a) => re.plus(pool[*a]),
        Cons::Opt(a) => re.opt(pool[*a]),
        Cons::Exp(a, k) => re.exp(pool[*a], *k),
        Cons::MkLoop(a, i, None) => re.mk_loop(pool[*a], LoopRange::infinite(*i)),
        Cons::MkLoop(a, i, Some(j)) => re.mk_loop(pool[*a], LoopRange::finite(*i, *j)),
        Cons::SmtLoop(a, i, j) => re.smt_loop(pool[*a], *i, *j),
        Cons::UnionList(l) => re.union_list(l.iter().map(|&i| pool[i])),
        Cons::InterList(l) => re.inter_list(l.iter().map(|&i| pool[i])),
        Cons::ConcatList(l) => re.concat_list(l.iter().map(|&i| pool[i])),
        Cons::Deriv(a, c) => re.char_derivative(pool[*a], *c),
        Cons::StrDeriv(a, s) => re.str_derivative(pool[*a], &SmtString::from(s.as_slice())),
    }
}

const ALPHA: [u32; 6] = [97, 98, 99, 100, 48, 0x1F600];

fn rnd_char(rng: &mut Rng) -> u32 {
    if rng.chance(1, 12) {
        *rng.pick(&[0u32, 1, MAX_CHAR - 1, MAX_CHAR])
    } else {
        *rng.pick(&ALPHA)
    }
}

fn rnd_str(rng: &mut Rng) -> Vec<u32> {
    let n = rng.below(4);
    (0..n).map(|_| *rng.pick(&ALPHA[..4])).collect()
}

/// index of a pool element, biased towards recent ones, of depth at most `maxd`
fn rnd_arg(rng: &mut Rng, depth: &[u32], maxd: u32) -> usize {
    let n = depth.len();
    for _ in 0..8 {
        let i = if rng.chance(1, 2) && n > 12 {
            n - 1 - rng.below(12) as usize
        } else {
            rng.below(n as u64) as usize
        };
        if depth[i] <= maxd {
            return i;
        }
    }
    rng.below(5) as usize // one of the built-in terms
}

fn rnd_cons(rng: &mut Rng, depth: &[u32], maxd: u32) -> Cons {
    let a = rnd_arg(rng, depth, maxd);
    let b = rnd_arg(rng, depth, maxd);
    match rng.below(30) {
        0 => Cons::Range(97, 97 + rng.below(4) as u32),
        1 => {
            let x = rnd_char(rng);
            let y = rnd_char(rng);
            Cons::Range(x.min(y), x.max(y))
        }
        2 | 3 => Cons::Char(rnd_char(rng)),
        4 | 5 => Cons::Str(rnd_str(rng)),
        6 | 7 | 8 => Cons::Concat(a, b),
        9 | 10 | 11 => Cons::Union(a, b),
        12 | 13 => Cons::Inter(a, b),
        14 => Cons::Diff(a, b),
        15 | 16 => Cons::Complement(a),
        17 => Cons::Star(a),
        18 => Cons::Plus(a),
        19 => Cons::Opt(a),
        20 => Cons::Exp(a, rng.below(4) as u32),
        21 => {
            let i = rng.below(3) as u32;
            if rng.chance(1, 2) {
                Cons::MkLoop(a, i, None)
            } else {
                Cons::MkLoop(a, i, Some(i + rng.below(3) as u32))
            }
        }
        22 => Cons::SmtLoop(a, rng.below(4) as u32, rng.below(4) as u32),
        23 => Cons::UnionList((0..rng.below(5)).map(|_| rnd_arg(rng, depth, maxd)).collect()),
        24 => Cons::InterList((0..rng.below(4)).map(|_| rnd_arg(rng, depth, maxd)).collect()),
        25 => Cons::ConcatList((0..rng.below(4)).map(|_| rnd_arg(rng, depth, maxd)).collect()),
        26 | 27 => Cons::Deriv(a, rnd_char(rng)),
        28 => Cons::StrDeriv(a, rnd_str(rng)),
        _ => match rng.below(5) {
            0 => Cons::Empty,
            1 => Cons::Full,
            2 => Cons::Epsilon,
            3 => Cons::SigmaPlus,
            _ => Cons::AllChars,
        },
    }
}

fn cons_depth(c: &Cons, depth: &[u32]) -> u32 {
    let m = |l: &[usize]| l.iter().map(|&i| depth[i]).max().unwrap_or(0);
    1 + match c {
        Cons::Concat(a, b) | Cons::Union(a, b) | Cons::Inter(a, b) | Cons::Diff(a, b) => depth[*a].max(depth[*b]),
        Cons::Complement(a) | Cons::Star(a) | Cons::Plus(a) | Cons::Opt(a) => depth[*a],
        Cons::Exp(a, _) | Cons::MkLoop(a, _, _) | Cons::SmtLoop(a, _, _) => depth[*a],
        Cons::Deriv(a, _) | Cons::StrDeriv(a, _) => depth[*a],
        Cons::UnionList(l) | Cons::InterList(l) | Cons::ConcatList(l) => m(l),
        _ => 0,
    }
}

struct Session<'a> {
    t: &'a mut Trace,
    label: u64,
    re: ReManager,
    pool: Vec<RegLan>,
    depth: Vec<u32>,
    /// recorded constructions: (global label, constructor, first result)
    cons: Vec<(u64, Cons, RegLan)>,
    /// mid-session table dumps
    dumps: Vec<String>,
    dead: bool,
}

fn emit(t: &mut Trace, lhs: &str, res: &str, nontrivial: bool) {
    t.op(lhs, res, nontrivial);
    // keep the evidence file small: a table line can be tens of kilobytes
    if let Some(last) = t.samples.last_mut() {
        if last.len() > 400 {
            let mut cut = 300;
            while !last.is_char_boundary(cut) {
                cut -= 1;
            }
            let tail = last[last.len() - 12..].to_string();
            last.truncate(cut);
            last.push_str("...(truncated)...");
            last.push_str(&tail);
        }
    }
}

impl<'a> Session<'a> {
    fn new(t: &'a mut Trace, label: u64) -> Session<'a> {
        let mut re = ReManager::new();
        let pool = vec![re.empty(), re.full(), re.epsilon(), re.sigma_plus(), re.all_chars()];
        Session { t, label, re, pool, depth: vec![0; 5], cons: Vec::new(), dumps: Vec::new(), dead: false }
    }

    /// a new recorded construction
    fn construct(&mut self, c: Cons) {
        if self.dead {
            return;
        }
        let k = self.label * 1_000_000 + self.cons.len() as u64;
        let pool = &self.pool;
        let re = &mut self.re;
        match catch_unwind(AssertUnwindSafe(|| apply(re, pool, &c))) {
            Ok(r) => {
                self.t.count(&format!("cons={}", c.name()));
                self.depth.push(cons_depth(&c, &self.depth));
                self.pool.push(r);
                self.cons.push((k, c, r));
            }
            Err(_) => {
                emit(self.t, &format!("store same_ptr {}", k), "PANIC", true);
                self.dead = true;
            }
        }
    }

    /// re-issue construction number `j` and compare with its first result
    fn reissue(&mut self, j: usize) {
        if self.dead {
            return;
        }
        let (k, c, first) = self.cons[j].clone();
        let pool = &self.pool;
        let re = &mut self.re;
        let before = re.verif_num_terms();
        let r = guarded(|| {
            let again = apply(re, pool, &c);
            let same = std::ptr::eq(first, again) && first == again && first.verif_id() == again.verif_id();
            // re-issuing an existing construction allocates nothing (every `make` it performs
            // was performed the first time, so every key is found)
            p_bool(same && re.verif_num_terms() == before)
        });
        if r == "PANIC" {
            self.dead = true;
        }
        self.t.count("same_ptr");
        emit(self.t, &format!("store same_ptr {}", k), &r, true);
    }

    /// complement twice / complement id
    fn check_complement(&mut self, i: usize) {
        if self.dead {
            return;
        }
        let e = self.pool[i];
        let re = &mut self.re;
        let r = guarded(|| {
            let c = re.complement(e);
            let cc = re.complement(c);
            p_bool(std::ptr::eq(cc, e) && cc == e && c != e && !std::ptr::eq(c, e))
        });
        emit(self.t, &format!("store compl_invol {} {}", e.verif_id(), self.label), &r, true);
        let re = &mut self.re;
        let r = guarded(|| re.complement(e).verif_id().to_string());
        emit(self.t, &format!("store complement {} {}", e.verif_id(), self.label), &r, true);
        self.t.count("complement");
    }

    /// unrelated history: derivative closure / automaton / emptiness / witness / membership
    fn history(&mut self, rng: &mut Rng, bound: usize) {
        if self.dead {
            return;
        }
        let i = rnd_arg(rng, &self.depth, 4);
        let e = self.pool[i];
        let s = SmtString::from(rnd_str(rng).as_slice());
        let re = &mut self.re;
        let kind = rng.below(3);
        let r = catch_unwind(AssertUnwindSafe(|| match kind {
            0 => {
                re.str_in_re(&s, e);
                "str_in_re"
            }
            _ => match re.try_compile(e, bound) {
                None => "try_compile=none",
                Some(_) => {
                    // the derivative closure is finite and now cached: these terminate
                    re.is_empty_re(e);
                    re.get_string(e);
                    if kind == 2 {
                        re.compile(e);
                    }
                    "compile+is_empty+get_string"
                }
            },
        }));
        match r {
            Ok(k) => self.t.count(&format!("history={}", k)),
            Err(_) => {
                emit(self.t, &format!("store same_ptr {}", self.label * 1_000_000 + 999_999), "PANIC", true);
                self.dead = true;
            }
        }
    }

    fn dump(&mut self, last: bool) {
        let re = &self.re;
        let n = re.verif_num_terms();
        let ids_ok = guarded(|| p_bool((0..n).all(|i| re.verif_term(i).verif_id() == i)));
        emit(self.t, &format!("store ids {}", n), &ids_ok, true);
        match catch_unwind(AssertUnwindSafe(|| enc_table(re))) {
            Ok(enc) => {
                emit(self.t, &format!("store table {}", enc), "1", true);
                self.t.count("tables");
                let b = match n {
                    0..=99 => "terms<100",
                    100..=999 => "terms<1000",
                    1000..=4999 => "terms<5000",
                    _ => "terms>=5000",
                };
                self.t.count(b);
                if last {
                    // ids keep their keys for ever: every earlier dump is a prefix of this one
                    for (j, d) in self.dumps.iter().enumerate() {
                        let ok = enc.starts_with(d.as_str())
                            && (enc.len() == d.len() || enc.as_bytes()[d.len()] == b';');
                        emit(self.t, &format!("store prefix {}", self.label * 100 + j as u64), &p_bool(ok), true);
                    }
                } else {
                    self.dumps.push(enc);
                }
            }
            Err(_) => emit(self.t, "store table PANIC", "PANIC", true),
        }
    }
}

/// a session in which even `ReManager::new` may panic
fn session(t: &mut Trace, rng: &mut Rng, label: u64, steps: usize, maxd: u32, bound: usize) {
    let r = catch_unwind(AssertUnwindSafe(|| session_inner(t, rng, label, steps, maxd, bound)));
    if r.is_err() {
        emit(t, "store table PANIC", "PANIC", true);
    }
}

/// one session: `steps` constructions with interleaved history and re-issues
fn session_inner(t: &mut Trace, rng: &mut Rng, label: u64, steps: usize, maxd: u32, bound: usize) {
    let mut s = Session::new(t, label);
    for step in 0..steps {
        let c = rnd_cons(rng, &s.depth, maxd);
        s.construct(c);
        if rng.chance(1, 6) {
            s.history(rng, bound);
        }
        if rng.chance(1, 5) && !s.cons.is_empty() {
            let j = rng.below(s.cons.len() as u64) as usize;
            s.reissue(j);
        }
        if rng.chance(1, 10) {
            let i = rng.below(s.pool.len() as u64) as usize;
            s.check_complement(i);
        }
        if step == steps / 2 || (step == steps / 4 && rng.chance(1, 2)) {
            s.dump(false);
        }
        if s.dead {
            break;
        }
    }
    // more unrelated history, then every recorded construction again
    for _ in 0..steps / 8 {
        s.history(rng, bound);
    }
    for j in 0..s.cons.len() {
        s.reissue(j);
    }
    for i in 0..s.pool.len().min(40) {
        s.check_complement(i);
    }
    s.dump(true);
}

/// the example of the `ReManager` documentation: (ac + bc)* and its derivatives
fn doc_example(t: &mut Trace) {
    let mut s = Session::new(t, 0);
    s.construct(Cons::Str(vec![97, 99])); // pool[5]
    s.construct(Cons::Str(vec![98, 99])); // pool[6]
    s.construct(Cons::Union(5, 6)); // pool[7]
    s.construct(Cons::Star(7)); // pool[8]
    s.construct(Cons::Deriv(8, 97)); // pool[9]
    s.construct(Cons::Deriv(8, 98)); // pool[10]
    s.dump(false);
    let same = std::ptr::eq(s.pool[9], s.pool[10]);
    emit(s.t, "store same_ptr 999999", &p_bool(same), true);
    // the built-in pairs: complement(empty) is full, complement(epsilon) is sigma_plus
    for i in 0..5 {
        s.check_complement(i);
    }
    s.construct(Cons::Complement(0));
    s.construct(Cons::Complement(2));
    let ok = std::ptr::eq(s.pool[11], s.pool[1]) && std::ptr::eq(s.pool[12], s.pool[3]);
    emit(s.t, "store same_ptr 999998", &p_bool(ok), true);
    for j in 0..s.cons.len() {
        s.reissue(j);
    }
    s.dump(true);
}

pub fn run(t: &mut Trace, rng: &mut Rng, thorough: bool) {
    t.rule = "one case = one operation line: `same_ptr k` = recorded construction k (random public constructor of ReManager on random earlier terms, depth-bounded) re-issued after further random history (constructions, derivatives, try_compile/compile, is_empty_re, get_string, str_in_re) on the same manager, compared by std::ptr::eq, == and id, and required to allocate no new term; `compl_invol`/`complement` on random terms; `table` = the manager's complete term table (dumped mid-session and at the end, every term by id with child ids), `ids` = verif_term(i).id == i, `prefix` = a mid-session dump is a prefix of the final dump. All cases counted non-trivial; labels carry the session number so that cases of different sessions are distinct".into();
    if catch_unwind(AssertUnwindSafe(|| doc_example(t))).is_err() {
        emit(t, "store table PANIC", "PANIC", true);
    }
    let (small, medium, large) = if thorough { (600, 200, 40) } else { (80, 20, 4) };
    let mut label = 1;
    for _ in 0..small {
        let steps = 10 + rng.below(60) as usize;
        session(t, rng, label, steps, 4, 60);
        label += 1;
    }
    for _ in 0..medium {
        let steps = 400 + rng.below(1200) as usize;
        session(t, rng, label, steps, 6, 200);
        label += 1;
    }
    for _ in 0..large {
        let steps = 5000 + rng.below(5000) as usize;
        session(t, rng, label, steps, 8, 500);
        label += 1;
    }
}
