import SmtModel.Model.Basic
import SmtModel.Model.CharSet
