/-
  Regression documentation (DESIGN.md §9): for every defect D1–D10 that was repaired in /repo by a
  `fix:` commit, the AS-FOUND function next to a kernel-checked counter-example and the answer of
  the model of the current tree.  None of these files is used by the models, the theorems of
  `SmtModel/Props` or the driver; `lake build SmtModel.Legacy` type-checks them all.

    D1  mk_loop(∅, [0,j]) = ∅                        Legacy/MkLoop.lean            (8c4050f)
    D2  interval_cover compares with end(i+1)        Legacy/IntervalCover.lean     (2d5d2b7)
    D3  str_indexof guard i >= len                   Legacy/Strings.lean           (d695701)
    D4  Display prints a backslash raw               Legacy/DisplayBackslash.lean  (b5fa023)
    D5  str_to_int unchecked arithmetic              Legacy/Strings.lean           (9c9009b)
    D6  From<&str>/From<char>/parser keep > MAX_CHAR Legacy/CodePoints.lean        (1bf734c)
    D7  build validates after cleanup                Legacy/BuilderBuild.lean      (60078b8)
    D8  start_char structural Concat/Inter arms      Legacy/StartChar.lean         (3e35612)
    D9  build cleans the builder in place            Legacy/BuilderBuild.lean      (114d68f)
    D10 take_list indexes a missing slot             Legacy/MinimizerTakeList.lean (1f550e5)
-/
import SmtModel.Legacy.MkLoop
import SmtModel.Legacy.IntervalCover
import SmtModel.Legacy.Strings
import SmtModel.Legacy.DisplayBackslash
import SmtModel.Legacy.CodePoints
import SmtModel.Legacy.BuilderBuild
import SmtModel.Legacy.StartChar
import SmtModel.Legacy.MinimizerTakeList
