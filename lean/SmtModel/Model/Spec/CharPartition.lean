/-
  Executable specification of the CharPartition queries (C11): linear scans over the interval
  list, independent of the binary searches and of the sort/sweep of the model.  Core Lean only
  (linked into `smtdriver`, which prints these values in the spec column).  Props/C11.lean proves
  that the model equals these for every well-formed partition.
-/
import SmtModel.Model.CharPartition

namespace Smt.CPSpec
open Smt

/-- membership of a character in an interval -/
def mem (x : Nat) (c : CharSet) : Bool := c.start ≤ x && x ≤ c.stop

/-- `[a,b]` lies inside `c` -/
def inside (s c : CharSet) : Bool := c.start ≤ s.start && s.stop ≤ c.stop

/-- `[a,b]` and `c` have a common point -/
def meets (s c : CharSet) : Bool := max s.start c.start ≤ min s.stop c.stop

/-- class of a character: index of the first interval that contains it -/
def classOfChar (l : List CharSet) (x : Nat) : ClassId :=
  match l.findIdx? (mem x) with
  | some i => .interval i
  | none => .complement

/-- cover of a set: first interval that contains it; else disjoint iff it meets none -/
def intervalCover (l : List CharSet) (s : CharSet) : CoverResult :=
  match l.findIdx? (inside s) with
  | some i => .coveredBy i
  | none => if l.any (meets s) then .overlaps else .disjointFromAll

def classOfSet (l : List CharSet) (s : CharSet) : Except Err ClassId :=
  match intervalCover l s with
  | .coveredBy i => .ok (.interval i)
  | .disjointFromAll => .ok .complement
  | .overlaps => .error .AmbiguousCharSet

def goodCharSet (l : List CharSet) (s : CharSet) : Bool :=
  match intervalCover l s with
  | .overlaps => false
  | _ => true

/-- pairwise disjointness of a list of intervals (all unordered pairs at distinct positions) -/
def pairwiseDisjoint : List CharSet → Bool
  | [] => true
  | c :: rest => rest.all (fun d => !meets c d) && pairwiseDisjoint rest

/-- least natural number that belongs to no interval: the candidates are 0 and `b+1` for every
    interval `[a,b]`; the least non-member is the least candidate that is a non-member -/
def leastNonMember (l : List CharSet) : Nat :=
  let cands := 0 :: l.map (fun c => c.stop + 1)
  let free := cands.filter (fun x => !l.any (mem x))
  free.foldl min (free.headD 0)

/-- what `try_from_iter` must return: error iff not pairwise disjoint; otherwise the intervals in
    increasing order (here: core `mergeSort`, not the model's insertion sort) and the least
    non-member as witness -/
def tryFromList (l : List CharSet) : Except Err CharPartition :=
  if pairwiseDisjoint l then
    .ok ⟨l.mergeSort (fun c d => c.start ≤ d.start), leastNonMember l⟩
  else .error .NonDisjointCharSets

end Smt.CPSpec
