/-
  Specification of SMT-LIB 2.6 string-literal reading (C08), independent of the parser model:
  no automaton, no state; a definition by position in the text.

  `specParse`: at each position, if the text there starts with
      `\u` d d d d                     (four hexadecimal digits), or
      `\u{` d{1,5} `}`                 (one to five hexadecimal digits, value ≤ 0x2FFFF),
  emit the value and skip the escape; otherwise copy one character
  (a character that is not an SMT-LIB character, i.e. > 0x2FFFF, is copied as 0xFFFD).

  Core Lean only (also executed by the driver as the specification column).
-/
import SmtModel.Model.Basic

namespace Smt.LiteralSpec
open Smt

/-- the 22 hexadecimal digits with their values: `0-9`, `a-f`, `A-F` -/
def hexTable : List (Nat × Nat) :=
  [(48, 0), (49, 1), (50, 2), (51, 3), (52, 4), (53, 5), (54, 6), (55, 7), (56, 8), (57, 9),
   (97, 10), (98, 11), (99, 12), (100, 13), (101, 14), (102, 15),
   (65, 10), (66, 11), (67, 12), (68, 13), (69, 14), (70, 15)]

def hexVal? (c : Nat) : Option Nat := hexTable.lookup c
def isHex (c : Nat) : Bool := (hexVal? c).isSome
/-- value of a hexadecimal digit (0 for anything else; only applied to digits) -/
def hexVal (c : Nat) : Nat := (hexVal? c).getD 0

/-- value of a sequence of hexadecimal digits, most significant first -/
def hexValue (ds : List Nat) : Nat := ds.foldl (fun a d => a * 16 + hexVal d) 0

/-- If `t` starts with an SMT-LIB escape sequence: its value and the text after it.
    92 = `\`, 117 = `u`, 123 = `{`, 125 = `}`. -/
def escapeAt (t : List Nat) : Option (Nat × List Nat) :=
  if t.take 3 = [92, 117, 123] then
    let ds := (t.drop 3).takeWhile isHex
    let r := (t.drop 3).dropWhile isHex
    if 1 ≤ ds.length ∧ ds.length ≤ 5 ∧ r.head? = some 125 ∧ hexValue ds ≤ MAX_CHAR then
      some (hexValue ds, r.tail)
    else none
  else if t.take 2 = [92, 117] ∧ 6 ≤ t.length ∧ ((t.drop 2).take 4).all isHex then
    some (hexValue ((t.drop 2).take 4), t.drop 6)
  else none

theorem escapeAt_lt {t : List Nat} {v : Nat} {r : List Nat} (h : escapeAt t = some (v, r)) :
    r.length < t.length := by
  unfold escapeAt at h
  split at h
  · rename_i h3
    dsimp only at h
    split at h
    · cases h
      have h1 : ((t.drop 3).dropWhile isHex).length ≤ (t.drop 3).length :=
        (List.dropWhile_sublist _).length_le
      have h2 : t.length ≠ 0 := by
        intro h0
        have : t = [] := List.eq_nil_of_length_eq_zero h0
        subst this; simp at h3
      simp only [List.length_tail, List.length_drop] at *
      omega
    · cases h
  · split at h
    · rename_i h6
      cases h
      simp only [List.length_drop]
      omega
    · cases h

/-- a character outside the SMT-LIB alphabet is read as the replacement character -/
def copyChar (c : Nat) : Nat := if c ≤ MAX_CHAR then c else REPLACEMENT_CHAR

/-- the SMT string denoted by the literal text `t` -/
def specParse (t : List Nat) : List Nat :=
  match t with
  | [] => []
  | c :: t' =>
    match h : escapeAt (c :: t') with
    | some (v, r) =>
      have : r.length < (c :: t').length := escapeAt_lt h
      v :: specParse r
    | none => copyChar c :: specParse t'
termination_by t.length

/-- reading the body of a printed literal: `""` stands for `"` (34) -/
def undouble : List Nat → List Nat
  | [] => []
  | [c] => [c]
  | c :: d :: r => if c = 34 ∧ d = 34 then 34 :: undouble r else c :: undouble (d :: r)

/-- every `"` of the text is part of a pair `""` (reading left to right) -/
def quotesPaired : List Nat → Bool
  | [] => true
  | [c] => c != 34
  | c :: d :: r => if c = 34 then d == 34 && quotesPaired r else quotesPaired (d :: r)

end Smt.LiteralSpec
