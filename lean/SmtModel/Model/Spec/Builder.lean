/-
  Specification of what a sequence of `AutomatonBuilder` calls *means* (C13), independent of the
  builder model: no id map, no state vector, no cleanup, no partition.  Core Lean only (the driver
  prints these values in the spec column).

  For the call sequence `new(k0); ops`:
  * `keys k0 ops`          the keys mentioned, in order of first mention (`idOf` = position)
  * `transitions ops k`    the transitions given for `k`, in the order given
  * `default ops k`        the declared default successor of `k` (the last declaration wins)
  * `final ops k`          whether `k` was marked final
  * `specDelta ops k c`    target of the first listed transition of `k` covering `c`, else the
                           declared default
  * `verdict k0 ops`       `none` if the specification is valid, otherwise the error of the first
                           offending state (in `keys` order; per state: overlap, then superfluous
                           default, then missing default)
-/
import SmtModel.Model.Automaton

namespace Smt.BuilderSpec
open Smt

def keysOf : BuilderOp → List Nat
  | .addTransition k _ k' => [k, k']
  | .setDefault k k' => [k, k']
  | .markFinal k => [k]

/-- append the keys not seen before, in order -/
def addKeys (acc : List Nat) : List Nat → List Nat
  | [] => acc
  | k :: rest => if k ∈ acc then addKeys acc rest else addKeys (acc ++ [k]) rest

/-- all keys mentioned by `new(k0); ops`, in order of first mention -/
def keys (k0 : Nat) (ops : List BuilderOp) : List Nat :=
  ops.foldl (fun acc op => addKeys acc (keysOf op)) [k0]

/-- position of `k` in a key list -/
def indexOf (k : Nat) : List Nat → Option Nat
  | [] => none
  | x :: rest => if x = k then some 0 else (indexOf k rest).map (· + 1)

def idOf (k0 : Nat) (ops : List BuilderOp) (k : Nat) : Option Nat := indexOf k (keys k0 ops)

def transitions (ops : List BuilderOp) (k : Nat) : List (CharSet × Nat) :=
  ops.filterMap (fun
    | .addTransition k1 set k2 => if k1 = k then some (set, k2) else none
    | _ => none)

def defaults (ops : List BuilderOp) (k : Nat) : List Nat :=
  ops.filterMap (fun
    | .setDefault k1 k2 => if k1 = k then some k2 else none
    | _ => none)

def default (ops : List BuilderOp) (k : Nat) : Option Nat := (defaults ops k).getLast?

def final (ops : List BuilderOp) (k : Nat) : Bool :=
  ops.any (fun
    | .markFinal k1 => k1 = k
    | _ => false)

/-- target key of `(k, c)` in the specification given by the caller -/
def specDelta (ops : List BuilderOp) (k c : Nat) : Option Nat :=
  match (transitions ops k).find? (fun t => t.1.contains c) with
  | some t => some t.2
  | none => default ops k

/-- two intervals share a character -/
def meets (s t : CharSet) : Bool := max s.start t.start ≤ min s.stop t.stop

def disjointB : List CharSet → Bool
  | [] => true
  | c :: rest => rest.all (fun d => !meets c d) && disjointB rest

def coveredB (labels : List CharSet) (c : Nat) : Bool := labels.any (fun s => s.contains c)

/-- some character `≤ MAX_CHAR` is covered by no label: if there is one, then `0` or the successor
    of the end of some label is one -/
def leavesUncoveredB (labels : List CharSet) : Bool :=
  (0 :: labels.map (fun s => s.stop + 1)).any (fun c => c ≤ MAX_CHAR && !coveredB labels c)

def stateVerdict (ops : List BuilderOp) (k : Nat) : Option Err :=
  let labels := (transitions ops k).map (·.1)
  if !disjointB labels then some .NonDisjointCharSets
  else if (default ops k).isSome && !leavesUncoveredB labels then some .EmptyComplementaryClass
  else if (default ops k).isNone && leavesUncoveredB labels then some .MissingDefaultSuccessor
  else none

def firstSome {α} : List (Option α) → Option α
  | [] => none
  | some a :: _ => some a
  | none :: rest => firstSome rest

def verdict (k0 : Nat) (ops : List BuilderOp) : Option Err :=
  firstSome ((keys k0 ops).map (stateVerdict ops))

end Smt.BuilderSpec
