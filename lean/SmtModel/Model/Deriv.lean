/-
  Brzozowski derivatives (src/regular_expressions.rs:1797-2139): `compute_derivative`,
  `deriv` / `cached_deriv` (always through the representative of the derivative class — the cache
  itself is not modelled: the model recomputes), `class_derivative(_unchecked)`,
  `set_derivative(_unchecked)`, `char_derivative`, `str_derivative`, `str_in_re`.
-/
import SmtModel.Model.ReCons

namespace Smt
namespace RE

/-- `pick_class_rep(class_of_char(c))`: the representative through which `deriv` computes.
    For `c <= MAX_CHAR` and a well-formed partition the interval exists and the complementary
    class is non-empty (so neither the index panic nor the assertion of `pick_in_class` fires);
    outside that precondition the Rust panics where this returns `compWitness`/`c`. -/
def classRep (p : CharPartition) (c : Nat) : Nat :=
  match p.classOfChar c with
  | .interval i => match p.list[i]? with
    | some s => s.start
    | none => c
  | .complement => p.compWitness

mutual
/-- `compute_derivative(e, c)`; every recursive `deriv(e', c)` is
    `compute_derivative(e', rep)` with `rep` the representative of the class of `c` in `e'` -/
def computeDeriv (ord : RE → Nat) : RE → Nat → RE
  | .empty, _ => .empty
  | .epsilon, _ => .empty
  | .range r, c => if r.contains c then .epsilon else .empty
  | .concat e1 e2, c =>
    let d1 := mkConcat (computeDeriv ord e1 (classRep e1.derivClass c)) e2
    if e1.nullable then
      mkUnion ord d1 (computeDeriv ord e2 (classRep e2.derivClass c))
    else d1
  | .loop e1 rng, c =>
    let d1 := computeDeriv ord e1 (classRep e1.derivClass c)
    mkConcat d1 (mkLoop e1 rng.shift)
  | .compl e1, c => (computeDeriv ord e1 (classRep e1.derivClass c)).complement
  | .inter l, c => mkInterList ord (derivList ord l c)
  | .union l, c => mkUnionList ord (derivList ord l c)
/-- `deriv_list` -/
def derivList (ord : RE → Nat) : List RE → Nat → List RE
  | [], _ => []
  | x :: xs, c => computeDeriv ord x (classRep x.derivClass c) :: derivList ord xs c
end

/-- `deriv(e, c)` = `cached_deriv(e, class_of_char(c))` -/
def deriv (ord : RE → Nat) (e : RE) (c : Nat) : RE :=
  computeDeriv ord e (classRep e.derivClass c)

/-- `char_derivative` -/
def charDerivative (ord : RE → Nat) (e : RE) (c : Nat) : RE := deriv ord e c

/-- `cached_deriv(e, cid)`: `none` = `pick_class_rep` panics (invalid class id) -/
def cachedDeriv (ord : RE → Nat) (e : RE) (cid : ClassId) : Option RE :=
  (e.derivClass.pickInClass cid).map (computeDeriv ord e)

/-- `class_derivative_unchecked` -/
def classDerivativeUnchecked (ord : RE → Nat) (e : RE) (cid : ClassId) : Option RE :=
  cachedDeriv ord e cid

/-- `class_derivative`: outer `Option` = panic channel (never `none`, Props/C03) -/
def classDerivative (ord : RE → Nat) (e : RE) (cid : ClassId) : Option (Except Err RE) :=
  if e.derivClass.validClassId cid then (cachedDeriv ord e cid).map .ok
  else some (.error .BadClassId)

/-- `set_derivative` -/
def setDerivative (ord : RE → Nat) (e : RE) (c : CharSet) : Option (Except Err RE) :=
  match e.derivClass.classOfSet c with
  | .error err => some (.error err)
  | .ok cid => (cachedDeriv ord e cid).map .ok

/-- `set_derivative_unchecked`: `none` = `unwrap` of an error or invalid class -/
def setDerivativeUnchecked (ord : RE → Nat) (e : RE) (c : CharSet) : Option RE :=
  match e.derivClass.classOfSet c with
  | .error _ => none
  | .ok cid => cachedDeriv ord e cid

/-- `str_derivative`: left fold of `char_derivative` -/
def strDerivative (ord : RE → Nat) (e : RE) (s : List Nat) : RE :=
  s.foldl (deriv ord) e

/-- `str_in_re` -/
def strInRe (ord : RE → Nat) (s : List Nat) (e : RE) : Bool :=
  (strDerivative ord e s).nullable

end RE
end Smt
