/-
  Regex search and replace (src/matcher.rs:57-89 `naive_re_search`;
  src/smt_regular_expressions.rs `str_replace_re`, `str_replace_re_all`).
-/
import SmtModel.Model.Deriv

namespace Smt
namespace RE

/-- inner loop of `naive_re_search`: `p` = derivative so far, the list = `string[j..]`,
    `n` = `j - i`.  Returns the length of the match. -/
def matchFrom (ord : RE → Nat) (p : RE) : List Nat → Nat → Option Nat
  | [], _ => none
  | c :: rest, n =>
    let p' := deriv ord p c
    if p'.nullable then some (n + 1)
    else if p'.isEmpty then none
    else matchFrom ord p' rest (n + 1)

/-- outer loop: the list = `string[i..]` -/
def searchFrom (ord : RE → Nat) (pattern : RE) : List Nat → Nat → Option (Nat × Nat)
  | [], _ => none
  | c :: rest, i =>
    match matchFrom ord pattern (c :: rest) 0 with
    | some len => some (i, i + len)
    | none => searchFrom ord pattern rest (i + 1)

/-- `naive_re_search(manager, pattern, string, k, allow_empty)` -/
def naiveReSearch (ord : RE → Nat) (pattern : RE) (s : List Nat) (k : Nat) (allowEmpty : Bool) :
    Option (Nat × Nat) :=
  if allowEmpty && pattern.nullable then some (k, k)
  else searchFrom ord pattern (s.drop k) k

/-- `str_replace_re` -/
def strReplaceRe (ord : RE → Nat) (s1 : List Nat) (r : RE) (s2 : List Nat) : List Nat :=
  match naiveReSearch ord r s1 0 true with
  | none => s1
  | some (i, j) => s1.take i ++ s2 ++ s1.drop j

/-- the `while let Found(j, k)` loop of `str_replace_re_all`; fuel ≥ remaining length + 1 suffices
    because every match is non-empty -/
def replaceAllLoop (ord : RE → Nat) (r : RE) (s1 s2 : List Nat) : Nat → Nat → List Nat → Option (List Nat)
  | 0, _, _ => none
  | fuel + 1, i, x =>
    match naiveReSearch ord r s1 i false with
    | some (j, k) => replaceAllLoop ord r s1 s2 fuel k (x ++ (s1.drop i).take (j - i) ++ s2)
    | none => some (x ++ s1.drop i)

/-- `str_replace_re_all`; `none` = out of fuel (never: Props/C10) -/
def strReplaceReAll (ord : RE → Nat) (s1 : List Nat) (r : RE) (s2 : List Nat) : Option (List Nat) :=
  replaceAllLoop ord r s1 s2 (s1.length + 2) 0 []

end RE
end Smt
