/-
  Model of the string-literal code and of the constructors of `smt_strings.rs` (lines 1-470 of the
  current tree, i.e. *with* the two repairs: a backslash is printed as `\u{5c}`; code points above
  0x2FFFF are mapped to 0xFFFD by `From<&str>/From<String>/From<char>` and by the parser's `push`).

  Conventions
  * a Rust `&str`/`String`/`char` is a list of / a Unicode scalar value: a `Nat` satisfying `Scalar`
    (0..0x10FFFF minus the surrogates).  No model function needs the hypothesis; it only documents
    what the harness can feed.  `u32` values are `Nat`s ≤ `U32_MAX`.
  * an `SmtString` is its `Vec<u32>`: a `List Nat`.
  * every Rust panic site is `none` at the same site:
      `SmtString::make` (length > i32::MAX), `assert!(i < 9)` / the array store in `pending`,
      the slice `&self.pending[0..self.pending_idx]`, `x.to_digit(16).unwrap()`,
      `char::from_u32(x).unwrap()`.
  * `self.pending: [u32; 9]` is a list of length 9 that is only ever `set` (stale entries beyond
    `pending_idx` stay, as in the Rust); `pending_idx` is a separate field.
  * `escape_code << 4 | hex` on `u32`: `<<` by 4 never panics, it drops the high bits, hence `% 2^32`.

  Core Lean only: this file is linked into the `smtdriver` executable.
-/
import SmtModel.Model.Basic

namespace Smt.Literal
open Smt

/-- `smt_strings::MAX_LENGTH` (`i32::MAX`) -/
def MAX_LENGTH : Nat := 2147483647

/-- Unicode scalar values: what a Rust `char` can hold -/
def Scalar (c : Nat) : Prop := c < 0xD800 ∨ (0xE000 ≤ c ∧ c ≤ 0x10FFFF)

instance (c : Nat) : Decidable (Scalar c) := by unfold Scalar; infer_instance

/-- the content of a Rust `&str`, as the sequence `x.chars()` yields -/
def ScalarText (t : List Nat) : Prop := ∀ c ∈ t, Scalar c

instance (t : List Nat) : Decidable (ScalarText t) := by unfold ScalarText; infer_instance

/-! ### `SmtString` internals -/

/-- `SmtString::make`: `none` = the `panic!` for a vector longer than `MAX_LENGTH` -/
def make (a : List Nat) : Option (List Nat) :=
  if a.length > MAX_LENGTH then none else some a

/-- `good_char` -/
def goodChar (x : Nat) : Bool := x ≤ MAX_CHAR

/-- `SmtString::is_good`: `n < MAX_LENGTH as usize && good_string(&self.s)`
    (`good_string` is `Smt.goodString` of Basic.lean) -/
def isGood (s : List Nat) : Bool := decide (s.length < MAX_LENGTH) && goodString s

/-! ### constructors (`From` impls) -/

/-- `From<&str>`: `x.chars().map(|c| if c as u32 <= MAX_CHAR {c} else {REPLACEMENT_CHAR}).collect()` -/
def fromStr (x : List Nat) : Option (List Nat) :=
  make (x.map (fun c => if c ≤ MAX_CHAR then c else REPLACEMENT_CHAR))

/-- `From<String>`: `SmtString::from(x.as_str())` -/
def fromString (x : List Nat) : Option (List Nat) := fromStr x

/-- `From<&[u32]>` (and `From<&[u32; N]>`, which calls it on `a[..]`) -/
def fromSlice (a : List Nat) : Option (List Nat) :=
  make (a.map (fun x => if x ≤ MAX_CHAR then x else REPLACEMENT_CHAR))

/-- `From<Vec<u32>>`: keeps the vector when all elements are valid, else goes through the slice -/
def fromVec (a : List Nat) : Option (List Nat) :=
  if a.all (fun x => x ≤ MAX_CHAR) then make a else fromSlice a

/-- `From<u32>` -/
def fromU32 (x : Nat) : Option (List Nat) :=
  let x := if x ≤ MAX_CHAR then x else REPLACEMENT_CHAR
  make [x]

/-- `From<char>`: `SmtString::from(x as u32)` -/
def fromChar (x : Nat) : Option (List Nat) := fromU32 x

/-! ### conversion to a Rust `String` (`is_unicode`, `to_unicode_string`) -/

/-- `all_unicode` behind `SmtString::is_unicode`: `v.iter().all(|&x| char::from_u32(x).is_some())` -/
def isUnicode (s : List Nat) : Bool := s.all (fun x => decide (Scalar x))

/-- `map_to_unicode` behind `SmtString::to_unicode_string`:
    `v.iter().map(|&x| char::from_u32(x).unwrap_or(char::REPLACEMENT_CHARACTER)).collect()`;
    the result is the sequence of `chars()` of the returned `String` -/
def toUnicodeString (s : List Nat) : List Nat :=
  s.map (fun x => if Scalar x then x else REPLACEMENT_CHAR)

/-! ### the literal parser -/

inductive State where
  | init | afterSlash | afterSlashU | afterSlashUHex | afterSlashUBrace
deriving DecidableEq, Repr

structure Automaton where
  state : State
  stringSoFar : List Nat
  /-- the array `[u32; 9]` -/
  pending : List Nat
  pendingIdx : Nat
  escapeCode : Nat
deriving DecidableEq, Repr

def newAutomaton : Automaton :=
  { state := .init, stringSoFar := [], pending := List.replicate 9 0, pendingIdx := 0, escapeCode := 0 }

/-- `char::is_ascii_hexdigit` -/
def isAsciiHexdigit (x : Nat) : Bool :=
  (48 ≤ x && x ≤ 57) || (65 ≤ x && x ≤ 70) || (97 ≤ x && x ≤ 102)

/-- `char::to_digit(16)` -/
def toDigit16 (x : Nat) : Option Nat :=
  if 48 ≤ x ∧ x ≤ 57 then some (x - 48)
  else if 97 ≤ x ∧ x ≤ 102 then some (x - 97 + 10)
  else if 65 ≤ x ∧ x ≤ 70 then some (x - 65 + 10)
  else none

namespace Automaton

/-- `push`: add char `x` to the string so far (with the repair: > MAX_CHAR ↦ REPLACEMENT_CHAR) -/
def push (a : Automaton) (x : Nat) : Automaton :=
  let x := if x ≤ MAX_CHAR then x else REPLACEMENT_CHAR
  { a with stringSoFar := a.stringSoFar ++ [x] }

/-- `pending`: `assert!(i < 9); self.pending[i] = x; self.pending_idx += 1` -/
def addPending (a : Automaton) (x : Nat) : Option Automaton :=
  let i := a.pendingIdx
  if i < 9 ∧ i < a.pending.length then
    some { a with pending := a.pending.set i x, pendingIdx := a.pendingIdx + 1 }
  else none

/-- `consume`: character `x` in the Init state -/
def consume (a : Automaton) (x : Nat) : Option Automaton :=
  if x = 92 then do
    let a ← a.addPending x
    pure { a with state := .afterSlash }
  else some (a.push x)

/-- `flush_pending`: the slice `&self.pending[0..self.pending_idx]` panics if the index is > 9 -/
def flushPending (a : Automaton) : Option Automaton :=
  if a.pendingIdx ≤ a.pending.length then
    some { a with stringSoFar := a.stringSoFar ++ a.pending.take a.pendingIdx,
                  pendingIdx := 0, escapeCode := 0, state := .init }
  else none

/-- `close_escape_seq` -/
def closeEscapeSeq (a : Automaton) : Automaton :=
  { a with stringSoFar := a.stringSoFar ++ [a.escapeCode], pendingIdx := 0, escapeCode := 0,
           state := .init }

/-- `add_hex`: `escape_code = escape_code << 4 | hex` on u32, then `pending(x)` -/
def addHex (a : Automaton) (x : Nat) : Option Automaton := do
  let hex ← toDigit16 x
  let a := { a with escapeCode := ((a.escapeCode <<< 4) % 4294967296) ||| hex }
  a.addPending x

/-- `accept` -/
def accept (a : Automaton) (x : Nat) : Option Automaton :=
  match a.state with
  | .init => a.consume x
  | .afterSlash =>
    if x = 117 then do
      let a ← a.addPending x
      pure { a with state := .afterSlashU }
    else do
      let a ← a.flushPending
      a.consume x
  | .afterSlashU =>
    if x = 123 then do
      let a ← a.addPending x
      pure { a with state := .afterSlashUBrace }
    else if isAsciiHexdigit x then do
      let a ← a.addHex x
      pure { a with state := .afterSlashUHex }
    else do
      let a ← a.flushPending
      a.consume x
  | .afterSlashUBrace =>
    if x = 125 ∧ a.pendingIdx > 3 ∧ a.escapeCode ≤ MAX_CHAR then
      some a.closeEscapeSeq
    else if isAsciiHexdigit x ∧ a.pendingIdx < 8 then
      a.addHex x
    else do
      let a ← a.flushPending
      a.consume x
  | .afterSlashUHex =>
    if isAsciiHexdigit x then do
      let a ← a.addHex x
      if a.pendingIdx = 6 then some a.closeEscapeSeq else some a
    else do
      let a ← a.flushPending
      a.consume x

end Automaton

/-- `parse_smt_literal`: fold `accept` over `a.chars()`, final `flush_pending`, `make` -/
def parseSmtLiteral (a : List Nat) : Option (List Nat) := do
  let p ← a.foldlM Automaton.accept newAutomaton
  let p ← p.flushPending
  make p.stringSoFar

/-! ### printing -/

/-- `char::from_u32(x)`: `none` for surrogates and values above 0x10FFFF -/
def charFromU32 (x : Nat) : Option Nat := if Scalar x then some x else none

/-- one lower-case hexadecimal digit (`d < 16`) -/
def hexDigitChar (d : Nat) : Nat := if d < 10 then 48 + d else 87 + d

/-- `{:x}`: lower-case hexadecimal, no leading zeros, at least one digit -/
def hexDigitsOf (x : Nat) : List Nat :=
  if x < 16 then [hexDigitChar x] else hexDigitsOf (x / 16) ++ [hexDigitChar (x % 16)]

/-- `{:0wx}`: left-padded with `'0'` to width `w` -/
def hexPad (w x : Nat) : List Nat :=
  List.replicate (w - (hexDigitsOf x).length) 48 ++ hexDigitsOf x

/-- the piece `Display::fmt` writes for one character of the string -/
def displayPiece (x : Nat) : Option (List Nat) :=
  if x = 34 then some [34, 34]
  else if x ≥ 32 ∧ x < 127 ∧ x ≠ 92 then do
    let c ← charFromU32 x
    pure [c]
  else if x < 32 ∨ x = 127 ∨ x = 92 then some ([92, 117, 123] ++ hexPad 2 x ++ [125])
  else if x < 0x10000 then some ([92, 117] ++ hexPad 4 x)
  else some ([92, 117, 123] ++ hexDigitsOf x ++ [125])

/-- the characters `Display::fmt` writes between the two outer quotes (the `for` loop) -/
def displayBody : List Nat → Option (List Nat)
  | [] => some []
  | x :: rest => do
    let p ← displayPiece x
    let r ← displayBody rest
    pure (p ++ r)

/-- `Display::fmt` / `to_string()` -/
def display (s : List Nat) : Option (List Nat) := do
  let b ← displayBody s
  pure ([34] ++ b ++ [34])

/-- `smt_char_as_string` -/
def smtCharAsString (x : Nat) : Option (List Nat) :=
  if x = 34 then some [34, 34]
  else if x ≥ 32 ∧ x < 127 ∧ x ≠ 92 then do
    let c ← charFromU32 x
    pure [c]
  else if x < 32 ∨ x = 127 ∨ x = 92 then some ([92, 117, 123] ++ hexPad 2 x ++ [125])
  else if x < 0x10000 then some ([92, 117] ++ hexPad 4 x)
  else some ([92, 117, 123] ++ hexDigitsOf x ++ [125])

/-- `char_to_smt` -/
def charToSmt (x : Nat) : Option (List Nat) :=
  if x = 34 then some [34, 34]
  else if x ≥ 32 ∧ x < 127 ∧ x ≠ 92 then do
    let c ← charFromU32 x
    pure [c]
  else if x < 32 ∨ x = 127 ∨ x = 92 then some ([92, 117, 123] ++ hexPad 2 x ++ [125])
  else if x < 0x10000 then some ([92, 117] ++ hexPad 4 x)
  else some ([92, 117, 123] ++ hexDigitsOf x ++ [125])

/-! ### `ReManager::str` (only its panic behaviour)

  `str` calls `self.char(c)` for every character, last to first; `char` starts with
  `assert!(x <= MAX_CHAR)`.  `reStrAsserts s = true` iff none of these assertions fires
  (the construction of the term itself belongs to the regex model). -/
def reStrAsserts (s : List Nat) : Bool := s.reverse.all (fun c => decide (c ≤ MAX_CHAR))

end Smt.Literal
