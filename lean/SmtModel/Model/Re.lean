/-
  Regular-expression terms as trees (DESIGN.md §1(a), §6) and the parts of
  src/regular_expressions.rs that do not depend on term ids:

    BaseRegLan / RE attributes   is_nullable, is_atomic, concat_or_atomic, is_all_chars, is_full,
                                 is_range, match_char_set, deriv_class            (lines 165-290)
    flatten_concat / decompose_concat / flatten_inter / flatten_union             (lines 520-570)
    ReManager::complement        (id xor 1, at tree level)                        (line 1237)
    ReManager::concat, concat_list, mk_loop                                       (lines 1257-1369)

  Hash-consing is abstracted: `r == s` (id equality in the Rust) is structural equality here;
  the id assignment only matters for sorting, see Model/ReCons.lean.

  Loop bounds are unbounded naturals: where the Rust panics on u32 overflow (documented for
  loop_ranges) the model continues with the mathematical value; `RE.overflowed` detects a
  bound > u32::MAX in a result so the driver can expect `PANIC` there.
-/
import SmtModel.Model.CharPartition
import SmtModel.Model.LoopRange

namespace Smt

/-! ### unbounded versions of the LoopRange operations used by the constructors -/
namespace LoopRange

def addN (r other : LoopRange) : LoopRange :=
  match r.stop, other.stop with
  | some a, some b => finite (r.start + other.start) (a + b)
  | _, _ => infinite (r.start + other.start)

def addPointN (r : LoopRange) (x : Nat) : LoopRange := r.addN (point x)

def mulN (r other : LoopRange) : LoopRange :=
  if r.isZero || other.isZero then point 0
  else match r.stop, other.stop with
    | some a, some b => finite (r.start * other.start) (a * b)
    | _, _ => infinite (r.start * other.start)

def rightMulIsExactN (r other : LoopRange) : Bool :=
  other.isPoint ||
    match r.stop with
    | none => decide (other.start > 0) || decide (r.start ≤ 1)
    | some e => decide (other.start * (e - r.start) ≥ r.start - 1)

/-- some bound does not fit in a u32 -/
def tooBig (r : LoopRange) : Bool :=
  decide (r.start > U32_MAX) || (match r.stop with | some j => decide (j > U32_MAX) | none => false)

end LoopRange

inductive RE where
  | empty
  | epsilon
  | range (s : CharSet)
  | concat (l r : RE)
  | loop (e : RE) (r : LoopRange)
  | compl (e : RE)
  | union (l : List RE)
  | inter (l : List RE)
deriving Repr, Hashable, Inhabited

namespace RE

/-! ### decidable (structural) equality — `deriving DecidableEq` does not handle nested inductives -/

mutual
def beq : RE → RE → Bool
  | .empty, .empty => true
  | .epsilon, .epsilon => true
  | .range a, .range b => a == b
  | .concat a1 a2, .concat b1 b2 => beq a1 b1 && beq a2 b2
  | .loop a r, .loop b s => beq a b && r == s
  | .compl a, .compl b => beq a b
  | .union l, .union m => beqList l m
  | .inter l, .inter m => beqList l m
  | _, _ => false
def beqList : List RE → List RE → Bool
  | [], [] => true
  | a :: l, b :: m => beq a b && beqList l m
  | _, _ => false
end

mutual
theorem beq_eq : ∀ (a b : RE), beq a b = true ↔ a = b
  | .empty, b => by cases b <;> simp [beq]
  | .epsilon, b => by cases b <;> simp [beq]
  | .range s, b => by cases b <;> simp [beq]
  | .concat a1 a2, b => by
      cases b <;> simp [beq]
      rename_i b1 b2
      rw [beq_eq a1 b1, beq_eq a2 b2]
  | .loop a r, b => by
      cases b <;> simp [beq]
      rename_i b1 s
      rw [beq_eq a b1]
      exact fun _ => Iff.rfl
  | .compl a, b => by
      cases b <;> simp [beq]
      rename_i b1
      rw [beq_eq a b1]
  | .union l, b => by
      cases b <;> simp [beq]
      rename_i m
      rw [beqList_eq l m]
  | .inter l, b => by
      cases b <;> simp [beq]
      rename_i m
      rw [beqList_eq l m]
theorem beqList_eq : ∀ (l m : List RE), beqList l m = true ↔ l = m
  | [], m => by cases m <;> simp [beqList]
  | a :: l, m => by
      cases m <;> simp [beqList]
      rename_i b m'
      rw [beq_eq a b, beqList_eq l m']
end

instance : DecidableEq RE := fun a b =>
  if h : beq a b = true then isTrue ((beq_eq a b).1 h)
  else isFalse (fun e => h ((beq_eq a b).2 e))

/-! ### built-in terms (`ReManager::new`) -/

def sigma : RE := .range CharSet.allChars
def sigmaStar : RE := .loop sigma LoopRange.star
def sigmaPlus : RE := .loop sigma LoopRange.plus

/-! ### attributes -/

mutual
/-- `BaseRegLan::is_nullable` (cached in `RE.nullable`) -/
def nullable : RE → Bool
  | .empty => false
  | .epsilon => true
  | .range _ => false
  | .concat e1 e2 => e1.nullable && e2.nullable
  | .loop e r => r.start == 0 || e.nullable
  | .compl e => !e.nullable
  | .inter l => allNullable l
  | .union l => anyNullable l
def allNullable : List RE → Bool
  | [] => true
  | x :: xs => x.nullable && allNullable xs
def anyNullable : List RE → Bool
  | [] => false
  | x :: xs => x.nullable || anyNullable xs
end

def isEmpty : RE → Bool | .empty => true | _ => false
def isAtomic : RE → Bool | .empty | .epsilon | .range _ => true | _ => false
def concatOrAtomic : RE → Bool
  | .empty | .epsilon | .range _ | .concat .. | .loop .. => true
  | _ => false
def isAllChars : RE → Bool | .range s => s.isAlphabet | _ => false
def isFull : RE → Bool | .loop r rng => rng.isAll && r.isAllChars | _ => false
def isRange : RE → Bool | .range _ => true | _ => false
def matchCharSet : RE → CharSet → Bool | .range x, s => s.covers x | _, _ => false

mutual
/-- `BaseRegLan::deriv_class` (cached in `RE.deriv_class`) -/
def derivClass : RE → CharPartition
  | .empty => CharPartition.new
  | .epsilon => CharPartition.new
  | .range c => CharPartition.fromSet c
  | .concat e1 e2 =>
      if e1.nullable then mergePartitions e1.derivClass e2.derivClass else e1.derivClass
  | .loop e _ => e.derivClass
  | .compl e => e.derivClass
  | .inter l => mergeDerivClasses CharPartition.new l
  | .union l => mergeDerivClasses CharPartition.new l
/-- `merge_deriv_classes`: left fold starting from the empty partition -/
def mergeDerivClasses (acc : CharPartition) : List RE → CharPartition
  | [] => acc
  | x :: xs => mergeDerivClasses (mergePartitions acc x.derivClass) xs
end

/-! ### flattening -/

/-- `flatten_concat` (appends to the output vector; here: returns the list) -/
def flattenConcat : RE → List RE
  | .epsilon => []
  | .concat x y => flattenConcat x ++ flattenConcat y
  | r => [r]

def decomposeConcat (r : RE) : List RE := flattenConcat r

mutual
def flattenInter : RE → List RE
  | .inter l => flattenInterList l
  | r => [r]
def flattenInterList : List RE → List RE
  | [] => []
  | x :: xs => flattenInter x ++ flattenInterList xs
end

mutual
def flattenUnion : RE → List RE
  | .union l => flattenUnionList l
  | r => [r]
def flattenUnionList : List RE → List RE
  | [] => []
  | x :: xs => flattenUnion x ++ flattenUnionList xs
end

/-! ### complement = `id xor 1` at tree level

  ids 2k / 2k+1 hold `x` / `Complement(x)`, except the built-in pairs
  `Empty`/`Σ*` (2,3) and `Epsilon`/`Σ⁺` (4,5).  `Complement` nodes are only ever created as the
  odd partner of a fresh even node, so `complement` never builds `compl (compl _)`, `compl empty`, …  -/
def complement (e : RE) : RE :=
  match e with
  | .empty => sigmaStar
  | .epsilon => sigmaPlus
  | .compl x => x
  | e => if e = sigmaStar then .empty else if e = sigmaPlus then .epsilon else .compl e

/-! ### smart constructors without ids -/

/-- arms 1–8 of `ReManager::concat`, in the order written; `none` = fall through to arms 9/10 -/
def concatPre (e1 e2 : RE) : Option RE :=
  match e1, e2 with
  | .empty, _ => some .empty                       -- empty . R --> empty
  | _, .empty => some .empty
  | .epsilon, _ => some e2                         -- epsilon . R --> R
  | _, .epsilon => some e1
  | _, _ =>
    -- R . R^[i,j] --> R^[i+1, j+1]
    match (match e2 with | .loop y rng => if e1 = y then some (RE.loop e1 (rng.addPointN 1)) else none
                         | _ => none) with
    | some r => some r
    | none =>
    match (match e1 with | .loop x rng => if e2 = x then some (RE.loop e2 (rng.addPointN 1)) else none
                         | _ => none) with
    | some r => some r
    | none =>
    -- R^[a,b] . R^[c,d] -> R^[a+c, b+d]
    match (match e1, e2 with
           | .loop x xr, .loop y yr => if x = y then some (RE.loop x (xr.addN yr)) else none
           | _, _ => none) with
    | some r => some r
    | none =>
    -- R . R -> R^2
    if e1 = e2 then some (.loop e1 (LoopRange.point 2)) else none

/-- arm 10: `S . Σ* --> Σ*` if S is nullable, else the plain node -/
def concatBase (e1 e2 : RE) : RE :=
  if e1.nullable && e2 = sigmaStar then e2 else .concat e1 e2

/-- `ReManager::concat` -/
def mkConcat : RE → RE → RE
  | .concat x y, e2 =>
    match concatPre (.concat x y) e2 with
    | some r => r
    | none => mkConcat x (mkConcat y e2)            -- (R . S) . T -> R . (S . T)
  | e1, e2 =>
    match concatPre e1 e2 with
    | some r => r
    | none => concatBase e1 e2

/-- `ReManager::concat_list`: flatten all, then fold from the right starting with epsilon -/
def concatList (a : List RE) : RE :=
  (a.flatMap flattenConcat).foldr mkConcat .epsilon

/-- `ReManager::mk_loop` (current tree: `Empty` with lower bound 0 gives epsilon) -/
def mkLoop (e : RE) (range : LoopRange) : RE :=
  if range.isZero then .epsilon
  else if range.isOne then e
  else
    match e with
    | .empty => if range.start == 0 then .epsilon else .empty
    | .epsilon => .epsilon
    | .loop x xr =>
      if xr.rightMulIsExactN range then .loop x (xr.mulN range) else .loop e range
    | _ => .loop e range

def star (e : RE) : RE := mkLoop e LoopRange.star
def plus (e : RE) : RE := mkLoop e LoopRange.plus
def opt (e : RE) : RE := mkLoop e LoopRange.opt
def exp (e : RE) (k : Nat) : RE := mkLoop e (LoopRange.point k)
def smtLoop (e : RE) (i j : Nat) : RE := if i ≤ j then mkLoop e (LoopRange.finite i j) else .empty

def charSet (s : CharSet) : RE := .range s
/-- `ReManager::char`: asserts `x <= MAX_CHAR` (`none` = panic) -/
def char? (x : Nat) : Option RE := if x ≤ MAX_CHAR then some (.range (CharSet.singleton x)) else none
/-- `ReManager::range`: asserts `start <= end && end <= MAX_CHAR` -/
def range? (a b : Nat) : Option RE :=
  if a ≤ b && b ≤ MAX_CHAR then some (.range (CharSet.range a b)) else none
/-- `ReManager::smt_range` -/
def smtRange (s1 s2 : List Nat) : RE :=
  match s1, s2 with
  | [c1], [c2] => if c1 ≤ c2 then .range (CharSet.range c1 c2) else .empty
  | _, _ => .empty
/-- `ReManager::str`: fold from the right; panics (none) on a character > MAX_CHAR -/
def str? : List Nat → Option RE
  | [] => some .epsilon
  | c :: rest => do
    let re ← str? rest
    let ch ← char? c
    pure (mkConcat ch re)

mutual
/-- a loop bound somewhere in the term exceeds u32::MAX (the Rust would have panicked building it) -/
def overflowed : RE → Bool
  | .empty | .epsilon | .range _ => false
  | .concat a b => a.overflowed || b.overflowed
  | .loop e r => e.overflowed || r.tooBig
  | .compl e => e.overflowed
  | .union l | .inter l => overflowedList l
def overflowedList : List RE → Bool
  | [] => false
  | x :: xs => x.overflowed || overflowedList xs
end

end RE
end Smt
