/-
  Model of the incomplete inclusion test `sub_language` / `RE::included_in`
  (src/regular_expressions.rs:617-952): base patterns, rigid matching (forward and reverse),
  flexible regions, `concat_inclusion`, and the case analysis of `sub_language`.

  Slices are lists; indices are naturals; a Rust slice access that would be out of bounds is
  `none`/`false` at the same place (never reached under the callers' guards).
-/
import SmtModel.Model.Re

namespace Smt
namespace RE

structure BasePattern where
  start : Nat
  stop : Nat            -- `end`
  isRigid : Bool
  startMatch : Nat := 0
  stopMatch : Nat := 0  -- `end_match`
deriving Repr, DecidableEq

namespace BasePattern
def len (p : BasePattern) : Nat := p.stop - p.start
def setMatch (p : BasePattern) (s e : Nat) : BasePattern := { p with startMatch := s, stopMatch := e }
def make (s e : Nat) (rigid : Bool) : BasePattern := { start := s, stop := e, isRigid := rigid }
end BasePattern

/-- the loop of `base_patterns`: `j` = start of the current run, `rigid` its kind, `i` = index of
    the head of the remaining list -/
def basePatternsAux (j : Nat) (rigid : Bool) (i : Nat) : List RE → List BasePattern
  | [] => [BasePattern.make j i rigid]
  | re :: rest =>
    if rigid != re.isRange then
      BasePattern.make j i rigid :: basePatternsAux i re.isRange (i + 1) rest
    else basePatternsAux j rigid (i + 1) rest

/-- `base_patterns` -/
def basePatterns : List RE → List BasePattern
  | [] => []
  | r0 :: rest => basePatternsAux 0 r0.isRange 1 rest

/-- `rigid_match_at(pattern, s, i)` applied to `s.drop i` -/
def rigidMatchHere : List CharSet → List RE → Bool
  | [], _ => true
  | _ :: _, [] => false      -- out of bounds in the Rust (excluded by the callers' length guards)
  | p :: ps, x :: xs => x.matchCharSet p && rigidMatchHere ps xs

def rigidMatchAt (pattern : List CharSet) (s : List RE) (i : Nat) : Bool :=
  rigidMatchHere pattern (s.drop i)

/-- `for j in i..=(s_len - p_len)`: `n` = number of candidates left -/
def nextRigidMatchAux (pattern : List CharSet) (s : List RE) : Nat → Nat → Option (Nat × Nat)
  | _, 0 => none
  | j, n + 1 =>
    if rigidMatchAt pattern s j then some (j, j + pattern.length)
    else nextRigidMatchAux pattern s (j + 1) n

/-- `next_rigid_match` -/
def nextRigidMatch (pattern : List CharSet) (s : List RE) (i : Nat) : Option (Nat × Nat) :=
  let pLen := pattern.length
  let sLen := s.length
  if sLen ≥ pLen then
    -- j ranges over i ..= sLen - pLen
    nextRigidMatchAux pattern s i (sLen - pLen + 1 - i)
  else none

/-- `for j in (p_len..=i).rev()`: `j` counts down from `i` to `p_len` -/
def prevRigidMatchAux (pattern : List CharSet) (s : List RE) (pLen : Nat) : Nat → Option (Nat × Nat)
  | 0 =>
    if 0 < pLen then none
    else if rigidMatchAt pattern s 0 then some (0, 0) else none
  | j + 1 =>
    if j + 1 < pLen then none
    else if rigidMatchAt pattern s (j + 1 - pLen) then some (j + 1 - pLen, j + 1)
    else prevRigidMatchAux pattern s pLen j

/-- `prev_rigid_match` -/
def prevRigidMatch (pattern : List CharSet) (s : List RE) (i : Nat) : Option (Nat × Nat) :=
  prevRigidMatchAux pattern s pattern.length i

/-- `char_sets_of_pattern`: `none` = `unreachable!()` (a non-Range in a rigid pattern) -/
def charSetsOfPattern : List RE → Option (List CharSet)
  | [] => some []
  | .range s :: rest => (charSetsOfPattern rest).map (s :: ·)
  | _ :: _ => none

/-- `&v[p.start..p.end]` -/
def slice (v : List RE) (a b : Nat) : List RE := (v.drop a).take (b - a)

/-- `rigid_prefix_match` -/
def rigidPrefixMatch (u v : List RE) (p : BasePattern) : Bool :=
  if u.length ≥ p.len then
    match charSetsOfPattern (slice v p.start p.stop) with
    | some cs => rigidMatchAt cs u 0
    | none => false
  else false

/-- `rigid_suffix_match` -/
def rigidSuffixMatch (u v : List RE) (p : BasePattern) : Bool :=
  if u.length ≥ p.len then
    match charSetsOfPattern (slice v p.start p.stop) with
    | some cs => rigidMatchAt cs u (u.length - cs.length)
    | none => false
  else false

/-- `find_rigid_matches`: `none` = returned false; `some ps` = true with the patterns updated -/
def findRigidMatches (u v : List RE) : Nat → List BasePattern → Option (List BasePattern)
  | _, [] => some []
  | i, p :: rest =>
    if p.isRigid then
      match charSetsOfPattern (slice v p.start p.stop) with
      | none => none
      | some cs =>
        match nextRigidMatch cs u i with
        | none => none
        | some (j, k) => (findRigidMatches u v k rest).map (p.setMatch j k :: ·)
    else (findRigidMatches u v i rest).map (p :: ·)

/-- `find_rigid_matches_rev` on the reversed pattern list (result also reversed) -/
def findRigidMatchesRevAux (u v : List RE) : Nat → List BasePattern → Option (List BasePattern)
  | _, [] => some []
  | i, p :: rest =>
    if p.isRigid then
      match charSetsOfPattern (slice v p.start p.stop) with
      | none => none
      | some cs =>
        match prevRigidMatch cs u i with
        | none => none
        | some (j, k) => (findRigidMatchesRevAux u v j rest).map (p.setMatch j k :: ·)
    else (findRigidMatchesRevAux u v i rest).map (p :: ·)

def findRigidMatchesRev (u v : List RE) (ps : List BasePattern) : Option (List BasePattern) :=
  (findRigidMatchesRevAux u v u.length ps.reverse).map List.reverse

/-- `set_flexible_regions`: `prevEnd` = `end_match` of the predecessor (0 for the first) -/
def setFlexibleRegions (stringLen : Nat) : Nat → List BasePattern → List BasePattern
  | _, [] => []
  | prevEnd, p :: rest =>
    if p.isRigid then p :: setFlexibleRegions stringLen p.stopMatch rest
    else
      let next := match rest with
        | [] => stringLen
        | q :: _ => q.startMatch
      let p' := p.setMatch prevEnd next
      p' :: setFlexibleRegions stringLen p'.stopMatch rest

/-- `flexible_match`: only Σ* matches -/
def flexibleMatch (_u v : List RE) : Bool :=
  match v with
  | [x] => x.isFull
  | _ => false

/-- `match_flexible_patterns` -/
def matchFlexiblePatterns (u v : List RE) (ps : List BasePattern) : Bool :=
  match ps with
  | [] => u.isEmpty
  | _ =>
    (setFlexibleRegions u.length 0 ps).all fun p =>
      p.isRigid ||
        -- `&u[p.start_match..p.end_match]` panics if start > end (never: Props/C16)
        (decide (p.startMatch ≤ p.stopMatch ∧ p.stopMatch ≤ u.length) &&
          flexibleMatch (slice u p.startMatch p.stopMatch) (slice v p.start p.stop))

/-- `shift_pattern_start` -/
def shiftPatternStart (ps : List BasePattern) (delta : Nat) : List BasePattern :=
  ps.map fun p => { p with start := p.start - delta, stop := p.stop - delta }

/-- `concat_inclusion` -/
def concatInclusion (u v : List RE) : Bool :=
  let p := basePatterns v
  -- a rigid prefix must match
  let step1 : Option (List RE × List RE × List BasePattern) :=
    match p with
    | pat :: rest =>
      if pat.isRigid then
        if rigidPrefixMatch u v pat then
          let len := pat.len
          some (u.drop len, v.drop len, shiftPatternStart rest len)
        else none
      else some (u, v, p)
    | [] => some (u, v, p)
  match step1 with
  | none => false
  | some (u, v, p) =>
    -- a rigid suffix must match
    let step2 : Option (List RE × List RE × List BasePattern) :=
      match p.getLast? with
      | some pat =>
        if pat.isRigid then
          if rigidSuffixMatch u v pat then
            let len := pat.len
            some (u.take (u.length - len), v.take (v.length - len), p.dropLast)
          else none
        else some (u, v, p)
      | none => some (u, v, p)
    match step2 with
    | none => false
    | some (u, v, p) =>
      (match findRigidMatches u v 0 p with
        | some p' => matchFlexiblePatterns u v p'
        | none => false) ||
      (match findRigidMatchesRev u v p with
        | some p' => matchFlexiblePatterns u v p'
        | none => false)

/-- `sub_language` -/
def subLanguage (r s : RE) : Bool :=
  if r = s then true
  else
    match _hr : r, _hs : s with
    | .empty, _ => true
    | _, .empty => false
    | .epsilon, _ => s.nullable
    | _, .epsilon => false
    | .compl r1, .compl s2 => subLanguage s2 r1
    | _, .union list => r.concatOrAtomic && list.attach.any (fun ⟨x, _⟩ => subLanguage r x)
    | .inter list, _ => s.concatOrAtomic && list.attach.any (fun ⟨x, _⟩ => subLanguage x s)
    | .union list, _ => s.concatOrAtomic && list.attach.all (fun ⟨x, _⟩ => subLanguage x s)
    | _, .inter list => r.concatOrAtomic && list.attach.all (fun ⟨x, _⟩ => subLanguage r x)
    | _, _ => concatInclusion (decomposeConcat r) (decomposeConcat s)
termination_by sizeOf r + sizeOf s
decreasing_by
  all_goals simp_wf
  all_goals subst_vars
  all_goals (try simp)
  all_goals (try have := List.sizeOf_lt_of_mem ‹_ ∈ _›)
  all_goals omega

/-- `RE::included_in` -/
def includedIn (r s : RE) : Bool := subLanguage r s

end RE
end Smt
