/-
  The STATEFUL manager model (Model/Manager.lean), part 2: every remaining operation of
  `ReManager` that allocates — each one is a function `Mgr → args → Mgr × result` that threads the
  state (term table + derivative cache) through every derivative call IN THE ORDER OF THE RUST,
  because that order determines which id every new term gets.

    class_derivative(_unchecked), set_derivative(_unchecked)   src/regular_expressions.rs:2007-2078
    iter_derivatives (DerivativeIterator::next)                :2147, :2378-2392
    is_empty_re                                                :2199
    get_string_path / get_string                               :2215-2263
    start_char / start_class                                   :1905-1934
    compile_with_bound / compile / try_compile                 :2269-2360
    naive_re_search                                            src/matcher.rs:57-89
    str_replace_re / str_replace_re_all                        src/smt_regular_expressions.rs:380-423

  The pure (tree-level, id-oracle) counterparts are Model/Deriv.lean, Model/Closure.lean,
  Model/Compile.lean and Model/ReplaceRe.lean; Props/C07RefineOps.lean proves that every function
  below refines its pure counterpart under the id assignment of every later state.

  Conventions (as in Model/Manager.lean and Model/Closure.lean)
  * a `RegLan` is an id; `BfsQueue<RegLan>` / `LabeledQueue<RegLan, ClassId>` hash and compare
    terms by pointer = by id, so the queues below are lists of ids;
  * searches take fuel and return `Res.outOfFuel` when it runs out; a Rust panic is `Res.panic`
    (or `none` for the `Option`-valued derivative entry points) and the state returned with it is
    the state at the moment of the panic (what a `catch_unwind` caller would see);
  * the builder of `compile_with_bound` is keyed by the index of a term in the BFS discovery list,
    as in Model/Compile.lean.

  Core Lean only (linked into `smtdriver`).
-/
import SmtModel.Model.Manager
import SmtModel.Model.Compile
import SmtModel.Model.ReplaceRe

namespace Smt

namespace RE

/-- functorial action on the value of a search result -/
def Res.map {α β : Type} (f : α → β) : Res α → Res β
  | .ok a => .ok (f a)
  | .panic => .panic
  | .outOfFuel => .outOfFuel

end RE

namespace Mgr
open RE (Res)

/-! ### derivative entry points -/

/-- `class_derivative_unchecked(e, cid)`: `cached_deriv(e, cid)`; `none` = `pick_class_rep` panics -/
def classDerivativeUncheckedM (m : Mgr) (e : Nat) (cid : ClassId) : Option (Mgr × Nat) :=
  m.cachedDerivM e cid

/-- `class_derivative(e, cid)`: the validity check, then `cached_deriv` -/
def classDerivativeM (m : Mgr) (e : Nat) (cid : ClassId) : Option (Mgr × Except Err Nat) :=
  if (m.derivClass e).validClassId cid then
    (m.cachedDerivM e cid).map fun r => (r.1, .ok r.2)
  else some (m, .error .BadClassId)

/-- `set_derivative(e, c)`: `let cid = e.class_of_set(c)?; Ok(self.cached_deriv(e, cid))` -/
def setDerivativeM (m : Mgr) (e : Nat) (c : CharSet) : Option (Mgr × Except Err Nat) :=
  match (m.derivClass e).classOfSet c with
  | .error err => some (m, .error err)
  | .ok cid => (m.cachedDerivM e cid).map fun r => (r.1, .ok r.2)

/-- `set_derivative_unchecked(e, c)`: `none` = the `unwrap` or `pick_class_rep` panics -/
def setDerivativeUncheckedM (m : Mgr) (e : Nat) (c : CharSet) : Option (Mgr × Nat) :=
  match (m.derivClass e).classOfSet c with
  | .error _ => none
  | .ok cid => m.cachedDerivM e cid

/-! ### `DerivativeIterator`, `is_empty_re` -/

/-- `BfsQueue::push` on ids -/
def bfsPushI (all : List Nat) (x : Nat) : List Nat := if all.contains x then all else all ++ [x]

/-- `for cid in r.class_ids() { let d = self.class_derivative_unchecked(r, cid); … }`:
    the derivatives of `e` w.r.t. the class ids `cids`, computed left to right through the cache;
    second component `none` = a `pick_class_rep` panic (state at that moment) -/
def classDerivsAux (e : Nat) : Mgr → List ClassId → Mgr × Option (List (ClassId × Nat))
  | m, [] => (m, some [])
  | m, cid :: rest =>
    match m.cachedDerivM e cid with
    | none => (m, none)
    | some r1 =>
      let r2 := classDerivsAux e r1.1 rest
      (r2.1, r2.2.map fun ds => (cid, r1.2) :: ds)

/-- all class derivatives of `e`, in `class_ids()` order -/
def classDerivsM (m : Mgr) (e : Nat) : Mgr × Option (List (ClassId × Nat)) :=
  classDerivsAux e m (m.derivClass e).classIds

/-- `DerivativeIterator` run to exhaustion: `next()` pops `r`, computes ALL class derivatives of
    `r` (pushing each) and then yields `r` -/
def iterLoopM : Nat → Mgr → List Nat → Nat → Mgr × Res (List Nat)
  | 0, m, _, _ => (m, .outOfFuel)
  | fuel + 1, m, all, i =>
    match all[i]? with
    | none => (m, .ok all)
    | some r =>
      match m.classDerivsM r with
      | (m1, none) => (m1, .panic)
      | (m1, some ds) => iterLoopM fuel m1 (ds.foldl (fun a d => bfsPushI a d.2) all) (i + 1)

/-- `iter_derivatives(e)` collected -/
def iterDerivativesM (fuel : Nat) (m : Mgr) (e : Nat) : Mgr × Res (List Nat) :=
  iterLoopM fuel m [e] 0

/-- `is_empty_re`: `all(|x| !x.nullable)` stops at the first nullable term — AFTER `next()` has
    computed the derivatives of that term -/
def isEmptyLoopM : Nat → Mgr → List Nat → Nat → Mgr × Res Bool
  | 0, m, _, _ => (m, .outOfFuel)
  | fuel + 1, m, all, i =>
    match all[i]? with
    | none => (m, .ok true)
    | some r =>
      match m.classDerivsM r with
      | (m1, none) => (m1, .panic)
      | (m1, some ds) =>
        if m.nullable r then (m1, .ok false)
        else isEmptyLoopM fuel m1 (ds.foldl (fun a d => bfsPushI a d.2) all) (i + 1)

def isEmptyReM (fuel : Nat) (m : Mgr) (e : Nat) : Mgr × Res Bool := isEmptyLoopM fuel m [e] 0

/-! ### `LabeledQueue<RegLan, ClassId>` on ids, `get_string_path`, `get_string` -/

/-- one entry of `LabeledQueue.map`, in insertion order -/
structure LqEntryI where
  node : Nat
  edge : Option (ClassId × Nat)
deriving Repr

def lqFindI (q : List LqEntryI) (x : Nat) : Option LqEntryI := q.find? (fun e => e.node = x)

/-- `LabeledQueue::push(pre, label, suc)` -/
def lqPushI (q : List LqEntryI) (pre : Nat) (label : ClassId) (suc : Nat) : List LqEntryI :=
  match lqFindI q suc with
  | some _ => q
  | none => q ++ [⟨suc, some (label, pre)⟩]

/-- `EdgeIterator` collected (destination first) -/
def lqWalkI (q : List LqEntryI) : Nat → Option (ClassId × Nat) → Option (List (Nat × ClassId))
  | _, none => some []
  | 0, some _ => none
  | fuel + 1, some (label, node) =>
    match lqFindI q node with
    | none => none
    | some e => (lqWalkI q fuel e.edge).map ((node, label) :: ·)

/-- `full_path(destination)` -/
def lqFullPathI (q : List LqEntryI) (dest : Nat) : Option (List (Nat × ClassId)) :=
  match lqFindI q dest with
  | none => none
  | some e => (lqWalkI q (q.length + 1) e.edge).map List.reverse

/-- `get_string_path`: pop `r`; if nullable return the path, else compute all class derivatives
    of `r` in `class_ids()` order and push them -/
def pathLoopM : Nat → Mgr → List LqEntryI → Nat → Mgr × Res (Option (List (Nat × ClassId)))
  | 0, m, _, _ => (m, .outOfFuel)
  | fuel + 1, m, q, i =>
    match q[i]? with
    | none => (m, .ok none)
    | some ent =>
      let r := ent.node
      if m.nullable r then
        match lqFullPathI q r with
        | some p => (m, .ok (some p))
        | none => (m, .panic)
      else
        match m.classDerivsM r with
        | (m1, none) => (m1, .panic)
        | (m1, some ds) => pathLoopM fuel m1 (ds.foldl (fun a d => lqPushI a r d.1 d.2) q) (i + 1)

def getStringPathM (fuel : Nat) (m : Mgr) (e : Nat) : Mgr × Res (Option (List (Nat × ClassId))) :=
  pathLoopM fuel m [⟨e, none⟩] 0

/-- `path.iter().map(|(re, cid)| re.pick_class_rep(*cid))` -/
def pathPicks (m : Mgr) : List (Nat × ClassId) → Option (List Nat)
  | [] => some []
  | (re, cid) :: rest =>
    match (m.derivClass re).pickInClass cid with
    | none => none
    | some c => (pathPicks m rest).map (c :: ·)

/-- `get_string` -/
def getStringM (fuel : Nat) (m : Mgr) (e : Nat) : Mgr × Res (Option (List Nat)) :=
  match m.getStringPathM fuel e with
  | (m1, .outOfFuel) => (m1, .outOfFuel)
  | (m1, .panic) => (m1, .panic)
  | (m1, .ok none) => (m1, .ok none)
  | (m1, .ok (some path)) =>
    match m1.pathPicks path with
    | some s => (m1, .ok (some s))
    | none => (m1, .panic)

/-! ### `start_char`, `start_class` -/

/-- `args.iter().any(|x| f(x))`, left to right, stopping at the first `true` -/
def anyWith (f : Mgr → Nat → Mgr × Res Bool) : Mgr → List Nat → Mgr × Res Bool
  | m, [] => (m, .ok false)
  | m, x :: xs =>
    match f m x with
    | (m1, .ok true) => (m1, .ok true)
    | (m1, .ok false) => anyWith f m1 xs
    | (m1, .panic) => (m1, .panic)
    | (m1, .outOfFuel) => (m1, .outOfFuel)

/-- the expensive case of `start_char`: `let d = self.deriv(e, c); !self.is_empty_re(d)` -/
def startViaDerivM (fuel : Nat) (m : Mgr) (e c : Nat) : Mgr × Res Bool :=
  let r1 := m.derivM e c
  match r1.1.isEmptyReM fuel r1.2 with
  | (m2, .ok b) => (m2, .ok (!b))
  | (m2, .panic) => (m2, .panic)
  | (m2, .outOfFuel) => (m2, .outOfFuel)

/-- `start_char(e, c)`; first argument: fuel of the emptiness searches, second: structural fuel
    (`e + 1`, child ids are smaller) -/
def startCharF (fuel : Nat) : Nat → Mgr → Nat → Nat → Mgr × Res Bool
  | 0, m, _, _ => (m, .panic)                                  -- unreachable
  | k + 1, m, e, c =>
    match m.expr e with
    | none => (m, .panic)                                     -- not a term of this manager
    | some .empty => (m, .ok false)
    | some .epsilon => (m, .ok false)
    | some (.range a b) => (m, .ok ((CharSet.mk a b).contains c))
    | some (.loop e1 _ _) => startCharF fuel k m e1 c
    | some (.union l) => anyWith (fun m' x => startCharF fuel k m' x c) m l
    | some _ => m.startViaDerivM fuel e c                     -- Concat | Inter | Complement

def startCharM (fuel : Nat) (m : Mgr) (e c : Nat) : Mgr × Res Bool := startCharF fuel (e + 1) m e c

/-- `start_class` -/
def startClassM (fuel : Nat) (m : Mgr) (e : Nat) (cid : ClassId) : Mgr × Res (Except Err Bool) :=
  if (m.derivClass e).validClassId cid then
    match (m.derivClass e).pickInClass cid with
    | none => (m, .panic)
    | some c =>
      match m.startCharM fuel e c with
      | (m1, .ok b) => (m1, .ok (.ok b))
      | (m1, .panic) => (m1, .panic)
      | (m1, .outOfFuel) => (m1, .outOfFuel)
  else (m, .ok (.error .BadClassId))

/-! ### `compile_with_bound`, `compile`, `try_compile` -/

/-- index of a term in the discovery list -/
def idxOfI (all : List Nat) (x : Nat) : Nat := all.findIdx (· = x)

/-- the `for set in e.char_ranges()` loop -/
def compileRangesM (r kr : Nat) :
    Mgr → List CharSet → List Nat → Builder → Mgr × Option (List Nat × Builder)
  | m, [], all, b => (m, some (all, b))
  | m, set :: rest, all, b =>
    match m.setDerivativeUncheckedM r set with
    | none => (m, none)
    | some r1 =>
      let all := bfsPushI all r1.2
      compileRangesM r kr r1.1 rest all (b.addTransition kr set (idxOfI all r1.2))

/-- the `if !e.empty_complement()` step -/
def compileDefaultM (m : Mgr) (r i : Nat) (all : List Nat) (b : Builder) :
    Mgr × Option (List Nat × Builder) :=
  if !(m.derivClass r).emptyComplement then
    match m.classDerivativeUncheckedM r .complement with
    | none => (m, none)
    | some r1 =>
      let all := bfsPushI all r1.2
      (r1.1, some (all, b.setDefaultSuccessor i (idxOfI all r1.2)))
  else (m, some (all, b))

/-- the `while let Some(e) = queue.pop()` loop -/
def compileLoopM (maxStates : Nat) :
    Nat → Mgr → List Nat → Nat → Builder → Mgr × Res (Option Builder)
  | 0, m, _, _, _ => (m, .outOfFuel)
  | fuel + 1, m, all, i, b =>
    match all[i]? with
    | none => (m, .ok (some b))
    | some r =>
      if i == maxStates then (m, .ok none)
      else
        match compileRangesM r i m (m.derivClass r).list all b with
        | (m1, none) => (m1, .panic)
        | (m1, some (all1, b1)) =>
          match m1.compileDefaultM r i all1 b1 with
          | (m2, none) => (m2, .panic)
          | (m2, some (all2, b2)) =>
            let b3 := if m.nullable r then b2.markFinal i else b2
            compileLoopM maxStates fuel m2 all2 (i + 1) b3

/-- `compile_with_bound(e, max_states)` -/
def compileWithBoundM (fuel : Nat) (m : Mgr) (e : Nat) (maxStates : Nat) :
    Mgr × Res (Option Automaton) :=
  if maxStates == 0 then (m, .ok none)
  else
    match compileLoopM maxStates fuel m [e] 0 (Builder.new 0) with
    | (m1, .outOfFuel) => (m1, .outOfFuel)
    | (m1, .panic) => (m1, .panic)
    | (m1, .ok none) => (m1, .ok none)
    | (m1, .ok (some b)) =>
      match b.buildUnchecked with
      | none => (m1, .panic)
      | some A => (m1, .ok (some A))

/-- `try_compile` -/
def tryCompileM (fuel : Nat) (m : Mgr) (e : Nat) (maxStates : Nat) : Mgr × Res (Option Automaton) :=
  m.compileWithBoundM fuel e maxStates

/-- `compile`: `compile_with_bound(e, usize::MAX).unwrap()` (bound larger than the fuel) -/
def compileM (fuel : Nat) (m : Mgr) (e : Nat) : Mgr × Res Automaton :=
  match m.compileWithBoundM fuel e (fuel + 1) with
  | (m1, .ok (some A)) => (m1, .ok A)
  | (m1, .ok none) => (m1, .panic)
  | (m1, .panic) => (m1, .panic)
  | (m1, .outOfFuel) => (m1, .outOfFuel)

/-! ### `naive_re_search`, `str_replace_re`, `str_replace_re_all` -/

/-- `p.is_empty()`: `matches!(self.expr, BaseRegLan::Empty)` -/
def isEmptySyn (m : Mgr) (e : Nat) : Bool :=
  match m.expr e with
  | some .empty => true
  | _ => false

/-- inner loop of `naive_re_search` -/
def matchFromM : Mgr → Nat → List Nat → Nat → Mgr × Option Nat
  | m, _, [], _ => (m, none)
  | m, p, c :: rest, n =>
    let r1 := m.charDerivativeM p c
    if r1.1.nullable r1.2 then (r1.1, some (n + 1))
    else if r1.1.isEmptySyn r1.2 then (r1.1, none)
    else matchFromM r1.1 r1.2 rest (n + 1)

/-- outer loop -/
def searchFromM (pattern : Nat) : Mgr → List Nat → Nat → Mgr × Option (Nat × Nat)
  | m, [], _ => (m, none)
  | m, c :: rest, i =>
    match m.matchFromM pattern (c :: rest) 0 with
    | (m1, some len) => (m1, some (i, i + len))
    | (m1, none) => searchFromM pattern m1 rest (i + 1)

/-- `naive_re_search(manager, pattern, string, k, allow_empty)` -/
def naiveReSearchM (m : Mgr) (pattern : Nat) (s : List Nat) (k : Nat) (allowEmpty : Bool) :
    Mgr × Option (Nat × Nat) :=
  if allowEmpty && m.nullable pattern then (m, some (k, k))
  else searchFromM pattern m (s.drop k) k

/-- `str_replace_re` (on the manager the wrapper uses) -/
def strReplaceReM (m : Mgr) (s1 : List Nat) (r : Nat) (s2 : List Nat) : Mgr × List Nat :=
  match m.naiveReSearchM r s1 0 true with
  | (m1, none) => (m1, s1)
  | (m1, some (i, j)) => (m1, s1.take i ++ s2 ++ s1.drop j)

/-- the `while let Found(j, k)` loop of `str_replace_re_all` -/
def replaceAllLoopM (r : Nat) (s1 s2 : List Nat) : Nat → Mgr → Nat → List Nat → Mgr × Option (List Nat)
  | 0, m, _, _ => (m, none)
  | fuel + 1, m, i, x =>
    match m.naiveReSearchM r s1 i false with
    | (m1, some (j, k)) => replaceAllLoopM r s1 s2 fuel m1 k (x ++ (s1.drop i).take (j - i) ++ s2)
    | (m1, none) => (m1, some (x ++ s1.drop i))

/-- `str_replace_re_all`; `none` = out of fuel (never) -/
def strReplaceReAllM (m : Mgr) (s1 : List Nat) (r : Nat) (s2 : List Nat) : Mgr × Option (List Nat) :=
  replaceAllLoopM r s1 s2 (s1.length + 2) m 0 []

end Mgr
end Smt
