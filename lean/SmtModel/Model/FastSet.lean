/-
  Model of `fast_sets.rs` (FastSet, FastSetIterator), function by function (C04: used by
  `Minimizer::refine_with_splitter`).

  Conventions
  * `u32`/`usize` are `Nat`; the two boxed slices `pos`, `elem` are `List Nat`, exactly as written
    (both zero-initialised with `max` cells, `size` = number of live cells of `elem`).
  * `none` = the real code panics at that site: an index out of bounds, and — the family runs in the
    dev profile — `debug_assert!(x < self.max)`.  (`self.size += 1` cannot overflow before
    `elem[s]` is out of bounds; `s -= 1` in `remove` is guarded by `i < s`.)
  * `&&` / `||` short-circuit as in the Rust: `elem[i]` is only read when `i < size`.
  * `iter()` is modelled by the list of values the iterator yields (`elem[0..size)`), `none` if an
    index is out of bounds while iterating.
-/
import SmtModel.Model.Basic

namespace Smt

structure FastSet where
  max : Nat
  size : Nat
  pos : List Nat
  elem : List Nat
deriving DecidableEq, Repr

namespace FastSet

/-- `FastSet::new(max)` -/
def new (max : Nat) : FastSet :=
  { max := max, size := 0, pos := List.replicate max 0, elem := List.replicate max 0 }

/-- `card()` -/
def card (s : FastSet) : Nat := s.size

/-- `contains(x)`: `i < self.size && self.elem[i] == x` with `i = self.pos[x]` -/
def contains (s : FastSet) (x : Nat) : Option Bool :=
  if ¬ x < s.max then none                          -- debug_assert!(x < self.max)
  else
    match s.pos[x]? with
    | none => none                                  -- self.pos[x]
    | some i =>
      if i < s.size then
        match s.elem[i]? with
        | none => none                              -- self.elem[i]
        | some y => some (y == x)
      else some false

/-- `insert(x)` -/
def insert (s : FastSet) (x : Nat) : Option FastSet :=
  if ¬ x < s.max then none                          -- debug_assert!(x < self.max)
  else
    match s.pos[x]? with
    | none => none                                  -- self.pos[x]
    | some i =>
      let sz := s.size
      -- `i >= s || self.elem[i] != x`
      let absent : Option Bool :=
        if i ≥ sz then some true
        else
          match s.elem[i]? with
          | none => none                            -- self.elem[i]
          | some y => some (y != x)
      match absent with
      | none => none
      | some false => some s
      | some true =>
        -- self.pos[x] = s  (in bounds: it was just read);  self.elem[s] = x;  self.size += 1
        if sz < s.elem.length then
          some { s with pos := s.pos.set x sz, elem := s.elem.set sz x, size := sz + 1 }
        else none                                   -- self.elem[s]

/-- `remove(x)` -/
def remove (s : FastSet) (x : Nat) : Option FastSet :=
  if ¬ x < s.max then none                          -- debug_assert!(x < self.max)
  else
    match s.pos[x]? with
    | none => none                                  -- self.pos[x]
    | some i =>
      let sz := s.size
      -- `i < s && self.elem[i] == x`
      let present : Option Bool :=
        if i < sz then
          match s.elem[i]? with
          | none => none                            -- self.elem[i]
          | some y => some (y == x)
        else some false
      match present with
      | none => none
      | some false => some s
      | some true =>
        let sz' := sz - 1                           -- `s -= 1` (no underflow: `i < s`)
        match s.elem[sz']? with
        | none => none                              -- self.elem[s]
        | some y =>
          if y < s.pos.length then                  -- self.pos[y] = i
            -- self.elem[i] = y  (in bounds: it was just read);  self.size = s
            some { s with pos := s.pos.set y i, elem := s.elem.set i y, size := sz' }
          else none

/-- `reset()` -/
def reset (s : FastSet) : FastSet := { s with size := 0 }

/-- one `next()` of the iterator per index `i < size`: `self.elem[i]` -/
def iterFrom (elem : List Nat) : Nat → Nat → Option (List Nat)
  | 0, _ => some []
  | m + 1, i =>
    match elem[i]? with
    | none => none                                  -- self.elem[i]
    | some x =>
      match iterFrom elem m (i + 1) with
      | none => none
      | some rest => some (x :: rest)

/-- what `iter()` yields, in order -/
def iter (s : FastSet) : Option (List Nat) := iterFrom s.elem s.size 0

end FastSet
end Smt
