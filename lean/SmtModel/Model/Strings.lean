/-
  Model of the SMT-LIB string functions of `src/smt_strings.rs` (lines 482–991 of the current
  tree) and of `matcher::naive_search` (src/matcher.rs).  C06, C09 (and the string part of C17).

  Conventions (DESIGN.md §6)
  * a string is `List Nat` (code points); `SmtString { s: Vec<u32> }`
  * an `i32` argument is an `Int`; theorems carry `I32_MIN ≤ i ≤ I32_MAX`
  * **every** result is `Option`-valued: `none` = the real code panics at that site.  Panic sites
    modelled: slice indexing `v[i]` (`List.getElem?`), sub-slices `&v[i..j]`, `&v[i..]`, `&v[..i]`,
    `get(i..j).unwrap()` (`slice?`), `SmtString::make` (length > `MAX_LENGTH`), the explicit
    `panic!` of `str_to_int`.  The theorems of Props/C06, C09 show that only the *documented*
    panics (`make`, `str_to_int` overflow) can ever happen.
  * `as` casts are explicit functions (`usizeAsI32`, `i32AsUsize`, `u32AsI32`, `i32AsU32`).
  * `usize` is 64 bit; additions of two values below 2^32 in `usize` cannot overflow and are plain
    `Nat` additions (`i + n` in `str_substr`, `i + p_len`, `i + j` in `naive_search`).
  * The four index loops `while i < bound && v[i] == w[i + off] { i += 1 }` of `vector_lt/le`
    (off = 0, bound = min), `vector_prefix` (off = 0, bound = v.len), `vector_suffix` (off = m − n)
    and the inner loop of `naive_search` (off = outer index) are the one function `cmpLoop`,
    instantiated at each call site with the Rust's own bound and offset.

  `str_to_int` in the current tree (after `fix: 9c9009b`) uses `checked_mul/checked_add`, whose
  result does not depend on the build profile.  The only profile-dependent operator left in it is
  the subtraction `d as i32 - '0' as i32`; the model keeps the `Profile` parameter for that site and
  Props/C09 proves that the result is the same for both profiles.

  Core Lean only: linked into `smtdriver`.
-/
import SmtModel.Model.Basic

namespace Smt.Str

/-! ### machine integers -/

/-- build profile: `checked` = dev (overflow checks on), `wrapping` = release -/
inductive Profile where
  | checked
  | wrapping
deriving DecidableEq, Repr

def inI32 (x : Int) : Bool := decide (I32_MIN ≤ x) && decide (x ≤ I32_MAX)

/-- two's complement wrap of a mathematical integer into i32 -/
def wrapI32 (x : Int) : Int := (x + 2147483648) % 4294967296 - 2147483648

/-- `+`, `-`, `*` on i32 written with the plain operators: panics in `checked`, wraps in `wrapping` -/
def arithI32 (p : Profile) (x : Int) : Option Int :=
  if inI32 x then some x
  else match p with
    | .checked => none
    | .wrapping => some (wrapI32 x)

/-- `i32::checked_mul`, `i32::checked_add`: `none` = `None` (not a panic by itself) -/
def checkedI32 (x : Int) : Option Int := if inI32 x then some x else none

/-- `n as i32` for `n : usize` (truncation to the low 32 bits, two's complement) -/
def usizeAsI32 (n : Nat) : Int := wrapI32 (Int.ofNat (n % 4294967296))

/-- `c as i32` for `c : u32` -/
def u32AsI32 (c : Nat) : Int := wrapI32 (Int.ofNat c)

/-- `i as usize` for `i : i32` (sign extension to 64 bits) -/
def i32AsUsize (i : Int) : Nat := if 0 ≤ i then i.toNat else (18446744073709551616 + i).toNat

/-- `x as u32` for `x : i32` -/
def i32AsU32 (x : Int) : Nat := if 0 ≤ x then x.toNat else (4294967296 + x).toNat

/-! ### `SmtString` constructors -/

/-- `SmtString::make`: panics if the length exceeds `MAX_LENGTH = i32::MAX` -/
def make (a : List Nat) : Option (List Nat) :=
  if a.length > 2147483647 then none else some a

/-- `SmtString::make_from_slice` -/
def makeFromSlice (a : List Nat) : Option (List Nat) := make a

/-- `impl From<u32> for SmtString` -/
def fromU32 (x : Nat) : Option (List Nat) :=
  let x := if x ≤ MAX_CHAR then x else REPLACEMENT_CHAR
  make [x]

/-- `impl From<&str> for SmtString` applied to a `String` whose chars have the given code points -/
def fromStr (cs : List Nat) : Option (List Nat) :=
  make (cs.map (fun c => if c ≤ MAX_CHAR then c else REPLACEMENT_CHAR))

/-! ### slices -/

/-- `&v[i..j]` and `v.get(i..j).unwrap()`: panic unless `i ≤ j ≤ len` -/
def slice? (v : List Nat) (i j : Nat) : Option (List Nat) :=
  if i ≤ j ∧ j ≤ v.length then some ((v.drop i).take (j - i)) else none

/-- `&v[i..]` -/
def sliceFrom? (v : List Nat) (i : Nat) : Option (List Nat) :=
  if i ≤ v.length then some (v.drop i) else none

/-- `&v[..i]` -/
def sliceTo? (v : List Nat) (i : Nat) : Option (List Nat) :=
  if i ≤ v.length then some (v.take i) else none

/-! ### the index loop -/

/-- `while i < bound && v[i] == w[i + off] { i += 1 }`; returns the final `i`
    (`none` = an index was out of bounds) -/
def cmpLoop (v w : List Nat) (off bound i : Nat) : Option Nat :=
  if i < bound then
    match v[i]?, w[i + off]? with
    | some a, some b => if a = b then cmpLoop v w off bound (i + 1) else some i
    | _, _ => none
  else some i
termination_by bound - i

/-! ### `matcher::naive_search` -/

/-- `matcher::SearchResult` -/
inductive SearchResult where
  | notFound
  | found (i j : Nat)
deriving DecidableEq, Repr

/-- `naive_search(pattern, string, k)`: the outer `while i + p_len <= s_len` loop, started at `i = k` -/
def naiveSearch (pattern string : List Nat) (i : Nat) : Option SearchResult :=
  if i + pattern.length ≤ string.length then
    -- `let mut j = 0; while j < p_len && pattern[j] == string[i + j] { j += 1 }`
    match cmpLoop pattern string i pattern.length 0 with
    | none => none
    | some j =>
      if j = pattern.length then some (.found i (i + pattern.length))
      else naiveSearch pattern string (i + 1)
  else some .notFound
termination_by string.length + 1 - i

/-- `find_sub_vector(v, w, i) = naive_search(v, w, i)` -/
def findSubVector (v w : List Nat) (i : Nat) : Option SearchResult := naiveSearch v w i

/-! ### internal operations on vectors -/

/-- `char_is_digit` -/
def charIsDigit (x : Nat) : Bool := decide (x ≥ 48) && decide (x ≤ 57)

/-- `vector_lt` -/
def vectorLt (v w : List Nat) : Option Bool :=
  let max := min v.length w.length
  match cmpLoop v w 0 max 0 with
  | none => none
  | some i =>
    if i = max then some (decide (v.length < w.length))
    else match v[i]?, w[i]? with
      | some a, some b => some (decide (a < b))
      | _, _ => none

/-- `vector_le` -/
def vectorLe (v w : List Nat) : Option Bool :=
  let max := min v.length w.length
  match cmpLoop v w 0 max 0 with
  | none => none
  | some i =>
    if i = max then some (decide (v.length ≤ w.length))
    else match v[i]?, w[i]? with
      | some a, some b => some (decide (a < b))
      | _, _ => none

/-- `vector_prefix` -/
def vectorPrefix (v w : List Nat) : Option Bool :=
  let n := v.length
  if n ≤ w.length then
    match cmpLoop v w 0 n 0 with
    | none => none
    | some i => some (decide (i = n))
  else some false

/-- `vector_suffix` -/
def vectorSuffix (v w : List Nat) : Option Bool :=
  let n := v.length
  let m := w.length
  if n ≤ m then
    let k := m - n
    match cmpLoop v w k n 0 with
    | none => none
    | some i => some (decide (i = n))
  else some false

/-- `vector_concat` -/
def vectorConcat (v w : List Nat) : List Nat := v ++ w

/-! ### the SMT-LIB functions -/

/-- `str_concat` -/
def strConcat (s1 s2 : List Nat) : Option (List Nat) := make (vectorConcat s1 s2)

/-- `str_len`: `s.len() as i32` -/
def strLen (s : List Nat) : Int := usizeAsI32 s.length

/-- `str_at` -/
def strAt (s : List Nat) (i : Int) : Option (List Nat) :=
  if i < 0 ∨ i ≥ usizeAsI32 s.length then some []
  else match s[i32AsUsize i]? with
    | none => none
    | some c => fromU32 c

/-- `str_substr` -/
def strSubstr (s : List Nat) (i n : Int) : Option (List Nat) :=
  if i < 0 ∨ i ≥ usizeAsI32 s.length ∨ n ≤ 0 then some []
  else
    let i := i32AsUsize i
    let n := i32AsUsize n
    let j := min (i + n) s.length
    match slice? s i j with
    | none => none
    | some x => makeFromSlice x

/-- `str_lt` -/
def strLt (s1 s2 : List Nat) : Option Bool := vectorLt s1 s2
/-- `str_le` -/
def strLe (s1 s2 : List Nat) : Option Bool := vectorLe s1 s2
/-- `str_prefixof` -/
def strPrefixof (s1 s2 : List Nat) : Option Bool := vectorPrefix s1 s2
/-- `str_suffixof` -/
def strSuffixof (s1 s2 : List Nat) : Option Bool := vectorSuffix s1 s2

/-- `str_contains(s1, s2)`: is `s2` a substring of `s1` -/
def strContains (s1 s2 : List Nat) : Option Bool :=
  match findSubVector s2 s1 0 with
  | none => none
  | some .notFound => some false
  | some (.found _ _) => some true

/-- `str_indexof` (current tree: guard `i > len`) -/
def strIndexof (s1 s2 : List Nat) (i : Int) : Option Int :=
  if i < 0 ∨ i > usizeAsI32 s1.length then some (-1)
  else match findSubVector s2 s1 (i32AsUsize i) with
    | none => none
    | some .notFound => some (-1)
    | some (.found k _) => some (usizeAsI32 k)

/-- `str_replace` -/
def strReplace (s p r : List Nat) : Option (List Nat) :=
  match findSubVector p s 0 with
  | none => none
  | some .notFound => makeFromSlice s
  | some (.found i j) =>
    match sliceTo? s i, sliceFrom? s j with
    | some a, some b => make (a ++ r ++ b)
    | _, _ => none

/-- what `naive_search` returns when it finds something (needed for the termination of the
    `while let` loop of `str_replace_all`) -/
theorem naiveSearch_found (p s : List Nat) (i j k : Nat)
    (h : naiveSearch p s i = some (.found j k)) : i ≤ j ∧ k = j + p.length ∧ k ≤ s.length := by
  fun_induction naiveSearch p s i <;> simp_all <;> omega

/-- the loop of `str_replace_all` (pattern non-empty):
    `while let Found(j, k) = find_sub_vector(p, s, i) { x.extend(&s[i..j]); x.extend(r); i = k }`
    then `x.extend(&s[i..]); make(x)`.  Terminates because `k = j + |p| > i`. -/
def replaceAllLoop (s p r : List Nat) (hp : 0 < p.length) (i : Nat) (x : List Nat) :
    Option (List Nat) :=
  match _h : findSubVector p s i with
  | none => none
  | some (.found j k) =>
    match slice? s i j with
    | none => none
    | some seg => replaceAllLoop s p r hp k (x ++ seg ++ r)
  | some .notFound =>
    match sliceFrom? s i with
    | none => none
    | some rest => make (x ++ rest)
termination_by s.length - i
decreasing_by
  have := naiveSearch_found p s i j k _h
  omega

/-- `str_replace_all` -/
def strReplaceAll (s p r : List Nat) : Option (List Nat) :=
  if hp : p.length = 0 then makeFromSlice s
  else replaceAllLoop s p r (Nat.pos_of_ne_zero hp) 0 []

/-- `str_is_digit`: `s.len() == 1 && char_is_digit(s.s[0])` -/
def strIsDigit (s : List Nat) : Option Bool :=
  if s.length = 1 then
    match s[0]? with
    | none => none
    | some c => some (charIsDigit c)
  else some false

/-- `str_to_code` -/
def strToCode (s : List Nat) : Option Int :=
  if s.length = 1 then
    match s[0]? with
    | none => none
    | some c => some (u32AsI32 c)
  else some (-1)

/-- `str_from_code` -/
def strFromCode (x : Int) : Option (List Nat) :=
  if 0 ≤ x ∧ x ≤ u32AsI32 MAX_CHAR then fromU32 (i32AsU32 x) else some []

/-- one iteration of the `for &d in &s.s` loop of `str_to_int`:
    `let digit = d as i32 - '0' as i32;`
    `match x.checked_mul(10).and_then(|y| y.checked_add(digit)) { Some(y) => x = y, None => panic!(..) }`
    `none` = `panic!("Arithmetic overflow in str_to_int")` (or, for the subtraction in the
    `checked` profile, the overflow check).
    (Written with `Option.bind` rather than `match`: Lean's equation generator loops on a `match`
    whose discriminant contains the 2^32 literals of the casts.) -/
def toIntStep (pr : Profile) (x : Int) (d : Nat) : Option Int :=
  (arithI32 pr (u32AsI32 d - 48)).bind fun digit =>
    (checkedI32 (x * 10)).bind fun y => checkedI32 (y + digit)

/-- the `for &d in &s.s` loop of `str_to_int` with accumulator `x` -/
def toIntLoop (pr : Profile) : List Nat → Int → Option Int
  | [], x => some x
  | d :: rest, x => (toIntStep pr x d).bind (fun y => toIntLoop pr rest y)

/-- `str_to_int` (current tree) -/
def strToInt (pr : Profile) (s : List Nat) : Option Int :=
  if s.isEmpty || !(s.all charIsDigit) then some (-1)
  else toIntLoop pr s 0

/-- decimal digits of `n`, most significant first, as code points: what `i32::to_string` yields
    for a non-negative value -/
def decDigits (n : Nat) : List Nat :=
  if n < 10 then [48 + n] else decDigits (n / 10) ++ [48 + n % 10]

/-- `str_from_int` -/
def strFromInt (x : Int) : Option (List Nat) :=
  if x ≥ 0 then fromStr (decDigits x.toNat) else some []

end Smt.Str
