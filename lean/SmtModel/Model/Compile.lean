/-
  `compile_with_bound`, `compile`, `try_compile` (src/regular_expressions.rs:2230-2321): BFS over
  the derivative classes driving an `AutomatonBuilder<BaseRegLan>`.

  Builder keys: the Rust keys the builder by the term's AST; every term is first mentioned to the
  builder at the moment it is first pushed on the BFS queue, so we key the (Nat-keyed) builder model
  by the index of the term in the BFS discovery list `all` — the same numbering.
-/
import SmtModel.Model.Closure
import SmtModel.Model.Automaton

namespace Smt
namespace RE

/-- index of a term in the discovery list (it is always present when asked) -/
def idxOf (all : List RE) (x : RE) : Nat := all.findIdx (· = x)

/-- the `for set in e.char_ranges()` loop -/
def compileRanges (ord : RE → Nat) (r : RE) (kr : Nat) :
    List CharSet → List RE → Builder → Option (List RE × Builder)
  | [], all, b => some (all, b)
  | set :: rest, all, b =>
    match setDerivativeUnchecked ord r set with
    | none => none
    | some d =>
      let all := bfsPush all d
      compileRanges ord r kr rest all (b.addTransition kr set (idxOf all d))

/-- the `while let Some(e) = queue.pop()` loop.  Result: `none` = bound exceeded. -/
def compileLoop (ord : RE → Nat) (maxStates : Nat) :
    Nat → List RE → Nat → Builder → Res (Option Builder)
  | 0, _, _, _ => .outOfFuel
  | fuel + 1, all, i, b =>
    match all[i]? with
    | none => .ok (some b)
    | some r =>
      -- `state_count` = number of terms popped so far = i
      if i == maxStates then .ok none
      else
        match compileRanges ord r i r.derivClass.list all b with
        | none => .panic
        | some (all, b) =>
          let step2 : Option (List RE × Builder) :=
            if !r.derivClass.emptyComplement then
              match classDerivativeUnchecked ord r .complement with
              | none => none
              | some d =>
                let all := bfsPush all d
                some (all, b.setDefaultSuccessor i (idxOf all d))
            else some (all, b)
          match step2 with
          | none => .panic
          | some (all, b) =>
            let b := if r.nullable then b.markFinal i else b
            compileLoop ord maxStates fuel all (i + 1) b

/-- `compile_with_bound(e, max_states)`; inner `none` = `None` (too many states) -/
def compileWithBound (ord : RE → Nat) (fuel : Nat) (e : RE) (maxStates : Nat) : Res (Option Automaton) :=
  if maxStates == 0 then .ok none
  else
    match compileLoop ord maxStates fuel [e] 0 (Builder.new 0) with
    | .outOfFuel => .outOfFuel
    | .panic => .panic
    | .ok none => .ok none
    | .ok (some b) =>
      match b.buildUnchecked with
      | none => .panic
      | some A => .ok (some A)

/-- `try_compile` -/
def tryCompile (ord : RE → Nat) (fuel : Nat) (e : RE) (maxStates : Nat) : Res (Option Automaton) :=
  compileWithBound ord fuel e maxStates

/-- `compile`: `compile_with_bound(e, usize::MAX).unwrap()`; the bound is never reached, so the
    model passes a bound larger than the fuel -/
def compile (ord : RE → Nat) (fuel : Nat) (e : RE) : Res Automaton :=
  match compileWithBound ord fuel e (fuel + 1) with
  | .ok (some A) => .ok A
  | .ok none => .panic
  | .panic => .panic
  | .outOfFuel => .outOfFuel

end RE
end Smt
