/-
  Model of `partitions.rs` (BasePartition, Partition), function by function (C04).

  Conventions
  * `u32`/`usize` values are `Nat`; `Box<[u32]>`/`Vec` are `List`.
  * `none` = the real code panics at that site (index out of bounds, slice range out of bounds,
    `assert!`, and — the family runs in the dev profile — `debug_assert!` and integer underflow).
  * A predicate `P: Fn(u32) -> bool` is modelled as `Nat → Option Bool` (`none` = the closure
    itself panics; this is how `refine_block_with_fun` can fail: `block_ids[f(y)]` out of bounds).
  * `refine_block` works on `slice_mut(i)`: the model extracts the slice, runs the swap loop
    (`for k in 0..s.len()`, structural recursion on the number of remaining iterations) on it and
    writes it back at the same position.
  * `sort_block` (`sort_unstable` on a slice) is used by the crate's unit test only and is not
    modelled.
-/
import SmtModel.Model.Basic

namespace Smt

structure BlockHeader where
  start : Nat
  stop : Nat
deriving DecidableEq, Repr

structure BasePartition where
  size : Nat
  block : List BlockHeader
  segment : List Nat
deriving DecidableEq, Repr

structure Partition where
  base : BasePartition
  blockId : List Nat
deriving DecidableEq, Repr

namespace BasePartition

/-- `BasePartition::new(n)` -/
def new (n : Nat) : BasePartition :=
  { size := n,
    segment := List.range n,
    block := if n = 0 then [⟨0, 0⟩] else [⟨0, 0⟩, ⟨0, n⟩] }

/-- `num_blocks()` -/
def numBlocks (p : BasePartition) : Nat := p.block.length

/-- `index()`: `num_blocks() - 1` (u32 subtraction) -/
def index (p : BasePartition) : Option Nat :=
  if p.numBlocks = 0 then none else some (p.numBlocks - 1)

/-- `size()` (the name `size` is the field) -/
def sizeOf (p : BasePartition) : Nat := p.size

/-- `block_size(i)` -/
def blockSize (p : BasePartition) (i : Nat) : Option Nat :=
  match p.block[i]? with
  | none => none
  | some h => if h.start ≤ h.stop then some (h.stop - h.start) else none

/-- `smaller_block(i, j)` -/
def smallerBlock (p : BasePartition) (i j : Nat) : Option Bool :=
  match p.blockSize i, p.blockSize j with
  | some a, some b => some (a ≤ b)
  | _, _ => none

/-- `slice(i)`: `&self.segment[start..end]` -/
def slice (p : BasePartition) (i : Nat) : Option (List Nat) :=
  match p.block[i]? with
  | none => none
  | some h =>
    if h.start ≤ h.stop ∧ h.stop ≤ p.segment.length then
      some ((p.segment.drop h.start).take (h.stop - h.start))
    else none

/-- `block_elements(i)`, as the list the iterator yields -/
def blockElements (p : BasePartition) (i : Nat) : Option (List Nat) := p.slice i

/-- `pick_element(i)` -/
def pickElement (p : BasePartition) (i : Nat) : Option Nat :=
  if i = 0 then none                       -- assert!(i > 0)
  else
    match p.block[i]? with
    | none => none
    | some h => p.segment[h.start]?

/-- `add_block(start, end)`: the new partition and the id of the new block -/
def addBlock (p : BasePartition) (start stop : Nat) : Option (BasePartition × Nat) :=
  if start < stop ∧ stop ≤ p.size then       -- debug_assert!(start < end && end <= self.size)
    some ({ p with block := p.block ++ [⟨start, stop⟩] }, p.numBlocks)
  else none

/-- `split_block(i, n)` -/
def splitBlock (p : BasePartition) (i n : Nat) : Option (BasePartition × Nat) :=
  match p.block[i]? with
  | none => none
  | some h =>
    let splitPoint := h.start + n
    let endPoint := h.stop
    if splitPoint ≤ endPoint then            -- debug_assert!(split_point <= end_point)
      addBlock { p with block := p.block.set i ⟨h.start, splitPoint⟩ } splitPoint endPoint
    else none

/-- `s.swap(k, j)` on a slice -/
def swap (s : List Nat) (k j : Nat) : Option (List Nat) :=
  match s[k]?, s[j]? with
  | some x, some y => some ((s.set k y).set j x)
  | _, _ => none

/-- the loop `for k in 0..s.len()` of `refine_block`; `m` = number of iterations left.
    Returns the slice and the final `j`. -/
def swapLoop (pr : Nat → Option Bool) : Nat → Nat → Nat → List Nat → Option (List Nat × Nat)
  | 0, _, j, s => some (s, j)
  | m + 1, k, j, s =>
    match s[k]? with
    | none => none
    | some x =>
      match pr x with
      | none => none
      | some true =>
        if j < k then
          match swap s k j with
          | none => none
          | some s' => swapLoop pr m (k + 1) (j + 1) s'
        else swapLoop pr m (k + 1) (j + 1) s
      | some false => swapLoop pr m (k + 1) j s

/-- `refine_block(i, p)` with a predicate that may panic -/
def refineBlockOpt (p : BasePartition) (i : Nat) (pr : Nat → Option Bool) :
    Option (BasePartition × (Nat × Nat)) :=
  match p.block[i]?, p.slice i with
  | some h, some s =>
    match swapLoop pr s.length 0 0 s with
    | none => none
    | some (s', j) =>
      -- the slice is a window of `segment`: write it back
      let p' := { p with segment := p.segment.take h.start ++ s' ++ p.segment.drop h.stop }
      if j = 0 then some (p', (0, i))
      else if j = s.length then some (p', (i, 0))
      else
        match p'.splitBlock i j with
        | none => none
        | some (p'', k) => some (p'', (i, k))
  | _, _ => none

/-- `refine_block(i, p)` -/
def refineBlock (p : BasePartition) (i : Nat) (pr : Nat → Bool) :
    Option (BasePartition × (Nat × Nat)) :=
  p.refineBlockOpt i (fun x => some (pr x))

end BasePartition

namespace Partition

/-- `Partition::new(n)` -/
def new (n : Nat) : Partition := { base := BasePartition.new n, blockId := List.replicate n 1 }

def numBlocks (p : Partition) : Nat := p.base.numBlocks
def index (p : Partition) : Option Nat := p.base.index
def sizeOf (p : Partition) : Nat := p.base.sizeOf
def blockSize (p : Partition) (i : Nat) : Option Nat := p.base.blockSize i
def smallerBlock (p : Partition) (i j : Nat) : Option Bool := p.base.smallerBlock i j
def blockElements (p : Partition) (i : Nat) : Option (List Nat) := p.base.blockElements i
def pickElement (p : Partition) (i : Nat) : Option Nat := p.base.pickElement i

/-- `block_id(x)` -/
def blockIdOf (p : Partition) (x : Nat) : Option Nat := p.blockId[x]?

/-- the loop `for x in self.base.block_elements(b2) { self.block_id[x] = b2 }` -/
def setIds (b2 : Nat) : List Nat → List Nat → Option (List Nat)
  | [], ids => some ids
  | x :: rest, ids => if x < ids.length then setIds b2 rest (ids.set x b2) else none

/-- the common tail of `refine_block` and `refine_block_with_fun` -/
def finishRefine (ids : List Nat) (r : Option (BasePartition × (Nat × Nat))) :
    Option (Partition × (Nat × Nat)) :=
  match r with
  | none => none
  | some (base', (b1, b2)) =>
    if b1 ≠ 0 ∧ b2 ≠ 0 then
      match base'.blockElements b2 with
      | none => none
      | some xs =>
        match setIds b2 xs ids with
        | none => none
        | some ids' => some ({ base := base', blockId := ids' }, (b1, b2))
    else some ({ base := base', blockId := ids }, (b1, b2))

/-- `refine_block(i, p)` -/
def refineBlock (p : Partition) (i : Nat) (pr : Nat → Bool) : Option (Partition × (Nat × Nat)) :=
  finishRefine p.blockId (p.base.refineBlock i pr)

/-- `refine_block_with_fun(i, f, b)`: the predicate is `|y| block_ids[f(y)] == b` -/
def refineBlockWithFun (p : Partition) (i : Nat) (f : Nat → Nat) (b : Nat) :
    Option (Partition × (Nat × Nat)) :=
  finishRefine p.blockId
    (p.base.refineBlockOpt i (fun y => (p.blockId[f y]?).map (fun v => v == b)))

end Partition
end Smt
