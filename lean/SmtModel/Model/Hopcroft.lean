/-
  Model of `minimizer.rs` (Splitter, SplitterItem, CharClassPair, SplitterList, SplitterSet,
  Minimizer), of `StateMapping::from_partition` and of `Automaton::minimize` (`automata.rs`),
  function by function (C04).  Hopcroft's algorithm as written, on top of the faithful models of
  `partitions.rs` (Model/Partition.lean), `fast_sets.rs` (Model/FastSet.lean),
  `compact_tables.rs` (Model/CompactTable.lean) and `automata.rs` (Model/Automaton.lean).

  Conventions
  * `u32`/`usize` are `Nat`; `Vec`/boxed slices are `List`.  The field `class` is spelled `cls`.
  * `none` = the real code panics at that site.  Every such site is marked with the Rust expression
    that panics.  The family runs in the dev profile: `debug_assert!` and integer underflow are
    panics (`(p.block_id(s) - 1)` in `from_partition`).  The only other `none` is exhausted fuel of
    the `while` loop of `refine` (marked OUT OF FUEL).
  * The closures `delta: Fn(u32, u32) -> u32` and `is_final: Fn(u32) -> bool` are modelled as
    `Nat → Nat → Option Nat` and `Nat → Option Bool` (`none` = the closure itself panics, e.g.
    `transition_map.eval(i, j)` / `self.state(i)` out of bounds in `Automaton::minimize`).  They are
    parameters of the functions, not fields of the `Minimizer` record.
  * `Partition::refine_block` / `refine_block_with_fun` called with a closure that may panic:
    `refineBlockP` / `refineBlockWithFunP` below are the definitions of Model/Partition.lean with the
    `Option`-valued predicate passed through (`refineBlockP_total`, `refineBlockWithFunP_total`:
    for a total closure they ARE `Partition.refineBlock` / `Partition.refineBlockWithFun`).
  * `SplitterList::iter()` is modelled by the list of items it yields.  `std::mem::take(l)` leaves
    `SplitterList::default()` in the slot.
  * `refine_and_trace`, `print_splitters` and the `Display` impls only print; they are mirrored in
    the driver (`Driver/FamMinimize.lean`: ops `hopcroft_state`, `hopcroft_trace`), not here.
-/
import SmtModel.Model.Partition
import SmtModel.Model.FastSet
import SmtModel.Model.Automaton

namespace Smt
namespace Hopcroft

/-! ### `Partition::refine_block(_with_fun)` with closures that may panic -/

/-- `Partition::refine_block(i, p)`; `pr x = none`: the closure panics on `x` -/
def refineBlockP (p : Partition) (i : Nat) (pr : Nat → Option Bool) :
    Option (Partition × (Nat × Nat)) :=
  Partition.finishRefine p.blockId (p.base.refineBlockOpt i pr)

/-- `Partition::refine_block_with_fun(i, f, b)`: predicate `|y| block_ids[f(y)] == b` -/
def refineBlockWithFunP (p : Partition) (i : Nat) (f : Nat → Option Nat) (b : Nat) :
    Option (Partition × (Nat × Nat)) :=
  Partition.finishRefine p.blockId
    (p.base.refineBlockOpt i (fun y =>
      match f y with
      | none => none                                       -- f(y) panics
      | some t => (p.blockId[t]?).map (fun v => v == b)))  -- block_ids[f(y)]

theorem refineBlockP_total (p : Partition) (i : Nat) (pr : Nat → Bool) :
    refineBlockP p i (fun x => some (pr x)) = p.refineBlock i pr := rfl

theorem refineBlockWithFunP_total (p : Partition) (i : Nat) (f : Nat → Nat) (b : Nat) :
    refineBlockWithFunP p i (fun y => some (f y)) b = p.refineBlockWithFun i f b := rfl

/-! ### data structures -/

/-- `struct Splitter { block, char, class, active }` -/
structure Splitter where
  block : Nat
  char : Nat
  cls : Nat
  active : Bool
deriving DecidableEq, Repr

/-- `struct SplitterItem { char, class, active }` -/
structure SplitterItem where
  char : Nat
  cls : Nat
  active : Bool
deriving DecidableEq, Repr

/-- `struct CharClassPair { char, class }` -/
structure CharClassPair where
  char : Nat
  cls : Nat
deriving DecidableEq, Repr

/-- `struct SplitterList { num_active, list }`: active pairs at `[0 .. num_active)` -/
structure SplitterList where
  numActive : Nat
  list : List CharClassPair
deriving DecidableEq, Repr

/-- `struct SplitterSet { list, active_block }` -/
structure SplitterSet where
  list : List SplitterList
  activeBlock : Nat
deriving DecidableEq, Repr

/-- the data fields of `struct Minimizer<D, F>` (`delta`, `is_final` are function parameters) -/
structure Minimizer where
  numStates : Nat
  alphabetSize : Nat
  mainPartition : Partition
  predClasses : List BasePartition
  splitters : SplitterSet
deriving DecidableEq, Repr

namespace SplitterItem

/-- `to_splitter(block)` -/
def toSplitter (s : SplitterItem) (block : Nat) : Splitter :=
  { block := block, char := s.char, cls := s.cls, active := s.active }

/-- `from_splitter(s)` -/
def fromSplitter (s : Splitter) : SplitterItem :=
  { char := s.char, cls := s.cls, active := s.active }

end SplitterItem

/-! ### SplitterList -/
namespace SplitterList

/-- `SplitterList::default()` -/
def default : SplitterList := { numActive := 0, list := [] }

/-- `list.swap(a, b)` on a `Vec<CharClassPair>` -/
def swap (l : List CharClassPair) (a b : Nat) : Option (List CharClassPair) :=
  match l[a]?, l[b]? with
  | some x, some y => some ((l.set a y).set b x)
  | _, _ => none                                     -- index out of bounds

/-- `add(s)` -/
def add (l : SplitterList) (s : SplitterItem) : Option SplitterList :=
  let i := l.list.length
  let list := l.list ++ [⟨s.char, s.cls⟩]            -- list.push(..)
  if s.active then
    if l.numActive < i then
      match swap list l.numActive i with
      | none => none                                 -- list.swap(self.num_active, i)
      | some list' => some { numActive := l.numActive + 1, list := list' }
    else some { numActive := l.numActive + 1, list := list }
  else some { numActive := l.numActive, list := list }

/-- `pick_active()`: the pair returned and the list afterwards -/
def pickActive (l : SplitterList) : Option (CharClassPair × SplitterList) :=
  if ¬ l.numActive > 0 then none                     -- debug_assert!(self.num_active > 0)
  else
    let na := l.numActive - 1
    match l.list[na]? with
    | none => none                                   -- &list[self.num_active]
    | some pair => some (pair, { l with numActive := na })

/-- `has_active_items()` -/
def hasActiveItems (l : SplitterList) : Bool := decide (l.numActive > 0)

/-- `SplitterListIterator::next` from index `i` on -/
def itemsFrom (numActive : Nat) : Nat → List CharClassPair → List SplitterItem
  | _, [] => []
  | i, pair :: rest =>
    { char := pair.char, cls := pair.cls, active := decide (i < numActive) }
      :: itemsFrom numActive (i + 1) rest

/-- what `iter()` yields, in order -/
def items (l : SplitterList) : List SplitterItem := itemsFrom l.numActive 0 l.list

end SplitterList

/-! ### SplitterSet -/
namespace SplitterSet

/-- `SplitterSet::new()` -/
def new : SplitterSet := { list := [], activeBlock := 0 }

/-- `take_list(b)` (with the fix: a block without a slot has the empty list) -/
def takeList (ss : SplitterSet) (b : Nat) : SplitterList × SplitterSet :=
  match ss.list[b]? with
  | some l => (l, { ss with list := ss.list.set b SplitterList.default })   -- std::mem::take(l)
  | none => (SplitterList.default, ss)

/-- `add_splitter(s)` -/
def addSplitter (ss : SplitterSet) (s : Splitter) : Option SplitterSet :=
  let b := s.block
  -- if self.list.len() <= b { self.list.resize_with(b + 1, Default::default) }
  let list :=
    if ss.list.length ≤ b then
      ss.list ++ List.replicate (b + 1 - ss.list.length) SplitterList.default
    else ss.list
  match list[b]? with
  | none => none                                     -- self.list[b]
  | some l =>
    match l.add (SplitterItem.fromSplitter s) with
    | none => none
    | some l' => some { ss with list := list.set b l' }

/-- the loop `for (b, list) in l.iter().enumerate()` of `has_active_splitter`:
    index of the first list with an active item -/
def firstActive : List SplitterList → Nat → Option Nat
  | [], _ => none
  | l :: rest, b => if l.hasActiveItems then some b else firstActive rest (b + 1)

/-- `has_active_splitter()` -/
def hasActiveSplitter (ss : SplitterSet) : Option (Bool × SplitterSet) :=
  match ss.list[ss.activeBlock]? with
  | none => none                                     -- l[b]
  | some l =>
    if l.hasActiveItems then some (true, ss)
    else
      match firstActive ss.list 0 with
      | some b => some (true, { ss with activeBlock := b })
      | none => some (false, ss)

/-- `pick_splitter()`: outer `none` = panic -/
def pickSplitter (ss : SplitterSet) : Option (Option Splitter × SplitterSet) :=
  match ss.hasActiveSplitter with
  | none => none
  | some (false, ss1) => some (none, ss1)
  | some (true, ss1) =>
    let b := ss1.activeBlock
    match ss1.list[b]? with
    | none => none                                   -- &mut self.list[b]
    | some l =>
      match l.pickActive with
      | none => none
      | some (pair, l') =>
        some (some { block := b, char := pair.char, cls := pair.cls, active := false },
              { ss1 with list := ss1.list.set b l' })

end SplitterSet

/-! ### Minimizer -/
section
variable (δ : Nat → Nat → Option Nat) (isFinal : Nat → Option Bool)

/-- body of the loop `for s in old_splitters.iter()` of `upate_splitters_after_refinement(i, j)`,
    threaded through `pred_classes` and `splitters` (`main` is only read) -/
def updateLoop (main : Partition) (i j : Nat) :
    List SplitterItem → List BasePartition → SplitterSet → Option (List BasePartition × SplitterSet)
  | [], pc, ss => some (pc, ss)
  | s :: rest, pc, ss =>
    if s.cls = 0 then none                           -- debug_assert!(s.class != 0)
    else
      let c := s.char
      match pc[c]? with
      | none => none                                 -- &mut self.pred_classes[c]
      | some p =>
        -- p.refine_block(s.class, |x| main.block_id(delta(x, c)) == i)
        match p.refineBlockOpt s.cls (fun x =>
            match δ x c with
            | none => none                           -- delta(x, c)
            | some y => (main.blockIdOf y).map (fun v => v == i)) with   -- main.block_id(..)
        | none => none
        | some (p', (class1, class2)) =>
          let flags : Option (Bool × Bool) :=
            if s.active then some (true, true)
            else
              match p'.smallerBlock class1 class2 with
              | none => none                         -- p.smaller_block(class1, class2)
              | some true => some (true, false)
              | some false => some (false, true)
          match flags with
          | none => none
          | some (active1, active2) =>
            let pc' := pc.set c p'
            let ss1 : Option SplitterSet :=
              if class1 ≠ 0 then
                ss.addSplitter { block := i, char := c, cls := class1, active := active1 }
              else some ss
            match ss1 with
            | none => none
            | some ss1 =>
              let ss2 : Option SplitterSet :=
                if class2 ≠ 0 then
                  ss1.addSplitter { block := j, char := c, cls := class2, active := active2 }
                else some ss1
              match ss2 with
              | none => none
              | some ss2 => updateLoop main i j rest pc' ss2

/-- `upate_splitters_after_refinement(i, j)` -/
def updateSplittersAfterRefinement (m : Minimizer) (i j : Nat) : Option Minimizer :=
  let (old, ss) := m.splitters.takeList i
  match updateLoop δ m.mainPartition i j old.items m.predClasses ss with
  | none => none
  | some (pc, ss') => some { m with predClasses := pc, splitters := ss' }

/-- `init_main_partition()` -/
def initMainPartition (m : Minimizer) : Option Minimizer :=
  if m.mainPartition.numBlocks ≠ 2 then none         -- debug_assert_eq!(num_blocks(), 2)
  else
    match refineBlockP m.mainPartition 1 isFinal with
    | none => none
    | some (main', (i, j)) =>
      let m' := { m with mainPartition := main' }
      if i ≠ 0 ∧ j ≠ 0 then
        if ¬ (i = 1 ∧ j = 2) then none               -- debug_assert!(i == 1 && j == 2)
        else updateSplittersAfterRefinement δ m' i j
      else some m'

/-- the loop `for x in p.block_elements(s.class)` of `collect_refinement_candidates` -/
def collectLoop (main : Partition) : List Nat → FastSet → Option FastSet
  | [], set => some set
  | x :: rest, set =>
    match main.blockIdOf x with
    | none => none                                   -- self.main_partition.block_id(x)
    | some b =>
      match main.blockSize b with
      | none => none                                 -- self.main_partition.block_size(b)
      | some sz =>
        if sz > 1 then
          match set.insert b with
          | none => none
          | some set' => collectLoop main rest set'
        else collectLoop main rest set

/-- `collect_refinement_candidates(s, set)` -/
def collectRefinementCandidates (m : Minimizer) (s : Splitter) (set : FastSet) : Option FastSet :=
  let set := set.reset
  match m.predClasses[s.char]? with
  | none => none                                     -- &self.pred_classes[s.char]
  | some p =>
    match p.blockElements s.cls with
    | none => none                                   -- p.block_elements(s.class)
    | some xs => collectLoop m.mainPartition xs set

/-- `refine_block_with_splitter(s, b)` -/
def refineBlockWithSplitter (m : Minimizer) (s : Splitter) (b : Nat) : Option Minimizer :=
  match refineBlockWithFunP m.mainPartition b (fun x => δ x s.char) s.block with
  | none => none
  | some (main', (i, j)) =>
    if i = 0 then none                               -- debug_assert!(i != 0)
    else
      let m' := { m with mainPartition := main' }
      if j ≠ 0 then
        if i ≠ b then none                           -- debug_assert_eq!(i, b)
        else updateSplittersAfterRefinement δ m' i j
      else some m'

/-- the loop `for b in set.iter()` of `refine_with_splitter` -/
def refineCandidates (s : Splitter) : List Nat → Minimizer → Option Minimizer
  | [], m => some m
  | b :: rest, m =>
    match refineBlockWithSplitter δ m s b with
    | none => none
    | some m' => refineCandidates s rest m'

/-- `refine_with_splitter(s)` -/
def refineWithSplitter (m : Minimizer) (s : Splitter) : Option Minimizer :=
  let set := FastSet.new m.mainPartition.numBlocks
  match collectRefinementCandidates m s set with
  | none => none
  | some set =>
    match set.contains s.block with
    | none => none
    | some selfRefine =>
      let set' : Option FastSet := if selfRefine then set.remove s.block else some set
      match set' with
      | none => none
      | some set' =>
        match set'.iter with
        | none => none
        | some bs =>
          match refineCandidates δ s bs m with
          | none => none
          | some m' =>
            if selfRefine then refineBlockWithSplitter δ m' s s.block   -- must be done last
            else some m'

/-- `pick_splitter()`: outer `none` = panic -/
def pickSplitter (m : Minimizer) : Option (Option Splitter × Minimizer) :=
  match m.splitters.pickSplitter with
  | none => none
  | some (r, ss) => some (r, { m with splitters := ss })

/-- the `while self.main_partition.index() < self.num_states` loop of `refine` -/
def refineLoop : Nat → Minimizer → Option Minimizer
  | 0, _ => none                                     -- OUT OF FUEL (not a Rust panic)
  | fuel + 1, m =>
    match m.mainPartition.index with
    | none => none                                   -- num_blocks() - 1
    | some idx =>
      if idx < m.numStates then
        match pickSplitter m with
        | none => none
        | some (none, m') => some m'                 -- None => break
        | some (some s, m') =>
          match refineWithSplitter δ m' s with
          | none => none
          | some m'' => refineLoop fuel m''
      else some m

/-- iterations of the loop of `refine` never exceed this (every iteration deactivates one
    splitter; every split of a block activates at most `alphabet_size` splitters and there are at
    most `num_states - 1` splits) -/
def refineFuel (numStates alphabetSize : Nat) : Nat := (alphabetSize + 1) * numStates + 1

/-- `refine()`: the minimizer afterwards; the `&Partition` returned is its `mainPartition` -/
def refine (m : Minimizer) : Option Minimizer :=
  refineLoop δ (refineFuel m.numStates m.alphabetSize) m

/-- the loop `for c in 0..alphabet_size` of `new` -/
def newLoop : List Nat → SplitterSet → Option SplitterSet
  | [], ss => some ss
  | c :: rest, ss =>
    match ss.addSplitter { block := 1, char := c, cls := 1, active := false } with
    | none => none
    | some ss' => newLoop rest ss'

/-- `Minimizer::new(num_states, alphabet_size, delta, is_final)` -/
def new (numStates alphabetSize : Nat) : Option Minimizer :=
  let main := Partition.new numStates
  let classes := List.replicate alphabetSize (BasePartition.new numStates)
  match newLoop (List.range alphabetSize) SplitterSet.new with
  | none => none
  | some ss =>
    initMainPartition δ isFinal
      { numStates := numStates, alphabetSize := alphabetSize, mainPartition := main,
        predClasses := classes, splitters := ss }

/-- `Minimizer::new(..).refine()`: the resulting main partition -/
def run (numStates alphabetSize : Nat) : Option Partition :=
  match new δ isFinal numStates alphabetSize with
  | none => none
  | some m => (refine δ m).map (·.mainPartition)

end

end Hopcroft

/-! ### `StateMapping::from_partition` and `Automaton::minimize` (automata.rs) -/

namespace StateMapping

/-- the loop `for s in 0..p.size() { new_id[s] = p.block_id(s) - 1 }` -/
def fromPartitionNewIds (p : Partition) : List Nat → List Nat → Option (List Nat)
  | [], newId => some newId
  | s :: rest, newId =>
    match p.blockIdOf s with
    | none => none                                   -- p.block_id(s)
    | some b =>
      if b = 0 then none                             -- `p.block_id(s) - 1` underflows (dev profile)
      else if s < newId.length then fromPartitionNewIds p rest (newId.set s (b - 1))
      else none                                      -- new_id[s]

/-- the loop `for b in 1..p.num_blocks() { old_id[b - 1] = p.pick_element(b) }` -/
def fromPartitionOldIds (p : Partition) : List Nat → List Nat → Option (List Nat)
  | [], oldId => some oldId
  | b :: rest, oldId =>
    match p.pickElement b with
    | none => none                                   -- p.pick_element(b)
    | some s =>
      if b - 1 < oldId.length then fromPartitionOldIds p rest (oldId.set (b - 1) s)
      else none                                      -- old_id[b - 1]

/-- `StateMapping::from_partition(p)` -/
def fromPartition (p : Partition) : Option StateMapping :=
  let numNodes := p.sizeOf
  match p.index with
  | none => none                                     -- p.index(): num_blocks() - 1
  | some numNewNodes =>
    match fromPartitionNewIds p (List.range p.sizeOf) (List.replicate numNodes 0) with
    | none => none
    | some newId =>
      match fromPartitionOldIds p ((List.range p.numBlocks).drop 1)
          (List.replicate numNewNodes 0) with
      | none => none
      | some oldId => some { newId := newId, oldId := oldId }

end StateMapping

namespace Automaton

/-- `Automaton::minimize()`: the automaton afterwards (`none` = panic, or the fuel of `refine`) -/
def minimize (A : Automaton) : Option Automaton :=
  -- let is_final = |i: u32| self.state(i as usize).is_final;
  let isFinal : Nat → Option Bool := fun i => (A.state i).map (·.isFinal)
  match A.compileSuccessors with
  | none => none
  | some tm =>
    -- let delta = |i, j| transition_map.eval(i, j);
    let delta : Nat → Nat → Option Nat := fun i j => tm.eval i j
    let numStates := A.numStates
    let alphabetSize := tm.alphabetSize
    match Hopcroft.new delta isFinal numStates alphabetSize with
    | none => none
    | some mz =>
      match Hopcroft.refine delta mz with
      | none => none
      | some mz' =>
        let p := mz'.mainPartition
        match p.index with
        | none => none                               -- p.index()
        | some idx =>
          if idx < A.numStates then
            match StateMapping.fromPartition p with
            | none => none
            | some remap => A.remapNodes remap
          else some A

end Automaton
end Smt
