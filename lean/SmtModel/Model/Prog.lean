/-
  Construction programs (DESIGN.md §7 C01): "a regular expression obtained by any sequence of
  constructor calls".  `Prog` has one constructor per public constructor of `ReManager`
  (src/regular_expressions.rs:1160-1835) — hence per SMT-LIB-named wrapper of
  src/smt_regular_expressions.rs, each of which is `MANAGER.with(|m| m.borrow_mut().<method>(..))`:

    Prog            ReManager method     wrapper          model function called by `build`
    ------------------------------------------------------------------------------------------
    none            empty                re_none          RE.empty
    all             full                 re_all           RE.sigmaStar        (built-in id 3)
    allchar         all_chars            re_allchar       RE.sigma            (built-in id 0)
    eps             epsilon              —                RE.epsilon
    sigmaPlus       sigma_plus           —                RE.sigmaPlus        (built-in id 5)
    range a b       range                —                RE.range?   (none = assert! panic)
    char c          char                 —                RE.char?    (none = assert! panic)
    smtRange s1 s2  smt_range            re_range         RE.smtRange
    str s           str                  str_to_re        RE.str?     (none = panic inside `char`)
    charSet cs      char_set             —                RE.charSet
    concat p q      concat               re_concat        RE.mkConcat
    concatList ps   concat_list          re_concat_list   RE.concatList
    union p q       union                re_union         RE.mkUnion ord
    unionList ps    union_list           re_union_list    RE.mkUnionList ord
    inter p q       inter                re_inter         RE.mkInter ord
    interList ps    inter_list           re_inter_list    RE.mkInterList ord
    comp p          complement           re_comp          RE.complement
    diff p q        diff                 re_diff          RE.mkDiff ord
    diffList p qs   diff_list            re_diff_list     RE.mkDiffList ord
    star p          star                 re_star          RE.star
    plus p          plus                 re_plus          RE.plus
    opt p           opt                  re_opt           RE.opt
    exp p k         exp                  re_power         RE.exp
    smtLoop p i j   smt_loop             re_loop          RE.smtLoop
    mkLoop p r      mk_loop              —                RE.mkLoop

  Arguments are evaluated before the call (Rust evaluation order: left to right), so a panic
  (`none`) in any sub-program makes the whole program panic.  `ord` is the id assignment of the
  manager (DESIGN.md §1(a)): only union/inter/diff depend on it.

  Core Lean only (linked into the driver).
-/
import SmtModel.Model.Deriv

namespace Smt

/-- construction programs: one node per public constructor call -/
inductive Prog where
  | none
  | all
  | allchar
  | eps
  | sigmaPlus
  | range (a b : Nat)
  | char (c : Nat)
  | smtRange (s1 s2 : List Nat)
  | str (s : List Nat)
  | charSet (cs : CharSet)
  | concat (p q : Prog)
  | concatList (ps : List Prog)
  | union (p q : Prog)
  | unionList (ps : List Prog)
  | inter (p q : Prog)
  | interList (ps : List Prog)
  | comp (p : Prog)
  | diff (p q : Prog)
  | diffList (p : Prog) (qs : List Prog)
  | star (p : Prog)
  | plus (p : Prog)
  | opt (p : Prog)
  | exp (p : Prog) (k : Nat)
  | smtLoop (p : Prog) (i j : Nat)
  | mkLoop (p : Prog) (r : LoopRange)
deriving Repr, Inhabited

/-- call a binary constructor on two already evaluated arguments (a panic while evaluating
    either argument propagates) -/
def call2 {α β γ : Type} (f : α → β → γ) : Option α → Option β → Option γ
  | some a, some b => some (f a b)
  | _, _ => Option.none

theorem call2_eq_some_iff {α β γ : Type} (f : α → β → γ) (x : Option α) (y : Option β) (c : γ) :
    call2 f x y = some c ↔ ∃ a b, x = some a ∧ y = some b ∧ f a b = c := by
  cases x <;> cases y <;> simp [call2]

theorem call2_eq_none_iff {α β γ : Type} (f : α → β → γ) (x : Option α) (y : Option β) :
    call2 f x y = Option.none ↔ x = Option.none ∨ y = Option.none := by
  cases x <;> cases y <;> simp [call2]

mutual
/-- run a construction program on a manager whose id assignment is `ord`;
    `none` = one of the documented assertion panics of `range` / `char` / `str`
    (unary calls: `Option.map`, binary calls: `call2`) -/
def build (ord : RE → Nat) : Prog → Option RE
  | .none => some .empty
  | .all => some RE.sigmaStar
  | .allchar => some RE.sigma
  | .eps => some .epsilon
  | .sigmaPlus => some RE.sigmaPlus
  | .range a b => RE.range? a b
  | .char c => RE.char? c
  | .smtRange s1 s2 => some (RE.smtRange s1 s2)
  | .str s => RE.str? s
  | .charSet cs => some (RE.charSet cs)
  | .concat p q => call2 RE.mkConcat (build ord p) (build ord q)
  | .concatList ps => (buildList ord ps).map RE.concatList
  | .union p q => call2 (RE.mkUnion ord) (build ord p) (build ord q)
  | .unionList ps => (buildList ord ps).map (RE.mkUnionList ord)
  | .inter p q => call2 (RE.mkInter ord) (build ord p) (build ord q)
  | .interList ps => (buildList ord ps).map (RE.mkInterList ord)
  | .comp p => (build ord p).map RE.complement
  | .diff p q => call2 (RE.mkDiff ord) (build ord p) (build ord q)
  | .diffList p qs => call2 (RE.mkDiffList ord) (build ord p) (buildList ord qs)
  | .star p => (build ord p).map RE.star
  | .plus p => (build ord p).map RE.plus
  | .opt p => (build ord p).map RE.opt
  | .exp p k => (build ord p).map (RE.exp · k)
  | .smtLoop p i j => (build ord p).map (RE.smtLoop · i j)
  | .mkLoop p r => (build ord p).map (RE.mkLoop · r)
/-- the operands of a `*_list` call, built left to right -/
def buildList (ord : RE → Nat) : List Prog → Option (List RE)
  | [] => some []
  | p :: ps => call2 List.cons (build ord p) (buildList ord ps)
end

end Smt
