/-
  The id-dependent smart constructors of `ReManager` (src/regular_expressions.rs:572-591,
  954-1004, 1371-1559): `contains`, `simplify_set_operation`, `make_inter`, `make_union`
  (with `remove_subsumed`), `inter`, `inter_list`, `union`, `union_list`, `diff`, `diff_list`.

  `ord : RE → Nat` is the id assignment of the manager (DESIGN.md §1(a)): the Rust sorts operand
  vectors by id, detects complement pairs by adjacent ids and stops `contains` early on a larger
  id.  Theorems quantify over every `ord`; the correspondence check uses the implementation's own
  term table as `ord`.
-/
import SmtModel.Model.SubLang

namespace Smt
namespace RE

/-- insertion into a list sorted by id (`Vec::sort` on `&RE`, `Ord` by id) -/
def insertByOrd (ord : RE → Nat) (x : RE) : List RE → List RE
  | [] => [x]
  | y :: ys => if ord x ≤ ord y then x :: y :: ys else y :: insertByOrd ord x ys

def sortByOrd (ord : RE → Nat) : List RE → List RE
  | [] => []
  | x :: xs => insertByOrd ord x (sortByOrd ord xs)

/-- `Vec::dedup`: drop an element equal to its predecessor -/
def dedup : List RE → List RE
  | [] => []
  | [x] => [x]
  | x :: y :: rest => if x = y then dedup (y :: rest) else x :: dedup (y :: rest)

/-- `contains(v, x)` on a sorted slice, with the early exit on a larger id -/
def containsSorted (ord : RE → Nat) : List RE → RE → Bool
  | [], _ => false
  | y :: ys, x =>
    if y = x then true
    else if ord y > ord x then false
    else containsSorted ord ys x

/-- the `for i in 1..v.len()` loop of `simplify_set_operation`.
    `none` = a complement pair was found (result is `[top]`). -/
def simplifyLoop (ord : RE → Nat) (bottom : RE) (previous : RE) : List RE → Option (List RE)
  | [] => some []
  | current :: rest =>
    if ord current = ord previous + 1 && ord previous % 2 = 0 then none
    else if current ≠ bottom then
      (simplifyLoop ord bottom current rest).map (current :: ·)
    else simplifyLoop ord bottom previous rest

/-- `simplify_set_operation(v, bottom, top)` -/
def simplifySetOperation (ord : RE → Nat) (v : List RE) (bottom top : RE) : List RE :=
  match dedup (sortByOrd ord v) with
  | [] => []
  | v0 :: rest =>
    if containsSorted ord (v0 :: rest) top then [top]
    else
      match simplifyLoop ord bottom v0 rest with
      | none => [top]
      | some l => if v0 ≠ bottom then v0 :: l else l

/-- `make_inter` -/
def makeInter (ord : RE → Nat) (v : List RE) : RE :=
  let v := simplifySetOperation ord v sigmaStar .empty
  if containsSorted ord v .epsilon then
    if v.all (·.nullable) then .epsilon else .empty
  else
    match v with
    | [] => sigmaStar
    | [x] => x
    | _ => .inter v

/-- `is_subsumed(r, a)` -/
def isSubsumed (r : RE) (a : List RE) : Bool :=
  a.any (fun x => x ≠ r && subLanguage r x)

/-- `remove_subsumed`: `done` = a[0..i] (kept so far), second argument = a[i..] -/
def removeSubsumedAux (done : List RE) : List RE → List RE
  | [] => done
  | x :: rest =>
    if isSubsumed x (done ++ x :: rest) then removeSubsumedAux done rest
    else removeSubsumedAux (done ++ [x]) rest

def removeSubsumed (a : List RE) : List RE := removeSubsumedAux [] a

/-- `make_union` -/
def makeUnion (ord : RE → Nat) (v : List RE) : RE :=
  let v := simplifySetOperation ord v .empty sigmaStar
  let v := if v.length ≥ 2 then removeSubsumed v else v
  match v with
  | [] => .empty
  | [x] => x
  | _ => .union v

def mkInter (ord : RE → Nat) (e1 e2 : RE) : RE := makeInter ord (flattenInter e1 ++ flattenInter e2)
def mkInterList (ord : RE → Nat) (a : List RE) : RE := makeInter ord (a.flatMap flattenInter)
def mkUnion (ord : RE → Nat) (e1 e2 : RE) : RE := makeUnion ord (flattenUnion e1 ++ flattenUnion e2)
def mkUnionList (ord : RE → Nat) (a : List RE) : RE := makeUnion ord (a.flatMap flattenUnion)
def mkDiff (ord : RE → Nat) (e1 e2 : RE) : RE := mkInter ord e1 e2.complement
def mkDiffList (ord : RE → Nat) (e1 : RE) (a : List RE) : RE :=
  makeInter ord (flattenInter e1 ++ a.flatMap (fun r => flattenInter r.complement))

end RE
end Smt
