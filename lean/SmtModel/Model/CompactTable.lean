/-
  Model of `compact_tables.rs` (CompactTable, CompactTableBuilder), function by function.

  The four arrays are `List Nat` with the same sentinel values as the Rust (`check[k] = num_states`
  marks a free cell, `default`/`base`/`value` are zero-initialised).  Every index operation that can
  panic in the Rust, every `assert!` and every `debug_assert!` (the family runs in the dev profile)
  is `none` at the same site.  u32/usize arithmetic is unbounded `Nat` (the tables explored are tiny
  compared with 2^32; not modelled: overflow of `b += 1` / `2 * len`).

  The `while` loop of `set_successors` is fuel-recursion (`findBase`); the fuel
  `value.len() + 2` always suffices (every owned cell lies below the current length, so `b = len`
  conflicts with nothing): `none` from exhausted fuel never happens on a builder in its invariant
  (Props/C14 `first_fit_terminates`, Proofs/CompactTable `findBase_spec`).
-/
import SmtModel.Model.Basic

namespace Smt

structure CompactTable where
  numStates : Nat
  alphabetSize : Nat
  default : List Nat
  base : List Nat
  value : List Nat
  check : List Nat
deriving DecidableEq, Repr

namespace CompactTable

/-- `eval(s, c)`: `none` = index out of bounds -/
def eval (t : CompactTable) (s c : Nat) : Option Nat :=
  match t.base[s]? with
  | none => none
  | some b =>
    let k := b + c
    match t.check[k]? with
    | none => none
    | some x => if x = s then t.value[k]? else t.default[s]?

def size (t : CompactTable) : Nat := t.value.length

end CompactTable

structure CompactTableBuilder where
  numStates : Nat
  alphabetSize : Nat
  default : List Nat
  base : List Nat
  value : List Nat
  check : List Nat
deriving DecidableEq, Repr

namespace CompactTableBuilder

/-- `new`: `none` = the `assert!(num_states > 0 && alphabet_size > 0)` fails -/
def new (numStates alphabetSize : Nat) : Option CompactTableBuilder :=
  if numStates > 0 ∧ alphabetSize > 0 then
    some { numStates, alphabetSize,
           default := List.replicate numStates 0,
           base := List.replicate numStates 0,
           value := List.replicate alphabetSize 0,
           check := List.replicate alphabetSize numStates }
  else none

/-- `set_default(i, def)`: `debug_assert!(def < num_states)`, then `default[i] = def` -/
def setDefault (t : CompactTableBuilder) (i d : Nat) : Option CompactTableBuilder :=
  if ¬ d < t.numStates then none
  else if i < t.default.length then some { t with default := t.default.set i d }
  else none

/-- `Vec::resize(new_size, fill)` -/
def resizeList (l : List Nat) (newSize fill : Nat) : List Nat :=
  if newSize ≤ l.length then l.take newSize else l ++ List.replicate (newSize - l.length) fill

def resize (t : CompactTableBuilder) (newSize : Nat) : CompactTableBuilder :=
  { t with check := resizeList t.check newSize t.numStates, value := resizeList t.value newSize 0 }

/-- `base_conflicts(b, successors)`: `any` with short-circuit; `none` = `check[b + c]` out of bounds -/
def baseConflicts (t : CompactTableBuilder) (b : Nat) : List (Nat × Nat) → Option Bool
  | [] => some false
  | (c, _) :: rest =>
    match t.check[b + c]? with
    | none => none
    | some x => if x ≠ t.numStates then some true else baseConflicts t b rest

/-- `store_successors(i, b, successors)` -/
def storeCells (i b : Nat) : List (Nat × Nat) → List Nat → List Nat → Option (List Nat × List Nat)
  | [], check, value => some (check, value)
  | (c, v) :: rest, check, value =>
    let k := b + c
    if k < check.length then
      if k < value.length then storeCells i b rest (check.set k i) (value.set k v)
      else none
    else none

def storeSuccessors (t : CompactTableBuilder) (i b : Nat) (succ : List (Nat × Nat)) :
    Option CompactTableBuilder :=
  if i < t.base.length then
    match storeCells i b succ t.check t.value with
    | none => none
    | some (check, value) => some { t with base := t.base.set i b, check, value }
  else none

/-- the `while self.base_conflicts(b, successors)` loop of `set_successors` -/
def findBase (succ : List (Nat × Nat)) : Nat → CompactTableBuilder → Nat → Option (CompactTableBuilder × Nat)
  | 0, _, _ => none
  | fuel + 1, t, b =>
    match t.baseConflicts b succ with
    | none => none
    | some false => some (t, b)
    | some true =>
      let b := b + 1
      if b + t.alphabetSize > t.value.length then
        let newSize := 2 * t.value.length
        if newSize ≥ b + t.alphabetSize then findBase succ fuel (t.resize newSize) b
        else none                       -- `assert!(new_size >= b + alphabet_size)`
      else findBase succ fuel t b

def setSuccessors (t : CompactTableBuilder) (i : Nat) (succ : List (Nat × Nat)) :
    Option CompactTableBuilder :=
  match findBase succ (t.value.length + 2) t 0 with
  | none => none
  | some (t', b) => t'.storeSuccessors i b succ

/-- `build`: truncate `value`/`check` to `max(base) + alphabet_size` -/
def build (t : CompactTableBuilder) : Option CompactTable :=
  match t.base.max? with
  | none => none
  | some maxBase =>
    let maxIndex := maxBase + t.alphabetSize
    some { numStates := t.numStates, alphabetSize := t.alphabetSize,
           default := t.default, base := t.base,
           value := t.value.take maxIndex, check := t.check.take maxIndex }

end CompactTableBuilder
end Smt
