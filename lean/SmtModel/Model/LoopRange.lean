/-
  Model of `loop_ranges::LoopRange` (src/loop_ranges.rs).  `stop = none` is +infinity.
  Every operation that can overflow u32 is `Option`-valued (`none` = the documented panic).
-/
import SmtModel.Model.Basic

namespace Smt

structure LoopRange where
  start : Nat
  stop  : Option Nat      -- `None` = +infinity
deriving DecidableEq, Repr, Hashable

namespace LoopRange

/-- `0 <= i <= j` (and, for the machine representation, both fit in u32) -/
def WF (r : LoopRange) : Prop :=
  r.start ≤ U32_MAX ∧ match r.stop with | none => True | some j => r.start ≤ j ∧ j ≤ U32_MAX

instance (r : LoopRange) : Decidable r.WF := by
  unfold WF; cases r.stop <;> infer_instance

def finite (i j : Nat) : LoopRange := ⟨i, some j⟩
def infinite (i : Nat) : LoopRange := ⟨i, none⟩
def opt : LoopRange := finite 0 1
def star : LoopRange := infinite 0
def plus : LoopRange := infinite 1
def point (k : Nat) : LoopRange := finite k k

def isFinite (r : LoopRange) : Bool := r.stop.isSome
def isInfinite (r : LoopRange) : Bool := r.stop.isNone
def isPoint (r : LoopRange) : Bool := match r.stop with | some j => r.start == j | none => false
def isZero (r : LoopRange) : Bool := r.start == 0 && r.stop == some 0
def isOne (r : LoopRange) : Bool := r.start == 1 && r.stop == some 1
def isAll (r : LoopRange) : Bool := r.start == 0 && r.stop == none

def contains (r : LoopRange) (i : Nat) : Bool :=
  match r.stop with
  | some k => r.start ≤ i && i ≤ k
  | none => r.start ≤ i

def includes (r other : LoopRange) : Bool :=
  match r.stop, other.stop with
  | none, _ => r.start ≤ other.start
  | some j1, some j2 => r.start ≤ other.start && j2 ≤ j1
  | some _, none => false

def add (r other : LoopRange) : Option LoopRange := do
  let i ← add32 r.start other.start
  match r.stop, other.stop with
  | some a, some b => do let j ← add32 a b; pure (finite i j)
  | _, _ => pure (infinite i)

def addPoint (r : LoopRange) (x : Nat) : Option LoopRange := r.add (point x)

def scale (r : LoopRange) (k : Nat) : Option LoopRange :=
  if k == 0 then some (point 0)
  else match r.stop with
    | none => do let i ← mul32 r.start k; pure (infinite i)
    | some e => do let i ← mul32 r.start k; let j ← mul32 e k; pure (finite i j)

def mul (r other : LoopRange) : Option LoopRange :=
  if r.isZero || other.isZero then some (point 0)
  else match r.stop, other.stop with
    | some a, some b => do
        let i ← mul32 r.start other.start
        let j ← mul32 a b
        pure (finite i j)
    | _, _ => do let i ← mul32 r.start other.start; pure (infinite i)

/-- `right_mul_is_exact`; `none` = the `mul32` inside panics -/
def rightMulIsExact (r other : LoopRange) : Option Bool :=
  if other.isPoint then some true
  else match r.stop with
    | none => some (decide (other.start > 0) || decide (r.start ≤ 1))
    | some e => do
        -- `self.end() - self.start()` : no underflow when WF
        let p ← mul32 other.start (e - r.start)
        pure (decide (p ≥ r.start - 1))   -- saturating_sub(1)

def shift (r : LoopRange) : LoopRange :=
  match r.start, r.stop with
  | 0, none => infinite 0
  | 0, some 0 => point 0
  | 0, some j => finite 0 (j - 1)
  | i, none => infinite (i - 1)
  | i, some j => finite (i - 1) (j - 1)

end LoopRange
end Smt
