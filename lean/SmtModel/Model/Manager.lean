/-
  A STATEFUL, id-allocating model of `ReManager` (src/regular_expressions.rs:1080-2080).

  Model/Re.lean, Model/ReCons.lean and Model/Deriv.lean model the constructors on *trees*, with the
  hash-consing ids abstracted to an oracle `ord : RE → Nat`; Model/Store.lean models the id
  discipline of `ReManager::make` alone.  This file is the literal counterpart of the Rust: one
  state `Mgr` (term table + derivative cache), every constructor is a function
  `Mgr → ids → Mgr × id` that looks nodes up in the table, compares terms by id, sorts operand
  vectors by the ACTUAL ids, detects complement pairs by adjacent ids, allocates through `make`
  (x and `Complement(x)` at consecutive ids), and the derivative goes through the cache
  `deriv_cache : HashMap<(RegLan, ClassId), RegLan>`.

  Props/C07Refine.lean proves that this model refines the tree model (`Mgr.toTree`, `Mgr.ord`).

  Conventions
  * `RegLan = &'static RE` is an id (`Nat`); a Rust reference is always valid, a `Nat` need not
    be: on an id outside the table `expr` is `none` and the constructors fall through to their
    default arm.  All theorems are about valid ids (`i < m.size`).
  * `store: Store<RE>` + `id2re: Vec<RegLan>` are ONE list `tbl` (key of id `i` at position `i`):
    `id2re` is the identity on every reachable state (C07Store.id2re_identity), and the three
    `debug_assert!`s of `ReManager::make` never fire (Props/C07Refine.lean `make_eq_store` ties
    `Mgr.make` to the literal `ReStore.make` of Model/Store.lean, which has them).
  * the attributes `nullable` and `deriv_class`, which the Rust computes at allocation and stores
    in the `RE` struct, are RECOMPUTED from the tree (`toTree`) — they are functions of the term.
    `sub_language` (does not allocate) is likewise evaluated on the trees.
  * the five shortcut fields `sigma, empty, sigma_star, epsilon, sigma_plus` are the constants
    `sigmaId = 0`, `emptyId = 2`, `sigmaStarId = 3`, `epsilonId = 4`, `sigmaPlusId = 5`.
  * recursion over term structure (`concat`'s re-association, `flatten_*`, `compute_derivative`)
    is by fuel `id + 1`: child ids are smaller than the id of their node, so the fuel never runs
    out (proved); the fuel-0 arms are unreachable.
  * `HashMap` = association list, newest binding first (a key is inserted only when absent).
  * panics: `char`/`range`/`str` assertions and `pick_class_rep` on an invalid class id passed to
    `cached_deriv` are `none`.  Inside `deriv(e, c)` the class is `class_of_char(c)`, whose
    representative always exists for `c <= MAX_CHAR`; `repOf` is total there exactly like
    `RE.classRep` of Model/Deriv.lean (`classRep p c = repOf p (classOfChar p c)` is proved).
    Loop bounds are unbounded naturals as in Model/Re.lean (no u32-overflow panic of loop_ranges).

  Core Lean only (can be linked into `smtdriver`).
-/
import SmtModel.Model.Store
import SmtModel.Model.Prog

namespace Smt

/-! ### ids → trees -/

/-- `f` on every element, `none` if one fails -/
def optMapM (f : Nat → Option RE) : List Nat → Option (List RE)
  | [] => some []
  | x :: xs => (f x).bind fun a => (optMapM f xs).map fun as => a :: as

/-- the tree of a node, given the trees of its children -/
def Node.toRE (f : Nat → Option RE) : Node → Option RE
  | .empty => some .empty
  | .epsilon => some .epsilon
  | .range a b => some (.range ⟨a, b⟩)
  | .concat l r => (f l).bind fun a => (f r).map fun b => .concat a b
  | .loop e lo hi => (f e).map fun a => .loop a ⟨lo, hi⟩
  | .compl e => (f e).map .compl
  | .union l => (optMapM f l).map .union
  | .inter l => (optMapM f l).map .inter

/-- `Loop(e, range)` as a key -/
def Node.ofLoop (e : Nat) (r : LoopRange) : Node := .loop e r.start r.stop

/-- unfold the table entry `i` into a tree, `fuel` levels deep -/
def treeFuel (t : List Node) : Nat → Nat → Option RE
  | 0, _ => none
  | fuel + 1, i =>
    match t[i]? with
    | none => none
    | some n => n.toRE (treeFuel t fuel)

/-- the tree held by id `i` (children have smaller ids, so fuel `i + 1` suffices) -/
def treeOf (t : List Node) (i : Nat) : Option RE := treeFuel t (i + 1) i

/-- the id of a tree: its position in the table; a tree that is not in the table gets the odd
    number `length + 1`, which is adjacent to no id of the table and not even — so the adjacency
    test of `simplify_set_operation` never fires on it -/
def ordOf (t : List Node) (e : RE) : Nat :=
  match (List.range t.length).find? (fun i => decide (treeOf t i = some e)) with
  | some i => i
  | none => t.length + 1

/-! ### operand vectors: `Vec<&RE>` sorted / deduplicated / searched BY ID -/

namespace Ids

/-- `Vec::sort` (`Ord for RE` compares ids) -/
def insert (x : Nat) : List Nat → List Nat
  | [] => [x]
  | y :: ys => if x ≤ y then x :: y :: ys else y :: insert x ys

def sort : List Nat → List Nat
  | [] => []
  | x :: xs => insert x (sort xs)

/-- `Vec::dedup` (`PartialEq for RE` compares ids) -/
def dedup : List Nat → List Nat
  | [] => []
  | [x] => [x]
  | x :: y :: rest => if x = y then dedup (y :: rest) else x :: dedup (y :: rest)

/-- `contains(v, x)` with the early exit on a larger id -/
def contains : List Nat → Nat → Bool
  | [], _ => false
  | y :: ys, x =>
    if y = x then true
    else if y > x then false
    else contains ys x

/-- the `for i in 1..v.len()` loop of `simplify_set_operation`; `none` = complement pair found -/
def simplifyLoop (bottom : Nat) (previous : Nat) : List Nat → Option (List Nat)
  | [] => some []
  | current :: rest =>
    if current = previous + 1 && previous % 2 = 0 then none
    else if current ≠ bottom then
      (simplifyLoop bottom current rest).map (current :: ·)
    else simplifyLoop bottom previous rest

/-- `simplify_set_operation(v, bottom, top)` -/
def simplifySetOperation (v : List Nat) (bottom top : Nat) : List Nat :=
  match dedup (sort v) with
  | [] => []
  | v0 :: rest =>
    if contains (v0 :: rest) top then [top]
    else
      match simplifyLoop bottom v0 rest with
      | none => [top]
      | some l => if v0 ≠ bottom then v0 :: l else l

end Ids

/-! ### the manager -/

/-- `ReManager`: the term table (`store` + `id2re`) and `deriv_cache` -/
structure Mgr where
  tbl : List Node
  cache : List ((Nat × ClassId) × Nat)
deriving Repr

namespace Mgr

def sigmaId : Nat := 0
def emptyId : Nat := 2
def sigmaStarId : Nat := 3
def epsilonId : Nat := 4
def sigmaPlusId : Nat := 5

/-- `ReManager::new`: the six `store.make` calls (Model/Store.lean `ReStore.new`), empty cache -/
def new : Mgr := { tbl := ReStore.new.table, cache := [] }

/-- number of terms -/
def size (m : Mgr) : Nat := m.tbl.length

/-- `e.expr` -/
def expr (m : Mgr) (i : Nat) : Option Node := m.tbl[i]?

/-- the tree held by an id -/
def toTree (m : Mgr) (i : Nat) : Option RE := treeOf m.tbl i

/-- the id of a tree -/
def ord (m : Mgr) : RE → Nat := ordOf m.tbl

/-- the state as a `ReStore` (Model/Store.lean): `id2re` is the identity -/
def toStore (m : Mgr) : ReStore := { store := ⟨m.tbl⟩, id2re := List.range m.tbl.length }

/-- `e.nullable` (recomputed from the tree) -/
def nullable (m : Mgr) (e : Nat) : Bool :=
  match m.toTree e with
  | some t => t.nullable
  | none => false

/-- `e.deriv_class` (recomputed from the tree) -/
def derivClass (m : Mgr) (e : Nat) : CharPartition :=
  match m.toTree e with
  | some t => t.derivClass
  | none => CharPartition.new

/-- `sub_language(r, s)` (evaluated on the trees; allocates nothing) -/
def subLanguage (m : Mgr) (r s : Nat) : Bool :=
  match m.toTree r, m.toTree s with
  | some a, some b => RE.subLanguage a b
  | _, _ => false

/-- `Store::make` followed by the "new term" branch of `ReManager::make`:
    `Entry::Occupied` → the existing id; `Entry::Vacant` → `ast` gets id `counter`,
    `Complement(ast)` gets `counter + 1`, both are pushed -/
def alloc (m : Mgr) (ast : Node) : Mgr × Nat :=
  match m.tbl.idxOf? ast with
  | some i => (m, i)
  | none => ({ m with tbl := m.tbl ++ [ast, .compl m.tbl.length] }, m.tbl.length)

/-- `ReManager::make` -/
def make (m : Mgr) (ast : Node) : Mgr × Nat :=
  match ast with
  | .compl x => (m, x + 1)          -- `self.id_to_re(x.id + 1)`
  | _ => m.alloc ast

/-- `ReManager::complement`: `self.id_to_re(e.id ^ 1)` -/
def complementM (m : Mgr) (e : Nat) : Mgr × Nat := (m, e ^^^ 1)

/-- `char_set` -/
def charSetM (m : Mgr) (s : CharSet) : Mgr × Nat := m.make (.range s.start s.stop)

/-- `char`: `assert!(x <= MAX_CHAR)` -/
def charM (m : Mgr) (x : Nat) : Option (Mgr × Nat) :=
  if x ≤ MAX_CHAR then some (m.charSetM (CharSet.singleton x)) else none

/-- `range`: `assert!(start <= end && end <= MAX_CHAR)` -/
def rangeM (m : Mgr) (a b : Nat) : Option (Mgr × Nat) :=
  if a ≤ b && b ≤ MAX_CHAR then some (m.charSetM (CharSet.range a b)) else none

/-- `smt_range` -/
def smtRangeM (m : Mgr) (s1 s2 : List Nat) : Mgr × Nat :=
  match s1, s2 with
  | [c1], [c2] => if c1 ≤ c2 then m.charSetM (CharSet.range c1 c2) else (m, emptyId)
  | _, _ => (m, emptyId)

/-! #### concat -/

/-- arm 5: `(_, Loop(y, rng)) if *e1 == **y` -/
def concatArmR (m : Mgr) (e1 e2 : Nat) : Option (Mgr × Nat) :=
  match m.expr e2 with
  | some (.loop y lo hi) =>
    if e1 = y then some (m.make (Node.ofLoop e1 ((LoopRange.mk lo hi).addPointN 1))) else none
  | _ => none

/-- arm 6: `(Loop(x, rng), _) if *e2 == **x` -/
def concatArmL (m : Mgr) (e1 e2 : Nat) : Option (Mgr × Nat) :=
  match m.expr e1 with
  | some (.loop x lo hi) =>
    if e2 = x then some (m.make (Node.ofLoop e2 ((LoopRange.mk lo hi).addPointN 1))) else none
  | _ => none

/-- arm 7: `(Loop(x, x_rng), Loop(y, y_rng)) if *x == *y` -/
def concatArmB (m : Mgr) (e1 e2 : Nat) : Option (Mgr × Nat) :=
  match m.expr e1, m.expr e2 with
  | some (.loop x xlo xhi), some (.loop y ylo yhi) =>
    if x = y then
      some (m.make (Node.ofLoop x ((LoopRange.mk xlo xhi).addN (LoopRange.mk ylo yhi))))
    else none
  | _, _ => none

/-- arm 8: `_ if *e1 == *e2` -/
def concatArmS (m : Mgr) (e1 e2 : Nat) : Option (Mgr × Nat) :=
  if e1 = e2 then some (m.make (Node.ofLoop e1 (LoopRange.point 2))) else none

/-- arms 5–8, tried in order -/
def concatChainM (m : Mgr) (e1 e2 : Nat) : Option (Mgr × Nat) :=
  match m.concatArmR e1 e2 with
  | some r => some r
  | none =>
  match m.concatArmL e1 e2 with
  | some r => some r
  | none =>
  match m.concatArmB e1 e2 with
  | some r => some r
  | none => m.concatArmS e1 e2

/-- arms 1–8 of `ReManager::concat`, in the order written; `none` = fall through to arms 9/10 -/
def concatPreM (m : Mgr) (e1 e2 : Nat) : Option (Mgr × Nat) :=
  match m.expr e1, m.expr e2 with
  | some .empty, _ => some (m, emptyId)
  | _, some .empty => some (m, emptyId)
  | some .epsilon, _ => some (m, e2)
  | _, some .epsilon => some (m, e1)
  | _, _ => m.concatChainM e1 e2

/-- arm 10 -/
def concatBaseM (m : Mgr) (e1 e2 : Nat) : Mgr × Nat :=
  if m.nullable e1 && e2 = sigmaStarId then (m, e2) else m.make (.concat e1 e2)

/-- `ReManager::concat` with fuel for arm 9 `(Concat(x, y), _)`: `right = concat(y, e2)`, then
    `concat(x, right)` -/
def concatF : Nat → Mgr → Nat → Nat → Mgr × Nat
  | 0, m, e1, e2 => m.concatBaseM e1 e2            -- unreachable (fuel = e1 + 1)
  | fuel + 1, m, e1, e2 =>
    match m.concatPreM e1 e2 with
    | some r => r
    | none =>
      match m.expr e1 with
      | some (.concat x y) =>
        let r1 := concatF fuel m y e2
        concatF fuel r1.1 x r1.2
      | _ => m.concatBaseM e1 e2

/-- `ReManager::concat` -/
def concatM (m : Mgr) (e1 e2 : Nat) : Mgr × Nat := concatF (e1 + 1) m e1 e2

/-- `flatten_concat` -/
def flattenConcatF (t : List Node) : Nat → Nat → List Nat
  | 0, e => [e]                                     -- unreachable
  | fuel + 1, e =>
    match t[e]? with
    | some .epsilon => []
    | some (.concat x y) => flattenConcatF t fuel x ++ flattenConcatF t fuel y
    | _ => [e]

def flattenConcatM (m : Mgr) (e : Nat) : List Nat := flattenConcatF m.tbl (e + 1) e

/-- `concat_list`: flatten all, then `for &x in v.iter().rev() { result = concat(x, result) }` -/
def concatListM (m : Mgr) (a : List Nat) : Mgr × Nat :=
  (a.flatMap m.flattenConcatM).foldr (fun x acc => acc.1.concatM x acc.2) (m, epsilonId)

/-- `str`: `for c in s.iter().rev() { let c = self.char(*c); re = self.concat(c, re) }` -/
def strM (m : Mgr) : List Nat → Option (Mgr × Nat)
  | [] => some (m, epsilonId)
  | c :: rest =>
    match strM m rest with
    | none => none
    | some r1 =>
      match r1.1.charM c with
      | none => none
      | some r2 => some (r2.1.concatM r2.2 r1.2)

/-! #### loop -/

/-- `mk_loop` -/
def mkLoopM (m : Mgr) (e : Nat) (range : LoopRange) : Mgr × Nat :=
  if range.isZero then (m, epsilonId)
  else if range.isOne then (m, e)
  else
    match m.expr e with
    | some .empty => if range.start == 0 then (m, epsilonId) else (m, emptyId)
    | some .epsilon => (m, epsilonId)
    | some (.loop x lo hi) =>
      if (LoopRange.mk lo hi).rightMulIsExactN range then
        m.make (Node.ofLoop x ((LoopRange.mk lo hi).mulN range))
      else m.make (Node.ofLoop e range)
    | _ => m.make (Node.ofLoop e range)

def starM (m : Mgr) (e : Nat) : Mgr × Nat := m.mkLoopM e LoopRange.star
def plusM (m : Mgr) (e : Nat) : Mgr × Nat := m.mkLoopM e LoopRange.plus
def optM (m : Mgr) (e : Nat) : Mgr × Nat := m.mkLoopM e LoopRange.opt
def expM (m : Mgr) (e : Nat) (k : Nat) : Mgr × Nat := m.mkLoopM e (LoopRange.point k)
def smtLoopM (m : Mgr) (e : Nat) (i j : Nat) : Mgr × Nat :=
  if i ≤ j then m.mkLoopM e (LoopRange.finite i j) else (m, emptyId)

/-! #### intersection / union -/

/-- `make_inter` -/
def makeInterM (m : Mgr) (v : List Nat) : Mgr × Nat :=
  let v := Ids.simplifySetOperation v sigmaStarId emptyId
  if Ids.contains v epsilonId then
    if v.all (fun r => m.nullable r) then (m, epsilonId) else (m, emptyId)
  else
    match v with
    | [] => (m, sigmaStarId)
    | [x] => (m, x)
    | _ => m.make (.inter v)

/-- `is_subsumed(r, a)` -/
def isSubsumedM (m : Mgr) (r : Nat) (a : List Nat) : Bool :=
  a.any (fun x => x ≠ r && m.subLanguage r x)

/-- `remove_subsumed`: `done` = a[0..i], second argument = a[i..] -/
def removeSubsumedAuxM (m : Mgr) (done : List Nat) : List Nat → List Nat
  | [] => done
  | x :: rest =>
    if m.isSubsumedM x (done ++ x :: rest) then removeSubsumedAuxM m done rest
    else removeSubsumedAuxM m (done ++ [x]) rest

def removeSubsumedM (m : Mgr) (a : List Nat) : List Nat := m.removeSubsumedAuxM [] a

/-- `make_union` -/
def makeUnionM (m : Mgr) (v : List Nat) : Mgr × Nat :=
  let v := Ids.simplifySetOperation v emptyId sigmaStarId
  let v := if v.length ≥ 2 then m.removeSubsumedM v else v
  match v with
  | [] => (m, emptyId)
  | [x] => (m, x)
  | _ => m.make (.union v)

/-- `flatten_inter` -/
def flattenInterF (t : List Node) : Nat → Nat → List Nat
  | 0, e => [e]                                     -- unreachable
  | fuel + 1, e =>
    match t[e]? with
    | some (.inter l) => l.flatMap (flattenInterF t fuel)
    | _ => [e]

def flattenInterM (m : Mgr) (e : Nat) : List Nat := flattenInterF m.tbl (e + 1) e

/-- `flatten_union` -/
def flattenUnionF (t : List Node) : Nat → Nat → List Nat
  | 0, e => [e]                                     -- unreachable
  | fuel + 1, e =>
    match t[e]? with
    | some (.union l) => l.flatMap (flattenUnionF t fuel)
    | _ => [e]

def flattenUnionM (m : Mgr) (e : Nat) : List Nat := flattenUnionF m.tbl (e + 1) e

def interM (m : Mgr) (e1 e2 : Nat) : Mgr × Nat :=
  m.makeInterM (m.flattenInterM e1 ++ m.flattenInterM e2)
def interListM (m : Mgr) (a : List Nat) : Mgr × Nat := m.makeInterM (a.flatMap m.flattenInterM)
def unionM (m : Mgr) (e1 e2 : Nat) : Mgr × Nat :=
  m.makeUnionM (m.flattenUnionM e1 ++ m.flattenUnionM e2)
def unionListM (m : Mgr) (a : List Nat) : Mgr × Nat := m.makeUnionM (a.flatMap m.flattenUnionM)
/-- `diff`: `let comp_e2 = self.complement(e2); self.inter(e1, comp_e2)` -/
def diffM (m : Mgr) (e1 e2 : Nat) : Mgr × Nat := m.interM e1 (e2 ^^^ 1)
/-- `diff_list` -/
def diffListM (m : Mgr) (e1 : Nat) (a : List Nat) : Mgr × Nat :=
  m.makeInterM (m.flattenInterM e1 ++ a.flatMap (fun r => m.flattenInterM (r ^^^ 1)))

/-! #### derivatives, through `deriv_cache` -/

/-- `HashMap::get` -/
def cacheGet (m : Mgr) (e : Nat) (cid : ClassId) : Option Nat :=
  (m.cache.find? (fun kv => decide (kv.1 = (e, cid)))).map (·.2)

/-- `HashMap::insert` -/
def cacheInsert (m : Mgr) (e : Nat) (cid : ClassId) (r : Nat) : Mgr :=
  { m with cache := ((e, cid), r) :: m.cache }

/-- `pick_class_rep(cid)` where `cid = class_of_char(c)` is known to be a class of the partition
    (the index exists; same totalisation as `RE.classRep`: `RE.classRep p c = repOf p (classOfChar c)`) -/
def repOf (p : CharPartition) : ClassId → Nat
  | .interval i => match p.list[i]? with
    | some s => s.start
    | none => 0
  | .complement => p.compWitness

/-- `deriv(e, c)` = `cached_deriv(e, e.class_of_char(c))`: look `(e, cid)` up in the cache; on a
    miss call `compute_derivative(e, pick_class_rep(cid))`, insert, return.
    `compute` is `compute_derivative` (passed as a parameter to tie the recursive knot below). -/
def derivWith (compute : Mgr → Nat → Nat → Mgr × Nat) (m : Mgr) (e c : Nat) : Mgr × Nat :=
  let cid := (m.derivClass e).classOfChar c
  match m.cacheGet e cid with
  | some r => (m, r)
  | none =>
    let r := compute m e (repOf (m.derivClass e) cid)
    (r.1.cacheInsert e cid r.2, r.2)

/-- `deriv_list`: `list.iter().map(|r| self.deriv(r, c)).collect()` (`d` is `deriv(·, c)`) -/
def derivListWith (d : Mgr → Nat → Mgr × Nat) : Mgr → List Nat → Mgr × List Nat
  | m, [] => (m, [])
  | m, x :: xs =>
    let r1 := d m x
    let r2 := derivListWith d r1.1 xs
    (r2.1, r1.2 :: r2.2)

/-- `compute_derivative(e, c)`; every `self.deriv(e', c)` inside goes through the cache -/
def computeDerivF : Nat → Mgr → Nat → Nat → Mgr × Nat
  | 0, m, e, _ => (m, e)                            -- unreachable (fuel = e + 1)
  | fuel + 1, m, e, c =>
    let deriv := fun (m' : Mgr) (e' : Nat) => derivWith (computeDerivF fuel) m' e' c
    match m.expr e with
    | some .empty => (m, emptyId)
    | some .epsilon => (m, emptyId)
    | some (.range a b) => if (CharSet.mk a b).contains c then (m, epsilonId) else (m, emptyId)
    | some (.concat e1 e2) =>
      let r1 := deriv m e1
      let r2 := r1.1.concatM r1.2 e2
      if m.nullable e1 then
        let r3 := deriv r2.1 e2
        r3.1.unionM r2.2 r3.2
      else r2
    | some (.loop e1 lo hi) =>
      let r1 := deriv m e1
      let r2 := r1.1.mkLoopM e1 (LoopRange.mk lo hi).shift
      r2.1.concatM r1.2 r2.2
    | some (.compl e1) =>
      let r1 := deriv m e1
      r1.1.complementM r1.2
    | some (.inter l) =>
      let r1 := derivListWith deriv m l
      r1.1.interListM r1.2
    | some (.union l) =>
      let r1 := derivListWith deriv m l
      r1.1.unionListM r1.2
    | none => (m, e)                                -- not a term of this manager

/-- `compute_derivative(e, c)` -/
def computeDerivM (m : Mgr) (e c : Nat) : Mgr × Nat := computeDerivF (e + 1) m e c

/-- `deriv(e, c)` -/
def derivM (m : Mgr) (e c : Nat) : Mgr × Nat := derivWith computeDerivM m e c

/-- `cached_deriv(e, cid)`; `none` = `pick_class_rep` panics (invalid class id) -/
def cachedDerivM (m : Mgr) (e : Nat) (cid : ClassId) : Option (Mgr × Nat) :=
  match m.cacheGet e cid with
  | some r => some (m, r)
  | none =>
    match (m.derivClass e).pickInClass cid with
    | none => none
    | some c =>
      let r := m.computeDerivM e c
      some (r.1.cacheInsert e cid r.2, r.2)

/-- `char_derivative` -/
def charDerivativeM (m : Mgr) (e c : Nat) : Mgr × Nat := m.derivM e c

/-- `str_derivative` -/
def strDerivativeM (m : Mgr) (e : Nat) (s : List Nat) : Mgr × Nat :=
  s.foldl (fun acc c => acc.1.derivM acc.2 c) (m, e)

/-- `str_in_re` -/
def strInReM (m : Mgr) (s : List Nat) (e : Nat) : Mgr × Bool :=
  let r := m.strDerivativeM e s
  (r.1, r.1.nullable r.2)

/-! #### construction programs, run statefully (arguments left to right) -/

/-- evaluate the argument, then call a unary constructor (a panic in the argument propagates) -/
def seq1 {α : Type} (a : Mgr → Option (Mgr × α)) (f : Mgr → α → Mgr × Nat) (m : Mgr) :
    Option (Mgr × Nat) :=
  match a m with
  | none => none
  | some r1 => some (f r1.1 r1.2)

/-- evaluate two arguments left to right, then call a binary constructor -/
def seq2 {α β : Type} (a : Mgr → Option (Mgr × α)) (b : Mgr → Option (Mgr × β))
    (f : Mgr → α → β → Mgr × Nat) (m : Mgr) : Option (Mgr × Nat) :=
  match a m with
  | none => none
  | some r1 =>
    match b r1.1 with
    | none => none
    | some r2 => some (f r2.1 r1.2 r2.2)

/-- evaluate the head, then the tail, of an operand list -/
def seqCons (a : Mgr → Option (Mgr × Nat)) (b : Mgr → Option (Mgr × List Nat)) (m : Mgr) :
    Option (Mgr × List Nat) :=
  match a m with
  | none => none
  | some r1 =>
    match b r1.1 with
    | none => none
    | some r2 => some (r2.1, r1.2 :: r2.2)

mutual
/-- run a construction program (Model/Prog.lean) on the manager: the stateful `build` -/
def runProg (m : Mgr) : Prog → Option (Mgr × Nat)
  | .none => some (m, emptyId)
  | .all => some (m, sigmaStarId)
  | .allchar => some (m, sigmaId)
  | .eps => some (m, epsilonId)
  | .sigmaPlus => some (m, sigmaPlusId)
  | .range a b => m.rangeM a b
  | .char c => m.charM c
  | .smtRange s1 s2 => some (m.smtRangeM s1 s2)
  | .str s => m.strM s
  | .charSet cs => some (m.charSetM cs)
  | .concat p q => seq2 (fun m' => runProg m' p) (fun m' => runProg m' q) concatM m
  | .concatList ps => seq1 (fun m' => runProgList m' ps) concatListM m
  | .union p q => seq2 (fun m' => runProg m' p) (fun m' => runProg m' q) unionM m
  | .unionList ps => seq1 (fun m' => runProgList m' ps) unionListM m
  | .inter p q => seq2 (fun m' => runProg m' p) (fun m' => runProg m' q) interM m
  | .interList ps => seq1 (fun m' => runProgList m' ps) interListM m
  | .comp p => seq1 (fun m' => runProg m' p) complementM m
  | .diff p q => seq2 (fun m' => runProg m' p) (fun m' => runProg m' q) diffM m
  | .diffList p qs => seq2 (fun m' => runProg m' p) (fun m' => runProgList m' qs) diffListM m
  | .star p => seq1 (fun m' => runProg m' p) starM m
  | .plus p => seq1 (fun m' => runProg m' p) plusM m
  | .opt p => seq1 (fun m' => runProg m' p) optM m
  | .exp p k => seq1 (fun m' => runProg m' p) (fun m' e => m'.expM e k) m
  | .smtLoop p i j => seq1 (fun m' => runProg m' p) (fun m' e => m'.smtLoopM e i j) m
  | .mkLoop p rg => seq1 (fun m' => runProg m' p) (fun m' e => m'.mkLoopM e rg) m
/-- the operands of a `*_list` call, built left to right -/
def runProgList (m : Mgr) : List Prog → Option (Mgr × List Nat)
  | [] => some (m, [])
  | p :: ps => seqCons (fun m' => runProg m' p) (fun m' => runProgList m' ps) m
end

end Mgr
end Smt
