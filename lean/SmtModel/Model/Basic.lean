/-
  Basic conventions of the model (DESIGN.md §6).

  * characters are `Nat`, the SMT-LIB alphabet is `[0, MAX_CHAR]`
  * strings are `List Nat`
  * machine arithmetic that can overflow is `Option`-valued at the same site as in the Rust
    (`none` = the real code panics there)

  Core Lean only: this file is linked into the `smtdriver` executable.
-/

namespace Smt

/-- `smt_strings::MAX_CHAR` -/
def MAX_CHAR : Nat := 0x2FFFF

/-- `smt_strings::REPLACEMENT_CHAR` -/
def REPLACEMENT_CHAR : Nat := 0xFFFD

def U32_MAX : Nat := 4294967295
def I32_MAX : Int := 2147483647
def I32_MIN : Int := -2147483648

/-- `u32::checked_add(..).expect(..)`: `none` = panic -/
def add32 (x y : Nat) : Option Nat :=
  if x + y ≤ U32_MAX then some (x + y) else none

/-- `u32::checked_mul(..).expect(..)`: `none` = panic -/
def mul32 (x y : Nat) : Option Nat :=
  if x * y ≤ U32_MAX then some (x * y) else none

/-- a well-formed SMT string: every code point is in the alphabet -/
def goodString (w : List Nat) : Bool := w.all (fun c => c ≤ MAX_CHAR)

/-- Prop version of `goodString` -/
def WFs (w : List Nat) : Prop := ∀ c ∈ w, c ≤ MAX_CHAR

theorem goodString_iff (w : List Nat) : goodString w = true ↔ WFs w := by
  simp [goodString, WFs]

end Smt
