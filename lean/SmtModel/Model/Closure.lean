/-
  Searches over the derivative closure (src/regular_expressions.rs:1865-1895, 2108-2224,
  2334-2353; src/bfs_queues.rs; src/labeled_queues.rs):
  `iter_derivatives`, `is_empty_re`, `get_string_path`, `get_string`, `start_char`, `start_class`.

  Termination of these searches is itself a claim (C19), so they take fuel and return
  `none` when it runs out.  The result type's second `Option`/`PANIC` channel is `Res.panic`.

  A `BfsQueue` (VecDeque + HashSet) is modelled by the list `all` of every element ever pushed, in
  push order, and the index `i` of the next element to pop: queue = `all.drop i`, set = `all`.
-/
import SmtModel.Model.Deriv

namespace Smt
namespace RE

/-- outcome of a fuel-bounded search -/
inductive Res (α : Type) where
  | ok (a : α)
  | panic            -- the Rust would panic (never happens for well-formed terms: Props)
  | outOfFuel
deriving Repr, DecidableEq

/-- `BfsQueue::push` -/
def bfsPush (all : List RE) (x : RE) : List RE := if all.contains x then all else all ++ [x]

/-- all class derivatives of `r`, in `class_ids()` order; `none` = a `pick_class_rep` panic -/
def classDerivs (ord : RE → Nat) (r : RE) : Option (List (ClassId × RE)) :=
  r.derivClass.classIds.mapM (fun cid => (cachedDeriv ord r cid).map (fun d => (cid, d)))

/-- `DerivativeIterator`: run to exhaustion; the result is everything yielded, in order -/
def iterLoop (ord : RE → Nat) : Nat → List RE → Nat → Res (List RE)
  | 0, _, _ => .outOfFuel
  | fuel + 1, all, i =>
    match all[i]? with
    | none => .ok all
    | some r =>
      match classDerivs ord r with
      | none => .panic
      | some ds => iterLoop ord fuel (ds.foldl (fun a d => bfsPush a d.2) all) (i + 1)

/-- `iter_derivatives(e)` collected -/
def iterDerivatives (ord : RE → Nat) (fuel : Nat) (e : RE) : Res (List RE) :=
  iterLoop ord fuel [e] 0

/-- `is_empty_re`: `all(|x| !x.nullable)` consumes the iterator lazily and stops at the first
    nullable term -/
def isEmptyLoop (ord : RE → Nat) : Nat → List RE → Nat → Res Bool
  | 0, _, _ => .outOfFuel
  | fuel + 1, all, i =>
    match all[i]? with
    | none => .ok true
    | some r =>
      -- `next()` pushes the derivatives of r before yielding r
      match classDerivs ord r with
      | none => .panic
      | some ds =>
        if r.nullable then .ok false
        else isEmptyLoop ord fuel (ds.foldl (fun a d => bfsPush a d.2) all) (i + 1)

def isEmptyRe (ord : RE → Nat) (fuel : Nat) (e : RE) : Res Bool := isEmptyLoop ord fuel [e] 0

/-! ### `LabeledQueue` and witness generation -/

/-- one entry of `LabeledQueue.map`, in insertion order: node and its `Edge` -/
structure LqEntry where
  node : RE
  edge : Option (ClassId × RE)     -- `Edge::Pred(label, pre)`; `none` = `Edge::Empty`
deriving Repr

def lqFind (m : List LqEntry) (x : RE) : Option LqEntry := m.find? (fun e => e.node = x)

/-- `LabeledQueue::push(pre, label, suc)` -/
def lqPush (m : List LqEntry) (pre : RE) (label : ClassId) (suc : RE) : List LqEntry :=
  match lqFind m suc with
  | some _ => m
  | none => m ++ [⟨suc, some (label, pre)⟩]

/-- `EdgeIterator` collected (destination first); fuel = size of the map -/
def lqWalk (m : List LqEntry) : Nat → Option (ClassId × RE) → Option (List (RE × ClassId))
  | _, none => some []
  | 0, some _ => none
  | fuel + 1, some (label, node) =>
    match lqFind m node with
    | none => none                      -- `unwrap` panics
    | some e => (lqWalk m fuel e.edge).map ((node, label) :: ·)

/-- `full_path(destination)` -/
def lqFullPath (m : List LqEntry) (dest : RE) : Option (List (RE × ClassId)) :=
  match lqFind m dest with
  | none => none
  | some e => (lqWalk m (m.length + 1) e.edge).map List.reverse

/-- `get_string_path` -/
def pathLoop (ord : RE → Nat) : Nat → List LqEntry → Nat → Res (Option (List (RE × ClassId)))
  | 0, _, _ => .outOfFuel
  | fuel + 1, m, i =>
    match m[i]? with
    | none => .ok none
    | some ent =>
      let r := ent.node
      if r.nullable then
        match lqFullPath m r with
        | some p => .ok (some p)
        | none => .panic
      else
        match classDerivs ord r with
        | none => .panic
        | some ds => pathLoop ord fuel (ds.foldl (fun a d => lqPush a r d.1 d.2) m) (i + 1)

def getStringPath (ord : RE → Nat) (fuel : Nat) (e : RE) : Res (Option (List (RE × ClassId))) :=
  pathLoop ord fuel [⟨e, none⟩] 0

/-- `get_string`: representatives of the classes along the path -/
def getString (ord : RE → Nat) (fuel : Nat) (e : RE) : Res (Option (List Nat)) :=
  match getStringPath ord fuel e with
  | .outOfFuel => .outOfFuel
  | .panic => .panic
  | .ok none => .ok none
  | .ok (some path) =>
    match path.mapM (fun (re, cid) => re.derivClass.pickInClass cid) with
    | some s => .ok (some s)
    | none => .panic

/-! ### `start_char` / `start_class` (current tree: Concat and Inter use derivative + emptiness) -/

mutual
def startChar (ord : RE → Nat) (fuel : Nat) : RE → Nat → Res Bool
  | .empty, _ => .ok false
  | .epsilon, _ => .ok false
  | .range set, c => .ok (set.contains c)
  | .loop e _, c => startChar ord fuel e c
  | .union args, c => startCharAny ord fuel args c
  | e, c =>
    -- Concat | Inter | Complement
    match isEmptyRe ord fuel (deriv ord e c) with
    | .ok b => .ok (!b)
    | .panic => .panic
    | .outOfFuel => .outOfFuel
/-- `args.iter().any(|x| self.start_char(x, c))` (short-circuits) -/
def startCharAny (ord : RE → Nat) (fuel : Nat) : List RE → Nat → Res Bool
  | [], _ => .ok false
  | x :: xs, c =>
    match startChar ord fuel x c with
    | .ok true => .ok true
    | .ok false => startCharAny ord fuel xs c
    | .panic => .panic
    | .outOfFuel => .outOfFuel
end

/-- `start_class` -/
def startClass (ord : RE → Nat) (fuel : Nat) (e : RE) (cid : ClassId) : Res (Except Err Bool) :=
  if e.derivClass.validClassId cid then
    match e.derivClass.pickInClass cid with
    | none => .panic
    | some c =>
      match startChar ord fuel e c with
      | .ok b => .ok (.ok b)
      | .panic => .panic
      | .outOfFuel => .outOfFuel
  else .ok (.error .BadClassId)

end RE
end Smt
