/-
  Model of `automata.rs` (Automaton, State, EdgeIterator, FinalStateIterator, StateMapping,
  StateInConstruction, AutomatonBuilder) and of `bfs_queues.rs` (BfsQueue), function by function.

  Conventions
  * `&State` results are modelled by the `State` value found at that index of the state array
    (`none` = index out of bounds = panic).
  * The family runs in the dev profile: every `debug_assert!` is modelled as a panic (`none`) at the
    same site (`class_next`: `valid_class_id`; `remap_nodes`: `new_states[i].id == i`;
    `State::remap_nodes`: `is_class_rep`).  A release build computes the same value whenever the
    model returns `some`.
  * `AutomatonBuilder<T>` is modelled for `T = Nat`; `id_map : HashMap<T, usize>` is an association
    list (only `get`/`insert` of an absent key are used, never iteration).
  * `build`/`build_unchecked` take `&mut self` but work on a clone of every state in construction
    (commit 114d68f), so the builder is unchanged by them: they are pure functions of the builder
    state.  The as-found in-place variant is `SmtModel/Legacy/BuilderBuild.lean`.
  * `State::remap_nodes` moves `successor`/`classes` out of the old state (`mem::take`); the model is
    non-destructive.  Both callers pass a duplicate-free `old_id`, so no old state is visited twice
    (with duplicates the dev profile stops at `debug_assert!(new_states[i].id == i)`, modelled).
  * The BFS loop of `remove_unreachable_states` is fuel-recursion with fuel `num_states + 1`
    (Props/C14 `bfs_fuel_sufficient`).
-/
import SmtModel.Model.CharPartition
import SmtModel.Model.CompactTable

namespace Smt

structure State where
  id : Nat
  isFinal : Bool
  classes : CharPartition
  successor : List Nat
  defaultSuccessor : Option Nat
deriving DecidableEq, Repr

structure Automaton where
  numStates : Nat
  numFinalStates : Nat
  initialState : Nat
  states : List State
deriving DecidableEq, Repr

structure StateMapping where
  newId : List Nat
  oldId : List Nat
deriving DecidableEq, Repr

/-! ### State -/
namespace State

def numSuccessors (s : State) : Nat := s.classes.len
def hasDefaultSuccessor (s : State) : Bool := s.defaultSuccessor.isSome
def validClassId (s : State) (cid : ClassId) : Bool := s.classes.validClassId cid
def classOfChar (s : State) (x : Nat) : ClassId := s.classes.classOfChar x

/-- `char_maps_to_default` -/
def charMapsToDefault (s : State) (c : Nat) : Bool :=
  s.hasDefaultSuccessor && s.classes.classOfChar c == ClassId.complement

end State

/-! ### all-or-nothing map (a loop whose body can panic) -/

def mapOpt {α β} (f : α → Option β) : List α → Option (List β)
  | [] => some []
  | a :: rest =>
    match f a with
    | none => none
    | some b =>
      match mapOpt f rest with
      | none => none
      | some bs => some (b :: bs)

/-! ### StateMapping -/
namespace StateMapping

/-- the `for (i, &node_id) in nodes_to_keep.iter().enumerate()` loop of `from_array` -/
def fromArrayLoop : Nat → List Nat → List Nat → List Nat → Option (List Nat × List Nat)
  | _, [], newId, oldId => some (newId, oldId)
  | i, node :: rest, newId, oldId =>
    if node < newId.length then
      if i < oldId.length then fromArrayLoop (i + 1) rest (newId.set node i) (oldId.set i node)
      else none
    else none

/-- `StateMapping::from_array(num_nodes, nodes_to_keep)`; `none` = `new_id[node_id]` out of bounds -/
def fromArray (numNodes : Nat) (keep : List Nat) : Option StateMapping :=
  match fromArrayLoop 0 keep (List.replicate numNodes 0) (List.replicate keep.length 0) with
  | none => none
  | some (newId, oldId) => some ⟨newId, oldId⟩

def numNewStates (m : StateMapping) : Nat := m.oldId.length

/-- `is_class_rep(id)`: `old_id[new_id[id]] == id` -/
def isClassRep (m : StateMapping) (id : Nat) : Option Bool :=
  match m.newId[id]? with
  | none => none
  | some j =>
    match m.oldId[j]? with
    | none => none
    | some k => some (k == id)

end StateMapping

/-- `State::remap_nodes(remap)` -/
def State.remapNodes (s : State) (m : StateMapping) : Option State :=
  let oldId := s.id
  match m.isClassRep oldId with      -- debug_assert!(remap.is_class_rep(old_id))
  | none => none
  | some false => none
  | some true =>
    match m.newId[oldId]? with
    | none => none
    | some newId =>
      let newDefault : Option (Option Nat) :=
        match s.defaultSuccessor with
        | none => some none
        | some i => (m.newId[i]?).map some
      match newDefault with
      | none => none
      | some nd =>
        match mapOpt (fun j => m.newId[j]?) s.successor with
        | none => none
        | some succ =>
          some { id := newId, isFinal := s.isFinal, classes := s.classes,
                 successor := succ, defaultSuccessor := nd }

/-! ### BfsQueue (bfs_queues.rs) over `Nat` -/

structure BfsQueue where
  queue : List Nat
  set : List Nat
deriving DecidableEq, Repr

namespace BfsQueue
def new : BfsQueue := ⟨[], []⟩
/-- `push`: no-op (returns false) when the element has been seen before -/
def push (q : BfsQueue) (x : Nat) : BfsQueue × Bool :=
  if x ∈ q.set then (q, false) else (⟨q.queue ++ [x], q.set ++ [x]⟩, true)
def pushAll (q : BfsQueue) (l : List Nat) : BfsQueue := l.foldl (fun q x => (q.push x).1) q
def pop (q : BfsQueue) : Option Nat × BfsQueue :=
  match q.queue with
  | [] => (none, q)
  | x :: rest => (some x, ⟨rest, q.set⟩)
def isEmpty (q : BfsQueue) : Bool := q.queue.isEmpty
def len (q : BfsQueue) : Nat := q.queue.length
end BfsQueue

/-! ### Automaton -/
namespace Automaton

def state (A : Automaton) (i : Nat) : Option State := A.states[i]?
def initial (A : Automaton) : Option State := A.states[A.initialState]?

/-- `class_next(s, cid)` (dev profile: the `debug_assert!(s.valid_class_id(cid))` is a panic) -/
def classNext (A : Automaton) (s : State) (cid : ClassId) : Option State :=
  if s.validClassId cid then
    match cid with
    | .interval i =>
      match s.successor[i]? with
      | none => none
      | some j => A.states[j]?
    | .complement =>
      match s.defaultSuccessor with
      | none => none
      | some j => A.states[j]?
  else none

/-- `next(s, c)` -/
def next (A : Automaton) (s : State) (c : Nat) : Option State :=
  A.classNext s (s.classes.classOfChar c)

/-- `char_set_next(s, set)`: outer `none` = panic (the `debug_assert!`s of `interval_cover`, or of
    `class_next`) -/
def charSetNext (A : Automaton) (s : State) (set : CharSet) : Option (Except Err State) :=
  match s.classes.intervalCoverChecked set with
  | none => none
  | some .overlaps => some (.error .AmbiguousCharSet)
  | some (.coveredBy i) => (A.classNext s (.interval i)).map .ok
  | some .disjointFromAll => (A.classNext s .complement).map .ok

/-- `str_next(s, str)` -/
def strNext (A : Automaton) : State → List Nat → Option State
  | s, [] => some s
  | s, c :: w =>
    match A.next s c with
    | none => none
    | some s' => strNext A s' w

/-- `accepts(str)` -/
def accepts (A : Automaton) (w : List Nat) : Option Bool :=
  match A.initial with
  | none => none
  | some s0 => (A.strNext s0 w).map (·.isFinal)

/-- the `i < source.num_successors()` arm of `EdgeIterator::next` -/
def edgeAt (A : Automaton) (s : State) (i : Nat) : Option (ClassId × State) :=
  match s.successor[i]? with
  | none => none
  | some j => (A.states[j]?).map (fun t => (ClassId.interval i, t))

/-- what `edges(s)` yields, in order (`none` = an index panics while iterating) -/
def edges (A : Automaton) (s : State) : Option (List (ClassId × State)) :=
  match mapOpt (A.edgeAt s) (List.range s.numSuccessors) with
  | none => none
  | some ivs =>
    match s.defaultSuccessor with
    | none => some ivs
    | some d =>
      match A.states[d]? with
      | none => none
      | some t => some (ivs ++ [(ClassId.complement, t)])

/-- what `final_states()` yields, in order -/
def finalStates (A : Automaton) : List State := A.states.filter (·.isFinal)

/-- `combined_char_partition()` -/
def combinedCharPartition (A : Automaton) : CharPartition :=
  mergePartitionList (A.states.map (·.classes))

/-- `pick_alphabet()` -/
def pickAlphabet (A : Automaton) : List Nat := A.combinedCharPartition.picks

/-- the `suc` vector of `compile_successors` for one state -/
def compileRow (A : Automaton) (s : State) (alphabet : List Nat) : Option (List (Nat × Nat)) :=
  mapOpt (fun (p : Nat × Nat) => (A.next s p.1).map (fun t => (p.2, t.id)))
    (alphabet.zipIdx.filter (fun p => !s.charMapsToDefault p.1))

/-- `if s.has_default_successor() { builder.set_default(id, d) }` -/
def compileDefault (s : State) (b : CompactTableBuilder) : Option CompactTableBuilder :=
  match s.defaultSuccessor with
  | none => some b
  | some d => b.setDefault s.id d

/-- the `for s in self.states()` loop of `compile_successors` -/
def compileLoop (A : Automaton) (alphabet : List Nat) :
    List State → CompactTableBuilder → Option CompactTableBuilder
  | [], b => some b
  | s :: rest, b =>
    match compileDefault s b with
    | none => none
    | some b1 =>
      match A.compileRow s alphabet with
      | none => none
      | some suc =>
        match b1.setSuccessors s.id suc with
        | none => none
        | some b2 => compileLoop A alphabet rest b2

/-- `compile_successors()` -/
def compileSuccessors (A : Automaton) : Option CompactTable :=
  let alphabet := A.pickAlphabet
  match CompactTableBuilder.new A.numStates alphabet.length with
  | none => none
  | some b =>
    match compileLoop A alphabet A.states b with
    | none => none
    | some b' => b'.build

/-- the `for i in 0..num_new_nodes` loop of `remap_nodes` -/
def remapLoop (A : Automaton) (m : StateMapping) : Nat → List Nat → Nat → Option (List State × Nat)
  | _, [], nf => some ([], nf)
  | i, old :: rest, nf =>
    match A.states[old]? with
    | none => none
    | some s =>
      match s.remapNodes m with
      | none => none
      | some s' =>
        if s'.id ≠ i then none       -- debug_assert!(new_states[i].id == i)
        else
          match remapLoop A m (i + 1) rest (if s.isFinal then nf + 1 else nf) with
          | none => none
          | some (sts, nf') => some (s' :: sts, nf')

/-- `remap_nodes(remap)` -/
def remapNodes (A : Automaton) (m : StateMapping) : Option Automaton :=
  match m.newId[A.initialState]? with
  | none => none
  | some init =>
    match remapLoop A m 0 m.oldId 0 with
    | none => none
    | some (sts, nf) =>
      some { numStates := m.numNewStates, numFinalStates := nf, initialState := init, states := sts }

/-- the `while let Some(i) = queue.pop()` loop of `remove_unreachable_states` -/
def bfsLoop (A : Automaton) : Nat → BfsQueue → List Nat → Option (List Nat)
  | 0, _, _ => none
  | fuel + 1, q, reachable =>
    match q.pop with
    | (none, _) => some reachable
    | (some i, q') =>
      match A.states[i]? with
      | none => none
      | some s =>
        match A.edges s with
        | none => none
        | some es => bfsLoop A fuel (q'.pushAll (es.map (·.2.id))) (reachable ++ [i])

/-- the vector `reachable` before sorting -/
def reachableList (A : Automaton) : Option (List Nat) :=
  bfsLoop A (A.states.length + 1) (BfsQueue.new.push A.initialState).1 []

/-- insertion into a sorted list / `sort_unstable` on `usize` (the outcome of any sort) -/
def insertNat (x : Nat) : List Nat → List Nat
  | [] => [x]
  | y :: rest => if x ≤ y then x :: y :: rest else y :: insertNat x rest

def sortNat : List Nat → List Nat
  | [] => []
  | x :: rest => insertNat x (sortNat rest)

/-- `remove_unreachable_states()` -/
def removeUnreachableStates (A : Automaton) : Option Automaton :=
  match A.reachableList with
  | none => none
  | some reachable =>
    match StateMapping.fromArray A.numStates (sortNat reachable) with
    | none => none
    | some m => A.remapNodes m

end Automaton

/-! ### StateInConstruction -/

structure StateInConstruction where
  isFinal : Bool
  defaultSuccessor : Option Nat
  transitions : List (CharSet × Nat)
deriving DecidableEq, Repr

namespace StateInConstruction

def new : StateInConstruction := ⟨false, none, []⟩
def setDefaultSuccessor (s : StateInConstruction) (n : Nat) : StateInConstruction :=
  { s with defaultSuccessor := some n }
def addTransition (s : StateInConstruction) (set : CharSet) (n : Nat) : StateInConstruction :=
  { s with transitions := s.transitions ++ [(set, n)] }

/-- the loop of `maj_candidate` over `s[1..]` (Boyer–Moore, first pass) -/
def majLoop : Nat → Nat → List (CharSet × Nat) → Nat
  | maj, _, [] => maj
  | maj, k, (_, x) :: rest =>
    if k = 0 then majLoop x 1 rest
    else if x = maj then majLoop maj (k + 1) rest
    else majLoop maj (k - 1) rest

/-- `maj_candidate(s)`: `none` = `s[0]` on an empty slice (never called so) -/
def majCandidate : List (CharSet × Nat) → Option Nat
  | [] => none
  | (_, m) :: rest => some (majLoop m 1 rest)

/-- `count(s, m)` -/
def count (m : Nat) : List (CharSet × Nat) → Nat
  | [] => 0
  | (_, x) :: rest => if x = m then count m rest + 1 else count m rest

/-- `choose_default_successor()` -/
def chooseDefaultSuccessor (s : StateInConstruction) : StateInConstruction :=
  if s.defaultSuccessor.isNone && !s.transitions.isEmpty then
    match majCandidate s.transitions with
    | none => s                                  -- unreachable: the slice is non-empty
    | some m =>
      let n := count m s.transitions
      if n ≥ s.transitions.length / 2 then s.setDefaultSuccessor m else s
  else s

/-- `remove_transitions_to_default()` -/
def removeTransitionsToDefault (s : StateInConstruction) : StateInConstruction :=
  match s.defaultSuccessor with
  | some i => { s with transitions := s.transitions.filter (fun x => x.2 ≠ i) }
  | none => s

def cleanup (s : StateInConstruction) : StateInConstruction :=
  s.chooseDefaultSuccessor.removeTransitionsToDefault

def makePartition (s : StateInConstruction) : Except Err CharPartition :=
  CharPartition.tryFromList (s.transitions.map (·.1))

/-- the loop of `make_successor`: `none` = `panic!()` (the label start is in no interval) or
    `result[i]` out of bounds -/
def makeSuccessorLoop (p : CharPartition) : List (CharSet × Nat) → List Nat → Option (List Nat)
  | [], result => some result
  | (set, t) :: rest, result =>
    match p.classOfChar set.pick with
    | .interval i =>
      if i < result.length then makeSuccessorLoop p rest (result.set i t) else none
    | .complement => none

def makeSuccessor (s : StateInConstruction) (p : CharPartition) : Option (List Nat) :=
  makeSuccessorLoop p s.transitions (List.replicate p.len 0)

/-- the body of the loop of `build` for the state with index `i`:
    outer `none` = panic, `.error` = the `Err` returned -/
def buildState (i : Nat) (s : StateInConstruction) : Option (Except Err State) :=
  match s.makePartition with
  | .error e => some (.error e)
  | .ok given =>
    if s.defaultSuccessor.isSome && given.emptyComplement then
      some (.error .EmptyComplementaryClass)
    else if s.defaultSuccessor.isNone && !given.emptyComplement then
      some (.error .MissingDefaultSuccessor)
    else
      let s' := s.cleanup
      match s'.makePartition with
      | .error e => some (.error e)
      | .ok p =>
        match s'.makeSuccessor p with
        | none => none
        | some succ =>
          some (.ok { id := i, isFinal := s'.isFinal, classes := p, successor := succ,
                      defaultSuccessor := s'.defaultSuccessor })

/-- the body of the loop of `build_unchecked`: `none` = panic (`unwrap` of the partition error,
    or `make_successor`) -/
def buildStateUnchecked (i : Nat) (s : StateInConstruction) : Option State :=
  let s' := s.cleanup
  match s'.makePartition with
  | .error _ => none
  | .ok p =>
    match s'.makeSuccessor p with
    | none => none
    | some succ =>
      some { id := i, isFinal := s'.isFinal, classes := p, successor := succ,
             defaultSuccessor := s'.defaultSuccessor }

end StateInConstruction

/-! ### AutomatonBuilder<Nat> -/

structure Builder where
  size : Nat
  idMap : List (Nat × Nat)
  states : List StateInConstruction
deriving DecidableEq, Repr

/-- the calls a client can make between `new` and `build` -/
inductive BuilderOp where
  | addTransition (k : Nat) (set : CharSet) (k' : Nat)
  | setDefault (k k' : Nat)
  | markFinal (k : Nat)
deriving DecidableEq, Repr

namespace Builder

def empty : Builder := ⟨0, [], []⟩

/-- `get_state_id(state)` -/
def getStateId (b : Builder) (k : Nat) : Builder × Nat :=
  match b.idMap.lookup k with
  | some i => (b, i)
  | none =>
    ({ size := b.size + 1, idMap := b.idMap ++ [(k, b.size)],
       states := b.states ++ [StateInConstruction.new] }, b.size)

/-- `AutomatonBuilder::new(initial_state)` -/
def new (k0 : Nat) : Builder := (empty.getStateId k0).1

/-- `mark_final(state)`; `self.states[i]` is in bounds by the builder invariant
    (Proofs/AutomatonBuilder `inv_run`), so `modify` never falls through -/
def markFinal (b : Builder) (k : Nat) : Builder :=
  let (b, i) := b.getStateId k
  { b with states := b.states.modify i (fun s => { s with isFinal := true }) }

/-- `set_default_successor(state, next)` -/
def setDefaultSuccessor (b : Builder) (k k' : Nat) : Builder :=
  let (b, i) := b.getStateId k
  let (b, j) := b.getStateId k'
  { b with states := b.states.modify i (fun s => s.setDefaultSuccessor j) }

/-- `add_transition(state, set, next)` -/
def addTransition (b : Builder) (k : Nat) (set : CharSet) (k' : Nat) : Builder :=
  let (b, i) := b.getStateId k
  let (b, j) := b.getStateId k'
  { b with states := b.states.modify i (fun s => s.addTransition set j) }

def step (b : Builder) : BuilderOp → Builder
  | .addTransition k set k' => b.addTransition k set k'
  | .setDefault k k' => b.setDefaultSuccessor k k'
  | .markFinal k => b.markFinal k

/-- `new(k0)` followed by the calls `ops` -/
def run (k0 : Nat) (ops : List BuilderOp) : Builder := ops.foldl step (new k0)

/-- the loop of `build` over `self.states.iter_mut().enumerate()` -/
def buildLoop : Nat → List StateInConstruction → Nat → Option (Except Err (List State × Nat))
  | _, [], nf => some (.ok ([], nf))
  | i, s :: rest, nf =>
    match s.buildState i with
    | none => none
    | some (.error e) => some (.error e)
    | some (.ok st) =>
      match buildLoop (i + 1) rest (if st.isFinal then nf + 1 else nf) with
      | none => none
      | some (.error e) => some (.error e)
      | some (.ok (sts, nf')) => some (.ok (st :: sts, nf'))

/-- `build()`: outer `none` = panic -/
def build (b : Builder) : Option (Except Err Automaton) :=
  match buildLoop 0 b.states 0 with
  | none => none
  | some (.error e) => some (.error e)
  | some (.ok (sts, nf)) =>
    some (.ok { numStates := b.size, numFinalStates := nf, initialState := 0, states := sts })

/-- the loop of `build_unchecked` -/
def buildUncheckedLoop : Nat → List StateInConstruction → Nat → Option (List State × Nat)
  | _, [], nf => some ([], nf)
  | i, s :: rest, nf =>
    match s.buildStateUnchecked i with
    | none => none
    | some st =>
      match buildUncheckedLoop (i + 1) rest (if st.isFinal then nf + 1 else nf) with
      | none => none
      | some (sts, nf') => some (st :: sts, nf')

/-- `build_unchecked()`: `none` = panic -/
def buildUnchecked (b : Builder) : Option Automaton :=
  match buildUncheckedLoop 0 b.states 0 with
  | none => none
  | some (sts, nf) =>
    some { numStates := b.size, numFinalStates := nf, initialState := 0, states := sts }

end Builder
end Smt
