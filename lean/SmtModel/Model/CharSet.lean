/-
  Model of `character_sets::CharSet` (src/character_sets.rs:59-325), function by function.
  u32 subtraction sites are kept under the guard the Rust has; `sub1?` records where the
  Rust would underflow (`none` = panic in a dev build, wrap in release).
-/
import SmtModel.Model.Basic

namespace Smt

structure CharSet where
  start : Nat
  stop  : Nat          -- `end` in the Rust
deriving DecidableEq, Repr, Hashable

namespace CharSet

/-- the invariant documented for the type: `start <= end <= MAX_CHAR` -/
def WF (s : CharSet) : Prop := s.start ≤ s.stop ∧ s.stop ≤ MAX_CHAR

instance (s : CharSet) : Decidable s.WF := by unfold WF; infer_instance

def singleton (x : Nat) : CharSet := ⟨x, x⟩
def range (x y : Nat) : CharSet := ⟨x, y⟩
def allChars : CharSet := ⟨0, MAX_CHAR⟩

def contains (s : CharSet) (x : Nat) : Bool := s.start ≤ x && x ≤ s.stop
def covers (s other : CharSet) : Bool := s.start ≤ other.start && other.stop ≤ s.stop
def isBefore (s : CharSet) (x : Nat) : Bool := s.stop < x
def isAfter (s : CharSet) (x : Nat) : Bool := x < s.start
/-- `self.end - self.start + 1` (u32; no underflow when WF) -/
def size (s : CharSet) : Nat := s.stop - s.start + 1
def isSingleton (s : CharSet) : Bool := s.start == s.stop
def isAlphabet (s : CharSet) : Bool := s.start == 0 && s.stop == MAX_CHAR
def pick (s : CharSet) : Nat := s.start

def inter (s other : CharSet) : Option CharSet :=
  let maxStart := max s.start other.start
  let minEnd := min s.stop other.stop
  if maxStart ≤ minEnd then some (range maxStart minEnd) else none

/-- `inter_list`: alphabet for the empty slice, otherwise fold from `a[0]` with early exit -/
def interListAux (result : CharSet) : List CharSet → Option CharSet
  | [] => some result
  | s :: rest =>
    match result.inter s with
    | none => none
    | some x => interListAux x rest

def interList : List CharSet → Option CharSet
  | [] => some allChars
  | a0 :: rest => interListAux a0 rest

/-- `x - 1` on u32: `none` where the Rust would underflow -/
def sub1? (x : Nat) : Option Nat := if x = 0 then none else some (x - 1)

/-- `union`, with the subtraction sites explicit.  The outer `Option` is the panic channel
    (never taken: theorem `union_no_underflow`), the inner one is the Rust result. -/
def unionChecked (s other : CharSet) : Option (Option CharSet) :=
  let maxEnd := max s.stop other.stop
  if s.start == other.start then some (some (range s.start maxEnd))
  else if s.start < other.start then
    match sub1? other.start with
    | none => none
    | some p =>
      if s.stop ≥ p then some (some (range s.start maxEnd))
      else -- falls to the second test; `other.start < self.start` is false here
        some none
  else -- other.start < s.start
    match sub1? s.start with
    | none => none
    | some p =>
      if other.stop ≥ p then some (some (range other.start maxEnd)) else some none

/-- `union` as the Rust computes it when no subtraction underflows -/
def union (s other : CharSet) : Option CharSet :=
  let maxEnd := max s.stop other.stop
  if s.start == other.start || (s.start < other.start && s.stop ≥ other.start - 1) then
    some (range s.start maxEnd)
  else if other.start < s.start && other.stop ≥ s.start - 1 then
    some (range other.start maxEnd)
  else none

/-- `impl PartialOrd for CharSet` -/
def partialCmp (s other : CharSet) : Option Ordering :=
  if s == other then some .eq
  else if s.stop < other.start then some .lt
  else if s.start > other.stop then some .gt
  else none

end CharSet
end Smt
