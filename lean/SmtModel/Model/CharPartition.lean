/-
  Model of `character_sets::CharPartition`, `merge_partitions`, `merge_partition_list`
  (src/character_sets.rs:410-1176).

  `none` results model panics (index out of bounds, failed assertion); `Except Err` models
  `Result<_, Error>`.
-/
import SmtModel.Model.CharSet

namespace Smt

/-- `errors::Error` -/
inductive Err where
  | UndefinedDerivative | EmptyComplementaryClass | AmbiguousCharSet | BadClassId
  | NonDisjointCharSets | MissingDefaultSuccessor
deriving DecidableEq, Repr

inductive ClassId where
  | interval (i : Nat)
  | complement
deriving DecidableEq, Repr, Hashable

inductive CoverResult where
  | coveredBy (i : Nat)
  | disjointFromAll
  | overlaps
deriving DecidableEq, Repr

structure CharPartition where
  list : List CharSet
  compWitness : Nat
deriving DecidableEq, Repr, Hashable

namespace CharPartition

def len (p : CharPartition) : Nat := p.list.length
def new : CharPartition := ⟨[], 0⟩

def fromSet (c : CharSet) : CharPartition :=
  ⟨[c], if c.start > 0 then 0 else c.stop + 1⟩

/-- stable insertion sort by `start` (Rust: `sort_by_key`, a stable sort) -/
def insertByStart (c : CharSet) : List CharSet → List CharSet
  | [] => [c]
  | d :: rest => if c.start ≤ d.start then c :: d :: rest else d :: insertByStart c rest

def sortByStart : List CharSet → List CharSet
  | [] => []
  | c :: rest => insertByStart c (sortByStart rest)

/-- the sweep of `try_from_iter` over the sorted vector: overlap test against the previous
    interval and witness update -/
def sweep (prevEnd : Nat) (w : Nat) : List CharSet → Except Err Nat
  | [] => .ok w
  | c :: rest =>
    if c.start ≤ prevEnd then .error .NonDisjointCharSets
    else sweep c.stop (if c.start ≤ w then c.stop + 1 else w) rest

def tryFromList (l : List CharSet) : Except Err CharPartition :=
  -- a stable sort: elements with equal `start` keep their input order
  let v := sortByStart l
  match v with
  | [] => .ok ⟨[], 0⟩
  | c0 :: rest =>
    let w0 := if c0.start ≤ 0 then c0.stop + 1 else 0
    match sweep c0.stop w0 rest with
    | .error e => .error e
    | .ok w => .ok ⟨v, w⟩

/-- `push` (its `debug_assert!`s are preconditions, see Props/C11 `push_wf`) -/
def push (p : CharPartition) (start stop : Nat) : CharPartition :=
  ⟨p.list ++ [⟨start, stop⟩], if start ≤ p.compWitness then stop + 1 else p.compWitness⟩

/-- `push` in a build with `debug_assert!` enabled (dev profile): `none` = one of the two
    assertions of `push` fails (character_sets.rs:565-566) -/
def pushChecked (p : CharPartition) (start stop : Nat) : Option CharPartition :=
  if ¬ (start ≤ stop ∧ stop ≤ MAX_CHAR) then none
  else
    match p.list.getLast? with
    | none => some (p.push start stop)
    | some last => if start > last.stop then some (p.push start stop) else none

/-- `new()` followed by a sequence of `push`es, with the debug assertions on -/
def pushSeqChecked : CharPartition → List CharSet → Option CharPartition
  | p, [] => some p
  | p, c :: rest =>
    match p.pushChecked c.start c.stop with
    | none => none
    | some q => pushSeqChecked q rest

def isEmpty (p : CharPartition) : Bool := p.list.isEmpty

def get (p : CharPartition) (i : Nat) : Nat × Nat :=
  match p.list[i]? with
  | some r => (r.start, r.stop)
  | none => (MAX_CHAR + 1, MAX_CHAR + 1)

/-- `interval(i)`: panics when out of bounds -/
def interval (p : CharPartition) (i : Nat) : Option CharSet := p.list[i]?

def startOf (p : CharPartition) (i : Nat) : Nat := (p.get i).1
def endOf (p : CharPartition) (i : Nat) : Nat := (p.get i).2

/-- `pick(i)`: panics when out of bounds -/
def pick (p : CharPartition) (i : Nat) : Option Nat := (p.list[i]?).map (·.start)

def emptyComplement (p : CharPartition) : Bool := p.compWitness > MAX_CHAR
def pickComplement (p : CharPartition) : Nat := p.compWitness

def validClassId (p : CharPartition) : ClassId → Bool
  | .interval i => i < p.len
  | .complement => !p.emptyComplement

def numClasses (p : CharPartition) : Nat := if p.emptyComplement then p.len else p.len + 1

/-- `pick_in_class`: `none` = panic -/
def pickInClass (p : CharPartition) : ClassId → Option Nat
  | .interval i => p.pick i
  | .complement => if p.emptyComplement then none else some p.pickComplement

/-- what `class_ids()` yields, in order -/
def classIds (p : CharPartition) : List ClassId :=
  (List.range p.len).map ClassId.interval ++ (if p.emptyComplement then [] else [ClassId.complement])

/-- what `picks()` yields, in order -/
def picks (p : CharPartition) : List Nat :=
  p.list.map (·.start) ++ (if p.emptyComplement then [] else [p.compWitness])

/-- binary search of `class_of_char` on `[i, j)` -/
def classOfCharAux (l : List CharSet) (x : Nat) (i j : Nat) : ClassId :=
  if _h : i < j then
    let m := i + (j - i) / 2
    match l[m]? with
    | none => .complement       -- unreachable when j ≤ l.length
    | some s =>
      if s.contains x then .interval m
      else if s.isBefore x then classOfCharAux l x (m + 1) j
      else classOfCharAux l x i m
  else .complement
termination_by j - i
decreasing_by all_goals omega

def classOfChar (p : CharPartition) (x : Nat) : ClassId := classOfCharAux p.list x 0 p.len

/-- binary search of `interval_cover`: largest `i` with `a_i <= x`, or 0 -/
def coverSearch (l : List CharSet) (x : Nat) (i j : Nat) : Nat :=
  if _h : i + 1 < j then
    let m := i + (j - i) / 2
    match l[m]? with
    | none => i
    | some s => if s.start ≤ x then coverSearch l x m j else coverSearch l x i m
  else i
termination_by j - i
decreasing_by all_goals omega

def intervalCover (p : CharPartition) (set : CharSet) : CoverResult :=
  let a := set.start
  let b := set.stop
  let i := coverSearch p.list a 0 p.len
  let (ai, bi) := p.get i
  if a < ai then
    if b < ai then .disjointFromAll else .overlaps
  else if a ≤ bi then
    if b ≤ bi then .coveredBy i else .overlaps
  else
    let nextA := p.startOf (i + 1)
    if b < nextA then .disjointFromAll else .overlaps

/-- `interval_cover` in a build with `debug_assert!` enabled (dev profile): `none` = the
    assertion `a <= b && b <= MAX_CHAR` (line 914) or `i == 0` (line 920) fails.
    Props/C11 `interval_cover_no_assert`: never `none` for a WF partition and a WF set. -/
def intervalCoverChecked (p : CharPartition) (set : CharSet) : Option CoverResult :=
  let a := set.start
  let b := set.stop
  if ¬ (a ≤ b ∧ b ≤ MAX_CHAR) then none
  else
    let i := coverSearch p.list a 0 p.len
    let (ai, _) := p.get i
    if a < ai ∧ i ≠ 0 then none else some (p.intervalCover set)

def classOfSet (p : CharPartition) (s : CharSet) : Except Err ClassId :=
  match p.intervalCover s with
  | .coveredBy i => .ok (.interval i)
  | .disjointFromAll => .ok .complement
  | .overlaps => .error .AmbiguousCharSet

def goodCharSet (p : CharPartition) (c : CharSet) : Bool :=
  match p.intervalCover c with
  | .overlaps => false
  | _ => true

end CharPartition

/-- `next_interval(p, i)` -/
def nextInterval (p : CharPartition) (i : Nat) : Nat × Nat × Nat :=
  let (x, y) := p.get i
  (i + 1, x, y)

/-- the sweep of `merge_partitions`; `fuel` bounds the number of iterations
    (`mergeFuel` is always enough: Props/C12 `merge_fuel_sufficient`) -/
def mergeLoop (p1 p2 : CharPartition) :
    Nat → (Nat × Nat × Nat) → (Nat × Nat × Nat) → CharPartition → Option CharPartition
  | 0, _, _, _ => none
  | fuel + 1, (i, a, b), (j, c, d), result =>
    if b ≤ MAX_CHAR || d ≤ MAX_CHAR then
      if b < c then mergeLoop p1 p2 fuel (nextInterval p1 i) (j, c, d) (result.push a b)
      else if d < a then mergeLoop p1 p2 fuel (i, a, b) (nextInterval p2 j) (result.push c d)
      else if c < a then mergeLoop p1 p2 fuel (i, a, b) (j, a, d) (result.push c (a - 1))
      else if a < c then mergeLoop p1 p2 fuel (i, c, b) (j, c, d) (result.push a (c - 1))
      else if b < d then mergeLoop p1 p2 fuel (nextInterval p1 i) (j, b + 1, d) (result.push a b)
      else if d < b then mergeLoop p1 p2 fuel (i, d + 1, b) (nextInterval p2 j) (result.push c d)
      else mergeLoop p1 p2 fuel (nextInterval p1 i) (nextInterval p2 j) (result.push a b)
    else some result

def mergeFuel (p1 p2 : CharPartition) : Nat := 2 * (p1.len + p2.len) + 2

/-- `merge_partitions`; `none` would mean the fuel did not suffice (never: see Props/C12) -/
def mergePartitions? (p1 p2 : CharPartition) : Option CharPartition :=
  mergeLoop p1 p2 (mergeFuel p1 p2) (nextInterval p1 0) (nextInterval p2 0) CharPartition.new

def mergePartitions (p1 p2 : CharPartition) : CharPartition :=
  (mergePartitions? p1 p2).getD CharPartition.new

def mergePartitionList (l : List CharPartition) : CharPartition :=
  l.foldl mergePartitions CharPartition.new

end Smt
