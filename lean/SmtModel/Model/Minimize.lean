/-
  C04 — specification-level model of `Automaton::minimize` and the verified checker
  (DESIGN.md §1 decision (b), §7 C04, §11).

  What is modelled here is NOT Hopcroft's algorithm (`minimizer.rs`, ~550 lines of splitter /
  pred-class bookkeeping): it is the Moore / Myhill–Nerode quotient, plus a checker
  `checkMinimized A A'` that decides whether a candidate result `A'` (in practice: what the real
  `minimize()` returned for `A`) is a correct minimization of `A`.  `Props/C04.lean` proves what
  `checkMinimized A A' = true` implies; the correspondence run feeds every output of the real
  `minimize` to the checker.  `Partition::refine_block(_with_fun)` is modelled faithfully in
  `Model/Partition.lean`; Hopcroft's algorithm itself (`minimizer.rs`, `fast_sets.rs`,
  `StateMapping::from_partition`, the call sequence of `minimize`) is modelled line by line in
  `Model/Hopcroft.lean` / `Model/FastSet.lean` and proved against the specification of this file
  (`Props/C04.lean`: `hopcroft_correct`, `minimize_model_passes_check`).

  * `wfAut A`          decidable well-formedness = "complete DFA as the crate hands them out":
                       `num_states` = length of the state array, `id` = index, every per-state
                       `CharPartition` well formed, one successor per interval, successors /
                       default / initial state in range, a default successor whenever the
                       complementary class is non-empty.  Under `wfAut`, `next` is defined for
                       every state and every character `≤ MAX_CHAR` (Proofs/Minimize `next_some`).
  * `alphabetOf A`     `pick_alphabet()`; `alphabetOf2 A A'` the picks of the merge of the two
                       combined partitions
  * `moore A`          partition refinement: start with the split by finality, then repeat
                       "two states stay together iff same block and, for every representative `c`,
                       their successors are in the same block", until nothing changes, at most
                       `n` rounds.  A partition is a `List Nat` (block id per state), numbered
                       canonically by first occurrence.
  * `quotient A blk`   one state per block, representative = smallest state of the block, built
                       with the model of the real `remap_nodes` (`Automaton.remapNodes`).
  * `checkMinimized`   see below.

  The total functions `stepD` / `finD` return 0 / false where the automaton has no such state or
  `next` panics; under `wfAut` (which the checker tests first) these defaults are never used.
-/
import SmtModel.Model.Automaton

namespace Smt
namespace Minimize

/-! ### canonical numbering -/

/-- the distinct values of a list, in order of first occurrence -/
def firstOccs {α} [DecidableEq α] : List α → List α
  | [] => []
  | x :: l => x :: (firstOccs l).filter (fun y => y ≠ x)

/-- replace every value by the rank of its first occurrence -/
def canon {α} [DecidableEq α] (l : List α) : List Nat :=
  let d := firstOccs l
  l.map (fun x => d.idxOf x)

/-- number of blocks of a partition given as block id per element -/
def numBlocks (blk : List Nat) : Nat := (firstOccs blk).length

/-- every element alone in its block (for a canonically numbered partition) -/
def isDiscrete (blk : List Nat) : Bool := blk == List.range blk.length

/-! ### Moore refinement on an abstract complete DFA

  states `0 … n-1`, `fin s`, `δ s c` for the letters `c` of `alphabet` -/

/-- block of `s`, then the blocks of its successors -/
def sig (δ : Nat → Nat → Nat) (alphabet : List Nat) (blk : List Nat) (s : Nat) : List Nat :=
  blk.getD s 0 :: alphabet.map (fun c => blk.getD (δ s c) 0)

/-- one round -/
def refineStep (n : Nat) (δ : Nat → Nat → Nat) (alphabet : List Nat) (blk : List Nat) : List Nat :=
  canon ((List.range n).map (sig δ alphabet blk))

/-- at most `r` more rounds, stopping as soon as a round changes nothing -/
def mooreIter (n : Nat) (δ : Nat → Nat → Nat) (alphabet : List Nat) : Nat → List Nat → List Nat
  | 0, blk => blk
  | r + 1, blk =>
    let blk' := refineStep n δ alphabet blk
    if blk' = blk then blk else mooreIter n δ alphabet r blk'

def mooreAbs (n : Nat) (fin : Nat → Bool) (δ : Nat → Nat → Nat) (alphabet : List Nat) : List Nat :=
  mooreIter n δ alphabet n (canon ((List.range n).map fin))

/-! ### automata -/

/-- well-formedness of a stored partition, executable: intervals WF and `try_from_iter` of the
    interval list gives back the partition (sorted, disjoint, witness = least non-member) -/
def wfPart (p : CharPartition) : Bool :=
  p.list.all (fun c => decide c.WF) &&
  (match CharPartition.tryFromList p.list with
   | .ok q => decide (q = p)
   | .error _ => false)

def wfState (n i : Nat) (s : State) : Bool :=
  s.id == i && wfPart s.classes && s.successor.length == s.classes.len &&
  s.successor.all (fun j => decide (j < n)) &&
  (match s.defaultSuccessor with
   | some d => decide (d < n)
   | none => s.classes.emptyComplement)

def wfAut (A : Automaton) : Bool :=
  A.numStates == A.states.length && decide (A.initialState < A.states.length) &&
  A.states.zipIdx.all (fun p => wfState A.states.length p.2 p.1)

/-- index of `next(state i, c)` -/
def stepIdx (A : Automaton) (i c : Nat) : Option Nat :=
  match A.states[i]? with
  | none => none
  | some st => (A.next st c).map (·.id)

def stepD (A : Automaton) (i c : Nat) : Nat := (stepIdx A i c).getD 0

def finD (A : Automaton) (i : Nat) : Bool :=
  match A.states[i]? with
  | some s => s.isFinal
  | none => false

/-- representatives of the character classes of `A` -/
def alphabetOf (A : Automaton) : List Nat := A.pickAlphabet

/-- representatives of the common refinement of the character classes of `A` and `A'` -/
def alphabetOf2 (A A' : Automaton) : List Nat :=
  (mergePartitions A.combinedCharPartition A'.combinedCharPartition).picks

/-- the Moore partition of the states of `A` -/
def moore (A : Automaton) : List Nat :=
  mooreAbs A.states.length (finD A) (stepD A) (alphabetOf A)

/-- smallest state of every block, in block order (`none`: a block id without element) -/
def blockReps (blk : List Nat) : Option (List Nat) :=
  mapOpt (fun b => let i := blk.idxOf b; if i < blk.length then some i else none)
    (List.range (numBlocks blk))

/-- the quotient automaton: `remap_nodes` with `new_id` = block id and `old_id` = smallest state
    of the block (the real `from_partition` takes `pick_element(b)`, the first element of the
    block in Hopcroft's segment array: an implementation artefact) -/
def quotient (A : Automaton) (blk : List Nat) : Option Automaton :=
  match blockReps blk with
  | none => none
  | some reps => A.remapNodes ⟨blk, reps⟩

/-! ### the checker -/

/-- Moore partition of the disjoint union: states of `A` first, then those of `A'` -/
def unionBlocks (A A' : Automaton) : List Nat :=
  let n := A.states.length
  let n' := A'.states.length
  mooreAbs (n + n')
    (fun i => if i < n then finD A i else finD A' (i - n))
    (fun i c => if i < n then stepD A i c else n + stepD A' (i - n) c)
    (alphabetOf2 A A')

/-- untrusted search for the homomorphism: each state of `A` goes to the state of `A'` in the same
    block of the union (the first one) -/
def findHom (A A' : Automaton) : Option (List Nat) :=
  let n := A.states.length
  let blk := unionBlocks A A'
  let blkA' := blk.drop n
  mapOpt (fun b => let j := blkA'.idxOf b; if j < blkA'.length then some j else none) (blk.take n)

/-- `h` (a list: image of every state of `A`) is a surjective homomorphism `A → A'` on the
    letters of `alphabet` -/
def checkHom (A A' : Automaton) (h : List Nat) (alphabet : List Nat) : Bool :=
  let n := A.states.length
  let n' := A'.states.length
  h.length == n && h.all (fun t => decide (t < n')) &&
  h[A.initialState]? == some A'.initialState &&
  (List.range n).all (fun s =>
    match h[s]? with
    | none => false
    | some t =>
      finD A' t == finD A s &&
      alphabet.all (fun c => h[stepD A s c]? == some (stepD A' t c))) &&
  (List.range n').all (fun t => h.contains t)

/-- `num_final_states` is the number of final states -/
def countsOk (A : Automaton) : Bool :=
  A.numFinalStates == (A.states.filter (·.isFinal)).length

/-- Is `A'` a correct minimization of `A`?
    (0) both are well-formed complete DFAs; (1)+(2) a surjective homomorphism `A → A'` is found
    and verified on the representatives of the merged alphabet partition; (3) the Moore partition
    of `A'` is discrete; (4) `num_final_states` of `A'` is consistent (ids, `num_states` and the
    initial state are part of `wfAut`). -/
def checkMinimized (A A' : Automaton) : Bool :=
  wfAut A && wfAut A' &&
  (match findHom A A' with
   | none => false
   | some h => checkHom A A' h (alphabetOf2 A A')) &&
  isDiscrete (moore A') &&
  countsOk A'

end Minimize
end Smt
