/-
  C07 (store level) — the hash-consing discipline of `src/store.rs` and of
  `ReManager::new / make / complement` in `src/regular_expressions.rs`.

  * `Store κ`      mirror of `Store<T>`: the keys in allocation order; the id of a key is its
                   position (`counter` at allocation time).  The `HashMap<Key,&'static T>` is
                   the function "position of the key in the list" (a key is inserted exactly when
                   it is allocated, nothing is ever removed), the leaked object of id `i` is
                   position `i` of the list: "same object" = "same position".
  * `Node`         `BaseRegLan` with every `RegLan` child replaced by its id.  `BaseRegLan`
                   derives `PartialEq/Eq/Hash`, and `RE` compares/hashes **by id**, so this is
                   exactly the key the Rust store sees.
  * `ReStore`      `ReManager` restricted to `store` and `id2re` (the derivative cache and the
                   five shortcut fields do not take part in the id discipline).
  * `checkTable`   the executable well-formedness check of a dumped term table, run by the driver
                   (family `store`) on every table the harness dumps.

  `none` = the real code panics at that site (`id2re[..]` out of bounds, or a `debug_assert!`
  of `ReManager::make` fails in the dev profile).

  Core Lean + Std only: linked into `smtdriver`.
-/
import SmtModel.Model.Basic
import Std.Data.HashSet

namespace Smt

/-! ### generic store (`src/store.rs`) -/

/-- `Store<T>`: keys in allocation order; `counter = keys.length` -/
structure Store (κ : Type) where
  keys : List κ
deriving Repr

namespace Store
variable {κ : Type} [DecidableEq κ]

/-- `Store::new` -/
def new : Store κ := ⟨[]⟩

/-- the field `counter` (= `len()`) -/
def counter (s : Store κ) : Nat := s.keys.length

/-- `Store::make`: `Entry::Occupied` → the existing object; `Entry::Vacant` → a fresh object
    with id `counter`, `counter += 1`.  Returns (store', id of the object, was it allocated). -/
def make (s : Store κ) (k : κ) : Store κ × Nat × Bool :=
  match s.keys.idxOf? k with
  | some i => (s, i, false)
  | none => (⟨s.keys ++ [k]⟩, s.counter, true)

end Store

/-! ### keys of the regular-expression store -/

/-- `BaseRegLan` over ids.  `range a b` is `Range(CharSet{start:a,end:b})`,
    `loop e lo hi` is `Loop(e, LoopRange(lo, hi))` with `hi = none` for `+∞`. -/
inductive Node where
  | empty
  | epsilon
  | range (a b : Nat)
  | concat (l r : Nat)
  | loop (e : Nat) (lo : Nat) (hi : Option Nat)
  | compl (e : Nat)
  | union (l : List Nat)
  | inter (l : List Nat)
deriving DecidableEq, Repr, Hashable

namespace Node

/-- ids of the direct sub-terms -/
def children : Node → List Nat
  | empty => []
  | epsilon => []
  | range _ _ => []
  | concat l r => [l, r]
  | loop e _ _ => [e]
  | compl e => [e]
  | union l => l
  | inter l => l

def isCompl : Node → Bool
  | compl _ => true
  | _ => false

/-- `Complement(x)` is only ever requested for an `x` with an even id (the term itself, not its
    complement).  The public API never passes a `Complement` to `ReManager::make` at all
    (`complement` uses `id ^ 1`); this is the precondition under which that arm is meaningful. -/
def complArgEven : Node → Bool
  | compl x => x % 2 == 0
  | _ => true

end Node

/-- the six terms `ReManager::new` creates, in id order:
    `sigma`, `not_sigma`, `empty`, `sigma_star`, `epsilon`, `sigma_plus` -/
def initNodes : List Node :=
  [.range 0 MAX_CHAR, .compl 0, .empty, .loop 0 0 none, .epsilon, .loop 0 1 none]

/-! ### `ReManager` (id discipline only) -/

/-- `ReManager { store, id2re, .. }`; `id2re[i]` is (the id of) the term the manager hands out
    for id `i` -/
structure ReStore where
  store : Store Node
  id2re : List Nat
deriving Repr

namespace ReStore

/-- `ReManager::new`.  The six `debug_assert_eq!(x.id, k)` hold: `new_id2re` below. -/
def new : ReStore :=
  let store : Store Node := Store.new
  let (store, sigma, _) := store.make (.range 0 MAX_CHAR)
  let (store, notSigma, _) := store.make (.compl sigma)
  let (store, empty, _) := store.make .empty
  let (store, sigmaStar, _) := store.make (.loop sigma 0 none)
  let (store, epsilon, _) := store.make .epsilon
  let (store, sigmaPlus, _) := store.make (.loop sigma 1 none)
  { store := store, id2re := [sigma, notSigma, empty, sigmaStar, epsilon, sigmaPlus] }

/-- the keys of the store, in id order -/
def table (m : ReStore) : List Node := m.store.keys

/-- `verif_num_terms` = `id2re.len()` -/
def size (m : ReStore) : Nat := m.id2re.length

/-- `id_to_re`: `self.id2re[id]`, panics when out of bounds -/
def idToRe (m : ReStore) (id : Nat) : Option Nat := m.id2re[id]?

/-- the `_ =>` arm of `ReManager::make` (any `ast` that is not a `Complement`) -/
def makeOther (m : ReStore) (ast : Node) : Option (ReStore × Nat) :=
  let i := m.store.counter
  if i ≠ m.id2re.length then none            -- debug_assert!(i == self.id2re.len())
  else
    let (st1, x, _) := m.store.make ast
    if ¬ x ≤ i then none                      -- debug_assert!(x.id <= i)
    else if x = i then
      -- new term
      let (st2, y, _) := st1.make (.compl x)
      if y ≠ i + 1 then none                  -- debug_assert!(y.id == i + 1)
      else some ({ store := st2, id2re := m.id2re ++ [x, y] }, x)
    else some ({ store := st1, id2re := m.id2re }, x)

/-- `ReManager::make`.
    * `Complement(x)` ↦ `id_to_re(x.id + 1)` (no look-up, no allocation);
    * otherwise `store.make(ast)`; if the result is new (`x.id == i`, `i` the counter before),
      `Complement(x)` is allocated right after it and both are pushed on `id2re`.
    The three `debug_assert!`s are `none` when they fail. -/
def make (m : ReStore) (ast : Node) : Option (ReStore × Nat) :=
  match ast with
  | .compl x => (m.idToRe (x + 1)).map fun r => (m, r)
  | _ => m.makeOther ast

/-- `ReManager::complement`: `id_to_re(e.id ^ 1)` -/
def complement (m : ReStore) (id : Nat) : Option Nat := m.idToRe (id ^^^ 1)

/-- what the harness dumps: for `i < verif_num_terms()`, the key of the object `verif_term(i)`
    (`none`: no such object) -/
def dump (m : ReStore) : List (Option Node) := m.id2re.map fun j => m.store.keys[j]?

end ReStore

/-- the id arithmetic of `complement` -/
def complementId (id : Nat) : Nat := id ^^^ 1

/-- one call on a manager -/
inductive Op where
  | make (n : Node)
  | complement (id : Nat)
deriving DecidableEq, Repr

namespace Op

/-- state after the call; `none` = the call panics -/
def apply (m : ReStore) : Op → Option ReStore
  | .make n => (m.make n).map (·.1)
  | .complement id => (m.complement id).map fun _ => m

/-- the arguments are terms of this manager (what the Rust type `RegLan` arguments are,
    as long as terms of different managers are not mixed) -/
def validIn (m : ReStore) : Op → Bool
  | .make n => n.children.all (· < m.size) && n.complArgEven
  | .complement id => id < m.size

end Op

/-- run a history from a given state -/
def runFrom (m : ReStore) : List Op → Option ReStore
  | [] => some m
  | op :: rest =>
    match op.apply m with
    | none => none
    | some m' => runFrom m' rest

/-- run a history on a fresh manager -/
def run (ops : List Op) : Option ReStore := runFrom ReStore.new ops

/-- every call of the history has arguments that exist at the time of the call
    (nothing is required of calls after a panic: the run has stopped there) -/
def validFrom (m : ReStore) : List Op → Bool
  | [] => true
  | op :: rest =>
    op.validIn m &&
      match op.apply m with
      | none => true
      | some m' => validFrom m' rest

def validOps (ops : List Op) : Bool := validFrom ReStore.new ops

/-! ### checker for dumped tables -/

namespace Table

/-- (a) the first six entries are the built-in terms -/
def checkInit (t : Array Node) : Bool := t.toList.take 6 == initNodes

/-- (b) terms come in pairs -/
def checkEven (t : Array Node) : Bool := t.size % 2 == 0

def noDupAux : List Node → Std.HashSet Node → Bool
  | [], _ => true
  | n :: rest, seen => if seen.contains n then false else noDupAux rest (seen.insert n)

/-- (c) no two ids hold the same node -/
def noDup (t : Array Node) : Bool := noDupAux t.toList {}

/-- (d) for every even `i ≥ 6`: `t[i+1]` is `Complement(t[i])` and `t[i]` is not a `Complement` -/
def checkPairs (t : Array Node) : Bool :=
  (List.range t.size).all fun i =>
    i < 6 || i % 2 == 1 ||
      (t[i + 1]? == some (.compl i) &&
        match t[i]? with
        | some n => !n.isCompl
        | none => false)

/-- (e) every child id is smaller than the id of its parent -/
def checkChildren (t : Array Node) : Bool :=
  (List.range t.size).all fun i =>
    match t[i]? with
    | some n => n.children.all (· < i)
    | none => false

/-- first failing conjunct, for diagnostics -/
def firstFailure (t : Array Node) : Option String :=
  if !checkInit t then some "init"
  else if !checkEven t then some "even"
  else if !noDup t then some "dup"
  else if !checkPairs t then some "pairs"
  else if !checkChildren t then some "children"
  else none

end Table

/-- the table check of DESIGN.md §4 -/
def checkTable (t : Array Node) : Bool :=
  Table.checkInit t && Table.checkEven t && Table.noDup t && Table.checkPairs t && Table.checkChildren t

end Smt
