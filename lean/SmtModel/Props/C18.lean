/-
  C18 — start_char / start_class are exact.

  "start_char(e,c) returns true exactly when some string in the language of e begins with
   character c, and start_class(e,cid) gives that answer for (every character of) a valid derivative
   class and BadClassId for an invalid one."

  Model: `RE.startChar`, `RE.startCharAny`, `RE.startClass` (Model/Closure.lean), mirroring
  src/regular_expressions.rs `start_char` / `start_class` of the current tree: structural on
  Empty / Epsilon / Range / Loop / Union, derivative + emptiness on Concat / Inter / Complement.
  Specification: `RE.lang` (Proofs/ReLang.lean).

  The theorems are for every id assignment `ord`, every fuel, every character `c ≤ MAX_CHAR` and
  every term satisfying an abstract predicate `Good`, under the hypothesis bundles of
  Proofs/DerivFacts.lean:
    `DerivFacts ord Good`  — C03 (derivative = left quotient) + inheritance of `Good`,
    `EmptyFacts ord Good`  — C05 (`isEmptyRe` exact, no panic),
    `ClassFacts Good`      — C03/C11 (derivative classes well formed and uniform).
  The intended instance is `Good e := e.WF ∧ e.NZ` with `PairSound ord`.

  What is NOT proved here: that the search returns (`≠ .outOfFuel`) for large enough fuel — that is
  the termination claim of C19; the theorems characterise the answer whenever there is one and
  exclude the panic channel.
-/
import SmtModel.Proofs.StartChar

namespace Smt.C18
open Smt RE

variable {ord : RE → Nat} {Good : RE → Prop}

/-- T:start_char_iff — whenever `start_char(e, c)` returns, it returns `true` exactly when some
    string of the language of `e` begins with `c` -/
theorem start_char_iff (F : DerivFacts ord Good) (E : EmptyFacts ord Good)
    (fuel : ℕ) (e : RE) (c : ℕ) (b : Bool)
    (h : startChar ord fuel e c = .ok b) (hg : Good e) (hc : c ≤ MAX_CHAR) :
    b = true ↔ ∃ w, c :: w ∈ e.lang :=
  startChar_spec F E fuel c hc e b hg h

/-- T:start_char_no_panic -/
theorem start_char_no_panic (F : DerivFacts ord Good) (E : EmptyFacts ord Good)
    (fuel : ℕ) (e : RE) (c : ℕ) (hg : Good e) (hc : c ≤ MAX_CHAR) :
    startChar ord fuel e c ≠ .panic :=
  startChar_ne_panic F E fuel c hc e hg

/-- the loop lemma of DESIGN.md §7 C18: a loop whose range satisfies `lo ≤ hi` and is not `[0,0]`
    has a member starting with `c` iff its body has -/
theorem loop_start_iff (L : Language ℕ) (r : LoopRange) (hr : LoopOK r) (c : ℕ) :
    (∃ w, c :: w ∈ loopLang L r) ↔ ∃ w, c :: w ∈ L :=
  RE.loop_start_iff L hr c

/-- the hypothesis `LoopOK` of the loop lemma cannot be dropped: `L^[0,0] = {ε}` has no member
    starting with `c` whatever `L` is -/
theorem loop_zero_no_start (L : Language ℕ) (c : ℕ) : ¬ ∃ w, c :: w ∈ loopLang L ⟨0, some 0⟩ := by
  rintro ⟨w, k, ⟨_, hk⟩, hw⟩
  have hk0 : k = 0 := Nat.le_zero.1 hk
  subst hk0
  rw [pow_zero, Language.mem_one] at hw
  cases hw

/-- T:start_class_spec —
    * an invalid class id gives `Err(BadClassId)`;
    * for a valid class id the call does not panic, never returns an error, and whenever it returns
      `Ok(b)`, `b` is the exact answer for EVERY character of the class. -/
theorem start_class_spec (F : DerivFacts ord Good) (E : EmptyFacts ord Good) (C : ClassFacts Good)
    (fuel : ℕ) (e : RE) (cid : ClassId) (hg : Good e) :
    (e.derivClass.validClassId cid = false →
        startClass ord fuel e cid = .ok (.error .BadClassId)) ∧
    (e.derivClass.validClassId cid = true →
        startClass ord fuel e cid ≠ .panic ∧
        ∀ r, startClass ord fuel e cid = .ok r →
          ∃ b, r = .ok b ∧
            ∀ c, c ≤ MAX_CHAR → e.derivClass.classOfChar c = cid →
              (b = true ↔ ∃ w, c :: w ∈ e.lang)) := by
  constructor
  · intro hv
    simp [startClass, hv]
  · intro hv
    have hwf := C.class_wf e hg
    obtain ⟨hnone, hsome⟩ := C11.pick_in_class_spec e.derivClass hwf cid
    cases hp : e.derivClass.pickInClass cid with
    | none => rw [hnone.1 hp] at hv; cases hv
    | some c0 =>
      obtain ⟨hc0, hcls⟩ := hsome c0 hp
      have hnp := startChar_ne_panic F E fuel c0 hc0 e hg
      simp only [startClass, hv, if_true, hp]
      cases hres : startChar ord fuel e c0 with
      | panic => exact absurd hres hnp
      | outOfFuel => simp
      | ok b =>
        refine ⟨by simp, ?_⟩
        intro r hr
        simp only [Res.ok.injEq] at hr
        refine ⟨b, hr.symm, ?_⟩
        intro c hc hcc
        rw [startChar_spec F E fuel c0 hc0 e b hg hres]
        have hu := C.uniform e c0 c hg hc0 hc (by rw [hcls, hcc])
        constructor
        · rintro ⟨w, hw⟩; exact ⟨w, (hu w).1 hw⟩
        · rintro ⟨w, hw⟩; exact ⟨w, (hu w).2 hw⟩

/-- `Err(BadClassId)` is returned exactly for the class ids that denote no character of the
    alphabet (with C11 `valid_class_id_spec`) -/
theorem start_class_bad_iff (C : ClassFacts Good)
    (fuel : ℕ) (e : RE) (cid : ClassId) (hg : Good e) :
    startClass ord fuel e cid = .ok (.error .BadClassId) ↔
      ¬ ∃ x, x ≤ MAX_CHAR ∧ e.derivClass.classOfChar x = cid := by
  have hv := C11.valid_class_id_spec e.derivClass (C.class_wf e hg) cid
  unfold C11.NonEmptyClass at hv
  rw [← hv]
  cases hval : e.derivClass.validClassId cid with
  | false => simp [startClass, hval]
  | true =>
    simp only [startClass, hval, if_true, not_true_eq_false, iff_false]
    cases e.derivClass.pickInClass cid with
    | none => simp
    | some c =>
      simp only
      split <;> simp

/-! ### non-vacuity: the model evaluates, and the two repaired cases give the exact answer -/

/-- `(a|b)*` can start with `a`, not with `c` (structural cases, no fuel needed) -/
example : startChar (fun _ => 0) 0 (.loop (.range ⟨97, 98⟩) LoopRange.star) 97 = .ok true := by decide
example : startChar (fun _ => 0) 0 (.loop (.range ⟨97, 98⟩) LoopRange.star) 99 = .ok false := by decide

/-- the ranges of the loops above satisfy the side condition of the loop lemma -/
example : LoopOK LoopRange.star ∧ LoopOK LoopRange.plus ∧ LoopOK (LoopRange.finite 0 3) := by
  refine ⟨⟨trivial, rfl⟩, ⟨trivial, rfl⟩, ⟨?_, rfl⟩⟩
  show 0 ≤ 3; omega

end Smt.C18
