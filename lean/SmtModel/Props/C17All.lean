/-
  C17 — umbrella module: constructors, `parse_smt_literal` and the `str_*` functions
  (Props/C17.lean, model of src/smt_strings.rs) together with the regex side of the API
  (Props/C17Re.lean: `get_string`, `str_replace_re`, `str_replace_re_all`, pure and stateful
  models) and the conversions out of the crate (Props/C17Uni.lean: `is_unicode`,
  `to_unicode_string`, the round trip through a Rust `String`).  `checks.d/C17.json` audits the theorems of both through this module.
  Import order: the regex proof files first (C17Re imports them before Props/C17).
-/
import SmtModel.Props.C17Re
import SmtModel.Props.C17
import SmtModel.Props.C17Uni
