/-
  C19 — final section: the hypothesis bundle `RE.ClosureFacts` of Props/C19.lean is discharged for
  the domain `Good e := e.WF ∧ e.NZ` (well-formed ranges and loop ranges, no `[0,0]` loop — what
  every constructor of the manager produces) and EVERY id assignment `ord` with `PairSound ord`
  (DESIGN.md §6; proved for every reachable manager state in C07), from
    * Proofs/Deriv.lean `deriv_spec` (C03: `deriv` is the left quotient and stays in the domain),
      `nullable_iff`, `lang_wfs`, `derivClass_wf`,
    * Proofs/DerivFinal.lean `consFacts` (the smart constructors denote what they stand for),
    * Props/C11.lean (through `closureFacts_of_class_wf`).
  The corollaries in `Smt.C19.Final` have no hypothesis left except `PairSound ord`, `e.WF`, `e.NZ`
  and "the search finished within the fuel" (termination is NOT proved, see Props/C19.lean).
-/
import SmtModel.Props.C19
import SmtModel.Proofs.DerivFinal

namespace Smt.C19
open Smt RE

variable {ord : RE → Nat}

/-- every id assignment with `PairSound` satisfies the bundle, on the domain `e.WF ∧ e.NZ` -/
theorem closureFacts (hps : PairSound ord) : ClosureFacts ord (fun e => e.WF ∧ e.NZ) :=
  closureFacts_of_class_wf
    (fun _ _ he hc => (Deriv.deriv_spec (DerivFinal.consFacts hps) he hc).2)
    (fun _ _ he hc => (Deriv.deriv_spec (DerivFinal.consFacts hps) he hc).1)
    (fun e he => Deriv.nullable_iff e he.1)
    (fun e he w hw => Deriv.lang_wfs e he.1 w hw)
    (fun e he => Deriv.derivClass_wf e he.1)

namespace Final

theorem iter_head (hps : PairSound ord) {e : RE} (he : e.WF) (hz : e.NZ) {fuel : Nat}
    {l : List RE} (h : iterDerivatives ord fuel e = .ok l) : l.head? = some e :=
  C19.iter_head (closureFacts hps) ⟨he, hz⟩ h

theorem iter_nodup (hps : PairSound ord) {e : RE} (he : e.WF) (hz : e.NZ) {fuel : Nat}
    {l : List RE} (h : iterDerivatives ord fuel e = .ok l) : l.Nodup :=
  C19.iter_nodup (closureFacts hps) ⟨he, hz⟩ h

theorem iter_no_panic (hps : PairSound ord) {e : RE} (he : e.WF) (hz : e.NZ) (fuel : Nat) :
    iterDerivatives ord fuel e ≠ .panic :=
  C19.iter_no_panic (closureFacts hps) ⟨he, hz⟩ fuel

theorem iter_closed (hps : PairSound ord) {e : RE} (he : e.WF) (hz : e.NZ) {fuel : Nat}
    {l : List RE} (h : iterDerivatives ord fuel e = .ok l) :
    ∀ x ∈ l, ∀ c, c ≤ MAX_CHAR → charDerivative ord x c ∈ l :=
  C19.iter_closed (closureFacts hps) ⟨he, hz⟩ h

/-- the yielded list is exactly the set of iterated derivatives of `e` -/
theorem iter_exact (hps : PairSound ord) {e : RE} (he : e.WF) (hz : e.NZ) {fuel : Nat}
    {l : List RE} (h : iterDerivatives ord fuel e = .ok l) (x : RE) :
    x ∈ l ↔ ∃ s, WFs s ∧ x = strDerivative ord e s :=
  C19.iter_exact (closureFacts hps) ⟨he, hz⟩ h x

theorem try_compile_iff (hps : PairSound ord) {e : RE} (he : e.WF) (hz : e.NZ)
    {fuel fuel' n : Nat} {r : Option Automaton} {l : List RE}
    (hr : tryCompile ord fuel e n = .ok r) (hl : iterDerivatives ord fuel' e = .ok l) :
    (r.isSome = true ↔ n ≠ 0 ∧ l.length ≤ n) ∧ (∀ A, r = some A → A.numStates = l.length) :=
  C19.try_compile_iff (closureFacts hps) ⟨he, hz⟩ hr hl

theorem compile_num_states (hps : PairSound ord) {e : RE} (he : e.WF) (hz : e.NZ)
    {fuel fuel' : Nat} {A : Automaton} {l : List RE} (hA : compile ord fuel e = .ok A)
    (hl : iterDerivatives ord fuel' e = .ok l) : A.numStates = l.length :=
  C19.compile_num_states (closureFacts hps) ⟨he, hz⟩ hA hl

theorem compile_succeeds_partial (hps : PairSound ord) {e : RE} (he : e.WF) (hz : e.NZ)
    {fuel : Nat} (hp : compile ord fuel e = .panic) :
    ∃ b, compileLoop ord (fuel + 1) fuel [e] 0 (Builder.new 0) = .ok (some b) ∧
      b.buildUnchecked = none :=
  C19.compile_succeeds_partial (closureFacts hps) ⟨he, hz⟩ hp

theorem try_compile_no_panic_partial (hps : PairSound ord) {e : RE} (he : e.WF) (hz : e.NZ)
    {fuel n : Nat} (hp : tryCompile ord fuel e n = .panic) :
    ∃ b, compileLoop ord n fuel [e] 0 (Builder.new 0) = .ok (some b) ∧ b.buildUnchecked = none :=
  C19.try_compile_no_panic_partial (closureFacts hps) ⟨he, hz⟩ hp

theorem compile_fuel (hps : PairSound ord) {e : RE} (he : e.WF) (hz : e.NZ) {fuel : Nat}
    {l : List RE} (hl : iterDerivatives ord fuel e = .ok l) : compile ord fuel e ≠ .outOfFuel :=
  C19.compile_fuel (closureFacts hps) ⟨he, hz⟩ hl

end Final

/-! ### non-vacuity: a concrete id assignment and a concrete term meeting every hypothesis -/

private def ord0 : RE → Nat := fun _ => 0
private def ab : RE := .concat (.range ⟨97, 97⟩) (.range ⟨98, 98⟩)

example : PairSound ord0 := by intro x y h; simp [ord0] at h
example : ab.WF := by simp [ab, RE.WF, CharSet.WF, MAX_CHAR]
example : ab.NZ := by decide
example : iterDerivatives ord0 10 ab = .ok [ab, .range ⟨98, 98⟩, .empty, .epsilon] := by
  decide +kernel

end Smt.C19
