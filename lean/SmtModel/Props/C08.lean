/-
  C08 — String literals: parsing follows the SMT-LIB 2.6 escapes; printing round-trips.

  Property theorems only (DESIGN.md §7 C08); helper lemmas are in Proofs/Literal.lean.

  * Model: `Smt.Literal` (Model/Literal.lean): the five-state `ParsingAutomaton` with its 9-slot
    pending buffer, `parse_smt_literal`, `Display`, `smt_char_as_string`, `char_to_smt`.
  * Specification: `Smt.LiteralSpec` (Model/Spec/Literal.lean): `specParse`, defined by position in
    the text with no automaton: an escape is `\u` + 4 hex digits, or `\u{` + 1..5 hex digits + `}`
    with value ≤ 0x2FFFF; everything else — including every character of a malformed or
    out-of-range escape attempt — is copied.
  * Texts are `List Nat`.  A Rust `&str` can only hold Unicode scalar values (`Literal.Scalar`);
    the theorems below hold for **all** lists of naturals, hence for all scalar texts.
  * `none` is the panic channel.  The only panic left is the documented one of `SmtString::make`
    (more than `i32::MAX` characters): the assertion `i < 9` in `pending`, the slice in
    `flush_pending`, `to_digit(16).unwrap()` and `char::from_u32(x).unwrap()` are never hit.
-/
import SmtModel.Proofs.Literal

namespace Smt.C08
open Smt Smt.Literal Smt.LiteralSpec Smt.LiteralProofs

/-! ### parsing -/

/-- **parse_eq_spec**: for every text, `parse_smt_literal` returns exactly the string the
    specification denotes (and panics only through `SmtString::make`, i.e. iff that string has
    more than `i32::MAX` characters). -/
theorem parse_eq_spec (t : List Nat) :
    parseSmtLiteral t =
      if (specParse t).length ≤ MAX_LENGTH then some (specParse t) else none := by
  rw [parse_spec, make]
  by_cases h : (specParse t).length ≤ MAX_LENGTH
  · rw [if_neg (by omega), if_pos h]
  · rw [if_pos (by omega), if_neg h]

/-- the specification never produces more characters than the text has … -/
theorem spec_length_le (t : List Nat) : (specParse t).length ≤ t.length :=
  specParse_length_le t

/-- … so for every text a `&str` can hold in practice (fewer than 2³¹ characters) the parser does
    not panic and returns the specified string. -/
theorem parse_eq_spec_total (t : List Nat) (h : t.length ≤ MAX_LENGTH) :
    parseSmtLiteral t = some (specParse t) := by
  rw [parse_eq_spec, if_pos (Nat.le_trans (spec_length_le t) h)]

/-- The invariant behind `parse_eq_spec`, for every configuration the automaton can be in:
    the pending buffer holds the longest prefix of a potential escape read so far (`Shape`),
    `escape_code` is its value, and the rest of the run yields
    `string_so_far ++ specParse (pending ++ remaining text)`. -/
theorem automaton_invariant (a : Automaton) (st : State) (out P : List Nat) (code : Nat)
    (t : List Nat) (h : Rep a st out P code) (hs : Shape st P code) :
    finish a t = some (out ++ specParse (P ++ t)) :=
  run_spec t a st out P code h hs

/-- decoded: `\u` + four hexadecimal digits -/
theorem spec_escape_hex4 (a b c d : Nat) (r : List Nat)
    (h : isHex a = true ∧ isHex b = true ∧ isHex c = true ∧ isHex d = true) :
    specParse (92 :: 117 :: a :: b :: c :: d :: r) = hexValue [a, b, c, d] :: specParse r :=
  specParse_esc (escapeAt_hex4 a b c d r h.1 h.2.1 h.2.2.1 h.2.2.2)

/-- decoded: `\u{` + one to five hexadecimal digits + `}` with value ≤ 0x2FFFF -/
theorem spec_escape_brace (ds r : List Nat) (hd : ∀ d ∈ ds, isHex d = true)
    (h1 : 1 ≤ ds.length) (h5 : ds.length ≤ 5) (hv : hexValue ds ≤ MAX_CHAR) :
    specParse (92 :: 117 :: 123 :: (ds ++ 125 :: r)) = hexValue ds :: specParse r := by
  have h125 : isHex 125 = false := by decide
  have := escapeAt_brace ds (125 :: r) hd (noHexHead_cons h125)
  simp [h1, h5, hv] at this
  exact specParse_esc this

/-- copied verbatim: any character at which no escape starts (in particular the characters of
    malformed and out-of-range escape attempts); a non-SMT character is copied as 0xFFFD -/
theorem spec_copy (c : Nat) (t : List Nat) (h : escapeAt (c :: t) = none) :
    specParse (c :: t) = (if c ≤ MAX_CHAR then c else REPLACEMENT_CHAR) :: specParse t :=
  specParse_copy h

/-- the hexadecimal digits of the specification are those of the code (`is_ascii_hexdigit`,
    `to_digit(16)`) -/
theorem hex_digits_agree (c : Nat) :
    isAsciiHexdigit c = isHex c ∧ toDigit16 c = hexVal? c :=
  ⟨isAsciiHexdigit_eq c, toDigit16_eq c⟩

/-! ### printing -/

/-- `Display` never panics (the `char::from_u32(x).unwrap()` is only reached for 32 ≤ x < 127)
    and writes, between the outer quotes, the concatenation of one piece per character -/
theorem display_total (s : List Nat) :
    displayBody s = some (s.flatMap pieceOf) ∧
    display s = some ([34] ++ s.flatMap pieceOf ++ [34]) := by
  refine ⟨displayBody_eq s, ?_⟩
  simp [display, displayBody_eq]

/-- **display_ascii**: the Display form of *any* vector of u32 consists of printable ASCII
    (32 … 126) only -/
theorem display_ascii (s b : List Nat) (h : displayBody s = some b) : ∀ c ∈ b, 32 ≤ c ∧ c ≤ 126 := by
  rw [displayBody_eq] at h; cases h
  intro c hc
  obtain ⟨x, _, hx⟩ := List.mem_flatMap.1 hc
  exact pieceOf_ascii x c hx

/-- **display_quotes_doubled**: a `"` of the string is printed as `""`; no other character
    contributes a `"`; hence in the body every `"` is half of a pair and there are exactly twice
    as many as in the string -/
theorem display_quotes_doubled (s b : List Nat) (h : displayBody s = some b) :
    displayPiece 34 = some [34, 34] ∧
    (∀ x p, x ≠ 34 → displayPiece x = some p → 34 ∉ p) ∧
    quotesPaired b = true ∧
    b.count 34 = 2 * s.count 34 := by
  rw [displayBody_eq] at h; cases h
  refine ⟨by rw [displayPiece_eq, pieceOf_quote], ?_, quotesPaired_body s, count_quote_body s⟩
  intro x p hx hp
  rw [displayPiece_eq] at hp; cases hp
  exact pieceOf_no_quote x hx

/-- reading a printed body back with the specification gives the string -/
theorem display_roundtrip_spec (s b : List Nat) (hs : WFs s) (h : displayBody s = some b) :
    specParse (undouble b) = s := by
  rw [displayBody_eq] at h; cases h
  rw [undouble_body, specParse_body s hs]

/-- **display_roundtrip**: for every good string (`is_good`: all code points ≤ 0x2FFFF, fewer
    than `i32::MAX` of them), reading the body of its Display form (doubled quotes undone)
    through `parse_smt_literal` yields the original string -/
theorem display_roundtrip (s : List Nat) (hg : isGood s = true) :
    ∃ b, displayBody s = some b ∧ parseSmtLiteral (undouble b) = some s := by
  simp only [isGood, Bool.and_eq_true, decide_eq_true_eq, goodString_iff] at hg
  refine ⟨_, displayBody_eq s, ?_⟩
  rw [parse_eq_spec, display_roundtrip_spec s _ hg.2 (displayBody_eq s), if_pos (by omega)]

/-- **display_injective**: distinct strings never print as literals denoting the same string;
    in particular they never print the same -/
theorem display_injective (s₁ s₂ b₁ b₂ : List Nat) (h₁ : WFs s₁) (h₂ : WFs s₂)
    (e₁ : displayBody s₁ = some b₁) (e₂ : displayBody s₂ = some b₂)
    (h : specParse (undouble b₁) = specParse (undouble b₂)) : s₁ = s₂ := by
  rw [display_roundtrip_spec s₁ b₁ h₁ e₁, display_roundtrip_spec s₂ b₂ h₂ e₂] at h
  exact h

theorem display_same_print_same_string (s₁ s₂ : List Nat) (h₁ : WFs s₁) (h₂ : WFs s₂)
    (h : display s₁ = display s₂) : s₁ = s₂ := by
  simp only [(display_total _).2, Option.some.injEq, List.append_cancel_right_eq,
    List.append_cancel_left_eq] at h
  exact display_injective s₁ s₂ _ _ h₁ h₂ (displayBody_eq _) (displayBody_eq _) (by rw [h])

/-- `smt_char_as_string` and `char_to_smt` return the piece `Display` writes for that character -/
theorem char_to_smt_eq_display_piece (x : Nat) :
    charToSmt x = displayPiece x ∧ smtCharAsString x = displayPiece x ∧
    displayBody [x] = (displayPiece x).map (· ++ []) := by
  refine ⟨rfl, rfl, ?_⟩
  simp [displayBody, displayPiece_eq]

/-- the three lower-case hexadecimal formats used: `{:02x}`, `{:04x}`, `{:x}` denote the number -/
theorem hex_formats (x : Nat) :
    hexValue (hexDigitsOf x) = x ∧ (∀ w, hexValue (hexPad w x) = x) ∧
    (x < 256 → (hexPad 2 x).length = 2) ∧ (x < 65536 → (hexPad 4 x).length = 4) ∧
    (65536 ≤ x → x ≤ MAX_CHAR → (hexDigitsOf x).length = 5) := by
  have hm : MAX_CHAR = 196607 := rfl
  refine ⟨hexDigitsOf_value x, fun w => hexPad_value w x, ?_, ?_, ?_⟩
  · intro h; exact hexPad_len 2 x (hexDigitsOf_len_le 1 x (by simp; omega))
  · intro h; exact hexPad_len 4 x (hexDigitsOf_len_le 3 x (by simp; omega))
  · intro h1 h2
    have := hexDigitsOf_len_le 4 x (by simp; omega)
    have := hexDigitsOf_len_ge 4 x (by simp; omega)
    omega

/-! ### non-vacuity -/

/-- the text `aA\u{1F600}\u{30000}\u12g\` : two escapes decoded, the out-of-range and the
    malformed attempts and the trailing backslash copied -/
example : parseSmtLiteral
    [97, 92,117,48,48,52,49, 92,117,123,49,70,54,48,48,125, 92,117,123,51,48,48,48,48,125,
     92,117,49,50,103, 92] =
    some [97, 0x41, 0x1F600, 92,117,123,51,48,48,48,48,125, 92,117,49,50,103, 92] := by decide

example : specParse
    [97, 92,117,48,48,52,49, 92,117,123,49,70,54,48,48,125, 92,117,123,51,48,48,48,48,125,
     92,117,49,50,103, 92] =
    [97, 0x41, 0x1F600, 92,117,123,51,48,48,48,48,125, 92,117,49,50,103, 92] := by
  have h := parse_eq_spec_total
    [97, 92,117,48,48,52,49, 92,117,123,49,70,54,48,48,125, 92,117,123,51,48,48,48,48,125,
     92,117,49,50,103, 92] (by decide)
  have h' : parseSmtLiteral
    [97, 92,117,48,48,52,49, 92,117,123,49,70,54,48,48,125, 92,117,123,51,48,48,48,48,125,
     92,117,49,50,103, 92] =
    some [97, 0x41, 0x1F600, 92,117,123,51,48,48,48,48,125, 92,117,49,50,103, 92] := by decide
  rw [h] at h'; exact Option.some.inj h'

/-- D4's witness: the six-character string `\u{41}` is good, prints with an escaped backslash,
    and reads back as itself -/
example : isGood [92, 117, 123, 52, 49, 125] = true ∧
    displayBody [92, 117, 123, 52, 49, 125] =
      some [92,117,123,53,99,125, 117, 123, 52, 49, 125] ∧
    parseSmtLiteral (undouble [92,117,123,53,99,125, 117, 123, 52, 49, 125]) =
      some [92, 117, 123, 52, 49, 125] := by
  refine ⟨by decide, ?_, by decide⟩
  simp [displayBody, displayPiece, charFromU32, Scalar, hexPad, hexDigitsOf, hexDigitChar]

/-- a string with a quote, a control character, DEL, a BMP and an astral character -/
example : displayBody [34, 10, 127, 0xFFFF, 0x2FFFF, 65] =
    some [34,34, 92,117,123,48,97,125, 92,117,123,55,102,125, 92,117,102,102,102,102,
          92,117,123,50,102,102,102,102,125, 65] := by
  simp [displayBody, displayPiece, charFromU32, Scalar, hexPad, hexDigitsOf, hexDigitChar]

end Smt.C08
