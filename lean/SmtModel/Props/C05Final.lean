/-
  C05 — final section: the theorems of Props/C05.lean with the hypothesis bundle discharged
  (`Smt.C19.closureFacts`, Props/C19Final.lean) for the domain `e.WF ∧ e.NZ` and every id assignment
  with `PairSound ord`.  No hypothesis is left except `PairSound ord`, `e.WF`, `e.NZ` and "the search
  finished within the fuel" (termination is NOT proved, see Props/C05.lean).
-/
import SmtModel.Props.C05
import SmtModel.Props.C19Final

namespace Smt.C05.Final
open Smt RE

variable {ord : RE → Nat}

/-- `is_empty_re(e)` is true exactly when no string belongs to the language of `e` -/
theorem is_empty_iff (hps : PairSound ord) {e : RE} (he : e.WF) (hz : e.NZ) {fuel : Nat}
    {b : Bool} (h : isEmptyRe ord fuel e = .ok b) : b = true ↔ ∀ w, w ∉ e.lang :=
  C05.is_empty_iff (C19.closureFacts hps) ⟨he, hz⟩ h

theorem is_empty_no_panic (hps : PairSound ord) {e : RE} (he : e.WF) (hz : e.NZ) (fuel : Nat) :
    isEmptyRe ord fuel e ≠ .panic :=
  C05.is_empty_no_panic (C19.closureFacts hps) ⟨he, hz⟩ fuel

theorem is_empty_agrees_iter (hps : PairSound ord) {e : RE} (he : e.WF) (hz : e.NZ)
    {fuel fuel' : Nat} {b : Bool} {l : List RE} (h : isEmptyRe ord fuel e = .ok b)
    (hl : iterDerivatives ord fuel' e = .ok l) : b = true ↔ ∀ x ∈ l, x.nullable = false :=
  C05.is_empty_agrees_iter (C19.closureFacts hps) ⟨he, hz⟩ h hl

/-- `get_string(e)` is `None` exactly when the language is empty -/
theorem get_string_none_iff (hps : PairSound ord) {e : RE} (he : e.WF) (hz : e.NZ) {fuel : Nat}
    {r : Option (List Nat)} (h : getString ord fuel e = .ok r) : r = none ↔ ∀ w, w ∉ e.lang :=
  C05.get_string_none_iff (C19.closureFacts hps) ⟨he, hz⟩ h

/-- otherwise it returns a well-formed SMT string of the language … -/
theorem get_string_member (hps : PairSound ord) {e : RE} (he : e.WF) (hz : e.NZ) {fuel : Nat}
    {s : List Nat} (h : getString ord fuel e = .ok (some s)) : WFs s ∧ s ∈ e.lang :=
  C05.get_string_member (C19.closureFacts hps) ⟨he, hz⟩ h

/-- … which the membership test accepts -/
theorem get_string_accepted (hps : PairSound ord) {e : RE} (he : e.WF) (hz : e.NZ) {fuel : Nat}
    {s : List Nat} (h : getString ord fuel e = .ok (some s)) : strInRe ord s e = true :=
  C05.get_string_accepted (C19.closureFacts hps) ⟨he, hz⟩ h

theorem get_string_no_panic (hps : PairSound ord) {e : RE} (he : e.WF) (hz : e.NZ) (fuel : Nat) :
    getString ord fuel e ≠ .panic :=
  C05.get_string_no_panic (C19.closureFacts hps) ⟨he, hz⟩ fuel

theorem get_string_path_spec (hps : PairSound ord) {e : RE} (he : e.WF) (hz : e.NZ) {fuel : Nat}
    {p : List (RE × ClassId)} (h : getStringPath ord fuel e = .ok (some p)) :
    ∃ dest, dest.nullable = true ∧ PathFrom ord e p dest :=
  C05.get_string_path_spec (C19.closureFacts hps) ⟨he, hz⟩ h

theorem get_string_agrees_is_empty (hps : PairSound ord) {e : RE} (he : e.WF) (hz : e.NZ)
    {fuel fuel' : Nat} {r : Option (List Nat)} {b : Bool} (h : getString ord fuel e = .ok r)
    (hb : isEmptyRe ord fuel' e = .ok b) : b = true ↔ r = none :=
  C05.get_string_agrees_is_empty (C19.closureFacts hps) ⟨he, hz⟩ h hb

/-! ### non-vacuity -/

private def ord0 : RE → Nat := fun _ => 0
private def aAndB : RE := .inter [.range ⟨97, 97⟩, .range ⟨98, 98⟩]

example : PairSound ord0 := by intro x y h; simp [ord0] at h
example : aAndB.WF := by simp [aAndB, RE.WF, RE.WFList, CharSet.WF, MAX_CHAR]
example : aAndB.NZ := by decide
example : isEmptyRe ord0 10 aAndB = .ok true := by decide +kernel

end Smt.C05.Final
