/-
  C17 — the way out of the crate: `SmtString::is_unicode` and `SmtString::to_unicode_string`
  (src/smt_strings.rs: `all_unicode`, `map_to_unicode`), and the round trip through a Rust `String`.

  "any such string can be used with every other function of the crate": the two conversions are total
  on every vector of integers; the `String` produced is a legal Rust string (every element a Unicode
  scalar value — so `text_of` in the harness never fails on it), has the length of its input, is the
  input itself exactly when `is_unicode` holds, and, read back by `From<&str>`, gives a good string
  again: the original one when the string is good and `is_unicode` holds, and in general the string
  with surrogates replaced by 0xFFFD.  Nothing is hidden behind the replacement: two good Unicode
  strings with the same `to_unicode_string` are equal.
-/
import SmtModel.Props.C17

namespace Smt.C17Uni
open Smt Smt.Literal Smt.C17

/-- `is_unicode` is exactly "every element is a Unicode scalar value" -/
theorem isUnicode_iff (s : List Nat) : isUnicode s = true ↔ ScalarText s := by
  simp [isUnicode, ScalarText]

/-- `to_unicode_string` is total and length preserving -/
theorem toUnicode_length (s : List Nat) : (toUnicodeString s).length = s.length := by
  simp [toUnicodeString]

/-- the result is a legal Rust `String`: every element is a Unicode scalar value, for EVERY input -/
theorem toUnicode_scalar (s : List Nat) : ScalarText (toUnicodeString s) := by
  intro c hc
  simp only [toUnicodeString, List.mem_map] at hc
  obtain ⟨x, _, rfl⟩ := hc
  split
  · assumption
  · simp [Scalar, REPLACEMENT_CHAR]

/-- position by position: scalars are kept, anything else becomes 0xFFFD -/
theorem toUnicode_getElem (s : List Nat) (i : Nat) (h : i < s.length) :
    (toUnicodeString s)[i]'(by simpa [toUnicode_length] using h)
      = if Scalar s[i] then s[i] else 0xFFFD := by
  simp [toUnicodeString, REPLACEMENT_CHAR]

/-- the conversion is the identity exactly on the strings for which `is_unicode` holds -/
theorem toUnicode_id_iff (s : List Nat) : toUnicodeString s = s ↔ isUnicode s = true := by
  rw [isUnicode_iff]
  induction s with
  | nil => simp [toUnicodeString, ScalarText]
  | cons x xs ih =>
    have ih' : List.map (fun x => if Scalar x then x else REPLACEMENT_CHAR) xs = xs ↔ ScalarText xs := by
      simpa [toUnicodeString] using ih
    simp only [toUnicodeString, List.map_cons, List.cons.injEq, ScalarText, List.mem_cons,
      forall_eq_or_imp]
    rw [ih']
    constructor
    · rintro ⟨h1, h2⟩
      refine ⟨?_, h2⟩
      by_cases hx : Scalar x
      · exact hx
      · rw [if_neg hx] at h1
        rw [← h1]; simp [Scalar, REPLACEMENT_CHAR]
    · rintro ⟨h1, h2⟩
      exact ⟨by rw [if_pos h1], h2⟩

/-- a good string stays good (0xFFFD is an SMT-LIB character) -/
theorem toUnicode_good (s : List Nat) (h : WFs s) : WFs (toUnicodeString s) := by
  intro c hc
  simp only [toUnicodeString, List.mem_map] at hc
  obtain ⟨x, hx, rfl⟩ := hc
  split
  · exact h x hx
  · simp [MAX_CHAR, REPLACEMENT_CHAR]

/-- reading the `String` back with `From<&str>` never panics for a string shorter than the limit,
    and yields a good string, for EVERY input vector -/
theorem fromStr_toUnicode_good (s : List Nat) (hl : s.length ≤ MAX_LENGTH) :
    ∃ r, fromStr (toUnicodeString s) = some r ∧ WFs r ∧ r.length = s.length := by
  refine ⟨(toUnicodeString s).map (fun c => if c ≤ MAX_CHAR then c else REPLACEMENT_CHAR), ?_, ?_, ?_⟩
  · simp [fromStr, make, toUnicode_length]; omega
  · intro c hc
    simp only [List.mem_map] at hc
    obtain ⟨x, _, rfl⟩ := hc
    split
    · assumption
    · simp [MAX_CHAR, REPLACEMENT_CHAR]
  · simp [toUnicode_length]

/-- round trip: a good string for which `is_unicode` holds comes back unchanged from
    `SmtString::from(s.to_unicode_string().as_str())` -/
theorem roundtrip (s : List Nat) (hl : s.length ≤ MAX_LENGTH) (hg : WFs s)
    (hu : isUnicode s = true) : fromStr (toUnicodeString s) = some s := by
  rw [(toUnicode_id_iff s).2 hu]
  have : s.map (fun c => if c ≤ MAX_CHAR then c else REPLACEMENT_CHAR) = s := by
    conv => rhs; rw [← List.map_id s]
    apply List.map_congr_left
    intro c hc; simp [hg c hc]
  simp [fromStr, make, this]; omega

/-- in general the round trip replaces exactly the non-scalars (for a good string: the surrogates)
    by 0xFFFD -/
theorem roundtrip_general (s : List Nat) (hl : s.length ≤ MAX_LENGTH) (hg : WFs s) :
    fromStr (toUnicodeString s) = some (toUnicodeString s) := by
  have hg' := toUnicode_good s hg
  have : (toUnicodeString s).map (fun c => if c ≤ MAX_CHAR then c else REPLACEMENT_CHAR)
      = toUnicodeString s := by
    conv => rhs; rw [← List.map_id (toUnicodeString s)]
    apply List.map_congr_left
    intro c hc; simp [hg' c hc]
  simp [fromStr, make, this, toUnicode_length]; omega

/-- the conversion loses nothing on Unicode strings: it is injective there -/
theorem toUnicode_injective (s t : List Nat) (hs : isUnicode s = true) (ht : isUnicode t = true)
    (h : toUnicodeString s = toUnicodeString t) : s = t := by
  rw [(toUnicode_id_iff s).2 hs, (toUnicode_id_iff t).2 ht] at h; exact h

/-- the returned `String`, taken as an SMT string again, is Unicode -/
theorem toUnicode_isUnicode (s : List Nat) : isUnicode (toUnicodeString s) = true :=
  (isUnicode_iff _).2 (toUnicode_scalar s)

/-- converting twice changes nothing more -/
theorem toUnicode_idempotent (s : List Nat) :
    toUnicodeString (toUnicodeString s) = toUnicodeString s :=
  (toUnicode_id_iff _).2 (toUnicode_isUnicode s)

/-- `is_unicode` and `to_unicode_string` distribute over concatenation (`str_concat`) -/
theorem toUnicode_append (s t : List Nat) :
    toUnicodeString (s ++ t) = toUnicodeString s ++ toUnicodeString t
    ∧ isUnicode (s ++ t) = (isUnicode s && isUnicode t) := by
  simp [toUnicodeString, isUnicode]

/-- the hypotheses are satisfiable, and the exclusions are real: a surrogate is a good SMT character
    that is not Unicode and does not survive the round trip -/
example : isUnicode [0x41, 0xD7FF, 0xE000, 0x2FFFF] = true
    ∧ isUnicode [0x41, 0xD800] = false
    ∧ toUnicodeString [0x41, 0xD800, 0xDFFF, 0x110000, 0x2FFFF] = [0x41, 0xFFFD, 0xFFFD, 0xFFFD, 0x2FFFF]
    ∧ fromStr (toUnicodeString [0xD800]) = some [0xFFFD] := by decide

end Smt.C17Uni
