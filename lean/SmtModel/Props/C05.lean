/-
  C05 — Emptiness test and witness generation are exact.

  Property: "For every expression e, is_empty_re(e) is true exactly when no string belongs to the
  language of e.  get_string(e) returns None exactly in that case and otherwise returns a
  well-formed SMT string that is a member of the language (accepted by membership test and by the
  compiled automaton)."

  WHAT IS PROVED (for every `ord`, every fuel, every term `e` with `Good e`; the language is the
  SMT-LIB denotation `RE.lang` of Proofs/ReLang.lean):
    * `is_empty_iff`        `isEmptyRe ord fuel e = .ok b → (b = true ↔ ∀ w, w ∉ e.lang)`
    * `is_empty_agrees_iter` the answer is "no enumerated derivative is nullable"
    * `is_empty_no_panic`, `is_empty_fuel_mono`, `is_empty_fuel`
    * `get_string_none_iff` `getString ord fuel e = .ok r → (r = none ↔ ∀ w, w ∉ e.lang)`
    * `get_string_member`   `getString ord fuel e = .ok (some s) → WFs s ∧ s ∈ e.lang`
    * `get_string_accepted` … hence `strInRe ord s e = true` (the membership test accepts it)
    * `get_string_agrees_is_empty`, `get_string_no_panic`, `get_string_fuel_mono`
    * `labeled_queue_wellformed_*`, `labeled_path_wellformed`, `get_string_path_spec`:
      the `LabeledQueue` invariant (root has no edge; every other entry's edge `(label, pre)` has
      `pre` an earlier entry, `label` a class id of `pre`, `class_derivative(pre,label)` = the entry),
      `full_path` never panics on a visited node (the predecessor walk ends within map-size steps)
      and returns a path satisfying the documented contract of `get_string_path`.

  WHAT IS NOT PROVED
    * TERMINATION of the two searches (fuel): every statement is "if the search finished within the
      fuel, then …", for every fuel (DESIGN.md §11).
    * "accepted by the compiled automaton": that is C02 (`compile(e).accepts(s) ↔ s ∈ L(e)`)
      applied to `get_string_member`; it is not restated here.

  Hypotheses: the bundle `RE.ClosureFacts ord Good` of Proofs/Closure.lean (derivatives are left
  quotients, `nullable` is exact, classes cover the alphabet and have representatives).
  Props/C05Final.lean restates the main theorems with the bundle discharged for
  `Good e := e.WF ∧ e.NZ` and every `ord` with `PairSound ord` (`Smt.C05.Final.*`).
-/
import SmtModel.Proofs.Closure

namespace Smt.C05
open Smt RE

variable {ord : RE → Nat} {Good : RE → Prop}

/-- a closed enumeration of the derivatives without nullable term: the language is empty -/
theorem closed_nonnullable_empty (F : ClosureFacts ord Good) {e : RE} (hg : Good e) {l : List RE}
    (h : BInv ord e l l.length) (hn : ∀ x ∈ l, x.nullable = false) : ∀ w, w ∉ e.lang := by
  intro w hw
  have hwf : WFs w := F.lang_sub e hg hw
  have hm := h.complete hwf
  have := (strInRe_iff F hg hwf).2 hw
  unfold strInRe at this
  rw [hn _ hm] at this
  cases this

/-! ### is_empty_re -/

/-- T:is_empty_iff — `is_empty_re(e)` is true exactly when no string belongs to the language -/
theorem is_empty_iff (F : ClosureFacts ord Good) {e : RE} (hg : Good e) {fuel : Nat} {b : Bool}
    (h : isEmptyRe ord fuel e = .ok b) : b = true ↔ ∀ w, w ∉ e.lang := by
  obtain ⟨_, h2, h3⟩ := isEmptyLoop_spec F hg fuel [e] 0 (BInv.init e) (by simp)
  unfold isEmptyRe at h
  cases b with
  | true =>
    obtain ⟨l, hl, hn⟩ := h2 h
    simp only [true_iff]
    exact closed_nonnullable_empty F hg hl hn
  | false =>
    obtain ⟨x, hx, hn⟩ := h3 h
    obtain ⟨s, _, hs⟩ := hx.word_of_nullable F hg hn
    simp only [Bool.false_eq_true, false_iff, not_forall, not_not]
    exact ⟨s, hs⟩

/-- `is_empty_re` never panics -/
theorem is_empty_no_panic (F : ClosureFacts ord Good) {e : RE} (hg : Good e) (fuel : Nat) :
    isEmptyRe ord fuel e ≠ .panic :=
  (isEmptyLoop_spec F hg fuel [e] 0 (BInv.init e) (by simp)).1

/-- more fuel gives the same answer -/
theorem is_empty_fuel_mono {e : RE} {fuel fuel' : Nat} (hle : fuel ≤ fuel') {b : Bool}
    (h : isEmptyRe ord fuel e = .ok b) : isEmptyRe ord fuel' e = .ok b :=
  isEmptyLoop_mono hle h

/-- T:is_empty_agrees_iter — `is_empty_re(e)` = `iter_derivatives(e).all(|x| !x.nullable)` -/
theorem is_empty_agrees_iter (F : ClosureFacts ord Good) {e : RE} (hg : Good e)
    {fuel fuel' : Nat} {b : Bool} {l : List RE} (h : isEmptyRe ord fuel e = .ok b)
    (hl : iterDerivatives ord fuel' e = .ok l) : b = true ↔ ∀ x ∈ l, x.nullable = false := by
  have hinv : BInv ord e l l.length := ((iterLoop_spec F hg fuel' [e] 0 (BInv.init e)).2 l hl).1
  rw [is_empty_iff F hg h]
  constructor
  · intro hempty x hx
    cases hn : x.nullable with
    | false => rfl
    | true =>
      obtain ⟨s, _, hs⟩ := (hinv.reach x hx).word_of_nullable F hg hn
      exact absurd hs (hempty s)
  · exact closed_nonnullable_empty F hg hinv

/-- the lazy search needs no more fuel than the full enumeration -/
theorem is_empty_fuel {e : RE} {fuel : Nat} {l : List RE}
    (hl : iterDerivatives ord fuel e = .ok l) : isEmptyRe ord fuel e ≠ .outOfFuel := by
  unfold isEmptyRe
  unfold iterDerivatives at hl
  generalize ([e] : List RE) = all at hl ⊢
  generalize 0 = i at hl ⊢
  induction fuel generalizing all i with
  | zero => simp [iterLoop] at hl
  | succ fuel ih =>
    rw [iterLoop] at hl
    rw [isEmptyLoop]
    cases hr : all[i]? with
    | none => simp
    | some r =>
      rw [hr] at hl
      simp only at hl ⊢
      cases hds : classDerivs ord r with
      | none => rw [hds] at hl; cases hl
      | some ds =>
        rw [hds] at hl
        simp only
        split
        · simp
        · exact ih _ _ hl

/-! ### the labeled queue -/

/-- T:labeled_path_wellformed (queue invariant, initial state): `LabeledQueue::new(e)` -/
theorem labeled_queue_wellformed_init (e : RE) : LqWF ord e [⟨e, none⟩] := .root

/-- T:labeled_path_wellformed (queue invariant, preserved by `push(pre, label, suc)` whenever
    `pre` has been visited and `suc = class_derivative(pre, label)`) -/
theorem labeled_queue_wellformed_push {e : RE} {m : List LqEntry} (h : LqWF ord e m) {pre : RE}
    {label : ClassId} {suc : RE} (hpre : pre ∈ m.map (·.node))
    (hl : label ∈ pre.derivClass.classIds) (hd : cachedDeriv ord pre label = some suc) :
    LqWF ord e (lqPush m pre label suc) :=
  h.lqPush hpre hl hd

/-- the invariant in index form: the root is entry 0 and has no edge; entry `k > 0` has an edge
    `(label, pre)` with `pre` the node of an entry `j < k`, `label` a class id of `pre`, and
    `class_derivative(pre, label)` is the node of entry `k` -/
theorem labeled_queue_wellformed_index {e : RE} {m : List LqEntry} (h : LqWF ord e m) :
    m[0]? = some ⟨e, none⟩ ∧
    ∀ k (hk : k < m.length), 0 < k →
      ∃ label pre j, ∃ hj : j < k, m[k].edge = some (label, pre) ∧ (m[j]'(by omega)).node = pre ∧
        label ∈ pre.derivClass.classIds ∧ cachedDeriv ord pre label = some m[k].node :=
  h.index_form

/-- T:labeled_path_wellformed — on a well-formed queue `full_path(dest)` of a visited node does
    not panic (the predecessor walk needs at most map-size steps) and returns a path from the root:
    first term `e`, every class id valid for its term, each next term the class derivative, the
    last derivative `dest` -/
theorem labeled_path_wellformed {e : RE} {m : List LqEntry} (h : LqWF ord e m) {dest : RE}
    (hd : dest ∈ m.map (·.node)) : ∃ p, lqFullPath m dest = some p ∧ PathFrom ord e p dest :=
  h.fullPath hd

/-! ### get_string_path / get_string -/

private theorem path_core (F : ClosureFacts ord Good) {e : RE} (hg : Good e) (fuel : Nat) :
    getStringPath ord fuel e ≠ .panic ∧
    (getStringPath ord fuel e = .ok none →
      ∃ l, BInv ord e l l.length ∧ ∀ x ∈ l, x.nullable = false) ∧
    (∀ p, getStringPath ord fuel e = .ok (some p) →
      ∃ dest, dest.nullable = true ∧ PathFrom ord e p dest) :=
  pathLoop_spec F hg fuel [⟨e, none⟩] 0 .root (BInv.init e) (by simp)

/-- the documented contract of `get_string_path`: the path starts at `e`, follows class
    derivatives through valid class ids, and the derivative after the last pair is nullable -/
theorem get_string_path_spec (F : ClosureFacts ord Good) {e : RE} (hg : Good e) {fuel : Nat}
    {p : List (RE × ClassId)} (h : getStringPath ord fuel e = .ok (some p)) :
    ∃ dest, dest.nullable = true ∧ PathFrom ord e p dest :=
  (path_core F hg fuel).2.2 p h

/-- T:get_string_member — the string returned is a well-formed SMT string of the language -/
theorem get_string_member (F : ClosureFacts ord Good) {e : RE} (hg : Good e) {fuel : Nat}
    {s : List Nat} (h : getString ord fuel e = .ok (some s)) : WFs s ∧ s ∈ e.lang := by
  unfold getString at h
  cases hp : getStringPath ord fuel e with
  | outOfFuel => rw [hp] at h; cases h
  | panic => rw [hp] at h; cases h
  | ok r =>
    rw [hp] at h
    cases r with
    | none => cases h
    | some path =>
      obtain ⟨dest, hn, hpath⟩ := get_string_path_spec F hg hp
      obtain ⟨s', hs', hwf, hsd⟩ := hpath.string F path hg
      simp only at h
      have hs'' : List.mapM (fun x : RE × ClassId => x.1.derivClass.pickInClass x.2) path
          = some s' := hs'
      rw [hs''] at h
      simp only [Res.ok.injEq, Option.some.injEq] at h
      subst h
      refine ⟨hwf, (strInRe_iff F hg hwf).1 ?_⟩
      unfold strInRe
      rw [hsd]
      exact hn

/-- the witness is accepted by the membership test `str_in_re` -/
theorem get_string_accepted (F : ClosureFacts ord Good) {e : RE} (hg : Good e) {fuel : Nat}
    {s : List Nat} (h : getString ord fuel e = .ok (some s)) : strInRe ord s e = true := by
  obtain ⟨hwf, hs⟩ := get_string_member F hg h
  exact (strInRe_iff F hg hwf).2 hs

/-- T:get_string_none_iff — `get_string(e)` is `None` exactly when the language is empty -/
theorem get_string_none_iff (F : ClosureFacts ord Good) {e : RE} (hg : Good e) {fuel : Nat}
    {r : Option (List Nat)} (h : getString ord fuel e = .ok r) :
    r = none ↔ ∀ w, w ∉ e.lang := by
  cases r with
  | some s =>
    obtain ⟨_, hs⟩ := get_string_member F hg h
    simp only [reduceCtorEq, false_iff, not_forall, not_not]
    exact ⟨s, hs⟩
  | none =>
    simp only [true_iff]
    unfold getString at h
    cases hp : getStringPath ord fuel e with
    | outOfFuel => rw [hp] at h; cases h
    | panic => rw [hp] at h; cases h
    | ok r =>
      rw [hp] at h
      cases r with
      | none =>
        obtain ⟨l, hl, hn⟩ := (path_core F hg fuel).2.1 hp
        exact closed_nonnullable_empty F hg hl hn
      | some path =>
        simp only at h
        split at h <;> cases h

/-- `get_string` never panics: neither `full_path`'s `unwrap`, nor `class_derivative_unchecked`,
    nor `pick_class_rep` along the path -/
theorem get_string_no_panic (F : ClosureFacts ord Good) {e : RE} (hg : Good e) (fuel : Nat) :
    getString ord fuel e ≠ .panic := by
  unfold getString
  cases hp : getStringPath ord fuel e with
  | outOfFuel => simp
  | panic => exact absurd hp (path_core F hg fuel).1
  | ok r =>
    cases r with
    | none => simp
    | some path =>
      obtain ⟨dest, _, hpath⟩ := get_string_path_spec F hg hp
      obtain ⟨s', hs', _, _⟩ := hpath.string F path hg
      have hs'' : List.mapM (fun x : RE × ClassId => x.1.derivClass.pickInClass x.2) path
          = some s' := hs'
      simp only [hs'']
      simp

/-- more fuel gives the same answer -/
theorem get_string_fuel_mono {e : RE} {fuel fuel' : Nat} (hle : fuel ≤ fuel')
    {r : Option (List Nat)} (h : getString ord fuel e = .ok r) :
    getString ord fuel' e = .ok r := by
  unfold getString at h ⊢
  cases hp : getStringPath ord fuel e with
  | outOfFuel => rw [hp] at h; cases h
  | panic => rw [hp] at h; cases h
  | ok p =>
    have : getStringPath ord fuel' e = .ok p := pathLoop_mono hle hp
    rw [hp] at h
    rw [this]
    exact h

/-- `get_string` and `is_empty_re` agree -/
theorem get_string_agrees_is_empty (F : ClosureFacts ord Good) {e : RE} (hg : Good e)
    {fuel fuel' : Nat} {r : Option (List Nat)} {b : Bool} (h : getString ord fuel e = .ok r)
    (hb : isEmptyRe ord fuel' e = .ok b) : b = true ↔ r = none := by
  rw [is_empty_iff F hg hb, get_string_none_iff F hg h]

/-! ### non-vacuity: concrete runs meeting the hypotheses `… = .ok r`
    (ids constantly 0, which satisfies `PairSound` trivially) -/

private def ord0 : RE → Nat := fun _ => 0
private def ab : RE := .concat (.range ⟨97, 97⟩) (.range ⟨98, 98⟩)
/-- `a ∩ b`: a non-trivial term with empty language -/
private def aAndB : RE := .inter [.range ⟨97, 97⟩, .range ⟨98, 98⟩]

example : isEmptyRe ord0 10 ab = .ok false := by decide +kernel
example : getString ord0 10 ab = .ok (some [97, 98]) := by decide +kernel
example : strInRe ord0 [97, 98] ab = true := by decide +kernel
example : isEmptyRe ord0 10 aAndB = .ok true := by decide +kernel
example : getString ord0 10 aAndB = .ok none := by decide +kernel
example : getStringPath ord0 10 ab =
    .ok (some [(ab, .interval 0), (.range ⟨98, 98⟩, .interval 0)]) := by decide +kernel

end Smt.C05
