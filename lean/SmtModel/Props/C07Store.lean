/-
  C07 (store level) — hash-consing discipline of `Store::make`, `ReManager::new`,
  `ReManager::make`, `ReManager::complement` (DESIGN.md §7 C07, part (i)).

  Property theorems only; helper lemmas are in `SmtModel/Proofs/Store.lean`.

  A *history* is an arbitrary list of calls `Op.make node | Op.complement id` applied to a
  fresh manager (`run`).  Every public constructor, derivative, compilation, emptiness test …
  of the crate touches the term table only through these two entry points, so "any history of
  the manager" is "any `List Op`".  All theorems below are for **all** histories (no bound on the
  length, no assumption on what is called), except `children_smaller`, `checkTable_of_reachable`
  and `run_total`, which need that the arguments of each call are terms that exist at the time of
  the call (`validOps`; in Rust this is guaranteed by the type `RegLan = &'static RE` as long as
  terms of different managers are not mixed).

  Objects are identified with table positions: the generic `Store` allocates the object with id
  `counter` exactly when it appends the key at position `counter`, and never moves or frees it.
  "The very same term (pointer-identical)" is therefore "the same id and no allocation".

  NOT in this file (tree level, proved with the regex model): `construction_deterministic`
  and `language_history_independent` of DESIGN.md §7 C07.
-/
import SmtModel.Proofs.Store

namespace Smt.C07Store
open Smt Node

/-- states reachable by an arbitrary history -/
def Reachable (m : ReStore) : Prop := ∃ ops, run ops = some m

theorem reachable_inv {m : ReStore} (h : Reachable m) : Inv m := by
  obtain ⟨ops, h⟩ := h; exact inv_run h

/-! ### same constructor, same arguments ⇒ the very same term, whatever happened in between -/

/-- **make_stable.** Once `make k` has returned id `i` (after an arbitrary history `ops₁`), then
    after any further history `ops₂` the same request returns the same id `i` and leaves the
    manager unchanged (no allocation).  Holds for every key, including `Complement`. -/
theorem make_stable (ops₁ ops₂ : List Op) (m₁ m₁' m₂ : ReStore) (k : Node) (i : Nat)
    (h₁ : run ops₁ = some m₁) (hmk : m₁.make k = some (m₁', i))
    (h₂ : runFrom m₁' ops₂ = some m₂) : m₂.make k = some (m₂, i) := by
  have hI := inv_run h₁
  obtain ⟨hI', hp1, hres, hcompl⟩ := make_step hI hmk
  obtain ⟨hI2, hp2⟩ := runFrom_step hI' h₂
  by_cases hnc : k.isCompl = false
  · exact make_of_get hI2 hnc (prefix_get hp2 (hres hnc))
  · cases k <;> simp [isCompl] at hnc
    rename_i x
    obtain ⟨rfl, rfl, hx⟩ := hcompl x rfl
    have hlen : x + 1 < m₂.table.length := Nat.lt_of_lt_of_le hx hp2.length_le
    simp [make_compl, hI2.idToRe hlen]

/-- the id returned for a (non-`Complement`) key holds exactly that key -/
theorem make_returns_key (m m' : ReStore) (k : Node) (i : Nat) (h : Reachable m)
    (hnc : k.isCompl = false) (hmk : m.make k = some (m', i)) : m'.table[i]? = some k :=
  (make_step (reachable_inv h) hmk).2.2.1 hnc

/-- a history only ever appends: ids keep their keys for ever -/
theorem table_grows (ops₁ ops₂ : List Op) (m₁ m₂ : ReStore) (h₁ : run ops₁ = some m₁)
    (h₂ : runFrom m₁ ops₂ = some m₂) : m₁.table <+: m₂.table :=
  (runFrom_step (inv_run h₁) h₂).2

/-- **ids_injective.** No key is stored twice: two ids hold equal keys iff they are the same id
    ("two terms compare equal only if they are the same object", and conversely). -/
theorem ids_injective (m : ReStore) (h : Reachable m) (i j : Nat) (k₁ k₂ : Node)
    (hi : m.table[i]? = some k₁) (hj : m.table[j]? = some k₂) : i = j ↔ k₁ = k₂ := by
  have hI := reachable_inv h
  obtain ⟨hil, hiv⟩ := List.getElem?_eq_some_iff.mp hi
  obtain ⟨hjl, hjv⟩ := List.getElem?_eq_some_iff.mp hj
  rw [← hiv, ← hjv]
  exact (List.getElem_inj (h₀ := hil) (h₁ := hjl) hI.nodup).symm

theorem table_nodup (m : ReStore) (h : Reachable m) : m.table.Nodup := (reachable_inv h).nodup

/-- `id2re` is the identity: `verif_term(i)` / `id_to_re(i)` is the object with id `i`,
    and the dumped table is the store's key list -/
theorem id2re_identity (m : ReStore) (h : Reachable m) :
    m.id2re = List.range m.table.length ∧ m.size = m.table.length ∧
      m.dump = m.table.map some :=
  ⟨(reachable_inv h).id2re, (reachable_inv h).size_eq, dump_eq (reachable_inv h)⟩

/-! ### x and ¬x sit at ids 2k / 2k+1 -/

theorem table_length_even (m : ReStore) (h : Reachable m) :
    m.size % 2 = 0 ∧ 6 ≤ m.size := by
  have hI := reachable_inv h
  rw [hI.size_eq]; exact ⟨hI.even, hI.six_le⟩

/-- the six built-in terms keep ids 0..5 -/
theorem initial_terms (m : ReStore) (h : Reachable m) : m.table.take 6 = initNodes :=
  (reachable_inv h).init

/-- **pair_invariant.** In every reachable store: id 1 holds `Complement(0)`; ids 2/3 and 4/5 are
    the built-in pairs `∅ / Σ*` and `ε / Σ⁺`; for every even id `i ≥ 6` the key at `i` is not a
    `Complement` and the key at `i+1` is `Complement(i)`; and a `Complement(x)` key occurs
    nowhere else. -/
theorem pair_invariant (m : ReStore) (h : Reachable m) :
    m.table[0]? = some (.range 0 MAX_CHAR) ∧ m.table[1]? = some (.compl 0) ∧
    m.table[2]? = some .empty ∧ m.table[3]? = some (.loop 0 0 none) ∧
    m.table[4]? = some .epsilon ∧ m.table[5]? = some (.loop 0 1 none) ∧
    (∀ i, 6 ≤ i → i % 2 = 0 → i < m.size →
      m.table[i + 1]? = some (.compl i) ∧ ∀ x, m.table[i]? ≠ some (.compl x)) ∧
    (∀ j x, m.table[j]? = some (.compl x) → j = x + 1 ∧ x % 2 = 0) := by
  have hI := reachable_inv h
  refine ⟨hI.get_init (by omega), hI.get_init (by omega), hI.get_init (by omega),
    hI.get_init (by omega), hI.get_init (by omega), hI.get_init (by omega), ?_, ?_⟩
  · intro i h6 hev hlt
    rw [hI.size_eq] at hlt
    exact hI.pair i h6 hev hlt
  · intro j x hj
    exact ⟨(hI.compl_pos hj).1, (hI.compl_pos hj).2.1⟩

/-- **PairSound for `ord := id`.**  Whenever the adjacency test of `simplify_set_operation`
    (`current.id == previous.id + 1 && previous.id % 2 == 0`) fires, the two terms are
    complements of each other: syntactically, or one of the two built-in pairs. -/
theorem pair_sound (m : ReStore) (h : Reachable m) (x y : Nat) (hy : y = x + 1)
    (hx : x % 2 = 0) (hlt : y < m.size) : IsComplPair m.table x y := by
  have hI := reachable_inv h
  subst hy
  rw [hI.size_eq] at hlt
  exact isComplPair_of hI.init hI.pair hx (by omega)

/-! ### complement = id xor 1 -/

/-- **complement_involutive** (id arithmetic) -/
theorem complementId_involutive (i : Nat) : complementId (complementId i) = i := by
  simp only [complementId, xor_one]; split <;> split <;> omega

/-- **complement_no_fixpoint** (id arithmetic) -/
theorem complementId_ne (i : Nat) : complementId i ≠ i := by
  simp only [complementId, xor_one]; split <;> omega

/-- `id ^ 1` is the other member of the pair `2k / 2k+1` -/
theorem complementId_eq (i : Nat) :
    complementId i = if i % 2 = 0 then i + 1 else i - 1 := xor_one i

/-- **complement_valid.** On a reachable manager `complement` of an existing term does not panic
    and returns the existing term with id `id xor 1`. -/
theorem complement_valid (m : ReStore) (h : Reachable m) (i : Nat) (hi : i < m.size) :
    m.complement i = some (complementId i) ∧ complementId i < m.size := by
  have hI := reachable_inv h
  rw [hI.size_eq] at hi ⊢
  have hx : complementId i < m.table.length := by
    rw [complementId_eq]; have := hI.even; split <;> omega
  exact ⟨by simp only [ReStore.complement]; exact hI.idToRe hx, hx⟩

/-- **complement_involutive.** `complement(complement(e))` is `e` -/
theorem complement_involutive (m : ReStore) (h : Reachable m) (i : Nat) (hi : i < m.size) :
    (m.complement i).bind m.complement = some i := by
  obtain ⟨h1, h2⟩ := complement_valid m h i hi
  rw [h1]
  simp only [Option.bind_some]
  rw [(complement_valid m h _ h2).1, complementId_involutive]

/-- **complement_no_fixpoint.** `complement(e)` differs from `e` -/
theorem complement_no_fixpoint (m : ReStore) (h : Reachable m) (i : Nat) (hi : i < m.size) :
    m.complement i ≠ some i := by
  rw [(complement_valid m h i hi).1]
  intro hc
  exact complementId_ne i (Option.some.inj hc)

/-- `complement` really returns the complement: the nodes at `i` and `complement i` form a
    complement pair (in one of the two orders) -/
theorem complement_is_pair (m : ReStore) (h : Reachable m) (i : Nat) (hi : i < m.size) :
    IsComplPair m.table i (complementId i) ∨ IsComplPair m.table (complementId i) i := by
  have hI := reachable_inv h
  have hlt := hi
  rw [hI.size_eq] at hlt
  rw [complementId_eq]
  split
  · rename_i hev
    exact Or.inl (isComplPair_of hI.init hI.pair hev hlt)
  · rename_i hodd
    right
    have := isComplPair_of hI.init hI.pair (x := i - 1) (by omega) (by omega)
    rwa [show i - 1 + 1 = i by omega] at this

/-- **make_compl_is_complement.** Requesting the key `Complement(x)` for a term `x` (even id)
    returns `complement x`, allocates nothing, does not panic. -/
theorem make_compl_is_complement (m : ReStore) (h : Reachable m) (x : Nat) (hx : x % 2 = 0)
    (hlt : x < m.size) : m.make (.compl x) = some (m, complementId x) ∧
      m.complement x = some (complementId x) := by
  have hI := reachable_inv h
  refine ⟨?_, (complement_valid m h x hlt).1⟩
  rw [hI.size_eq] at hlt
  have hx1 : x + 1 < m.table.length := by have := hI.even; omega
  simp [make_compl, hI.idToRe hx1, complementId_eq, hx]

/-- Remark (not a property of the public API, which never passes `Complement` to `make`):
    the `Complement(x)` arm of `ReManager::make` returns the term with id `x + 1` whatever `x` is.
    For an *odd* `x` that is the *next* term, not the complement (`x - 1`); for the last id the
    real code panics (index out of bounds). -/
theorem make_compl_arm (m : ReStore) (h : Reachable m) (x : Nat) :
    m.make (.compl x) = if x + 1 < m.size then some (m, x + 1) else none := by
  have hI := reachable_inv h
  rw [hI.size_eq]
  split
  · rename_i h1; simp [make_compl, hI.idToRe h1]
  · rename_i h1; simp [make_compl, hI.idToRe_none (Nat.le_of_not_lt h1)]

/-! ### `id → tree` is well-founded; valid histories do not panic; the table checker -/

/-- **run_total.** A history whose arguments exist at the time of each call never panics
    (no `id2re` index out of bounds, none of the `debug_assert!`s of `ReManager::make` fails). -/
theorem run_total (ops : List Op) (hv : validOps ops = true) : ∃ m, run ops = some m :=
  runFrom_total inv_new hv

/-- **children_smaller.** Every child id in a node is smaller than the node's own id. -/
theorem children_smaller (ops : List Op) (m : ReStore) (hv : validOps ops = true)
    (hr : run ops = some m) (i : Nat) (n : Node) (hi : m.table[i]? = some n) :
    ∀ c ∈ n.children, c < i := by
  have := children_runFrom inv_new (by rw [new_table]; exact childrenSmaller_init) hv hr
  exact this i n hi

/-- **checkTable is exactly `TableOK`** (see the fields of `TableOK` for the meaning of each
    conjunct (a)–(e)) -/
theorem checkTable_spec (t : Array Node) : checkTable t = true ↔ TableOK t.toList :=
  checkTable_iff t

/-- **checkTable_of_reachable.** The table of every state reachable by a valid history passes
    the checker — so a dumped table that fails it is *not* a table the modelled
    `ReManager` can produce. -/
theorem checkTable_of_reachable (ops : List Op) (m : ReStore) (hv : validOps ops = true)
    (hr : run ops = some m) : checkTable m.table.toArray = true ∧ m.dump = m.table.map some := by
  have hI := inv_run hr
  have hc := children_runFrom inv_new (by rw [new_table]; exact childrenSmaller_init) hv hr
  exact ⟨(checkTable_iff _).mpr (tableOK_of_inv hI hc), dump_eq hI⟩

/-- **what a passed check gives** for a dumped table (reachable or not): no duplicate keys,
    `PairSound`, children smaller. -/
theorem checkTable_sound (t : Array Node) (h : checkTable t = true) :
    t.toList.Nodup ∧
    (∀ x y, y = x + 1 → x % 2 = 0 → y < t.size → IsComplPair t.toList x y) ∧
    (∀ j x, t.toList[j]? = some (.compl x) → j = x + 1 ∧ x % 2 = 0) ∧
    (∀ (i : Nat) (n : Node), t.toList[i]? = some n → ∀ c ∈ n.children, c < i) := by
  have hok := (checkTable_iff t).mp h
  -- a table that passes the check is an invariant-satisfying manager state
  let m : ReStore := { store := ⟨t.toList⟩, id2re := List.range t.toList.length }
  have hI : Inv m := ⟨rfl, hok.init, hok.even, hok.nodup, hok.pair⟩
  refine ⟨hok.nodup, ?_, ?_, hok.children⟩
  · intro x y hy hx hlt
    subst hy
    exact isComplPair_of hok.init hok.pair hx (by simp at hlt ⊢; omega)
  · intro j x hj
    have := hI.compl_pos (j := j) (x := x) hj
    exact ⟨this.1, this.2.1⟩

/-! ### non-vacuity -/

/-- a concrete history: `a`, `b`, `a·b`, ¬(a·b), `a` again, `Complement(a)`, `a ∪ b ∪ a·b`,
    `(a·b)*`, `a·b` again -/
def exampleOps : List Op :=
  [.make (.range 97 97), .make (.range 98 98), .make (.concat 6 8), .complement 10,
   .make (.range 97 97), .make (.compl 6), .make (.union [6, 8, 10]), .make (.loop 10 0 none),
   .make (.concat 6 8)]

example : validOps exampleOps = true := by decide

example : (run exampleOps).map (·.table) = some
    [.range 0 MAX_CHAR, .compl 0, .empty, .loop 0 0 none, .epsilon, .loop 0 1 none,
     .range 97 97, .compl 6, .range 98 98, .compl 8, .concat 6 8, .compl 10,
     .union [6, 8, 10], .compl 12, .loop 10 0 none, .compl 14] := by decide

example : Reachable ReStore.new := ⟨[], rfl⟩

-- `make` of an existing key returns the old id and allocates nothing (size stays 16), after
-- more history; `complement` is `xor 1`
example : (run exampleOps).map (fun m =>
      [(m.make (.concat 6 8)).map (fun r => (r.1.size, r.2)),
       (m.make (.range 97 97)).map (fun r => (r.1.size, r.2)),
       (m.make (.compl 10)).map (fun r => (r.1.size, r.2)),
       (m.make (.range 99 99)).map (fun r => (r.1.size, r.2)),
       (m.complement 10).map (fun r => (m.size, r)),
       (m.complement 11).map (fun r => (m.size, r)),
       (m.complement 2).map (fun r => (m.size, r)),
       (m.complement 16).map (fun r => (m.size, r))]) =
    some [some (16, 10), some (16, 6), some (16, 11), some (18, 16),
          some (16, 11), some (16, 10), some (16, 3), none] := by decide

-- the checker accepts this table (the hypotheses of `checkTable_of_reachable` are satisfiable) …
example : ∃ m, run exampleOps = some m ∧ m.size = 16 ∧ checkTable m.table.toArray = true := by
  obtain ⟨m, hm⟩ := run_total exampleOps (by decide)
  refine ⟨m, hm, ?_, (checkTable_of_reachable exampleOps m (by decide) hm).1⟩
  have : (run exampleOps).map (·.size) = some 16 := by decide
  rw [hm] at this; simpa using this
-- … and rejects corrupted ones: swapped pair (conjunct d)
example : checkTable #[.range 0 MAX_CHAR, .compl 0, .empty, .loop 0 0 none, .epsilon,
    .loop 0 1 none, .compl 7, .range 97 97] = false := by
  have : Table.checkPairs #[.range 0 MAX_CHAR, .compl 0, .empty, .loop 0 0 none, .epsilon,
    .loop 0 1 none, .compl 7, .range 97 97] = false := by decide
  simp [checkTable, this]
-- duplicate key (conjunct c)
example : checkTable #[.range 0 MAX_CHAR, .compl 0, .empty, .loop 0 0 none, .epsilon,
    .loop 0 1 none, .range 97 97, .compl 6, .range 97 97, .compl 8] = false := by
  rw [Bool.eq_false_iff]
  intro h
  have := (checkTable_sound _ h).1
  revert this
  decide
-- forward reference (conjunct e)
example : checkTable #[.range 0 MAX_CHAR, .compl 0, .empty, .loop 0 0 none, .epsilon,
    .loop 0 1 none, .concat 8 8, .compl 6, .range 97 97, .compl 8] = false := by
  have : Table.checkChildren #[.range 0 MAX_CHAR, .compl 0, .empty, .loop 0 0 none, .epsilon,
    .loop 0 1 none, .concat 8 8, .compl 6, .range 97 97, .compl 8] = false := by decide
  simp [checkTable, this]
-- odd length (conjunct b), wrong built-in term (conjunct a)
example : checkTable #[.range 0 MAX_CHAR, .compl 0, .empty, .loop 0 0 none, .epsilon,
    .loop 0 1 none, .range 97 97] = false := by
  have : Table.checkEven #[.range 0 MAX_CHAR, .compl 0, .empty, .loop 0 0 none, .epsilon,
    .loop 0 1 none, .range 97 97] = false := by decide
  simp [checkTable, this]
example : checkTable #[.range 0 MAX_CHAR, .compl 0, .epsilon, .loop 0 1 none, .empty,
    .loop 0 0 none] = false := by
  have : Table.checkInit #[.range 0 MAX_CHAR, .compl 0, .epsilon, .loop 0 1 none, .empty,
    .loop 0 0 none] = false := by decide
  simp [checkTable, this]

-- the built-in exceptions: ids 2/3 and 4/5 are complement pairs without a `Complement` node
example : IsComplPair ReStore.new.table 2 3 ∧ IsComplPair ReStore.new.table 4 5 ∧
    IsComplPair ReStore.new.table 0 1 := by
  refine ⟨Or.inr (Or.inl ⟨rfl, rfl, rfl⟩), Or.inr (Or.inr ⟨rfl, rfl, rfl⟩), Or.inl rfl⟩

end Smt.C07Store
