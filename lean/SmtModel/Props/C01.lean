/-
  C01 — Regex membership equals the SMT-LIB denotation of how the term was built.

  "For every regular expression obtained by any sequence of constructor calls (ReManager methods
  or the SMT-LIB-named wrapper functions) and every SMT string w, the membership test returns true
  exactly when w belongs to the language SMT-LIB assigns to that construction.  The rewriting
  performed by the constructors never changes the denoted language, and the public nullable flag
  of a term is true exactly when the empty string is in that language."

  * Model: `build ord : Prog → Option RE` (Model/Prog.lean) runs a construction program — one node
    per public constructor call — through the model of the smart constructors; `strInRe`
    (Model/Deriv.lean) is `str_in_re` = nullable ∘ fold of Brzozowski derivatives.
  * Specification (this file): `denote : Prog → Language ℕ`, the SMT-LIB 2.6 semantics of the
    *program* (not of the rewritten term), written directly with Mathlib's `Language` operations.
  * Theorems: for ALL id assignments `ord` with `PairSound ord` (= all histories of the manager,
    DESIGN.md §1(a), §6), ALL programs with well-formed inputs (`Prog.WFIn`), ALL SMT strings.

  Helper lemmas: Proofs/ReLang*.lean (concat, loop, complement, atoms), Proofs/ReSetOps*.lean and
  Props/C16.lean (union/inter/diff incl. `remove_subsumed`), Props/C03.lean (derivatives are left
  quotients), Proofs/RefMatch.lean (executable reference matcher), Proofs/ReBuild.lean (structural
  invariants per constructor).

  NOT proved here (see checks.d/C01.json `partial`): the u32 overflow panics of the loop-bound
  arithmetic (`loop_ranges`: the model keeps bounds as unbounded naturals, `RE.overflowed` marks
  the results for which the Rust panics; the language theorems hold for all bounds), and the
  thread-local plumbing of the `re_*` wrappers (each is literally `MANAGER.with(|m| m.method(..))`).
-/
import Mathlib.Computability.Language
import SmtModel.Props.C03
import SmtModel.Proofs.ReBuild

namespace Smt

/-! ### well-formed inputs, documented panics -/

namespace Prog

/-- executable form of `RE.RangeOK`: `lo ≤ hi` for a finite loop range -/
def rangeOk (r : LoopRange) : Bool :=
  match r.stop with
  | some j => decide (r.start ≤ j)
  | Option.none => true

mutual
/-- the inputs of a program are well-formed values of their Rust types: `CharSet`s are intervals of
    the alphabet (`CharSet::range` etc. guarantee it), `LoopRange`s have `lo ≤ hi`
    (`LoopRange::finite` asserts it), the `SmtString` arguments of `re.range` contain only SMT-LIB
    characters.  (Nothing is required of the arguments of `range` / `char` / `str`: a bad argument
    there is a documented panic, see `BadCall`.) -/
def wfIn : Prog → Bool
  | .none => true
  | .all => true
  | .allchar => true
  | .eps => true
  | .sigmaPlus => true
  | .range _ _ => true
  | .char _ => true
  | .smtRange s1 s2 => goodString s1 && goodString s2
  | .str _ => true
  | .charSet cs => decide cs.WF
  | .concat p q => wfIn p && wfIn q
  | .concatList ps => wfInList ps
  | .union p q => wfIn p && wfIn q
  | .unionList ps => wfInList ps
  | .inter p q => wfIn p && wfIn q
  | .interList ps => wfInList ps
  | .comp p => wfIn p
  | .diff p q => wfIn p && wfIn q
  | .diffList p qs => wfIn p && wfInList qs
  | .star p => wfIn p
  | .plus p => wfIn p
  | .opt p => wfIn p
  | .exp p _ => wfIn p
  | .smtLoop p _ _ => wfIn p
  | .mkLoop p r => wfIn p && rangeOk r
def wfInList : List Prog → Bool
  | [] => true
  | p :: ps => wfIn p && wfInList ps
end

/-- well-formed inputs (decidable) -/
def WFIn (p : Prog) : Prop := p.wfIn = true
def WFInList (ps : List Prog) : Prop := wfInList ps = true

instance (p : Prog) : Decidable p.WFIn := by unfold WFIn; infer_instance

mutual
/-- all calls of a program (the program itself and, recursively, the calls that produced its
    arguments) -/
def subProgs : Prog → List Prog
  | .none => [.none]
  | .all => [.all]
  | .allchar => [.allchar]
  | .eps => [.eps]
  | .sigmaPlus => [.sigmaPlus]
  | .range a b => [.range a b]
  | .char c => [.char c]
  | .smtRange s1 s2 => [.smtRange s1 s2]
  | .str s => [.str s]
  | .charSet cs => [.charSet cs]
  | .concat p q => .concat p q :: (subProgs p ++ subProgs q)
  | .concatList ps => .concatList ps :: subProgsList ps
  | .union p q => .union p q :: (subProgs p ++ subProgs q)
  | .unionList ps => .unionList ps :: subProgsList ps
  | .inter p q => .inter p q :: (subProgs p ++ subProgs q)
  | .interList ps => .interList ps :: subProgsList ps
  | .comp p => .comp p :: subProgs p
  | .diff p q => .diff p q :: (subProgs p ++ subProgs q)
  | .diffList p qs => .diffList p qs :: (subProgs p ++ subProgsList qs)
  | .star p => .star p :: subProgs p
  | .plus p => .plus p :: subProgs p
  | .opt p => .opt p :: subProgs p
  | .exp p k => .exp p k :: subProgs p
  | .smtLoop p i j => .smtLoop p i j :: subProgs p
  | .mkLoop p r => .mkLoop p r :: subProgs p
def subProgsList : List Prog → List Prog
  | [] => []
  | p :: ps => subProgs p ++ subProgsList ps
end

/-- a call that violates its documented precondition (`# Panics` sections of `ReManager::range`,
    `ReManager::char`; `ReManager::str` panics through `char`) -/
def BadCall : Prog → Prop
  | .range a b => ¬ (a ≤ b ∧ b ≤ MAX_CHAR)
  | .char c => MAX_CHAR < c
  | .str s => ¬ WFs s
  | _ => False

end Prog

namespace C01
open Smt RE Prog ReBuild

/-! ### the specification: SMT-LIB denotation of a construction program -/

mutual
/-- SMT-LIB 2.6 (theory of Unicode strings) semantics of a construction program.  Independent of
    the term the constructors actually build, of the id assignment and of the derivative engine. -/
def denote : Prog → Language ℕ
  | .none => 0                                                           -- re.none
  | .all => allStrings                                                   -- re.all
  | .allchar => {w | ∃ c, w = [c] ∧ c ≤ MAX_CHAR}                        -- re.allchar
  | .eps => 1                                                            -- (str.to_re "")
  | .sigmaPlus => {w | WFs w ∧ w ≠ []}                                   -- re.+ re.allchar
  | .range a b => {w | ∃ c, w = [c] ∧ a ≤ c ∧ c ≤ b}
  | .char c => {[c]}
  | .smtRange s1 s2 =>                                                   -- re.range
      {w | ∃ c1 c2 c, s1 = [c1] ∧ s2 = [c2] ∧ w = [c] ∧ c1 ≤ c ∧ c ≤ c2}
  | .str s => {s}                                                        -- str.to_re
  | .charSet cs => {w | ∃ c, w = [c] ∧ cs.start ≤ c ∧ c ≤ cs.stop}
  | .concat p q => denote p * denote q                                   -- re.++
  | .concatList ps => (denoteList ps).foldr (· * ·) 1
  | .union p q => denote p + denote q                                    -- re.union
  | .unionList ps => (denoteList ps).foldr (· + ·) 0
  | .inter p q => denote p ⊓ denote q                                    -- re.inter
  | .interList ps => (denoteList ps).foldr (· ⊓ ·) allStrings
  | .comp p => allStrings \ denote p                                     -- re.comp
  | .diff p q => denote p \ denote q                                     -- re.diff
  | .diffList p qs => denote p \ (denoteList qs).foldr (· + ·) 0
  | .star p => KStar.kstar (denote p)                                    -- re.*
  | .plus p => denote p * KStar.kstar (denote p)                         -- re.+
  | .opt p => 1 + denote p                                               -- re.opt
  | .exp p k => denote p ^ k                                             -- (_ re.^ k)
  | .smtLoop p i j =>                                                    -- (_ re.loop i j)
      if i ≤ j then {w | ∃ k, i ≤ k ∧ k ≤ j ∧ w ∈ denote p ^ k} else 0
  | .mkLoop p r => loopLang (denote p) r                                 -- ⋃ k ∈ r, L^k
def denoteList : List Prog → List (Language ℕ)
  | [] => []
  | p :: ps => denote p :: denoteList ps
end

/-! ### auxiliary facts about the list denotations -/

theorem rangeOk_iff (r : LoopRange) : rangeOk r = true ↔ RangeOK r := by
  unfold rangeOk RangeOK
  cases r.stop <;> simp

theorem mem_foldr_add (Ls : List (Language ℕ)) (w : List ℕ) :
    w ∈ Ls.foldr (· + ·) 0 ↔ ∃ L ∈ Ls, w ∈ L := by
  induction Ls with
  | nil => simp
  | cons L Ls ih =>
    simp only [List.foldr_cons, List.mem_cons, exists_eq_or_imp, Language.mem_add, ih]

theorem mem_foldr_inf (X : Language ℕ) (Ls : List (Language ℕ)) (w : List ℕ) :
    w ∈ Ls.foldr (· ⊓ ·) X ↔ (∀ L ∈ Ls, w ∈ L) ∧ w ∈ X := by
  induction Ls with
  | nil => simp
  | cons L Ls ih =>
    simp only [List.foldr_cons, List.mem_cons, forall_eq_or_imp]
    show (w ∈ L ∧ w ∈ Ls.foldr (· ⊓ ·) X) ↔ _
    rw [ih, and_assoc]

/-! ### the main induction: language and invariants of the built term -/

/-- what is proved of the term `e` built for the program `p` -/
def Spec (p : Prog) (e : RE) : Prop := e.lang = denote p ∧ Inv e

/-- … and of the operand list of a `*_list` call -/
def SpecList (ps : List Prog) (l : List RE) : Prop :=
  l.map lang = denoteList ps ∧ ∀ e ∈ l, Inv e

section
variable {ord : RE → Nat}

private theorem loop_case {p : Prog} {a : RE} (f : RE → RE) (L : Language ℕ → Language ℕ)
    (hs : Spec p a) (hl : a.WF → (f a).lang = L a.lang) (hi : Inv a → Inv (f a)) :
    (f a).lang = L (denote p) ∧ Inv (f a) := by
  obtain ⟨h1, h2⟩ := hs
  exact ⟨by rw [hl h2.1, h1], hi h2⟩

mutual
theorem build_spec (hp : PairSound ord) : ∀ (p : Prog), p.WFIn → ∀ e, build ord p = some e → Spec p e
  | .none, _, e, h => by
      simp only [build, Option.some.injEq] at h; subst h
      exact ⟨by rw [lang, denote], empty_inv⟩
  | .all, _, e, h => by
      simp only [build, Option.some.injEq] at h; subst h
      exact ⟨by rw [sigmaStar_lang, denote], sigmaStar_inv⟩
  | .allchar, _, e, h => by
      simp only [build, Option.some.injEq] at h; subst h
      exact ⟨by rw [SetOps.sigma_lang, denote], sigma_inv⟩
  | .eps, _, e, h => by
      simp only [build, Option.some.injEq] at h; subst h
      exact ⟨by rw [lang, denote], epsilon_inv⟩
  | .sigmaPlus, _, e, h => by
      simp only [build, Option.some.injEq] at h; subst h
      exact ⟨by rw [sigmaPlus_lang, denote], sigmaPlus_inv⟩
  | .range a b, _, e, h => by
      simp only [build] at h
      exact ⟨by rw [range?_lang a b e h, denote], range?_inv a b e h⟩
  | .char c, _, e, h => by
      simp only [build] at h
      exact ⟨by rw [char?_lang c e h, denote], char?_inv c e h⟩
  | .smtRange s1 s2, hw, e, h => by
      simp only [build, Option.some.injEq] at h; subst h
      simp only [WFIn, wfIn, Bool.and_eq_true, goodString_iff] at hw
      exact ⟨by rw [smtRange_lang, denote], smtRange_inv s1 s2 hw.2⟩
  | .str s, _, e, h => by
      simp only [build] at h
      exact ⟨by rw [str?_lang s e h, denote], str?_inv s e h⟩
  | .charSet cs, hw, e, h => by
      simp only [build, Option.some.injEq] at h; subst h
      simp only [WFIn, wfIn, decide_eq_true_eq] at hw
      exact ⟨by rw [RE.charSet, lang, denote], charSet_inv cs hw⟩
  | .concat p q, hw, e, h => by
      simp only [WFIn, wfIn, Bool.and_eq_true] at hw
      simp only [build] at h
      obtain ⟨a, b, ha, hb, rfl⟩ := (call2_eq_some_iff _ _ _ _).1 h
      obtain ⟨la, ia⟩ := build_spec hp p hw.1 a ha
      obtain ⟨lb, ib⟩ := build_spec hp q hw.2 b hb
      exact ⟨by rw [mkConcat_lang a b ia.1 ib.1, la, lb, denote], mkConcat_inv a b ia ib⟩
  | .concatList ps, hw, e, h => by
      simp only [WFIn, wfIn] at hw
      simp only [build] at h
      obtain ⟨l, hl, rfl⟩ := Option.map_eq_some_iff.1 h
      obtain ⟨ll, il⟩ := buildList_spec hp ps hw l hl
      exact ⟨by rw [concatList_lang l (invList_wf il), concatLangs_eq_foldr, ll, denote],
        concatList_inv l il⟩
  | .union p q, hw, e, h => by
      simp only [WFIn, wfIn, Bool.and_eq_true] at hw
      simp only [build] at h
      obtain ⟨a, b, ha, hb, rfl⟩ := (call2_eq_some_iff _ _ _ _).1 h
      obtain ⟨la, ia⟩ := build_spec hp p hw.1 a ha
      obtain ⟨lb, ib⟩ := build_spec hp q hw.2 b hb
      exact ⟨by rw [Final.mkUnion_lang hp a b ia.1 ib.1, la, lb, denote], mkUnion_inv ord a b ia ib⟩
  | .unionList ps, hw, e, h => by
      simp only [WFIn, wfIn] at hw
      simp only [build] at h
      obtain ⟨l, hl, rfl⟩ := Option.map_eq_some_iff.1 h
      obtain ⟨ll, il⟩ := buildList_spec hp ps hw l hl
      exact ⟨by rw [Final.mkUnionList_lang hp l (invList_wf il), langAny_eq_foldr, ll, denote],
        mkUnionList_inv ord l il⟩
  | .inter p q, hw, e, h => by
      simp only [WFIn, wfIn, Bool.and_eq_true] at hw
      simp only [build] at h
      obtain ⟨a, b, ha, hb, rfl⟩ := (call2_eq_some_iff _ _ _ _).1 h
      obtain ⟨la, ia⟩ := build_spec hp p hw.1 a ha
      obtain ⟨lb, ib⟩ := build_spec hp q hw.2 b hb
      exact ⟨by rw [Final.mkInter_lang hp a b ia.1 ib.1, la, lb, denote], mkInter_inv ord a b ia ib⟩
  | .interList ps, hw, e, h => by
      simp only [WFIn, wfIn] at hw
      simp only [build] at h
      obtain ⟨l, hl, rfl⟩ := Option.map_eq_some_iff.1 h
      obtain ⟨ll, il⟩ := buildList_spec hp ps hw l hl
      refine ⟨?_, mkInterList_inv ord l il⟩
      rw [Final.mkInterList_lang hp l (invList_wf il), langAll_eq_foldr, ll, denote]
      apply Language.ext; intro w
      show (WFs w ∧ w ∈ (denoteList ps).foldr (· ⊓ ·) ⊤) ↔ _
      rw [mem_foldr_inf, mem_foldr_inf]
      constructor
      · rintro ⟨h1, h2, _⟩; exact ⟨h2, h1⟩
      · rintro ⟨h2, h1⟩; exact ⟨h1, h2, trivial⟩
  | .comp p, hw, e, h => by
      simp only [WFIn, wfIn] at hw
      simp only [build] at h
      obtain ⟨a, ha, rfl⟩ := Option.map_eq_some_iff.1 h
      obtain ⟨la, ia⟩ := build_spec hp p hw a ha
      refine ⟨?_, complement_inv a ia⟩
      rw [complement_lang a ia.1, la, denote]
      rfl
  | .diff p q, hw, e, h => by
      simp only [WFIn, wfIn, Bool.and_eq_true] at hw
      simp only [build] at h
      obtain ⟨a, b, ha, hb, rfl⟩ := (call2_eq_some_iff _ _ _ _).1 h
      obtain ⟨la, ia⟩ := build_spec hp p hw.1 a ha
      obtain ⟨lb, ib⟩ := build_spec hp q hw.2 b hb
      exact ⟨by rw [Final.mkDiff_lang hp a b ia.1 ib.1, la, lb, denote], mkDiff_inv ord a b ia ib⟩
  | .diffList p qs, hw, e, h => by
      simp only [WFIn, wfIn, Bool.and_eq_true] at hw
      simp only [build] at h
      obtain ⟨a, l, ha, hl, rfl⟩ := (call2_eq_some_iff _ _ _ _).1 h
      obtain ⟨la, ia⟩ := build_spec hp p hw.1 a ha
      obtain ⟨ll, il⟩ := buildList_spec hp qs hw.2 l hl
      refine ⟨?_, mkDiffList_inv ord a l ia il⟩
      rw [Final.mkDiffList_lang hp a l ia.1 (invList_wf il), denote, ← ll, ← la]
      apply Language.ext; intro w
      show (w ∈ a.lang ∧ ∀ r ∈ l, w ∉ r.lang) ↔
        (w ∈ a.lang ∧ w ∉ ((l.map lang).foldr (· + ·) 0 : Language ℕ))
      rw [mem_foldr_add]
      simp only [List.mem_map, exists_exists_and_eq_and, not_exists, not_and]
  | .star p, hw, e, h => by
      simp only [WFIn, wfIn] at hw
      simp only [build] at h
      obtain ⟨a, ha, rfl⟩ := Option.map_eq_some_iff.1 h
      rw [Spec, denote]
      exact loop_case RE.star KStar.kstar (build_spec hp p hw a ha) (star_lang a) (star_inv a)
  | .plus p, hw, e, h => by
      simp only [WFIn, wfIn] at hw
      simp only [build] at h
      obtain ⟨a, ha, rfl⟩ := Option.map_eq_some_iff.1 h
      rw [Spec, denote]
      exact loop_case RE.plus (fun L => L * KStar.kstar L) (build_spec hp p hw a ha)
        (plus_lang a) (plus_inv a)
  | .opt p, hw, e, h => by
      simp only [WFIn, wfIn] at hw
      simp only [build] at h
      obtain ⟨a, ha, rfl⟩ := Option.map_eq_some_iff.1 h
      rw [Spec, denote]
      exact loop_case RE.opt (fun L => 1 + L) (build_spec hp p hw a ha) (opt_lang a) (opt_inv a)
  | .exp p k, hw, e, h => by
      simp only [WFIn, wfIn] at hw
      simp only [build] at h
      obtain ⟨a, ha, rfl⟩ := Option.map_eq_some_iff.1 h
      rw [Spec, denote]
      exact loop_case (RE.exp · k) (fun L => L ^ k) (build_spec hp p hw a ha)
        (exp_lang a k) (exp_inv a k)
  | .smtLoop p i j, hw, e, h => by
      simp only [WFIn, wfIn] at hw
      simp only [build] at h
      obtain ⟨a, ha, rfl⟩ := Option.map_eq_some_iff.1 h
      obtain ⟨la, ia⟩ := build_spec hp p hw a ha
      refine ⟨?_, smtLoop_inv a i j ia⟩
      have hd : denote (.smtLoop p i j) =
          (if i ≤ j then {w | ∃ k, i ≤ k ∧ k ≤ j ∧ w ∈ denote p ^ k} else 0 : Language ℕ) := by
        rw [denote]
      rw [hd, smtLoop_lang a i j ia.1, la]
      by_cases hij : i ≤ j
      · exact (if_pos hij).symm
      · refine Eq.trans ?_ (if_neg hij).symm
        apply Language.ext; intro w
        constructor
        · rintro ⟨k, h1, h2, _⟩; omega
        · intro hw0; exact absurd hw0 (Language.notMem_zero w)
  | .mkLoop p r, hw, e, h => by
      simp only [WFIn, wfIn, Bool.and_eq_true, rangeOk_iff] at hw
      simp only [build] at h
      obtain ⟨a, ha, rfl⟩ := Option.map_eq_some_iff.1 h
      rw [Spec, denote]
      exact loop_case (RE.mkLoop · r) (fun L => loopLang L r) (build_spec hp p hw.1 a ha)
        (fun hwf => mkLoop_lang a r hwf hw.2) (fun hi => mkLoop_inv a r hi hw.2)
theorem buildList_spec (hp : PairSound ord) :
    ∀ (ps : List Prog), WFInList ps → ∀ l, buildList ord ps = some l → SpecList ps l
  | [], _, l, h => by
      simp only [buildList, Option.some.injEq] at h; subst h
      exact ⟨by rw [denoteList]; rfl, fun e he => by cases he⟩
  | p :: ps, hw, l, h => by
      simp only [WFInList, wfInList, Bool.and_eq_true] at hw
      simp only [buildList] at h
      obtain ⟨a, l', ha, hl, rfl⟩ := (call2_eq_some_iff _ _ _ _).1 h
      obtain ⟨la, ia⟩ := build_spec hp p hw.1 a ha
      obtain ⟨ll, il⟩ := buildList_spec hp ps hw.2 l' hl
      refine ⟨by rw [List.map_cons, denoteList, la, ll], ?_⟩
      intro e he
      rcases List.mem_cons.1 he with rfl | he
      · exact ia
      · exact il e he
end

/-! ### documented panics: `build` fails exactly on a bad `range` / `char` / `str` call -/

mutual
theorem build_none_iff' : ∀ (p : Prog), build ord p = Option.none ↔ ∃ q ∈ p.subProgs, BadCall q
  | .none => by simp [build, subProgs, BadCall]
  | .all => by simp [build, subProgs, BadCall]
  | .allchar => by simp [build, subProgs, BadCall]
  | .eps => by simp [build, subProgs, BadCall]
  | .sigmaPlus => by simp [build, subProgs, BadCall]
  | .range a b => by simp [build, subProgs, BadCall, range?_eq_none_iff]
  | .char c => by simp [build, subProgs, BadCall, char?_eq_none_iff]
  | .smtRange s1 s2 => by simp [build, subProgs, BadCall]
  | .str s => by simp [build, subProgs, BadCall, str?_eq_none_iff]
  | .charSet cs => by simp [build, subProgs, BadCall]
  | .concat p q => by
      rw [build, call2_eq_none_iff, build_none_iff' p, build_none_iff' q]
      simp [subProgs, BadCall, or_and_right, exists_or]
  | .concatList ps => by
      rw [build, Option.map_eq_none_iff, buildList_none_iff' ps]
      simp [subProgs, BadCall]
  | .union p q => by
      rw [build, call2_eq_none_iff, build_none_iff' p, build_none_iff' q]
      simp [subProgs, BadCall, or_and_right, exists_or]
  | .unionList ps => by
      rw [build, Option.map_eq_none_iff, buildList_none_iff' ps]
      simp [subProgs, BadCall]
  | .inter p q => by
      rw [build, call2_eq_none_iff, build_none_iff' p, build_none_iff' q]
      simp [subProgs, BadCall, or_and_right, exists_or]
  | .interList ps => by
      rw [build, Option.map_eq_none_iff, buildList_none_iff' ps]
      simp [subProgs, BadCall]
  | .comp p => by
      rw [build, Option.map_eq_none_iff, build_none_iff' p]
      simp [subProgs, BadCall]
  | .diff p q => by
      rw [build, call2_eq_none_iff, build_none_iff' p, build_none_iff' q]
      simp [subProgs, BadCall, or_and_right, exists_or]
  | .diffList p qs => by
      rw [build, call2_eq_none_iff, build_none_iff' p, buildList_none_iff' qs]
      simp [subProgs, BadCall, or_and_right, exists_or]
  | .star p => by
      rw [build, Option.map_eq_none_iff, build_none_iff' p]
      simp [subProgs, BadCall]
  | .plus p => by
      rw [build, Option.map_eq_none_iff, build_none_iff' p]
      simp [subProgs, BadCall]
  | .opt p => by
      rw [build, Option.map_eq_none_iff, build_none_iff' p]
      simp [subProgs, BadCall]
  | .exp p k => by
      rw [build, Option.map_eq_none_iff, build_none_iff' p]
      simp [subProgs, BadCall]
  | .smtLoop p i j => by
      rw [build, Option.map_eq_none_iff, build_none_iff' p]
      simp [subProgs, BadCall]
  | .mkLoop p r => by
      rw [build, Option.map_eq_none_iff, build_none_iff' p]
      simp [subProgs, BadCall]
theorem buildList_none_iff' :
    ∀ (ps : List Prog), buildList ord ps = Option.none ↔ ∃ q ∈ subProgsList ps, BadCall q
  | [] => by simp [buildList, subProgsList]
  | p :: ps => by
      rw [buildList, call2_eq_none_iff, build_none_iff' p, buildList_none_iff' ps]
      simp [subProgsList, or_and_right, exists_or]
end

/-! ## The property theorems

  all for every id assignment `ord` with `PairSound ord`, every program `p` with well-formed
  inputs, every term `e` with `build ord p = some e` (i.e. no documented panic on the way). -/

/-- T:build_denote — the rewriting performed by the constructors never changes the denoted
    language: the term built for `p` denotes the SMT-LIB language of `p` -/
theorem build_denote (hp : PairSound ord) (p : Prog) (hw : p.WFIn) (e : RE)
    (h : build ord p = some e) : e.lang = denote p :=
  (build_spec hp p hw e h).1

/-- every built term is well-formed (ranges inside the alphabet, loop ranges `lo ≤ hi`) -/
theorem build_wf (hp : PairSound ord) (p : Prog) (hw : p.WFIn) (e : RE)
    (h : build ord p = some e) : e.WF :=
  (build_spec hp p hw e h).2.1

/-- no built term contains a `[0,0]` loop (the precondition of the derivative theorems, C03) -/
theorem build_nz (hp : PairSound ord) (p : Prog) (hw : p.WFIn) (e : RE)
    (h : build ord p = some e) : e.NZ :=
  (build_spec hp p hw e h).2.2.1

/-- complement nodes of a built term are canonical (never `¬¬x`, `¬∅`, `¬ε`, `¬Σ*`, `¬Σ⁺`) -/
theorem build_canon (hp : PairSound ord) (p : Prog) (hw : p.WFIn) (e : RE)
    (h : build ord p = some e) : ComplCanon e :=
  (build_spec hp p hw e h).2.2.2

/-- a built language contains SMT strings only -/
theorem denote_wfs (hp : PairSound ord) (p : Prog) (hw : p.WFIn) (e : RE)
    (h : build ord p = some e) (w : List ℕ) (hm : w ∈ denote p) : WFs w := by
  rw [← build_denote hp p hw e h] at hm
  exact lang_wfs (build_wf hp p hw e h) hm

/-- T:build_none_iff — a construction panics exactly when one of its calls is `range a b` without
    `a ≤ b ≤ MAX_CHAR`, `char c` with `c > MAX_CHAR`, or `str s` with a character `> MAX_CHAR`
    (the documented assertion panics; the last cannot happen for an `SmtString`).  Holds for every
    id assignment and every program, no hypothesis. -/
theorem build_none_iff (ord : RE → Nat) (p : Prog) :
    build ord p = Option.none ↔ ∃ q ∈ p.subProgs, BadCall q :=
  build_none_iff' p

/-- a program without a bad call builds a term -/
theorem build_some (ord : RE → Nat) (p : Prog) (h : ∀ q ∈ p.subProgs, ¬ BadCall q) :
    ∃ e, build ord p = some e := by
  cases hb : build ord p with
  | none =>
    obtain ⟨q, hq, hbad⟩ := (build_none_iff ord p).1 hb
    exact absurd hbad (h q hq)
  | some e => exact ⟨e, rfl⟩

/-- T:nullable_flag — the public `nullable` flag of the built term is true exactly when the empty
    string is in the SMT-LIB language of the construction -/
theorem nullable_flag (hp : PairSound ord) (p : Prog) (hw : p.WFIn) (e : RE)
    (h : build ord p = some e) : e.nullable = true ↔ [] ∈ denote p := by
  rw [← build_denote hp p hw e h]
  exact nullable_iff e (build_wf hp p hw e h)

/-- T:str_in_re_iff (the headline) — `str_in_re` on the built term answers `true` exactly for the
    strings of the SMT-LIB language of the construction -/
theorem str_in_re_iff (hp : PairSound ord) (p : Prog) (hw : p.WFIn) (e : RE)
    (h : build ord p = some e) (w : List ℕ) (hws : WFs w) :
    strInRe ord w e = true ↔ w ∈ denote p := by
  rw [← build_denote hp p hw e h]
  exact C03.str_in_re_iff_lang hp e ⟨build_wf hp p hw e h, build_nz hp p hw e h⟩ w hws

/-- membership is decided by the string derivative: `str_derivative(e, w)` is nullable iff … -/
theorem str_derivative_nullable_iff (hp : PairSound ord) (p : Prog) (hw : p.WFIn) (e : RE)
    (h : build ord p = some e) (w : List ℕ) (hws : WFs w) :
    (strDerivative ord e w).nullable = true ↔ w ∈ denote p :=
  str_in_re_iff hp p hw e h w hws

/-- T:ref_match_denote — the executable reference matcher (specification column of the driver)
    evaluated on the built term agrees with the SMT-LIB language of the construction -/
theorem ref_match_denote (hp : PairSound ord) (p : Prog) (hw : p.WFIn) (e : RE)
    (h : build ord p = some e) (w : List ℕ) (hws : WFs w) :
    refMatch e w = true ↔ w ∈ denote p := by
  rw [← build_denote hp p hw e h]
  exact refMatch_iff e (build_wf hp p hw e h) w hws

/-- `str_in_re` and the reference matcher agree on every built term -/
theorem str_in_re_eq_ref_match (hp : PairSound ord) (p : Prog) (hw : p.WFIn) (e : RE)
    (h : build ord p = some e) (w : List ℕ) (hws : WFs w) :
    strInRe ord w e = refMatch e w := by
  have h1 := str_in_re_iff hp p hw e h w hws
  have h2 := ref_match_denote hp p hw e h w hws
  cases hs : strInRe ord w e <;> cases hr : refMatch e w <;> simp_all

/-- two programs with the same SMT-LIB language are indistinguishable by `str_in_re`, whatever
    terms the constructors chose to represent them and under whatever histories -/
theorem str_in_re_congr {ord₁ ord₂ : RE → Nat} (hp₁ : PairSound ord₁) (hp₂ : PairSound ord₂)
    (p q : Prog) (hwp : p.WFIn) (hwq : q.WFIn) (e₁ e₂ : RE)
    (h₁ : build ord₁ p = some e₁) (h₂ : build ord₂ q = some e₂) (hd : denote p = denote q)
    (w : List ℕ) (hws : WFs w) : strInRe ord₁ w e₁ = strInRe ord₂ w e₂ := by
  have h1 := str_in_re_iff hp₁ p hwp e₁ h₁ w hws
  have h2 := str_in_re_iff hp₂ q hwq e₂ h₂ w hws
  rw [hd] at h1
  cases hs : strInRe ord₁ w e₁ <;> cases hr : strInRe ord₂ w e₂ <;> simp_all

end

/-! ### non-vacuity: the hypotheses are satisfiable, the constructors rewrite, the theorems apply -/

section Example

def exA : RE := .range (CharSet.range 97 99)
def exB : RE := .range (CharSet.range 98 120)

/-- ids 0/1 for `[a-c]`/`¬[a-c]`, 2/3 for `[b-x]`/`¬[b-x]`, one shared id for everything else -/
def ordEx (e : RE) : Nat :=
  if e = exA then 0 else if e = exA.complement then 1
  else if e = exB then 2 else if e = exB.complement then 3 else 11

theorem ordEx_cases (x : RE) :
    (x = exA ∧ ordEx x = 0) ∨ (x = exA.complement ∧ ordEx x = 1) ∨ (x = exB ∧ ordEx x = 2) ∨
      (x = exB.complement ∧ ordEx x = 3) ∨ ordEx x = 11 := by
  unfold ordEx
  by_cases h1 : x = exA
  · exact Or.inl ⟨h1, if_pos h1⟩
  · rw [if_neg h1]
    by_cases h2 : x = exA.complement
    · exact Or.inr (Or.inl ⟨h2, if_pos h2⟩)
    · rw [if_neg h2]
      by_cases h3 : x = exB
      · exact Or.inr (Or.inr (Or.inl ⟨h3, if_pos h3⟩))
      · rw [if_neg h3]
        by_cases h4 : x = exB.complement
        · exact Or.inr (Or.inr (Or.inr (Or.inl ⟨h4, if_pos h4⟩)))
        · rw [if_neg h4]
          exact Or.inr (Or.inr (Or.inr (Or.inr rfl)))

theorem ordEx_pairSound : PairSound ordEx := by
  intro x y hxy hx
  rcases ordEx_cases x with ⟨hx1, hx2⟩ | ⟨hx1, hx2⟩ | ⟨hx1, hx2⟩ | ⟨hx1, hx2⟩ | hx2 <;>
  rcases ordEx_cases y with ⟨hy1, hy2⟩ | ⟨hy1, hy2⟩ | ⟨hy1, hy2⟩ | ⟨hy1, hy2⟩ | hy2 <;>
  first
  | omega
  | rw [hx1, hy1]

theorem one_pairSound : PairSound (fun _ => 1) := by intro x y _ h; cases h

theorem wfs_of (w : List ℕ) (h : goodString w = true) : WFs w := (goodString_iff w).1 h

/-- `∅*` is `ε` (defect D1 of the pinned tree, repaired): the built term, its flag, its language -/
example : build ordEx (.star .none) = some .epsilon := by decide
example : [] ∈ denote (.star .none) :=
  (nullable_flag ordEx_pairSound (.star .none) (by decide) .epsilon (by decide)).1 (by decide)
example : strInRe ordEx [] .epsilon = true :=
  (str_in_re_iff ordEx_pairSound (.star .none) (by decide) .epsilon (by decide) [] (wfs_of _ (by decide))).2
    ((nullable_flag ordEx_pairSound (.star .none) (by decide) .epsilon (by decide)).1 (by decide))

/-- a loop over a nullable body: `(a?)^{2..3}` is rewritten to `a^{0..3}`; `a` is a member -/
private def pLoop : Prog := .smtLoop (.opt (.char 97)) 2 3
private def eLoop : RE := .loop (.range ⟨97, 97⟩) ⟨0, some 3⟩
example : build ordEx pLoop = some eLoop := by decide
example : pLoop.WFIn := by decide
private theorem a_mem : [97] ∈ denote pLoop :=
  (ref_match_denote ordEx_pairSound pLoop (by decide) eLoop (by decide) [97] (wfs_of _ (by decide))).1
    (by decide)
example : strInRe ordEx [97] eLoop = true :=
  (str_in_re_iff ordEx_pairSound pLoop (by decide) eLoop (by decide) [97] (wfs_of _ (by decide))).2 a_mem
example : [97, 97, 97, 97] ∉ denote pLoop := fun h => by
  have := (ref_match_denote ordEx_pairSound pLoop (by decide) eLoop (by decide) _
    (wfs_of _ (by decide))).2 h
  revert this; decide
example : eLoop.nullable = true ∧ [] ∈ denote pLoop :=
  ⟨by decide, (nullable_flag ordEx_pairSound pLoop (by decide) eLoop (by decide)).1 (by decide)⟩

/-- an intersection of overlapping ranges `[a-c] ∩ [b-x]`: `b` is in, `a` is out -/
private def pInter : Prog := .inter (.range 97 99) (.range 98 120)
example : build ordEx pInter = some (.inter [exA, exB]) := by decide
example : strInRe ordEx [98] (.inter [exA, exB]) = true :=
  (str_in_re_iff ordEx_pairSound pInter (by decide) _ (by decide) [98] (wfs_of _ (by decide))).2
    ((ref_match_denote ordEx_pairSound pInter (by decide) (.inter [exA, exB]) (by decide) [98]
      (wfs_of _ (by decide))).1 (by decide))
example : strInRe ordEx [97] (.inter [exA, exB]) = false := by
  have h := str_in_re_iff ordEx_pairSound pInter (by decide) (.inter [exA, exB]) (by decide) [97]
    (wfs_of _ (by decide))
  have h2 := ref_match_denote ordEx_pairSound pInter (by decide) (.inter [exA, exB]) (by decide) [97]
      (wfs_of _ (by decide))
  cases hs : strInRe ordEx [97] (.inter [exA, exB]) with
  | false => rfl
  | true => have := h2.2 (h.1 hs); revert this; decide

/-- nested complements cancel; the complement-pair shortcut fires on this id assignment -/
example : build ordEx (.comp (.comp (.str [97, 98]))) = build ordEx (.str [97, 98]) := by decide
example : build ordEx (.comp (.comp .none)) = some .empty ∧ build ordEx (.comp .none) = some sigmaStar := by
  decide
example : build ordEx (.inter (.range 97 99) (.comp (.range 97 99))) = some .empty := by decide
example : build ordEx (.union (.range 97 99) (.comp (.range 97 99))) = some sigmaStar := by decide

/-- `re.range` on non-singletons or with `c1 > c2`, `re.loop` with `i > j`: the empty language -/
example : build ordEx (.smtRange [97, 98] [99]) = some .empty ∧
    build ordEx (.smtRange [99] [97]) = some .empty ∧
    build ordEx (.smtLoop (.char 97) 3 2) = some .empty := by decide

/-- the documented panics, and only those -/
example : build ordEx (.concat (.char 0x30000) .all) = Option.none := by decide
example : build ordEx (.concat (.char 0x30000) .all) = Option.none :=
  (build_none_iff ordEx _).2 ⟨.char 0x30000, by simp [subProgs], by simp [BadCall]; decide⟩
example : ∃ e, build ordEx (.concatList [.str [97], .allchar, .star .allchar]) = some e :=
  build_some ordEx _ (by simp [subProgs, subProgsList, BadCall, WFs]; decide)

/-- `WFIn` is decidable and not trivially true -/
example : (Prog.mkLoop (.charSet ⟨97, 99⟩) ⟨2, some 5⟩).WFIn := by decide
example : ¬ (Prog.mkLoop .eps ⟨3, some 2⟩).WFIn := by decide
example : ¬ (Prog.charSet ⟨5, 0x30000⟩).WFIn := by decide

end Example
end C01
end Smt
