/-
  C09 — Lexicographic order and int/code conversions, in every build profile.

  Property theorems only (DESIGN.md §7 C09); helper lemmas are in Proofs/Strings.lean.

  * `str_lt` / `str_le` against the lexicographic order `List.Lex (· < ·)` on code-point sequences
    (core Lean's inductive definition: `[] < a::w`; `a < b → a::v < b::w`; `v < w → a::v < a::w`),
    and the total-order facts.
  * `str_to_int`: the theorems are stated for **every** `Profile` (`checked` = dev build with
    overflow checks, `wrapping` = release).  In the current tree the function uses
    `checked_mul/checked_add`, so the profile can only influence the subtraction
    `d as i32 - '0' as i32`; `to_int_profile_independent` proves it does not.
    `none` = the documented panic.  The as-found loop is kept in `SmtModel/Legacy/Strings.lean`.
  * `str_from_int`, `str_to_code`, `str_from_code`, `str_is_digit` against SMT-LIB 2.6.

  Hypotheses: `IsI32 x` for integer arguments; `WFs s` (code points ≤ 0x2FFFF) where a `u32` is
  cast to `i32` (`str_to_code`).  No length hypothesis is needed anywhere in this file.
-/
import SmtModel.Proofs.Strings
import SmtModel.Legacy.Strings

namespace Smt.C09
open Smt Smt.Str

def IsI32 (i : Int) : Prop := I32_MIN ≤ i ∧ i ≤ I32_MAX
instance (i : Int) : Decidable (IsI32 i) := by unfold IsI32; infer_instance

/-! ### specifications -/

/-- the lexicographic extension of `<` on code points -/
abbrev LexLt (v w : List Nat) : Prop := List.Lex (· < ·) v w

/-- it is the order Lean itself puts on lists -/
theorem lexLt_iff_lt (v w : List Nat) : LexLt v w ↔ v < w := Iff.rfl

/-- a decimal digit: code point 0x30 … 0x39 -/
def IsDigit (c : Nat) : Prop := 48 ≤ c ∧ c ≤ 57

/-- the number a digit string denotes in base 10 (most significant digit first, Horner) -/
def decValue (w : List Nat) : Nat := w.foldl (fun a d => 10 * a + (d - 48)) 0

example : decValue [48, 48, 57, 56, 50] = 982 := by decide

theorem isDigit_iff (c : Nat) : charIsDigit c = true ↔ IsDigit c := charIsDigit_iff c

/-! ### str_lt, str_le -/

/-- `str_lt` is the strict lexicographic order (and never panics) -/
theorem lt_iff_lex (s1 s2 : List Nat) :
    ∃ b, strLt s1 s2 = some b ∧ (b = true ↔ LexLt s1 s2) := vectorLt_lex s1 s2

/-- `str_le` is the non-strict lexicographic order (and never panics) -/
theorem le_iff_lex (s1 s2 : List Nat) :
    ∃ b, strLe s1 s2 = some b ∧ (b = true ↔ (LexLt s1 s2 ∨ s1 = s2)) := vectorLe_lex s1 s2

theorem strLt_true_iff (a b : List Nat) : strLt a b = some true ↔ LexLt a b := by
  obtain ⟨r, h1, h2⟩ := lt_iff_lex a b
  rw [h1]
  constructor
  · intro h; exact h2.1 (Option.some.inj h)
  · intro h; rw [h2.2 h]

theorem strLe_true_iff (a b : List Nat) : strLe a b = some true ↔ (LexLt a b ∨ a = b) := by
  obtain ⟨r, h1, h2⟩ := le_iff_lex a b
  rw [h1]
  constructor
  · intro h; exact h2.1 (Option.some.inj h)
  · intro h; rw [h2.2 h]

/-- `str_lt` is a strict total order consistent with equality and prefixes, `str_le` is its
    reflexive closure -/
theorem lt_total_order :
    -- irreflexive
    (∀ a, strLt a a = some false) ∧
    -- transitive
    (∀ a b c, strLt a b = some true → strLt b c = some true → strLt a c = some true) ∧
    -- trichotomous
    (∀ a b, strLt a b = some true ∨ a = b ∨ strLt b a = some true) ∧
    -- asymmetric
    (∀ a b, strLt a b = some true → strLt b a = some false) ∧
    -- le ↔ lt ∨ eq
    (∀ a b, strLe a b = some true ↔ (strLt a b = some true ∨ a = b)) ∧
    -- le is total: le a b ↔ ¬ lt b a
    (∀ a b, strLe a b = some true ↔ strLt b a = some false) ∧
    -- a prefix is below its extensions
    (∀ a x, strLe a (a ++ x) = some true) ∧
    (∀ a x, x ≠ [] → strLt a (a ++ x) = some true) := by
  have hfalse : ∀ a b, strLt a b = some false ↔ ¬ LexLt a b := by
    intro a b
    obtain ⟨r, h1, h2⟩ := lt_iff_lex a b
    rw [h1]
    constructor
    · intro h hl; have := h2.2 hl; rw [this] at h; cases h
    · intro h
      cases r with
      | false => rfl
      | true => exact (h (h2.1 rfl)).elim
  refine ⟨?_, ?_, ?_, ?_, ?_, ?_, ?_, ?_⟩
  · intro a; rw [hfalse]; exact lex_irrefl a
  · intro a b c h1 h2
    rw [strLt_true_iff] at *
    exact lex_trans h1 h2
  · intro a b
    simp only [strLt_true_iff]
    exact lex_trichotomy a b
  · intro a b h
    rw [strLt_true_iff] at h
    rw [hfalse]
    intro h'
    exact lex_irrefl a (lex_trans h h')
  · intro a b
    rw [strLe_true_iff, strLt_true_iff]
  · intro a b
    rw [strLe_true_iff, hfalse]
    constructor
    · rintro (h | h) h'
      · exact lex_irrefl a (lex_trans h h')
      · subst h; exact lex_irrefl a h'
    · intro h
      rcases lex_trichotomy a b with h1 | h1 | h1
      · exact Or.inl h1
      · exact Or.inr h1
      · exact (h h1).elim
  · intro a x
    rw [strLe_true_iff]
    by_cases hx : x = []
    · subst hx; exact Or.inr (by simp)
    · exact Or.inl (lex_of_prefix a x hx)
  · intro a x hx
    rw [strLt_true_iff]
    exact lex_of_prefix a x hx

/-! ### str_to_int -/

/-- `str_to_int`, for every build profile: −1 for the empty string and for any string with a
    non-digit; the decimal value when it fits in an `i32`; a panic (`none`) when it does not —
    never a wrong number -/
theorem to_int_spec (pr : Profile) (s : List Nat) :
    ((s = [] ∨ ∃ c ∈ s, ¬ IsDigit c) → strToInt pr s = some (-1)) ∧
    ((s ≠ [] ∧ ∀ c ∈ s, IsDigit c) →
      (decValue s ≤ 2147483647 → strToInt pr s = some ((decValue s : Nat) : Int)) ∧
      (decValue s > 2147483647 → strToInt pr s = none)) := by
  constructor
  · intro h
    apply strToInt_nondigit
    rcases h with h | ⟨c, hc, hd⟩
    · exact Or.inl h
    · refine Or.inr ⟨c, hc, ?_⟩
      cases hcd : charIsDigit c with
      | false => rfl
      | true => exact (hd ((isDigit_iff c).1 hcd)).elim
  · rintro ⟨hne, hd⟩
    have h := strToInt_digits pr s hne (fun c hc => (isDigit_iff c).2 (hd c hc))
    constructor
    · intro hle; rw [h]; exact if_pos hle
    · intro hgt; rw [h]; exact if_neg (by unfold decValue at hgt; unfold decFold; omega)

/-- the result does not depend on the build profile -/
theorem to_int_profile_independent (s : List Nat) :
    strToInt .checked s = strToInt .wrapping s := by
  by_cases h : s = [] ∨ ∃ c ∈ s, ¬ IsDigit c
  · rw [(to_int_spec .checked s).1 h, (to_int_spec .wrapping s).1 h]
  · have h' : s ≠ [] ∧ ∀ c ∈ s, IsDigit c := by
      constructor
      · intro he; exact h (Or.inl he)
      · intro c hc; by_contra hd; exact h (Or.inr ⟨c, hc, hd⟩)
    by_cases hv : decValue s ≤ 2147483647
    · rw [((to_int_spec .checked s).2 h').1 hv, ((to_int_spec .wrapping s).2 h').1 hv]
    · rw [((to_int_spec .checked s).2 h').2 (by omega), ((to_int_spec .wrapping s).2 h').2 (by omega)]

/-- whatever number `str_to_int` returns is the SMT-LIB value of `str.to_int` -/
theorem to_int_never_wrong (pr : Profile) (s : List Nat) (v : Int) (h : strToInt pr s = some v) :
    (v = -1 ∧ (s = [] ∨ ∃ c ∈ s, ¬ IsDigit c)) ∨
    (v = ((decValue s : Nat) : Int) ∧ s ≠ [] ∧ ∀ c ∈ s, IsDigit c) := by
  by_cases hc : s = [] ∨ ∃ c ∈ s, ¬ IsDigit c
  · rw [(to_int_spec pr s).1 hc] at h
    exact Or.inl ⟨(Option.some.inj h).symm, hc⟩
  · have h' : s ≠ [] ∧ ∀ c ∈ s, IsDigit c := by
      constructor
      · intro he; exact hc (Or.inl he)
      · intro c hcm; by_contra hd; exact hc (Or.inr ⟨c, hcm, hd⟩)
    by_cases hv : decValue s ≤ 2147483647
    · rw [((to_int_spec pr s).2 h').1 hv] at h
      exact Or.inr ⟨(Option.some.inj h).symm, h'⟩
    · rw [((to_int_spec pr s).2 h').2 (by omega)] at h; cases h

/-! ### str_from_int -/

/-- `str_from_int`: the empty string for a negative argument; otherwise the shortest digit string
    denoting `x` (SMT-LIB `str.from_int`); never panics -/
theorem from_int_spec (x : Int) (hx : IsI32 x) :
    (x < 0 → strFromInt x = some []) ∧
    (0 ≤ x → ∃ w, strFromInt x = some w ∧ w ≠ [] ∧ (∀ c ∈ w, IsDigit c) ∧
      ((decValue w : Nat) : Int) = x ∧
      ∀ w', w' ≠ [] → (∀ c ∈ w', IsDigit c) → ((decValue w' : Nat) : Int) = x →
        w.length ≤ w'.length) := by
  constructor
  · exact strFromInt_neg x
  · intro h0
    have hmax : x ≤ 2147483647 := hx.2
    refine ⟨decDigits x.toNat, strFromInt_closed x h0 hmax, ?_, ?_, ?_, ?_⟩
    · intro he
      have := decDigits_length_pos x.toNat
      rw [he] at this; simp at this
    · exact decDigits_digits x.toNat
    · have := decDigits_value x.toNat
      unfold decValue; unfold decFold at this
      rw [this]; omega
    · intro w' hne hd hv
      apply decDigits_shortest x.toNat w' hne (fun c hc => (isDigit_iff c).2 (hd c hc))
      unfold decValue at hv; unfold decFold
      omega

/-- `to_int(from_int(n)) = n` for every non-negative `i32`, in every profile -/
theorem to_int_from_int (pr : Profile) (n : Int) (h0 : 0 ≤ n) (hn : n ≤ I32_MAX) :
    ∃ w, strFromInt n = some w ∧ strToInt pr w = some n := by
  have hmax : n ≤ 2147483647 := hn
  refine ⟨decDigits n.toNat, strFromInt_closed n h0 hmax, ?_⟩
  have hne : decDigits n.toNat ≠ [] := by
    intro he
    have := decDigits_length_pos n.toNat
    rw [he] at this; simp at this
  rw [strToInt_digits pr _ hne (fun c hc => (charIsDigit_iff c).2 (decDigits_digits _ c hc)),
    decDigits_value]
  rw [if_pos (by omega)]
  congr 1
  omega

/-! ### str_to_code, str_from_code, str_is_digit -/

/-- `str_to_code`: the code point of a one-character string, −1 otherwise -/
theorem to_code_spec (s : List Nat) (hwf : WFs s) :
    (∀ c, s = [c] → strToCode s = some (c : Int)) ∧
    (s.length ≠ 1 → strToCode s = some (-1)) := by
  constructor
  · intro c hs
    subst hs
    have hc : c ≤ MAX_CHAR := hwf c (List.mem_singleton.2 rfl)
    have hm : MAX_CHAR = 196607 := rfl
    unfold strToCode
    simp only [List.length_singleton, if_true, List.getElem?_cons_zero]
    rw [u32AsI32_of_le c (by omega)]
  · intro h
    unfold strToCode
    rw [if_neg h]

/-- `str_from_code`: the one-character string for `0 ≤ x ≤ 0x2FFFF`, the empty string otherwise -/
theorem from_code_spec (x : Int) (_hx : IsI32 x) :
    ((0 ≤ x ∧ x ≤ (MAX_CHAR : Int)) → strFromCode x = some [x.toNat]) ∧
    (¬ (0 ≤ x ∧ x ≤ (MAX_CHAR : Int)) → strFromCode x = some []) := by
  have hm : MAX_CHAR = 196607 := rfl
  have hcast : u32AsI32 MAX_CHAR = (MAX_CHAR : Int) := u32AsI32_of_le _ (by omega)
  unfold strFromCode
  rw [hcast]
  constructor
  · intro h
    rw [if_pos h, i32AsU32_of_nonneg x h.1]
    unfold fromU32
    simp only []
    rw [if_pos (by omega), make_of_le _ (by simp)]
  · intro h
    rw [if_neg h]

/-- `to_code(from_code(x)) = x` for every `x` in `[0, 0x2FFFF]` -/
theorem to_code_from_code (x : Int) (h0 : 0 ≤ x) (hx : x ≤ (MAX_CHAR : Int)) :
    ∃ w, strFromCode x = some w ∧ strToCode w = some x := by
  have hm : MAX_CHAR = 196607 := rfl
  have hI : IsI32 x := by unfold IsI32 I32_MIN I32_MAX; omega
  refine ⟨[x.toNat], (from_code_spec x hI).1 ⟨h0, hx⟩, ?_⟩
  have hwf : WFs [x.toNat] := by
    intro c hc
    rw [List.mem_singleton] at hc
    omega
  rw [(to_code_spec [x.toNat] hwf).1 x.toNat rfl]
  congr 1
  omega

/-- `str_is_digit`: exactly the one-character strings whose character is a decimal digit -/
theorem is_digit_spec (s : List Nat) :
    ∃ b, strIsDigit s = some b ∧ (b = true ↔ ∃ c, s = [c] ∧ IsDigit c) := by
  unfold strIsDigit
  by_cases h : s.length = 1
  · rw [if_pos h]
    obtain ⟨c, rfl⟩ := List.length_eq_one_iff.1 h
    simp only [List.getElem?_cons_zero]
    refine ⟨_, rfl, ?_⟩
    rw [isDigit_iff]
    constructor
    · intro hd; exact ⟨c, rfl, hd⟩
    · rintro ⟨c', hc', hd⟩
      rw [List.cons.injEq] at hc'
      rw [hc'.1]; exact hd
  · rw [if_neg h]
    refine ⟨false, rfl, ?_⟩
    constructor
    · intro hf; cases hf
    · rintro ⟨c, hc, _⟩
      rw [hc] at h; exact (h rfl).elim

/-! ### non-vacuity -/

example : IsI32 0 ∧ IsI32 2147483647 ∧ IsI32 (-2147483648) ∧ ¬ IsI32 2147483648 := by decide

/-- "2147483647" is the largest value returned, "2147483648" and "5000000000" (the D5 witness,
    which the as-found release build mapped to 705032704, `Smt.Legacy.to_int_wrapping_counterexample`)
    panic in both profiles -/
example (pr : Profile) :
    strToInt pr [50, 49, 52, 55, 52, 56, 51, 54, 52, 55] = some 2147483647 ∧
    strToInt pr [50, 49, 52, 55, 52, 56, 51, 54, 52, 56] = none ∧
    strToInt pr [53, 48, 48, 48, 48, 48, 48, 48, 48, 48] = none ∧
    strToInt pr [49, 50, 97] = some (-1) := by
  cases pr <;> decide

example : LexLt [97, 98] [97, 98, 0] ∧ LexLt [97, 98, 196607] [97, 99] ∧ ¬ LexLt [98] [97, 98] := by
  decide

end Smt.C09
