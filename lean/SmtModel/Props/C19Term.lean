/-
  C19 — TERMINATION of the derivative closure ("iter_derivatives(e) terminates …; compile(e) always
  succeeds"), the part left open by Props/C19.lean / C19Final.lean.

  FULL STATEMENT — PROVED (section 3, `closure_finite`):
      ∀ ord, PairSound ord → Function.Injective ord → ∀ e, e.WF → e.NZ →
        ∃ fuel l, iterDerivatives ord fuel e = .ok l
  i.e. Brzozowski's finiteness theorem for this implementation's normal form.

  WHAT IS PROVED HERE (every theorem sorry-free)

  1. The reduction "finitely many derivatives ⇒ all searches terminate", for EVERY term of the
     domain `e.WF ∧ e.NZ` and EVERY `ord` with `PairSound ord`, with an explicit fuel:
       * `terminates_of_finite`     `DerivBounded ord e S → ∃ l, iterDerivatives ord (S.length+1) e = .ok l`
         (`DerivBounded ord e S` : every `strDerivative ord e s`, `WFs s`, is a member of the list `S`)
       * `finite_of_terminates`     the converse (from `iter_exact`): termination ⇔ finiteness
       * `terminates_of_closed`     any list closed under `deriv · c` (`c ≤ MAX_CHAR`) containing `e`
       * `compile_total_of_finite`, `is_empty_total_of_finite`, `get_string_total_of_finite`
         `compile`, `is_empty_re`, `get_string` return (`.ok _`: neither out of fuel nor panic)
         with fuel `S.length + 1`.

  2. (historical, subsumed by 3) FINITENESS for the syntactic fragment `Frag e` by an explicit
     description of the reachable terms (`derivatives_finite_fragment`, `closure_finite_fragment`, …;
     Proofs/TerminationFrag.lean).  Kept because it yields a list closed under `computeDeriv`
     (`Closed`), not only a bound, and because section 3 uses its lemmas `makeUnion_cases`,
     `makeInter_cases` (with an injective `ord` the result of `make_union`/`make_inter` is `∅`, `ε`,
     `Σ*`, an operand or a DUPLICATE-FREE list of operands).

  3. FINITENESS AND TERMINATION FOR EVERY TERM and every INJECTIVE `ord` (`ids_injective`, C07,
     gives injectivity for every real manager; with a non-injective `ord` `Vec::dedup` leaves
     non-adjacent duplicates and unions can grow):
       * `derivatives_finite`       `Injective ord → ∀ e, ∃ S, DerivBounded ord e S`
       * `derivatives_in_universe`  the explicit list: all terms built over the sub-terms of `e`
                                    whose size `Gen.sz` is at most the potential `Gen.pot e`
       * `derivative_sizes_bounded`, `derivatives_never_overflow`   for ANY `ord`: sizes and loop
                                    counters of all iterated derivatives are at most `pot e`
       * `closure_finite`           `iter_derivatives(e)` terminates
       * `compile_succeeds_total`, `compile_total_correct`   `compile(e)` returns an automaton that
                                    accepts exactly the language of `e`
       * `try_compile_total`        one fuel for every bound `n`; `Some` iff `n ≠ 0 ∧ |closure| ≤ n`
       * `is_empty_total`           `is_empty_re(e)` returns the exact answer
       * `get_string_total`         `get_string(e)` returns
       * `start_char_total`         `start_char(e,c)` returns the exact answer
     How the obstacle of the earlier attempt (`ReManager::concat` is not associative:
     `concat(concat(R,R),A) = R^2·A` but `concat(R,concat(R,A)) = R·(R·A)`, and both bracketings
     are reachable) is avoided: no description of the reachable terms is needed.  Two measures,
         sz (a·b) = sz a + sz b + 1            pot (a·b) = max (pot a + sz b + 1) (pot b)
         sz (x^ρ) = sz x · m(ρ) + 1            pot (x^ρ) = pot x + |mk_loop(x, ρ.shift)| + 1
         sz (⋃ l) = max                        pot (⋃ l) = max        (m(ρ) = largest finite bound)
     are INVARIANT under re-bracketing and NON-INCREASING under every merging arm
     (R·R^ρ → R^(ρ+1), R^ρ·R → R^(ρ+1), R^ρ·R^σ → R^(ρ+σ), R·R → R², S·Σ* → Σ*, (x^σ)^ρ → x^(σ·ρ)),
     so `pot (compute_derivative(t, c)) ≤ pot t` for ANY `ord` (`Gen.pot_deriv`) and `sz t ≤ pot t`
     (`Gen.sz_le_pot`): the size of every iterated derivative — hence every loop counter, every
     chain length and the nesting depth — is bounded by `pot e`.  The unions/intersections are
     duplicate-free lists (injective `ord`), so only finitely many terms of bounded size exist over
     the sub-terms of `e` (`Gen.Shape`, `Gen.shape_deriv`, `Gen.univ`, `Gen.mem_univ`).

  Proofs: Proofs/Termination.lean (reduction), Proofs/TerminationFrag.lean (fragment, shape of
  make_union/make_inter), Proofs/TerminationGen.lean (potential, universe, the full theorem).

  The fragment of section 2, for reference:
     `Frag` = right-linear terms with Boolean structure:
         L ::= [a-b] | ⋃ [[a-b],…]                       (a "letter")
         K ::= L | L^[i,j] | L^[i,∞)                     (a "head")
         H ::= ∅ | ε | K
         Y ::= K₁ · (K₂ · (… · Kₙ))   n ≥ 2, K₁ not nullable   (a compound loop body: `ab`, `,[0-9]+`)
         G ::= ∅ | ε | [a-b] | L^[i,j] | L^[i,∞) | Y^[i,j] | Y^[i,∞) | H · G | Y^[i,j] · G' | Y^[i,∞) · G'
             | ⋃ [G,…] | ⋂ [G,…] | ¬G
         G' = a `G` whose first factor is not `∅`, `ε`, a letter of a head of `Y` or a loop over such
              a letter, and that is not `Σ*`.
-/
import SmtModel.Proofs.TerminationFrag
import SmtModel.Proofs.TerminationGen
import SmtModel.Props.C19Final
import SmtModel.Props.C05Final
import SmtModel.Props.C02
import SmtModel.Props.C18Final

namespace Smt.C19.Term
open Smt RE

variable {ord : RE → Nat}

/-- the fragment for which finiteness of the derivative closure is proved (decidable) -/
def Frag (e : RE) : Prop := RE.frag e = true

instance (e : RE) : Decidable (Frag e) := by unfold Frag; infer_instance

/-! ### 1. finiteness ⇔ termination, for every term of the domain -/

/-- **terminates_of_finite**: if every iterated derivative of `e` lies in the list `S`, the closure
    is enumerated within `S.length + 1` pops -/
theorem terminates_of_finite (hps : PairSound ord) {e : RE} (he : e.WF) (hz : e.NZ) {S : List RE}
    (hb : DerivBounded ord e S) : ∃ l, iterDerivatives ord (S.length + 1) e = .ok l :=
  iterDerivatives_terminates (C19.closureFacts hps) ⟨he, hz⟩ hb

/-- **finite_of_terminates**: conversely the list returned bounds the derivatives -/
theorem finite_of_terminates (hps : PairSound ord) {e : RE} (he : e.WF) (hz : e.NZ) {fuel : Nat}
    {l : List RE} (h : iterDerivatives ord fuel e = .ok l) : DerivBounded ord e l :=
  fun s hs => (C19.Final.iter_exact hps he hz h _).2 ⟨s, hs, rfl⟩

/-- termination is equivalent to finiteness of the set of iterated derivatives -/
theorem terminates_iff_finite (hps : PairSound ord) {e : RE} (he : e.WF) (hz : e.NZ) :
    (∃ fuel l, iterDerivatives ord fuel e = .ok l) ↔ ∃ S, DerivBounded ord e S :=
  ⟨fun ⟨_, l, h⟩ => ⟨l, finite_of_terminates hps he hz h⟩,
   fun ⟨S, hb⟩ => ⟨S.length + 1, terminates_of_finite hps he hz hb⟩⟩

/-- **terminates_of_closed**: a list closed under `deriv · c` (`c ≤ MAX_CHAR`) that contains `e` -/
theorem terminates_of_closed (hps : PairSound ord) {e : RE} (he : e.WF) (hz : e.NZ) {S : List RE}
    (hc : DerivClosed ord S) (hm : e ∈ S) : ∃ l, iterDerivatives ord (S.length + 1) e = .ok l :=
  terminates_of_finite hps he hz (derivBounded_of_closed hc hm)

/-- **compile_total_of_finite**: `compile` returns an automaton -/
theorem compile_total_of_finite (hps : PairSound ord) {e : RE} (he : e.WF) (hz : e.NZ)
    {S : List RE} (hb : DerivBounded ord e S) : ∃ A, compile ord (S.length + 1) e = .ok A := by
  obtain ⟨l, hl⟩ := terminates_of_finite hps he hz hb
  exact C02.compile_succeeds hps he hz hl

/-- **is_empty_total_of_finite**: `is_empty_re` returns a Boolean -/
theorem is_empty_total_of_finite (hps : PairSound ord) {e : RE} (he : e.WF) (hz : e.NZ)
    {S : List RE} (hb : DerivBounded ord e S) : ∃ b, isEmptyRe ord (S.length + 1) e = .ok b :=
  isEmptyRe_terminates (C19.closureFacts hps) ⟨he, hz⟩ hb

/-- **get_string_total_of_finite**: `get_string` returns (`None` or a witness) -/
theorem get_string_total_of_finite (hps : PairSound ord) {e : RE} (he : e.WF) (hz : e.NZ)
    {S : List RE} (hb : DerivBounded ord e S) : ∃ r, getString ord (S.length + 1) e = .ok r := by
  have h1 := getString_not_outOfFuel (C19.closureFacts hps) (e := e) ⟨he, hz⟩ hb
  have h2 := C05.Final.get_string_no_panic hps he hz (S.length + 1)
  cases h : getString ord (S.length + 1) e with
  | ok r => exact ⟨r, rfl⟩
  | panic => exact absurd h h2
  | outOfFuel => exact absurd h h1

/-! ### 2. the fragment -/

/-- **derivatives_finite_fragment**: for a term of the fragment and an injective id assignment
    there is a finite list that contains `e` and is closed under the derivative w.r.t. every
    character (no well-formedness hypothesis is needed for this) -/
theorem derivatives_finite_fragment (hps : PairSound ord) (hinj : Function.Injective ord) {e : RE}
    (hf : Frag e) : ∃ S, e ∈ S ∧ DerivClosed ord S := by
  obtain ⟨S, he, hS⟩ := frag_fin hps hinj e hf
  exact ⟨S, he, hS.derivClosed⟩

/-- … in particular the set `{ str_derivative(e, s) | s }` is finite -/
theorem derivatives_bounded_fragment (hps : PairSound ord) (hinj : Function.Injective ord)
    {e : RE} (hf : Frag e) : ∃ S, DerivBounded ord e S := by
  obtain ⟨S, he, hS⟩ := derivatives_finite_fragment hps hinj hf
  exact ⟨S, derivBounded_of_closed hS he⟩

/-- **closure_finite_fragment**: `iter_derivatives(e)` terminates for every term of the fragment -/
theorem closure_finite_fragment (hps : PairSound ord) (hinj : Function.Injective ord) {e : RE}
    (he : e.WF) (hz : e.NZ) (hf : Frag e) : ∃ fuel l, iterDerivatives ord fuel e = .ok l := by
  obtain ⟨S, hb⟩ := derivatives_bounded_fragment hps hinj hf
  exact ⟨S.length + 1, terminates_of_finite hps he hz hb⟩

/-- **compile_succeeds_total_fragment**: `compile(e)` returns an automaton … -/
theorem compile_succeeds_total_fragment (hps : PairSound ord) (hinj : Function.Injective ord)
    {e : RE} (he : e.WF) (hz : e.NZ) (hf : Frag e) : ∃ fuel A, compile ord fuel e = .ok A := by
  obtain ⟨S, hb⟩ := derivatives_bounded_fragment hps hinj hf
  exact ⟨S.length + 1, compile_total_of_finite hps he hz hb⟩

/-- … which accepts exactly the language of `e` (C02) -/
theorem compile_total_correct_fragment (hps : PairSound ord) (hinj : Function.Injective ord)
    {e : RE} (he : e.WF) (hz : e.NZ) (hf : Frag e) :
    ∃ fuel A, compile ord fuel e = .ok A ∧
      ∀ w, WFs w → (A.accepts w = some true ↔ w ∈ e.lang) := by
  obtain ⟨fuel, A, hA⟩ := compile_succeeds_total_fragment hps hinj he hz hf
  exact ⟨fuel, A, hA, fun w hw => C02.compile_accepts hps he hz hA hw⟩

/-- **is_empty_total_fragment**: `is_empty_re(e)` returns, and its answer is exact (C05) -/
theorem is_empty_total_fragment (hps : PairSound ord) (hinj : Function.Injective ord) {e : RE}
    (he : e.WF) (hz : e.NZ) (hf : Frag e) :
    ∃ fuel b, isEmptyRe ord fuel e = .ok b ∧ (b = true ↔ ∀ w, w ∉ e.lang) := by
  obtain ⟨S, hb⟩ := derivatives_bounded_fragment hps hinj hf
  obtain ⟨b, h⟩ := is_empty_total_of_finite hps he hz hb
  exact ⟨S.length + 1, b, h, C05.Final.is_empty_iff hps he hz h⟩

/-- **get_string_total_fragment**: `get_string(e)` returns -/
theorem get_string_total_fragment (hps : PairSound ord) (hinj : Function.Injective ord) {e : RE}
    (he : e.WF) (hz : e.NZ) (hf : Frag e) : ∃ fuel r, getString ord fuel e = .ok r := by
  obtain ⟨S, hb⟩ := derivatives_bounded_fragment hps hinj hf
  exact ⟨S.length + 1, get_string_total_of_finite hps he hz hb⟩

/-! ### non-vacuity: an injective `PairSound` id assignment and concrete terms of the fragment -/

/-- Gödel numbering, all ids even: injective and (vacuously) `PairSound` -/
example : Function.Injective ordEnc := ordEnc_injective
example : PairSound ordEnc := ordEnc_pairSound

private def a : RE := .range ⟨97, 97⟩
private def b : RE := .range ⟨98, 98⟩
private def digit : RE := .range ⟨48, 57⟩
/-- `Σ* a Σ^[1,2] [0-9]* (ab | ¬(b b*))` -/
private def ex1 : RE :=
  .concat sigmaStar (.concat a (.concat (.loop sigma ⟨1, some 2⟩) (.concat (.loop digit ⟨0, none⟩)
    (.union [.concat a b, .compl (.concat b (.loop b ⟨0, none⟩))]))))
/-- `(Σ* a Σ*) ∩ ¬(Σ* b b Σ*) ∩ Σ^[2,∞)` -/
private def ex2 : RE :=
  .inter [.concat sigmaStar (.concat a sigmaStar),
    .compl (.concat sigmaStar (.concat (.loop b ⟨2, some 2⟩) sigmaStar)),
    .loop sigma ⟨2, none⟩]

example : Frag ex1 := by decide
example : ex1.WF := by simp [ex1, a, b, digit, sigmaStar, sigma, RE.WF, RE.WFList, CharSet.WF,
  CharSet.allChars, MAX_CHAR, LoopRange.star, LoopRange.infinite]
example : ex1.NZ := by decide
example : Frag ex2 := by decide
example : ex2.WF := by simp [ex2, a, b, sigmaStar, sigma, RE.WF, RE.WFList, CharSet.WF,
  CharSet.allChars, MAX_CHAR, LoopRange.star, LoopRange.infinite]
example : ex2.NZ := by decide
/-- an identifier `[a-z_][a-z0-9_]*` with the classes given as unions of ranges -/
private def ex3 : RE :=
  .concat (.union [.range ⟨97, 122⟩, .range ⟨95, 95⟩])
    (.loop (.union [.range ⟨97, 122⟩, digit, .range ⟨95, 95⟩]) ⟨0, none⟩)
example : Frag ex3 := by decide
example : ex3.WF := by simp [ex3, digit, RE.WF, RE.WFList, CharSet.WF, MAX_CHAR]
example : ex3.NZ := by decide
/-- `[0-9]+ (,[0-9]+)*` and `b (ab)^[2,5]`: loops over chains -/
private def ex4 : RE :=
  .concat (.loop digit ⟨1, none⟩)
    (.loop (.concat (.range ⟨44, 44⟩) (.loop digit ⟨1, none⟩)) ⟨0, none⟩)
private def ex5 : RE := .concat b (.loop (.concat a b) ⟨2, some 5⟩)
example : Frag ex4 := by decide
example : ex4.WF := by simp [ex4, digit, RE.WF, CharSet.WF, MAX_CHAR]
example : ex4.NZ := by decide
example : Frag ex5 := by decide
example : ex5.WF := by simp [ex5, a, b, RE.WF, CharSet.WF, MAX_CHAR]
example : ex5.NZ := by decide
/-- `(ab)* · c`, `(ab)* · (c | ¬a)` and `(ab)* · c · (cb)^[1,3]`: loops over a chain in head position -/
example : Frag (.concat (.loop (.concat a b) ⟨0, none⟩) (.range ⟨99, 99⟩)) := by decide
example : Frag (.concat (.loop (.concat a b) ⟨0, none⟩) (.union [.range ⟨99, 99⟩, .compl a])) := by
  decide
private def ex6 : RE :=
  .concat (.loop (.concat a b) ⟨0, none⟩)
    (.concat (.range ⟨99, 99⟩) (.loop (.concat (.range ⟨99, 99⟩) b) ⟨1, some 3⟩))
example : Frag ex6 := by decide
example : ex6.WF := by simp [ex6, a, b, RE.WF, CharSet.WF, MAX_CHAR, LoopRange.star,
  LoopRange.infinite]
example : ex6.NZ := by decide
/-- outside the fragment: `(ab)*·a`, `(ab)*·a·c`, `(a*b)*`, `(a|bb)·a`, `(¬a)·b` -/
example : ¬ Frag (.concat (.loop (.concat a b) ⟨0, none⟩) a) := by decide
example : ¬ Frag (.concat (.loop (.concat a b) ⟨0, none⟩) (.concat a (.range ⟨99, 99⟩))) := by
  decide
example : ¬ Frag (.loop (.concat (.loop a ⟨0, none⟩) b) ⟨0, none⟩) := by decide
example : ¬ Frag (.concat (.union [a, .concat b b]) a) := by decide
example : ¬ Frag (.concat (.compl a) b) := by decide
/-- the conclusion for a concrete case (with the constant id assignment the run can be evaluated) -/
example : iterDerivatives (fun _ => 0) 10 (.concat a (.loop b ⟨0, none⟩)) =
    .ok [.concat a (.loop b ⟨0, none⟩), .loop b ⟨0, none⟩, .empty] := by decide +kernel

/-! ### 3. THE FULL THEOREM: finiteness and termination for EVERY term of the domain

  Proof (Proofs/TerminationGen.lean): a potential function `Gen.pot : RE → ℕ` that never increases
  along `compute_derivative` (`Gen.pot_deriv`) and dominates a size `Gen.sz` (`Gen.sz_le_pot`); both
  are sub-additive through every arm of `ReManager::concat` — they are invariant under
  re-bracketing and non-increasing under every loop merge — (`Gen.mkConcat_bounds`), `mk_loop`
  with its range multiplication, `complement`, `make_union`, `make_inter`.  Together with the shape
  invariant `Gen.Shape` (built over the sub-terms of `e`; new n-ary nodes duplicate-free and flat:
  this is where injectivity of `ord` enters) every iterated derivative lies in the explicit finite
  list `Gen.univ (Gen.atoms e) (Gen.pot e)`. -/

/-- **derivatives_finite**: for EVERY term and every injective id assignment the set of iterated
    derivatives (w.r.t. arbitrary strings) is contained in one finite list — Brzozowski's theorem
    for this normal form.  No well-formedness hypothesis is needed. -/
theorem derivatives_finite (hinj : Function.Injective ord) (e : RE) : ∃ S, DerivBounded ord e S :=
  ⟨_, Gen.derivBounded_all hinj e⟩

/-- the explicit bound: the list of all terms over the sub-terms of `e` whose size is at most
    the potential of `e` -/
theorem derivatives_in_universe (hinj : Function.Injective ord) (e : RE) (s : List Nat) :
    strDerivative ord e s ∈ Gen.univ (Gen.atoms e) (Gen.pot e) ∧
      Gen.sz (strDerivative ord e s) ≤ Gen.pot e :=
  ⟨Gen.mem_univ _ _ (Gen.strDerivative_inv hinj e s).1
      (Nat.le_trans (Gen.sz_le_pot _) (Gen.strDerivative_inv hinj e s).2),
    Nat.le_trans (Gen.sz_le_pot _) (Gen.strDerivative_inv hinj e s).2⟩

/-- **derivative_sizes_bounded**: for EVERY id assignment (no hypothesis at all) the potential
    never increases along a derivative and the size of every iterated derivative is at most
    `pot e`; in particular every loop counter, every chain length and the nesting depth of every
    iterated derivative is bounded by a number computed from `e` alone -/
theorem derivative_sizes_bounded (ord : RE → Nat) (e : RE) (s : List Nat) :
    Gen.pot (strDerivative ord e s) ≤ Gen.pot e ∧ Gen.sz (strDerivative ord e s) ≤ Gen.pot e :=
  ⟨Gen.pot_strDerivative_le ord e s, Gen.sz_strDerivative_le ord e s⟩

/-- **derivatives_never_overflow**: if the potential of `e` fits in a `u32`, no loop bound of any
    iterated derivative exceeds `u32::MAX` (`RE.overflowed` = the documented `loop_ranges` panic),
    for every id assignment -/
theorem derivatives_never_overflow (ord : RE → Nat) {e : RE} (he : Gen.pot e ≤ U32_MAX)
    (s : List Nat) : (strDerivative ord e s).overflowed = false :=
  Gen.strDerivative_not_overflowed ord he s

/-- **closure_finite**: `iter_derivatives(e)` terminates, for every term of the domain -/
theorem closure_finite (hps : PairSound ord) (hinj : Function.Injective ord) {e : RE}
    (he : e.WF) (hz : e.NZ) : ∃ fuel l, iterDerivatives ord fuel e = .ok l :=
  ⟨_, terminates_of_finite hps he hz (Gen.derivBounded_all hinj e)⟩

/-- **compile_succeeds_total**: `compile(e)` always returns an automaton … -/
theorem compile_succeeds_total (hps : PairSound ord) (hinj : Function.Injective ord) {e : RE}
    (he : e.WF) (hz : e.NZ) : ∃ fuel A, compile ord fuel e = .ok A :=
  ⟨_, compile_total_of_finite hps he hz (Gen.derivBounded_all hinj e)⟩

/-- … which accepts exactly the language of `e` (C02) -/
theorem compile_total_correct (hps : PairSound ord) (hinj : Function.Injective ord) {e : RE}
    (he : e.WF) (hz : e.NZ) :
    ∃ fuel A, compile ord fuel e = .ok A ∧
      ∀ w, WFs w → (A.accepts w = some true ↔ w ∈ e.lang) := by
  obtain ⟨fuel, A, hA⟩ := compile_succeeds_total hps hinj he hz
  exact ⟨fuel, A, hA, fun w hw => C02.compile_accepts hps he hz hA hw⟩

/-- **is_empty_total**: `is_empty_re(e)` always returns, and its answer is exact (C05) -/
theorem is_empty_total (hps : PairSound ord) (hinj : Function.Injective ord) {e : RE}
    (he : e.WF) (hz : e.NZ) :
    ∃ fuel b, isEmptyRe ord fuel e = .ok b ∧ (b = true ↔ ∀ w, w ∉ e.lang) := by
  obtain ⟨b, h⟩ := is_empty_total_of_finite hps he hz (Gen.derivBounded_all hinj e)
  exact ⟨_, b, h, C05.Final.is_empty_iff hps he hz h⟩

/-- **get_string_total**: `get_string(e)` always returns (`None` or a witness) -/
theorem get_string_total (hps : PairSound ord) (hinj : Function.Injective ord) {e : RE}
    (he : e.WF) (hz : e.NZ) : ∃ fuel r, getString ord fuel e = .ok r :=
  ⟨_, get_string_total_of_finite hps he hz (Gen.derivBounded_all hinj e)⟩

/-- **try_compile_total**: there is a fuel with which `try_compile(e, n)` returns for EVERY bound
    `n`; it answers `Some` exactly when `n ≠ 0` and the closure has at most `n` elements, and the
    automaton then has exactly that many states -/
theorem try_compile_total (hps : PairSound ord) (hinj : Function.Injective ord) {e : RE}
    (he : e.WF) (hz : e.NZ) :
    ∃ fuel l, iterDerivatives ord fuel e = .ok l ∧ ∀ n, ∃ r, tryCompile ord fuel e n = .ok r ∧
      (r.isSome = true ↔ n ≠ 0 ∧ l.length ≤ n) ∧ (∀ A, r = some A → A.numStates = l.length) := by
  obtain ⟨fuel, l, hl⟩ := closure_finite hps hinj he hz
  refine ⟨fuel, l, hl, fun n => ?_⟩
  have h1 := C02.try_compile_no_panic hps he hz fuel n
  have h2 := C19.try_compile_fuel (C19.closureFacts hps) (e := e) ⟨he, hz⟩ (n := n) hl
  cases hr : tryCompile ord fuel e n with
  | ok r => exact ⟨r, rfl, C19.Final.try_compile_iff hps he hz hr hl⟩
  | panic => exact absurd hr h1
  | outOfFuel => exact absurd hr h2

/-- `is_empty_re` returns for every sufficiently large fuel -/
theorem is_empty_total_ge (hps : PairSound ord) (hinj : Function.Injective ord) {e : RE}
    (he : e.WF) (hz : e.NZ) : ∃ N, ∀ fuel, N ≤ fuel → ∃ b, isEmptyRe ord fuel e = .ok b :=
  ⟨(Gen.univ (Gen.atoms e) (Gen.pot e)).length + 1, fun fuel hf =>
    isEmptyLoop_terminates (C19.closureFacts hps) (e := e) ⟨he, hz⟩ (Gen.derivBounded_all hinj e)
      fuel [e] 0 (BInv.init e) (by omega)⟩

mutual
/-- `start_char(e, c)` returns for every sufficiently large fuel -/
theorem start_char_total_ge (hps : PairSound ord) (hinj : Function.Injective ord) :
    ∀ (e : RE) (c : Nat), e.WF → e.NZ → c ≤ MAX_CHAR →
      ∃ N, ∀ fuel, N ≤ fuel → ∃ b, startChar ord fuel e c = .ok b
  | .empty, c, _, _, _ => ⟨0, fun fuel _ => ⟨false, by simp [startChar]⟩⟩
  | .epsilon, c, _, _, _ => ⟨0, fun fuel _ => ⟨false, by simp [startChar]⟩⟩
  | .range r, c, _, _, _ => ⟨0, fun fuel _ => ⟨r.contains c, by simp [startChar]⟩⟩
  | .loop x ρ, c, he, hz, hc => by
    simp only [RE.WF] at he
    obtain ⟨N, hN⟩ := start_char_total_ge hps hinj x c he.1 ((nz_loop x ρ).1 hz).1 hc
    exact ⟨N, fun fuel hf => by simpa [startChar] using hN fuel hf⟩
  | .union l, c, he, hz, hc => by
    simp only [RE.WF] at he
    obtain ⟨N, hN⟩ := start_char_any_total_ge hps hinj l c he ((nz_union l).1 hz) hc
    exact ⟨N, fun fuel hf => by simpa [startChar] using hN fuel hf⟩
  | .concat a b, c, he, hz, hc => by
    have hg := (C19.closureFacts hps).deriv_good _ c ⟨he, hz⟩ hc
    obtain ⟨N, hN⟩ := is_empty_total_ge hps hinj hg.1 hg.2
    refine ⟨N, fun fuel hf => ?_⟩
    obtain ⟨b, hb⟩ := hN fuel hf
    exact ⟨!b, by simp [startChar, hb]⟩
  | .inter l, c, he, hz, hc => by
    have hg := (C19.closureFacts hps).deriv_good _ c ⟨he, hz⟩ hc
    obtain ⟨N, hN⟩ := is_empty_total_ge hps hinj hg.1 hg.2
    refine ⟨N, fun fuel hf => ?_⟩
    obtain ⟨b, hb⟩ := hN fuel hf
    exact ⟨!b, by simp [startChar, hb]⟩
  | .compl x, c, he, hz, hc => by
    have hg := (C19.closureFacts hps).deriv_good _ c ⟨he, hz⟩ hc
    obtain ⟨N, hN⟩ := is_empty_total_ge hps hinj hg.1 hg.2
    refine ⟨N, fun fuel hf => ?_⟩
    obtain ⟨b, hb⟩ := hN fuel hf
    exact ⟨!b, by simp [startChar, hb]⟩
theorem start_char_any_total_ge (hps : PairSound ord) (hinj : Function.Injective ord) :
    ∀ (l : List RE) (c : Nat), WFList l → NZList l → c ≤ MAX_CHAR →
      ∃ N, ∀ fuel, N ≤ fuel → ∃ b, startCharAny ord fuel l c = .ok b
  | [], c, _, _, _ => ⟨0, fun fuel _ => ⟨false, by simp [startCharAny]⟩⟩
  | x :: xs, c, he, hz, hc => by
    simp only [RE.WFList] at he
    obtain ⟨N1, h1⟩ := start_char_total_ge hps hinj x c he.1 ((nzList_cons x xs).1 hz).1 hc
    obtain ⟨N2, h2⟩ := start_char_any_total_ge hps hinj xs c he.2 ((nzList_cons x xs).1 hz).2 hc
    refine ⟨max N1 N2, fun fuel hf => ?_⟩
    obtain ⟨b1, hb1⟩ := h1 fuel (by omega)
    obtain ⟨b2, hb2⟩ := h2 fuel (by omega)
    cases b1 with
    | true => exact ⟨true, by simp [startCharAny, hb1]⟩
    | false => exact ⟨b2, by simp [startCharAny, hb1, hb2]⟩
end

/-- **start_char_total**: `start_char(e, c)` always returns, and its answer is exact (C18) -/
theorem start_char_total (hps : PairSound ord) (hinj : Function.Injective ord) {e : RE}
    (he : e.WF) (hz : e.NZ) {c : Nat} (hc : c ≤ MAX_CHAR) :
    ∃ fuel b, startChar ord fuel e c = .ok b ∧ (b = true ↔ ∃ w, c :: w ∈ e.lang) := by
  obtain ⟨N, hN⟩ := start_char_total_ge hps hinj e c he hz hc
  obtain ⟨b, hb⟩ := hN N (Nat.le_refl _)
  exact ⟨N, b, hb, C18.Final.start_char_iff hps N e c b hb he hz hc⟩

/-! non-vacuity: the terms that were outside the fragment are covered -/

/-- `(a*b)*`, `(a|bb)·a`, `(¬a)·b`, `(ab)*·a·c`, `((ab)*c)*`, `(a|b*)^[2,3]` -/
private def g1 : RE := .loop (.concat (.loop a ⟨0, none⟩) b) ⟨0, none⟩
private def g2 : RE := .concat (.union [a, .concat b b]) a
private def g3 : RE := .concat (.compl a) b
private def g4 : RE := .concat (.loop (.concat a b) ⟨0, none⟩) (.concat a (.range ⟨99, 99⟩))
private def g5 : RE :=
  .loop (.concat (.loop (.concat a b) ⟨0, none⟩) (.range ⟨99, 99⟩)) ⟨0, none⟩
private def g6 : RE := .loop (.union [a, .loop b ⟨0, none⟩]) ⟨2, some 3⟩

example : ¬ Frag g1 ∧ ¬ Frag g2 ∧ ¬ Frag g3 ∧ ¬ Frag g4 ∧ ¬ Frag g5 ∧ ¬ Frag g6 := by decide
example : g1.WF ∧ g2.WF ∧ g3.WF ∧ g4.WF ∧ g5.WF ∧ g6.WF := by
  simp [g1, g2, g3, g4, g5, g6, a, b, RE.WF, RE.WFList, CharSet.WF, MAX_CHAR]
example : g1.NZ ∧ g2.NZ ∧ g3.NZ ∧ g4.NZ ∧ g5.NZ ∧ g6.NZ := by decide
example : ∃ fuel l, iterDerivatives ordEnc fuel g5 = .ok l :=
  closure_finite ordEnc_pairSound ordEnc_injective
    (by simp [g5, a, b, RE.WF, CharSet.WF, MAX_CHAR]) (by decide)
/-- the potential and the size for a concrete term: `(ab)*·a·c` -/
example : Gen.pot g4 = 13 ∧ Gen.sz g4 = 8 := by decide

end Smt.C19.Term
