/-
  C19 — TERMINATION of the derivative closure ("iter_derivatives(e) terminates …; compile(e) always
  succeeds"), the part left open by Props/C19.lean / C19Final.lean.

  FULL STATEMENT (NOT proved in this generality):
      ∀ ord, PairSound ord → Function.Injective ord → ∀ e, e.WF → e.NZ →
        ∃ fuel l, iterDerivatives ord fuel e = .ok l
  i.e. Brzozowski's finiteness theorem for this implementation's normal form.

  WHAT IS PROVED HERE (every theorem sorry-free)

  1. The reduction "finitely many derivatives ⇒ all searches terminate", for EVERY term of the
     domain `e.WF ∧ e.NZ` and EVERY `ord` with `PairSound ord`, with an explicit fuel:
       * `terminates_of_finite`     `DerivBounded ord e S → ∃ l, iterDerivatives ord (S.length+1) e = .ok l`
         (`DerivBounded ord e S` : every `strDerivative ord e s`, `WFs s`, is a member of the list `S`)
       * `finite_of_terminates`     the converse (from `iter_exact`): termination ⇔ finiteness
       * `terminates_of_closed`     any list closed under `deriv · c` (`c ≤ MAX_CHAR`) containing `e`
       * `compile_total_of_finite`, `is_empty_total_of_finite`, `get_string_total_of_finite`
         `compile`, `is_empty_re`, `get_string` return (`.ok _`: neither out of fuel nor panic)
         with fuel `S.length + 1`.

  2. FINITENESS, hence unconditional termination, for the fragment `Frag e` (`RE.frag e = true`, a
     decidable syntactic predicate) and every INJECTIVE `ord` (`ids_injective`, C07, gives it for
     every real manager; with a non-injective `ord` `Vec::dedup` leaves non-adjacent duplicates):
       * `derivatives_finite_fragment`   `PairSound ord → Injective ord → Frag e →
                                          ∃ S, e ∈ S ∧ DerivClosed ord S` (no well-formedness
                                          hypothesis: `S` is closed under `computeDeriv · c` for EVERY `c`)
       * `closure_finite_fragment`       `Frag e → … → ∃ fuel l, iterDerivatives ord fuel e = .ok l`
       * `compile_succeeds_total_fragment`, `is_empty_total_fragment`, `get_string_total_fragment`
     `Frag` = right-linear terms with Boolean structure:
         L ::= [a-b] | ⋃ [[a-b],…]                       (a "letter": a character class given as one
                                                          range or as a union of ranges, e.g. [a-zA-Z0-9_])
         K ::= L | L^[i,j] | L^[i,∞)                     (a "head")
         H ::= ∅ | ε | K
         Y ::= K₁ · (K₂ · (… · Kₙ))   n ≥ 2, K₁ not nullable   (a compound loop body: `ab`, `,[0-9]+`)
         G ::= ∅ | ε | [a-b] | L^[i,j] | L^[i,∞) | Y^[i,j] | Y^[i,∞) | H · G | Y^[i,j] · G' | Y^[i,∞) · G'
             | ⋃ [G,…] | ⋂ [G,…] | ¬G
         G' = a `G` that is a concatenation `t · _` or a loop `(t · _)^[..]` whose first factor `t`
              is not `∅`, `ε`, a letter of a head of `Y` or a loop over such a letter; or any other
              `G` (a head, a union, an intersection, a complement) that is not `∅`, `ε`, `Σ*`, a
              letter of a head of `Y` or a loop over such a letter
     (string literals, sequences of character classes with bounded or unbounded repetition such as
     `Σ* a Σ^[3,5] [0-9a-f]* (foo|bar)`, identifiers `[a-zA-Z_][a-zA-Z0-9_]*`, loops over words and
     over sequences of classes at the right end of a concatenation such as `(ab)*`, `c (ab)^[2,5]`,
     `[0-9]+ (,[0-9]+)*`, loops over words followed by a tail that starts with a different letter or
     with another such loop such as `(ab)* c`, `(ab)+ c d`, `(ab)* (cd)* e`, `(ab)* (c|d)`, and every
     union / intersection / complement of such terms, also nested to the right of a concatenation).
     Covered rewrites: ALL of `simplify_set_operation`
     (sort by id, dedup, neutral/absorbing element, complement pairs), `make_union` with
     subsumption pruning, `make_inter` with the ε shortcut, `complement`, and every arm of `concat`
     between a head `H` and a tail `G` (R·R^[i,j], R^[i,j]·R, R^[a,b]·R^[c,d], R·R, S·Σ*), `mk_loop`
     on letters and on chains, the re-association `(R·S)·T → R·(S·T)` and the merges `Y·Y → Y^2`,
     `Y·Y^[i,j] → Y^[i+1,j+1]` that the derivative of a loop over a chain `Y` produces.

  OUTSIDE `Frag` (the obstacle):
       * a concatenation whose LEFT operand is an intersection, a complement, a union that is not
         a letter, or a concatenation (`(a|bc) d`, `(¬a) b`), or a loop over a chain `Y` whose tail is
         not of the form `G'` above — a tail starting with a letter of `Y` (`(ab)* a c`, `(ab)* b*`)
         or equal to `Σ*`;
       * a loop whose body is neither a letter nor a chain `Y` as above: a body with a nullable
         first factor (`(a*b)*`), a body containing a union / intersection / complement or another
         compound loop (`(a|b*)^[2,3]`, `((ab)*c)*`).
     For these the classical argument needs  d_c(X · T) = d_c(X) · T ∪ …  SYNTACTICALLY, i.e.
     `mkConcat (mkConcat u v) T = mkConcat u (mkConcat v T)`.  `ReManager::concat` is NOT associative:
     `concat(concat(R,R),A) = R^2·A` but `concat(R,concat(R,A)) = R·(R·A)` (the loop-merging arms
     only look at the whole right operand), and `compute_derivative` of `X^[i,j]·T` builds the
     left-nested `concat(concat(d X, X^[i-1,j-1]), T)`.  Both association variants of a chain are
     reachable, so the finite universe must be closed under re-bracketing and under the merging
     rewrites at every junction; this needs an abstraction of chains modulo merging (run-length
     normal form with finite fibres) that is not formalised.  No counter-example was found: the real
     implementation terminated on ~10^6 adversarially generated expressions (nested non-flattened
     loops, complements/intersections under concatenation and loops); the largest closures are
     exponential in a loop counter but finite.

  Proofs: Proofs/Termination.lean (reduction), Proofs/TerminationFrag.lean (finiteness).
-/
import SmtModel.Proofs.TerminationFrag
import SmtModel.Props.C19Final
import SmtModel.Props.C05Final
import SmtModel.Props.C02

namespace Smt.C19.Term
open Smt RE

variable {ord : RE → Nat}

/-- the fragment for which finiteness of the derivative closure is proved (decidable) -/
def Frag (e : RE) : Prop := RE.frag e = true

instance (e : RE) : Decidable (Frag e) := by unfold Frag; infer_instance

/-! ### 1. finiteness ⇔ termination, for every term of the domain -/

/-- **terminates_of_finite**: if every iterated derivative of `e` lies in the list `S`, the closure
    is enumerated within `S.length + 1` pops -/
theorem terminates_of_finite (hps : PairSound ord) {e : RE} (he : e.WF) (hz : e.NZ) {S : List RE}
    (hb : DerivBounded ord e S) : ∃ l, iterDerivatives ord (S.length + 1) e = .ok l :=
  iterDerivatives_terminates (C19.closureFacts hps) ⟨he, hz⟩ hb

/-- **finite_of_terminates**: conversely the list returned bounds the derivatives -/
theorem finite_of_terminates (hps : PairSound ord) {e : RE} (he : e.WF) (hz : e.NZ) {fuel : Nat}
    {l : List RE} (h : iterDerivatives ord fuel e = .ok l) : DerivBounded ord e l :=
  fun s hs => (C19.Final.iter_exact hps he hz h _).2 ⟨s, hs, rfl⟩

/-- termination is equivalent to finiteness of the set of iterated derivatives -/
theorem terminates_iff_finite (hps : PairSound ord) {e : RE} (he : e.WF) (hz : e.NZ) :
    (∃ fuel l, iterDerivatives ord fuel e = .ok l) ↔ ∃ S, DerivBounded ord e S :=
  ⟨fun ⟨_, l, h⟩ => ⟨l, finite_of_terminates hps he hz h⟩,
   fun ⟨S, hb⟩ => ⟨S.length + 1, terminates_of_finite hps he hz hb⟩⟩

/-- **terminates_of_closed**: a list closed under `deriv · c` (`c ≤ MAX_CHAR`) that contains `e` -/
theorem terminates_of_closed (hps : PairSound ord) {e : RE} (he : e.WF) (hz : e.NZ) {S : List RE}
    (hc : DerivClosed ord S) (hm : e ∈ S) : ∃ l, iterDerivatives ord (S.length + 1) e = .ok l :=
  terminates_of_finite hps he hz (derivBounded_of_closed hc hm)

/-- **compile_total_of_finite**: `compile` returns an automaton -/
theorem compile_total_of_finite (hps : PairSound ord) {e : RE} (he : e.WF) (hz : e.NZ)
    {S : List RE} (hb : DerivBounded ord e S) : ∃ A, compile ord (S.length + 1) e = .ok A := by
  obtain ⟨l, hl⟩ := terminates_of_finite hps he hz hb
  exact C02.compile_succeeds hps he hz hl

/-- **is_empty_total_of_finite**: `is_empty_re` returns a Boolean -/
theorem is_empty_total_of_finite (hps : PairSound ord) {e : RE} (he : e.WF) (hz : e.NZ)
    {S : List RE} (hb : DerivBounded ord e S) : ∃ b, isEmptyRe ord (S.length + 1) e = .ok b :=
  isEmptyRe_terminates (C19.closureFacts hps) ⟨he, hz⟩ hb

/-- **get_string_total_of_finite**: `get_string` returns (`None` or a witness) -/
theorem get_string_total_of_finite (hps : PairSound ord) {e : RE} (he : e.WF) (hz : e.NZ)
    {S : List RE} (hb : DerivBounded ord e S) : ∃ r, getString ord (S.length + 1) e = .ok r := by
  have h1 := getString_not_outOfFuel (C19.closureFacts hps) (e := e) ⟨he, hz⟩ hb
  have h2 := C05.Final.get_string_no_panic hps he hz (S.length + 1)
  cases h : getString ord (S.length + 1) e with
  | ok r => exact ⟨r, rfl⟩
  | panic => exact absurd h h2
  | outOfFuel => exact absurd h h1

/-! ### 2. the fragment -/

/-- **derivatives_finite_fragment**: for a term of the fragment and an injective id assignment
    there is a finite list that contains `e` and is closed under the derivative w.r.t. every
    character (no well-formedness hypothesis is needed for this) -/
theorem derivatives_finite_fragment (hps : PairSound ord) (hinj : Function.Injective ord) {e : RE}
    (hf : Frag e) : ∃ S, e ∈ S ∧ DerivClosed ord S := by
  obtain ⟨S, he, hS⟩ := frag_fin hps hinj e hf
  exact ⟨S, he, hS.derivClosed⟩

/-- … in particular the set `{ str_derivative(e, s) | s }` is finite -/
theorem derivatives_bounded_fragment (hps : PairSound ord) (hinj : Function.Injective ord)
    {e : RE} (hf : Frag e) : ∃ S, DerivBounded ord e S := by
  obtain ⟨S, he, hS⟩ := derivatives_finite_fragment hps hinj hf
  exact ⟨S, derivBounded_of_closed hS he⟩

/-- **closure_finite_fragment**: `iter_derivatives(e)` terminates for every term of the fragment -/
theorem closure_finite_fragment (hps : PairSound ord) (hinj : Function.Injective ord) {e : RE}
    (he : e.WF) (hz : e.NZ) (hf : Frag e) : ∃ fuel l, iterDerivatives ord fuel e = .ok l := by
  obtain ⟨S, hb⟩ := derivatives_bounded_fragment hps hinj hf
  exact ⟨S.length + 1, terminates_of_finite hps he hz hb⟩

/-- **compile_succeeds_total_fragment**: `compile(e)` returns an automaton … -/
theorem compile_succeeds_total_fragment (hps : PairSound ord) (hinj : Function.Injective ord)
    {e : RE} (he : e.WF) (hz : e.NZ) (hf : Frag e) : ∃ fuel A, compile ord fuel e = .ok A := by
  obtain ⟨S, hb⟩ := derivatives_bounded_fragment hps hinj hf
  exact ⟨S.length + 1, compile_total_of_finite hps he hz hb⟩

/-- … which accepts exactly the language of `e` (C02) -/
theorem compile_total_correct_fragment (hps : PairSound ord) (hinj : Function.Injective ord)
    {e : RE} (he : e.WF) (hz : e.NZ) (hf : Frag e) :
    ∃ fuel A, compile ord fuel e = .ok A ∧
      ∀ w, WFs w → (A.accepts w = some true ↔ w ∈ e.lang) := by
  obtain ⟨fuel, A, hA⟩ := compile_succeeds_total_fragment hps hinj he hz hf
  exact ⟨fuel, A, hA, fun w hw => C02.compile_accepts hps he hz hA hw⟩

/-- **is_empty_total_fragment**: `is_empty_re(e)` returns, and its answer is exact (C05) -/
theorem is_empty_total_fragment (hps : PairSound ord) (hinj : Function.Injective ord) {e : RE}
    (he : e.WF) (hz : e.NZ) (hf : Frag e) :
    ∃ fuel b, isEmptyRe ord fuel e = .ok b ∧ (b = true ↔ ∀ w, w ∉ e.lang) := by
  obtain ⟨S, hb⟩ := derivatives_bounded_fragment hps hinj hf
  obtain ⟨b, h⟩ := is_empty_total_of_finite hps he hz hb
  exact ⟨S.length + 1, b, h, C05.Final.is_empty_iff hps he hz h⟩

/-- **get_string_total_fragment**: `get_string(e)` returns -/
theorem get_string_total_fragment (hps : PairSound ord) (hinj : Function.Injective ord) {e : RE}
    (he : e.WF) (hz : e.NZ) (hf : Frag e) : ∃ fuel r, getString ord fuel e = .ok r := by
  obtain ⟨S, hb⟩ := derivatives_bounded_fragment hps hinj hf
  exact ⟨S.length + 1, get_string_total_of_finite hps he hz hb⟩

/-! ### non-vacuity: an injective `PairSound` id assignment and concrete terms of the fragment -/

/-- Gödel numbering, all ids even: injective and (vacuously) `PairSound` -/
example : Function.Injective ordEnc := ordEnc_injective
example : PairSound ordEnc := ordEnc_pairSound

private def a : RE := .range ⟨97, 97⟩
private def b : RE := .range ⟨98, 98⟩
private def digit : RE := .range ⟨48, 57⟩
/-- `Σ* a Σ^[1,2] [0-9]* (ab | ¬(b b*))` -/
private def ex1 : RE :=
  .concat sigmaStar (.concat a (.concat (.loop sigma ⟨1, some 2⟩) (.concat (.loop digit ⟨0, none⟩)
    (.union [.concat a b, .compl (.concat b (.loop b ⟨0, none⟩))]))))
/-- `(Σ* a Σ*) ∩ ¬(Σ* b b Σ*) ∩ Σ^[2,∞)` -/
private def ex2 : RE :=
  .inter [.concat sigmaStar (.concat a sigmaStar),
    .compl (.concat sigmaStar (.concat (.loop b ⟨2, some 2⟩) sigmaStar)),
    .loop sigma ⟨2, none⟩]

example : Frag ex1 := by decide
example : ex1.WF := by simp [ex1, a, b, digit, sigmaStar, sigma, RE.WF, RE.WFList, CharSet.WF,
  CharSet.allChars, MAX_CHAR, LoopRange.star, LoopRange.infinite]
example : ex1.NZ := by decide
example : Frag ex2 := by decide
example : ex2.WF := by simp [ex2, a, b, sigmaStar, sigma, RE.WF, RE.WFList, CharSet.WF,
  CharSet.allChars, MAX_CHAR, LoopRange.star, LoopRange.infinite]
example : ex2.NZ := by decide
/-- an identifier `[a-z_][a-z0-9_]*` with the classes given as unions of ranges -/
private def ex3 : RE :=
  .concat (.union [.range ⟨97, 122⟩, .range ⟨95, 95⟩])
    (.loop (.union [.range ⟨97, 122⟩, digit, .range ⟨95, 95⟩]) ⟨0, none⟩)
example : Frag ex3 := by decide
example : ex3.WF := by simp [ex3, digit, RE.WF, RE.WFList, CharSet.WF, MAX_CHAR]
example : ex3.NZ := by decide
/-- `[0-9]+ (,[0-9]+)*` and `b (ab)^[2,5]`: loops over chains -/
private def ex4 : RE :=
  .concat (.loop digit ⟨1, none⟩)
    (.loop (.concat (.range ⟨44, 44⟩) (.loop digit ⟨1, none⟩)) ⟨0, none⟩)
private def ex5 : RE := .concat b (.loop (.concat a b) ⟨2, some 5⟩)
example : Frag ex4 := by decide
example : ex4.WF := by simp [ex4, digit, RE.WF, CharSet.WF, MAX_CHAR]
example : ex4.NZ := by decide
example : Frag ex5 := by decide
example : ex5.WF := by simp [ex5, a, b, RE.WF, CharSet.WF, MAX_CHAR]
example : ex5.NZ := by decide
/-- `(ab)* · c`, `(ab)* · (c | ¬a)` and `(ab)* · c · (cb)^[1,3]`: loops over a chain in head position -/
example : Frag (.concat (.loop (.concat a b) ⟨0, none⟩) (.range ⟨99, 99⟩)) := by decide
example : Frag (.concat (.loop (.concat a b) ⟨0, none⟩) (.union [.range ⟨99, 99⟩, .compl a])) := by
  decide
private def ex6 : RE :=
  .concat (.loop (.concat a b) ⟨0, none⟩)
    (.concat (.range ⟨99, 99⟩) (.loop (.concat (.range ⟨99, 99⟩) b) ⟨1, some 3⟩))
example : Frag ex6 := by decide
example : ex6.WF := by simp [ex6, a, b, RE.WF, CharSet.WF, MAX_CHAR, LoopRange.star,
  LoopRange.infinite]
example : ex6.NZ := by decide
/-- outside the fragment: `(ab)*·a`, `(ab)*·a·c`, `(a*b)*`, `(a|bb)·a`, `(¬a)·b` -/
example : ¬ Frag (.concat (.loop (.concat a b) ⟨0, none⟩) a) := by decide
example : ¬ Frag (.concat (.loop (.concat a b) ⟨0, none⟩) (.concat a (.range ⟨99, 99⟩))) := by
  decide
example : ¬ Frag (.loop (.concat (.loop a ⟨0, none⟩) b) ⟨0, none⟩) := by decide
example : ¬ Frag (.concat (.union [a, .concat b b]) a) := by decide
example : ¬ Frag (.concat (.compl a) b) := by decide
/-- the conclusion for a concrete case (with the constant id assignment the run can be evaluated) -/
example : iterDerivatives (fun _ => 0) 10 (.concat a (.loop b ⟨0, none⟩)) =
    .ok [.concat a (.loop b ⟨0, none⟩), .loop b ⟨0, none⟩, .empty] := by decide +kernel

end Smt.C19.Term
