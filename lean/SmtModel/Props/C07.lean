/-
  C07 — Hash-consing: identical constructions give the identical term, any history.

  Store level (ids, `Store::make`, `ReManager::make/complement`, all histories): Props/C07Store.lean.
  Tree level (terms built by the public constructors, all id assignments): Props/C07Tree.lean.
  The two joined by a theorem — a stateful, id-allocating model of `ReManager` (table + derivative
  cache) refines the tree model: Props/C07Refine.lean (constructors, cached derivatives, programs),
  Props/C07RefineOps.lean (every other allocating operation: class/set derivatives, the derivative
  closure searches, start_char, compile, regex search/replace) and Props/C07RefineOpsFinal.lean
  (the latter composed with the language theorems C02/C05/C10/C18/C19: end-to-end statements about
  the stateful manager).
-/
import SmtModel.Props.C07Store
import SmtModel.Props.C07Tree
import SmtModel.Props.C07Refine
import SmtModel.Props.C07RefineOps
import SmtModel.Props.C07RefineOpsFinal
