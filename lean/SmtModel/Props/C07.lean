/-
  C07 — Hash-consing: identical constructions give the identical term, any history.

  Store level (ids, `Store::make`, `ReManager::make/complement`, all histories): Props/C07Store.lean.
  Tree level (terms built by the public constructors, all id assignments): Props/C07Tree.lean.
  The two joined by a theorem — a stateful, id-allocating model of `ReManager` (table + derivative
  cache) refines the tree model: Props/C07Refine.lean.
-/
import SmtModel.Props.C07Store
import SmtModel.Props.C07Tree
import SmtModel.Props.C07Refine
