/-
  C07 (refinement, part 3) — the refinement theorems of Props/C07RefineOps.lean composed with the
  language theorems about the pure models (C02, C05, C10, C18, C19): END-TO-END statements about
  the STATEFUL manager, for any history.

  For a term whose tree is well formed (`te.WF`, `te.NZ` — what every constructor produces:
  C01 `build_wf` / `build_nz`), in any state satisfying the invariant:
    * no search on the stateful manager panics (`*_no_panic`), so the refinement is an equality
      without side condition (`iterDerivatives_exact`);
    * `is_empty_re` decides emptiness of the SMT-LIB denotation, `get_string` returns a member,
      `start_char` decides "some word of the language starts with c", the automaton returned by
      `compile` / `try_compile` accepts exactly the denotation, `naive_re_search` finds the
      leftmost-shortest match, `str_replace_re(_all)` are the SMT-LIB replace functions —
      all of it computed THROUGH the term table and the derivative cache, whatever they hold;
    * `runProg_*`: the same for a term built by any construction program after any history.
  (Termination is not claimed: "whenever the search returns within the fuel".)
-/
import SmtModel.Props.C07RefineOps
import SmtModel.Props.C02
import SmtModel.Props.C18Final
import SmtModel.Props.C10Final

namespace Smt
namespace C07RefineOps
namespace Final
open Smt RE C07Refine

theorem resRel_eq_ok {α : Type} {r p : Res α} (h : ResRel (fun a b => a = b) r p) {a : α}
    (hr : r = .ok a) : p = .ok a := by
  subst hr
  cases p with
  | ok b => exact congrArg Res.ok (Eq.symm h)
  | panic => exact absurd h id
  | outOfFuel => exact absurd h id

theorem resRel_no_panic {α β : Type} {R : α → β → Prop} {r : Res α} {p : Res β}
    (h : ResRel R r p) (hp : p ≠ .panic) : r ≠ .panic := by
  intro hr
  subst hr
  cases p with
  | ok b => exact h
  | panic => exact hp rfl
  | outOfFuel => exact h

/-- a search with equality as result relation, whose pure counterpart never panics: the pure
    search under the id assignment of the FINAL state returns what the stateful one returned -/
theorem eq_of_refines {α : Type} {m : Mgr} {res : Mgr × Res α} {P : (RE → Nat) → Res α}
    (h : SearchRefines m res (fun _ a b => a = b) P) (hnp : P res.1.ord ≠ .panic) :
    res.2 ≠ .panic ∧ ∀ a, res.2 = .ok a → P res.1.ord = .ok a :=
  have hr := h.agree res.1 (After.refl h.inv) hnp
  ⟨resRel_no_panic hr hnp, fun _ ha => resRel_eq_ok hr ha⟩

variable (fuel : Nat) (m : Mgr) (h : Mgr.Inv m) (e : Nat) (te : RE) (he : m.toTree e = some te)
  (hw : te.WF) (hz : te.NZ)
include h he hw hz

/-- T:iterDerivatives_exact — on a well-formed term the stateful `iter_derivatives` never panics
    and yields exactly the pure list, under the id assignment of every later state -/
theorem iterDerivatives_exact :
    (m.iterDerivativesM fuel e).2 ≠ .panic ∧
    ∀ m2, After (m.iterDerivativesM fuel e).1 m2 →
      ResRel (fun l ts => TreesOf m2 l ts) (m.iterDerivativesM fuel e).2
        (iterDerivatives m2.ord fuel te) := by
  have hr := (iterDerivatives_refines fuel m h e te he).1
  have hnp : ∀ m2, After (m.iterDerivativesM fuel e).1 m2 → iterDerivatives m2.ord fuel te ≠ .panic :=
    fun m2 h2 => C19.Final.iter_no_panic (pairSound_of_inv m2 h2.2) hw hz fuel
  exact ⟨resRel_no_panic (hr.agree _ (After.refl hr.inv) (hnp _ (After.refl hr.inv)))
    (hnp _ (After.refl hr.inv)), fun m2 h2 => hr.agree m2 h2 (hnp m2 h2)⟩

/-- T:isEmptyRe_decides — **`is_empty_re` on the stateful manager decides emptiness of the
    language**, whatever the table and the cache hold -/
theorem isEmptyRe_decides :
    (m.isEmptyReM fuel e).2 ≠ .panic ∧
    ∀ b, (m.isEmptyReM fuel e).2 = .ok b → (b = true ↔ ∀ w, w ∉ te.lang) := by
  have hr := isEmptyRe_refines fuel m h e te he
  have hps := pairSound_of_inv _ hr.inv
  obtain ⟨h1, h2⟩ := eq_of_refines hr (C05.Final.is_empty_no_panic hps hw hz fuel)
  exact ⟨h1, fun b hb => C05.Final.is_empty_iff hps hw hz (h2 b hb)⟩

/-- T:getString_member — `get_string` returns `None` exactly for the empty language and otherwise
    a well-formed SMT string of the language -/
theorem getString_member :
    (m.getStringM fuel e).2 ≠ .panic ∧
    (∀ r, (m.getStringM fuel e).2 = .ok r → (r = none ↔ ∀ w, w ∉ te.lang)) ∧
    ∀ s, (m.getStringM fuel e).2 = .ok (some s) → WFs s ∧ s ∈ te.lang := by
  have hr := getString_refines fuel m h e te he
  have hps := pairSound_of_inv _ hr.inv
  obtain ⟨h1, h2⟩ := eq_of_refines hr (C05.Final.get_string_no_panic hps hw hz fuel)
  exact ⟨h1, fun r hr' => C05.Final.get_string_none_iff hps hw hz (h2 r hr'),
    fun s hs => C05.Final.get_string_member hps hw hz (h2 _ hs)⟩

/-- T:startChar_decides — `start_char(e, c)` decides whether a word of the language starts with `c` -/
theorem startChar_decides (c : Nat) (hc : c ≤ MAX_CHAR) :
    (m.startCharM fuel e c).2 ≠ .panic ∧
    ∀ b, (m.startCharM fuel e c).2 = .ok b → (b = true ↔ ∃ w, c :: w ∈ te.lang) := by
  have hr := startChar_refines fuel m h e te he c
  have hps := pairSound_of_inv _ hr.inv
  obtain ⟨h1, h2⟩ := eq_of_refines hr (C18.Final.start_char_no_panic hps fuel te c hw hz hc)
  exact ⟨h1, fun b hb => C18.Final.start_char_iff hps fuel te c b (h2 b hb) hw hz hc⟩

/-- T:compile_accepts — **the automaton `compile` returns on the stateful manager accepts exactly
    the SMT-LIB denotation of the term** -/
theorem compile_accepts :
    (m.compileM fuel e).2 ≠ .panic ∧
    ∀ A, (m.compileM fuel e).2 = .ok A → ∀ w, WFs w → (A.accepts w = some true ↔ w ∈ te.lang) := by
  have hr := compile_refines fuel m h e te he
  have hps := pairSound_of_inv _ hr.inv
  obtain ⟨h1, h2⟩ := eq_of_refines hr (C02.compile_no_panic hps hw hz fuel)
  exact ⟨h1, fun A hA w hww => C02.compile_accepts hps hw hz (h2 A hA) hww⟩

/-- T:tryCompile_accepts -/
theorem tryCompile_accepts (n : Nat) :
    (m.tryCompileM fuel e n).2 ≠ .panic ∧
    ∀ A, (m.tryCompileM fuel e n).2 = .ok (some A) →
      ∀ w, WFs w → (A.accepts w = some true ↔ w ∈ te.lang) := by
  have hr := tryCompile_refines fuel m h e te he n
  have hps := pairSound_of_inv _ hr.inv
  obtain ⟨h1, h2⟩ := eq_of_refines hr (C02.try_compile_no_panic hps hw hz fuel n)
  exact ⟨h1, fun A hA w hww => C02.try_compile_accepts hps hw hz (h2 _ hA) hww⟩

omit fuel

/-- T:naiveReSearch_spec — `naive_re_search` on the stateful manager finds the leftmost, then
    shortest, match of the language (C10 `re_search_spec`) -/
theorem naiveReSearch_spec (s : List Nat) (k : Nat) (allow : Bool) (hs : WFs s) (hk : k ≤ s.length) :
    (∀ i j, (m.naiveReSearchM e s k allow).2 = some (i, j) ↔ C10.firstMatch te.lang s k (!allow) i j) ∧
    ((m.naiveReSearchM e s k allow).2 = none ↔ ∀ i j, ¬ C10.IsMatch te.lang s k (!allow) i j) := by
  have hr := naiveReSearch_refines m h e te he s k allow
  have hps := pairSound_of_inv _ hr.inv
  rw [hr.agree _ (After.refl hr.inv)]
  exact C10.Final.re_search_spec hps te s k allow hw hz hs hk

/-- T:strReplaceRe_spec, T:strReplaceReAll_spec — the two replace functions computed through the
    manager are the SMT-LIB `str.replace_re` / `str.replace_re_all` of the denotation -/
theorem strReplaceRe_spec (s t : List Nat) (hs : WFs s) :
    (m.strReplaceReM s e t).2 = C10.specReplaceRe te.lang t s := by
  have hr := strReplaceRe_refines m h e te he s t
  rw [hr.agree _ (After.refl hr.inv)]
  exact (C10.Final.replace_re_spec (pairSound_of_inv _ hr.inv) te s t hw hz hs).2.2

theorem strReplaceReAll_spec (s t : List Nat) (hs : WFs s) :
    (m.strReplaceReAllM s e t).2 = some (C10.specReplaceAll te.lang t s) := by
  have hr := strReplaceReAll_refines m h e te he s t
  rw [hr.agree _ (After.refl hr.inv)]
  exact C10.Final.replace_re_all_spec (pairSound_of_inv _ hr.inv) te s t hw hz hs

omit he hw hz e te

/-- T:runProg_isEmptyRe_decides — build a term with ANY construction program after ANY history,
    then `is_empty_re` through the table and the cache: it never panics and decides emptiness of
    the SMT-LIB denotation of the program -/
theorem runProg_isEmptyRe_decides (fuel : Nat) (p : Prog) (hp : p.WFIn) (m' : Mgr) (r : Nat)
    (hr : m.runProg p = some (m', r)) :
    (m'.isEmptyReM fuel r).2 ≠ .panic ∧
    ∀ b, (m'.isEmptyReM fuel r).2 = .ok b → (b = true ↔ ∀ w, w ∉ C01.denote p) := by
  obtain ⟨e, hR, hB, _⟩ := runProg_refines m h p m' r hr
  have hb := hB m' (After.refl hR.inv)
  have hps := pairSound_of_inv m' hR.inv
  have := isEmptyRe_decides fuel m' hR.inv r e hR.tree (C01.build_wf hps p hp e hb)
    (C01.build_nz hps p hp e hb)
  rwa [C01.build_denote hps p hp e hb] at this

/-- T:runProg_compile_accepts — … and `compile`: the automaton accepts exactly the denotation -/
theorem runProg_compile_accepts (fuel : Nat) (p : Prog) (hp : p.WFIn) (m' : Mgr) (r : Nat)
    (hr : m.runProg p = some (m', r)) :
    (m'.compileM fuel r).2 ≠ .panic ∧
    ∀ A, (m'.compileM fuel r).2 = .ok A →
      ∀ w, WFs w → (A.accepts w = some true ↔ w ∈ C01.denote p) := by
  obtain ⟨e, hR, hB, _⟩ := runProg_refines m h p m' r hr
  have hb := hB m' (After.refl hR.inv)
  have hps := pairSound_of_inv m' hR.inv
  have := compile_accepts fuel m' hR.inv r e hR.tree (C01.build_wf hps p hp e hb)
    (C01.build_nz hps p hp e hb)
  rwa [C01.build_denote hps p hp e hb] at this

end Final
end C07RefineOps
end Smt
