/-
  C17 (regex part) — the strings that come out of the REGEX side of the API contain only SMT-LIB
  characters: `get_string` (witness of the emptiness/BFS search), `str_replace_re`,
  `str_replace_re_all`.  This closes the item that Props/C17.lean left to the regex model.

  * `get_string`: the result is the list of class representatives along the path the search found;
    `Smt.C05.Final.get_string_member` (pure model, every id assignment with `PairSound ord`, every
    `e.WF ∧ e.NZ` — what every constructor produces) and `C07RefineOps.Final.getString_member` /
    `C19.Mgr.getStringM_total_ge` (the STATEFUL manager, any history) give `WFs s`.  The length of a
    witness is bounded by the number of derivatives only, so `is_good` is stated under the explicit
    hypothesis `s.length < MAX_LENGTH`, exactly as Props/C17.lean does for the constructors.
  * `str_replace_re` / `str_replace_re_all`: the result is assembled from slices of the subject
    and copies of the replacement text.  This needs NO hypothesis on the pattern, on the id
    assignment or on the state of the manager: the theorems below hold for every `ord`, every
    `r : RE` (well formed or not) and, on the stateful side, for every `Mgr` and every id.
    Lengths: `|replace_re| ≤ |s| + |t|` and `|replace_re_all| ≤ |s| * max 1 |t|` (every match
    consumes at least one character of the subject — a structural fact of `naive_re_search`, also
    independent of the pattern), hence `is_good` under the corresponding explicit bound.
  * the final `.into()` (`From<Vec<u32>>`, resp. `From<&[u32]>` in the not-found branch) is the
    identity on such a result (`into_id`): no character is replaced, and `make` panics only if the
    result has more than `i32::MAX` characters.
-/
import SmtModel.Props.C19Mgr
import SmtModel.Props.C05Final
import SmtModel.Props.C10Final
import SmtModel.Props.C17

namespace Smt.C17Re
open Smt RE Smt.Literal

variable {ord : RE → Nat}

/-! ### `WFs` of pieces -/

theorem wfs_append {a b : List Nat} (ha : WFs a) (hb : WFs b) : WFs (a ++ b) := by
  intro c hc
  rcases List.mem_append.1 hc with h | h
  · exact ha c h
  · exact hb c h

theorem wfs_take {a : List Nat} (n : Nat) (ha : WFs a) : WFs (a.take n) :=
  fun c hc => ha c (List.mem_of_mem_take hc)

theorem wfs_drop {a : List Nat} (n : Nat) (ha : WFs a) : WFs (a.drop n) :=
  fun c hc => ha c (List.mem_of_mem_drop hc)

theorem wfs_nil : WFs [] := by intro c hc; cases hc

/-- `is_good` from its two halves -/
theorem isGood_of {s : List Nat} (hw : WFs s) (hl : s.length < MAX_LENGTH) : isGood s = true :=
  (C17.isGood_iff s).2 ⟨hl, hw⟩

/-- **into_id**: on a string of SMT-LIB characters that is not too long for `make`, the conversions
    `From<Vec<u32>>` and `From<&[u32]>` (the `.into()` at the end of `get_string`, `str_replace_re`,
    `str_replace_re_all`) return their argument unchanged -/
theorem into_id {x : List Nat} (hw : WFs x) (hl : x.length ≤ MAX_LENGTH) :
    fromVec x = some x ∧ fromSlice x = some x := by
  have h3 := C17.ctor_spec.2.2.1 x
  have h4 := C17.ctor_spec.2.2.2 x
  rw [if_pos hl, LiteralProofs.map_repl_of_good hw] at h3 h4
  exact ⟨h4, h3⟩

/-! ### `get_string` -/

/-- **get_string_good** (pure model): whatever `get_string` returns consists of SMT-LIB characters
    only; it is `is_good` unless it has `i32::MAX` characters or more -/
theorem get_string_good (hps : PairSound ord) {e : RE} (he : e.WF) (hz : e.NZ) {fuel : Nat}
    {s : List Nat} (h : getString ord fuel e = .ok (some s)) :
    WFs s ∧ goodString s = true ∧ (s.length < MAX_LENGTH → isGood s = true) := by
  have hw := (C05.Final.get_string_member hps he hz h).1
  exact ⟨hw, (goodString_iff s).2 hw, isGood_of hw⟩

/-- **getStringM_good** (stateful manager, any history, whatever the table and the cache hold) -/
theorem getStringM_good (fuel : Nat) (m : Mgr) (h : Mgr.Inv m) (e : Nat) (te : RE)
    (he : m.toTree e = some te) (hw : te.WF) (hz : te.NZ) {s : List Nat}
    (hs : (m.getStringM fuel e).2 = .ok (some s)) :
    WFs s ∧ goodString s = true ∧ (s.length < MAX_LENGTH → isGood s = true) := by
  have hg := ((C07RefineOps.Final.getString_member fuel m h e te he hw hz).2.2 s hs).1
  exact ⟨hg, (goodString_iff s).2 hg, isGood_of hg⟩

/-- **getStringM_total_good**: with enough fuel `get_string` on the stateful manager RETURNS
    (no panic, no out-of-fuel), and what it returns is a string of SMT-LIB characters -/
theorem getStringM_total_good (m : Mgr) (h : MgrTerm.InvS m) (e : Nat) (te : RE)
    (he : m.toTree e = some te) (hw : te.WF) (hz : te.NZ) (fuel : Nat)
    (hf : C19.Mgr.fuelFor te ≤ fuel) :
    ∃ r, (m.getStringM fuel e).2 = .ok r ∧
      ∀ s, r = some s → WFs s ∧ goodString s = true ∧ (s.length < MAX_LENGTH → isGood s = true) := by
  obtain ⟨r, h1, _, h3, _⟩ := C19.Mgr.getStringM_total_ge m h e te he hw hz fuel hf
  refine ⟨r, h1, fun s hs => ?_⟩
  have hg := (h3 s hs).1
  exact ⟨hg, (goodString_iff s).2 hg, isGood_of hg⟩

/-! ### structural bounds of `naive_re_search` (no hypothesis on the pattern) -/

theorem matchFrom_bounds (p : RE) (rest : List Nat) (n m : Nat)
    (h : matchFrom ord p rest n = some m) : n + 1 ≤ m ∧ m ≤ n + rest.length := by
  induction rest generalizing p n with
  | nil => simp [matchFrom] at h
  | cons c rest ih =>
    rw [matchFrom] at h
    split at h
    · cases h
      simp only [List.length_cons]; omega
    · split at h
      · cases h
      · have := ih _ _ h
        simp only [List.length_cons]; omega

theorem searchFrom_bounds (r : RE) (l : List Nat) (i a b : Nat)
    (h : searchFrom ord r l i = some (a, b)) : i ≤ a ∧ a < b ∧ b ≤ i + l.length := by
  induction l generalizing i with
  | nil => simp [searchFrom] at h
  | cons c rest ih =>
    rw [searchFrom] at h
    split at h
    · rename_i len hm
      have := matchFrom_bounds _ _ _ _ hm
      simp only [Option.some.injEq, Prod.mk.injEq] at h
      obtain ⟨rfl, rfl⟩ := h
      simp only [List.length_cons] at this ⊢; omega
    · have := ih _ h
      simp only [List.length_cons]; omega

/-- a match lies inside the subject, right of the start position; it is non-empty unless empty
    matches are allowed -/
theorem naiveReSearch_bounds (r : RE) (s : List Nat) (k : Nat) (allow : Bool) (a b : Nat)
    (hk : k ≤ s.length) (h : naiveReSearch ord r s k allow = some (a, b)) :
    k ≤ a ∧ a ≤ b ∧ b ≤ s.length ∧ (allow = false → a < b) := by
  unfold naiveReSearch at h
  split at h
  · rename_i hc
    simp only [Option.some.injEq, Prod.mk.injEq] at h
    obtain ⟨rfl, rfl⟩ := h
    refine ⟨Nat.le_refl _, Nat.le_refl _, hk, fun ha => ?_⟩
    subst ha; simp at hc
  · have := searchFrom_bounds _ _ _ _ _ h
    simp only [List.length_drop] at this
    refine ⟨this.1, by omega, by omega, fun _ => this.2.1⟩

/-! ### `str_replace_re` -/

/-- **replace_re_good**: `str_replace_re` maps good arguments to a good result — for EVERY pattern
    and every id assignment (the result is `s` or `s[..i] ++ t ++ s[j..]`) -/
theorem replace_re_good (r : RE) (s t : List Nat) (hs : WFs s) (ht : WFs t) :
    WFs (strReplaceRe ord s r t) := by
  unfold strReplaceRe
  split
  · exact hs
  · exact wfs_append (wfs_append (wfs_take _ hs) ht) (wfs_drop _ hs)

/-- the result is never longer than subject plus replacement -/
theorem replace_re_length (r : RE) (s t : List Nat) :
    (strReplaceRe ord s r t).length ≤ s.length + t.length := by
  unfold strReplaceRe
  split
  · omega
  · rename_i i j hm
    have := naiveReSearch_bounds r s 0 true i j (Nat.zero_le _) hm
    simp only [List.length_append, List.length_take, List.length_drop]
    omega

/-- `is_good` of the result, and the final `.into()` is the identity -/
theorem replace_re_is_good (r : RE) (s t : List Nat) (hs : WFs s) (ht : WFs t)
    (hl : s.length + t.length < MAX_LENGTH) :
    isGood (strReplaceRe ord s r t) = true ∧
    fromVec (strReplaceRe ord s r t) = some (strReplaceRe ord s r t) ∧
    fromSlice (strReplaceRe ord s r t) = some (strReplaceRe ord s r t) := by
  have h1 := replace_re_good (ord := ord) r s t hs ht
  have h2 := replace_re_length (ord := ord) r s t
  exact ⟨isGood_of h1 (by omega), into_id h1 (by omega)⟩

/-! ### `str_replace_re_all` -/

theorem replaceAllLoop_good (r : RE) (s t : List Nat) (hs : WFs s) (ht : WFs t) :
    ∀ (fuel i : Nat) (x out : List Nat), WFs x →
      replaceAllLoop ord r s t fuel i x = some out → WFs out := by
  intro fuel
  induction fuel with
  | zero => intro i x out _ h; simp [replaceAllLoop] at h
  | succ fuel ih =>
    intro i x out hx h
    rw [replaceAllLoop] at h
    split at h
    · exact ih _ _ _ (wfs_append (wfs_append hx (wfs_take _ (wfs_drop _ hs))) ht) h
    · cases h
      exact wfs_append hx (wfs_drop _ hs)

/-- **replace_re_all_good**: `str_replace_re_all` maps good arguments to a good result, for EVERY
    pattern and every id assignment -/
theorem replace_re_all_good (r : RE) (s t out : List Nat) (hs : WFs s) (ht : WFs t)
    (h : strReplaceReAll ord s r t = some out) : WFs out :=
  replaceAllLoop_good r s t hs ht _ _ _ _ wfs_nil h

theorem replaceAllLoop_length (r : RE) (s t : List Nat) (M : Nat) (hM1 : 1 ≤ M)
    (hMT : t.length ≤ M) :
    ∀ (fuel i : Nat) (x out : List Nat), i ≤ s.length → x.length ≤ i * M →
      replaceAllLoop ord r s t fuel i x = some out → out.length ≤ s.length * M := by
  intro fuel
  induction fuel with
  | zero => intro i x out _ _ h; simp [replaceAllLoop] at h
  | succ fuel ih =>
    intro i x out hi hx h
    rw [replaceAllLoop] at h
    split at h
    · rename_i j k hm
      obtain ⟨h1, _, h3, h4⟩ := naiveReSearch_bounds r s i false j k hi hm
      have h4 := h4 rfl
      refine ih k _ out h3 ?_ h
      simp only [List.length_append, List.length_take, List.length_drop]
      -- x.length + (j - i) + |t| ≤ i*M + (j - i)*M + M = (j + 1) * M ≤ k * M
      have e1 : (j - i) ≤ (j - i) * M := Nat.le_mul_of_pos_right _ hM1
      have e2 : (j + 1) * M ≤ k * M := Nat.mul_le_mul_right _ h4
      have e3 : (j + 1) * M = i * M + (j - i) * M + M := by
        rw [Nat.add_mul, Nat.one_mul, ← Nat.add_mul]
        congr 2; omega
      omega
    · cases h
      simp only [List.length_append, List.length_drop]
      have e1 : (s.length - i) ≤ (s.length - i) * M := Nat.le_mul_of_pos_right _ hM1
      have e3 : s.length * M = i * M + (s.length - i) * M := by
        rw [← Nat.add_mul]; congr 1; omega
      omega

/-- every match consumes at least one character of the subject, and each one is replaced by `t`:
    the result has at most `|s| * max 1 |t|` characters -/
theorem replace_re_all_length (r : RE) (s t out : List Nat)
    (h : strReplaceReAll ord s r t = some out) : out.length ≤ s.length * max 1 t.length :=
  replaceAllLoop_length r s t (max 1 t.length) (Nat.le_max_left _ _) (Nat.le_max_right _ _)
    _ 0 [] out (Nat.zero_le _) (by simp) h

/-- `is_good` of the result, and the final `.into()` is the identity -/
theorem replace_re_all_is_good (r : RE) (s t out : List Nat) (hs : WFs s) (ht : WFs t)
    (hl : s.length * max 1 t.length < MAX_LENGTH) (h : strReplaceReAll ord s r t = some out) :
    isGood out = true ∧ fromVec out = some out := by
  have h1 := replace_re_all_good r s t out hs ht h
  have h2 := replace_re_all_length r s t out h
  exact ⟨isGood_of h1 (by omega), (into_id h1 (by omega)).1⟩

/-- with the C10 hypotheses the loop never runs out of fuel: `str_replace_re_all` RETURNS a good
    string (the SMT-LIB `str.replace_re_all` of the denotation) -/
theorem replace_re_all_total_good (hps : PairSound ord) (r : RE) (s t : List Nat)
    (he : r.WF) (hnz : r.NZ) (hs : WFs s) (ht : WFs t) :
    ∃ out, strReplaceReAll ord s r t = some out ∧ out = C10.specReplaceAll r.lang t s ∧ WFs out :=
  ⟨_, C10.Final.replace_re_all_spec hps r s t he hnz hs, rfl,
    replace_re_all_good r s t _ hs ht (C10.Final.replace_re_all_spec hps r s t he hnz hs)⟩

/-! ### the stateful manager: no hypothesis on the state or on the id at all -/

/-- **strReplaceReM_good**: `str_replace_re` run through ANY manager state on ANY id -/
theorem strReplaceReM_good (m : Mgr) (e : Nat) (s t : List Nat) (hs : WFs s) (ht : WFs t) :
    WFs (m.strReplaceReM s e t).2 := by
  unfold Mgr.strReplaceReM
  split
  · exact hs
  · exact wfs_append (wfs_append (wfs_take _ hs) ht) (wfs_drop _ hs)

theorem replaceAllLoopM_good (e : Nat) (s t : List Nat) (hs : WFs s) (ht : WFs t) :
    ∀ (fuel : Nat) (m : Mgr) (i : Nat) (x out : List Nat), WFs x →
      (Mgr.replaceAllLoopM e s t fuel m i x).2 = some out → WFs out := by
  intro fuel
  induction fuel with
  | zero => intro m i x out _ h; simp [Mgr.replaceAllLoopM] at h
  | succ fuel ih =>
    intro m i x out hx h
    rw [Mgr.replaceAllLoopM] at h
    split at h
    · exact ih _ _ _ _ (wfs_append (wfs_append hx (wfs_take _ (wfs_drop _ hs))) ht) h
    · cases h
      exact wfs_append hx (wfs_drop _ hs)

/-- **strReplaceReAllM_good**: `str_replace_re_all` run through ANY manager state on ANY id -/
theorem strReplaceReAllM_good (m : Mgr) (e : Nat) (s t out : List Nat) (hs : WFs s) (ht : WFs t)
    (h : (m.strReplaceReAllM s e t).2 = some out) : WFs out :=
  replaceAllLoopM_good e s t hs ht _ _ _ _ _ wfs_nil h

/-- lengths on the stateful side, through the refinement (C07): for a state satisfying the
    invariant and an id of the table -/
theorem strReplaceReM_is_good (m : Mgr) (h : Mgr.Inv m) (e : Nat) (te : RE)
    (he : m.toTree e = some te) (s t : List Nat) (hs : WFs s) (ht : WFs t)
    (hl : s.length + t.length < MAX_LENGTH) : isGood (m.strReplaceReM s e t).2 = true := by
  have hr := C07RefineOps.strReplaceRe_refines m h e te he s t
  rw [hr.agree _ (C07Refine.After.refl hr.inv)]
  exact (replace_re_is_good te s t hs ht hl).1

theorem strReplaceReAllM_is_good (m : Mgr) (h : Mgr.Inv m) (e : Nat) (te : RE)
    (he : m.toTree e = some te) (s t out : List Nat) (hs : WFs s) (ht : WFs t)
    (hl : s.length * max 1 t.length < MAX_LENGTH)
    (ho : (m.strReplaceReAllM s e t).2 = some out) : isGood out = true := by
  have hr := C07RefineOps.strReplaceReAll_refines m h e te he s t
  rw [hr.agree _ (C07Refine.After.refl hr.inv)] at ho
  exact (replace_re_all_is_good te s t out hs ht hl ho).1

/-! ### non-vacuity -/

private def ord1 : RE → Nat := fun _ => 1
private def aStar : RE := .loop (.range ⟨97, 97⟩) LoopRange.star

example : PairSound ord1 := fun x y h => by simp [ord1] at h

/-- the crate's doc tests: `str_replace_re_all("baab", a*, "cd") = "bcdcdb"`; the replacement text
    contains U+2FFFF in the second one -/
example : strReplaceReAll ord1 [98, 97, 97, 98] aStar [99, 100] = some [98, 99, 100, 99, 100, 98] ∧
    strReplaceRe ord1 [98, 97, 97, 98] (.concat aStar (.range ⟨98, 98⟩)) [0x2FFFF] =
      [0x2FFFF, 97, 97, 98] ∧
    isGood [0x2FFFF, 97, 97, 98] = true := by decide +kernel

/-- the length bound `|s| * max 1 |t|` is attained -/
example : strReplaceReAll ord1 [97, 97] (.range ⟨97, 97⟩) [120, 121, 122] =
    some [120, 121, 122, 120, 121, 122] := by decide +kernel

/-- `get_string` returns a witness containing U+2FFFF; the hypotheses of `get_string_good` hold -/
example : getString ord1 10 (.concat (.range ⟨97, 98⟩) (.range ⟨0x2FFFF, 0x2FFFF⟩)) =
    .ok (some [97, 0x2FFFF]) ∧ isGood [97, 0x2FFFF] = true := by decide +kernel
example : (RE.concat (.range ⟨97, 98⟩) (.range ⟨0x2FFFF, 0x2FFFF⟩)).WF ∧
    (RE.concat (.range ⟨97, 98⟩) (.range ⟨0x2FFFF, 0x2FFFF⟩)).NZ := by
  refine ⟨?_, by decide⟩
  simp only [RE.WF]
  decide

end Smt.C17Re
