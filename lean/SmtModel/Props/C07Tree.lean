/-
  C07 (tree level) — DESIGN.md §7 C07, part (ii): facts about the *terms* the constructors build,
  for every construction program (Model/Prog.lean: any sequence of public constructor calls) and
  every id assignment `ord` of the manager (= every history: which unrelated terms already exist,
  in which order ids were handed out; the derivative cache is not consulted by the model at all,
  the model recomputes — a stale or wrongly keyed cache entry in the code is a behavioural
  difference the correspondence check sees).

    complement is an involution without fixed points       complement_involutive_built,
                                                            complement_no_fixpoint(_lang), comp_comp_build
    the language does not depend on the history            language_history_independent,
                                                            membership_/nullable_history_independent,
                                                            build_some_independent
    identical constructions give the identical tree        construction_deterministic_built (whole
                                                            programs, ids read by the calls),
                                                            constructor_call_deterministic (one call)

  Together with the store level (Props/C07Store.lean: same key ⇒ same id for ever, no allocation;
  ids of existing terms never change, so a later id assignment agrees with an earlier one on every
  term that existed then) `construction_deterministic_built` gives "re-issuing a construction later
  returns the very same term": same tree, hence same key, hence by `make_stable` the same pointer.
-/
import SmtModel.Props.C01

namespace Smt.C07Tree
open Smt RE Prog C01 ReBuild

/-! ### complement: involution, no fixed point -/

/-- T:complement_involutive (tree level) — on every term a manager can build, whatever the
    history, `complement (complement e) = e` (the same tree, not only the same language) -/
theorem complement_involutive_built {ord : RE → Nat} (hp : PairSound ord) (p : Prog) (hw : p.WFIn)
    (e : RE) (h : build ord p = some e) : e.complement.complement = e :=
  complement_involutive e (build_canon hp p hw e h)

/-- T:complement_no_fixpoint (tree level) — for every term whatsoever -/
theorem complement_no_fixpoint (e : RE) : e.complement ≠ e := complement_ne e

/-- … and not even up to language equality: `e` and its complement disagree on every SMT string -/
theorem complement_no_fixpoint_lang (e : RE) (he : e.WF) (w : List ℕ) (hw : WFs w) :
    w ∈ e.complement.lang ↔ w ∉ e.lang := by
  rw [complement_lang e he]
  exact ⟨fun h => h.2, fun h => ⟨hw, h⟩⟩

theorem complement_lang_ne (e : RE) (he : e.WF) : e.complement.lang ≠ e.lang := by
  intro h
  have := complement_no_fixpoint_lang e he [] WFs_nil
  rw [h] at this
  by_cases hm : [] ∈ e.lang
  · exact this.1 hm hm
  · exact hm (this.2 hm)

/-- at program level: `re.comp (re.comp p)` builds the very same term as `p` -/
theorem comp_comp_build {ord : RE → Nat} (hp : PairSound ord) (p : Prog) (hw : p.WFIn) :
    build ord (.comp (.comp p)) = build ord p := by
  rw [build, build]
  cases h : build ord p with
  | none => rfl
  | some e =>
    simp only [Option.map_some]
    rw [complement_involutive_built hp p hw e h]

/-! ### the denoted language does not depend on the history of the manager -/

/-- T:language_history_independent — for ALL id assignments `ord₁ ord₂` satisfying `PairSound`
    (every reachable manager state satisfies it: `C07Store.pair_sound`), the terms built for the
    same program denote the same language (they may be different trees: operand order, surviving
    duplicates) -/
theorem language_history_independent {ord₁ ord₂ : RE → Nat} (h₁ : PairSound ord₁)
    (h₂ : PairSound ord₂) (p : Prog) (hw : p.WFIn) (e₁ e₂ : RE)
    (b₁ : build ord₁ p = some e₁) (b₂ : build ord₂ p = some e₂) : e₁.lang = e₂.lang := by
  rw [build_denote h₁ p hw e₁ b₁, build_denote h₂ p hw e₂ b₂]

/-- … hence `str_in_re` answers the same under both histories, for every SMT string -/
theorem membership_history_independent {ord₁ ord₂ : RE → Nat} (h₁ : PairSound ord₁)
    (h₂ : PairSound ord₂) (p : Prog) (hw : p.WFIn) (e₁ e₂ : RE)
    (b₁ : build ord₁ p = some e₁) (b₂ : build ord₂ p = some e₂) (w : List ℕ) (hws : WFs w) :
    strInRe ord₁ w e₁ = strInRe ord₂ w e₂ :=
  str_in_re_congr h₁ h₂ p p hw hw e₁ e₂ b₁ b₂ rfl w hws

/-- … and the public nullable flag is the same -/
theorem nullable_history_independent {ord₁ ord₂ : RE → Nat} (h₁ : PairSound ord₁)
    (h₂ : PairSound ord₂) (p : Prog) (hw : p.WFIn) (e₁ e₂ : RE)
    (b₁ : build ord₁ p = some e₁) (b₂ : build ord₂ p = some e₂) : e₁.nullable = e₂.nullable := by
  have n1 := nullable_flag h₁ p hw e₁ b₁
  have n2 := nullable_flag h₂ p hw e₂ b₂
  cases x : e₁.nullable <;> cases y : e₂.nullable <;> simp_all

/-- whether a construction panics does not depend on the history (no hypothesis on the ids) -/
theorem build_some_independent (ord₁ ord₂ : RE → Nat) (p : Prog) :
    build ord₁ p = Option.none ↔ build ord₂ p = Option.none := by
  rw [build_none_iff ord₁ p, build_none_iff ord₂ p]

/-! ### identical constructions give the identical tree -/

/-- T:construction_deterministic, one call — each id-dependent constructor is a function of the
    id assignment restricted to the flattened operands of that call (`concat`, `mk_loop`,
    `complement`, … do not read ids at all).  No `PairSound`, no well-formedness needed. -/
theorem constructor_call_deterministic {ord₁ ord₂ : RE → Nat} :
    (∀ a b, (∀ y ∈ flattenUnion a ++ flattenUnion b, ord₁ y = ord₂ y) →
      mkUnion ord₁ a b = mkUnion ord₂ a b) ∧
    (∀ l, (∀ y ∈ l.flatMap flattenUnion, ord₁ y = ord₂ y) →
      mkUnionList ord₁ l = mkUnionList ord₂ l) ∧
    (∀ a b, (∀ y ∈ flattenInter a ++ flattenInter b, ord₁ y = ord₂ y) →
      mkInter ord₁ a b = mkInter ord₂ a b) ∧
    (∀ l, (∀ y ∈ l.flatMap flattenInter, ord₁ y = ord₂ y) →
      mkInterList ord₁ l = mkInterList ord₂ l) ∧
    (∀ a b, (∀ y ∈ flattenInter a ++ flattenInter b.complement, ord₁ y = ord₂ y) →
      mkDiff ord₁ a b = mkDiff ord₂ a b) ∧
    (∀ a l, (∀ y ∈ flattenInter a ++ l.flatMap (fun r => flattenInter r.complement),
        ord₁ y = ord₂ y) → mkDiffList ord₁ a l = mkDiffList ord₂ a l) :=
  ⟨mkUnion_deterministic, mkUnionList_deterministic, mkInter_deterministic,
    mkInterList_deterministic, mkDiff_deterministic, mkDiffList_deterministic⟩

/-- the operand terms of a unary / binary call whose arguments evaluated without panic -/
def reads1 {α : Type} (f : α → List RE) : Option α → List RE
  | some a => f a
  | Option.none => []
def reads2 {α β : Type} (f : α → β → List RE) : Option α → Option β → List RE
  | some a, some b => f a b
  | _, _ => []

mutual
/-- the terms whose ids are read while running a program under `ord`: the flattened operands of
    every union / intersection / difference call (all of them sub-terms of the arguments of that
    call or their complements, i.e. terms that exist in the manager when the call is made) -/
def idReads (ord : RE → Nat) : Prog → List RE
  | .none => []
  | .all => []
  | .allchar => []
  | .eps => []
  | .sigmaPlus => []
  | .range _ _ => []
  | .char _ => []
  | .smtRange _ _ => []
  | .str _ => []
  | .charSet _ => []
  | .concat p q => idReads ord p ++ idReads ord q
  | .concatList ps => idReadsList ord ps
  | .union p q => idReads ord p ++ idReads ord q ++
      reads2 (fun a b => flattenUnion a ++ flattenUnion b) (build ord p) (build ord q)
  | .unionList ps => idReadsList ord ps ++
      reads1 (fun l => l.flatMap flattenUnion) (buildList ord ps)
  | .inter p q => idReads ord p ++ idReads ord q ++
      reads2 (fun a b => flattenInter a ++ flattenInter b) (build ord p) (build ord q)
  | .interList ps => idReadsList ord ps ++
      reads1 (fun l => l.flatMap flattenInter) (buildList ord ps)
  | .comp p => idReads ord p
  | .diff p q => idReads ord p ++ idReads ord q ++
      reads2 (fun a b => flattenInter a ++ flattenInter b.complement) (build ord p) (build ord q)
  | .diffList p qs => idReads ord p ++ idReadsList ord qs ++
      reads2 (fun a l => flattenInter a ++ l.flatMap (fun r => flattenInter r.complement))
        (build ord p) (buildList ord qs)
  | .star p => idReads ord p
  | .plus p => idReads ord p
  | .opt p => idReads ord p
  | .exp p _ => idReads ord p
  | .smtLoop p _ _ => idReads ord p
  | .mkLoop p _ => idReads ord p
def idReadsList (ord : RE → Nat) : List Prog → List RE
  | [] => []
  | p :: ps => idReads ord p ++ idReadsList ord ps
end

section
variable {ord₁ ord₂ : RE → Nat}

private theorem agree_left {l m : List RE} (h : ∀ y ∈ l ++ m, ord₁ y = ord₂ y) :
    ∀ y ∈ l, ord₁ y = ord₂ y := fun y hy => h y (List.mem_append_left _ hy)
private theorem agree_right {l m : List RE} (h : ∀ y ∈ l ++ m, ord₁ y = ord₂ y) :
    ∀ y ∈ m, ord₁ y = ord₂ y := fun y hy => h y (List.mem_append_right _ hy)

/-- a binary id-dependent call: same arguments, ids agreeing on the operands read -/
private theorem call2_congr {α β : Type} (f₁ f₂ : α → β → RE) (g : α → β → List RE)
    (x : Option α) (y : Option β)
    (hf : ∀ a b, (∀ z ∈ g a b, ord₁ z = ord₂ z) → f₁ a b = f₂ a b)
    (h : ∀ z ∈ reads2 g x y, ord₁ z = ord₂ z) : call2 f₁ x y = call2 f₂ x y := by
  cases x with
  | none => rfl
  | some a =>
    cases y with
    | none => rfl
    | some b => simp only [call2]; rw [hf a b h]

private theorem map_congr {α : Type} (f₁ f₂ : α → RE) (g : α → List RE) (x : Option α)
    (hf : ∀ a, (∀ z ∈ g a, ord₁ z = ord₂ z) → f₁ a = f₂ a)
    (h : ∀ z ∈ reads1 g x, ord₁ z = ord₂ z) : x.map f₁ = x.map f₂ := by
  cases x with
  | none => rfl
  | some a => simp only [Option.map_some]; rw [hf a h]

mutual
/-- T:construction_deterministic — running the same program under two id assignments that agree
    on the ids the calls read (e.g. the manager now and the same manager after any amount of
    unrelated work: ids never change, `C07Store.make_stable`) builds the very same tree, and panics
    in the same cases -/
theorem construction_deterministic_built :
    ∀ (p : Prog), (∀ y ∈ idReads ord₁ p, ord₁ y = ord₂ y) → build ord₁ p = build ord₂ p
  | .none, _ => by simp only [build]
  | .all, _ => by simp only [build]
  | .allchar, _ => by simp only [build]
  | .eps, _ => by simp only [build]
  | .sigmaPlus, _ => by simp only [build]
  | .range _ _, _ => by simp only [build]
  | .char _, _ => by simp only [build]
  | .smtRange _ _, _ => by simp only [build]
  | .str _, _ => by simp only [build]
  | .charSet _, _ => by simp only [build]
  | .concat p q, h => by
      simp only [idReads] at h
      rw [build, build, construction_deterministic_built p (agree_left h),
        construction_deterministic_built q (agree_right h)]
  | .concatList ps, h => by
      simp only [idReads] at h
      rw [build, build, constructionList_deterministic_built ps h]
  | .union p q, h => by
      simp only [idReads] at h
      have e1 := construction_deterministic_built p (agree_left (agree_left h))
      have e2 := construction_deterministic_built q (agree_right (agree_left h))
      rw [build, build, ← e1, ← e2]
      exact call2_congr _ _ _ _ _ (fun a b => mkUnion_deterministic a b) (agree_right h)
  | .unionList ps, h => by
      simp only [idReads] at h
      have e1 := constructionList_deterministic_built ps (agree_left h)
      rw [build, build, ← e1]
      exact map_congr _ _ _ _ (fun l => mkUnionList_deterministic l) (agree_right h)
  | .inter p q, h => by
      simp only [idReads] at h
      have e1 := construction_deterministic_built p (agree_left (agree_left h))
      have e2 := construction_deterministic_built q (agree_right (agree_left h))
      rw [build, build, ← e1, ← e2]
      exact call2_congr _ _ _ _ _ (fun a b => mkInter_deterministic a b) (agree_right h)
  | .interList ps, h => by
      simp only [idReads] at h
      have e1 := constructionList_deterministic_built ps (agree_left h)
      rw [build, build, ← e1]
      exact map_congr _ _ _ _ (fun l => mkInterList_deterministic l) (agree_right h)
  | .comp p, h => by
      simp only [idReads] at h
      rw [build, build, construction_deterministic_built p h]
  | .diff p q, h => by
      simp only [idReads] at h
      have e1 := construction_deterministic_built p (agree_left (agree_left h))
      have e2 := construction_deterministic_built q (agree_right (agree_left h))
      rw [build, build, ← e1, ← e2]
      exact call2_congr _ _ _ _ _ (fun a b => mkDiff_deterministic a b) (agree_right h)
  | .diffList p qs, h => by
      simp only [idReads] at h
      have e1 := construction_deterministic_built p (agree_left (agree_left h))
      have e2 := constructionList_deterministic_built qs (agree_right (agree_left h))
      rw [build, build, ← e1, ← e2]
      exact call2_congr _ _ _ _ _ (fun a l => mkDiffList_deterministic a l) (agree_right h)
  | .star p, h => by
      simp only [idReads] at h
      rw [build, build, construction_deterministic_built p h]
  | .plus p, h => by
      simp only [idReads] at h
      rw [build, build, construction_deterministic_built p h]
  | .opt p, h => by
      simp only [idReads] at h
      rw [build, build, construction_deterministic_built p h]
  | .exp p _, h => by
      simp only [idReads] at h
      rw [build, build, construction_deterministic_built p h]
  | .smtLoop p _ _, h => by
      simp only [idReads] at h
      rw [build, build, construction_deterministic_built p h]
  | .mkLoop p _, h => by
      simp only [idReads] at h
      rw [build, build, construction_deterministic_built p h]
theorem constructionList_deterministic_built :
    ∀ (ps : List Prog), (∀ y ∈ idReadsList ord₁ ps, ord₁ y = ord₂ y) →
      buildList ord₁ ps = buildList ord₂ ps
  | [], _ => by simp only [buildList]
  | p :: ps, h => by
      simp only [idReadsList] at h
      rw [buildList, buildList, construction_deterministic_built p (agree_left h),
        constructionList_deterministic_built ps (agree_right h)]
end

/-- corollary: id assignments that agree everywhere (the trivial case) -/
theorem construction_deterministic_of_agree (h : ∀ x, ord₁ x = ord₂ x) (p : Prog) :
    build ord₁ p = build ord₂ p :=
  construction_deterministic_built p (fun y _ => h y)

/-- programs that make no union / intersection / difference call build the same tree under every
    history whatsoever -/
theorem construction_deterministic_no_reads (p : Prog) (h : idReads ord₁ p = []) :
    build ord₁ p = build ord₂ p :=
  construction_deterministic_built p (fun y hy => by rw [h] at hy; cases hy)

end

/-! ### non-vacuity -/

section Example

/-- two histories that really differ: under `ordEx` the operands of `[b-x] ∩ [a-c]` are sorted by
    id, under the constant assignment they stay in call order — different trees … -/
private def pI : Prog := .inter (.range 98 120) (.range 97 99)
example : build ordEx pI = some (.inter [exA, exB]) := by decide
example : build (fun _ => 1) pI = some (.inter [exB, exA]) := by decide

/-- … with the same language, the same membership answers, the same flag -/
example : (RE.inter [exA, exB]).lang = (RE.inter [exB, exA]).lang :=
  language_history_independent ordEx_pairSound one_pairSound pI (by decide) _ _ (by decide) (by decide)
example : strInRe ordEx [98] (.inter [exA, exB]) = strInRe (fun _ => 1) [98] (.inter [exB, exA]) :=
  membership_history_independent ordEx_pairSound one_pairSound pI (by decide) _ _ (by decide)
    (by decide) [98] (wfs_of _ (by decide))

/-- the ids read by this program are exactly the two operands; an id assignment that agrees with
    `ordEx` on them (and is arbitrary elsewhere) rebuilds the identical tree -/
example : idReads ordEx pI = [exB, exA] := by decide
example (ord₂ : RE → Nat) (h1 : ord₂ exA = 0) (h2 : ord₂ exB = 2) :
    build ord₂ pI = some (.inter [exA, exB]) := by
  rw [← construction_deterministic_built (ord₁ := ordEx) pI (by
    intro y hy
    have : y = exB ∨ y = exA := by
      have : idReads ordEx pI = [exB, exA] := by decide
      rw [this] at hy; simpa using hy
    rcases this with rfl | rfl
    · rw [h2]; decide
    · rw [h1]; decide)]
  decide

/-- complement twice on built terms; no fixed point -/
example : (RE.inter [exA, exB]).complement.complement = .inter [exA, exB] :=
  complement_involutive_built ordEx_pairSound pI (by decide) _ (by decide)
example : build ordEx (.comp (.comp pI)) = build ordEx pI := comp_comp_build ordEx_pairSound pI (by decide)
example : RE.sigmaStar.complement = .empty ∧ RE.empty.complement = RE.sigmaStar ∧
    RE.sigmaPlus.complement = .epsilon ∧ RE.epsilon.complement = RE.sigmaPlus := by decide

end Example

end Smt.C07Tree
