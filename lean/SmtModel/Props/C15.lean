/-
  C15 — LoopRange arithmetic equals arithmetic on the integer sets it denotes.

  Property theorems only (DESIGN.md §7 C15).  A loop range is read as the set of naturals it
  contains (`Mem`); `kfold r k` is the set of sums of `k` members of `r`.  Every theorem is for all
  well-formed ranges (`LoopRange.WF`: start ≤ stop, both fit in u32; an infinite range only needs
  its start to fit) and for all naturals.  `none` in the model is the arithmetic-overflow panic of
  `add32` / `mul32`; for each `Option`-valued operation there is an `…_none_iff` theorem saying
  that `none` occurs exactly when the named intermediate product/sum exceeds `u32::MAX`.
-/
import SmtModel.Model.LoopRange
import SmtModel.Proofs.LoopRange

namespace Smt.C15
open Smt LoopRange LoopRangeProofs

/-! ### Specification -/

/-- set-theoretic meaning of a loop range: finite interval or upward-infinite -/
def Mem (n : Nat) (r : LoopRange) : Prop :=
  r.start ≤ n ∧ match r.stop with | none => True | some j => n ≤ j

/-- `n` is a sum of `k` members of `r` -/
def kfold (r : LoopRange) (k n : Nat) : Prop :=
  ∃ xs : List Nat, xs.length = k ∧ (∀ x ∈ xs, Mem x r) ∧ xs.sum = n

/-- the set denoted by a loop of a loop: union over `y ∈ s` of the `y`-fold sums of `r` -/
def unionKfold (r s : LoopRange) (n : Nat) : Prop := ∃ y, Mem y s ∧ kfold r y n

/-! ### small facts about the checked arithmetic -/

theorem add32_some {x y z : Nat} : add32 x y = some z ↔ x + y ≤ U32_MAX ∧ z = x + y := by
  unfold add32; split <;> simp_all <;> omega

theorem add32_none {x y : Nat} : add32 x y = none ↔ U32_MAX < x + y := by
  unfold add32; split <;> simp_all <;> omega

theorem mul32_some {x y z : Nat} : mul32 x y = some z ↔ x * y ≤ U32_MAX ∧ z = x * y := by
  unfold mul32; split <;> simp_all <;> omega

theorem mul32_none {x y : Nat} : mul32 x y = none ↔ U32_MAX < x * y := by
  unfold mul32; split <;> simp_all <;> omega

theorem mem_fin (a e n : Nat) : Mem n ⟨a, some e⟩ ↔ a ≤ n ∧ n ≤ e := Iff.rfl
theorem mem_inf (a n : Nat) : Mem n ⟨a, none⟩ ↔ a ≤ n := by simp [Mem]
theorem wf_fin (a e : Nat) : WF ⟨a, some e⟩ ↔ a ≤ U32_MAX ∧ a ≤ e ∧ e ≤ U32_MAX := Iff.rfl
theorem wf_inf (a : Nat) : WF ⟨a, none⟩ ↔ a ≤ U32_MAX := by simp [WF]

/-! ### k-fold sums of a range are an interval -/

theorem kfold_fin (a e k n : Nat) (hae : a ≤ e) :
    kfold ⟨a, some e⟩ k n ↔ k * a ≤ n ∧ n ≤ k * e := by
  constructor
  · rintro ⟨xs, hl, hm, hs⟩
    subst hl; subst hs
    exact ⟨sum_lower a xs (fun x hx => (hm x hx).1), sum_upper e xs (fun x hx => (hm x hx).2)⟩
  · rintro ⟨h1, h2⟩
    obtain ⟨xs, hl, hm, hs⟩ := exists_list_fin a e hae k n h1 h2
    exact ⟨xs, hl, fun x hx => (mem_fin a e x).2 (hm x hx), hs⟩

theorem kfold_inf (a k n : Nat) :
    kfold ⟨a, none⟩ k n ↔ (k = 0 ∧ n = 0) ∨ (0 < k ∧ k * a ≤ n) := by
  constructor
  · rintro ⟨xs, hl, hm, hs⟩
    subst hl; subst hs
    cases xs with
    | nil => left; simp
    | cons x xs =>
      right
      refine ⟨by simp, sum_lower a (x :: xs) (fun y hy => ((mem_inf a y).1 (hm y hy)))⟩
  · rintro (⟨rfl, rfl⟩ | ⟨hk, h⟩)
    · exact ⟨[], rfl, by simp, rfl⟩
    · obtain ⟨k', rfl⟩ : ∃ k', k = k' + 1 := ⟨k - 1, by omega⟩
      obtain ⟨xs, hl, hm, hs⟩ := exists_list_inf a k' n h
      exact ⟨xs, hl, fun x hx => (mem_inf a x).2 (hm x hx), hs⟩

/-- the 0-fold sum is `{0}` and the 1-fold sum is the range itself (sanity of the spec) -/
theorem kfold_zero (r : LoopRange) (n : Nat) : kfold r 0 n ↔ n = 0 := by
  constructor
  · rintro ⟨xs, hl, _, hs⟩
    have : xs = [] := List.eq_nil_of_length_eq_zero hl
    subst this; simpa using hs.symm
  · rintro rfl; exact ⟨[], rfl, by simp, rfl⟩

theorem kfold_one (r : LoopRange) (n : Nat) : kfold r 1 n ↔ Mem n r := by
  constructor
  · rintro ⟨xs, hl, hm, hs⟩
    match xs, hl with
    | [x], _ =>
      have : x = n := by simpa using hs
      subst this; exact hm x (by simp)
  · intro h; exact ⟨[n], rfl, by simpa using h, by simp⟩

/-! ### contains / includes -/

theorem contains_spec (r : LoopRange) (i : Nat) : r.contains i = true ↔ Mem i r := by
  obtain ⟨a, st⟩ := r
  cases st <;> simp [contains, Mem]

theorem includes_spec (r s : LoopRange) (hs : s.WF) :
    r.includes s = true ↔ ∀ n, Mem n s → Mem n r := by
  obtain ⟨a, st⟩ := r
  obtain ⟨c, st'⟩ := s
  cases st with
  | none =>
    simp only [includes, decide_eq_true_eq, mem_inf]
    constructor
    · intro h n hn; have := hn.1; simp only at this; omega
    · intro h
      refine h c ⟨Nat.le_refl _, ?_⟩
      cases st' with
      | none => trivial
      | some d => exact ((wf_fin c d).1 hs).2.1
  | some b =>
    cases st' with
    | none =>
      simp only [includes, mem_inf, mem_fin]
      constructor
      · intro h; cases h
      · intro h
        have := h (max c (b + 1)) (by omega)
        omega
    | some d =>
      have hcd := ((wf_fin c d).1 hs).2.1
      simp only [includes, mem_fin, Bool.and_eq_true, decide_eq_true_eq]
      constructor
      · intro h n hn; omega
      · intro h
        have h1 := h c ⟨Nat.le_refl _, hcd⟩
        have h2 := h d ⟨hcd, Nat.le_refl _⟩
        omega

/-! ### add -/

/-- what `add` returns, by cases (used below) -/
theorem add_cases (r s t : LoopRange) (h : r.add s = some t) :
    r.start + s.start ≤ U32_MAX ∧
    ((∃ b d, r.stop = some b ∧ s.stop = some d ∧ b + d ≤ U32_MAX ∧
        t = ⟨r.start + s.start, some (b + d)⟩) ∨
     ((r.stop = none ∨ s.stop = none) ∧ t = ⟨r.start + s.start, none⟩)) := by
  obtain ⟨a, st⟩ := r
  obtain ⟨c, st'⟩ := s
  cases st with
  | none =>
    simp only [add, Option.bind_eq_bind, Option.bind_eq_some_iff, Option.pure_def,
      Option.some.injEq, add32_some] at h
    obtain ⟨i, ⟨h1, rfl⟩, rfl⟩ := h
    exact ⟨h1, Or.inr ⟨Or.inl rfl, rfl⟩⟩
  | some b =>
    cases st' with
    | none =>
      simp only [add, Option.bind_eq_bind, Option.bind_eq_some_iff, Option.pure_def,
        Option.some.injEq, add32_some] at h
      obtain ⟨i, ⟨h1, rfl⟩, rfl⟩ := h
      exact ⟨h1, Or.inr ⟨Or.inr rfl, rfl⟩⟩
    | some d =>
      simp only [add, Option.bind_eq_bind, Option.bind_eq_some_iff, Option.pure_def,
        Option.some.injEq, add32_some] at h
      obtain ⟨i, ⟨h1, rfl⟩, j, ⟨h2, rfl⟩, rfl⟩ := h
      exact ⟨h1, Or.inl ⟨b, d, rfl, rfl, h2, rfl⟩⟩

theorem add_spec (r s t : LoopRange) (hr : r.WF) (hs : s.WF) (h : r.add s = some t) :
    t.WF ∧ ∀ n, Mem n t ↔ ∃ x y, Mem x r ∧ Mem y s ∧ n = x + y := by
  obtain ⟨h1, hc⟩ := add_cases r s t h
  obtain ⟨a, st⟩ := r
  obtain ⟨c, st'⟩ := s
  simp only at h1 hc
  have hcs : Mem c ⟨c, st'⟩ := by
    cases st' with
    | none => exact (mem_inf c c).2 (Nat.le_refl _)
    | some d => exact (mem_fin c d c).2 ⟨Nat.le_refl _, ((wf_fin c d).1 hs).2.1⟩
  have has : Mem a ⟨a, st⟩ := by
    cases st with
    | none => exact (mem_inf a a).2 (Nat.le_refl _)
    | some d => exact (mem_fin a d a).2 ⟨Nat.le_refl _, ((wf_fin a d).1 hr).2.1⟩
  rcases hc with ⟨b, d, hb, hd, h2, rfl⟩ | ⟨hinf, rfl⟩
  · subst hb; subst hd
    have hab := ((wf_fin a b).1 hr).2.1
    have hcd := ((wf_fin c d).1 hs).2.1
    refine ⟨(wf_fin _ _).2 ⟨h1, by omega, h2⟩, fun n => ?_⟩
    simp only [mem_fin]
    constructor
    · intro hn
      exact ⟨min b (n - c), n - min b (n - c), by omega, by omega, by omega⟩
    · rintro ⟨x, y, hx, hy, rfl⟩; omega
  · refine ⟨(wf_inf _).2 h1, fun n => ?_⟩
    rw [mem_inf]
    constructor
    · intro hn
      rcases hinf with rfl | rfl
      · exact ⟨n - c, c, (mem_inf _ _).2 (by omega), hcs, by omega⟩
      · exact ⟨a, n - a, has, (mem_inf _ _).2 (by omega), by omega⟩
    · rintro ⟨x, y, hx, hy, rfl⟩
      have := hx.1; have := hy.1
      simp only at *; omega

/-- `add` panics exactly when a bound of the true sum interval does not fit in u32
    (the lower bound is computed first; the upper one only when both ranges are finite) -/
theorem add_none_iff (r s : LoopRange) :
    r.add s = none ↔
      U32_MAX < r.start + s.start ∨ ∃ a b, r.stop = some a ∧ s.stop = some b ∧ U32_MAX < a + b := by
  obtain ⟨a, st⟩ := r
  obtain ⟨c, st'⟩ := s
  by_cases h1 : a + c ≤ U32_MAX
  · cases st with
    | none => simp [add, add32, h1]
    | some b =>
      cases st' with
      | none => simp [add, add32, h1]
      | some d =>
        by_cases h2 : b + d ≤ U32_MAX
        · simp [add, add32, h1, h2]
        · simp [add, add32, h1, h2]; omega
  · cases st <;> cases st' <;> simp [add, add32, h1] <;> omega

/-- `add_point x` is `add` of the singleton `[x,x]`: it translates the set by `x` -/
theorem add_point (r t : LoopRange) (x : Nat) (hr : r.WF) (hx : x ≤ U32_MAX)
    (h : r.addPoint x = some t) :
    t.WF ∧ ∀ n, Mem n t ↔ ∃ m, Mem m r ∧ n = m + x := by
  have hp : (point x).WF := (wf_fin x x).2 ⟨hx, Nat.le_refl _, hx⟩
  obtain ⟨hw, hm⟩ := add_spec r (point x) t hr hp h
  refine ⟨hw, fun n => ?_⟩
  rw [hm n]
  constructor
  · rintro ⟨m, y, hm', hy, rfl⟩
    have : y = x := by have := (mem_fin x x y).1 hy; omega
    subst this; exact ⟨m, hm', rfl⟩
  · rintro ⟨m, hm', rfl⟩
    exact ⟨m, x, hm', (mem_fin x x x).2 ⟨Nat.le_refl _, Nat.le_refl _⟩, rfl⟩

theorem add_point_none_iff (r : LoopRange) (x : Nat) :
    r.addPoint x = none ↔ U32_MAX < r.start + x ∨ ∃ a, r.stop = some a ∧ U32_MAX < a + x := by
  simp [addPoint, add_none_iff, point, finite]

/-! ### scale -/

theorem scale_spec (r t : LoopRange) (k : Nat) (hr : r.WF) (h : r.scale k = some t) :
    t.WF ∧ ∀ n, Mem n t ↔ kfold r k n := by
  obtain ⟨a, st⟩ := r
  by_cases hk : k = 0
  · subst hk
    simp only [scale, beq_self_eq_true, if_true, Option.some.injEq] at h
    subst h
    refine ⟨(wf_fin 0 0).2 ⟨Nat.zero_le _, Nat.le_refl _, Nat.zero_le _⟩, fun n => ?_⟩
    rw [kfold_zero]
    simp only [point, finite, mem_fin]; omega
  · cases st with
    | none =>
      simp only [scale, beq_iff_eq, hk, if_false, Option.bind_eq_bind, Option.bind_eq_some_iff,
        Option.pure_def, Option.some.injEq, mul32_some] at h
      obtain ⟨i, ⟨hi1, rfl⟩, rfl⟩ := h
      refine ⟨(wf_inf _).2 hi1, fun n => ?_⟩
      rw [kfold_inf, Nat.mul_comm k a]
      simp only [infinite, mem_inf]; omega
    | some e =>
      have hae := ((wf_fin a e).1 hr).2.1
      simp only [scale, beq_iff_eq, hk, if_false, Option.bind_eq_bind, Option.bind_eq_some_iff,
        Option.pure_def, Option.some.injEq, mul32_some] at h
      obtain ⟨i, ⟨hi1, rfl⟩, j, ⟨hj1, rfl⟩, rfl⟩ := h
      refine ⟨(wf_fin _ _).2 ⟨hi1, Nat.mul_le_mul_right k hae, hj1⟩, fun n => ?_⟩
      rw [kfold_fin a e k n hae, Nat.mul_comm k a, Nat.mul_comm k e]
      simp only [finite, mem_fin]

/-- `scale` panics exactly when `k ≠ 0` and a bound of the true k-fold sum does not fit in u32 -/
theorem scale_none_iff (r : LoopRange) (k : Nat) :
    r.scale k = none ↔
      k ≠ 0 ∧ (U32_MAX < r.start * k ∨ ∃ e, r.stop = some e ∧ U32_MAX < e * k) := by
  obtain ⟨a, st⟩ := r
  by_cases hk : k = 0
  · simp [scale, hk]
  · by_cases h1 : a * k ≤ U32_MAX
    · cases st with
      | none => simp [scale, hk, mul32, h1]
      | some e =>
        by_cases h2 : e * k ≤ U32_MAX
        · simp [scale, hk, mul32, h1, h2]
        · simp [scale, hk, mul32, h1, h2]; omega
    · cases st <;> simp [scale, hk, mul32, h1] <;> omega

/-! ### shift -/

theorem shift_spec (r : LoopRange) (hr : r.WF) (n : Nat) :
    Mem n r.shift ↔ ∃ m, Mem m r ∧ n = m - 1 := by
  obtain ⟨a, st⟩ := r
  cases a with
  | zero =>
    cases st with
    | none =>
      simp only [shift, infinite, mem_inf]
      exact ⟨fun _ => ⟨n + 1, by omega, by omega⟩, fun _ => Nat.zero_le _⟩
    | some j =>
      cases j with
      | zero =>
        simp only [shift, point, finite, mem_fin]
        constructor
        · intro h; exact ⟨0, by omega, by omega⟩
        · rintro ⟨m, hm, rfl⟩; omega
      | succ j =>
        simp only [shift, finite, mem_fin]
        constructor
        · intro h; exact ⟨n + 1, by omega, by omega⟩
        · rintro ⟨m, hm, rfl⟩; omega
  | succ a =>
    cases st with
    | none =>
      simp only [shift, infinite, mem_inf]
      constructor
      · intro h; exact ⟨n + 1, by omega, by omega⟩
      · rintro ⟨m, hm, rfl⟩; omega
    | some j =>
      have haj := ((wf_fin (a + 1) j).1 hr).2.1
      simp only [shift, finite, mem_fin]
      constructor
      · intro h; exact ⟨n + 1, by omega, by omega⟩
      · rintro ⟨m, hm, rfl⟩; omega

theorem shift_wf (r : LoopRange) (hr : r.WF) : r.shift.WF := by
  obtain ⟨a, st⟩ := r
  cases a with
  | zero =>
    cases st with
    | none => exact (wf_inf 0).2 (Nat.zero_le _)
    | some j =>
      have := (wf_fin 0 j).1 hr
      cases j with
      | zero => exact (wf_fin 0 0).2 ⟨Nat.zero_le _, Nat.le_refl _, Nat.zero_le _⟩
      | succ j => exact (wf_fin 0 (j + 1 - 1)).2 ⟨Nat.zero_le _, Nat.zero_le _, by omega⟩
  | succ a =>
    cases st with
    | none =>
      have := (wf_inf (a + 1)).1 hr
      exact (wf_inf (a + 1 - 1)).2 (by omega)
    | some j =>
      have := (wf_fin (a + 1) j).1 hr
      exact (wf_fin (a + 1 - 1) (j - 1)).2 ⟨by omega, by omega, by omega⟩

/-! ### mul -/

theorem isZero_iff (r : LoopRange) : r.isZero = true ↔ r = ⟨0, some 0⟩ := by
  obtain ⟨a, st⟩ := r
  simp [isZero]

theorem isPoint_iff (r : LoopRange) : r.isPoint = true ↔ r.stop = some r.start := by
  obtain ⟨a, st⟩ := r
  cases st with
  | none => simp [isPoint]
  | some j =>
    simp only [isPoint, beq_iff_eq, Option.some.injEq]
    exact eq_comm

/-- what `mul` returns, by cases (used below) -/
theorem mul_cases (r s t : LoopRange) (h : r.mul s = some t) :
    ((r = ⟨0, some 0⟩ ∨ s = ⟨0, some 0⟩) ∧ t = ⟨0, some 0⟩) ∨
    (r ≠ ⟨0, some 0⟩ ∧ s ≠ ⟨0, some 0⟩ ∧ r.start * s.start ≤ U32_MAX ∧
      ((∃ b d, r.stop = some b ∧ s.stop = some d ∧ b * d ≤ U32_MAX ∧
          t = ⟨r.start * s.start, some (b * d)⟩) ∨
       ((r.stop = none ∨ s.stop = none) ∧ t = ⟨r.start * s.start, none⟩))) := by
  by_cases hz : (r.isZero || s.isZero) = true
  · simp only [mul, hz, if_true, Option.some.injEq] at h
    simp only [Bool.or_eq_true, isZero_iff] at hz
    exact Or.inl ⟨hz, h.symm⟩
  · simp only [mul, hz] at h
    simp only [Bool.or_eq_true, isZero_iff, not_or] at hz
    right
    refine ⟨hz.1, hz.2, ?_⟩
    obtain ⟨a, st⟩ := r
    obtain ⟨c, st'⟩ := s
    cases st with
    | none =>
      simp only [Bool.false_eq_true, if_false, Option.bind_eq_bind, Option.bind_eq_some_iff,
        Option.pure_def, Option.some.injEq, mul32_some] at h
      obtain ⟨i, ⟨h1, rfl⟩, rfl⟩ := h
      exact ⟨h1, Or.inr ⟨Or.inl rfl, rfl⟩⟩
    | some b =>
      cases st' with
      | none =>
        simp only [Bool.false_eq_true, if_false, Option.bind_eq_bind, Option.bind_eq_some_iff,
          Option.pure_def, Option.some.injEq, mul32_some] at h
        obtain ⟨i, ⟨h1, rfl⟩, rfl⟩ := h
        exact ⟨h1, Or.inr ⟨Or.inr rfl, rfl⟩⟩
      | some d =>
        simp only [Bool.false_eq_true, if_false, Option.bind_eq_bind, Option.bind_eq_some_iff,
          Option.pure_def, Option.some.injEq, mul32_some] at h
        obtain ⟨i, ⟨h1, rfl⟩, j, ⟨h2, rfl⟩, rfl⟩ := h
        exact ⟨h1, Or.inl ⟨b, d, rfl, rfl, h2, rfl⟩⟩

/-- the interval returned by `mul` contains every product (it over-approximates the product set) -/
theorem mul_contains_products (r s t : LoopRange) (h : r.mul s = some t) (x y : Nat)
    (hx : Mem x r) (hy : Mem y s) : Mem (x * y) t := by
  rcases mul_cases r s t h with ⟨hz, rfl⟩ | ⟨_, _, _, hc⟩
  · rcases hz with rfl | rfl
    · have := (mem_fin 0 0 x).1 hx
      have : x = 0 := by omega
      subst this; simp [Mem]
    · have := (mem_fin 0 0 y).1 hy
      have : y = 0 := by omega
      subst this; simp [Mem]
  · obtain ⟨a, st⟩ := r
    obtain ⟨c, st'⟩ := s
    have h1 : a * c ≤ x * y := Nat.mul_le_mul hx.1 hy.1
    rcases hc with ⟨b, d, hb, hd, _, rfl⟩ | ⟨_, rfl⟩
    · simp only at hb hd
      subst hb; subst hd
      exact (mem_fin _ _ _).2 ⟨h1, Nat.mul_le_mul hx.2 hy.2⟩
    · exact (mem_inf _ _).2 h1

theorem mul_wf (r s t : LoopRange) (hr : r.WF) (hs : s.WF) (h : r.mul s = some t) : t.WF := by
  rcases mul_cases r s t h with ⟨_, rfl⟩ | ⟨_, _, h1, hc⟩
  · exact (wf_fin 0 0).2 ⟨Nat.zero_le _, Nat.le_refl _, Nat.zero_le _⟩
  · obtain ⟨a, st⟩ := r
    obtain ⟨c, st'⟩ := s
    rcases hc with ⟨b, d, hb, hd, h2, rfl⟩ | ⟨_, rfl⟩
    · simp only at hb hd
      subst hb; subst hd
      exact (wf_fin _ _).2 ⟨h1, Nat.mul_le_mul ((wf_fin a b).1 hr).2.1 ((wf_fin c d).1 hs).2.1, h2⟩
    · exact (wf_inf _).2 h1

/-- a well-formed range contains its start, which is its least element -/
theorem start_least (r : LoopRange) (hr : r.WF) : Mem r.start r ∧ ∀ n, Mem n r → r.start ≤ n := by
  obtain ⟨a, st⟩ := r
  refine ⟨?_, fun n hn => hn.1⟩
  cases st with
  | none => exact (mem_inf a a).2 (Nat.le_refl _)
  | some e => exact (mem_fin a e a).2 ⟨Nat.le_refl _, ((wf_fin a e).1 hr).2.1⟩

/-- `mul` is the interval hull of the product set: it contains every product, its lower bound is
    a product, and its upper bound is a product (finite result) or the products are unbounded
    (infinite result).  With `mul_contains_products` this is the documented `[a*c, b*d]` with
    `0 * ∞ = 0` only for the range `[0,0]`. -/
theorem mul_is_hull (r s t : LoopRange) (hr : r.WF) (hs : s.WF) (h : r.mul s = some t) :
    (∀ x y, Mem x r → Mem y s → Mem (x * y) t) ∧
    (∃ x y, Mem x r ∧ Mem y s ∧ x * y = t.start) ∧
    (match t.stop with
     | some j => ∃ x y, Mem x r ∧ Mem y s ∧ x * y = j
     | none => ∀ N, ∃ x y, Mem x r ∧ Mem y s ∧ N ≤ x * y) := by
  refine ⟨fun x y => mul_contains_products r s t h x y, ?_⟩
  have hra := (start_least r hr).1
  have hsc := (start_least s hs).1
  obtain ⟨a, st⟩ := r
  obtain ⟨c, st'⟩ := s
  have hm := mul_cases _ _ _ h
  simp only at hm hra hsc
  rcases hm with ⟨hz, rfl⟩ | ⟨hrnz, hsnz, _, hc⟩
  · have : a * c = 0 := by
      rcases hz with hz | hz <;> simp only [LoopRange.mk.injEq] at hz <;> obtain ⟨rfl, _⟩ := hz <;> simp
    exact ⟨⟨a, c, hra, hsc, this⟩, ⟨a, c, hra, hsc, this⟩⟩
  · rcases hc with ⟨b, d, hb, hd, _, rfl⟩ | ⟨hinf, rfl⟩
    · subst hb; subst hd
      refine ⟨⟨a, c, hra, hsc, rfl⟩, ⟨b, d, ?_, ?_, rfl⟩⟩
      · exact (mem_fin a b b).2 ⟨((wf_fin a b).1 hr).2.1, Nat.le_refl _⟩
      · exact (mem_fin c d d).2 ⟨((wf_fin c d).1 hs).2.1, Nat.le_refl _⟩
    · refine ⟨⟨a, c, hra, hsc, rfl⟩, fun N => ?_⟩
      -- a member `≥ 1` of a well-formed range other than `[0,0]`
      have pos : ∀ (u : Nat) (su : Option Nat), (LoopRange.mk u su).WF →
          (LoopRange.mk u su) ≠ ⟨0, some 0⟩ → Mem (max u 1) ⟨u, su⟩ := by
        intro u su hw hnz
        cases su with
        | none => exact (mem_inf u _).2 (by omega)
        | some v =>
          have huv := ((wf_fin u v).1 hw).2.1
          have : v ≠ 0 := by
            rintro rfl
            have : u = 0 := by omega
            subst this; exact hnz rfl
          exact (mem_fin u v _).2 ⟨by omega, by omega⟩
      rcases hinf with rfl | rfl
      · refine ⟨max a N, max c 1, (mem_inf a _).2 (by omega), pos c st' hs hsnz, ?_⟩
        have : N * 1 ≤ max a N * max c 1 := Nat.mul_le_mul (by omega) (by omega)
        omega
      · refine ⟨max a 1, max c N, pos a st hr hrnz, (mem_inf c _).2 (by omega), ?_⟩
        have : 1 * N ≤ max a 1 * max c N := Nat.mul_le_mul (by omega) (by omega)
        omega

/-- `mul` panics exactly when neither factor is `[0,0]` and a bound of `[a*c, b*d]` overflows u32 -/
theorem mul_none_iff (r s : LoopRange) :
    r.mul s = none ↔
      r.isZero = false ∧ s.isZero = false ∧
      (U32_MAX < r.start * s.start ∨
        ∃ b d, r.stop = some b ∧ s.stop = some d ∧ U32_MAX < b * d) := by
  obtain ⟨a, st⟩ := r
  obtain ⟨c, st'⟩ := s
  by_cases hz : (LoopRange.mk a st).isZero || (LoopRange.mk c st').isZero
  · have hz' := hz
    simp only [Bool.or_eq_true] at hz'
    simp only [mul, hz, if_true]
    rcases hz' with h | h <;> simp [h]
  · have hz' := hz
    simp only [Bool.or_eq_true, not_or, Bool.not_eq_true] at hz'
    simp only [mul, hz]
    by_cases h1 : a * c ≤ U32_MAX
    · cases st with
      | none => simp [hz'.1, hz'.2, mul32, h1]
      | some b =>
        cases st' with
        | none => simp [hz'.1, hz'.2, mul32, h1]
        | some d =>
          by_cases h2 : b * d ≤ U32_MAX
          · simp [hz'.1, hz'.2, mul32, h1, h2]
          · simp [hz'.1, hz'.2, mul32, h1, h2]; omega
    · cases st <;> cases st' <;> simp [hz'.1, hz'.2, mul32, h1] <;> omega

/-! ### the classification predicates -/

theorem is_finite_spec (r : LoopRange) : r.isFinite = true ↔ ∃ N, ∀ n, Mem n r → n ≤ N := by
  obtain ⟨a, st⟩ := r
  cases st with
  | none =>
    simp only [isFinite, Option.isSome_none, Bool.false_eq_true, false_iff]
    rintro ⟨N, h⟩
    have := h (max a (N + 1)) ((mem_inf a _).2 (by omega))
    omega
  | some e =>
    simp only [isFinite, Option.isSome_some, true_iff]
    exact ⟨e, fun n hn => hn.2⟩

theorem is_infinite_spec (r : LoopRange) : r.isInfinite = true ↔ ¬ ∃ N, ∀ n, Mem n r → n ≤ N := by
  rw [← is_finite_spec]
  obtain ⟨a, st⟩ := r
  cases st <;> simp [isInfinite, isFinite]

theorem is_point_spec (r : LoopRange) (hr : r.WF) :
    r.isPoint = true ↔ ∃ c, ∀ n, Mem n r ↔ n = c := by
  rw [isPoint_iff]
  obtain ⟨a, st⟩ := r
  cases st with
  | none =>
    simp only [reduceCtorEq, false_iff]
    rintro ⟨c, h⟩
    have h1 := (h a).1 ((mem_inf a a).2 (Nat.le_refl _))
    have h2 := (h (a + 1)).1 ((mem_inf a _).2 (by omega))
    omega
  | some e =>
    have hae := ((wf_fin a e).1 hr).2.1
    simp only [Option.some.injEq, mem_fin]
    constructor
    · rintro rfl; exact ⟨e, fun n => by omega⟩
    · rintro ⟨c, h⟩
      have h1 := (h a).1 (by omega)
      have h2 := (h e).1 (by omega)
      omega

theorem is_zero_spec (r : LoopRange) (hr : r.WF) : r.isZero = true ↔ ∀ n, Mem n r ↔ n = 0 := by
  rw [isZero_iff]
  obtain ⟨a, st⟩ := r
  cases st with
  | none =>
    simp only [LoopRange.mk.injEq, reduceCtorEq, and_false, false_iff]
    intro h
    have h1 := (h (a + 1)).1 ((mem_inf a _).2 (by omega))
    omega
  | some e =>
    have hae := ((wf_fin a e).1 hr).2.1
    simp only [LoopRange.mk.injEq, Option.some.injEq, mem_fin]
    constructor
    · rintro ⟨rfl, rfl⟩ n; omega
    · intro h
      have h1 := (h a).1 (by omega)
      have h2 := (h e).1 (by omega)
      omega

theorem is_one_spec (r : LoopRange) (hr : r.WF) : r.isOne = true ↔ ∀ n, Mem n r ↔ n = 1 := by
  obtain ⟨a, st⟩ := r
  cases st with
  | none =>
    simp only [isOne, reduceCtorEq, beq_iff_eq, Bool.and_eq_true]
    constructor
    · rintro ⟨_, h⟩; simp at h
    · intro h
      have h1 := (h (a + 1)).1 ((mem_inf a _).2 (by omega))
      have h2 := (h (a + 2)).1 ((mem_inf a _).2 (by omega))
      omega
  | some e =>
    have hae := ((wf_fin a e).1 hr).2.1
    simp only [isOne, beq_iff_eq, Bool.and_eq_true, Option.some.injEq, mem_fin]
    constructor
    · rintro ⟨rfl, rfl⟩ n; omega
    · intro h
      have h1 := (h a).1 (by omega)
      have h2 := (h e).1 (by omega)
      omega

theorem is_all_spec (r : LoopRange) : r.isAll = true ↔ ∀ n, Mem n r := by
  obtain ⟨a, st⟩ := r
  cases st with
  | none =>
    simp only [isAll, beq_iff_eq, Bool.and_eq_true, beq_self_eq_true, and_true, mem_inf]
    constructor
    · rintro rfl n; exact Nat.zero_le _
    · intro h; have := h 0; omega
  | some e =>
    simp only [isAll, beq_iff_eq, Bool.and_eq_true, mem_fin]
    constructor
    · rintro ⟨_, h⟩; simp at h
    · intro h; have := h (e + 1); omega

/-! ### right_mul_is_exact -/

/-- what `right_mul_is_exact` computes, by cases -/
theorem right_mul_cases (r s : LoopRange) (b : Bool) (h : r.rightMulIsExact s = some b) :
    (s.stop = some s.start ∧ b = true) ∨
    (s.stop ≠ some s.start ∧
      ((r.stop = none ∧ (b = true ↔ (0 < s.start ∨ r.start ≤ 1))) ∨
       (∃ e, r.stop = some e ∧ (b = true ↔ r.start - 1 ≤ s.start * (e - r.start))))) := by
  simp only [rightMulIsExact] at h
  split at h
  · rename_i hp
    simp only [Option.some.injEq] at h
    exact Or.inl ⟨(isPoint_iff s).1 hp, h.symm⟩
  · rename_i hp
    rw [isPoint_iff] at hp
    right
    refine ⟨hp, ?_⟩
    obtain ⟨a, st⟩ := r
    cases st with
    | none =>
      simp only [Option.some.injEq] at h
      left
      refine ⟨rfl, ?_⟩
      subst h
      simp
    | some e =>
      right
      refine ⟨e, rfl, ?_⟩
      simp only [bind, Option.bind] at h
      split at h
      · cases h
      · rename_i p hp'
        obtain ⟨_, rfl⟩ := mul32_some.1 hp'
        simp only [pure, Option.some.injEq] at h
        subst h
        simp

/-- `right_mul_is_exact` panics exactly when `other` is not a point, `self` is finite and the
    product `other.start * (self.end - self.start)` overflows u32 -/
theorem right_mul_none_iff (r s : LoopRange) :
    r.rightMulIsExact s = none ↔
      s.isPoint = false ∧ ∃ e, r.stop = some e ∧ U32_MAX < s.start * (e - r.start) := by
  obtain ⟨a, st⟩ := r
  by_cases hp : s.isPoint
  · simp [rightMulIsExact, hp]
  · cases st with
    | none => simp [rightMulIsExact, hp]
    | some e =>
      by_cases h1 : s.start * (e - a) ≤ U32_MAX
      · simp [rightMulIsExact, hp, mul32, h1]
      · simp [rightMulIsExact, hp, mul32, h1]; omega

/-- when the second range is finite and `mul` does not overflow, neither does `right_mul_is_exact` -/
theorem right_mul_some_of_mul_finite (r s t : LoopRange) (hr : r.WF) (hs : s.WF)
    (hfin : s.stop ≠ none) (h : r.mul s = some t) : ∃ b, r.rightMulIsExact s = some b := by
  cases hx : r.rightMulIsExact s with
  | some b => exact ⟨b, rfl⟩
  | none =>
    exfalso
    obtain ⟨hp, e, he, hov⟩ := (right_mul_none_iff r s).1 hx
    obtain ⟨a, st⟩ := r
    obtain ⟨c, st'⟩ := s
    simp only at he; subst he
    cases st' with
    | none => exact hfin rfl
    | some d =>
      have hcd := ((wf_fin c d).1 hs).2.1
      simp only at hov
      have hm := mul_cases _ _ _ h
      simp only at hm
      rcases hm with ⟨hz, _⟩ | ⟨_, _, _, hc⟩
      · rcases hz with hz | hz
        · simp only [LoopRange.mk.injEq, Option.some.injEq] at hz
          obtain ⟨rfl, rfl⟩ := hz
          simp at hov
        · simp only [LoopRange.mk.injEq, Option.some.injEq] at hz
          obtain ⟨rfl, rfl⟩ := hz
          simp at hov
      · rcases hc with ⟨b', d', hb, hd, h2, _⟩ | ⟨hc, _⟩
        · simp only [Option.some.injEq] at hb hd
          subst hb; subst hd
          have : c * (e - a) ≤ e * d := by
            rw [Nat.mul_comm e d]
            exact Nat.mul_le_mul hcd (Nat.sub_le e a)
          omega
        · rcases hc with hc | hc <;> cases hc

/-- the union of the y-fold sums is always inside the interval returned by `mul` -/
theorem union_subset_mul (r s t : LoopRange) (hr : r.WF) (ht : r.mul s = some t) (n : Nat)
    (hn : unionKfold r s n) : Mem n t := by
  obtain ⟨y, hy, hk⟩ := hn
  obtain ⟨a, st⟩ := r
  obtain ⟨c, st'⟩ := s
  have hcy : c ≤ y := hy.1
  have hm := mul_cases _ _ _ ht
  simp only at hm
  rcases hm with ⟨hz, rfl⟩ | ⟨_, hsz, _, hc⟩
  · rcases hz with hz | hz
    · simp only [LoopRange.mk.injEq] at hz
      obtain ⟨rfl, rfl⟩ := hz
      have := (kfold_fin 0 0 y n (Nat.le_refl _)).1 hk
      exact (mem_fin 0 0 n).2 (by omega)
    · simp only [LoopRange.mk.injEq] at hz
      obtain ⟨rfl, rfl⟩ := hz
      have : y = 0 := by have := (mem_fin 0 0 y).1 hy; omega
      subst this
      have := (kfold_zero _ n).1 hk
      exact (mem_fin 0 0 n).2 (by omega)
  · have hac : a * c ≤ y * a := by rw [Nat.mul_comm a c]; exact Nat.mul_le_mul_right a hcy
    cases st with
    | none =>
      rcases hc with ⟨b, d, hb, _⟩ | ⟨_, rfl⟩
      · cases hb
      · rcases (kfold_inf a y n).1 hk with ⟨rfl, rfl⟩ | ⟨_, h2⟩
        · have : c = 0 := by omega
          subst this
          exact (mem_inf _ _).2 (by simp)
        · exact (mem_inf _ _).2 (by omega)
    | some b =>
      have hab := ((wf_fin a b).1 hr).2.1
      obtain ⟨h1, h2⟩ := (kfold_fin a b y n hab).1 hk
      rcases hc with ⟨b', d, hb, hd, _, rfl⟩ | ⟨_, rfl⟩
      · simp only [Option.some.injEq] at hb hd
        subst hb; subst hd
        have hyd : y ≤ d := ((mem_fin c d y).1 hy).2
        have : y * b ≤ b * d := by rw [Nat.mul_comm b d]; exact Nat.mul_le_mul_right b hyd
        exact (mem_fin _ _ _).2 ⟨by omega, by omega⟩
      · exact (mem_inf _ _).2 (by omega)

/-- the explicit gap element: an element of `mul r s` that is not a y-fold sum of `r` for any
    `y ∈ s`, when `right_mul_is_exact` answers `false` -/
def gapElem (r s : LoopRange) : Nat :=
  match r.stop with
  | none => 1
  | some e => s.start * e + 1

/-- `right_mul_is_exact = false` ⇒ the sets differ, with `gapElem r s` as the witness -/
theorem right_mul_false_gap (r s t : LoopRange) (hr : r.WF) (hs : s.WF)
    (hb : r.rightMulIsExact s = some false) (ht : r.mul s = some t) :
    Mem (gapElem r s) t ∧ ¬ unionKfold r s (gapElem r s) := by
  obtain ⟨a, st⟩ := r
  obtain ⟨c, st'⟩ := s
  have hx := right_mul_cases _ _ false hb
  have hm := mul_cases _ _ _ ht
  simp only at hx hm
  rcases hx with ⟨_, h⟩ | ⟨hnp, hc⟩
  · cases h
  · have hsnz : (LoopRange.mk c st') ≠ ⟨0, some 0⟩ := by
      intro h
      simp only [LoopRange.mk.injEq] at h
      obtain ⟨rfl, rfl⟩ := h
      exact hnp rfl
    rcases hc with ⟨hst, hbb⟩ | ⟨e, hst, hbb⟩
    · -- `r = [a, ∞)`, `c = 0`, `a ≥ 2`: the gap element is 1
      subst hst
      have hca : c = 0 ∧ 2 ≤ a := by
        have : ¬ (0 < c ∨ a ≤ 1) := fun h => by simpa using hbb.2 h
        omega
      obtain ⟨rfl, ha⟩ := hca
      rcases hm with ⟨hz, _⟩ | ⟨_, _, _, hc⟩
      · rcases hz with hz | hz
        · cases hz
        · exact absurd hz hsnz
      · have htt : t = ⟨a * 0, none⟩ := by
          rcases hc with ⟨b, d, hb', _⟩ | ⟨_, rfl⟩
          · cases hb'
          · rfl
        subst htt
        refine ⟨(mem_inf _ _).2 (by simp [gapElem]), ?_⟩
        rintro ⟨y, _, hk⟩
        simp only [gapElem] at hk
        rcases (kfold_inf a y 1).1 hk with ⟨_, h⟩ | ⟨hy, h⟩
        · cases h
        · have : 1 * a ≤ y * a := Nat.mul_le_mul_right a hy
          omega
    · -- `r = [a, e]` finite, `c*(e-a) < a-1`: the gap element is `c*e + 1`
      subst hst
      have hae := ((wf_fin a e).1 hr).2.1
      have hgap : c * (e - a) < a - 1 := by
        have : ¬ (a - 1 ≤ c * (e - a)) := fun h => by simpa using hbb.2 h
        omega
      have hrnz : (LoopRange.mk a (some e)) ≠ ⟨0, some 0⟩ := by
        intro h
        simp only [LoopRange.mk.injEq, Option.some.injEq] at h
        omega
      have hnot : ¬ unionKfold ⟨a, some e⟩ ⟨c, st'⟩ (c * e + 1) := by
        rintro ⟨y, hy, hk⟩
        have hcy : c ≤ y := hy.1
        exact gap_not_covered a e c y hae hgap hcy ((kfold_fin a e y _ hae).1 hk)
      rcases hm with ⟨hz, _⟩ | ⟨_, _, _, hc⟩
      · rcases hz with hz | hz
        · exact absurd hz hrnz
        · exact absurd hz hsnz
      · refine ⟨?_, hnot⟩
        rcases hc with ⟨b', d, hb', hd, _, rfl⟩ | ⟨_, rfl⟩
        · simp only [Option.some.injEq] at hb' hd
          subst hb'; subst hd
          have hcd : c < d := by
            have := ((wf_fin c d).1 hs).2.1
            have : d ≠ c := fun h => hnp (by rw [h])
            omega
          exact (mem_fin _ _ _).2 (gap_in_product a e c d hae hgap hcd)
        · have h0 := Nat.mul_le_mul_left c hae
          exact (mem_inf _ _).2 (by simp only [gapElem]; rw [Nat.mul_comm a c]; omega)

/-- `right_mul_is_exact = true` ⇒ the union of the y-fold sums is exactly the interval `mul r s` -/
theorem right_mul_true_exact (r s t : LoopRange) (hr : r.WF) (hs : s.WF)
    (hb : r.rightMulIsExact s = some true) (ht : r.mul s = some t) (n : Nat) :
    unionKfold r s n ↔ Mem n t := by
  refine ⟨union_subset_mul r s t hr ht n, fun hn => ?_⟩
  obtain ⟨a, st⟩ := r
  obtain ⟨c, st'⟩ := s
  have hcs : Mem c ⟨c, st'⟩ := by
    cases st' with
    | none => exact (mem_inf c c).2 (Nat.le_refl _)
    | some d => exact (mem_fin c d c).2 ⟨Nat.le_refl _, ((wf_fin c d).1 hs).2.1⟩
  have hx := right_mul_cases _ _ true hb
  have hm := mul_cases _ _ _ ht
  simp only at hx hm
  rcases hm with ⟨hz, rfl⟩ | ⟨hrnz, hsnz, _, hc⟩
  · -- one of the ranges is `[0,0]`: both sides are `{0}`
    have hn0 : n = 0 := by have := (mem_fin 0 0 n).1 hn; omega
    subst hn0
    rcases hz with hz | hz
    · simp only [LoopRange.mk.injEq] at hz
      obtain ⟨rfl, rfl⟩ := hz
      exact ⟨c, hcs, (kfold_fin 0 0 c 0 (Nat.le_refl _)).2 (by omega)⟩
    · exact ⟨c, hcs, by
        simp only [LoopRange.mk.injEq] at hz
        obtain ⟨rfl, _⟩ := hz
        exact (kfold_zero _ 0).2 rfl⟩
  · rcases hx with ⟨hpt, _⟩ | ⟨hnp, hcc⟩
    · -- `s = [c,c]`, `c ≠ 0`: the union is the c-fold sum
      subst hpt
      have hc0 : 0 < c := by
        rcases Nat.eq_zero_or_pos c with rfl | h
        · exact absurd rfl hsnz
        · exact h
      refine ⟨c, hcs, ?_⟩
      cases st with
      | none =>
        have htt : t = ⟨a * c, none⟩ := by
          rcases hc with ⟨b, d, hb', _⟩ | ⟨_, rfl⟩
          · cases hb'
          · rfl
        subst htt
        have := (mem_inf _ _).1 hn
        exact (kfold_inf a c n).2 (Or.inr ⟨hc0, by rw [Nat.mul_comm c a]; exact this⟩)
      | some b =>
        have hab := ((wf_fin a b).1 hr).2.1
        have htt : t = ⟨a * c, some (b * c)⟩ := by
          rcases hc with ⟨b', d, hb', hd, _, rfl⟩ | ⟨hc, _⟩
          · simp only [Option.some.injEq] at hb' hd
            subst hb'; subst hd; rfl
          · rcases hc with hc | hc <;> cases hc
        subst htt
        have := (mem_fin _ _ _).1 hn
        exact (kfold_fin a b c n hab).2 (by rw [Nat.mul_comm c a, Nat.mul_comm c b]; exact this)
    · rcases hcc with ⟨hst, hbb⟩ | ⟨e, hst, hbb⟩
      · -- `r = [a, ∞)`, `s` not a point, `c > 0 ∨ a ≤ 1`
        subst hst
        have hcond := hbb.1 trivial
        have htt : t = ⟨a * c, none⟩ := by
          rcases hc with ⟨b, d, hb', _⟩ | ⟨_, rfl⟩
          · cases hb'
          · rfl
        subst htt
        have hn' : a * c ≤ n := (mem_inf _ _).1 hn
        by_cases hc0 : 0 < c
        · exact ⟨c, hcs, (kfold_inf a c n).2 (Or.inr ⟨hc0, by rw [Nat.mul_comm c a]; exact hn'⟩)⟩
        · have hc0' : c = 0 := by omega
          subst hc0'
          have ha1 : a ≤ 1 := by omega
          by_cases hn0 : n = 0
          · subst hn0
            exact ⟨0, hcs, (kfold_zero _ 0).2 rfl⟩
          · -- `1 ∈ s` because `s` starts at 0 and is not the point `[0,0]`
            have h1s : Mem 1 ⟨0, st'⟩ := by
              cases st' with
              | none => exact (mem_inf 0 1).2 (Nat.zero_le _)
              | some d =>
                have : d ≠ 0 := fun h => hnp (by rw [h])
                exact (mem_fin 0 d 1).2 ⟨Nat.zero_le _, by omega⟩
            exact ⟨1, h1s, (kfold_inf a 1 n).2 (Or.inr ⟨Nat.one_pos, by omega⟩)⟩
      · -- `r = [a, e]` finite, no-gap condition holds at `c`
        subst hst
        have hae := ((wf_fin a e).1 hr).2.1
        have hgap : a - 1 ≤ c * (e - a) := hbb.1 trivial
        have he0 : 0 < e := by
          rcases Nat.eq_zero_or_pos e with rfl | h
          · have : a = 0 := by omega
            subst this; exact absurd rfl hrnz
          · exact h
        -- a number of steps `m` after which `(c+m)*e` is above `n`, with `c+m ∈ s`
        have key : ∃ m, n ≤ (c + m) * e ∧ Mem (c + m) ⟨c, st'⟩ ∧ c * a ≤ n := by
          rcases hc with ⟨b', d, hb', hd, _, rfl⟩ | ⟨hc, rfl⟩
          · simp only [Option.some.injEq] at hb' hd
            subst hb'; subst hd
            have hcd := ((wf_fin c d).1 hs).2.1
            have := (mem_fin _ _ _).1 hn
            refine ⟨d - c, ?_, (mem_fin c d _).2 ⟨by omega, by omega⟩, ?_⟩
            · have : c + (d - c) = d := by omega
              rw [this, Nat.mul_comm d e]; exact ‹a * c ≤ n ∧ n ≤ e * d›.2
            · rw [Nat.mul_comm c a]; exact ‹a * c ≤ n ∧ n ≤ e * d›.1
          · have hst' : st' = none := by
              rcases hc with hc | hc
              · cases hc
              · exact hc
            subst hst'
            have := (mem_inf _ _).1 hn
            refine ⟨n, ?_, (mem_inf c _).2 (by omega), ?_⟩
            · have h1 : n * 1 ≤ (c + n) * e := Nat.mul_le_mul (by omega) he0
              omega
            · rw [Nat.mul_comm c a]; exact this
        obtain ⟨m, hm1, hm2, hm3⟩ := key
        obtain ⟨y, hy1, hy2, hy3, hy4⟩ := cover a e c hae hgap m n hm3 hm1
        refine ⟨y, ?_, (kfold_fin a e y n hae).2 ⟨hy3, hy4⟩⟩
        cases st' with
        | none => exact (mem_inf c y).2 hy1
        | some d =>
          have := (mem_fin c d _).1 hm2
          exact (mem_fin c d y).2 ⟨hy1, by omega⟩

/-- **right_mul_is_exact is exact**: it answers `true` exactly when the union over `y ∈ s` of the
    y-fold sums of `r` equals the interval `r.mul s` — the condition under which
    `(loop (loop L a b) c d)` may be flattened to `(loop L (a*c) (b*d))`. -/
theorem right_mul_exact_iff (r s t : LoopRange) (b : Bool) (hr : r.WF) (hs : s.WF)
    (hb : r.rightMulIsExact s = some b) (ht : r.mul s = some t) :
    b = true ↔ ∀ n, (∃ y, Mem y s ∧ kfold r y n) ↔ Mem n t := by
  constructor
  · rintro rfl n
    exact right_mul_true_exact r s t hr hs hb ht n
  · intro h
    cases b with
    | true => rfl
    | false =>
      exfalso
      obtain ⟨h1, h2⟩ := right_mul_false_gap r s t hr hs hb ht
      exact h2 ((h _).2 h1)

/-! ### Non-vacuity: concrete well-formed ranges meeting the hypotheses, every branch -/

-- hypotheses of the theorems are satisfiable, results are the expected intervals
example : (finite 2 3).WF ∧ (infinite 2).WF ∧ (point 0).WF ∧ opt.WF ∧ star.WF ∧ plus.WF ∧
    (finite 4294967295 4294967295).WF ∧ ¬ (finite 3 2).WF ∧ ¬ (infinite 4294967296).WF := by
  decide

example : (finite 2 3).add (finite 4 9) = some (finite 6 12) ∧
    (finite 2 3).add (infinite 5) = some (infinite 7) ∧
    (finite 1 4294967295).add (finite 0 1) = none ∧
    (finite 1 4294967295).add (infinite 0) = some (infinite 1) ∧
    (infinite 4294967295).add (point 1) = none ∧
    (finite 2 3).addPoint 4 = some (finite 6 7) := by
  decide

example : (finite 2 3).scale 0 = some (point 0) ∧ (infinite 2).scale 0 = some (point 0) ∧
    (finite 2 3).scale 4 = some (finite 8 12) ∧ (infinite 2).scale 3 = some (infinite 6) ∧
    (finite 1 65536).scale 65536 = none ∧ (infinite 65536).scale 65536 = none := by
  decide

example : (finite 0 1).mul (finite 3 4) = some (finite 0 4) ∧
    (infinite 5).mul (point 0) = some (point 0) ∧
    (finite 2 3).mul (infinite 2) = some (infinite 4) ∧
    (finite 1 65536).mul (finite 1 65536) = none ∧
    (infinite 65536).mul (infinite 65536) = none := by
  decide

-- right_mul_is_exact: all four branches, both answers, and the overflow
example : (point 2).rightMulIsExact star = some false ∧ gapElem (point 2) star = 1 ∧
    star.rightMulIsExact (point 2) = some true ∧
    (finite 2 3).rightMulIsExact plus = some true ∧
    (finite 3 4).rightMulIsExact (finite 1 5) = some false ∧
      gapElem (finite 3 4) (finite 1 5) = 5 ∧
      (finite 3 4).mul (finite 1 5) = some (finite 3 20) ∧
    (finite 3 4).rightMulIsExact (finite 2 5) = some true ∧
    (infinite 2).rightMulIsExact opt = some false ∧ gapElem (infinite 2) opt = 1 ∧
    plus.rightMulIsExact opt = some true ∧
    (finite 1 4294967295).rightMulIsExact (infinite 2) = none ∧
      (finite 1 4294967295).mul (infinite 2) = some (infinite 2) := by
  decide

-- the spec itself is not degenerate: 5 is a 2-fold sum of [2,3], 7 is not
example : kfold (finite 2 3) 2 5 ∧ ¬ kfold (finite 2 3) 2 7 := by
  constructor
  · exact ⟨[2, 3], rfl, by simp [Mem, finite], rfl⟩
  · intro h
    have := (kfold_fin 2 3 2 7 (by decide)).1 h
    omega

example : (finite 0 3).shift = finite 0 2 ∧ (point 0).shift = point 0 ∧ star.shift = star ∧
    (infinite 4).shift = infinite 3 ∧ (finite 2 5).shift = finite 1 4 ∧
    (finite 2 5).includes (finite 3 4) = true ∧ (finite 2 5).includes (infinite 3) = false ∧
    (infinite 2).includes (finite 2 2) = true ∧ (finite 2 5).contains 5 = true ∧
    (finite 2 5).contains 6 = false := by
  decide

end Smt.C15
