/-
  C07 (refinement, part 2) — EVERY allocating operation of `ReManager` is inside the stateful
  model and refines the pure tree model.

  Props/C07Refine.lean proves the refinement for the constructors, `deriv` / `cached_deriv` with the
  cache, `str_derivative`, `str_in_re` and whole construction programs.  Model/ManagerOps.lean adds
  the remaining operations as state-threading functions `Mgr → args → Mgr × result` (the state goes
  through every derivative call in the order of the Rust, which is what determines the ids), and
  this file proves that each of them refines its pure counterpart (Model/Deriv.lean,
  Model/Closure.lean, Model/Compile.lean, Model/ReplaceRe.lean — the models the language theorems
  C02/C03/C05/C10/C18/C19 are about):

    classDerivativeUnchecked_refines, classDerivative_refines,
    setDerivative_refines, setDerivativeUnchecked_refines     class / set derivatives, with the
                                                              error channel and the panic channel
    iterDerivatives_refines                                   DerivativeIterator run to exhaustion
    isEmptyRe_refines                                         is_empty_re
    getStringPath_refines, getString_refines                  get_string_path, get_string
    startChar_refines, startClass_refines                     start_char, start_class
    compileWithBound_refines, tryCompile_refines, compile_refines
    naiveReSearch_refines, strReplaceRe_refines, strReplaceReAll_refines

  Shape of the statements.  From a state `m` with the invariant and valid argument ids, the
  stateful operation ends in a state `m'` with the invariant, the table only appended to
  (`m.tbl <+: m'.tbl`), and for EVERY later state `m2` (in particular `m'` itself) the pure
  operation evaluated under the id assignment `Mgr.ord m2` on the trees of the arguments
    * for the regex search / replace (no panic channel): returns exactly the stateful result
      (`PlainRefines`);
    * for the searches with a panic channel: EITHER panics OR returns the stateful result with ids
      read as trees (`SearchRefines`: `P (ord m2) ≠ .panic → ResRel …`).  The pure model panics only
      on an invalid class id, which cannot happen for well-formed terms (C19 `iter_no_panic`, C05
      `is_empty_no_panic` / `get_string_no_panic`, C18 `start_char_no_panic`, C02
      `compile_no_panic`: for `e.WF ∧ e.NZ` and `PairSound ord`, the latter being
      `C07Refine.pairSound_of_inv`); conversely the stateful model panics only where the pure one
      does.  Out-of-fuel is mirrored exactly (same fuel, same number of terms popped).
  The quantification over later states is needed because the terms a search sorts are allocated
  WHILE it runs: `union` / `inter` inside a derivative sort by ids that exist only afterwards.

  Helper lemmas: Proofs/ManagerOps.lean, ManagerOpsPath.lean, ManagerOpsStart.lean,
  ManagerOpsSearch.lean, ManagerOpsCompile.lean.
-/
import SmtModel.Props.C07Refine
import SmtModel.Proofs.ManagerOpsCompile

namespace Smt
namespace C07RefineOps
open Smt RE Node MgrInv MgrCons MgrSet MgrDeriv MgrOps C07Refine

/-! ### vocabulary -/

/-- agreement of a stateful search result with a pure one: same channel, values related by `R` -/
def ResRel {α β : Type} (R : α → β → Prop) : Res α → Res β → Prop
  | .ok a, .ok b => R a b
  | .panic, .panic => True
  | .outOfFuel, .outOfFuel => True
  | _, _ => False

/-- what a search `res = opM m args` establishes against the pure search `P ord` -/
structure SearchRefines {α β : Type} (m : Mgr) (res : Mgr × Res α) (R : Mgr → α → β → Prop)
    (P : (RE → Nat) → Res β) : Prop where
  inv : Mgr.Inv res.1
  mono : m.tbl <+: res.1.tbl
  agree : ∀ m2, After res.1 m2 → P m2.ord ≠ .panic → ResRel (R m2) res.2 (P m2.ord)

theorem SearchRefines.after {α β : Type} {m : Mgr} {res : Mgr × Res α} {R : Mgr → α → β → Prop}
    {P : (RE → Nat) → Res β} (h : SearchRefines m res R P) : After m res.1 := ⟨h.mono, h.inv⟩

/-- what an operation without panic channel establishes: the pure operation returns the same value
    under the id assignment of every later state -/
structure PlainRefines {α : Type} (m : Mgr) (res : Mgr × α) (P : (RE → Nat) → α) : Prop where
  inv : Mgr.Inv res.1
  mono : m.tbl <+: res.1.tbl
  agree : ∀ m2, After res.1 m2 → res.2 = P m2.ord

/-- an `Option`-valued derivative entry point (`none` = panic) against the pure one: it panics only
    if the pure one does (under every id assignment); otherwise, whenever the pure one returns a
    tree, the returned id holds that tree -/
def ORefines (m : Mgr) (res : Option (Mgr × Nat)) (P : (RE → Nat) → Option RE) : Prop :=
  match res with
  | none => ∀ ord, P ord = none
  | some r => Mgr.Inv r.1 ∧ m.tbl <+: r.1.tbl ∧ r.2 < r.1.size ∧
      ∀ m2, After r.1 m2 → ∀ t, P m2.ord = some t → m2.toTree r.2 = some t

/-- the same with an error channel: an error is returned exactly when the pure model returns it,
    and then nothing was allocated -/
def ERefines (m : Mgr) (res : Option (Mgr × Except Err Nat))
    (P : (RE → Nat) → Option (Except Err RE)) : Prop :=
  match res with
  | none => ∀ ord, P ord = none
  | some (m', .error err) => m' = m ∧ ∀ ord, P ord = some (.error err)
  | some (m', .ok d) => Mgr.Inv m' ∧ m.tbl <+: m'.tbl ∧ d < m'.size ∧
      ∀ m2, After m' m2 → ∀ r, P m2.ord = some r → ∃ t, r = .ok t ∧ m2.toTree d = some t

/-- a path of `get_string_path` over ids read as a path over trees -/
def PathOf (m : Mgr) (p : List (Nat × ClassId)) (q : List (RE × ClassId)) : Prop :=
  List.Forall₂ (fun x y => m.toTree x.1 = some y.1 ∧ x.2 = y.2) p q

def OptPathOf (m : Mgr) : Option (List (Nat × ClassId)) → Option (List (RE × ClassId)) → Prop
  | none, none => True
  | some p, some q => PathOf m p q
  | _, _ => False

/-! ### bridges from the helper postconditions -/

theorem searchRefines_of_rpost {α β : Type} {m : Mgr} {res : Mgr × Res α}
    {mp : List Node → α → β} {R : Mgr → α → β → Prop} {P : (RE → Nat) → Res β}
    (h : RPost m res mp (fun T => P (ordOf T)))
    (hR : ∀ m2, After res.1 m2 → ∀ a, res.2 = .ok a → R m2 a (mp m2.tbl a)) :
    SearchRefines m res R P := by
  refine ⟨h.inv, h.ext, ?_⟩
  intro m2 h2 hnp
  have hrep : P (ordOf m2.tbl) = .panic ∨ P (ordOf m2.tbl) = res.2.map (mp m2.tbl) :=
    h.rep m2.tbl h2.1 h2.2.ok
  rcases hrep with hp | hp
  · exact absurd hp hnp
  · show ResRel (R m2) res.2 (P (ordOf m2.tbl))
    rw [hp]
    cases hres : res.2 with
    | ok a => exact hR m2 h2 a hres
    | panic => trivial
    | outOfFuel => trivial

theorem plainRefines_of_spost {α : Type} {m : Mgr} {res : Mgr × α} {P : (RE → Nat) → α}
    (h : SPost m res P) : PlainRefines m res P :=
  ⟨h.inv, h.ext, fun m2 h2 => (h.rep m2.tbl h2.1 h2.2.ok).symm⟩

theorem orefines_of_ustep {m : Mgr} {res : Option (Mgr × Nat)} {P : (RE → Nat) → Option RE}
    (h : (res = none ∧ ∀ ord, P ord = none) ∨ ∃ m' d, res = some (m', d) ∧ UStep m m' d P) :
    ORefines m res P := by
  rcases h with ⟨h1, h2⟩ | ⟨m', d, h1, hs⟩
  · subst h1; exact h2
  · subst h1
    refine ⟨hs.inv, hs.ext, hs.valid, ?_⟩
    intro m2 h2 t ht
    have ht' : P (ordOf m2.tbl) = some t := ht
    rcases hs.rep m2.tbl h2.1 h2.2.ok with hn | hsome
    · rw [hn] at ht'; cases ht'
    · rw [hsome] at ht'
      cases ht'
      exact treeOf_treeD h2.2.ok (lt_of_prefix h2.1 hs.valid)

/-- ids of a later table read as trees -/
theorem treesOf_map (m2 : Mgr) (h2 : Mgr.Inv m2) (l : List Nat) (hl : ∀ x ∈ l, x < m2.size) :
    TreesOf m2 l (l.map (treeD m2.tbl)) := by
  induction l with
  | nil => exact .nil
  | cons x xs ih =>
    exact .cons (treeOf_treeD h2.ok (hl x (List.mem_cons_self ..)))
      (ih (fun y hy => hl y (List.mem_cons_of_mem _ hy)))

theorem pathOf_map (m2 : Mgr) (h2 : Mgr.Inv m2) (p : List (Nat × ClassId))
    (hp : ∀ x ∈ p, x.1 < m2.size) : PathOf m2 p (mapPath m2.tbl p) := by
  induction p with
  | nil => exact .nil
  | cons x xs ih =>
    exact .cons ⟨treeOf_treeD h2.ok (hp x (List.mem_cons_self ..)), rfl⟩
      (ih (fun y hy => hp y (List.mem_cons_of_mem _ hy)))

/-! ### class and set derivatives -/

/-- T:classDerivativeUnchecked_refines — `class_derivative_unchecked(e, cid)` through the cache -/
theorem classDerivativeUnchecked_refines (m : Mgr) (h : Mgr.Inv m) (e : Nat) (te : RE)
    (he : m.toTree e = some te) (cid : ClassId) :
    ORefines m (m.classDerivativeUncheckedM e cid) (fun ord => classDerivativeUnchecked ord te cid) :=
  orefines_of_ustep (cachedDerivM_ustep h he cid)

/-- T:setDerivativeUnchecked_refines — `set_derivative_unchecked(e, set)`: the `unwrap` of
    `class_of_set` and `pick_class_rep` panic exactly where the pure model panics -/
theorem setDerivativeUnchecked_refines (m : Mgr) (h : Mgr.Inv m) (e : Nat) (te : RE)
    (he : m.toTree e = some te) (set : CharSet) :
    ORefines m (m.setDerivativeUncheckedM e set) (fun ord => setDerivativeUnchecked ord te set) :=
  orefines_of_ustep (setDerivativeUncheckedM_ustep h he set)

/-- the checked entry points are the unchecked one behind a test on the term's own classes -/
theorem erefines_of_cached {m : Mgr} (h : Mgr.Inv m) {e : Nat} {te : RE}
    (he : m.toTree e = some te) (cid : ClassId) :
    ERefines m ((m.cachedDerivM e cid).map fun r => (r.1, Except.ok r.2))
      (fun ord => (cachedDeriv ord te cid).map Except.ok) := by
  rcases cachedDerivM_ustep h he cid with ⟨h1, h2⟩ | ⟨m', d, h1, hs⟩
  · rw [h1]; intro ord; simp only [h2 ord, Option.map_none]
  · rw [h1]
    refine ⟨hs.inv, hs.ext, hs.valid, ?_⟩
    intro m2 h2 r hr
    have hr' : (cachedDeriv (ordOf m2.tbl) te cid).map Except.ok = some r := hr
    rcases hs.rep m2.tbl h2.1 h2.2.ok with hn | hsome
    · rw [hn] at hr'; cases hr'
    · rw [hsome] at hr'
      cases hr'
      exact ⟨_, rfl, treeOf_treeD h2.2.ok (lt_of_prefix h2.1 hs.valid)⟩

/-- T:classDerivative_refines — `class_derivative(e, cid)`: `Err(BadClassId)` exactly when the pure
    model says so (and then nothing is allocated), otherwise the cached derivative -/
theorem classDerivative_refines (m : Mgr) (h : Mgr.Inv m) (e : Nat) (te : RE)
    (he : m.toTree e = some te) (cid : ClassId) :
    ERefines m (m.classDerivativeM e cid) (fun ord => classDerivative ord te cid) := by
  unfold Mgr.classDerivativeM classDerivative
  rw [derivClass_eq he]
  by_cases hv : te.derivClass.validClassId cid = true
  · simp only [hv, if_true]
    exact erefines_of_cached h he cid
  · simp only [hv, Bool.false_eq_true, if_false]
    exact ⟨rfl, fun _ => rfl⟩

/-- T:setDerivative_refines — `set_derivative(e, set)`: the error of `class_of_set` is returned
    exactly when the pure model returns it, otherwise the cached derivative of the class -/
theorem setDerivative_refines (m : Mgr) (h : Mgr.Inv m) (e : Nat) (te : RE)
    (he : m.toTree e = some te) (set : CharSet) :
    ERefines m (m.setDerivativeM e set) (fun ord => setDerivative ord te set) := by
  unfold Mgr.setDerivativeM setDerivative
  rw [derivClass_eq he]
  cases te.derivClass.classOfSet set with
  | error err => exact ⟨rfl, fun _ => rfl⟩
  | ok cid => exact erefines_of_cached h he cid

/-! ### the derivative closure -/

/-- T:iterDerivatives_refines — **`iter_derivatives(e)` run to exhaustion on the stateful manager
    yields, id for id, the list `RE.iterDerivatives` yields** (BFS order included), for the id
    assignment of every later state; all yielded ids are terms of the resulting table -/
theorem iterDerivatives_refines (fuel : Nat) (m : Mgr) (h : Mgr.Inv m) (e : Nat) (te : RE)
    (he : m.toTree e = some te) :
    SearchRefines m (m.iterDerivativesM fuel e) (fun m2 l ts => TreesOf m2 l ts)
      (fun ord => iterDerivatives ord fuel te) ∧
    ∀ l, (m.iterDerivativesM fuel e).2 = .ok l → ∀ x ∈ l, x < (m.iterDerivativesM fuel e).1.size := by
  obtain ⟨h1, h2⟩ := iterDerivativesM_post fuel h he
  refine ⟨searchRefines_of_rpost h1 ?_, h2⟩
  intro m2 hm2 l hl
  exact treesOf_map m2 hm2.2 l (fun x hx => lt_of_prefix hm2.1 (h2 l hl x hx))

/-- T:isEmptyRe_refines — `is_empty_re(e)` (stops at the first nullable term, after computing its
    derivatives) -/
theorem isEmptyRe_refines (fuel : Nat) (m : Mgr) (h : Mgr.Inv m) (e : Nat) (te : RE)
    (he : m.toTree e = some te) :
    SearchRefines m (m.isEmptyReM fuel e) (fun _ a b => a = b) (fun ord => isEmptyRe ord fuel te) :=
  searchRefines_of_rpost (isEmptyReM_post fuel h he) (fun _ _ _ _ => rfl)

/-- T:getStringPath_refines — `get_string_path(e)`: the same path, node for node and label for
    label -/
theorem getStringPath_refines (fuel : Nat) (m : Mgr) (h : Mgr.Inv m) (e : Nat) (te : RE)
    (he : m.toTree e = some te) :
    SearchRefines m (m.getStringPathM fuel e) OptPathOf (fun ord => getStringPath ord fuel te) := by
  obtain ⟨h1, h2⟩ := getStringPathM_post fuel h he
  refine searchRefines_of_rpost h1 ?_
  intro m2 hm2 o ho
  cases o with
  | none => trivial
  | some p => exact pathOf_map m2 hm2.2 p (fun x hx => lt_of_prefix hm2.1 (h2 p ho x hx))

/-- T:getString_refines — `get_string(e)` returns the very witness the pure model returns -/
theorem getString_refines (fuel : Nat) (m : Mgr) (h : Mgr.Inv m) (e : Nat) (te : RE)
    (he : m.toTree e = some te) :
    SearchRefines m (m.getStringM fuel e) (fun _ a b => a = b) (fun ord => getString ord fuel te) :=
  searchRefines_of_rpost (getStringM_post fuel h he) (fun _ _ _ _ => rfl)

/-! ### `start_char`, `start_class` -/

/-- T:startChar_refines — `start_char(e, c)`: the structural recursion over the node, `any` over
    the operands of a union left to right, derivative + emptiness test for
    Concat / Inter / Complement -/
theorem startChar_refines (fuel : Nat) (m : Mgr) (h : Mgr.Inv m) (e : Nat) (te : RE)
    (he : m.toTree e = some te) (c : Nat) :
    SearchRefines m (m.startCharM fuel e c) (fun _ a b => a = b)
      (fun ord => startChar ord fuel te c) :=
  searchRefines_of_rpost (startCharM_post fuel h he c) (fun _ _ _ _ => rfl)

/-- T:startClass_refines -/
theorem startClass_refines (fuel : Nat) (m : Mgr) (h : Mgr.Inv m) (e : Nat) (te : RE)
    (he : m.toTree e = some te) (cid : ClassId) :
    SearchRefines m (m.startClassM fuel e cid) (fun _ a b => a = b)
      (fun ord => startClass ord fuel te cid) :=
  searchRefines_of_rpost (startClassM_post fuel h he cid) (fun _ _ _ _ => rfl)

/-! ### compilation -/

/-- T:compileWithBound_refines — `compile_with_bound(e, max_states)` builds the SAME automaton
    (same builder calls in the same order, states numbered by BFS discovery) -/
theorem compileWithBound_refines (fuel : Nat) (m : Mgr) (h : Mgr.Inv m) (e : Nat) (te : RE)
    (he : m.toTree e = some te) (maxStates : Nat) :
    SearchRefines m (m.compileWithBoundM fuel e maxStates) (fun _ a b => a = b)
      (fun ord => compileWithBound ord fuel te maxStates) :=
  searchRefines_of_rpost (compileWithBoundM_post fuel h he maxStates) (fun _ _ _ _ => rfl)

/-- T:tryCompile_refines -/
theorem tryCompile_refines (fuel : Nat) (m : Mgr) (h : Mgr.Inv m) (e : Nat) (te : RE)
    (he : m.toTree e = some te) (maxStates : Nat) :
    SearchRefines m (m.tryCompileM fuel e maxStates) (fun _ a b => a = b)
      (fun ord => tryCompile ord fuel te maxStates) :=
  searchRefines_of_rpost (tryCompileM_post fuel h he maxStates) (fun _ _ _ _ => rfl)

/-- T:compile_refines -/
theorem compile_refines (fuel : Nat) (m : Mgr) (h : Mgr.Inv m) (e : Nat) (te : RE)
    (he : m.toTree e = some te) :
    SearchRefines m (m.compileM fuel e) (fun _ a b => a = b) (fun ord => compile ord fuel te) :=
  searchRefines_of_rpost (compileM_post fuel h he) (fun _ _ _ _ => rfl)

/-! ### regex search and replace -/

/-- T:naiveReSearch_refines — **`naive_re_search` through the manager (derivatives through the
    cache, stopping at the first nullable / syntactically empty derivative) returns exactly
    `RE.naiveReSearch`** under the id assignment of every later state -/
theorem naiveReSearch_refines (m : Mgr) (h : Mgr.Inv m) (pat : Nat) (tp : RE)
    (hp : m.toTree pat = some tp) (s : List Nat) (k : Nat) (allowEmpty : Bool) :
    PlainRefines m (m.naiveReSearchM pat s k allowEmpty)
      (fun ord => naiveReSearch ord tp s k allowEmpty) :=
  plainRefines_of_spost (naiveReSearchM_post h hp s k allowEmpty)

/-- T:strReplaceRe_refines -/
theorem strReplaceRe_refines (m : Mgr) (h : Mgr.Inv m) (pat : Nat) (tp : RE)
    (hp : m.toTree pat = some tp) (s1 s2 : List Nat) :
    PlainRefines m (m.strReplaceReM s1 pat s2) (fun ord => strReplaceRe ord s1 tp s2) :=
  plainRefines_of_spost (strReplaceReM_post h hp s1 s2)

/-- T:strReplaceReAll_refines -/
theorem strReplaceReAll_refines (m : Mgr) (h : Mgr.Inv m) (pat : Nat) (tp : RE)
    (hp : m.toTree pat = some tp) (s1 s2 : List Nat) :
    PlainRefines m (m.strReplaceReAllM s1 pat s2) (fun ord => strReplaceReAll ord s1 tp s2) :=
  plainRefines_of_spost (strReplaceReAllM_post h hp s1 s2)

/-! ### sessions: a construction program, then a search, after any history -/

/-- T:runProg_isEmptyRe — build a term with any program after any history, then ask `is_empty_re`
    on the stateful manager: unless the pure model panics, the answer is `RE.isEmptyRe` of the tree
    `build` constructs, under the id assignment of the final state -/
theorem runProg_isEmptyRe (fuel : Nat) (m : Mgr) (h : Mgr.Inv m) (p : Prog) (m' : Mgr) (r : Nat)
    (hr : m.runProg p = some (m', r)) :
    ∃ e, (∀ m2, After m' m2 → build m2.ord p = some e) ∧
      SearchRefines m' (m'.isEmptyReM fuel r) (fun _ a b => a = b)
        (fun ord => isEmptyRe ord fuel e) := by
  obtain ⟨e, hp, hB, _⟩ := runProg_refines m h p m' r hr
  exact ⟨e, hB, isEmptyRe_refines fuel m' hp.inv r e hp.tree⟩

/-- T:runProg_naiveReSearch — … and `naive_re_search`: exactly `RE.naiveReSearch` on the tree of
    the program -/
theorem runProg_naiveReSearch (m : Mgr) (h : Mgr.Inv m) (p : Prog) (m' : Mgr) (r : Nat)
    (hr : m.runProg p = some (m', r)) (s : List Nat) (k : Nat) (allowEmpty : Bool) :
    ∃ e, (∀ m2, After m' m2 → build m2.ord p = some e) ∧
      PlainRefines m' (m'.naiveReSearchM r s k allowEmpty)
        (fun ord => naiveReSearch ord e s k allowEmpty) := by
  obtain ⟨e, hp, hB, _⟩ := runProg_refines m h p m' r hr
  exact ⟨e, hB, naiveReSearch_refines m' hp.inv r e hp.tree s k allowEmpty⟩

/-! ### non-vacuity -/

section Examples

/-- `[a-c]` on a fresh manager: id 6; its closure is `[a-c], ε, ∅` = ids 6, 4, 2; the search
    allocates nothing new here (both derivatives are built-in terms), the table has 8 entries -/
private def pR : Prog := .range 97 99

example : (Mgr.new.runProg pR).map (fun r =>
    ((r.1.iterDerivativesM 10 r.2).2, (r.1.iterDerivativesM 10 r.2).1.tbl.length)) =
    some (.ok [6, 4, 2], 8) := by decide
example : (Mgr.new.runProg pR).map (fun r => (r.1.isEmptyReM 10 r.2).2) = some (.ok false) := by
  decide
example : (Mgr.new.runProg pR).map (fun r => (r.1.getStringM 10 r.2).2) = some (.ok (some [97])) := by
  decide
example : (Mgr.new.runProg (.plus pR)).map (fun r => (r.1.startCharM 10 r.2 98).2) =
    some (.ok true) := by decide
example : (Mgr.new.runProg pR).map (fun r => (r.1.classDerivativeM r.2 (.interval 3)).map (·.2)) =
    some (some (.error .BadClassId)) := by decide
example : (Mgr.new.runProg pR).map (fun r => (r.1.classDerivativeM r.2 (.interval 0)).map (·.2)) =
    some (some (.ok 4)) := by decide
/-- out of fuel is mirrored: one pop is not enough -/
example : (Mgr.new.runProg pR).map (fun r => (r.1.iterDerivativesM 1 r.2).2) = some .outOfFuel := by
  decide
/-- the hypothesis of the refinement theorems: the state after the program satisfies the invariant -/
example : ∀ m' r, Mgr.new.runProg pR = some (m', r) → Mgr.Inv m' := fun m' r hr =>
  (runProg_refines _ C07Refine.inv_new pR m' r hr).choose_spec.1.inv

end Examples

end C07RefineOps
end Smt
