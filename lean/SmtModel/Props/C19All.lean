/-
  C19 — umbrella module: the conditional theorems and their discharge (Props/C19.lean,
  Props/C19Final.lean) together with the termination results (Props/C19Term.lean).
  `checks.d/C19.json` audits the theorems of all three through this module.
-/
import SmtModel.Props.C19Term
import SmtModel.Props.C19Final
