/-
  C19 — umbrella module: the conditional theorems and their discharge (Props/C19.lean,
  Props/C19Final.lean) together with the termination results (Props/C19Term.lean: pure model,
  injective id oracle; Props/C19Mgr.lean: the stateful manager model with its evolving ids).
  `checks.d/C19.json` audits the theorems of all of them through this module.
-/
import SmtModel.Props.C19Mgr
import SmtModel.Props.C19Term
import SmtModel.Props.C19Final
