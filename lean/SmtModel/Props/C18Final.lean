/-
  C18 — start_char / start_class are exact: the hypothesis-free form.

  The theorems of Props/C18.lean with their hypothesis bundles discharged
  (Proofs/DerivFactsFinal.lean: C03 derivatives, C05 emptiness, C11/C03 derivative classes):
  for EVERY id assignment `ord` with `PairSound ord` (DESIGN.md §6; proved for every history of a
  manager in C07), every fuel, every well-formed term `e` without a `[0,0]` loop
  (`e.WF ∧ e.NZ`: all terms a manager can build), every character `c ≤ MAX_CHAR`, every class id.

  Still not claimed: that the emptiness search inside `start_char` returns for large enough fuel
  (termination of the derivative closure, C19).
-/
import SmtModel.Props.C18
import SmtModel.Proofs.DerivFactsFinal

namespace Smt.C18.Final
open Smt RE DerivFactsFinal

variable {ord : RE → Nat}

/-- T:start_char_iff -/
theorem start_char_iff (hp : PairSound ord) (fuel : ℕ) (e : RE) (c : ℕ) (b : Bool)
    (h : startChar ord fuel e c = .ok b) (he : e.WF) (hnz : e.NZ) (hc : c ≤ MAX_CHAR) :
    b = true ↔ ∃ w, c :: w ∈ e.lang :=
  C18.start_char_iff (derivFacts hp) (emptyFacts hp) fuel e c b h ⟨he, hnz⟩ hc

/-- T:start_char_no_panic -/
theorem start_char_no_panic (hp : PairSound ord) (fuel : ℕ) (e : RE) (c : ℕ)
    (he : e.WF) (hnz : e.NZ) (hc : c ≤ MAX_CHAR) : startChar ord fuel e c ≠ .panic :=
  C18.start_char_no_panic (derivFacts hp) (emptyFacts hp) fuel e c ⟨he, hnz⟩ hc

/-- T:start_class_spec -/
theorem start_class_spec (hp : PairSound ord) (fuel : ℕ) (e : RE) (cid : ClassId)
    (he : e.WF) (hnz : e.NZ) :
    (e.derivClass.validClassId cid = false →
        startClass ord fuel e cid = .ok (.error .BadClassId)) ∧
    (e.derivClass.validClassId cid = true →
        startClass ord fuel e cid ≠ .panic ∧
        ∀ r, startClass ord fuel e cid = .ok r →
          ∃ b, r = .ok b ∧
            ∀ c, c ≤ MAX_CHAR → e.derivClass.classOfChar c = cid →
              (b = true ↔ ∃ w, c :: w ∈ e.lang)) :=
  C18.start_class_spec (derivFacts hp) (emptyFacts hp) classFacts fuel e cid ⟨he, hnz⟩

/-- `Err(BadClassId)` exactly for the class ids without a character (no `PairSound` needed) -/
theorem start_class_bad_iff (fuel : ℕ) (e : RE) (cid : ClassId) (he : e.WF) (hnz : e.NZ) :
    startClass ord fuel e cid = .ok (.error .BadClassId) ↔
      ¬ ∃ x, x ≤ MAX_CHAR ∧ e.derivClass.classOfChar x = cid :=
  C18.start_class_bad_iff classFacts fuel e cid ⟨he, hnz⟩

/-! ### non-vacuity: an id assignment with `PairSound`, and terms in the domain that reach the
    derivative + emptiness case (`Σ ∩ ab`, the D8 witness; a complement; a concatenation) -/

example : PairSound (fun _ => 1) := fun x y h => by simp at h

private def ab : RE := .concat (.range ⟨97, 97⟩) (.range ⟨98, 98⟩)
example : (RE.inter [sigma, ab]).WF ∧ (RE.inter [sigma, ab]).NZ := by
  refine ⟨?_, by decide⟩
  simp only [ab, sigma, RE.WF, RE.WFList]
  decide
example : (RE.compl ab).WF ∧ (RE.compl ab).NZ := by
  refine ⟨?_, by decide⟩
  simp only [ab, RE.WF]
  decide
example : (RE.loop ab LoopRange.plus).WF ∧ (RE.loop ab LoopRange.plus).NZ := by
  refine ⟨?_, by decide⟩
  simp only [ab, RE.WF, LoopRange.plus, LoopRange.infinite]
  decide

end Smt.C18.Final
