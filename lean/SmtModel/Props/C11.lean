/-
  C11 — CharPartition queries agree with the set-theoretic meaning.

  Property theorems only (DESIGN.md §7 C11); helper lemmas are in Proofs/CharPartition.lean and
  Proofs/PartitionWF.lean.  `x ∈ₛ s` is the set-theoretic meaning of an interval, `InList l x` the
  union of the intervals of a partition.  Every theorem is for ALL partitions satisfying the
  invariant `CharPartition.WF` (any number of intervals, adjacent intervals, intervals touching 0
  or MAX_CHAR, empty and full partitions), ALL naturals `x` (hence all characters) and ALL
  well-formed query sets; `wf_of_constructors` shows that every partition built by `new`,
  `from_set`, `try_from_iter`/`try_from_list` or `push` (under its documented precondition)
  satisfies the invariant.
-/
import SmtModel.Proofs.CharPartition

namespace Smt.C11
open Smt CharPartition

/-- set-theoretic meaning of an interval (same as `C20.Mem`) -/
def Mem (x : Nat) (s : CharSet) : Prop := s.start ≤ x ∧ x ≤ s.stop
local infix:50 " ∈ₛ " => Mem

/-! ### the invariant, spelled out -/

/-- `CharPartition.WF` says: every interval is well formed, consecutive intervals are separated
    (`b_i < a_{i+1}`), and `comp_witness` is the least natural in no interval, at most `MAX_CHAR+1` -/
theorem wf_iff (p : CharPartition) :
    p.WF ↔
      (∀ s ∈ p.list, s.WF) ∧
      (∀ i (h : i + 1 < p.list.length), (p.list[i]'(by omega)).stop < (p.list[i + 1]'h).start) ∧
      p.compWitness ≤ MAX_CHAR + 1 ∧
      (¬ ∃ s ∈ p.list, p.compWitness ∈ₛ s) ∧
      (∀ x, x < p.compWitness → ∃ s ∈ p.list, x ∈ₛ s) := by
  simp only [CharPartition.WF, sorted_iff_consecutive, LeastNonMember, InList, Mem]
  constructor
  · rintro ⟨⟨h1, h2⟩, h3, h4, h5⟩; exact ⟨h1, h2, h3, h4, h5⟩
  · rintro ⟨h1, h2, h3, h4, h5⟩; exact ⟨⟨h1, h2⟩, h3, h4, h5⟩

/-! ### however it was built: every constructor establishes the invariant -/

theorem wf_new : CharPartition.new.WF := CharPartition.wf_new

theorem wf_from_set (c : CharSet) (hc : c.WF) : (fromSet c).WF := by
  have h : fromSet c = CharPartition.new.push c.start c.stop := by
    show (⟨[c], if c.start > 0 then 0 else c.stop + 1⟩ : CharPartition) =
      ⟨[] ++ [⟨c.start, c.stop⟩], if c.start ≤ 0 then c.stop + 1 else 0⟩
    by_cases h0 : c.start > 0
    · rw [if_pos h0, if_neg (by omega)]; rfl
    · rw [if_neg h0, if_pos (by omega)]; rfl
  rw [h]
  exact push_wf CharPartition.wf_new (by simpa [CharPartition.new, sorted_singleton] using hc)

/-- `try_from_iter` / `try_from_list`: a successful result satisfies the invariant and consists of
    exactly the input intervals -/
theorem wf_try_from_list (l : List CharSet) (hl : ∀ c ∈ l, c.WF) (p : CharPartition)
    (h : tryFromList l = .ok p) : p.WF ∧ p.list.Perm l := by
  obtain ⟨h1, h2⟩ := tryFromList_char hl
  by_cases hd : l.Pairwise Disj
  · obtain ⟨w, hw, hwf⟩ := h1 hd
    rw [hw] at h
    cases h
    exact ⟨hwf, sortByStart_perm l⟩
  · rw [h2 hd] at h
    cases h

/-- the two `debug_assert!`s of `push`, as `pushChecked` tests them -/
theorem push_checked_iff (p : CharPartition) (a b : Nat) (q : CharPartition) :
    p.pushChecked a b = some q ↔
      q = p.push a b ∧ a ≤ b ∧ b ≤ MAX_CHAR ∧ ∀ last, p.list.getLast? = some last → last.stop < a := by
  unfold pushChecked
  by_cases hab : a ≤ b ∧ b ≤ MAX_CHAR
  · rw [if_neg (by simpa using hab)]
    cases hl : p.list.getLast? with
    | none =>
      simp only [Option.some.injEq]
      constructor
      · intro h; exact ⟨h.symm, hab.1, hab.2, fun _ h' => by cases h'⟩
      · intro h; exact h.1.symm
    | some last =>
      simp only [Option.some.injEq]
      split
      · rename_i hgt
        constructor
        · intro h
          cases h
          exact ⟨rfl, hab.1, hab.2, fun l' h' => by cases h'; exact hgt⟩
        · intro h; rw [h.1]
      · rename_i hgt
        constructor
        · intro h; cases h
        · intro h; exact absurd (h.2.2.2 last rfl) hgt
  · rw [if_pos (by simpa using hab)]
    constructor
    · intro h; cases h
    · intro h; exact absurd ⟨h.2.1, h.2.2.1⟩ hab

/-- `push` under its documented precondition (`start <= end <= MAX_CHAR`, and `start` larger than
    the end of the last interval if there is one) preserves the invariant -/
theorem wf_push (p : CharPartition) (hp : p.WF) (a b : Nat) (hab : a ≤ b) (hb : b ≤ MAX_CHAR)
    (hlast : ∀ last, p.list.getLast? = some last → last.stop < a) : (p.push a b).WF := by
  apply push_wf hp
  rw [sorted_append]
  refine ⟨hp.1, sorted_singleton.2 ⟨hab, hb⟩, ?_⟩
  intro s hs t ht
  simp only [List.mem_singleton] at ht
  subst ht
  simp only
  cases hl : p.list.getLast? with
  | none =>
    rw [List.getLast?_eq_none_iff] at hl
    rw [hl] at hs
    cases hs
  | some last =>
    have hne : p.list ≠ [] := by
      intro h; rw [h] at hl; cases hl
    have hlast' : p.list.getLast hne = last := by
      have := List.getLast?_eq_some_getLast hne
      rw [hl] at this
      exact (Option.some.inj this).symm
    have hsplit := List.dropLast_concat_getLast hne
    rw [hlast'] at hsplit
    have hsorted := hp.1
    rw [← hsplit] at hsorted hs
    obtain ⟨_, hl1, hlt⟩ := sorted_append.1 hsorted
    have hlw := (sorted_singleton.1 hl1).1
    have := hlast last hl
    rcases List.mem_append.1 hs with hs | hs
    · have := hlt s hs last (by simp); omega
    · simp only [List.mem_singleton] at hs
      subst hs; exact this

/-- partitions obtainable from the public constructors (with `push` called within its
    precondition; in a build with debug assertions a call outside it panics) -/
inductive Built : CharPartition → Prop
  | new : Built CharPartition.new
  | fromSet (c : CharSet) : c.WF → Built (fromSet c)
  | tryFromList (l : List CharSet) (p : CharPartition) :
      (∀ c ∈ l, c.WF) → tryFromList l = .ok p → Built p
  | push (p : CharPartition) (a b : Nat) (q : CharPartition) :
      Built p → p.pushChecked a b = some q → Built q

/-- T:wf_of_constructors — by induction over the constructor sequence -/
theorem wf_of_constructors {p : CharPartition} (h : Built p) : p.WF := by
  induction h with
  | new => exact wf_new
  | fromSet c hc => exact wf_from_set c hc
  | tryFromList l p hl h => exact (wf_try_from_list l hl p h).1
  | push p a b q _ hq ih =>
    obtain ⟨rfl, h1, h2, h3⟩ := (push_checked_iff p a b q).1 hq
    exact wf_push p ih a b h1 h2 h3

/-! ### class_of_char -/

/-- T:class_of_char_spec — the binary search returns the interval containing `x`, or `Complement`
    exactly when no interval contains `x`; it equals the linear-scan specification -/
theorem class_of_char_spec (p : CharPartition) (hp : p.WF) (x : Nat) :
    (∀ i, p.classOfChar x = .interval i ↔ ∃ h : i < p.list.length, x ∈ₛ p.list[i]) ∧
    (p.classOfChar x = .complement ↔ ∀ s ∈ p.list, ¬ x ∈ₛ s) ∧
    p.classOfChar x = CPSpec.classOfChar p.list x := by
  have heq := classOfChar_eq_cls hp.1 x
  refine ⟨fun i => ?_, ?_, ?_⟩
  · rw [heq]; exact cls_eq_interval_iff hp.1 x i
  · rw [heq, cls_eq_complement_iff]
    simp only [InList, Mem, not_exists, not_and]
  · rw [heq]; rfl

/-! ### interval_cover, class_of_set, good_char_set -/

/-- `[a,b]` lies inside interval `i` -/
def InsideAt (p : CharPartition) (s : CharSet) (i : Nat) : Prop :=
  ∃ h : i < p.list.length, ∀ x, x ∈ₛ s → x ∈ₛ p.list[i]

/-- `[a,b]` meets no interval -/
def MeetsNone (p : CharPartition) (s : CharSet) : Prop := ∀ x, x ∈ₛ s → ¬ InList p.list x

theorem coversAt_iff (p : CharPartition) {s : CharSet} (hs : s.WF) (i : Nat) :
    CoversAt p.list s i ↔ InsideAt p s i := by
  simp only [CoversAt, InsideAt, Mem]
  constructor
  · rintro ⟨h, h1, h2⟩; exact ⟨h, fun x hx => by omega⟩
  · rintro ⟨h, hx⟩
    have h1 := hx s.start ⟨Nat.le_refl _, hs.1⟩
    have h2 := hx s.stop ⟨hs.1, Nat.le_refl _⟩
    exact ⟨h, by omega, by omega⟩

theorem meetsNone_iff (p : CharPartition) (hp : p.WF) {s : CharSet} (hs : s.WF) :
    (∀ k, ¬ MeetsAt p.list s k) ↔ MeetsNone p s := by
  simp only [MeetsAt, MeetsNone, Mem, inList_iff_getElem]
  constructor
  · rintro h x hx ⟨k, hk, hxk⟩
    exact h k ⟨hk, by omega, by omega⟩
  · rintro h k ⟨hk, h1, h2⟩
    have := hs.1
    have := (hp.1.get_wf hk).1
    exact h (max s.start p.list[k].start) (by omega) ⟨k, hk, by omega⟩

/-- T:interval_cover_spec — `CoveredBy(i)` exactly when the set lies inside interval `i`,
    `DisjointFromAll` exactly when it meets no interval, `Overlaps` in every other case;
    and the result equals the linear-scan specification -/
theorem interval_cover_spec (p : CharPartition) (hp : p.WF) (s : CharSet) (hs : s.WF) :
    (∀ i, p.intervalCover s = .coveredBy i ↔ InsideAt p s i) ∧
    (p.intervalCover s = .disjointFromAll ↔ MeetsNone p s) ∧
    (p.intervalCover s = .overlaps ↔ (¬ ∃ i, InsideAt p s i) ∧ ¬ MeetsNone p s) ∧
    p.intervalCover s = CPSpec.intervalCover p.list s := by
  refine ⟨fun i => ?_, ?_, ?_, intervalCover_eq_spec hp.1 hs⟩
  · rw [intervalCover_eq_iff hp.1 hs]; exact coversAt_iff p hs i
  · rw [intervalCover_eq_iff hp.1 hs]; exact meetsNone_iff p hp hs
  · rw [intervalCover_eq_iff hp.1 hs]
    simp only [CoverOK, ← meetsNone_iff p hp hs, coversAt_iff p hs, not_exists, Classical.not_forall,
      Classical.not_not]

/-- the same in terms of the `CharSet` operations (`covers`, `inter`), as DESIGN.md states it -/
theorem interval_cover_spec_ops (p : CharPartition) (hp : p.WF) (s : CharSet) (hs : s.WF) :
    (∀ i, p.intervalCover s = .coveredBy i ↔ ∃ h : i < p.list.length, p.list[i].covers s = true) ∧
    (p.intervalCover s = .disjointFromAll ↔ ∀ c ∈ p.list, c.inter s = none) := by
  refine ⟨fun i => ?_, ?_⟩
  · rw [intervalCover_eq_iff hp.1 hs]
    simp [CoverOK, CoversAt, CharSet.covers]
  · rw [intervalCover_eq_iff hp.1 hs]
    simp only [CoverOK, MeetsAt]
    constructor
    · intro h c hc
      obtain ⟨k, hk, rfl⟩ := List.getElem_of_mem hc
      have := h k
      simp only [CharSet.inter, CharSet.range]
      rw [if_neg]
      intro hle
      exact this ⟨hk, by omega, by omega⟩
    · rintro h k ⟨hk, h1, h2⟩
      have := h _ (List.getElem_mem hk)
      have := hs.1
      have := (hp.1.get_wf hk).1
      simp only [CharSet.inter, CharSet.range] at *
      split at * <;> first | contradiction | omega

/-- the `debug_assert!`s inside `interval_cover` never fire on a WF partition and a WF set -/
theorem interval_cover_no_assert (p : CharPartition) (hp : p.WF) (s : CharSet) (hs : s.WF) :
    p.intervalCoverChecked s = some (p.intervalCover s) :=
  intervalCoverChecked_eq hp.1 hs

/-- corollary for `class_of_set` -/
theorem class_of_set_spec (p : CharPartition) (hp : p.WF) (s : CharSet) (hs : s.WF) :
    (∀ i, p.classOfSet s = .ok (.interval i) ↔ InsideAt p s i) ∧
    (p.classOfSet s = .ok .complement ↔ MeetsNone p s) ∧
    (p.classOfSet s = .error .AmbiguousCharSet ↔ (¬ ∃ i, InsideAt p s i) ∧ ¬ MeetsNone p s) ∧
    (∀ e, p.classOfSet s = .error e → e = .AmbiguousCharSet) ∧
    p.classOfSet s = CPSpec.classOfSet p.list s := by
  obtain ⟨h1, h2, h3, h4⟩ := interval_cover_spec p hp s hs
  refine ⟨fun i => ?_, ?_, ?_, ?_, ?_⟩
  · rw [← h1 i]; simp only [classOfSet]; cases p.intervalCover s <;> simp
  · rw [← h2]; simp only [classOfSet]; cases p.intervalCover s <;> simp
  · rw [← h3]; simp only [classOfSet]; cases p.intervalCover s <;> simp
  · intro e; simp only [classOfSet]; cases p.intervalCover s <;> simp
    intro h; exact h.symm
  · simp only [classOfSet, CPSpec.classOfSet, h4]
    cases CPSpec.intervalCover p.list s <;> rfl

/-- corollary for `good_char_set` -/
theorem good_char_set_spec (p : CharPartition) (hp : p.WF) (s : CharSet) (hs : s.WF) :
    (p.goodCharSet s = true ↔ (∃ i, InsideAt p s i) ∨ MeetsNone p s) ∧
    p.goodCharSet s = CPSpec.goodCharSet p.list s := by
  obtain ⟨h1, h2, h3, h4⟩ := interval_cover_spec p hp s hs
  constructor
  · unfold goodCharSet
    cases hc : p.intervalCover s with
    | coveredBy i => simp only [true_iff]; exact .inl ⟨i, (h1 i).1 hc⟩
    | disjointFromAll => simp only [true_iff]; exact .inr (h2.1 hc)
    | overlaps =>
      have := h3.1 hc
      simp only [Bool.false_eq_true, false_iff, not_or]
      exact this
  · simp only [goodCharSet, CPSpec.goodCharSet, h4]
    cases CPSpec.intervalCover p.list s <;> rfl

/-! ### the complement witness -/

/-- T:witness_spec — `pick_complement` is the least natural that lies in no interval; it is at
    most `MAX_CHAR + 1` -/
theorem witness_spec (p : CharPartition) (hp : p.WF) :
    p.pickComplement ≤ MAX_CHAR + 1 ∧ ¬ InList p.list p.pickComplement ∧
    ∀ x, x < p.pickComplement → InList p.list x := hp.2

/-- `empty_complement` exactly when every character of the alphabet is covered -/
theorem empty_complement_iff (p : CharPartition) (hp : p.WF) :
    p.emptyComplement = true ↔ ∀ x, x ≤ MAX_CHAR → InList p.list x := by
  obtain ⟨_, h2, h3⟩ := hp.2
  simp only [emptyComplement, decide_eq_true_eq]
  constructor
  · intro h x hx; exact h3 x (by omega)
  · intro h
    rcases Nat.lt_or_ge MAX_CHAR p.compWitness with hlt | hge
    · exact hlt
    · exact absurd (h _ hge) h2

/-- when the complement is not empty, the witness is a character of the complementary class -/
theorem pick_complement_mem (p : CharPartition) (hp : p.WF) (h : p.emptyComplement = false) :
    p.pickComplement ≤ MAX_CHAR ∧ p.classOfChar p.pickComplement = .complement := by
  refine ⟨by simpa [emptyComplement, pickComplement] using h, ?_⟩
  rw [classOfChar_eq_cls hp.1, cls_eq_complement_iff]
  exact hp.2.2.1

/-! ### class ids, number of classes, picks -/

/-- a class id denotes a non-empty class: some character of the alphabet has this class -/
def NonEmptyClass (p : CharPartition) (c : ClassId) : Prop :=
  ∃ x, x ≤ MAX_CHAR ∧ p.classOfChar x = c

/-- T:valid_class_id_spec -/
theorem valid_class_id_spec (p : CharPartition) (hp : p.WF) (c : ClassId) :
    p.validClassId c = true ↔ NonEmptyClass p c := by
  have hcs := hp.1
  cases c with
  | interval i =>
    simp only [validClassId, NonEmptyClass, decide_eq_true_eq]
    simp only [len]
    constructor
    · intro hi
      have hw := hcs.get_wf hi
      exact ⟨p.list[i].start, by omega,
        ((class_of_char_spec p hp _).1 i).2 ⟨hi, Nat.le_refl _, hw.1⟩⟩
    · rintro ⟨x, _, hx⟩
      exact (((class_of_char_spec p hp x).1 i).1 hx).1
  | complement =>
    simp only [validClassId, NonEmptyClass, Bool.not_eq_true', classOfChar_eq_cls hcs,
      cls_eq_complement_iff]
    constructor
    · intro h
      exact ⟨p.compWitness, by simpa [emptyComplement] using h, hp.2.2.1⟩
    · rintro ⟨x, hx, hn⟩
      cases he : p.emptyComplement with
      | false => rfl
      | true => exact absurd ((empty_complement_iff p hp).1 he x hx) hn

/-- T:class_ids_spec — `class_ids()` yields exactly the ids of the non-empty classes, each once,
    in the order `Interval(0), …, Interval(n-1), Complement` -/
theorem class_ids_spec (p : CharPartition) (hp : p.WF) :
    p.classIds = (((List.range p.len).map ClassId.interval) ++ [ClassId.complement]).filter
      p.validClassId ∧
    (∀ c, c ∈ p.classIds ↔ NonEmptyClass p c) ∧ p.classIds.Nodup := by
  have hfilter : p.classIds = (((List.range p.len).map ClassId.interval) ++
      [ClassId.complement]).filter p.validClassId := by
    simp only [classIds, List.filter_append]
    congr 1
    · symm
      rw [List.filter_eq_self]
      intro c hc
      obtain ⟨i, hi, rfl⟩ := List.mem_map.1 hc
      simpa [validClassId] using hi
    · cases h : p.emptyComplement <;> simp [List.filter, validClassId, h]
  have hmem : ∀ c, c ∈ p.classIds ↔ p.validClassId c = true := by
    intro c
    rw [hfilter, List.mem_filter]
    constructor
    · exact fun h => h.2
    · intro h
      refine ⟨?_, h⟩
      cases c with
      | interval i =>
        simp only [List.mem_append, List.mem_map, List.mem_range]
        exact .inl ⟨i, by simpa [validClassId] using h, rfl⟩
      | complement => simp
  refine ⟨hfilter, fun c => (hmem c).trans (valid_class_id_spec p hp c), ?_⟩
  rw [hfilter]
  apply List.Pairwise.filter
  show List.Nodup _
  rw [List.nodup_append]
  refine ⟨?_, by simp, ?_⟩
  · exact (List.pairwise_map.2 (List.nodup_range.imp (fun h => by simpa using h)))
  · intro a ha b hb
    obtain ⟨i, _, rfl⟩ := List.mem_map.1 ha
    simp only [List.mem_singleton] at hb
    subst hb
    simp

/-- T:num_classes_spec — `num_classes` is the number of non-empty classes -/
theorem num_classes_spec (p : CharPartition) (hp : p.WF) :
    p.numClasses = p.classIds.length ∧
    p.numClasses = p.len + (if p.emptyComplement then 0 else 1) ∧
    (∀ c, c ∈ p.classIds ↔ NonEmptyClass p c) ∧ p.classIds.Nodup := by
  refine ⟨?_, ?_, (class_ids_spec p hp).2.1, (class_ids_spec p hp).2.2⟩
  · simp only [numClasses, classIds, len, List.length_append, List.length_map, List.length_range]
    split <;> simp
  · simp only [numClasses]; split <;> simp

/-- `pick_in_class` panics exactly on an invalid class id, otherwise returns a character of
    that class -/
theorem pick_in_class_spec (p : CharPartition) (hp : p.WF) (c : ClassId) :
    (p.pickInClass c = none ↔ p.validClassId c = false) ∧
    (∀ x, p.pickInClass c = some x → x ≤ MAX_CHAR ∧ p.classOfChar x = c) := by
  cases c with
  | interval i =>
    simp only [pickInClass, pick, validClassId, Option.map_eq_none_iff, decide_eq_false_iff_not,
      Nat.not_lt, Option.map_eq_some_iff]
    simp only [len]
    refine ⟨by simp, ?_⟩
    rintro x ⟨s, hs, rfl⟩
    obtain ⟨hi, rfl⟩ := List.getElem?_eq_some_iff.1 hs
    have hw := hp.1.get_wf hi
    exact ⟨by omega, ((class_of_char_spec p hp _).1 i).2 ⟨hi, Nat.le_refl _, hw.1⟩⟩
  | complement =>
    simp only [pickInClass, validClassId]
    cases he : p.emptyComplement with
    | true => simp
    | false =>
      simp only [Bool.false_eq_true, if_false, reduceCtorEq, Bool.not_false, Option.some.injEq]
      refine ⟨by simp, ?_⟩
      rintro x rfl
      exact pick_complement_mem p hp he

/-- T:picks_mem — `picks()` yields one character per non-empty class, in the order of
    `class_ids()`, and each pick lies in its class -/
theorem picks_mem (p : CharPartition) (hp : p.WF) :
    p.picks.map some = p.classIds.map p.pickInClass ∧
    p.picks.length = p.classIds.length ∧
    ∀ k (h : k < p.picks.length) (h' : k < p.classIds.length),
      p.picks[k] ≤ MAX_CHAR ∧ p.classOfChar p.picks[k] = p.classIds[k] := by
  have hmap : p.picks.map some = p.classIds.map p.pickInClass := by
    simp only [picks, classIds, List.map_append, List.map_map]
    congr 1
    · apply List.ext_getElem
      · simp [len]
      · intro i h1 h2
        simp only [List.length_map, List.length_range, len] at h1 h2
        simp [pickInClass, pick, h2]
    · cases he : p.emptyComplement <;> simp [pickInClass, pickComplement, he]
  have hlen : p.picks.length = p.classIds.length := by
    have := congrArg List.length hmap
    simpa using this
  refine ⟨hmap, hlen, ?_⟩
  intro k h h'
  have := congrArg (fun l => l[k]?) hmap
  simp only [List.getElem?_map, List.getElem?_eq_getElem h, List.getElem?_eq_getElem h',
    Option.map_some] at this
  exact (pick_in_class_spec p hp _).2 _ (Option.some.inj this.symm)

/-! ### try_from_iter / try_from_list -/

/-- two intervals have no common element -/
def Disjoint (c d : CharSet) : Prop := ¬ ∃ x, x ∈ₛ c ∧ x ∈ₛ d

theorem disj_iff {c d : CharSet} (hc : c.WF) (hd : d.WF) : Disj c d ↔ Disjoint c d := by
  simp only [Disj, Disjoint, Mem]
  have := hc.1; have := hd.1
  constructor
  · rintro h ⟨x, hx⟩; omega
  · intro h
    rcases Nat.lt_or_ge c.stop d.start with h1 | h1
    · exact .inl h1
    · rcases Nat.lt_or_ge d.stop c.start with h2 | h2
      · exact .inr h2
      · exact absurd ⟨max c.start d.start, by omega⟩ h

/-- T:try_from_iter_ok_iff — on well-formed intervals `try_from_iter` succeeds exactly when the
    inputs are pairwise disjoint; the only error is `NonDisjointCharSets`; a success is a WF
    partition made of exactly the input intervals -/
theorem try_from_list_ok_iff (l : List CharSet) (hl : ∀ c ∈ l, c.WF) :
    ((∃ p, tryFromList l = .ok p) ↔ l.Pairwise Disjoint) ∧
    (∀ e, tryFromList l = .error e → e = .NonDisjointCharSets) ∧
    (∀ p, tryFromList l = .ok p → p.WF ∧ p.list.Perm l) := by
  have hpw : l.Pairwise Disj ↔ l.Pairwise Disjoint :=
    List.Pairwise.iff_of_mem (fun ha hb => disj_iff (hl _ ha) (hl _ hb))
  obtain ⟨h1, h2⟩ := tryFromList_char hl
  refine ⟨?_, ?_, fun p h => wf_try_from_list l hl p h⟩
  · rw [← hpw]
    constructor
    · rintro ⟨p, hp⟩
      apply Classical.byContradiction
      intro hd
      rw [h2 hd] at hp
      cases hp
    · intro hd
      obtain ⟨w, hw, _⟩ := h1 hd
      exact ⟨_, hw⟩
  · intro e he
    by_cases hd : l.Pairwise Disj
    · obtain ⟨w, hw, _⟩ := h1 hd
      rw [hw] at he; cases he
    · rw [h2 hd] at he; cases he; rfl

/-- T:try_from_iter_perm — the result does not depend on the order of the input -/
theorem try_from_list_perm (l l' : List CharSet) (hl : ∀ c ∈ l, c.WF) (hperm : l.Perm l') :
    tryFromList l = tryFromList l' := by
  have hl' : ∀ c ∈ l', c.WF := fun c hc => hl c (hperm.symm.subset hc)
  obtain ⟨h1, h2⟩ := tryFromList_char hl
  obtain ⟨h1', h2'⟩ := tryFromList_char hl'
  have hpw : l.Pairwise Disj ↔ l'.Pairwise Disj := hperm.pairwise_iff (fun h => Disj.symm h)
  by_cases hd : l.Pairwise Disj
  · obtain ⟨w, hw, hwf⟩ := h1 hd
    obtain ⟨w', hw', hwf'⟩ := h1' (hpw.1 hd)
    rw [hw, hw']
    have hpp : (sortByStart l).Perm (sortByStart l') :=
      (sortByStart_perm l).trans (hperm.trans (sortByStart_perm l').symm)
    have hlist : sortByStart l = sortByStart l' := by
      apply List.Perm.eq_of_pairwise (le := fun s t => s.stop < t.start ∨ s = t) _ _ _ hpp
      · intro a b ha hb h3 h4
        have := (hwf.1.1 a ha).1
        have := (hwf'.1.1 b hb).1
        rcases h3 with h3 | h3
        · rcases h4 with h4 | h4
          · omega
          · exact h4.symm
        · exact h3
      · exact hwf.1.2.imp (fun h => .inl h)
      · exact hwf'.1.2.imp (fun h => .inl h)
    have hw_eq : w = w' := by
      apply leastNonMember_unique hwf.2
      have := hwf'.2
      simp only at this ⊢
      rw [hlist]
      exact this
    rw [hlist, hw_eq]
  · rw [h2 hd, h2' (fun h => hd (hpw.2 h))]

/-! ### non-vacuity: the hypotheses are met by concrete, non-trivial values -/

/-- two separated intervals, witness 0 (the partition of defect D2) -/
example : (⟨[⟨10, 20⟩, ⟨30, 40⟩], 0⟩ : CharPartition).WF := by decide

/-- adjacent intervals touching 0: the witness is the first character after them -/
example : (⟨[⟨0, 5⟩, ⟨6, 9⟩, ⟨11, 12⟩], 10⟩ : CharPartition).WF := by decide

/-- built by the constructors: `new().push(0,5).push(6,9)` -/
example : Built ⟨[⟨0, 5⟩, ⟨6, 9⟩], 10⟩ :=
  .push ⟨[⟨0, 5⟩], 6⟩ 6 9 _ (.push CharPartition.new 0 5 _ .new (by decide)) (by decide)

/-- `try_from_list` on an unsorted disjoint list succeeds, on an overlapping one fails -/
example : tryFromList [⟨30, 40⟩, ⟨10, 20⟩] = .ok ⟨[⟨10, 20⟩, ⟨30, 40⟩], 0⟩ := rfl
example : tryFromList [⟨30, 40⟩, ⟨10, 30⟩] = .error .NonDisjointCharSets := rfl

/-- the D2 witness: `[25,35]` starts in a gap and ends inside the next interval — it lies inside
    no interval and is not disjoint from all, so by `interval_cover_spec` the answer is `Overlaps` -/
example : (⟨[⟨10, 20⟩, ⟨30, 40⟩], 0⟩ : CharPartition).intervalCover ⟨25, 35⟩ = .overlaps := by
  refine ((interval_cover_spec _ (by decide) ⟨25, 35⟩ (by decide)).2.2.1).2 ⟨?_, ?_⟩
  · rintro ⟨i, hi, h⟩
    have h1 := h 25 ⟨by decide, by decide⟩
    have h2 := h 35 ⟨by decide, by decide⟩
    simp only [List.length_cons, List.length_nil] at hi
    have : i = 0 ∨ i = 1 := by omega
    rcases this with rfl | rfl
    · simp [Mem] at h2
    · simp [Mem] at h1
  · intro h
    exact h 30 ⟨by decide, by decide⟩ ⟨⟨30, 40⟩, by simp, by decide, by decide⟩

/-! ### the iterators `class_ids()` / `picks()`, element by element

`ClassIdIterator::next` and `PickIterator::next` compute their answer from a counter; the model's
lists `classIds` / `picks` hold exactly these answers at every index, so `nth(j)` after `k` calls of
`next` (and with it `skip`, `step_by`, ...) is element `k + j` (driver ops `class_ids_nth`,
`picks_nth`). -/

/-- `ClassIdIterator::next` with the counter at `i` (src/character_sets.rs:1016-1026) -/
def classIdAt (p : CharPartition) (i : Nat) : Option ClassId :=
  if i < p.len then some (.interval i)
  else if i = p.len ∧ p.emptyComplement = false then some .complement
  else none

/-- `PickIterator::next` with the counter at `i` -/
def pickAt (p : CharPartition) (i : Nat) : Option Nat :=
  if i < p.len then p.pick i
  else if i = p.len ∧ p.emptyComplement = false then some p.pickComplement
  else none

theorem class_ids_get (p : CharPartition) (i : Nat) : p.classIds[i]? = classIdAt p i := by
  unfold classIds classIdAt
  by_cases h : i < p.len
  · simp [List.getElem?_append_left, h]
  · have h' : p.len ≤ i := Nat.le_of_not_lt h
    rw [List.getElem?_append_right (by simpa using h')]
    simp only [List.length_map, List.length_range, h, if_false]
    cases hc : p.emptyComplement
    · by_cases he : i = p.len
      · simp [he]
      · have : i - p.len ≠ 0 := by omega
        simp [he]
        omega
    · simp

theorem picks_get (p : CharPartition) (i : Nat) : p.picks[i]? = pickAt p i := by
  unfold picks pickAt pick len
  by_cases h : i < p.list.length
  · simp [List.getElem?_append_left, h]
  · have h' : p.list.length ≤ i := Nat.le_of_not_lt h
    rw [List.getElem?_append_right (by simpa using h')]
    simp only [List.length_map, h, if_false]
    cases hc : p.emptyComplement
    · by_cases he : i = p.list.length
      · simp [he, pickComplement]
      · have : i - p.list.length ≠ 0 := by omega
        simp [he]
        omega
    · simp

/-- the enumeration stops after the complement (or after the last interval when the complement is empty) -/
example : classIdAt ⟨[⟨10, 20⟩, ⟨30, 40⟩], 0⟩ 2 = some .complement ∧
    classIdAt ⟨[⟨10, 20⟩, ⟨30, 40⟩], 0⟩ 3 = none ∧
    classIdAt ⟨[⟨0, MAX_CHAR⟩], MAX_CHAR + 1⟩ 1 = none ∧
    pickAt ⟨[⟨10, 20⟩, ⟨30, 40⟩], 0⟩ 1 = some 30 := by decide

end Smt.C11
