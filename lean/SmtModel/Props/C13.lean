/-
  C13 — AutomatonBuilder::build accepts only complete deterministic specifications and keeps delta
  (DESIGN.md §7 C13, §8 "conflict-free").

  Quantifier: every call sequence `new(k0); ops` over keys of type `Nat`, `ops` any list of
  `add_transition / set_default_successor / mark_final` calls, followed by `build()`; and, because
  `build` leaves the builder unchanged (commit 114d68f), every sequence with `build()` calls
  interleaved (`build_any_sequence`: each result is that of the calls made so far).
  The only hypothesis is `WFOps ops`: every label given is a well-formed interval
  (`start ≤ end ≤ MAX_CHAR`), which `CharSet::range/singleton` guarantee.

  Specification (Model/Spec/Builder.lean, independent of the builder model): `keys` (order of
  first mention), `transitions ops k` (as given, in order), `default ops k` (last declaration),
  `final ops k`, `specDelta ops k c` (first listed transition of `k` covering `c`, else the
  declared default).

  * `build_never_panics`
  * `build_ok_iff`          `build = Ok _  ↔  Valid`  (per state: labels pairwise disjoint ∧
                            (default declared ↔ some `c ≤ MAX_CHAR` is left uncovered))
  * `build_error_kind`      which error, and for which state (the first offending one)
  * `build_verdict_exec`    the executable verdict printed in the driver's spec column is the
                            result kind of `build`
  * `build_initial`         state 0 is the key given to `new`
  * `build_finals`          state `idOf k` is final iff `k` was marked; `num_final_states`,
                            `num_states` count them
  * `build_delta`           `Ok A → ∀ k, ∀ c ≤ MAX_CHAR, next A (state k) c = state (specDelta k c)`
                            (majority-default promotion never changes delta, never invents a target)
  * `build_no_invention`    every successor index / default stored in a state is the id of the
                            target of a transition given for that state or of its declared default
  * `build_no_conflict`     `Ok A →` no character has two successors in the transitions given
  * `build_unchecked_eq`    `build = Ok A → build_unchecked = A` (for C02: `compile` uses
                            `build_unchecked`); `build_unchecked_of_valid`
  * `cleanup_preserves_delta` (shared with C02) is in Proofs/AutomatonState.lean and re-exported.
  Reading of "conflict-free" (§8): overlapping labels with the *same* target are rejected too
  (`build_ok_iff` is stated with pairwise disjoint labels, the documented contract).
-/
import SmtModel.Proofs.AutomatonBuilder

namespace Smt.C13
open Smt BuilderSpec StateInConstruction CharPartition

/-! ### the specification's notion of validity -/

/-- every label given is a well-formed interval -/
def WFOps (ops : List BuilderOp) : Prop :=
  ∀ k set k', BuilderOp.addTransition k set k' ∈ ops → set.WF

/-- two labels share no character -/
def DisjointSets (a b : CharSet) : Prop := ∀ c, ¬ (a.contains c = true ∧ b.contains c = true)

/-- no transition given for `k` covers `c` -/
def Uncovered (ops : List BuilderOp) (k c : Nat) : Prop :=
  ∀ t ∈ transitions ops k, t.1.contains c = false

/-- the labels given for `k` are pairwise disjoint -/
def LabelsDisjoint (ops : List BuilderOp) (k : Nat) : Prop :=
  ((transitions ops k).map (·.1)).Pairwise DisjointSets

/-- some character of the alphabet is covered by no label given for `k` -/
def LeavesUncovered (ops : List BuilderOp) (k : Nat) : Prop :=
  ∃ c, c ≤ MAX_CHAR ∧ Uncovered ops k c

def ValidState (ops : List BuilderOp) (k : Nat) : Prop :=
  LabelsDisjoint ops k ∧ ((default ops k).isSome = true ↔ LeavesUncovered ops k)

def Valid (k0 : Nat) (ops : List BuilderOp) : Prop := ∀ k ∈ keys k0 ops, ValidState ops k

/-- the error `build` must report for state `k` (`none`: the state is valid) -/
inductive StateError (ops : List BuilderOp) (k : Nat) : Option Err → Prop
  | overlap : ¬ LabelsDisjoint ops k → StateError ops k (some .NonDisjointCharSets)
  | superfluous : LabelsDisjoint ops k → (default ops k).isSome = true → ¬ LeavesUncovered ops k →
      StateError ops k (some .EmptyComplementaryClass)
  | missing : LabelsDisjoint ops k → default ops k = none → LeavesUncovered ops k →
      StateError ops k (some .MissingDefaultSuccessor)
  | valid : ValidState ops k → StateError ops k none

/-! ### bridge: specification ↔ state in construction -/

theorem disj_iff_disjointSets {a b : CharSet} (ha : a.WF) (hb : b.WF) :
    Disj a b ↔ DisjointSets a b := by
  constructor
  · intro h c ⟨h1, h2⟩
    exact not_disj_of_common h1 h2 h
  · intro h
    have h1 := h (max a.start b.start)
    simp only [CharSet.contains, Bool.and_eq_true, decide_eq_true_eq, not_and] at h1
    have := ha.1; have := hb.1
    unfold Disj
    omega

theorem wfl_expSIC {ops : List BuilderOp} (hwf : WFOps ops) (L : List Nat) (k : Nat) :
    WFL (expSIC L ops k).transitions := by
  intro t ht
  simp only [expSIC, List.mem_map] at ht
  obtain ⟨u, hu, rfl⟩ := ht
  exact hwf k u.1 u.2 (transitions_source_mem hu)

theorem labels_expSIC (L : List Nat) (ops : List BuilderOp) (k : Nat) :
    (expSIC L ops k).transitions.map (·.1) = (transitions ops k).map (·.1) := by
  simp [expSIC, List.map_map, Function.comp_def]

theorem disjL_expSIC {ops : List BuilderOp} (hwf : WFOps ops) (L : List Nat) (k : Nat) :
    DisjL (expSIC L ops k).transitions ↔ LabelsDisjoint ops k := by
  rw [disjL_iff_labels, labels_expSIC]
  unfold LabelsDisjoint
  have hl : ∀ c ∈ (transitions ops k).map (·.1), c.WF := by
    intro c hc
    obtain ⟨t, ht, rfl⟩ := List.mem_map.1 hc
    exact hwf k t.1 t.2 (transitions_source_mem ht)
  constructor
  · intro h
    exact h.imp_of_mem (fun ha hb hab => (disj_iff_disjointSets (hl _ ha) (hl _ hb)).1 hab)
  · intro h
    exact h.imp_of_mem (fun ha hb hab => (disj_iff_disjointSets (hl _ ha) (hl _ hb)).2 hab)

theorem covered_expSIC (L : List Nat) (ops : List BuilderOp) (k c : Nat) :
    (expSIC L ops k).Covered c ↔ ¬ Uncovered ops k c := by
  unfold Covered Uncovered
  simp only [expSIC, List.mem_map]
  constructor
  · rintro ⟨_, ⟨u, hu, rfl⟩, hc⟩ h
    have := h u hu
    simp only at hc
    rw [hc] at this
    cases this
  · intro h
    have : ∃ u ∈ transitions ops k, u.1.contains c = true := by
      refine Classical.byContradiction fun hn => h ?_
      intro t ht
      cases hh : t.1.contains c with
      | false => rfl
      | true => exact absurd ⟨t, ht, hh⟩ hn
    obtain ⟨u, hu, hc⟩ := this
    exact ⟨_, ⟨u, hu, rfl⟩, hc⟩

theorem complete_expSIC (L : List Nat) (ops : List BuilderOp) (k : Nat) :
    (expSIC L ops k).Complete ↔ ¬ LeavesUncovered ops k := by
  unfold Complete LeavesUncovered
  constructor
  · rintro h ⟨c, hc, hu⟩
    exact (covered_expSIC L ops k c).1 (h c hc) hu
  · intro h c hc
    refine Classical.byContradiction fun hn => h ⟨c, hc, ?_⟩
    exact Classical.byContradiction fun hu => hn ((covered_expSIC L ops k c).2 hu)

theorem default_isSome_expSIC (L : List Nat) (ops : List BuilderOp) (k : Nat) :
    (expSIC L ops k).defaultSuccessor.isSome = (default ops k).isSome := by
  simp [expSIC]

/-- the verdict on the builder's state is the specification's verdict -/
theorem verdict_expSIC {ops : List BuilderOp} (hwf : WFOps ops) (L : List Nat) (k : Nat)
    (v : Option Err) : Verdict (expSIC L ops k) v ↔ StateError ops k v := by
  constructor
  · intro h
    cases h with
    | overlap hd => exact .overlap (fun h => hd ((disjL_expSIC hwf L k).2 h))
    | superfluous hd hs hc =>
      exact .superfluous ((disjL_expSIC hwf L k).1 hd)
        (by rw [← default_isSome_expSIC L]; exact hs) ((complete_expSIC L ops k).1 hc)
    | missing hd hs hc =>
      refine .missing ((disjL_expSIC hwf L k).1 hd) ?_ ?_
      · have := default_isSome_expSIC L ops k
        rw [hs] at this
        cases hdd : default ops k with
        | none => rfl
        | some _ => rw [hdd] at this; cases this
      · exact Classical.byContradiction fun hn => hc ((complete_expSIC L ops k).2 hn)
    | valid hd hiff =>
      refine .valid ⟨(disjL_expSIC hwf L k).1 hd, ?_⟩
      rw [← default_isSome_expSIC L, hiff, complete_expSIC]
      exact ⟨fun h => Classical.byContradiction fun hn => h hn, fun h hn => hn h⟩
  · intro h
    cases h with
    | overlap hd => exact .overlap (fun h => hd ((disjL_expSIC hwf L k).1 h))
    | superfluous hd hs hc =>
      exact .superfluous ((disjL_expSIC hwf L k).2 hd)
        (by rw [default_isSome_expSIC L]; exact hs) ((complete_expSIC L ops k).2 hc)
    | missing hd hs hc =>
      refine .missing ((disjL_expSIC hwf L k).2 hd) (by simp [expSIC, hs]) ?_
      rw [complete_expSIC]
      exact fun hn => hn hc
    | valid hv =>
      refine .valid ((disjL_expSIC hwf L k).2 hv.1) ?_
      rw [default_isSome_expSIC L, hv.2, complete_expSIC]
      exact ⟨fun h hn => hn h, fun h => Classical.byContradiction fun hn => h hn⟩

theorem stateError_total (ops : List BuilderOp) (k : Nat) : ∃ v, StateError ops k v := by
  by_cases hd : LabelsDisjoint ops k
  · by_cases hc : LeavesUncovered ops k
    · cases hdf : default ops k with
      | none => exact ⟨_, .missing hd hdf hc⟩
      | some d => exact ⟨none, .valid ⟨hd, by simp [hdf, hc]⟩⟩
    · cases hdf : default ops k with
      | none => exact ⟨none, .valid ⟨hd, by simp [hdf, hc]⟩⟩
      | some d => exact ⟨_, .superfluous hd (by simp [hdf]) hc⟩
  · exact ⟨_, .overlap hd⟩

theorem stateError_none_iff (ops : List BuilderOp) (k : Nat) :
    StateError ops k none ↔ ValidState ops k :=
  ⟨fun h => by cases h; assumption, .valid⟩

/-- `sicDelta` of the expected state is `specDelta`, with keys replaced by their ids -/
theorem sicDelta_expSIC (L : List Nat) (ops : List BuilderOp) (k c : Nat) :
    (expSIC L ops k).sicDelta c = (specDelta ops k c).map (idx L) := by
  unfold sicDelta deltaL specDelta
  simp only [expSIC, List.find?_map]
  cases h : List.find? ((fun t : CharSet × Nat => t.1.contains c) ∘ fun t => (t.1, idx L t.2))
      (transitions ops k) with
  | none =>
    have : List.find? (fun t : CharSet × Nat => t.1.contains c) (transitions ops k) = none := by
      simpa [Function.comp_def] using h
    simp [this]
  | some t =>
    have : List.find? (fun t : CharSet × Nat => t.1.contains c) (transitions ops k) = some t := by
      simpa [Function.comp_def] using h
    simp [this]

/-- the target named by `specDelta` is a mentioned key -/
theorem specDelta_mem {k0 : Nat} {ops : List BuilderOp} {k c k' : Nat}
    (h : specDelta ops k c = some k') : k' ∈ keys k0 ops := by
  have hcl := (inv_run k0 ops).closed
  unfold specDelta at h
  split at h
  · rename_i t ht
    cases h
    exact hcl _ (transitions_source_mem (List.mem_of_find?_eq_some ht)) t.2 (by simp [keysOf])
  · exact hcl _ (default_source_mem h) k' (by simp [keysOf])

/-! ### the loop of `build` over the state vector -/

theorem buildLoop_ok (sts : List StateInConstruction) (hwf : ∀ s ∈ sts, WFL s.transitions)
    (hv : ∀ s ∈ sts, Verdict s none) (i nf : Nat) :
    ∃ out, Builder.buildLoop i sts nf = some (.ok (out, nf + (sts.filter (·.isFinal)).length)) ∧
      out.length = sts.length ∧
      ∀ j (hj : j < sts.length), ∃ st, out[j]? = some st ∧
        (sts[j]).buildState (i + j) = some (.ok st) := by
  induction sts generalizing i nf with
  | nil => exact ⟨[], rfl, rfl, fun j hj => by cases hj⟩
  | cons s rest ih =>
    obtain ⟨st, hst, _, hfin, _⟩ := (buildState_spec (hwf s (by simp)) i).2 (hv s (by simp))
    obtain ⟨out, hout, hlen, hspec⟩ := ih (fun u hu => hwf u (by simp [hu]))
      (fun u hu => hv u (by simp [hu])) (i + 1) (if st.isFinal then nf + 1 else nf)
    refine ⟨st :: out, ?_, by simp [hlen], ?_⟩
    · simp only [Builder.buildLoop, hst, hout, List.filter_cons]
      rw [hfin]
      cases s.isFinal <;> simp <;> omega
    · intro j hj
      cases j with
      | zero => exact ⟨st, rfl, by simpa using hst⟩
      | succ j =>
        obtain ⟨st', h1, h2⟩ := hspec j (by simpa using hj)
        refine ⟨st', by simpa using h1, ?_⟩
        have : i + 1 + j = i + (j + 1) := by omega
        rw [this] at h2
        simpa using h2

theorem buildLoop_err (pre : List StateInConstruction) (s : StateInConstruction)
    (post : List StateInConstruction) (hwf : ∀ u ∈ pre ++ s :: post, WFL u.transitions)
    (hv : ∀ u ∈ pre, Verdict u none) {e : Err} (he : Verdict s (some e)) (i nf : Nat) :
    Builder.buildLoop i (pre ++ s :: post) nf = some (.error e) := by
  induction pre generalizing i nf with
  | nil =>
    have := (buildState_spec (hwf s (by simp)) i).1 e he
    simp [Builder.buildLoop, this]
  | cons u pre ih =>
    obtain ⟨st, hst, _⟩ := (buildState_spec (hwf u (by simp)) i).2 (hv u (by simp))
    have := ih (fun w hw => hwf w (by simp at hw ⊢; exact .inr hw))
      (fun w hw => hv w (by simp [hw])) (i + 1) (if st.isFinal then nf + 1 else nf)
    simp only [List.cons_append, Builder.buildLoop, hst, this]

/-- a list of verdicts: all valid, or a first offending element -/
theorem first_offender {α} (P : α → Option Err → Prop) (htot : ∀ a, ∃ v, P a v) (l : List α) :
    (∀ a ∈ l, P a none) ∨
    ∃ pre a post e, l = pre ++ a :: post ∧ (∀ b ∈ pre, P b none) ∧ P a (some e) := by
  induction l with
  | nil => exact .inl (fun a ha => by cases ha)
  | cons a l ih =>
    obtain ⟨v, hv⟩ := htot a
    cases v with
    | some e => exact .inr ⟨[], a, l, e, rfl, fun b hb => (by cases hb), hv⟩
    | none =>
      rcases ih with h | ⟨pre, b, post, e, hl, hpre, hb⟩
      · left
        intro x hx
        rcases List.mem_cons.1 hx with rfl | hx'
        · exact hv
        · exact h x hx'
      · right
        refine ⟨a :: pre, b, post, e, by simp [hl], ?_, hb⟩
        intro x hx
        rcases List.mem_cons.1 hx with rfl | hx'
        · exact hv
        · exact hpre x hx'

/-! ### the theorems -/

section
variable {k0 : Nat} {ops : List BuilderOp}

private theorem states_run (k0 : Nat) (ops : List BuilderOp) :
    (Builder.run k0 ops).states = (keys k0 ops).map (expSIC (keys k0 ops) ops) :=
  (inv_run k0 ops).states

private theorem wf_states (hwf : WFOps ops) :
    ∀ s ∈ (Builder.run k0 ops).states, WFL s.transitions := by
  intro s hs
  rw [states_run] at hs
  obtain ⟨k, _, rfl⟩ := List.mem_map.1 hs
  exact wfl_expSIC hwf _ k

/-- the first offending key, if any -/
theorem valid_or_first_error (k0 : Nat) (ops : List BuilderOp) :
    Valid k0 ops ∨
    ∃ pre k post e, keys k0 ops = pre ++ k :: post ∧ (∀ k' ∈ pre, ValidState ops k') ∧
      StateError ops k (some e) := by
  rcases first_offender (StateError ops) (stateError_total ops) (keys k0 ops) with h | h
  · exact .inl (fun k hk => (stateError_none_iff ops k).1 (h k hk))
  · obtain ⟨pre, k, post, e, hl, hpre, hk⟩ := h
    exact .inr ⟨pre, k, post, e, hl, fun k' hk' => (stateError_none_iff ops k').1 (hpre k' hk'), hk⟩

/-- what `build` returns on a valid specification -/
theorem build_of_valid (hwf : WFOps ops) (hv : Valid k0 ops) :
    ∃ A, (Builder.run k0 ops).build = some (.ok A) ∧
      A.numStates = (keys k0 ops).length ∧ A.initialState = 0 ∧
      A.numFinalStates = ((keys k0 ops).filter (final ops)).length ∧
      A.states.length = (keys k0 ops).length ∧
      ∀ j (hj : j < (keys k0 ops).length), ∃ st, A.states[j]? = some st ∧
        (expSIC (keys k0 ops) ops ((keys k0 ops)[j])).buildState j = some (.ok st) := by
  have hvs : ∀ s ∈ (Builder.run k0 ops).states, Verdict s none := by
    intro s hs
    rw [states_run] at hs
    obtain ⟨k, hk, rfl⟩ := List.mem_map.1 hs
    exact (verdict_expSIC hwf _ k none).2 (.valid (hv k hk))
  obtain ⟨out, hout, hlen, hspec⟩ := buildLoop_ok _ (wf_states hwf) hvs 0 0
  refine ⟨{ numStates := (Builder.run k0 ops).size,
            numFinalStates := 0 + ((Builder.run k0 ops).states.filter (·.isFinal)).length,
            initialState := 0, states := out },
          by simp only [Builder.build, hout], ?_, rfl, ?_, ?_, ?_⟩
  · exact (inv_run k0 ops).rel.size
  · simp only [states_run, Nat.zero_add, List.filter_map, List.length_map]
    congr 1
  · simp only [hlen, states_run, List.length_map]
  · intro j hj
    have hj' : j < (Builder.run k0 ops).states.length := by
      simp only [states_run, List.length_map]; exact hj
    obtain ⟨st, h1, h2⟩ := hspec j hj'
    refine ⟨st, h1, ?_⟩
    simp only [states_run, List.getElem_map, Nat.zero_add] at h2
    exact h2

/-- what `build` returns when some state is invalid: the error of the first offending state -/
theorem build_of_first_error (hwf : WFOps ops) {pre : List Nat} {k : Nat} {post : List Nat}
    {e : Err} (hl : keys k0 ops = pre ++ k :: post) (hpre : ∀ k' ∈ pre, ValidState ops k')
    (hk : StateError ops k (some e)) : (Builder.run k0 ops).build = some (.error e) := by
  have hst : (Builder.run k0 ops).states =
      pre.map (expSIC (keys k0 ops) ops) ++ expSIC (keys k0 ops) ops k ::
        post.map (expSIC (keys k0 ops) ops) := by
    rw [states_run]
    conv => lhs; arg 2; rw [hl]
    simp
  have hwfs := wf_states (k0 := k0) hwf
  rw [hst] at hwfs
  have := buildLoop_err _ _ _ hwfs
    (fun u hu => by
      obtain ⟨k', hk', rfl⟩ := List.mem_map.1 hu
      exact (verdict_expSIC hwf _ k' none).2 (.valid (hpre k' hk')))
    ((verdict_expSIC hwf _ k (some e)).2 hk) 0 0
  simp only [Builder.build, hst, this]

/-- `build` never panics on a call sequence whose labels are well-formed intervals -/
theorem build_never_panics (hwf : WFOps ops) : (Builder.run k0 ops).build ≠ none := by
  rcases valid_or_first_error k0 ops with h | ⟨pre, k, post, e, hl, hpre, hk⟩
  · obtain ⟨A, hA, _⟩ := build_of_valid hwf h
    rw [hA]; exact fun h => by cases h
  · rw [build_of_first_error hwf hl hpre hk]; exact fun h => by cases h

/-- **build_ok_iff**: `build` returns an automaton exactly when the specification is valid -/
theorem build_ok_iff (hwf : WFOps ops) :
    (∃ A, (Builder.run k0 ops).build = some (.ok A)) ↔ Valid k0 ops := by
  constructor
  · rintro ⟨A, hA⟩
    rcases valid_or_first_error k0 ops with h | ⟨pre, k, post, e, hl, hpre, hk⟩
    · exact h
    · rw [build_of_first_error hwf hl hpre hk] at hA
      cases hA
  · intro h
    obtain ⟨A, hA, _⟩ := build_of_valid hwf h
    exact ⟨A, hA⟩

/-- **build_error_kind**: the error returned is that of the first offending state in order of
    first mention: `NonDisjointCharSets` for overlapping labels, else `EmptyComplementaryClass`
    for a declared default with nothing left uncovered, else `MissingDefaultSuccessor` -/
theorem build_error_kind (hwf : WFOps ops) (e : Err) :
    (Builder.run k0 ops).build = some (.error e) ↔
      ∃ pre k post, keys k0 ops = pre ++ k :: post ∧ (∀ k' ∈ pre, ValidState ops k') ∧
        StateError ops k (some e) := by
  constructor
  · intro hb
    rcases valid_or_first_error k0 ops with h | ⟨pre, k, post, e', hl, hpre, hk⟩
    · obtain ⟨A, hA, _⟩ := build_of_valid hwf h
      rw [hA] at hb; cases hb
    · have := build_of_first_error hwf hl hpre hk
      rw [this] at hb
      cases hb
      exact ⟨pre, k, post, hl, hpre, hk⟩
  · rintro ⟨pre, k, post, hl, hpre, hk⟩
    exact build_of_first_error hwf hl hpre hk

/-- **build_initial**: the initial state is state 0, the key given to `new` -/
theorem build_initial (hwf : WFOps ops) {A : Automaton}
    (h : (Builder.run k0 ops).build = some (.ok A)) :
    A.initialState = 0 ∧ idOf k0 ops k0 = some 0 := by
  obtain ⟨A', hA', _, hi, _⟩ := build_of_valid hwf ((build_ok_iff hwf).1 ⟨A, h⟩)
  rw [h] at hA'
  cases hA'
  exact ⟨hi, (inv_run k0 ops).init⟩

/-- **build_finals**: the states are numbered in order of first mention, the state of key `k` is
    final exactly when `k` was marked, and the two counters are right -/
theorem build_finals (hwf : WFOps ops) {A : Automaton}
    (h : (Builder.run k0 ops).build = some (.ok A)) :
    A.numStates = (keys k0 ops).length ∧ A.states.length = (keys k0 ops).length ∧
    A.numFinalStates = ((keys k0 ops).filter (final ops)).length ∧
    ∀ k i, idOf k0 ops k = some i →
      ∃ s, A.states[i]? = some s ∧ s.id = i ∧ s.isFinal = final ops k := by
  obtain ⟨A', hA', hn, _, hnf, hlen, hst⟩ := build_of_valid hwf ((build_ok_iff hwf).1 ⟨A, h⟩)
  rw [h] at hA'
  cases hA'
  refine ⟨hn, hlen, hnf, ?_⟩
  intro k i hi
  obtain ⟨hil, hik⟩ := indexOf_lt hi
  obtain ⟨st, h1, h2⟩ := hst i hil
  rw [hik] at h2
  have hv : Verdict (expSIC (keys k0 ops) ops k) none :=
    (verdict_expSIC hwf _ k none).2 (.valid ((build_ok_iff hwf).1 ⟨_, h⟩ k (mem_of_indexOf hi)))
  obtain ⟨st', hst', hid, hfin, _⟩ := (buildState_spec (wfl_expSIC hwf _ k) i).2 hv
  rw [h2] at hst'
  cases hst'
  exact ⟨st, h1, hid, by rw [hfin]; rfl⟩

/-- **build_delta**: in the automaton returned, for every mentioned key `k` and every character
    `c ≤ MAX_CHAR`, `next` from the state of `k` on `c` is the state of `specDelta ops k c` — the
    target of the first listed transition of `k` covering `c`, else the declared default.
    Majority-default promotion and the removal of transitions never change delta. -/
theorem build_delta (hwf : WFOps ops) {A : Automaton}
    (h : (Builder.run k0 ops).build = some (.ok A)) {k : Nat} (hk : k ∈ keys k0 ops) {c : Nat}
    (hc : c ≤ MAX_CHAR) :
    ∃ i s k' j t, idOf k0 ops k = some i ∧ A.states[i]? = some s ∧ s.id = i ∧
      specDelta ops k c = some k' ∧ idOf k0 ops k' = some j ∧
      A.next s c = some t ∧ t.id = j := by
  have hvalid := (build_ok_iff hwf).1 ⟨A, h⟩
  obtain ⟨A', hA', _, _, _, hlen, hst⟩ := build_of_valid hwf hvalid
  rw [h] at hA'
  cases hA'
  have hi := idx_spec hk
  obtain ⟨hil, hik⟩ := indexOf_lt hi
  obtain ⟨st, h1, h2⟩ := hst _ hil
  rw [hik] at h2
  have hv : Verdict (expSIC (keys k0 ops) ops k) none :=
    (verdict_expSIC hwf _ k none).2 (.valid (hvalid k hk))
  obtain ⟨st', hst', hid, _, _, _, _, _, hdelta⟩ :=
    (buildState_spec (wfl_expSIC hwf _ k) (idx (keys k0 ops) k)).2 hv
  rw [h2] at hst'
  cases hst'
  obtain ⟨x, hx, hraw⟩ := hdelta c hc
  rw [sicDelta_expSIC] at hx
  cases hsd : specDelta ops k c with
  | none => rw [hsd] at hx; cases hx
  | some k' =>
    rw [hsd] at hx
    simp only [Option.map_some, Option.some.injEq] at hx
    have hk' : k' ∈ keys k0 ops := specDelta_mem hsd
    have hj := idx_spec hk'
    rw [hx] at hj
    obtain ⟨hjl, hjk⟩ := indexOf_lt hj
    obtain ⟨t, ht1, ht2⟩ := hst x hjl
    rw [hjk] at ht2
    have hv' : Verdict (expSIC (keys k0 ops) ops k') none :=
      (verdict_expSIC hwf _ k' none).2 (.valid (hvalid k' hk'))
    obtain ⟨t', ht', htid, _⟩ := (buildState_spec (wfl_expSIC hwf _ k') x).2 hv'
    rw [ht2] at ht'
    cases ht'
    refine ⟨_, st, k', x, t, hi, h1, hid, rfl, hj, ?_, htid⟩
    rw [Automaton.next_eq_rawNext, hraw]
    exact ht1

/-- **build_no_invention**: every successor index and every default stored in the state of `k` is
    the id of the target of a transition given for `k`, or of the declared default of `k` -/
theorem build_no_invention (hwf : WFOps ops) {A : Automaton}
    (h : (Builder.run k0 ops).build = some (.ok A)) {k i : Nat} (hi : idOf k0 ops k = some i)
    {s : State} (hs : A.states[i]? = some s) :
    (∀ j ∈ s.successor, ∃ t ∈ transitions ops k, idOf k0 ops t.2 = some j) ∧
    (∀ d, s.defaultSuccessor = some d →
      (∃ k', default ops k = some k' ∧ idOf k0 ops k' = some d) ∨
      ∃ t ∈ transitions ops k, idOf k0 ops t.2 = some d) := by
  have hvalid := (build_ok_iff hwf).1 ⟨A, h⟩
  obtain ⟨A', hA', _, _, _, hlen, hst⟩ := build_of_valid hwf hvalid
  rw [h] at hA'
  cases hA'
  obtain ⟨hil, hik⟩ := indexOf_lt hi
  obtain ⟨st, h1, h2⟩ := hst _ hil
  rw [hik] at h2
  rw [hs] at h1
  cases h1
  have hv : Verdict (expSIC (keys k0 ops) ops k) none :=
    (verdict_expSIC hwf _ k none).2 (.valid (hvalid k (mem_of_indexOf hi)))
  obtain ⟨st', hst', _, _, _, _, hsucc, hdef, _⟩ := (buildState_spec (wfl_expSIC hwf _ k) i).2 hv
  rw [h2] at hst'
  cases hst'
  have hcl := (inv_run k0 ops).closed
  have tr : ∀ j, (∃ t ∈ (expSIC (keys k0 ops) ops k).transitions, t.2 = j) →
      ∃ t ∈ transitions ops k, idOf k0 ops t.2 = some j := by
    rintro j ⟨t, ht, rfl⟩
    simp only [expSIC, List.mem_map] at ht
    obtain ⟨u, hu, rfl⟩ := ht
    exact ⟨u, hu, idx_spec (hcl _ (transitions_source_mem hu) u.2 (by simp [keysOf]))⟩
  refine ⟨fun j hj => tr j (hsucc j hj), ?_⟩
  intro d hd
  rcases hdef d hd with h' | h'
  · left
    simp only [expSIC] at h'
    cases hdd : default ops k with
    | none => rw [hdd] at h'; cases h'
    | some k' =>
      rw [hdd] at h'
      simp only [Option.map_some, Option.some.injEq] at h'
      refine ⟨k', rfl, ?_⟩
      rw [← h']
      exact idx_spec (hcl _ (default_source_mem hdd) k' (by simp [keysOf]))
  · exact .inr (tr d h')

/-- **build_no_conflict**: if `build` returns an automaton then no character is assigned two
    successors by the transitions given: two transitions of the same state that both cover a
    character are one and the same list entry (in particular they have the same target) -/
theorem build_no_conflict (hwf : WFOps ops) {A : Automaton}
    (h : (Builder.run k0 ops).build = some (.ok A)) {k : Nat} (hk : k ∈ keys k0 ops) :
    LabelsDisjoint ops k ∧
    ∀ c, ∀ t ∈ transitions ops k, ∀ u ∈ transitions ops k,
      t.1.contains c = true → u.1.contains c = true → t.2 = u.2 := by
  have hv := (build_ok_iff hwf).1 ⟨A, h⟩ k hk
  refine ⟨hv.1, ?_⟩
  have hd : DisjL (expSIC (keys k0 ops) ops k).transitions :=
    (disjL_expSIC hwf (keys k0 ops) k).2 hv.1
  -- transport along the injection of transitions into the expected state
  have hdl : DisjL (transitions ops k) := by
    have := (disjL_iff_labels _).1 hd
    rw [labels_expSIC] at this
    exact (disjL_iff_labels _).2 this
  exact hdl.noConflict

end

/-! ### the executable verdict of the driver's spec column -/

theorem meets_iff (s t : CharSet) : meets s t = true ↔ ¬ DisjointSets s t := by
  simp only [meets, decide_eq_true_eq, DisjointSets, CharSet.contains, Bool.and_eq_true]
  constructor
  · intro h hn
    exact hn (max s.start t.start) (by omega)
  · intro h
    refine Classical.byContradiction fun hn => h ?_
    intro c
    omega

theorem disjointB_iff (l : List CharSet) : disjointB l = true ↔ l.Pairwise DisjointSets := by
  induction l with
  | nil => simp [disjointB]
  | cons c rest ih =>
    simp only [disjointB, Bool.and_eq_true, List.all_eq_true, Bool.not_eq_true', ih,
      List.pairwise_cons]
    constructor
    · rintro ⟨h1, h2⟩
      refine ⟨fun d hd => ?_, h2⟩
      have := h1 d hd
      exact Classical.byContradiction fun hn => by
        have := (meets_iff c d).2 hn
        simp_all
    · rintro ⟨h1, h2⟩
      refine ⟨fun d hd => ?_, h2⟩
      cases hm : meets c d with
      | false => rfl
      | true => exact absurd (h1 d hd) ((meets_iff c d).1 hm)

theorem coveredB_false_iff (ops : List BuilderOp) (k c : Nat) :
    coveredB ((transitions ops k).map (·.1)) c = false ↔ Uncovered ops k c := by
  simp only [coveredB, List.any_eq_false, List.mem_map, Uncovered]
  constructor
  · intro h t ht
    have := h t.1 ⟨t, ht, rfl⟩
    simpa using this
  · rintro h _ ⟨t, ht, rfl⟩
    simp [h t ht]

theorem leavesUncoveredB_iff (ops : List BuilderOp) (k : Nat) :
    leavesUncoveredB ((transitions ops k).map (·.1)) = true ↔ LeavesUncovered ops k := by
  constructor
  · intro h
    simp only [leavesUncoveredB, List.any_eq_true, Bool.and_eq_true, decide_eq_true_eq,
      Bool.not_eq_true'] at h
    obtain ⟨c, _, hc, hu⟩ := h
    exact ⟨c, hc, (coveredB_false_iff ops k c).1 hu⟩
  · rintro ⟨c, hc, hu⟩
    -- descend to the least uncovered character: it is 0 or the successor of the end of a label
    have key : ∀ c, c ≤ MAX_CHAR → Uncovered ops k c →
        leavesUncoveredB ((transitions ops k).map (·.1)) = true := by
      intro c
      induction c with
      | zero =>
        intro hc hu
        simp only [leavesUncoveredB, List.any_cons, Bool.or_eq_true, Bool.and_eq_true,
          decide_eq_true_eq, Bool.not_eq_true']
        exact .inl ⟨Nat.zero_le _, (coveredB_false_iff ops k 0).2 hu⟩
      | succ c ih =>
        intro hc hu
        by_cases hprev : Uncovered ops k c
        · exact ih (by omega) hprev
        · -- c is covered by some label, c+1 is not: the label ends at c
          have : ∃ t ∈ transitions ops k, t.1.contains c = true := by
            refine Classical.byContradiction fun hn => hprev ?_
            intro t ht
            cases hh : t.1.contains c with
            | false => rfl
            | true => exact absurd ⟨t, ht, hh⟩ hn
          obtain ⟨t, ht, htc⟩ := this
          have hnext := hu t ht
          simp only [CharSet.contains, Bool.and_eq_true, decide_eq_true_eq] at htc
          simp only [CharSet.contains, Bool.and_eq_false_iff, decide_eq_false_iff_not] at hnext
          have hstop : t.1.stop + 1 = c + 1 := by omega
          simp only [leavesUncoveredB, List.any_cons, Bool.or_eq_true, List.any_eq_true,
            Bool.and_eq_true, decide_eq_true_eq, Bool.not_eq_true', List.mem_map]
          right
          refine ⟨c + 1, ⟨t.1, ⟨t, ht, rfl⟩, hstop⟩, hc, (coveredB_false_iff ops k _).2 hu⟩
    exact key c hc hu

/-- the executable per-state verdict is the specification's -/
theorem stateVerdict_spec (ops : List BuilderOp) (k : Nat) :
    StateError ops k (stateVerdict ops k) := by
  unfold stateVerdict
  simp only
  by_cases hd : disjointB ((transitions ops k).map (·.1)) = true
  · have hd' : LabelsDisjoint ops k := (disjointB_iff _).1 hd
    simp only [hd, Bool.not_true, Bool.false_eq_true, if_false]
    cases hl : leavesUncoveredB ((transitions ops k).map (·.1)) with
    | true =>
      have hl' := (leavesUncoveredB_iff ops k).1 hl
      cases hdf : default ops k with
      | none => simpa using StateError.missing hd' hdf hl'
      | some d => simpa using StateError.valid ⟨hd', by simp [hdf, hl']⟩
    | false =>
      have hl' : ¬ LeavesUncovered ops k := fun h => by
        have := (leavesUncoveredB_iff ops k).2 h
        rw [hl] at this; cases this
      cases hdf : default ops k with
      | none => simpa using StateError.valid ⟨hd', by simp [hdf, hl']⟩
      | some d => simpa using StateError.superfluous hd' (by simp [hdf]) hl'
  · have hd' : ¬ LabelsDisjoint ops k := fun h => hd ((disjointB_iff _).2 h)
    have : disjointB ((transitions ops k).map (·.1)) = false := by simpa using hd
    simpa [this] using StateError.overlap hd'

theorem stateError_unique {ops : List BuilderOp} {k : Nat} {v v' : Option Err}
    (h : StateError ops k v) (h' : StateError ops k v') : v = v' := by
  cases h <;> cases h' <;> first | rfl | skip
  all_goals simp_all [ValidState]

/-- **build_verdict_exec**: the kind of result of `build` (`Ok` / which error) is the executable
    `BuilderSpec.verdict` — what the driver prints in the spec column of `build_verdict` -/
theorem build_verdict_exec {k0 : Nat} {ops : List BuilderOp} (hwf : WFOps ops) :
    (verdict k0 ops = none ↔ ∃ A, (Builder.run k0 ops).build = some (.ok A)) ∧
    ∀ e, verdict k0 ops = some e ↔ (Builder.run k0 ops).build = some (.error e) := by
  have key : ∀ l : List Nat,
      (firstSome (l.map (stateVerdict ops)) = none ↔ ∀ k ∈ l, ValidState ops k) ∧
      ∀ e, firstSome (l.map (stateVerdict ops)) = some e ↔
        ∃ pre k post, l = pre ++ k :: post ∧ (∀ k' ∈ pre, ValidState ops k') ∧
          StateError ops k (some e) := by
    intro l
    induction l with
    | nil =>
      refine ⟨by simp [firstSome], fun e => ?_⟩
      simp only [List.map_nil, firstSome]
      constructor
      · intro h; cases h
      · rintro ⟨pre, k, post, h, _⟩
        cases pre <;> cases h
    | cons a l ih =>
      have ha := stateVerdict_spec ops a
      cases hv : stateVerdict ops a with
      | some e' =>
        rw [hv] at ha
        simp only [List.map_cons, hv, firstSome]
        refine ⟨⟨fun h => (by cases h), fun h => ?_⟩, fun e => ⟨fun h => ?_, ?_⟩⟩
        · have := stateError_unique ha (.valid (h a (by simp)))
          cases this
        · cases h
          exact ⟨[], a, l, rfl, fun k' hk' => (by cases hk'), ha⟩
        · rintro ⟨pre, k, post, hl, hpre, hk⟩
          cases pre with
          | nil =>
            simp only [List.nil_append, List.cons.injEq] at hl
            obtain ⟨rfl, _⟩ := hl
            exact stateError_unique ha hk
          | cons b pre =>
            simp only [List.cons_append, List.cons.injEq] at hl
            obtain ⟨rfl, _⟩ := hl
            have := stateError_unique ha (.valid (hpre a (by simp)))
            cases this
      | none =>
        rw [hv] at ha
        have hva : ValidState ops a := (stateError_none_iff ops a).1 ha
        simp only [List.map_cons, hv, firstSome]
        refine ⟨?_, fun e => ?_⟩
        · rw [ih.1]
          constructor
          · intro h k hk
            rcases List.mem_cons.1 hk with rfl | hk'
            · exact hva
            · exact h k hk'
          · intro h k hk
            exact h k (by simp [hk])
        · rw [ih.2 e]
          constructor
          · rintro ⟨pre, k, post, hl, hpre, hk⟩
            refine ⟨a :: pre, k, post, by simp [hl], ?_, hk⟩
            intro k' hk'
            rcases List.mem_cons.1 hk' with rfl | h'
            · exact hva
            · exact hpre k' h'
          · rintro ⟨pre, k, post, hl, hpre, hk⟩
            cases pre with
            | nil =>
              simp only [List.nil_append, List.cons.injEq] at hl
              obtain ⟨rfl, _⟩ := hl
              have := stateError_unique ha hk
              cases this
            | cons b pre =>
              simp only [List.cons_append, List.cons.injEq] at hl
              obtain ⟨rfl, rfl⟩ := hl
              exact ⟨pre, k, post, rfl, fun k' hk' => hpre k' (by simp [hk']), hk⟩
  obtain ⟨k1, k2⟩ := key (keys k0 ops)
  refine ⟨?_, fun e => ?_⟩
  · unfold verdict
    rw [k1, build_ok_iff hwf]
    rfl
  · unfold verdict
    rw [k2 e, build_error_kind hwf]

/-! ### `build_unchecked` (used by `compile`, C02) -/

theorem buildState_ok_unchecked {s : StateInConstruction} {i : Nat} {st : State}
    (h : s.buildState i = some (.ok st)) : s.buildStateUnchecked i = some st := by
  unfold StateInConstruction.buildState at h
  unfold StateInConstruction.buildStateUnchecked
  split at h
  · cases h
  · split at h
    · cases h
    · split at h
      · cases h
      · dsimp only at h ⊢
        split at h
        · cases h
        · rename_i p hp
          split at h
          · cases h
          · rename_i succ hs
            cases h
            rfl

theorem buildLoop_ok_unchecked (sts : List StateInConstruction) (i nf : Nat)
    {r : List State × Nat} (h : Builder.buildLoop i sts nf = some (.ok r)) :
    Builder.buildUncheckedLoop i sts nf = some r := by
  induction sts generalizing i nf r with
  | nil =>
    simp only [Builder.buildLoop, Option.some.injEq, Except.ok.injEq] at h
    subst h; rfl
  | cons s rest ih =>
    simp only [Builder.buildLoop] at h
    split at h
    · cases h
    · cases h
    · rename_i st hst
      split at h
      · cases h
      · cases h
      · rename_i sts' nf' hrest
        cases h
        simp only [Builder.buildUncheckedLoop, buildState_ok_unchecked hst, ih _ _ hrest]

/-- **build_unchecked_eq**: whenever `build` returns an automaton, `build_unchecked` returns the
    same automaton (no hypothesis on the builder).  Hence every theorem of this file about the
    automaton returned by `build` on a valid specification holds for `build_unchecked`. -/
theorem build_unchecked_eq {b : Builder} {A : Automaton} (h : b.build = some (.ok A)) :
    b.buildUnchecked = some A := by
  unfold Builder.build at h
  unfold Builder.buildUnchecked
  split at h
  · cases h
  · cases h
  · rename_i sts nf hl
    cases h
    rw [buildLoop_ok_unchecked _ _ _ hl]

/-- `build_unchecked` on a valid specification: it returns the automaton `build` returns -/
theorem build_unchecked_of_valid {k0 : Nat} {ops : List BuilderOp} (hwf : WFOps ops)
    (hv : Valid k0 ops) :
    ∃ A, (Builder.run k0 ops).build = some (.ok A) ∧ (Builder.run k0 ops).buildUnchecked = some A := by
  obtain ⟨A, hA⟩ := (build_ok_iff hwf).2 hv
  exact ⟨A, hA, build_unchecked_eq hA⟩

/-! ### call sequences with `build()` interleaved -/

/-- a call on a builder: one of the three mutators, `build()` or `build_unchecked()` -/
inductive Call where
  | op (o : BuilderOp)
  | build
  | buildUnchecked
deriving DecidableEq, Repr

/-- run a call sequence; collects the result of every `build()` call, in order.
    `build` takes `&mut self` but leaves the builder unchanged (it works on clones). -/
def runCalls (b : Builder) : List Call → Builder × List (Option (Except Err Automaton))
  | [] => (b, [])
  | .op o :: rest => runCalls (b.step o) rest
  | .build :: rest =>
    let r := runCalls b rest
    (r.1, b.build :: r.2)
  | .buildUnchecked :: rest => runCalls b rest     -- result (or panic) dropped, builder unchanged

/-- the mutator calls of a sequence -/
def opsOf : List Call → List BuilderOp
  | [] => []
  | .op o :: rest => o :: opsOf rest
  | .build :: rest => opsOf rest
  | .buildUnchecked :: rest => opsOf rest

def countBuilds : List Call → Nat
  | [] => 0
  | .op _ :: rest => countBuilds rest
  | .build :: rest => countBuilds rest + 1
  | .buildUnchecked :: rest => countBuilds rest

/-- **build_any_sequence**: in any sequence of calls, the result of every `build()` is
    `build` of the builder reached by the mutator calls made so far — earlier `build()` and
    `build_unchecked()` calls have no influence.  Hence all theorems above apply to every `build()` of every sequence. -/
theorem build_any_sequence (k0 : Nat) (pre post : List Call) :
    (runCalls (Builder.new k0) (pre ++ .build :: post)).2[countBuilds pre]? =
      some (Builder.run k0 (opsOf pre)).build := by
  have key : ∀ (pre : List Call) (b : Builder),
      (runCalls b (pre ++ .build :: post)).2[countBuilds pre]? =
        some ((opsOf pre).foldl Builder.step b).build := by
    intro pre
    induction pre with
    | nil => intro b; simp [runCalls, countBuilds, opsOf]
    | cons c pre ih =>
      intro b
      cases c with
      | op o => simpa [runCalls, countBuilds, opsOf] using ih (b.step o)
      | build => simpa [runCalls, countBuilds, opsOf] using ih b
      | buildUnchecked => simpa [runCalls, countBuilds, opsOf] using ih b
  exact key pre (Builder.new k0)

/-! ### re-export (shared with C02) -/

/-- **cleanup_preserves_delta** -/
theorem cleanup_preserves_delta {s : StateInConstruction} (hn : s.NoConflict) {c x : Nat}
    (h : s.sicDelta c = some x) : s.cleanup.sicDelta c = some x :=
  StateInConstruction.cleanup_preserves_delta hn h

/-! ### non-vacuity -/

/-- `a*b` over {a,b} with a sink: valid, three states, majority promotion happens in state 0 -/
def exOps : List BuilderOp :=
  [.addTransition 0 ⟨97, 97⟩ 0, .addTransition 0 ⟨98, 98⟩ 1, .setDefault 0 2,
   .setDefault 1 2, .setDefault 2 2, .markFinal 1]

theorem exOps_wf : WFOps exOps := by
  intro k set k' h
  simp only [exOps, List.mem_cons, BuilderOp.addTransition.injEq, reduceCtorEq, List.mem_nil_iff,
    or_false] at h
  rcases h with ⟨_, rfl, _⟩ | ⟨_, rfl, _⟩ <;> decide

example : verdict 0 exOps = none := by decide
example : Valid 0 exOps := (build_ok_iff exOps_wf).1 ((build_verdict_exec exOps_wf).1.1 (by decide))
/-- the automaton of an `Ok` result -/
def okOf : Option (Except Err Automaton) → Option Automaton
  | some (.ok A) => some A
  | _ => none

example : okOf (Builder.run 0 exOps).build = some
    { numStates := 3, numFinalStates := 1, initialState := 0,
      states := [⟨0, false, ⟨[⟨97, 97⟩, ⟨98, 98⟩], 0⟩, [0, 1], some 2⟩,
                 ⟨1, true, ⟨[], 0⟩, [], some 2⟩, ⟨2, false, ⟨[], 0⟩, [], some 2⟩] } := by
  decide +kernel
example : specDelta exOps 0 98 = some 1 ∧ specDelta exOps 0 120 = some 2 := by decide

/-- the two D7 witnesses are rejected -/
example : verdict 0 [.addTransition 0 ⟨97, 99⟩ 1, .setDefault 1 1] = some .MissingDefaultSuccessor := by
  decide
example : verdict 0 [.addTransition 0 ⟨97, 99⟩ 1, .addTransition 0 ⟨98, 98⟩ 0, .setDefault 0 1,
    .setDefault 1 1] = some .NonDisjointCharSets := by decide

end Smt.C13
