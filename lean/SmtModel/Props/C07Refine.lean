/-
  C07 (refinement) — the store level and the tree level of the hash-consing model are joined by a
  THEOREM.

  Model/Manager.lean is a stateful, id-allocating model of `ReManager` that mirrors the Rust
  literally: one term table (node over child ids at position id), `make` allocating x and
  `Complement(x)` at consecutive ids, every smart constructor working on ids (looking nodes up in
  the table, comparing terms by id, sorting operand vectors by the ACTUAL ids, detecting complement
  pairs by adjacent ids, `contains` with its early exit on ids), and the derivative going through
  `deriv_cache`.  This file proves that it REFINES the pure tree model (Model/Re.lean,
  Model/ReCons.lean, Model/Deriv.lean, Model/Prog.lean) in which ids are an oracle `ord`:

    Mgr.toTree m i   the tree held by id i          Mgr.ord m e   the id of the tree e
    Mgr.Inv m        table = reachable store (exactly what `checkTable` decides) + cache coherence

    inv_new, inv_checkTable                         the invariant holds initially / is the table check
    toTree_total, toTree_inj, ord_toTree            id ↔ tree is a bijection on the table
    pairSound_of_inv                                PairSound (Mgr.ord m) — at full strength
    complement_refines                              id xor 1 = RE.complement
    toTree_stable, ord_stable                       ids of existing terms never change
    *_refines (one per constructor)                 Inv kept, table only appended to, cache untouched,
                                                    result id holds the value of the pure constructor
                                                    under the id assignment of ANY later state
    *_hash_consed (one per constructor)             same call in any later state: same id, no allocation
    make_eq_store                                   `Mgr.make` is the literal `ReManager::make` of
                                                    Model/Store.lean (no `debug_assert!` fires)
    deriv_refines, cachedDeriv_refines, …           the cache never changes an answer
    runProg_refines, runProg_lang, …                whole construction programs; the language of a
                                                    construction does not depend on the history

  Helper lemmas: Proofs/ManagerInv.lean, ManagerCons.lean, ManagerSetOps.lean, ManagerDeriv.lean,
  ManagerProg.lean.

  Why full `PairSound` holds: a tree that is NOT in the table gets `ord = length + 1`, an odd number
  (the length is even) that is adjacent to no id of the table; so the adjacency test
  `ord y = ord x + 1 ∧ ord x even` can only fire on two trees of the table at ids 2k / 2k+1, which
  are complements.  Independently, the pure constructors consult `ord` only on trees of the table
  (their flattened operands; `RE.makeInter_congr` / `makeUnion_congr` of Proofs/ReSetOps.lean), which
  is why the value is the same under the id assignment of every later state.
-/
import SmtModel.Proofs.ManagerProg

namespace Smt

/-- the invariant of the stateful manager (table discipline + cache coherence) -/
abbrev Mgr.Inv (m : Mgr) : Prop := MgrDeriv.Inv m

namespace C07Refine
open Smt RE Node MgrInv MgrCons MgrSet MgrDeriv MgrProg

/-- `m2` is a later state of the manager `m`: the table was only appended to, the invariant holds -/
def After (m m2 : Mgr) : Prop := m.tbl <+: m2.tbl ∧ Mgr.Inv m2

theorem After.later {m m2 : Mgr} (h : After m m2) : Later m m2 := ⟨h.1, h.2.ok⟩
theorem After.refl {m : Mgr} (h : Mgr.Inv m) : After m m := ⟨List.prefix_refl _, h⟩
theorem After.trans {m m1 m2 : Mgr} (h1 : After m m1) (h2 : After m1 m2) : After m m2 :=
  ⟨List.IsPrefix.trans h1.1 h2.1, h2.2⟩

/-- what a constructor call `res = op m` establishes: the invariant is kept, the table is only
    appended to, the cache is untouched, the returned id holds the tree `e` -/
structure Refines (m : Mgr) (res : Mgr × Nat) (e : RE) : Prop where
  inv : Mgr.Inv res.1
  mono : m.tbl <+: res.1.tbl
  cache : res.1.cache = m.cache
  tree : res.1.toTree res.2 = some e

theorem Refines.after {m : Mgr} {res : Mgr × Nat} {e : RE} (h : Refines m res e) : After m res.1 :=
  ⟨h.mono, h.inv⟩

theorem refines_of_good {op : Mgr → Mgr × Nat} {m : Mgr} {e : RE} (hI : Mgr.Inv m)
    (hg : Good op m e) : Refines m (op m) e :=
  ⟨inv_of_post hI hg.post, hg.post.ext, hg.post.cache, hg.post.rep⟩

/-! ### the invariant -/

/-- T:inv_new — `ReManager::new()` satisfies the invariant -/
theorem inv_new : Mgr.Inv Mgr.new := MgrDeriv.inv_new

/-- the table part of the invariant is exactly what the run-time check of dumped tables decides
    (Model/Store.lean `checkTable`: six built-ins, even length, no duplicate node, x/¬x at 2k/2k+1
    with the two built-in exceptions, children smaller) -/
theorem inv_checkTable (m : Mgr) (h : Mgr.Inv m) : checkTable m.tbl.toArray = true :=
  (checkTable_iff _).2 h.ok

/-- conversely a table that passes the check, with an empty cache, satisfies the invariant -/
theorem inv_of_checkTable (t : Array Node) (h : checkTable t = true) :
    Mgr.Inv { tbl := t.toList, cache := [] } :=
  ⟨(checkTable_iff t).1 h, fun _ _ _ hm => by cases hm⟩

/-- the table invariant is that of the store model (Proofs/Store.lean `Smt.Inv`), `id2re` = identity -/
theorem inv_store (m : Mgr) (h : Mgr.Inv m) : Smt.Inv m.toStore := h.ok.storeInv

/-- T:toTree_total — every valid id holds a tree -/
theorem toTree_total (m : Mgr) (h : Mgr.Inv m) (i : Nat) (hi : i < m.size) :
    ∃ e, m.toTree i = some e := tree_total h.ok hi

theorem toTree_valid (m : Mgr) (i : Nat) (e : RE) (hi : m.toTree i = some e) : i < m.size :=
  treeOf_lt hi

/-- T:toTree_inj — two ids holding the same tree are the same id (`r == s` by id in the Rust is
    structural equality of trees in the model) -/
theorem toTree_inj (m : Mgr) (h : Mgr.Inv m) (i j : Nat) (e : RE) (hi : m.toTree i = some e)
    (hj : m.toTree j = some e) : i = j := tree_inj h.ok hi hj

/-- `ord` is the inverse of `toTree` on the table -/
theorem ord_toTree (m : Mgr) (h : Mgr.Inv m) (i : Nat) (e : RE) (hi : m.toTree i = some e) :
    m.ord e = i := ordOf_spec h.ok hi

/-- a tree that is not in the table gets the odd number `size + 1` -/
theorem ord_absent (m : Mgr) (e : RE) (h : ∀ i, m.toTree i ≠ some e) : m.ord e = m.size + 1 :=
  ordOf_absent h

/-- the unfolding equation of `toTree`: the tree of an id is its node over the trees of its children -/
theorem toTree_unfold (m : Mgr) (h : Mgr.Inv m) (i : Nat) (n : Node) (hn : m.expr i = some n) :
    m.toTree i = n.toRE m.toTree := treeOf_unfold h.ok.children hn

/-- the six built-in terms -/
theorem toTree_builtins (m : Mgr) (h : Mgr.Inv m) :
    m.toTree Mgr.sigmaId = some RE.sigma ∧ m.toTree 1 = some (.compl RE.sigma) ∧
    m.toTree Mgr.emptyId = some .empty ∧ m.toTree Mgr.sigmaStarId = some RE.sigmaStar ∧
    m.toTree Mgr.epsilonId = some .epsilon ∧ m.toTree Mgr.sigmaPlusId = some RE.sigmaPlus :=
  ⟨tree_sigma h.ok, tree_notSigma h.ok, tree_emptyId h.ok, tree_sigmaStar h.ok,
    tree_epsilonId h.ok, tree_sigmaPlus h.ok⟩

/-- T:pairSound_of_inv — **`PairSound (Mgr.ord m)` at full strength** (the hypothesis of every
    language theorem of C01/C02/C03/…): whenever the adjacency test fires, the two trees are
    complements.  Trees outside the table are covered too (their `ord` is odd and isolated). -/
theorem pairSound_of_inv (m : Mgr) (h : Mgr.Inv m) : PairSound m.ord := pairSound_ordOf h.ok

/-- the restricted form: ids `x` (even) and `x + 1` hold a tree and its complement -/
theorem pair_trees (m : Mgr) (h : Mgr.Inv m) (x : Nat) (hx : x % 2 = 0) (e : RE)
    (he : m.toTree x = some e) : m.toTree (x + 1) = some e.complement := by
  have := treeOf_xor h.ok he
  rwa [xor_one, if_pos hx] at this

/-! ### table monotonicity: ids of existing terms never change -/

/-- T:table_monotone (trees) — in a later state every old id holds the tree it held -/
theorem toTree_stable (m m2 : Mgr) (hp : m.tbl <+: m2.tbl) (i : Nat) (e : RE)
    (hi : m.toTree i = some e) : m2.toTree i = some e := treeOf_prefix hp hi

/-- T:table_monotone (ids) — in a later state every tree of the old table has the id it had; so
    the single final-table oracle used by the correspondence check agrees with the id assignment
    at the time of every earlier call -/
theorem ord_stable (m m2 : Mgr) (h : Mgr.Inv m) (h2 : After m m2) (i : Nat) (e : RE)
    (hi : m.toTree i = some e) : m2.ord e = m.ord e := ordOf_stable h.ok h2.2.ok h2.1 hi

/-! ### `make`, `complement` -/

/-- T:make_refines — `make` of a non-`Complement` node whose children exist returns the id that
    holds that node over the trees of the children -/
theorem make_refines (m : Mgr) (h : Mgr.Inv m) (n : Node) (hnc : n.isCompl = false) (e : RE)
    (hn : n.toRE m.toTree = some e) : Refines m (m.make n) e :=
  refines_of_good h (good_make h.ok hnc hn)

/-- the returned id holds the requested key -/
theorem make_node (m : Mgr) (h : Mgr.Inv m) (n : Node) (hnc : n.isCompl = false)
    (hv : ∀ c ∈ n.children, c < m.size) : (m.make n).1.expr (m.make n).2 = some n :=
  (make_post h.ok hnc hv).node

/-- T:hash_consing (`make`) — lift of `C07Store.make_stable` -/
theorem make_hash_consed (m : Mgr) (h : Mgr.Inv m) (n : Node) (hnc : n.isCompl = false)
    (hv : ∀ c ∈ n.children, c < m.size) (m2 : Mgr) (h2 : After (m.make n).1 m2) :
    m2.make n = (m2, (m.make n).2) := (make_post h.ok hnc hv).stable m2 h2.1 h2.2.ok

/-- `Mgr.make` IS the `ReManager::make` of the store model (Model/Store.lean `ReStore.make`, which
    carries the three `debug_assert!`s of the Rust: none fires) -/
theorem make_eq_store (m : Mgr) (h : Mgr.Inv m) (n : Node) (hnc : n.isCompl = false) :
    m.toStore.make n = some ((m.make n).1.toStore, (m.make n).2) := MgrInv.make_eq_store h.ok hnc

theorem make_compl_eq_store (m : Mgr) (h : Mgr.Inv m) (x : Nat) (hx : x + 1 < m.size) :
    m.toStore.make (.compl x) = some ((m.make (.compl x)).1.toStore, (m.make (.compl x)).2) :=
  MgrInv.make_compl_eq_store h.ok hx

/-- T:complement_refines — `complement` = `id xor 1` is `RE.complement` at tree level; it never
    leaves the table and allocates nothing -/
theorem complement_refines (m : Mgr) (h : Mgr.Inv m) (e : Nat) (t : RE) (he : m.toTree e = some t) :
    Refines m (m.complementM e) t.complement ∧ (m.complementM e) = (m, e ^^^ 1) ∧
      m.toStore.complement e = some (m.complementM e).2 :=
  ⟨refines_of_good h (good_complement h.ok he), rfl, complement_eq_store h.ok (treeOf_lt he)⟩

/-! ### constructors that do not read ids -/

/-- T:concat_refines -/
theorem concat_refines (m : Mgr) (h : Mgr.Inv m) (a b : Nat) (ta tb : RE)
    (ha : m.toTree a = some ta) (hb : m.toTree b = some tb) :
    Refines m (m.concatM a b) (mkConcat ta tb) := refines_of_good h (good_concat h.ok ha hb)

theorem concat_hash_consed (m : Mgr) (h : Mgr.Inv m) (a b : Nat) (ta tb : RE)
    (ha : m.toTree a = some ta) (hb : m.toTree b = some tb) (m2 : Mgr)
    (h2 : After (m.concatM a b).1 m2) : m2.concatM a b = (m2, (m.concatM a b).2) :=
  (good_concat h.ok ha hb).stable m2 h2.later

/-- T:mkLoop_refines -/
theorem mkLoop_refines (m : Mgr) (h : Mgr.Inv m) (e : Nat) (t : RE) (he : m.toTree e = some t)
    (rg : LoopRange) : Refines m (m.mkLoopM e rg) (mkLoop t rg) :=
  refines_of_good h (good_mkLoop h.ok he rg)

theorem mkLoop_hash_consed (m : Mgr) (h : Mgr.Inv m) (e : Nat) (t : RE) (he : m.toTree e = some t)
    (rg : LoopRange) (m2 : Mgr) (h2 : After (m.mkLoopM e rg).1 m2) :
    m2.mkLoopM e rg = (m2, (m.mkLoopM e rg).2) := (good_mkLoop h.ok he rg).stable m2 h2.later

/-- `star`, `plus`, `opt`, `exp`, `smt_loop` -/
theorem loops_refine (m : Mgr) (h : Mgr.Inv m) (e : Nat) (t : RE) (he : m.toTree e = some t) :
    Refines m (m.starM e) (star t) ∧ Refines m (m.plusM e) (plus t) ∧ Refines m (m.optM e) (opt t) ∧
    (∀ k, Refines m (m.expM e k) (exp t k)) ∧ ∀ i j, Refines m (m.smtLoopM e i j) (smtLoop t i j) :=
  ⟨mkLoop_refines m h e t he _, mkLoop_refines m h e t he _, mkLoop_refines m h e t he _,
    fun _ => mkLoop_refines m h e t he _,
    fun i j => refines_of_good h ((smtLoop_ok i j m e t h.ok he).1)⟩

/-- `char_set`, `smt_range` -/
theorem charSet_refines (m : Mgr) (h : Mgr.Inv m) (s : CharSet) :
    Refines m (m.charSetM s) (charSet s) := refines_of_good h (good_charSet h.ok s)

theorem smtRange_refines (m : Mgr) (h : Mgr.Inv m) (s1 s2 : List Nat) :
    Refines m (m.smtRangeM s1 s2) (smtRange s1 s2) := refines_of_good h (good_smtRange h.ok s1 s2)

/-- the result of a call that may panic (`none`): it panics exactly when the pure constructor
    does, otherwise it refines it -/
def RefinesO (m : Mgr) (res : Option (Mgr × Nat)) (eo : Option RE) : Prop :=
  match res, eo with
  | none, none => True
  | some r, some e => Refines m r e
  | _, _ => False

theorem refinesO_of_goodO {op : Mgr → Option (Mgr × Nat)} {m : Mgr} {eo : Option RE}
    (hI : Mgr.Inv m) (hg : GoodO op m eo) : RefinesO m (op m) eo := by
  cases eo with
  | none => rw [hg m (Later.refl hI.ok)]; trivial
  | some e =>
    obtain ⟨op', heq, hg'⟩ := hg
    rw [heq m (Later.refl hI.ok)]
    exact refines_of_good hI hg'

/-- `char`, `range`, `str` (with their assertion panics) -/
theorem char_refines (m : Mgr) (h : Mgr.Inv m) (x : Nat) : RefinesO m (m.charM x) (char? x) :=
  refinesO_of_goodO h (goodO_char h.ok x)
theorem range_refines (m : Mgr) (h : Mgr.Inv m) (a b : Nat) :
    RefinesO m (m.rangeM a b) (range? a b) := refinesO_of_goodO h (goodO_range h.ok a b)
theorem str_refines (m : Mgr) (h : Mgr.Inv m) (s : List Nat) : RefinesO m (m.strM s) (str? s) :=
  refinesO_of_goodO h (goodO_str h.ok s)

/-- the trees of a vector of ids -/
def TreesOf (m : Mgr) (v : List Nat) (ts : List RE) : Prop :=
  List.Forall₂ (fun i e => m.toTree i = some e) v ts

/-- `concat_list` -/
theorem concatList_refines (m : Mgr) (h : Mgr.Inv m) (v : List Nat) (ts : List RE)
    (hv : TreesOf m v ts) : Refines m (m.concatListM v) (concatList ts) :=
  refines_of_good h (concatList_ok m v ts h.ok hv).1

theorem concatList_hash_consed (m : Mgr) (h : Mgr.Inv m) (v : List Nat) (ts : List RE)
    (hv : TreesOf m v ts) (m2 : Mgr) (h2 : After (m.concatListM v).1 m2) :
    m2.concatListM v = (m2, (m.concatListM v).2) :=
  (concatList_ok m v ts h.ok hv).1.stable m2 h2.later

/-! ### constructors that read ids: sorting by ACTUAL ids = `sortByOrd (Mgr.ord m)` -/

/-- sorting / dedup / `contains` / `simplify_set_operation` on ids are the tree-level functions
    with `ord := Mgr.ord m` -/
theorem ids_refine (m : Mgr) (h : Mgr.Inv m) (v : List Nat) (ts : List RE) (hv : TreesOf m v ts) :
    TreesOf m (Ids.sort v) (sortByOrd m.ord ts) ∧
    TreesOf m (Ids.dedup (Ids.sort v)) (dedup (sortByOrd m.ord ts)) ∧
    (∀ x tx, m.toTree x = some tx →
      Ids.contains (Ids.dedup (Ids.sort v)) x = containsSorted m.ord (dedup (sortByOrd m.ord ts)) tx) ∧
    (∀ b top tb tt, m.toTree b = some tb → m.toTree top = some tt →
      TreesOf m (Ids.simplifySetOperation v b top) (simplifySetOperation m.ord ts tb tt)) := by
  obtain ⟨hval, hmap⟩ := forall₂_treeD hv
  have hS := hS_table h.ok
  have back : ∀ l : List Nat, (∀ i ∈ l, i < m.tbl.length) → TreesOf m l (l.map (treeD m.tbl)) := by
    intro l hl
    induction l with
    | nil => exact .nil
    | cons x xs ih =>
      exact .cons (treeOf_treeD h.ok (hl x (List.mem_cons_self ..)))
        (ih (fun i hi => hl i (List.mem_cons_of_mem _ hi)))
  have hsort : ∀ i ∈ Ids.sort v, i < m.tbl.length := fun i hi => hval i (IdsL.mem_sort.1 hi)
  have hdd : ∀ i ∈ Ids.dedup (Ids.sort v), i < m.tbl.length :=
    fun i hi => hsort i (IdsL.mem_dedup _ hi)
  subst hmap
  refine ⟨?_, ?_, ?_, ?_⟩
  · show TreesOf m _ (sortByOrd (ordOf m.tbl) _)
    rw [sort_map hS hval]; exact back _ hsort
  · show TreesOf m _ (dedup (sortByOrd (ordOf m.tbl) _))
    rw [sort_map hS hval, dedup_map hS _ hsort]; exact back _ hdd
  · intro x tx hx
    show _ = containsSorted (ordOf m.tbl) (dedup (sortByOrd (ordOf m.tbl) _)) tx
    rw [sort_map hS hval, dedup_map hS _ hsort, ← treeD_eq hx, contains_map hS (treeOf_lt hx) hdd]
  · intro b top tb tt hb ht
    show TreesOf m _ (simplifySetOperation (ordOf m.tbl) _ tb tt)
    rw [← treeD_eq hb, ← treeD_eq ht, sso_map hS (treeOf_lt hb) (treeOf_lt ht) hval]
    refine back _ ?_
    intro i hi
    rcases IdsL.mem_sso hi with hi | rfl
    · exact hval i hi
    · exact treeOf_lt ht

/-- T:makeInter_refines — for the id assignment of ANY later state `m2` (in particular of the
    state after the call) -/
theorem makeInter_refines (m : Mgr) (h : Mgr.Inv m) (v : List Nat) (ts : List RE)
    (hv : TreesOf m v ts) (m2 : Mgr) (h2 : After m m2) :
    Refines m (m.makeInterM v) (makeInter m2.ord ts) := by
  obtain ⟨hval, hmap⟩ := forall₂_treeD hv
  subst hmap
  show Refines m _ (makeInter (ordOf m2.tbl) _)
  rw [makeInter_later h.ok hval h2.2.ok h2.1]
  exact refines_of_good h (good_makeInter h.ok hval)

/-- T:makeUnion_refines -/
theorem makeUnion_refines (m : Mgr) (h : Mgr.Inv m) (v : List Nat) (ts : List RE)
    (hv : TreesOf m v ts) (m2 : Mgr) (h2 : After m m2) :
    Refines m (m.makeUnionM v) (makeUnion m2.ord ts) := by
  obtain ⟨hval, hmap⟩ := forall₂_treeD hv
  subst hmap
  show Refines m _ (makeUnion (ordOf m2.tbl) _)
  rw [makeUnion_later h.ok hval h2.2.ok h2.1]
  exact refines_of_good h (good_makeUnion h.ok hval)

theorem makeInter_hash_consed (m : Mgr) (h : Mgr.Inv m) (v : List Nat) (hv : ∀ i ∈ v, i < m.size)
    (m2 : Mgr) (h2 : After (m.makeInterM v).1 m2) :
    m2.makeInterM v = (m2, (m.makeInterM v).2) := (good_makeInter h.ok hv).stable m2 h2.later

theorem makeUnion_hash_consed (m : Mgr) (h : Mgr.Inv m) (v : List Nat) (hv : ∀ i ∈ v, i < m.size)
    (m2 : Mgr) (h2 : After (m.makeUnionM v).1 m2) :
    m2.makeUnionM v = (m2, (m.makeUnionM v).2) := (good_makeUnion h.ok hv).stable m2 h2.later

/-- a binary id-reading constructor `f` refines `F`: under the id assignment of any later state,
    and hash-consed -/
def BinRefines (f : Mgr → Nat → Nat → Mgr × Nat) (F : (RE → Nat) → RE → RE → RE) : Prop :=
  ∀ (m : Mgr), Mgr.Inv m → ∀ (a b : Nat) (ta tb : RE), m.toTree a = some ta → m.toTree b = some tb →
    (∀ m2, After m m2 → Refines m (f m a b) (F m2.ord ta tb)) ∧
    (∀ m2, After (f m a b).1 m2 → f m2 a b = (m2, (f m a b).2))

theorem binRefines_of_ok {f : Mgr → Nat → Nat → Mgr × Nat} {F : (RE → Nat) → RE → RE → RE}
    (hf : BinaryOK f F) : BinRefines f F := by
  intro m h a b ta tb ha hb
  obtain ⟨g, lat⟩ := hf m a b ta tb h.ok ha hb
  refine ⟨fun m2 h2 => ?_, fun m2 h2 => g.stable m2 h2.later⟩
  show Refines m _ (F (ordOf m2.tbl) ta tb)
  rw [lat m2.tbl h2.2.ok h2.1]
  exact refines_of_good h g

/-- T:union_refines, T:inter_refines, T:diff_refines (with hash-consing) -/
theorem union_refines : BinRefines Mgr.unionM mkUnion := binRefines_of_ok union_ok
theorem inter_refines : BinRefines Mgr.interM mkInter := binRefines_of_ok inter_ok
theorem diff_refines : BinRefines Mgr.diffM mkDiff := binRefines_of_ok diff_ok

/-- `union_list`, `inter_list`, `diff_list` -/
def ListRefines (f : Mgr → List Nat → Mgr × Nat) (F : (RE → Nat) → List RE → RE) : Prop :=
  ∀ (m : Mgr), Mgr.Inv m → ∀ (v : List Nat) (ts : List RE), TreesOf m v ts →
    (∀ m2, After m m2 → Refines m (f m v) (F m2.ord ts)) ∧
    (∀ m2, After (f m v).1 m2 → f m2 v = (m2, (f m v).2))

theorem listRefines_of_ok {f : Mgr → List Nat → Mgr × Nat} {F : (RE → Nat) → List RE → RE}
    (hf : ListOK f F) : ListRefines f F := by
  intro m h v ts hv
  obtain ⟨g, lat⟩ := hf m v ts h.ok hv
  refine ⟨fun m2 h2 => ?_, fun m2 h2 => g.stable m2 h2.later⟩
  show Refines m _ (F (ordOf m2.tbl) ts)
  rw [lat m2.tbl h2.2.ok h2.1]
  exact refines_of_good h g

theorem unionList_refines : ListRefines Mgr.unionListM mkUnionList := listRefines_of_ok unionList_ok
theorem interList_refines : ListRefines Mgr.interListM mkInterList := listRefines_of_ok interList_ok

theorem diffList_refines (m : Mgr) (h : Mgr.Inv m) (a : Nat) (ta : RE) (ha : m.toTree a = some ta)
    (v : List Nat) (ts : List RE) (hv : TreesOf m v ts) :
    (∀ m2, After m m2 → Refines m (m.diffListM a v) (mkDiffList m2.ord ta ts)) ∧
    (∀ m2, After (m.diffListM a v).1 m2 → m2.diffListM a v = (m2, (m.diffListM a v).2)) := by
  obtain ⟨g, lat⟩ := diffList_ok m a v ta ts h.ok ha hv
  refine ⟨fun m2 h2 => ?_, fun m2 h2 => g.stable m2 h2.later⟩
  show Refines m _ (mkDiffList (ordOf m2.tbl) ta ts)
  rw [lat m2.tbl h2.2.ok h2.1]
  exact refines_of_good h g

/-! ### derivatives through the cache -/

/-- what a derivative call `res` establishes: invariant (incl. cache coherence) kept, table only
    appended to, and the returned id holds `E ord` for the id assignment of EVERY later state -/
structure DRefines (m : Mgr) (res : Mgr × Nat) (E : (RE → Nat) → RE) : Prop where
  inv : Mgr.Inv res.1
  mono : m.tbl <+: res.1.tbl
  tree : ∀ m2, After res.1 m2 → res.1.toTree res.2 = some (E m2.ord)

theorem drefines_of_dpost {m : Mgr} {res : Mgr × Nat} {E : (RE → Nat) → RE}
    (h : DPost m res.1 res.2 E) : DRefines m res E := by
  refine ⟨h.inv, h.ext, ?_⟩
  intro m2 h2
  have := h.const h2.1 h2.2.ok
  show treeOf res.1.tbl res.2 = some (E (ordOf m2.tbl))
  rw [this]
  exact h.here

/-- the cache coherence clause of the invariant, spelled out: a cached entry is what a
    recomputation (under the id assignment of any later state) returns -/
theorem cache_coherent (m : Mgr) (h : Mgr.Inv m) (e : Nat) (cid : ClassId) (d : Nat)
    (hget : m.cacheGet e cid = some d) :
    ∃ te, m.toTree e = some te ∧ ∀ m2, After m m2 →
      m2.toTree d = some (computeDeriv m2.ord te (Mgr.repOf te.derivClass cid)) := by
  obtain ⟨te, hte, hT⟩ := h.cache _ _ _ (cacheGet_mem hget)
  exact ⟨te, hte, fun m2 h2 => hT m2.tbl h2.1 h2.2.ok⟩

/-- T:deriv_refines — **`deriv(e, c)` WITH the cache returns `RE.deriv`**: a hit returns what a
    recomputation would, a miss computes and keeps the cache coherent -/
theorem deriv_refines (m : Mgr) (h : Mgr.Inv m) (e : Nat) (te : RE) (he : m.toTree e = some te)
    (c : Nat) : DRefines m (m.derivM e c) (fun ord => RE.deriv ord te c) :=
  drefines_of_dpost (dpost_derivM h he c)

/-- `compute_derivative(e, c)` (inner derivatives through the cache) -/
theorem computeDerivative_refines (m : Mgr) (h : Mgr.Inv m) (e : Nat) (te : RE)
    (he : m.toTree e = some te) (c : Nat) :
    DRefines m (m.computeDerivM e c) (fun ord => computeDeriv ord te c) :=
  drefines_of_dpost (dpost_computeDerivM h he c)

/-- T:cachedDeriv_refines — `cached_deriv(e, cid)` for a valid class id is `RE.cachedDeriv` -/
theorem cachedDeriv_refines (m : Mgr) (h : Mgr.Inv m) (e : Nat) (te : RE)
    (he : m.toTree e = some te) (cid : ClassId) (c : Nat)
    (hpick : te.derivClass.pickInClass cid = some c) :
    ∃ res, m.cachedDerivM e cid = some res ∧ DRefines m res (fun ord => computeDeriv ord te c) ∧
      ∀ m2, After res.1 m2 → some (res.1.toTree res.2) = (RE.cachedDeriv m2.ord te cid).map some := by
  obtain ⟨m', d, hres, hp⟩ := cachedDerivM_some h he hpick
  have hd := drefines_of_dpost (res := (m', d)) hp
  refine ⟨(m', d), hres, hd, ?_⟩
  intro m2 h2
  rw [hd.tree m2 h2]
  simp [RE.cachedDeriv, hpick]

/-- … and for an invalid class id with no cached entry it panics like the pure model -/
theorem cachedDeriv_panics (m : Mgr) (e : Nat) (te : RE) (he : m.toTree e = some te) (cid : ClassId)
    (hpick : te.derivClass.pickInClass cid = none) (hget : m.cacheGet e cid = none) (ord : RE → Nat) :
    m.cachedDerivM e cid = none ∧ RE.cachedDeriv ord te cid = none :=
  ⟨cachedDerivM_none he hpick hget, by simp [RE.cachedDeriv, hpick]⟩

/-- `str_derivative` -/
theorem strDerivative_refines (m : Mgr) (h : Mgr.Inv m) (e : Nat) (te : RE)
    (he : m.toTree e = some te) (s : List Nat) :
    DRefines m (m.strDerivativeM e s) (fun ord => strDerivative ord te s) :=
  drefines_of_dpost (dpost_strDerivativeM s h he)

/-- T:strInRe_refines — `str_in_re` computed through the cache is the cache-free `RE.strInRe` -/
theorem strInRe_refines (m : Mgr) (h : Mgr.Inv m) (e : Nat) (te : RE) (he : m.toTree e = some te)
    (s : List Nat) : After m (m.strInReM s e).1 ∧
      (m.strInReM s e).2 = strInRe (m.strInReM s e).1.ord s te := by
  obtain ⟨h1, h2, h3⟩ := strInReM_eq h he s
  exact ⟨⟨h2, h1⟩, h3⟩

/-! ### whole construction programs -/

/-- T:runProg_refines — running a program statefully from ANY state `m` satisfying the invariant
    (any history) returns an id whose tree is `build (ord m2) p` for every later state `m2`
    (in particular for the final state), and re-running it later returns the same id without
    allocating -/
theorem runProg_refines (m : Mgr) (h : Mgr.Inv m) (p : Prog) (m' : Mgr) (r : Nat)
    (hr : m.runProg p = some (m', r)) :
    ∃ e, Refines m (m', r) e ∧ (∀ m2, After m' m2 → build m2.ord p = some e) ∧
      ∀ m2, After m' m2 → m2.runProg p = some (m2, r) := by
  obtain ⟨e, hp, hB, hs⟩ := runProg_ok p m m' r h.ok hr
  exact ⟨e, ⟨inv_of_post h hp, hp.ext, hp.cache, hp.rep⟩,
    fun m2 h2 => hB m2.tbl h2.1 h2.2.ok, fun m2 h2 => hs m2 h2.later⟩

/-- the panic channel: the stateful run panics exactly when `build` does (any state, any `ord`) -/
theorem runProg_panics_iff (m : Mgr) (p : Prog) (ord : RE → Nat) :
    m.runProg p = none ↔ build ord p = none := runProg_none_iff p ord m

/-- a program without a bad `range` / `char` / `str` call never panics -/
theorem runProg_total (m : Mgr) (p : Prog) (hb : ∀ q ∈ p.subProgs, ¬ Prog.BadCall q) :
    ∃ res, m.runProg p = some res := by
  cases hr : m.runProg p with
  | some res => exact ⟨res, rfl⟩
  | none =>
    have := (runProg_panics_iff m p (fun _ => 0)).1 hr
    obtain ⟨e, he⟩ := C01.build_some (fun _ => 0) p hb
    rw [he] at this; cases this

/-- T:runProg_lang — **the language of a construction does not depend on the history**: whatever
    the state `m` the program is run in, the term it returns denotes `denote p` -/
theorem runProg_lang (m : Mgr) (h : Mgr.Inv m) (p : Prog) (hw : p.WFIn) (m' : Mgr) (r : Nat)
    (hr : m.runProg p = some (m', r)) :
    ∃ e, m'.toTree r = some e ∧ build m'.ord p = some e ∧ e.lang = C01.denote p := by
  obtain ⟨e, hp, hB, _⟩ := runProg_refines m h p m' r hr
  have hb := hB m' (After.refl hp.inv)
  exact ⟨e, hp.tree, hb, C01.build_denote (pairSound_of_inv m' hp.inv) p hw e hb⟩

/-- two runs of the same program after two different histories: same language -/
theorem runProg_history_independent (m₁ m₂ : Mgr) (h₁ : Mgr.Inv m₁) (h₂ : Mgr.Inv m₂) (p : Prog)
    (hw : p.WFIn) (m₁' m₂' : Mgr) (r₁ r₂ : Nat) (hr₁ : m₁.runProg p = some (m₁', r₁))
    (hr₂ : m₂.runProg p = some (m₂', r₂)) :
    ∃ e₁ e₂, m₁'.toTree r₁ = some e₁ ∧ m₂'.toTree r₂ = some e₂ ∧ e₁.lang = e₂.lang := by
  obtain ⟨e₁, t₁, _, l₁⟩ := runProg_lang m₁ h₁ p hw m₁' r₁ hr₁
  obtain ⟨e₂, t₂, _, l₂⟩ := runProg_lang m₂ h₂ p hw m₂' r₂ hr₂
  exact ⟨e₁, e₂, t₁, t₂, l₁.trans l₂.symm⟩

/-- T:runProg_str_in_re — build a term with any program after any history, then ask `str_in_re`
    (derivatives through the cache, whatever it already holds): the answer is membership in the
    SMT-LIB denotation of the program -/
theorem runProg_str_in_re (m : Mgr) (h : Mgr.Inv m) (p : Prog) (hw : p.WFIn) (m' : Mgr) (r : Nat)
    (hr : m.runProg p = some (m', r)) (w : List Nat) (hws : WFs w) :
    (m'.strInReM w r).2 = true ↔ w ∈ C01.denote p := by
  obtain ⟨e, hp, hB, _⟩ := runProg_refines m h p m' r hr
  obtain ⟨ha, heq⟩ := strInRe_refines m' hp.inv r e hp.tree w
  rw [heq]
  exact C01.str_in_re_iff (pairSound_of_inv _ ha.2) p hw e (hB _ ha) w hws

/-! ### non-vacuity -/

section Examples

example : Mgr.Inv Mgr.new := inv_new
example : checkTable Mgr.new.tbl.toArray = true := inv_checkTable _ inv_new
example : PairSound Mgr.new.ord := pairSound_of_inv _ inv_new

/-- `[b-x] ∩ [a-c]`, then again: same id, nothing allocated; the operands are sorted by their
    actual ids (6 and 8), as `build` does under `ord` of the final table -/
private def pU : Prog := .inter (.range 98 120) (.range 97 99)

example : (Mgr.new.runProg pU).map (fun r => (r.2, r.1.tbl.length)) = some (10, 12) := by decide
example : (Mgr.new.runProg pU).bind (fun r => (r.1.runProg pU).map (fun r' => (r'.2, r'.1.tbl.length)))
    = some (10, 12) := by decide
example : (Mgr.new.runProg pU).map (fun r => r.1.toTree r.2 == build r.1.ord pU) = some true := by
  decide
example : (Mgr.new.runProg (.comp pU)).map (fun r => r.2) = some 11 := by decide

end Examples

end C07Refine
end Smt
