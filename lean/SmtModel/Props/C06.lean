/-
  C06 — String search / substring / replace functions follow SMT-LIB 2.6.

  Property theorems only (DESIGN.md §7 C06); helper lemmas are in Proofs/Strings.lean.
  The specifications below are transcriptions of the semantics given in the SMT-LIB 2.6 theory
  `Strings` (words are `List Nat`, `++` is concatenation, `|w|` is `w.length`).

  Hypotheses (all decidable, all met by every value the crate can build):
  * `LenOk s`   — `s.length ≤ i32::MAX` (`SmtString::make` refuses anything longer);
  * `IsI32 i`   — the integer argument is an `i32`;
  * `WFs s`     — every code point is `≤ 0x2FFFF` (only `str_at` needs it: it rebuilds the
                  character with `SmtString::from(u32)`, which replaces larger values).
  Every model function is `Option`-valued, `none` = the Rust panics.  The theorems therefore also
  say *when* the code panics: never, except `str_concat`, `str_replace`, `str_replace_all` exactly
  when the SMT-LIB result is longer than `i32::MAX` (the documented panic of `SmtString::make`).
-/
import SmtModel.Proofs.Strings
import SmtModel.Legacy.Strings

namespace Smt.C06
open Smt Smt.Str

/-! ### hypotheses -/

def LenOk (s : List Nat) : Prop := s.length ≤ 2147483647
def IsI32 (i : Int) : Prop := I32_MIN ≤ i ∧ i ≤ I32_MAX

instance (s : List Nat) : Decidable (LenOk s) := by unfold LenOk; infer_instance
instance (i : Int) : Decidable (IsI32 i) := by unfold IsI32; infer_instance

/-! ### specifications (SMT-LIB 2.6) -/

/-- `w = w₁w₂w₃` with `|w₁| = n`: `w₂` occurs in `w` at position `n` -/
def OccursAt (w w2 : List Nat) (n : Nat) : Prop := ∃ w1 w3, w = w1 ++ w2 ++ w3 ∧ w1.length = n

/-- ⟦str.contains⟧(w, w₂) = true iff w = w₁w₂w₃ for some words w₁, w₃ -/
def Contains (w w2 : List Nat) : Prop := ∃ w1 w3, w = w1 ++ w2 ++ w3

/-- ⟦str.prefixof⟧(w₁, w) = true iff w = w₁w₂ for some word w₂ -/
def PrefixOf (w1 w : List Nat) : Prop := ∃ w2, w = w1 ++ w2

/-- ⟦str.suffixof⟧(w₁, w) = true iff w = w₂w₁ for some word w₂ -/
def SuffixOf (w1 w : List Nat) : Prop := ∃ w2, w = w2 ++ w1

/-- ⟦str.substr⟧(w, m, n) is the unique word w₂ such that for some words w₁ and w₃:
    w = w₁w₂w₃, |w₁| = m, |w₂| = min(n, |w| − m), if 0 ≤ m < |w| and 0 < n; ε otherwise -/
def SubstrSpec (w : List Nat) (m n : Int) (w2 : List Nat) : Prop :=
  ((0 ≤ m ∧ m < (w.length : Int) ∧ 0 < n) →
      ∃ w1 w3, w = w1 ++ w2 ++ w3 ∧ (w1.length : Int) = m ∧
        (w2.length : Int) = min n ((w.length : Int) - m)) ∧
  (¬ (0 ≤ m ∧ m < (w.length : Int) ∧ 0 < n) → w2 = [])

/-- ⟦str.at⟧(w, n) = ⟦str.substr⟧(w, n, 1) -/
def AtSpec (w : List Nat) (n : Int) (r : List Nat) : Prop := SubstrSpec w n 1 r

/-- ⟦str.indexof⟧(w, w₂, i) is the smallest n such that w = w₁w₂w₃, i ≤ n = |w₁|, if i ≥ 0 and
    such an n exists (which forces i ≤ |w|); −1 otherwise -/
def IndexofSpec (w w2 : List Nat) (i : Int) (r : Int) : Prop :=
  ((0 ≤ i ∧ ∃ n : Nat, i ≤ (n : Int) ∧ OccursAt w w2 n) →
      ∃ n : Nat, r = (n : Int) ∧ i ≤ (n : Int) ∧ OccursAt w w2 n ∧
        ∀ n' : Nat, i ≤ (n' : Int) → OccursAt w w2 n' → n ≤ n') ∧
  (¬ (0 ≤ i ∧ ∃ n : Nat, i ≤ (n : Int) ∧ OccursAt w w2 n) → r = -1)

/-- ⟦str.replace⟧(w, w₁, w₂) = w if w₁ does not occur in w;
    = u₁w₂u₂ where u₁ is the shortest word such that w = u₁w₁u₂, otherwise -/
def ReplaceSpec (w w1 w2 : List Nat) (out : List Nat) : Prop :=
  (¬ Contains w w1 → out = w) ∧
  (Contains w w1 → ∃ u1 u2, w = u1 ++ w1 ++ u2 ∧
      (∀ n, n < u1.length → ¬ OccursAt w w1 n) ∧ out = u1 ++ w2 ++ u2)

/-- ⟦str.replace_all⟧(w, w₁, w₂) = w if w₁ = ε or w₁ does not occur in w;
    = u₁w₂⟦str.replace_all⟧(u₂, w₁, w₂) where u₁ is the shortest word such that w = u₁w₁u₂,
    otherwise.  (The recursive definition, as a relation; `replace_all_unique` shows it is a
    function.) -/
inductive ReplaceAll (w1 w2 : List Nat) : List Nat → List Nat → Prop
  | emptyPattern (w : List Nat) : w1 = [] → ReplaceAll w1 w2 w w
  | noOccurrence (w : List Nat) : ¬ Contains w w1 → ReplaceAll w1 w2 w w
  | step (w u1 u2 out : List Nat) : w1 ≠ [] → w = u1 ++ w1 ++ u2 →
      (∀ n, n < u1.length → ¬ OccursAt w w1 n) →
      ReplaceAll w1 w2 u2 out → ReplaceAll w1 w2 w (u1 ++ w2 ++ out)

theorem occursAt_iff (w p : List Nat) (n : Nat) : OccursAt w p n ↔ Occ w p n :=
  (occ_iff_decomp w p n).symm

theorem contains_iff (w p : List Nat) : Contains w p ↔ ∃ n, Occ w p n := by
  constructor
  · rintro ⟨u, v, h⟩; exact ⟨u.length, (occ_iff_decomp w p _).2 ⟨u, v, h, rfl⟩⟩
  · rintro ⟨n, h⟩
    obtain ⟨u, v, h, _⟩ := (occ_iff_decomp w p n).1 h
    exact ⟨u, v, h⟩

/-! ### naive_search -/

/-- `naive_search(pattern, string, k)` never panics; `Found(i, j)` is the least occurrence at or
    after `k` (with `j = i + |pattern|`), `NotFound` means there is none -/
theorem naive_search_spec (p s : List Nat) (k : Nat) :
    ∃ r, naiveSearch p s k = some r ∧
      match r with
      | .found i j => k ≤ i ∧ OccursAt s p i ∧ j = i + p.length ∧
          ∀ n, k ≤ n → n < i → ¬ OccursAt s p n
      | .notFound => ∀ n, k ≤ n → ¬ OccursAt s p n := by
  obtain ⟨r, hr, hs⟩ := naiveSearch_spec p s k
  refine ⟨r, hr, ?_⟩
  cases r with
  | notFound => intro n hn; rw [occursAt_iff]; exact hs n hn
  | found i j =>
    obtain ⟨h1, h2, h3, h4⟩ := hs
    refine ⟨h1, (occursAt_iff _ _ _).2 h2, h3, ?_⟩
    intro n hn1 hn2; rw [occursAt_iff]; exact h4 n hn1 hn2

/-! ### concat, len -/

/-- `str_concat` is `str.++`; it panics exactly when the result is longer than `i32::MAX` -/
theorem str_concat_spec (s1 s2 : List Nat) :
    (LenOk (s1 ++ s2) → strConcat s1 s2 = some (s1 ++ s2)) ∧
    (¬ LenOk (s1 ++ s2) → strConcat s1 s2 = none) := by
  unfold strConcat vectorConcat make LenOk
  constructor
  · intro h; rw [if_neg (by omega)]
  · intro h; rw [if_pos (by omega)]

/-- `str_len` is `str.len` -/
theorem str_len_spec (s : List Nat) (h : LenOk s) : strLen s = (s.length : Int) :=
  usizeAsI32_of_le _ h

/-! ### at, substr -/

theorem substr_spec_unique (w : List Nat) (m n : Int) (a b : List Nat)
    (ha : SubstrSpec w m n a) (hb : SubstrSpec w m n b) : a = b := by
  by_cases hc : 0 ≤ m ∧ m < (w.length : Int) ∧ 0 < n
  · obtain ⟨a1, a3, hwa, hla, hlen_a⟩ := ha.1 hc
    obtain ⟨b1, b3, hwb, hlb, hlen_b⟩ := hb.1 hc
    have h1 : a1.length = b1.length := by omega
    have h2 : a.length = b.length := by omega
    rw [hwb, List.append_assoc, List.append_assoc] at hwa
    have h3 := (List.append_inj hwa h1.symm).2
    exact ((List.append_inj h3 h2.symm).1).symm
  · rw [ha.2 hc, hb.2 hc]

/-- `str_substr` is `str.substr` for every string and all i32 arguments; it never panics -/
theorem str_substr_spec (s : List Nat) (i n : Int) (hs : LenOk s) (_hi : IsI32 i) (hn : IsI32 n) :
    ∃ r, strSubstr s i n = some r ∧ SubstrSpec s i n r := by
  have hn' : n ≤ 2147483647 := hn.2
  refine ⟨_, strSubstr_closed s i n hs hn', ?_⟩
  by_cases hc : 0 ≤ i ∧ i < (s.length : Int) ∧ 0 < n
  · rw [if_pos hc]
    refine ⟨fun _ => ?_, fun h => (h hc).elim⟩
    refine ⟨s.take i.toNat, s.drop (i.toNat + min n.toNat (s.length - i.toNat)), ?_, ?_, ?_⟩
    · conv_lhs => rw [← List.take_append_drop i.toNat s,
        ← List.take_append_drop (min n.toNat (s.length - i.toNat)) (s.drop i.toNat)]
      rw [List.drop_drop, List.append_assoc]
    · simp only [List.length_take]; omega
    · simp only [List.length_take, List.length_drop]; omega
  · rw [if_neg hc]
    exact ⟨fun h => (hc h).elim, fun _ => rfl⟩

/-- `str_at` is `str.at` (= `str.substr(·, ·, 1)`); it never panics -/
theorem str_at_spec (s : List Nat) (i : Int) (hs : LenOk s) (hwf : WFs s) (hi : IsI32 i) :
    ∃ r, strAt s i = some r ∧ AtSpec s i r := by
  obtain ⟨r, hr, hspec⟩ := str_substr_spec s i 1 hs hi (by unfold IsI32 I32_MIN I32_MAX; omega)
  refine ⟨r, ?_, hspec⟩
  rw [strAt_closed s i hs hwf]
  rw [strSubstr_closed s i 1 hs (by omega)] at hr
  rw [← hr]
  by_cases hc : 0 ≤ i ∧ i < (s.length : Int)
  · have hc' : 0 ≤ i ∧ i < (s.length : Int) ∧ (0 : Int) < 1 := ⟨hc.1, hc.2, by omega⟩
    rw [if_pos hc, if_pos hc']
    have : min (1 : Int).toNat (s.length - i.toNat) = 1 := by
      have : (1 : Int).toNat = 1 := rfl
      omega
    rw [this]
  · have hc' : ¬ (0 ≤ i ∧ i < (s.length : Int) ∧ (0 : Int) < 1) := fun h => hc ⟨h.1, h.2.1⟩
    rw [if_neg hc, if_neg hc']

/-- inside the string `str_at` returns the one-character string at that index -/
theorem str_at_inside (s : List Nat) (i : Nat) (hs : LenOk s) (hwf : WFs s) (hi : i < s.length) :
    strAt s (i : Int) = some [s[i]] := by
  rw [strAt_closed s i hs hwf, if_pos ⟨by omega, by omega⟩]
  simp only [Int.toNat_natCast]
  rw [List.drop_eq_getElem_cons hi, List.take_succ_cons, List.take_zero]

/-! ### prefixof, suffixof, contains -/

theorem str_prefixof_spec (s1 s2 : List Nat) :
    ∃ b, strPrefixof s1 s2 = some b ∧ (b = true ↔ PrefixOf s1 s2) := by
  obtain ⟨b, h1, h2⟩ := vectorPrefix_spec s1 s2
  exact ⟨b, h1, by rw [h2, occ_zero_iff]; rfl⟩

theorem str_suffixof_spec (s1 s2 : List Nat) :
    ∃ b, strSuffixof s1 s2 = some b ∧ (b = true ↔ SuffixOf s1 s2) := by
  obtain ⟨b, h1, h2⟩ := vectorSuffix_spec s1 s2
  exact ⟨b, h1, by rw [h2, occ_end_iff]; rfl⟩

/-- `str_contains(s1, s2)`: `s2` is a substring of `s1` -/
theorem str_contains_spec (s1 s2 : List Nat) :
    ∃ b, strContains s1 s2 = some b ∧ (b = true ↔ Contains s1 s2) := by
  obtain ⟨b, h1, h2⟩ := strContains_spec s1 s2
  exact ⟨b, h1, by rw [h2, contains_iff]⟩

/-! ### indexof -/

theorem indexof_spec_unique (w w2 : List Nat) (i a b : Int)
    (ha : IndexofSpec w w2 i a) (hb : IndexofSpec w w2 i b) : a = b := by
  by_cases hc : 0 ≤ i ∧ ∃ n : Nat, i ≤ (n : Int) ∧ OccursAt w w2 n
  · obtain ⟨na, rfl, ha1, ha2, ha3⟩ := ha.1 hc
    obtain ⟨nb, rfl, hb1, hb2, hb3⟩ := hb.1 hc
    have h1 := ha3 nb hb1 hb2
    have h2 := hb3 na ha1 ha2
    omega
  · rw [ha.2 hc, hb.2 hc]

/-- `str_indexof` is `str.indexof` for every pair of strings and every i32 start index:
    the least occurrence at or after `i`, else −1; it never panics -/
theorem str_indexof_spec (s1 s2 : List Nat) (i : Int) (hs : LenOk s1) (_hi : IsI32 i) :
    ∃ r, strIndexof s1 s2 i = some r ∧ IndexofSpec s1 s2 i r := by
  obtain ⟨r, hr, h1, h2⟩ := strIndexof_spec s1 s2 i hs
  refine ⟨r, hr, ?_, ?_⟩
  · rintro ⟨h0, n, hn, ho⟩
    obtain ⟨m, hm1, hm2, hm3, hm4⟩ := h1 ⟨h0, n, hn, (occursAt_iff _ _ _).1 ho⟩
    exact ⟨m, hm1, hm2, (occursAt_iff _ _ _).2 hm3,
      fun n' hn' ho' => hm4 n' hn' ((occursAt_iff _ _ _).1 ho')⟩
  · intro hneg
    apply h2
    rintro ⟨h0, n, hn, ho⟩
    exact hneg ⟨h0, n, hn, (occursAt_iff _ _ _).2 ho⟩

/-- the empty pattern is found at every position `0 ≤ i ≤ |s|`, in particular at `i = |s|`
    (the as-found code returned −1 there, DESIGN.md §9 D3) -/
theorem str_indexof_empty_pattern (s : List Nat) (i : Nat) (hs : LenOk s) (hi : i ≤ s.length) :
    strIndexof s [] (i : Int) = some (i : Int) := by
  have hI : IsI32 (i : Int) := by unfold IsI32 I32_MIN I32_MAX LenOk at *; omega
  obtain ⟨r, hr, hspec⟩ := str_indexof_spec s [] i hs hI
  have hocc : OccursAt s [] i := ⟨s.take i, s.drop i, by simp, by simp; omega⟩
  obtain ⟨n, hn1, hn2, _, hn4⟩ := hspec.1 ⟨by omega, i, by omega, hocc⟩
  have := hn4 i (by omega) hocc
  have hni : n = i := by omega
  rw [hr, hn1, hni]

/-! ### replace -/

theorem replace_spec_unique (w w1 w2 a b : List Nat)
    (ha : ReplaceSpec w w1 w2 a) (hb : ReplaceSpec w w1 w2 b) : a = b := by
  by_cases hc : Contains w w1
  · obtain ⟨a1, a2, hwa, hsa, rfl⟩ := ha.2 hc
    obtain ⟨b1, b2, hwb, hsb, rfl⟩ := hb.2 hc
    have hl : a1.length = b1.length := by
      rcases Nat.lt_trichotomy a1.length b1.length with h | h | h
      · exact (hsb a1.length h ⟨a1, a2, hwa, rfl⟩).elim
      · exact h
      · exact (hsa b1.length h ⟨b1, b2, hwb, rfl⟩).elim
    rw [hwb, List.append_assoc, List.append_assoc] at hwa
    obtain ⟨e1, e2⟩ := List.append_inj hwa hl.symm
    have e3 := List.append_cancel_left e2
    rw [e1, e3]
  · rw [ha.1 hc, hb.1 hc]

/-- `str_replace` is `str.replace`: the leftmost occurrence is replaced; it panics exactly when
    the SMT-LIB result is longer than `i32::MAX` (`make out = none`) -/
theorem str_replace_spec (s p r : List Nat) :
    ∃ out, ReplaceSpec s p r out ∧ strReplace s p r = make out := by
  obtain ⟨h1, h2⟩ := strReplace_spec s p r
  by_cases hc : ∃ n, Occ s p n
  · obtain ⟨i, hi1, hi2, hi3⟩ := h2 hc
    refine ⟨_, ⟨fun hn => (hn ((contains_iff _ _).2 hc)).elim, fun _ => ?_⟩, hi3⟩
    obtain ⟨u, v, huv, hul⟩ := (occ_iff_decomp s p i).1 hi1
    refine ⟨u, v, huv, ?_, ?_⟩
    · intro n hn; rw [occursAt_iff]; exact hi2 n (by omega)
    · subst hul
      have e1 : List.take u.length s = u := by rw [huv]; simp
      have e2 : List.drop (u.length + p.length) s = v := by
        rw [huv, ← List.length_append, List.drop_left']
        rfl
      rw [e1, e2]
  · exact ⟨s, ⟨fun _ => rfl, fun h => (hc ((contains_iff _ _).1 h)).elim⟩, h1 hc⟩

/-- an empty pattern prepends the replacement -/
theorem str_replace_empty_pattern (s r : List Nat) : strReplace s [] r = make (r ++ s) := by
  obtain ⟨out, hspec, h⟩ := str_replace_spec s [] r
  have : ReplaceSpec s [] r (r ++ s) := by
    refine ⟨fun hn => (hn ⟨[], s, rfl⟩).elim, fun _ => ⟨[], s, rfl, ?_, rfl⟩⟩
    intro n hn; simp at hn
  rw [h, replace_spec_unique s [] r out (r ++ s) hspec this]

/-! ### replace_all -/

theorem replace_all_unique (w1 w2 w a b : List Nat)
    (ha : ReplaceAll w1 w2 w a) (hb : ReplaceAll w1 w2 w b) : a = b := by
  induction ha generalizing b with
  | emptyPattern w he =>
    cases hb with
    | emptyPattern _ _ => rfl
    | noOccurrence _ _ => rfl
    | step _ u1 u2 out hne _ _ _ => exact (hne he).elim
  | noOccurrence w hno =>
    cases hb with
    | emptyPattern _ _ => rfl
    | noOccurrence _ _ => rfl
    | step _ u1 u2 out hne hw _ _ => exact (hno ⟨u1, u2, hw⟩).elim
  | step w a1 a2 outa hne hwa hsa hra ih =>
    cases hb with
    | emptyPattern _ he => exact (hne he).elim
    | noOccurrence _ hno => exact (hno ⟨a1, a2, hwa⟩).elim
    | step _ b1 b2 outb _ hwb hsb hrb =>
      have hl : a1.length = b1.length := by
        rcases Nat.lt_trichotomy a1.length b1.length with h | h | h
        · exact (hsb a1.length h ⟨a1, a2, hwa, rfl⟩).elim
        · exact h
        · exact (hsa b1.length h ⟨b1, b2, hwb, rfl⟩).elim
      rw [hwb, List.append_assoc, List.append_assoc] at hwa
      obtain ⟨e1, e2⟩ := List.append_inj hwa hl.symm
      have e3 := List.append_cancel_left e2
      subst e1 e3
      rw [ih outb hrb]

/-- `str_replace_all` is `str.replace_all`: the left-to-right non-overlapping occurrences are
    replaced (empty pattern: identity); the `while let` loop terminates (`replaceAllLoop` is a
    total function) and the only panic is the documented one of `make` on the final result -/
theorem str_replace_all_spec (s p r : List Nat) :
    ∃ out, ReplaceAll p r s out ∧ strReplaceAll s p r = make out := by
  unfold strReplaceAll makeFromSlice
  by_cases hp : p.length = 0
  · rw [dif_pos hp]
    exact ⟨s, ReplaceAll.emptyPattern s (List.eq_nil_of_length_eq_zero hp), rfl⟩
  · rw [dif_neg hp]
    have hne : p ≠ [] := fun h => hp (by rw [h]; rfl)
    have := replaceAllLoop_spec s p r (Nat.pos_of_ne_zero hp) (ReplaceAll p r)
      (fun w hno => ReplaceAll.noOccurrence w (fun hc => by
        obtain ⟨n, hn⟩ := (contains_iff _ _).1 hc
        exact hno n hn))
      (fun w j out hocc hleast hrec => by
        have hj := hocc.1
        refine ReplaceAll.step w (w.take j) (w.drop (j + p.length)) out hne ?_ ?_ hrec
        · obtain ⟨u, v, huv, hul⟩ := (occ_iff_decomp w p j).1 hocc
          subst hul
          have e1 : List.take u.length w = u := by rw [huv]; simp
          have e2 : List.drop (u.length + p.length) w = v := by
            rw [huv, ← List.length_append, List.drop_left']
            rfl
          rw [e1, e2]; exact huv
        · intro n hn
          rw [occursAt_iff]
          apply hleast
          simp only [List.length_take] at hn
          omega)
      0 [] (Nat.zero_le _)
    simpa using this

/-! ### non-vacuity: the hypotheses are met by ordinary values, the specifications are not trivial -/

example : LenOk [97, 98, 99] ∧ WFs [97, 0, 196607] ∧ IsI32 3 ∧ IsI32 (-2147483648) ∧ IsI32 2147483647 := by
  refine ⟨by decide, ?_, by decide, by decide, by decide⟩
  intro c hc; simp at hc; rcases hc with rfl | rfl | rfl <;> decide

/-- the D3 witness: `str_indexof("abc", "", 3) = 3`
    (`Smt.Legacy.indexof_counterexample`: the as-found guard `i >= len` gave −1) -/
example : strIndexof [97, 98, 99] [] 3 = some 3 :=
  str_indexof_empty_pattern [97, 98, 99] 3 (by decide) (by decide)

/-- `"aaa"` with every `"aa"` replaced by `"b"` is `"ba"` (left to right, non-overlapping) -/
example : ReplaceAll [97, 97] [98] [97, 97, 97] [98, 97] := by
  have h2 : ReplaceAll [97, 97] [98] [97] [97] := by
    apply ReplaceAll.noOccurrence
    rintro ⟨u, v, h⟩
    have := congrArg List.length h
    simp at this; omega
  exact ReplaceAll.step [97, 97, 97] [] [97] [97] (by decide) rfl (by intro n hn; simp at hn) h2

example : SubstrSpec [97, 98, 99, 100] 1 2 [98, 99] := by
  refine ⟨fun _ => ⟨[97], [100], rfl, rfl, rfl⟩, fun h => (h (by decide)).elim⟩

end Smt.C06
