/-
  C03 — Derivatives are left quotients and every derivative class is uniform.

  Property theorems (DESIGN.md §7 C03); helper lemmas are in Proofs/Deriv.lean (left-quotient
  algebra, main induction), Proofs/ReNZ.lean (`RE.NZ`).

  Domain: `Good e := e.WF ∧ e.NZ` — well-formed terms without a `[0,0]` loop.  (`mk_loop` rewrites
  a `[0,0]` loop to epsilon, so no term of a manager contains one; for `.loop e ⟨0, some 0⟩` the loop
  rule of `compute_derivative` is wrong, see Proofs/ReNZ.lean.)  Every theorem is for ALL such
  terms, ALL characters `c ≤ MAX_CHAR`, ALL id assignments `ord` with `PairSound ord` (the only fact
  about ids the language theorems need, DESIGN.md §6; the soundness of the smart constructors used
  by `compute_derivative` — bundle `Deriv.ConsFacts` — is discharged in Proofs/DerivFinal.lean from
  Proofs/ReLangCore.lean, Proofs/ReSetOps.lean, Props/C16.lean and Proofs/DerivNZ.lean).
-/
import SmtModel.Proofs.Deriv
import SmtModel.Proofs.DerivFinal

namespace Smt.C03
open Smt RE CharPartition Deriv

/-! ### the specification: left quotients and set-theoretic classes -/

/-- `c⁻¹ L` -/
def leftQuotient (c : ℕ) (L : Language ℕ) : Language ℕ := {w | c :: w ∈ L}

/-- `s⁻¹ L` for a string -/
def leftQuotientStr (s : List ℕ) (L : Language ℕ) : Language ℕ := {w | s ++ w ∈ L}

/-- set-theoretic meaning of a class id of a partition: the characters of the `i`-th interval,
    resp. the characters of the alphabet that lie in no interval -/
def InClass (p : CharPartition) : ClassId → ℕ → Prop
  | .interval i, x => ∃ h : i < p.list.length, p.list[i].start ≤ x ∧ x ≤ p.list[i].stop
  | .complement, x => x ≤ MAX_CHAR ∧ ∀ s ∈ p.list, ¬ (s.start ≤ x ∧ x ≤ s.stop)

/-- `x` belongs to the interval `S` -/
def InSet (x : ℕ) (S : CharSet) : Prop := S.start ≤ x ∧ x ≤ S.stop

instance (x : ℕ) (S : CharSet) : Decidable (InSet x S) := by unfold InSet; infer_instance

theorem inClass_iff {p : CharPartition} (hp : p.WF) {x : ℕ} (hx : x ≤ MAX_CHAR) (cid : ClassId) :
    InClass p cid x ↔ p.classOfChar x = cid := by
  cases cid with
  | interval i => exact ((C11.class_of_char_spec p hp x).1 i).symm
  | complement =>
    simp only [InClass, hx, true_and]
    exact (C11.class_of_char_spec p hp x).2.1.symm

/-! ### the derivative classes -/

/-- the derivative classes of a well-formed term form a well-formed partition -/
theorem deriv_class_wf (e : RE) (he : e.WF) : e.derivClass.WF := derivClass_wf e he

/-- T:deriv_class_uniform — two characters of the same derivative class have the same left
    quotient (every well-formed term, `[0,0]` loops included; no id assignment involved) -/
theorem deriv_class_uniform (e : RE) (he : e.WF) (c c' : ℕ) (hc : c ≤ MAX_CHAR)
    (hc' : c' ≤ MAX_CHAR)
    (h : e.derivClass.classOfChar c = e.derivClass.classOfChar c') :
    ∀ w, c :: w ∈ e.lang ↔ c' :: w ∈ e.lang :=
  fun w => ⟨unif_imp e he c c' hc hc' h w, unif_imp e he c' c hc' hc h.symm w⟩

/-- T:class_ids_cover — the class ids listed for `e` are pairwise distinct and every character of
    the alphabet lies in exactly one listed class, the one `class_of_char` returns -/
theorem class_ids_cover (e : RE) (he : e.WF) (c : ℕ) (hc : c ≤ MAX_CHAR) :
    e.derivClass.classIds.Nodup ∧
    e.derivClass.classOfChar c ∈ e.derivClass.classIds ∧
    InClass e.derivClass (e.derivClass.classOfChar c) c ∧
    ∀ cid ∈ e.derivClass.classIds, InClass e.derivClass cid c → cid = e.derivClass.classOfChar c := by
  have hp := derivClass_wf e he
  obtain ⟨_, hmem, hnd⟩ := C11.class_ids_spec _ hp
  refine ⟨hnd, (hmem _).2 ⟨c, hc, rfl⟩, (inClass_iff hp hc _).2 rfl, ?_⟩
  intro cid _ h
  exact ((inClass_iff hp hc cid).1 h).symm

/-! ### compute_derivative, char_derivative, str_derivative, str_in_re -/

section
variable {ord : RE → Nat}

/-- T:compute_derivative_lang — `compute_derivative(e, c0)` for any `c0` in the derivative class
    of `c` (in particular the class representative, through which `deriv` computes) denotes
    `c⁻¹ L(e)` and is again in the domain -/
theorem compute_derivative_lang (hps : PairSound ord) (e : RE) (he : Good e) (c0 c : ℕ) (hc : c ≤ MAX_CHAR)
    (h : e.derivClass.classOfChar c0 = e.derivClass.classOfChar c) :
    (computeDeriv ord e c0).lang = leftQuotient c e.lang ∧ Good (computeDeriv ord e c0) :=
  computeDeriv_spec (DerivFinal.consFacts hps) e he c0 c hc h

/-- T:char_derivative_quotient — for EVERY character of the alphabet (not only representatives) -/
theorem char_derivative_quotient (hps : PairSound ord) (e : RE) (he : Good e) (c : ℕ) (hc : c ≤ MAX_CHAR) :
    (charDerivative ord e c).lang = leftQuotient c e.lang :=
  (deriv_spec (DerivFinal.consFacts hps) he hc).1

theorem char_derivative_mem (hps : PairSound ord) (e : RE) (he : Good e) (c : ℕ) (hc : c ≤ MAX_CHAR) (w : List ℕ) :
    w ∈ (charDerivative ord e c).lang ↔ c :: w ∈ e.lang := by
  rw [char_derivative_quotient hps e he c hc]; exact Iff.rfl

/-- the derivative stays in the domain (so derivatives can be iterated) -/
theorem deriv_wf (hps : PairSound ord) (e : RE) (he : Good e) (c : ℕ) (hc : c ≤ MAX_CHAR) : Good (deriv ord e c) :=
  (deriv_spec (DerivFinal.consFacts hps) he hc).2

/-- T:str_derivative_quotient -/
theorem str_derivative_quotient (hps : PairSound ord) (e : RE) (he : Good e) (s : List ℕ) (hs : WFs s) :
    (strDerivative ord e s).lang = leftQuotientStr s e.lang ∧ Good (strDerivative ord e s) :=
  strDerivative_spec (DerivFinal.consFacts hps) s e he hs

/-- `str_in_re` decides membership -/
theorem str_in_re_iff_lang (hps : PairSound ord) (e : RE) (he : Good e) (s : List ℕ) (hs : WFs s) :
    strInRe ord s e = true ↔ s ∈ e.lang := by
  obtain ⟨hl, hg⟩ := strDerivative_spec (DerivFinal.consFacts hps) s e he hs
  unfold strInRe
  rw [Deriv.nullable_iff _ hg.1, hl]
  show s ++ [] ∈ e.lang ↔ _
  rw [List.append_nil]

/-! ### class_derivative -/

/-- the derivative computed for a valid class id: through the class pick -/
theorem cached_deriv_spec (hps : PairSound ord) (e : RE) (he : Good e) (cid : ClassId) (d : RE)
    (h : cachedDeriv ord e cid = some d) (c : ℕ) (hc : c ≤ MAX_CHAR)
    (hcid : e.derivClass.classOfChar c = cid) : d.lang = leftQuotient c e.lang ∧ Good d := by
  have hp := derivClass_wf e he.1
  unfold cachedDeriv at h
  obtain ⟨x, hx, rfl⟩ := Option.map_eq_some_iff.1 h
  obtain ⟨_, hxc⟩ := (C11.pick_in_class_spec _ hp cid).2 x hx
  exact computeDeriv_spec (DerivFinal.consFacts hps) e he x c hc (hxc.trans hcid.symm)

theorem cached_deriv_none_iff (e : RE) (he : e.WF) (cid : ClassId) :
    cachedDeriv ord e cid = none ↔ e.derivClass.validClassId cid = false := by
  unfold cachedDeriv
  rw [Option.map_eq_none_iff]
  exact (C11.pick_in_class_spec _ (derivClass_wf e he) cid).1

/-- T:class_derivative_all_chars — the result for class `cid` is the derivative with respect to
    EVERY character of that class, not only its representative -/
theorem class_derivative_all_chars (hps : PairSound ord) (e : RE) (he : Good e) (cid : ClassId) (d : RE)
    (h : classDerivative ord e cid = some (.ok d)) :
    ∀ c, c ≤ MAX_CHAR → e.derivClass.classOfChar c = cid →
      d.lang = leftQuotient c e.lang ∧ Good d := by
  intro c hc hcid
  unfold classDerivative at h
  split at h
  · obtain ⟨d', hd', hok⟩ := Option.map_eq_some_iff.1 h
    cases hok
    exact cached_deriv_spec hps e he cid _ (by assumption) c hc hcid
  · cases h

/-- a valid class id always yields a derivative: no panic, no error -/
theorem class_derivative_valid (e : RE) (he : e.WF) (cid : ClassId)
    (hv : e.derivClass.validClassId cid = true) :
    ∃ d, classDerivative ord e cid = some (.ok d) := by
  unfold classDerivative
  rw [if_pos hv]
  cases hd : cachedDeriv ord e cid with
  | none => rw [(cached_deriv_none_iff e he cid).1 hd] at hv; cases hv
  | some d => exact ⟨d, rfl⟩

/-- `class_derivative` rejects exactly the invalid class ids, with `BadClassId` -/
theorem class_derivative_bad_class_id (e : RE) (he : e.WF) (cid : ClassId) :
    classDerivative ord e cid = some (.error .BadClassId) ↔
      e.derivClass.validClassId cid = false := by
  constructor
  · intro h
    cases hv : e.derivClass.validClassId cid with
    | false => rfl
    | true =>
      obtain ⟨d, hd⟩ := class_derivative_valid (ord := ord) e he cid hv
      rw [hd] at h; cases h
  · intro hv
    unfold classDerivative
    rw [hv]; rfl

/-- `class_derivative` never panics on a well-formed term, and `BadClassId` is its only error -/
theorem class_derivative_total (e : RE) (he : e.WF) (cid : ClassId) :
    (∃ d, classDerivative ord e cid = some (.ok d)) ∨
      classDerivative ord e cid = some (.error .BadClassId) := by
  cases hv : e.derivClass.validClassId cid with
  | true => exact .inl (class_derivative_valid e he cid hv)
  | false => exact .inr ((class_derivative_bad_class_id e he cid).2 hv)

/-- `class_derivative_unchecked` panics exactly on an invalid class id -/
theorem class_derivative_unchecked_none_iff (e : RE) (he : e.WF) (cid : ClassId) :
    classDerivativeUnchecked ord e cid = none ↔ e.derivClass.validClassId cid = false :=
  cached_deriv_none_iff e he cid

/-! ### set_derivative -/

/-- all characters of `S` lie in the class `cid` when `class_of_set` says so -/
theorem class_of_set_ok {p : CharPartition} (hp : p.WF) {S : CharSet} (hS : S.WF) {cid : ClassId}
    (h : p.classOfSet S = .ok cid) : ∀ c, InSet c S → c ≤ MAX_CHAR ∧ p.classOfChar c = cid := by
  intro c hc
  have hcm : c ≤ MAX_CHAR := by have := hS.2; have := hc.2; omega
  refine ⟨hcm, ?_⟩
  obtain ⟨h1, h2, _⟩ := C11.class_of_set_spec p hp S hS
  cases cid with
  | interval i =>
    obtain ⟨hi, hin⟩ := (h1 i).1 h
    exact ((C11.class_of_char_spec p hp c).1 i).2 ⟨hi, hin c hc⟩
  | complement =>
    have := h2.1 h c hc
    rw [classOfChar_eq_cls hp.1, cls_eq_complement_iff]
    exact this

/-- `class_of_set` succeeds when all characters of `S` are in one class, and that class is valid -/
theorem class_of_set_of_uniform {p : CharPartition} (hp : p.WF) {S : CharSet} (hS : S.WF)
    {cid : ClassId} (h : ∀ c, InSet c S → p.classOfChar c = cid) :
    p.classOfSet S = .ok cid ∧ p.validClassId cid = true := by
  obtain ⟨h1, h2, _⟩ := C11.class_of_set_spec p hp S hS
  have hstart : InSet S.start S := ⟨Nat.le_refl _, hS.1⟩
  have hsm : S.start ≤ MAX_CHAR := by have := hS.1; have := hS.2; omega
  refine ⟨?_, (C11.valid_class_id_spec p hp cid).2 ⟨S.start, hsm, h _ hstart⟩⟩
  cases cid with
  | interval i =>
    apply (h1 i).2
    have hi := (((C11.class_of_char_spec p hp _).1 i).1 (h _ hstart)).1
    exact ⟨hi, fun x hx => (((C11.class_of_char_spec p hp x).1 i).1 (h x hx)).2⟩
  | complement =>
    apply h2.2
    intro x hx
    have := h x hx
    rw [classOfChar_eq_cls hp.1, cls_eq_complement_iff] at this
    exact this

/-- T:set_derivative_spec, first half — a result `Ok(d)` is the derivative with respect to every
    character of `S` (all of `S` lies in one derivative class, possibly the complementary one) -/
theorem set_derivative_ok (hps : PairSound ord) (e : RE) (he : Good e) (S : CharSet) (hS : S.WF) (d : RE)
    (h : setDerivative ord e S = some (.ok d)) :
    (∃ cid, ∀ c, InSet c S → e.derivClass.classOfChar c = cid) ∧
    ∀ c, InSet c S → d.lang = leftQuotient c e.lang ∧ Good d := by
  have hp := derivClass_wf e he.1
  unfold setDerivative at h
  split at h
  · cases h
  · rename_i cid hcid
    obtain ⟨d', hd', hok⟩ := Option.map_eq_some_iff.1 h
    cases hok
    refine ⟨⟨cid, fun c hc => (class_of_set_ok hp hS hcid c hc).2⟩, ?_⟩
    intro c hc
    obtain ⟨hcm, hcc⟩ := class_of_set_ok hp hS hcid c hc
    exact cached_deriv_spec hps e he cid _ (by assumption) c hcm hcc

/-- T:set_derivative_spec, second half — the error `AmbiguousCharSet` is returned exactly when `S`
    meets more than one derivative class; there is no other error and no panic -/
theorem set_derivative_ambiguous_iff (e : RE) (he : e.WF) (S : CharSet) (hS : S.WF) :
    setDerivative ord e S = some (.error .AmbiguousCharSet) ↔
      ∃ c c', InSet c S ∧ InSet c' S ∧
        e.derivClass.classOfChar c ≠ e.derivClass.classOfChar c' := by
  have hp := derivClass_wf e he
  constructor
  · intro h
    by_contra hne
    have hall : ∀ c, InSet c S →
        e.derivClass.classOfChar c = e.derivClass.classOfChar S.start := by
      intro c hc
      by_contra hcc
      exact hne ⟨c, S.start, hc, ⟨Nat.le_refl _, hS.1⟩, hcc⟩
    obtain ⟨hok, _⟩ := class_of_set_of_uniform hp hS hall
    unfold setDerivative at h
    rw [hok] at h
    simp only at h
    obtain ⟨_, _, hx⟩ := Option.map_eq_some_iff.1 h
    cases hx
  · rintro ⟨c, c', hc, hc', hne⟩
    unfold setDerivative
    cases hcs : e.derivClass.classOfSet S with
    | error err =>
      have := (C11.class_of_set_spec _ hp S hS).2.2.2.1 err hcs
      subst this; rfl
    | ok cid =>
      exact absurd ((class_of_set_ok hp hS hcs c hc).2.trans
        (class_of_set_ok hp hS hcs c' hc').2.symm) hne

/-- when all of `S` lies in one class the result is `Ok`: neither an error nor a panic -/
theorem set_derivative_uniform (e : RE) (he : e.WF) (S : CharSet) (hS : S.WF)
    (h : ∀ c c', InSet c S → InSet c' S →
      e.derivClass.classOfChar c = e.derivClass.classOfChar c') :
    ∃ d, setDerivative ord e S = some (.ok d) := by
  have hp := derivClass_wf e he
  obtain ⟨hok, hv⟩ := class_of_set_of_uniform hp hS
    (cid := e.derivClass.classOfChar S.start) (fun c hc => h c S.start hc ⟨Nat.le_refl _, hS.1⟩)
  unfold setDerivative
  rw [hok]
  simp only
  cases hd : cachedDeriv ord e (e.derivClass.classOfChar S.start) with
  | none => rw [(cached_deriv_none_iff e he _).1 hd] at hv; cases hv
  | some d => exact ⟨d, rfl⟩

/-- `set_derivative` never panics on a well-formed term and a well-formed set -/
theorem set_derivative_total (e : RE) (he : e.WF) (S : CharSet) (hS : S.WF) :
    (∃ d, setDerivative ord e S = some (.ok d)) ∨
      setDerivative ord e S = some (.error .AmbiguousCharSet) := by
  by_cases h : ∃ c c', InSet c S ∧ InSet c' S ∧
      e.derivClass.classOfChar c ≠ e.derivClass.classOfChar c'
  · exact .inr ((set_derivative_ambiguous_iff e he S hS).2 h)
  · left
    apply set_derivative_uniform e he S hS
    intro c c' hc hc'
    by_contra hne
    exact h ⟨c, c', hc, hc', hne⟩

end

/-- characters of the same derivative class have the very same derivative term (this is what makes
    the derivative cache keyed by class id sound) -/
theorem deriv_eq_of_same_class (ord : RE → Nat) (e : RE) (he : e.WF) (c c' : ℕ)
    (h : e.derivClass.classOfChar c = e.derivClass.classOfChar c') :
    deriv ord e c = deriv ord e c' := by
  unfold deriv
  rw [classRep_congr (derivClass_wf e he) h]

/-! ### non-vacuity -/

section Example

/-- `[a-c]* b` -/
private def exE : RE := .concat (.loop (.range ⟨97, 99⟩) ⟨0, none⟩) (.range ⟨98, 98⟩)

private theorem exE_good : Good exE := by
  refine ⟨?_, by decide⟩
  simp only [exE, RE.WF]
  decide

/-- a (maximally non-injective) id assignment satisfying `PairSound` -/
private theorem one_pairSound : PairSound (fun _ => 1) := by intro x y _ h; cases h

/-- the derivative classes of `[a-c]* b` are `{a}`, `{b}`, `{c}` and the rest of the alphabet -/
private theorem exE_classes : exE.derivClass = ⟨[⟨97, 97⟩, ⟨98, 98⟩, ⟨99, 99⟩], 0⟩ := by decide

example : exE.derivClass.classIds =
    [.interval 0, .interval 1, .interval 2, .complement] := by decide

private theorem exE_cls (x : ℕ) : exE.derivClass.classOfChar x = cls exE.derivClass x :=
  classOfChar_eq_cls (derivClass_wf exE exE_good.1).1 x

example : exE.derivClass.classOfChar 99 = .interval 2 ∧
    exE.derivClass.classOfChar 1000 = .complement := by
  rw [exE_cls, exE_cls, exE_classes]; decide

private theorem wfs_ex1 : WFs [97, 99, 98] := (goodString_iff _).1 (by decide)
private theorem wfs_ex2 : WFs [97, 99] := (goodString_iff _).1 (by decide)

private theorem range_mem (a b x : ℕ) (h1 : a ≤ x) (h2 : x ≤ b) :
    [x] ∈ (RE.range ⟨a, b⟩).lang := by
  simp only [lang]; exact ⟨x, rfl, h1, h2⟩

/-- `acb ∈ L([a-c]* b)`, by the definition of the language -/
private theorem ex_mem : [97, 99, 98] ∈ exE.lang := by
  unfold exE
  rw [lang, lang]
  refine Language.mem_mul.2 ⟨[97, 99], ⟨2, ⟨by decide, trivial⟩, ?_⟩, [98], ?_, rfl⟩
  · rw [pow_succ', pow_succ', pow_zero, mul_one]
    exact Language.mem_mul.2 ⟨[97], range_mem 97 99 97 (by decide) (by decide), [99],
      range_mem 97 99 99 (by decide) (by decide), rfl⟩
  · exact range_mem 98 98 98 (by decide) (by decide)

/-- … hence `str_in_re` answers `true`, the string derivative is nullable, and the derivative with
    respect to `a` contains `cb` (theorems applied to concrete values: hypotheses satisfiable) -/
example : strInRe (fun _ => 1) [97, 99, 98] exE = true :=
  (str_in_re_iff_lang one_pairSound exE exE_good [97, 99, 98] wfs_ex1).2 ex_mem

example : [99, 98] ∈ (charDerivative (fun _ => 1) exE 97).lang :=
  (char_derivative_mem one_pairSound exE exE_good 97 (by decide) [99, 98]).2 ex_mem

example : [] ∈ (strDerivative (fun _ => 1) exE [97, 99, 98]).lang := by
  rw [(str_derivative_quotient one_pairSound exE exE_good [97, 99, 98] wfs_ex1).1]
  exact ex_mem

/-- a set straddling two classes (`{a}` and `{b}`): `AmbiguousCharSet` -/
example : setDerivative (fun _ => 1) exE ⟨97, 98⟩ = some (.error .AmbiguousCharSet) :=
  (set_derivative_ambiguous_iff exE exE_good.1 ⟨97, 98⟩ (by decide)).2
    ⟨97, 98, by decide, by decide, by rw [exE_cls, exE_cls, exE_classes]; decide⟩

/-- a set inside the complementary class: `Ok`, and the result is the derivative for each member -/
example : ∃ d, setDerivative (fun _ => 1) exE ⟨100, 200⟩ = some (.ok d) ∧
    d.lang = leftQuotient 150 exE.lang := by
  obtain ⟨d, hd⟩ := set_derivative_uniform (ord := fun _ => 1) exE exE_good.1 ⟨100, 200⟩
    (by decide) (by
      intro c c' hc hc'
      have key : ∀ x, InSet x ⟨100, 200⟩ → cls exE.derivClass x = .complement := by
        intro x hx
        rw [cls_eq_complement_iff, exE_classes]
        rintro ⟨s, hs, h1, h2⟩
        have h3 := hx.1
        simp only [List.mem_cons, List.not_mem_nil, or_false] at hs
        rcases hs with rfl | rfl | rfl <;> simp only at h1 h2 h3 <;> omega
      rw [exE_cls, exE_cls, key c hc, key c' hc'])
  exact ⟨d, hd, ((set_derivative_ok one_pairSound exE exE_good _ (by decide) d hd).2 150
    (by decide)).1⟩

/-- an invalid and a valid class id -/
example : classDerivative (fun _ => 1) exE (.interval 7) = some (.error .BadClassId) :=
  (class_derivative_bad_class_id exE exE_good.1 _).2 (by decide)

example : ∃ d, classDerivative (fun _ => 1) exE (.interval 1) = some (.ok d) :=
  class_derivative_valid exE exE_good.1 _ (by decide)

end Example

end Smt.C03
