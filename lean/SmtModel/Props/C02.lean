/-
  C02 — compile / try_compile yield a total DFA accepting exactly the regex language.

  Property: "For every regular expression e, the automaton returned by compile (or by try_compile
  when it returns Some) is deterministic and total over the whole SMT alphabet, and it accepts a
  string exactly when that string is in the language of e.  Stepping the automaton with
  next/str_next never fails for any state and any character in [0,0x2FFFF]."

  Quantifier: EVERY id assignment `ord` with `PairSound ord` (DESIGN.md §6; C07), EVERY term `e`
  with `e.WF ∧ e.NZ` (what every constructor of the manager produces), EVERY fuel, EVERY bound `n`
  of try_compile, EVERY automaton `A` with `compile ord fuel e = .ok A` or
  `tryCompile ord fuel e n = .ok (some A)` (`CompiledFrom ord e A`), EVERY state of `A`, EVERY
  character `c ≤ MAX_CHAR`, EVERY well-formed string `w` of any length (language EQUALITY, not
  sampled strings).  `l` is the derivative closure list, `iterDerivatives ord fuel' e = .ok l`
  (it exists whenever an automaton was returned: `closure_exists`).

  WHAT IS PROVED
    * `compiled_builder_state`   the builder state reached by the BFS loop of `compile_with_bound`
                                 IS `Builder.run 0 (compileOps ord l l.length)`: an explicit call
                                 sequence determined by `l` (Proofs/CompileCorrect.lean), keys
                                 first mentioned in the order 0,1,2,… (builder id of key k = k)
    * `compiled_spec_valid`      that specification: state `i` has exactly the transitions
                                 `(S_j ↦ idx (class derivative of l[i] for interval j))`, one per
                                 interval `S_j` of `l[i].derivClass`, default
                                 `idx (class derivative for the complementary class)` iff that class
                                 is non-empty, final iff `l[i].nullable`; labels are well-formed
                                 and pairwise disjoint, the default is declared iff some character
                                 is uncovered: it is `Valid` in the sense of C13; its delta on
                                 EVERY `c ≤ MAX_CHAR` is `idx (deriv l[i] c)`
    * `try_compile_no_panic`, `compile_no_panic`, `compile_succeeds`
                                 `build_unchecked` succeeds on that builder: neither function ever
                                 panics, for any fuel (this discharges
                                 `C19.compile_succeeds_partial` / `try_compile_no_panic_partial`);
                                 `compile` returns an automaton whenever the closure is enumerated
                                 within the fuel
    * `compiled_state_is_derivative`  `A.numStates = l.length`, state `i` has id `i`, is final iff
                                 `l[i].nullable`, and `next (state i) c = state (idx (deriv l[i] c))`
                                 for every `c ≤ MAX_CHAR` (majority-default promotion and the
                                 removal of transitions into the default do not change delta)
    * `compiled_total`           `next` never fails on any state and any `c ≤ MAX_CHAR`; `str_next`
                                 never fails on any state and any well-formed string; every
                                 successor index and default is a valid state; a default exists
                                 exactly when the complementary class is non-empty; the initial
                                 state exists
    * `compiled_deterministic`   every state's `classes` is a well-formed partition (intervals
                                 well-formed, sorted, pairwise disjoint) with exactly one successor
                                 per interval; ids are positions (`AutWF`)
    * `str_next_is_derivative`   `str_next (initial) w = state (idx (str_derivative e w))`
    * `accepts_eq_str_in_re`, `compile_accepts_iff`, `compile_language_eq`
                                 `A.accepts w = some (str_in_re w e)`, never `none`;
                                 `A.accepts w = some true ↔ w ∈ e.lang` for ALL well-formed `w`;
                                 `{w | WFs w ∧ A accepts w} = e.lang`
    * `get_string_accepted_by_automaton`  (C05's remaining clause) the witness returned by
                                 `get_string` is accepted by the compiled automaton

  WHAT IS NOT PROVED
    * TERMINATION (C19): that `compile`/`try_compile` return at all for every expression (fuel).
      Everything above is "for every fuel, if an automaton is returned then …"; `compile_no_panic`
      and `try_compile_no_panic` hold for every fuel unconditionally.
-/
import SmtModel.Proofs.CompileCorrect
import SmtModel.Props.C19Final
import SmtModel.Props.C05Final
import SmtModel.Props.C03

namespace Smt.C02
open Smt RE BuilderSpec

variable {ord : RE → Nat}

/-! ### vocabulary -/

/-- `A` was returned by `compile(e)` or by `try_compile(e, n)` (for some fuel of the model) -/
def CompiledFrom (ord : RE → Nat) (e : RE) (A : Automaton) : Prop :=
  (∃ fuel, compile ord fuel e = .ok A) ∨ (∃ fuel n, tryCompile ord fuel e n = .ok (some A))

/-- the language of an automaton: the SMT strings it accepts -/
def acceptedLang (A : Automaton) : Language ℕ := {w | WFs w ∧ A.accepts w = some true}

/-- the domain: well-formed terms without `[0,0]` loop -/
abbrev Dom (e : RE) : Prop := e.WF ∧ e.NZ

private theorem cwf : ∀ e : RE, Dom e → e.derivClass.WF := fun e he => Deriv.derivClass_wf e he.1

/-! ### the builder state (what `compile_with_bound` tells the builder) -/

/-- **compiled_builder_state**: the builder returned by the BFS loop is exactly the builder
    reached by the call sequence `compileOps ord l l.length`; the keys `0 … l.length-1` were first
    mentioned in increasing order, so the builder's state id of key `k` is `k` -/
theorem compiled_builder_state (hps : PairSound ord) {e : RE} (he : e.WF) (hz : e.NZ)
    {n fuel fuel' : Nat} {l : List RE} {b : Builder}
    (hl : iterDerivatives ord fuel' e = .ok l)
    (hc : compileLoop ord n fuel [e] 0 (Builder.new 0) = .ok (some b)) :
    b = Builder.run 0 (compileOps ord l l.length) ∧
    keys 0 (compileOps ord l l.length) = List.range l.length ∧
    ∀ k, k < l.length → idOf 0 (compileOps ord l l.length) k = some k := by
  obtain ⟨h1, h2⟩ := compileLoop_builder (C19.closureFacts hps) (e := e) ⟨he, hz⟩ hl hc
  exact ⟨h1, h2, fun k hk => idOf_of_keys_range h2 hk⟩

/-- the class derivative for the `j`-th interval is the derivative at the interval's start -/
theorem cached_deriv_interval (hps : PairSound ord) {r : RE} (hr : r.WF) (hz : r.NZ) {j : Nat}
    {S : CharSet} (hS : r.derivClass.list[j]? = some S) :
    cachedDeriv ord r (.interval j) = some (deriv ord r S.start) := by
  have F := C19.closureFacts hps
  have h := setDeriv_interval F (r := r) ⟨hr, hz⟩ hS
  unfold setDerivativeUnchecked at h
  rw [F.class_set r j S ⟨hr, hz⟩ hS] at h
  exact h

/-- the class derivative for the complementary class is the derivative at `comp_witness` -/
theorem cached_deriv_complement (hps : PairSound ord) {r : RE} (hr : r.WF) (hz : r.NZ)
    (hec : r.derivClass.emptyComplement = false) :
    cachedDeriv ord r .complement = some (deriv ord r r.derivClass.compWitness) :=
  complDeriv (C19.closureFacts hps) (r := r) ⟨hr, hz⟩ hec

/-- **compiled_spec_valid**: the specification handed to the builder.  For the `i`-th term:
    one transition per interval of its derivative class, to the index of the class derivative;
    a default (to the index of the complement-class derivative) iff the complementary class is
    non-empty; final iff nullable.  The labels are well-formed, pairwise disjoint, and the default
    is declared exactly when some character is uncovered (`C13.Valid`); on EVERY character
    `c ≤ MAX_CHAR` the specified successor is the index of `deriv l[i] c`. -/
theorem compiled_spec_valid (hps : PairSound ord) {e : RE} (he : e.WF) (hz : e.NZ)
    {fuel' : Nat} {l : List RE} (hl : iterDerivatives ord fuel' e = .ok l) :
    C13.WFOps (compileOps ord l l.length) ∧ C13.Valid 0 (compileOps ord l l.length) ∧
    ∀ i (hi : i < l.length),
      transitions (compileOps ord l l.length) i =
        l[i].derivClass.list.map (fun S => (S, idxOf l (deriv ord l[i] S.start))) ∧
      BuilderSpec.default (compileOps ord l l.length) i =
        (if l[i].derivClass.emptyComplement then none
         else some (idxOf l (deriv ord l[i] l[i].derivClass.compWitness))) ∧
      final (compileOps ord l l.length) i = l[i].nullable ∧
      C13.LabelsDisjoint (compileOps ord l l.length) i ∧
      ((BuilderSpec.default (compileOps ord l l.length) i).isSome = true ↔
        C13.LeavesUncovered (compileOps ord l l.length) i) ∧
      ∀ c, c ≤ MAX_CHAR →
        specDelta (compileOps ord l l.length) i c = some (idxOf l (deriv ord l[i] c)) ∧
        deriv ord l[i] c ∈ l := by
  have F := C19.closureFacts hps
  have hg : Dom e := ⟨he, hz⟩
  have hinv : BInv ord e l l.length := C19.iter_invariant F hg hl
  have hgood := binv_good F hg hinv
  -- the keys: run the loop abstractly is not needed, `keys` follows from a finished loop; here we
  -- obtain it from the loop run with the fuel of `hl`
  have hkeys : keys 0 (compileOps ord l l.length) = List.range l.length := by
    have hfuel := compileLoop_fuel F hg (fuel' + 1) fuel' [e] 0 (Builder.new 0) l (BInv.init e)
      BK.new hl
    have hnp := compileLoop_no_panic F hg (fuel' + 1) fuel' [e] 0 (Builder.new 0) (BInv.init e)
      BK.new
    have hnn := compileLoop_ne_none (ord := ord) (fuel' + 1) fuel' [e] 0 (Builder.new 0)
      (by omega)
    cases hc : compileLoop ord (fuel' + 1) fuel' [e] 0 (Builder.new 0) with
    | outOfFuel => exact absurd hc hfuel
    | panic => exact absurd hc hnp
    | ok ob =>
      cases ob with
      | none => exact absurd hc hnn
      | some b => exact (compileLoop_builder F hg hl hc).2
  have hvalid := valid_cops (ord := ord) cwf hgood hkeys
  refine ⟨wfOps_cops cwf hgood, hvalid, ?_⟩
  intro i hi
  have hr : l[i]? = some l[i] := List.getElem?_eq_getElem hi
  have hvi := hvalid i (by rw [hkeys]; exact List.mem_range.2 hi)
  refine ⟨transitions_cops hr, default_cops hr, final_cops hr, hvi.1, hvi.2, ?_⟩
  intro c hc
  exact ⟨specDelta_cops F cwf hr (hgood _ (List.getElem_mem hi)) hc,
    binv_closed hinv (List.getElem_mem hi) hc⟩

/-! ### no panic -/

/-- **try_compile_no_panic**: `try_compile` never panics, whatever the fuel and the bound
    (discharges `C19.try_compile_no_panic_partial`) -/
theorem try_compile_no_panic (hps : PairSound ord) {e : RE} (he : e.WF) (hz : e.NZ)
    (fuel n : Nat) : tryCompile ord fuel e n ≠ .panic :=
  compileWithBound_no_panic (C19.closureFacts hps) cwf (e := e) ⟨he, hz⟩ n fuel

/-- **compile_no_panic**: `compile` never panics, whatever the fuel: the BFS loop does not,
    the bound is never reached, and `build_unchecked` succeeds on the builder state produced
    (discharges `C19.compile_succeeds_partial`) -/
theorem compile_no_panic (hps : PairSound ord) {e : RE} (he : e.WF) (hz : e.NZ) (fuel : Nat) :
    compile ord fuel e ≠ .panic := by
  intro hp
  obtain ⟨b, hb, hn⟩ := C19.Final.compile_succeeds_partial hps he hz hp
  have F := C19.closureFacts hps
  obtain ⟨l, hl⟩ := compileLoop_iter F (e := e) ⟨he, hz⟩ (fuel + 1) fuel [e] 0 _ b (BInv.init e)
    BK.new hb
  exact (compile_spec F cwf (e := e) ⟨he, hz⟩ (fuel := fuel) hl).1 hp

/-- **compile_succeeds**: whenever the derivative closure is enumerated within the fuel, `compile`
    returns an automaton -/
theorem compile_succeeds (hps : PairSound ord) {e : RE} (he : e.WF) (hz : e.NZ) {fuel : Nat}
    {l : List RE} (hl : iterDerivatives ord fuel e = .ok l) : ∃ A, compile ord fuel e = .ok A := by
  have h1 := compile_no_panic hps he hz fuel
  have h2 := C19.Final.compile_fuel hps he hz hl
  cases hc : compile ord fuel e with
  | ok A => exact ⟨A, rfl⟩
  | panic => exact absurd hc h1
  | outOfFuel => exact absurd hc h2

/-! ### the automaton is the derivative automaton -/

/-- whenever an automaton is returned, the derivative closure was enumerated (same fuel) -/
theorem closure_exists (hps : PairSound ord) {e : RE} (he : e.WF) (hz : e.NZ) {A : Automaton}
    (hA : CompiledFrom ord e A) : ∃ fuel l, iterDerivatives ord fuel e = .ok l := by
  have F := C19.closureFacts hps
  rcases hA with ⟨fuel, h⟩ | ⟨fuel, n, h⟩
  · unfold compile at h
    cases hc : compileWithBound ord fuel e (fuel + 1) with
    | outOfFuel => rw [hc] at h; cases h
    | panic => rw [hc] at h; cases h
    | ok r =>
      rw [hc] at h
      cases r with
      | none => cases h
      | some A' =>
        obtain ⟨l, hl⟩ := compileWithBound_closure F (e := e) ⟨he, hz⟩ hc
        exact ⟨fuel, l, hl⟩
  · obtain ⟨l, hl⟩ := compileWithBound_closure F (e := e) ⟨he, hz⟩ h
    exact ⟨fuel, l, hl⟩

/-- every automaton returned by `compile`/`try_compile` is the derivative automaton of the
    closure list (bundle `RE.Compiled`, Proofs/CompileCorrect.lean) -/
theorem compiled_of (hps : PairSound ord) {e : RE} (he : e.WF) (hz : e.NZ) {A : Automaton}
    (hA : CompiledFrom ord e A) {fuel' : Nat} {l : List RE}
    (hl : iterDerivatives ord fuel' e = .ok l) : Compiled ord l A := by
  have F := C19.closureFacts hps
  rcases hA with ⟨fuel, h⟩ | ⟨fuel, n, h⟩
  · exact (compile_spec F cwf (e := e) ⟨he, hz⟩ (fuel := fuel) hl).2 A h
  · exact (compileWithBound_spec F cwf (e := e) ⟨he, hz⟩ (n := n) (fuel := fuel) hl).2 A h

/-- **compiled_state_is_derivative**: the automaton has one state per term of the closure, state
    `i` has id `i` and is final exactly when `l[i]` is nullable, state 0 (the initial state) is
    `e`, and for EVERY character `c ≤ MAX_CHAR`, `next` from state `i` leads to the state of the
    term `deriv l[i] c` -/
theorem compiled_state_is_derivative (hps : PairSound ord) {e : RE} (he : e.WF) (hz : e.NZ)
    {A : Automaton} (hA : CompiledFrom ord e A) {fuel' : Nat} {l : List RE}
    (hl : iterDerivatives ord fuel' e = .ok l) :
    A.numStates = l.length ∧ A.states.length = l.length ∧ A.initialState = 0 ∧
    l.head? = some e ∧
    ∀ i (hi : i < l.length), ∃ s, A.states[i]? = some s ∧ s.id = i ∧
      s.isFinal = l[i].nullable ∧
      ∀ c, c ≤ MAX_CHAR → ∃ t, A.next s c = some t ∧
        A.states[idxOf l (deriv ord l[i] c)]? = some t ∧
        t.id = idxOf l (deriv ord l[i] c) ∧
        l[idxOf l (deriv ord l[i] c)]? = some (deriv ord l[i] c) := by
  have F := C19.closureFacts hps
  have hinv : BInv ord e l l.length := C19.iter_invariant F (e := e) ⟨he, hz⟩ hl
  have hC := compiled_of hps he hz hA hl
  refine ⟨hC.numStates, hC.len, hC.initial, hinv.head, ?_⟩
  intro i hi
  have hi' : i < A.states.length := by rw [hC.len]; exact hi
  have hs : A.states[i]? = some A.states[i] := List.getElem?_eq_getElem hi'
  refine ⟨A.states[i], hs, hC.wf.ids i hi', hC.isFinal i hi _ hs, ?_⟩
  intro c hc
  obtain ⟨hj, hn⟩ := hC.next i hi _ hs c hc
  have hj' : idxOf l (deriv ord l[i] c) < A.states.length := by rw [hC.len]; exact hj
  have ht : A.states[idxOf l (deriv ord l[i] c)]? = some A.states[idxOf l (deriv ord l[i] c)] :=
    List.getElem?_eq_getElem hj'
  exact ⟨_, hn.trans ht, ht, hC.wf.ids _ hj',
    idxOf_getElem? (binv_closed hinv (List.getElem_mem hi) hc)⟩

/-- **compiled_deterministic**: every state's `classes` is a well-formed partition — intervals
    well-formed, sorted and pairwise disjoint, `comp_witness` the least uncovered point — with
    exactly one successor per interval, so every character selects exactly one successor; state
    ids are positions -/
theorem compiled_deterministic (hps : PairSound ord) {e : RE} (he : e.WF) (hz : e.NZ)
    {A : Automaton} (hA : CompiledFrom ord e A) :
    AutWF A ∧ A.numStates = A.states.length ∧
    (∀ i (h : i < A.states.length), (A.states[i]).id = i) ∧
    ∀ s ∈ A.states, s.classes.WF ∧ s.successor.length = s.classes.len := by
  obtain ⟨_, l, hl⟩ := closure_exists hps he hz hA
  have hC := compiled_of hps he hz hA hl
  exact ⟨hC.wf, hC.wf.num, hC.wf.ids,
    fun s hs => ⟨(hC.wf.states s hs).classes, (hC.wf.states s hs).succLen⟩⟩

theorem strNext_total {A : Automaton} (h : AutWF A) :
    ∀ (w : List Nat), WFs w → ∀ s ∈ A.states, ∃ t ∈ A.states, A.strNext s w = some t := by
  intro w
  induction w with
  | nil => intro _ s hs; exact ⟨s, hs, rfl⟩
  | cons c w ih =>
    intro hw s hs
    rw [wfs_cons'] at hw
    obtain ⟨t, ht, htm⟩ := h.next_total hs hw.1
    obtain ⟨u, hu, hun⟩ := ih hw.2 t htm
    exact ⟨u, hu, by rw [Automaton.strNext, ht]; exact hun⟩

/-- **compiled_total**: for EVERY state `s` of the automaton and EVERY `c ≤ MAX_CHAR`,
    `next(s, c)` is a state of the automaton (never a panic); `str_next(s, w)` likewise for every
    well-formed string; every successor index and default stored in a state is a valid state
    index; a default successor exists exactly when the complementary class is non-empty; the
    initial state exists -/
theorem compiled_total (hps : PairSound ord) {e : RE} (he : e.WF) (hz : e.NZ)
    {A : Automaton} (hA : CompiledFrom ord e A) :
    (∀ s ∈ A.states, ∀ c, c ≤ MAX_CHAR → ∃ t ∈ A.states, A.next s c = some t) ∧
    (∀ s ∈ A.states, ∀ w, WFs w → ∃ t ∈ A.states, A.strNext s w = some t) ∧
    (∀ s ∈ A.states, (∀ j ∈ s.successor, j < A.numStates) ∧
      (∀ d, s.defaultSuccessor = some d → d < A.numStates) ∧
      s.defaultSuccessor.isSome = !s.classes.emptyComplement) ∧
    (∃ s0 ∈ A.states, A.initial = some s0) := by
  obtain ⟨hwf, hnum, _, _⟩ := compiled_deterministic hps he hz hA
  refine ⟨?_, fun s hs w hw => strNext_total hwf w hw s hs, ?_, ?_⟩
  · intro s hs c hc
    obtain ⟨t, ht, htm⟩ := hwf.next_total hs hc
    exact ⟨t, htm, ht⟩
  · intro s hs
    have := hwf.states s hs
    rw [hnum]
    exact ⟨this.succBound, this.defBound, this.defValid⟩
  · have := hwf.init
    exact ⟨A.states[A.initialState], List.getElem_mem this, by
      unfold Automaton.initial; exact List.getElem?_eq_getElem this⟩

/-- **str_next_is_derivative**: from the initial state, `str_next` on a well-formed string `w`
    reaches the state of the term `str_derivative(e, w)` -/
theorem str_next_is_derivative (hps : PairSound ord) {e : RE} (he : e.WF) (hz : e.NZ)
    {A : Automaton} (hA : CompiledFrom ord e A) {fuel' : Nat} {l : List RE}
    (hl : iterDerivatives ord fuel' e = .ok l) {w : List Nat} (hw : WFs w) :
    ∃ s0 t, A.initial = some s0 ∧ A.strNext s0 w = some t ∧
      A.states[idxOf l (strDerivative ord e w)]? = some t ∧
      l[idxOf l (strDerivative ord e w)]? = some (strDerivative ord e w) ∧
      t.isFinal = (strDerivative ord e w).nullable := by
  have F := C19.closureFacts hps
  have hinv : BInv ord e l l.length := C19.iter_invariant F (e := e) ⟨he, hz⟩ hl
  have hC := compiled_of hps he hz hA hl
  obtain ⟨h0, he0⟩ := idxOf_head hinv
  have h0' : 0 < A.states.length := by rw [hC.len]; exact h0
  have hs0 : A.states[0]? = some A.states[0] := List.getElem?_eq_getElem h0'
  obtain ⟨hj, hn⟩ := hC.strNext hinv w hw 0 h0 _ hs0
  have hmem : strDerivative ord e w ∈ l := hinv.complete hw
  have hj2 : idxOf l (strDerivative ord e w) < l.length := idxOf_lt hmem
  have hj' : idxOf l (strDerivative ord e w) < A.states.length := by rw [hC.len]; exact hj2
  have ht := List.getElem?_eq_getElem hj'
  have hn' : A.strNext A.states[0] w = A.states[idxOf l (strDerivative ord e w)]? := by
    rw [hn]; simp only [he0]
  refine ⟨A.states[0], _, ?_, hn'.trans ht, ht, idxOf_getElem? hmem, ?_⟩
  · unfold Automaton.initial; rw [hC.initial]; exact hs0
  · rw [hC.isFinal _ hj2 _ ht, idxOf_getElem hmem]

/-! ### the language -/

/-- `accepts` computes the membership test `str_in_re` (in particular it never panics) -/
theorem accepts_eq_str_in_re (hps : PairSound ord) {e : RE} (he : e.WF) (hz : e.NZ)
    {A : Automaton} (hA : CompiledFrom ord e A) {w : List Nat} (hw : WFs w) :
    A.accepts w = some (strInRe ord w e) := by
  have F := C19.closureFacts hps
  obtain ⟨_, l, hl⟩ := closure_exists hps he hz hA
  have hinv : BInv ord e l l.length := C19.iter_invariant F (e := e) ⟨he, hz⟩ hl
  exact (compiled_of hps he hz hA hl).accepts hinv hw

/-- **compile_accepts_iff**: for EVERY well-formed string `w` (any length), the automaton accepts
    `w` exactly when `w` belongs to the language of `e`; `accepts` never panics -/
theorem compile_accepts_iff (hps : PairSound ord) {e : RE} (he : e.WF) (hz : e.NZ)
    {A : Automaton} (hA : CompiledFrom ord e A) {w : List Nat} (hw : WFs w) :
    (A.accepts w = some true ↔ w ∈ e.lang) ∧ (A.accepts w = some false ↔ w ∉ e.lang) ∧
    A.accepts w ≠ none := by
  have h := accepts_eq_str_in_re hps he hz hA hw
  have hiff := C03.str_in_re_iff_lang hps e ⟨he, hz⟩ w hw
  rw [h]
  refine ⟨by simpa using hiff, ?_, by simp⟩
  rw [← hiff]
  simp

/-- **compile_language_eq**: the set of SMT strings accepted by the automaton IS the language of
    `e` (the SMT-LIB denotation `RE.lang` of Proofs/ReLang.lean) -/
theorem compile_language_eq (hps : PairSound ord) {e : RE} (he : e.WF) (hz : e.NZ)
    {A : Automaton} (hA : CompiledFrom ord e A) : acceptedLang A = e.lang := by
  ext w
  constructor
  · rintro ⟨hw, h⟩
    exact (compile_accepts_iff hps he hz hA hw).1.1 h
  · intro h
    have hw : WFs w := Deriv.lang_wfs e he w h
    exact ⟨hw, (compile_accepts_iff hps he hz hA hw).1.2 h⟩

/-- the same for the two entry points, spelled out -/
theorem compile_accepts (hps : PairSound ord) {e : RE} (he : e.WF) (hz : e.NZ) {fuel : Nat}
    {A : Automaton} (h : compile ord fuel e = .ok A) {w : List Nat} (hw : WFs w) :
    A.accepts w = some true ↔ w ∈ e.lang :=
  (compile_accepts_iff hps he hz (.inl ⟨fuel, h⟩) hw).1

theorem try_compile_accepts (hps : PairSound ord) {e : RE} (he : e.WF) (hz : e.NZ)
    {fuel n : Nat} {A : Automaton} (h : tryCompile ord fuel e n = .ok (some A)) {w : List Nat}
    (hw : WFs w) : A.accepts w = some true ↔ w ∈ e.lang :=
  (compile_accepts_iff hps he hz (.inr ⟨fuel, n, h⟩) hw).1

/-! ### C05's remaining clause -/

/-- **get_string_accepted_by_automaton**: the witness returned by `get_string(e)` is accepted by
    the compiled automaton -/
theorem get_string_accepted_by_automaton (hps : PairSound ord) {e : RE} (he : e.WF) (hz : e.NZ)
    {fuel : Nat} {s : List Nat} (h : getString ord fuel e = .ok (some s)) {A : Automaton}
    (hA : CompiledFrom ord e A) : A.accepts s = some true := by
  obtain ⟨hw, hs⟩ := C05.Final.get_string_member hps he hz h
  exact (compile_accepts_iff hps he hz hA hw).1.2 hs

/-! ### non-vacuity: a concrete id assignment and concrete terms meeting every hypothesis
    (`ab` = the regex `a·b`, `abStarA` = `[a-b]*·a`; ids constantly 0, which satisfies `PairSound`
    trivially) -/

private def ord0 : RE → Nat := fun _ => 0
private def ab : RE := .concat (.range ⟨97, 97⟩) (.range ⟨98, 98⟩)

example : PairSound ord0 := by intro x y h; simp [ord0] at h
example : ab.WF := by simp [ab, RE.WF, CharSet.WF, MAX_CHAR]
example : ab.NZ := by decide
example : iterDerivatives ord0 10 ab = .ok [ab, .range ⟨98, 98⟩, .empty, .epsilon] := by
  decide +kernel

/-- the automaton `compile` returns for `a·b` -/
private def abAut : Automaton :=
  { numStates := 4, numFinalStates := 1, initialState := 0,
    states := [⟨0, false, ⟨[⟨97, 97⟩], 0⟩, [1], some 2⟩,
               ⟨1, false, ⟨[⟨98, 98⟩], 0⟩, [3], some 2⟩,
               ⟨2, false, ⟨[], 0⟩, [], some 2⟩,
               ⟨3, true, ⟨[], 0⟩, [], some 2⟩] }

example : compile ord0 10 ab = .ok abAut := by decide +kernel
example : tryCompile ord0 10 ab 4 = .ok (some abAut) := by decide +kernel
example : CompiledFrom ord0 ab abAut := .inl ⟨10, by decide +kernel⟩
example : abAut.accepts [97, 98] = some true := by decide +kernel
example : abAut.accepts [97, 98, 98] = some false := by decide +kernel
example : getString ord0 10 ab = .ok (some [97, 98]) := by decide +kernel

/-- `[a-b]*·a`: a loop, two intervals per state, back edges, a sink reached by the default -/
private def abStarA : RE := .concat (.loop (.range ⟨97, 98⟩) ⟨0, none⟩) (.range ⟨97, 97⟩)

example : abStarA.WF := by simp [abStarA, RE.WF, CharSet.WF, MAX_CHAR]
example : abStarA.NZ := by decide
example : (match compile ord0 10 abStarA with
    | .ok A => A.numStates == 3 && A.accepts [98, 97, 97] == some true &&
        A.accepts [97, 98] == some false && A.accepts [97, 120] == some false
    | _ => false) = true := by decide +kernel

end Smt.C02
