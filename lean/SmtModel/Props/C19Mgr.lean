/-
  C19 — TERMINATION ON THE STATEFUL MANAGER MODEL (`Smt.Mgr`, Model/Manager.lean +
  Model/ManagerOps.lean: ids allocated on the fly, constructors sorting by the ACTUAL ids, the
  derivative cache), i.e. for the EVOLVING id assignment of a running `ReManager`.

  Props/C19Term.lean proves termination of the pure searches for an id oracle that is `PairSound`
  and GLOBALLY injective.  `Mgr.ord m` is injective only on the terms of the table (every absent
  tree gets `size + 1`), and the refinement theorems of Props/C07RefineOps.lean relate a FINISHED
  stateful run to the pure run (out-of-fuel is mirrored with the same fuel).  This file closes the
  gap: the stateful searches themselves terminate.

  INVARIANT.  `InvS m` = `Mgr.Inv m` (table discipline + cache coherence, C07) ∧ `FlatTbl m.tbl`:
  every `Union` / `Inter` node stored in the table has pairwise distinct children none of which is
  a node of the same kind.  It holds for `ReManager::new()` (`invS_new`) and is kept by every
  construction program (`invS_runProg`) and by every search below (each theorem returns `InvS` of
  the resulting state), so it holds in every state a session can reach.  (`Mgr.Inv` alone does not
  imply it: the dumped-table check of C07 does not look inside operand vectors.)

  THEOREMS (for every state `m` with `InvS m` and every id `e` whose tree `te` is `WF ∧ NZ` — what
  every constructor produces), with the explicit fuel bound
  `fuelFor te = |Gen.univ (atoms te) (pot te)| + 1` and for EVERY `fuel ≥ fuelFor te`:
    iterDerivativesM_terminates(_ge)  `iter_derivatives(e)` run to exhaustion returns the list of
                                      ids of exactly the iterated derivatives of `te`
    isEmptyReM_total(_ge)             `is_empty_re(e)` returns, and decides emptiness
    getStringM_total(_ge)             `get_string(e)` returns `None` iff empty, else a member
    compileM_total(_ge)               `compile(e)` returns an automaton accepting exactly `te.lang`
    tryCompileM_total(_ge)            `try_compile(e, n)` returns for EVERY bound `n`, `Some` iff
                                      `n ≠ 0 ∧ |closure| ≤ n`, and then accepts exactly `te.lang`
    startCharM_total                  `start_char(e, c)` returns and is exact
    runProg_compile_total             HEADLINE: after ANY construction program on ANY state with
                                      `InvS`, `compile` terminates and accepts exactly `denote p`
    runProg_isEmptyRe_total, runProg_getString_total
    closure_in_universe               every term the stateful BFS yields lies in the finite
                                      universe of `te`
  No panic, no out-of-fuel: `.ok`.

  PROOF (Proofs/ManagerTermination.lean).  Two invariants of the iterated derivatives hold for
  EVERY id assignment: the potential never increases (`Gen.pot_deriv`) and the term stays built
  over the sub-terms of `te` (`MgrTerm.over_deriv`).  Injectivity of the id oracle was needed only
  for "new n-ary nodes are duplicate-free and flat"; on the stateful side this is a property of the
  TABLE (`FlatTbl`), kept by `make_union` / `make_inter` because they store a sorted, deduplicated
  vector of flattened operands — and equal trees have equal ids (C07 `toTree_inj`), so
  duplicate-free id vectors are duplicate-free tree lists.  Hence every term a search ever holds
  is a member of `Gen.univ (atoms te) (pot te)`; the BFS list is duplicate-free, so it never gets
  longer than that list, and a loop started with more fuel cannot run out of it.  The value
  returned is then identified by the refinement theorems (C07RefineOps / C07RefineOps.Final).

  WHAT REMAINS MODELLED: `Smt.Mgr` is a hand-written mirror of `ReManager` (tied to the code by the
  `mgr` correspondence family, literal table comparison); loop bounds are unbounded naturals;
  `fuelFor` is a finiteness bound, not a complexity statement.
-/
import SmtModel.Proofs.ManagerTermination
import SmtModel.Props.C07RefineOpsFinal
import SmtModel.Props.C19Term

namespace Smt
namespace C19
namespace Mgr
open Smt RE C07Refine C07RefineOps C07RefineOps.Final MgrTerm

/-- **the invariant of the termination theorems**: `Mgr.Inv` and the table is flat -/
abbrev InvS (m : Smt.Mgr) : Prop := MgrTerm.InvS m

/-- the flat-table clause, spelled out -/
theorem invS_iff (m : Smt.Mgr) : InvS m ↔ Smt.Mgr.Inv m ∧ MgrTerm.FlatTbl m.tbl :=
  ⟨fun h => ⟨h.inv, h.flat⟩, fun h => ⟨h.1, h.2⟩⟩

theorem invS_inv {m : Smt.Mgr} (h : InvS m) : Smt.Mgr.Inv m := h.inv

/-- `ReManager::new()` -/
theorem invS_new : InvS Smt.Mgr.new := MgrTerm.invS_new

/-- every construction program keeps the invariant -/
theorem invS_runProg (m : Smt.Mgr) (h : InvS m) (p : Prog) (m' : Smt.Mgr) (r : Nat)
    (hr : m.runProg p = some (m', r)) : InvS m' := by
  obtain ⟨e, hp, _, _⟩ := runProg_refines m h.inv p m' r hr
  exact ⟨hp.inv, flat_runProg p m m' r h.inv.ok h.flat hr⟩

/-- derivatives (through the cache) keep the invariant -/
theorem invS_derivM (m : Smt.Mgr) (h : InvS m) (e : Nat) (te : RE) (he : m.toTree e = some te)
    (c : Nat) : InvS (m.derivM e c).1 :=
  ⟨(deriv_refines m h.inv e te he c).inv, flat_derivM h.inv h.flat he c⟩

/-- **every other allocating operation keeps the invariant** (so `InvS` holds in every state a
    session of API calls can reach from `ReManager::new()`): `str_in_re` / `str_derivative`, the
    class and set derivative entry points, `naive_re_search`, `str_replace_re(_all)`; the searches
    are covered by the theorems below, construction programs by `invS_runProg` -/
theorem invS_operations (m : Smt.Mgr) (h : InvS m) (e : Nat) (te : RE) (he : m.toTree e = some te) :
    (∀ s, InvS (m.strDerivativeM e s).1) ∧ (∀ s, InvS (m.strInReM s e).1) ∧
    (∀ cid res, m.classDerivativeUncheckedM e cid = some res → InvS res.1) ∧
    (∀ cid res, m.classDerivativeM e cid = some res → InvS res.1) ∧
    (∀ set res, m.setDerivativeUncheckedM e set = some res → InvS res.1) ∧
    (∀ set res, m.setDerivativeM e set = some res → InvS res.1) ∧
    (∀ s k a, InvS (m.naiveReSearchM e s k a).1) ∧
    (∀ s1 s2, InvS (m.strReplaceReM s1 e s2).1) ∧ (∀ s1 s2, InvS (m.strReplaceReAllM s1 e s2).1) := by
  refine ⟨fun s => invS_strDerivativeM s h he, fun s => invS_strInReM h he s,
    fun cid res hr => invS_cachedDerivM h he hr, ?_, ?_, ?_,
    fun s k a => invS_naiveReSearchM h he s k a, fun s1 s2 => invS_strReplaceReM h he s1 s2,
    fun s1 s2 => invS_strReplaceReAllM h he s1 s2⟩
  · intro cid res hr
    unfold Smt.Mgr.classDerivativeM at hr
    split at hr
    · cases hc : m.cachedDerivM e cid with
      | none => rw [hc] at hr; cases hr
      | some r1 =>
        rw [hc] at hr
        simp only [Option.map_some, Option.some.injEq] at hr
        subst hr
        exact invS_cachedDerivM h he hc
    · cases hr; exact h
  · intro set res hr
    unfold Smt.Mgr.setDerivativeUncheckedM at hr
    split at hr
    · cases hr
    · exact invS_cachedDerivM h he hr
  · intro set res hr
    unfold Smt.Mgr.setDerivativeM at hr
    split at hr
    · cases hr; exact h
    · rename_i cid _
      cases hc : m.cachedDerivM e cid with
      | none => rw [hc] at hr; cases hr
      | some r1 =>
        rw [hc] at hr
        simp only [Option.map_some, Option.some.injEq] at hr
        subst hr
        exact invS_cachedDerivM h he hc

/-- the fuel bound: one more than the number of terms in the universe of `te` -/
abbrev fuelFor (te : RE) : Nat := MgrTerm.fuelFor te

theorem fuelFor_eq (te : RE) : fuelFor te = (Gen.univ (Gen.atoms te) (Gen.pot te)).length + 1 := rfl

theorem res_ok {α : Type} {r : Res α} (h1 : r ≠ .panic) (h2 : r ≠ .outOfFuel) : ∃ a, r = .ok a := by
  cases r with
  | ok a => exact ⟨a, rfl⟩
  | panic => exact absurd rfl h1
  | outOfFuel => exact absurd rfl h2

/-- for EVERY id assignment all iterated derivatives are built over the sub-terms of the start
    term and have potential at most `pot te` -/
theorem goodT_strDerivative (ord : RE → Nat) (te : RE) (s : List Nat) :
    GoodT (Gen.atoms te) (Gen.pot te) (strDerivative ord te s) := by
  induction s using List.reverseRecOn with
  | nil => exact goodT_self te
  | append_singleton s c ih =>
    rw [strDerivative_snoc]
    exact goodT_deriv _ (Gen.subClosed_atoms te) (Gen.sigma_mem_atoms te) ih _

section
variable (m : Smt.Mgr) (h : InvS m) (e : Nat) (te : RE) (he : m.toTree e = some te)
  (hw : te.WF) (hz : te.NZ)
include h he

/-- **no search from `e` runs out of fuel `≥ fuelFor te`** (no well-formedness needed), and each
    keeps the invariant -/
theorem searches_not_outOfFuel (fuel : Nat) (hf : fuelFor te ≤ fuel) :
    (m.iterDerivativesM fuel e).2 ≠ .outOfFuel ∧ (m.isEmptyReM fuel e).2 ≠ .outOfFuel ∧
    (m.getStringM fuel e).2 ≠ .outOfFuel ∧ (m.compileM fuel e).2 ≠ .outOfFuel ∧
    (∀ n, (m.tryCompileM fuel e n).2 ≠ .outOfFuel) ∧
    InvS (m.iterDerivativesM fuel e).1 ∧ InvS (m.isEmptyReM fuel e).1 ∧
    InvS (m.getStringM fuel e).1 ∧ InvS (m.compileM fuel e).1 ∧
    ∀ n, InvS (m.tryCompileM fuel e n).1 :=
  ⟨(iterDerivativesM_not_oof h he hf).2, (isEmptyReM_not_oof h he hf).2,
    (getStringM_not_oof h he hf).2, (compileM_not_oof h he hf).2,
    fun n => (tryCompileM_not_oof h he hf n).2,
    (iterDerivativesM_not_oof h he hf).1, (isEmptyReM_not_oof h he hf).1,
    (getStringM_not_oof h he hf).1, (compileM_not_oof h he hf).1,
    fun n => (tryCompileM_not_oof h he hf n).1⟩

include hw hz

/-- **iterDerivativesM_terminates (every sufficient fuel)**: `iter_derivatives(e)` on the stateful
    manager returns a list `l` of ids whose trees — under the id assignment of the resulting state —
    are exactly the iterated derivatives of `te`, enumerated by the pure model -/
theorem iterDerivativesM_terminates_ge (fuel : Nat) (hf : fuelFor te ≤ fuel) :
    ∃ l ts, (m.iterDerivativesM fuel e).2 = .ok l ∧ InvS (m.iterDerivativesM fuel e).1 ∧
      TreesOf (m.iterDerivativesM fuel e).1 l ts ∧
      iterDerivatives (m.iterDerivativesM fuel e).1.ord fuel te = .ok ts ∧
      ∀ x, x ∈ ts ↔ ∃ s, WFs s ∧ x = strDerivative (m.iterDerivativesM fuel e).1.ord te s := by
  obtain ⟨hS, hno⟩ := iterDerivativesM_not_oof h he hf
  obtain ⟨hnp, hag⟩ := iterDerivatives_exact fuel m h.inv e te he hw hz
  obtain ⟨l, hl⟩ := res_ok hnp hno
  have hrel := hag _ (After.refl hS.inv)
  rw [hl] at hrel
  cases hp : iterDerivatives (m.iterDerivativesM fuel e).1.ord fuel te with
  | ok ts =>
    rw [hp] at hrel
    exact ⟨l, ts, hl, hS, hrel, rfl,
      C19.Final.iter_exact (pairSound_of_inv _ hS.inv) hw hz hp⟩
  | panic => rw [hp] at hrel; exact absurd hrel id
  | outOfFuel => rw [hp] at hrel; exact absurd hrel id

/-- **iterDerivativesM_terminates**: the stateful derivative closure terminates -/
theorem iterDerivativesM_terminates :
    ∃ fuel l, (m.iterDerivativesM fuel e).2 = .ok l := by
  obtain ⟨l, _, hl, _⟩ := iterDerivativesM_terminates_ge m h e te he hw hz (fuelFor te) (Nat.le_refl _)
  exact ⟨_, l, hl⟩

/-- every term the stateful BFS yields lies in the finite universe of `te` and has size at most
    `pot te` -/
theorem closure_in_universe (fuel : Nat) (l : List Nat)
    (hl : (m.iterDerivativesM fuel e).2 = .ok l) (x : Nat) (hx : x ∈ l) :
    ∃ t, (m.iterDerivativesM fuel e).1.toTree x = some t ∧
      t ∈ Gen.univ (Gen.atoms te) (Gen.pot te) ∧ Gen.sz t ≤ Gen.pot te := by
  obtain ⟨hnp, hag⟩ := iterDerivatives_exact fuel m h.inv e te he hw hz
  have hr := (iterDerivatives_refines fuel m h.inv e te he).1
  have hrel := hag _ (After.refl hr.inv)
  rw [hl] at hrel
  cases hp : iterDerivatives (m.iterDerivativesM fuel e).1.ord fuel te with
  | panic => rw [hp] at hrel; exact absurd hrel id
  | outOfFuel => rw [hp] at hrel; exact absurd hrel id
  | ok ts =>
    rw [hp] at hrel
    -- the tree of `x` is an iterated derivative under the final id assignment
    have key : ∀ {l : List Nat} {ts : List RE}, TreesOf (m.iterDerivativesM fuel e).1 l ts →
        ∀ x ∈ l, ∃ t ∈ ts, (m.iterDerivativesM fuel e).1.toTree x = some t := by
      intro l ts hf
      induction hf with
      | nil => intro x hx; cases hx
      | cons h1 _ ih =>
        intro x hx
        rcases List.mem_cons.1 hx with rfl | hx
        · exact ⟨_, List.mem_cons_self .., h1⟩
        · obtain ⟨t, ht, hxt⟩ := ih x hx
          exact ⟨t, List.mem_cons_of_mem _ ht, hxt⟩
    obtain ⟨t, ht, hxt⟩ := key hrel x hx
    obtain ⟨s, _, rfl⟩ := (C19.Final.iter_exact (pairSound_of_inv _ hr.inv) hw hz hp t).1 ht
    -- flatness of the final table turns `Over` into `Shape`
    have hS : InvS (m.iterDerivativesM fuel e).1 := by
      have : MgrTerm.SInv (Gen.atoms te) (Gen.pot te) m [e] :=
        sinv_init h (goodId_self he)
      exact (iterLoopM_not_oof (Gen.subClosed_atoms te) (Gen.sigma_mem_atoms te) fuel
        (i := 0) this).1
    have hgood := goodT_strDerivative (m.iterDerivativesM fuel e).1.ord te s
    exact ⟨_, hxt, mem_univ_of_good hS.inv.ok hS.flat hgood hxt,
      Nat.le_trans (Gen.sz_le_pot _) hgood.2⟩

/-- **isEmptyReM_total**: `is_empty_re(e)` returns (no panic, no out-of-fuel) and decides
    emptiness of the language, for every fuel `≥ fuelFor te` -/
theorem isEmptyReM_total_ge (fuel : Nat) (hf : fuelFor te ≤ fuel) :
    ∃ b, (m.isEmptyReM fuel e).2 = .ok b ∧ (b = true ↔ ∀ w, w ∉ te.lang) ∧
      InvS (m.isEmptyReM fuel e).1 := by
  obtain ⟨hS, hno⟩ := isEmptyReM_not_oof h he hf
  obtain ⟨hnp, hc⟩ := isEmptyRe_decides fuel m h.inv e te he hw hz
  obtain ⟨b, hb⟩ := res_ok hnp hno
  exact ⟨b, hb, hc b hb, hS⟩

theorem isEmptyReM_total :
    ∃ fuel b, (m.isEmptyReM fuel e).2 = .ok b ∧ (b = true ↔ ∀ w, w ∉ te.lang) := by
  obtain ⟨b, h1, h2, _⟩ := isEmptyReM_total_ge m h e te he hw hz (fuelFor te) (Nat.le_refl _)
  exact ⟨_, b, h1, h2⟩

/-- **getStringM_total**: `get_string(e)` returns; `None` exactly for the empty language, otherwise
    a well-formed string of the language -/
theorem getStringM_total_ge (fuel : Nat) (hf : fuelFor te ≤ fuel) :
    ∃ r, (m.getStringM fuel e).2 = .ok r ∧ (r = none ↔ ∀ w, w ∉ te.lang) ∧
      (∀ s, r = some s → WFs s ∧ s ∈ te.lang) ∧ InvS (m.getStringM fuel e).1 := by
  obtain ⟨hS, hno⟩ := getStringM_not_oof h he hf
  obtain ⟨hnp, hc1, hc2⟩ := getString_member fuel m h.inv e te he hw hz
  obtain ⟨r, hr⟩ := res_ok hnp hno
  exact ⟨r, hr, hc1 r hr, fun s hs => hc2 s (by rw [hr, hs]), hS⟩

theorem getStringM_total :
    ∃ fuel r, (m.getStringM fuel e).2 = .ok r ∧ (r = none ↔ ∀ w, w ∉ te.lang) ∧
      ∀ s, r = some s → WFs s ∧ s ∈ te.lang := by
  obtain ⟨r, h1, h2, h3, _⟩ := getStringM_total_ge m h e te he hw hz (fuelFor te) (Nat.le_refl _)
  exact ⟨_, r, h1, h2, h3⟩

/-- **compileM_total**: `compile(e)` returns an automaton that accepts exactly the language -/
theorem compileM_total_ge (fuel : Nat) (hf : fuelFor te ≤ fuel) :
    ∃ A, (m.compileM fuel e).2 = .ok A ∧
      (∀ w, WFs w → (A.accepts w = some true ↔ w ∈ te.lang)) ∧ InvS (m.compileM fuel e).1 := by
  obtain ⟨hS, hno⟩ := compileM_not_oof h he hf
  obtain ⟨hnp, hc⟩ := compile_accepts fuel m h.inv e te he hw hz
  obtain ⟨A, hA⟩ := res_ok hnp hno
  exact ⟨A, hA, hc A hA, hS⟩

theorem compileM_total :
    ∃ fuel A, (m.compileM fuel e).2 = .ok A ∧
      ∀ w, WFs w → (A.accepts w = some true ↔ w ∈ te.lang) := by
  obtain ⟨A, h1, h2, _⟩ := compileM_total_ge m h e te he hw hz (fuelFor te) (Nat.le_refl _)
  exact ⟨_, A, h1, h2⟩

/-- **tryCompileM_total**: `try_compile(e, n)` returns for EVERY bound `n` (one fuel for all `n`);
    an automaton returned accepts exactly the language; and the answer is `Some` exactly when
    `n ≠ 0` and the derivative closure — as enumerated by `iter_derivatives(e)` on the manager
    right afterwards — has at most `n` elements, the automaton then having exactly that many
    states -/
theorem tryCompileM_total_ge (fuel : Nat) (hf : fuelFor te ≤ fuel) (n : Nat) :
    ∃ r, (m.tryCompileM fuel e n).2 = .ok r ∧ InvS (m.tryCompileM fuel e n).1 ∧
      (∀ A, r = some A → ∀ w, WFs w → (A.accepts w = some true ↔ w ∈ te.lang)) ∧
      ∃ l, ((m.tryCompileM fuel e n).1.iterDerivativesM fuel e).2 = .ok l ∧
        (r.isSome = true ↔ n ≠ 0 ∧ l.length ≤ n) ∧ ∀ A, r = some A → A.numStates = l.length := by
  obtain ⟨hS, hno⟩ := tryCompileM_not_oof h he hf n
  obtain ⟨hnp, hc⟩ := tryCompile_accepts fuel m h.inv e te he hw hz n
  obtain ⟨r, hr⟩ := res_ok hnp hno
  have href := tryCompile_refines fuel m h.inv e te he n
  have he1 : (m.tryCompileM fuel e n).1.toTree e = some te := toTree_stable _ _ href.mono e te he
  obtain ⟨l, ts, hl, hS2, htrees, hts, _⟩ :=
    iterDerivativesM_terminates_ge (m.tryCompileM fuel e n).1 hS e te he1 hw hz fuel hf
  have haft : After (m.tryCompileM fuel e n).1 ((m.tryCompileM fuel e n).1.iterDerivativesM fuel e).1 :=
    ⟨(iterDerivatives_refines fuel _ hS.inv e te he1).1.mono, hS2.inv⟩
  have hps := pairSound_of_inv _ hS2.inv
  have hpure := resRel_eq_ok (href.agree _ haft (C02.try_compile_no_panic hps hw hz fuel n)) hr
  obtain ⟨k1, k2⟩ := C19.Final.try_compile_iff hps hw hz hpure hts
  have hlen : l.length = ts.length := List.Forall₂.length_eq htrees
  refine ⟨r, hr, hS, fun A hA => hc A (by rw [hr, hA]), l, hl, ?_, ?_⟩
  · rw [hlen]; exact k1
  · rw [hlen]; exact k2

theorem tryCompileM_total :
    ∃ fuel, ∀ n, ∃ r, (m.tryCompileM fuel e n).2 = .ok r ∧
      ∀ A, r = some A → ∀ w, WFs w → (A.accepts w = some true ↔ w ∈ te.lang) := by
  refine ⟨fuelFor te, fun n => ?_⟩
  obtain ⟨r, h1, _, h2, _⟩ := tryCompileM_total_ge m h e te he hw hz (fuelFor te) (Nat.le_refl _) n
  exact ⟨r, h1, h2⟩

/-- **startCharM_total**: `start_char(e, c)` returns and decides whether a word of the language
    starts with `c`; the fuel bound depends on the tree only, not on the state -/
theorem startCharM_total (c : Nat) (hc : c ≤ MAX_CHAR) :
    ∃ fuel b, (m.startCharM fuel e c).2 = .ok b ∧ (b = true ↔ ∃ w, c :: w ∈ te.lang) ∧
      InvS (m.startCharM fuel e c).1 := by
  obtain ⟨N, hN⟩ := startCharM_not_oof te
  obtain ⟨hS, hno⟩ := hN N (Nat.le_refl _) m e c h he
  obtain ⟨hnp, hd⟩ := startChar_decides N m h.inv e te he hw hz c hc
  obtain ⟨b, hb⟩ := res_ok hnp hno
  exact ⟨N, b, hb, hd b hb, hS⟩

end

/-! ### sessions: any program after any history, then a search -/

section Sessions
variable (m : Smt.Mgr) (h : InvS m) (p : Prog) (hp : p.WFIn) (m' : Smt.Mgr) (r : Nat)
  (hr : m.runProg p = some (m', r))
include h hp hr

/-- the term a program builds: its tree is well formed and denotes `denote p` -/
theorem runProg_tree :
    InvS m' ∧ ∃ te, m'.toTree r = some te ∧ te.WF ∧ te.NZ ∧ te.lang = C01.denote p := by
  obtain ⟨e, hR, hB, _⟩ := runProg_refines m h.inv p m' r hr
  have hb := hB m' (After.refl hR.inv)
  have hps := pairSound_of_inv m' hR.inv
  exact ⟨invS_runProg m h p m' r hr, e, hR.tree, C01.build_wf hps p hp e hb,
    C01.build_nz hps p hp e hb, C01.build_denote hps p hp e hb⟩

/-- **runProg_compile_total — HEADLINE**: build a term with ANY construction program on ANY state
    satisfying the invariant (any history of constructions, derivatives and searches), then
    `compile`: it TERMINATES (neither out of fuel nor panic) and the automaton accepts exactly the
    SMT-LIB denotation of the program -/
theorem runProg_compile_total :
    ∃ fuel A, (m'.compileM fuel r).2 = .ok A ∧
      (∀ w, WFs w → (A.accepts w = some true ↔ w ∈ C01.denote p)) ∧ InvS (m'.compileM fuel r).1 := by
  obtain ⟨hS, te, ht, hw, hz, hl⟩ := runProg_tree m h p hp m' r hr
  obtain ⟨A, h1, h2, h3⟩ := compileM_total_ge m' hS r te ht hw hz (fuelFor te) (Nat.le_refl _)
  exact ⟨_, A, h1, fun w hww => by rw [← hl]; exact h2 w hww, h3⟩

/-- … `is_empty_re` terminates and decides emptiness of the denotation -/
theorem runProg_isEmptyRe_total :
    ∃ fuel b, (m'.isEmptyReM fuel r).2 = .ok b ∧ (b = true ↔ ∀ w, w ∉ C01.denote p) := by
  obtain ⟨hS, te, ht, hw, hz, hl⟩ := runProg_tree m h p hp m' r hr
  obtain ⟨b, h1, h2, _⟩ := isEmptyReM_total_ge m' hS r te ht hw hz (fuelFor te) (Nat.le_refl _)
  exact ⟨_, b, h1, by rw [← hl]; exact h2⟩

/-- … `get_string` terminates: `None` iff the denotation is empty, otherwise a member -/
theorem runProg_getString_total :
    ∃ fuel o, (m'.getStringM fuel r).2 = .ok o ∧ (o = none ↔ ∀ w, w ∉ C01.denote p) ∧
      ∀ s, o = some s → WFs s ∧ s ∈ C01.denote p := by
  obtain ⟨hS, te, ht, hw, hz, hl⟩ := runProg_tree m h p hp m' r hr
  obtain ⟨o, h1, h2, h3, _⟩ := getStringM_total_ge m' hS r te ht hw hz (fuelFor te) (Nat.le_refl _)
  exact ⟨_, o, h1, by rw [← hl]; exact h2, by rw [← hl]; exact h3⟩

/-- … `iter_derivatives` terminates -/
theorem runProg_iterDerivatives_total :
    ∃ fuel l, (m'.iterDerivativesM fuel r).2 = .ok l := by
  obtain ⟨hS, te, ht, hw, hz, _⟩ := runProg_tree m h p hp m' r hr
  exact iterDerivativesM_terminates m' hS r te ht hw hz

end Sessions

/-! ### non-vacuity -/

section Examples

example : InvS Smt.Mgr.new := invS_new

/-- `([a-c] | [x-z])* ∩ ¬(Σ* b b Σ*)` on a fresh manager -/
private def pE : Prog :=
  .inter (.star (.union (.range 97 99) (.range 120 122)))
    (.comp (.concat .all (.concat (.char 98) (.concat (.char 98) .all))))

example : pE.WFIn := by decide

example : ∃ m' r, Smt.Mgr.new.runProg pE = some (m', r) := by
  cases hr : Smt.Mgr.new.runProg pE with
  | some res => exact ⟨res.1, res.2, rfl⟩
  | none => exact absurd hr (by decide)

/-- the headline applies: whatever ids the run allocates, `compile` terminates -/
example (m' : Smt.Mgr) (r : Nat) (hr : Smt.Mgr.new.runProg pE = some (m', r)) :
    ∃ fuel A, (m'.compileM fuel r).2 = .ok A ∧
      ∀ w, WFs w → (A.accepts w = some true ↔ w ∈ C01.denote pE) := by
  obtain ⟨fuel, A, h1, h2, _⟩ := runProg_compile_total _ invS_new pE (by decide) m' r hr
  exact ⟨fuel, A, h1, h2⟩

/-- a flat table that is NOT reachable is still covered, a non-flat one is excluded:
    `FlatTbl` fails for a table holding `Union [6, 6]` -/
example : ¬ MgrTerm.FlatTbl (Smt.Mgr.new.tbl ++ [.range 97 97, .compl 6, .union [6, 6], .compl 8]) := by
  intro hf
  have := ((hf 8 [6, 6]).1 (by decide)).1
  exact absurd this (by decide)

end Examples

end Mgr
end C19
end Smt
