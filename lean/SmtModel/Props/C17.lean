/-
  C17 — Every SmtString the API hands out contains only SMT-LIB characters.

  Property theorems only (DESIGN.md §7 C17, §8 "is_good holds"); helpers in Proofs/Literal.lean
  and Proofs/LiteralGood.lean.

  * `WFs r` (Basic.lean): every code point of `r` is ≤ 0x2FFFF — the character part of `is_good`.
    `is_good` additionally requires `len < i32::MAX` while `make` admits `len = i32::MAX`
    (DESIGN.md §8): the character part is proved unconditionally, `isGood` under the explicit
    hypothesis `len < MAX_LENGTH`.
  * `none` is the panic channel: the constructors and the parser panic only through
    `SmtString::make`, i.e. iff the result would have more than `i32::MAX` characters.
  * inputs: a Rust `&str`/`char` is a list of / a Unicode scalar value (`Literal.Scalar`); the
    theorems hold for all naturals, hence for all scalars and all `u32`.

  Proved here: constructors, `parse_smt_literal`, the `str_*` functions that return strings
  (model of Model/Strings.lean), usability with `ReManager::str`.
  NOT here (needs the regex model, C05/C10/C19): `get_string`, `str_replace_re`,
  `str_replace_re_all` — proved in Props/C17Re.lean; Props/C17All.lean is the umbrella module that
  checks.d/C17.json audits.
-/
import SmtModel.Proofs.LiteralGood

namespace Smt.C17
open Smt Smt.Literal Smt.LiteralSpec Smt.LiteralProofs

/-- the replacement the integer constructors apply: valid code points are kept, anything above
    0x2FFFF becomes 0xFFFD -/
theorem repl_spec (x : Nat) :
    (x ≤ MAX_CHAR → repl x = x) ∧ (x > MAX_CHAR → repl x = 0xFFFD) ∧ repl x ≤ MAX_CHAR := by
  refine ⟨fun h => by simp [repl, h], fun h => ?_, repl_le x⟩
  have : ¬ x ≤ MAX_CHAR := by omega
  simp [repl, this, REPLACEMENT_CHAR]

/-- `is_good` is exactly: fewer than `i32::MAX` characters, all of them ≤ 0x2FFFF -/
theorem isGood_iff (s : List Nat) : isGood s = true ↔ s.length < MAX_LENGTH ∧ WFs s := by
  simp [isGood, goodString_iff]

/-- what a constructor returns on the input vector `a`: the element-wise replacement, unless it is
    too long for `make` -/
def CtorSpec (f : List Nat → Option (List Nat)) : Prop :=
  ∀ a, f a = if a.length ≤ MAX_LENGTH then some (a.map repl) else none

theorem make_eq (a : List Nat) : make a = if a.length ≤ MAX_LENGTH then some a else none := by
  unfold make
  by_cases h : a.length ≤ MAX_LENGTH
  · rw [if_neg (by omega), if_pos h]
  · rw [if_pos (by omega), if_neg h]

/-- **ctor_good** (vectors): `From<&str>`, `From<String>`, `From<&[u32]>` (and arrays),
    `From<Vec<u32>>` return the element-wise replacement of their input -/
theorem ctor_spec : CtorSpec fromStr ∧ CtorSpec fromString ∧ CtorSpec fromSlice ∧ CtorSpec fromVec := by
  have h1 : CtorSpec fromStr := by
    intro a; simp only [fromStr, make_eq, List.length_map]; rfl
  have h3 : CtorSpec fromSlice := by
    intro a; simp only [fromSlice, make_eq, List.length_map]; rfl
  refine ⟨h1, h1, h3, ?_⟩
  intro a
  unfold fromVec
  split
  · rename_i hall
    have : WFs a := by simpa [WFs] using hall
    rw [map_repl_of_good this, make_eq]
  · exact h3 a

/-- **ctor_good** (single characters): `From<u32>` and `From<char>` -/
theorem ctor_char_spec (x : Nat) : fromU32 x = some [repl x] ∧ fromChar x = some [repl x] := by
  have : fromU32 x = some [repl x] := by
    simp only [fromU32, make_eq, List.length_singleton]
    rw [if_pos (by decide)]; rfl
  exact ⟨this, this⟩

/-- **ctor_good**: every string produced by a public constructor consists of SMT-LIB characters
    only; integers above 0x2FFFF have been replaced by 0xFFFD and valid ones are unchanged
    (position by position); the result is `is_good` unless it has `i32::MAX` characters or more -/
theorem ctor_good (f : List Nat → Option (List Nat))
    (hf : f = fromStr ∨ f = fromString ∨ f = fromSlice ∨ f = fromVec) (a r : List Nat)
    (h : f a = some r) :
    WFs r ∧ r.length = a.length ∧
    (∀ i (hi : i < a.length) (hr : i < r.length),
        (a[i] ≤ MAX_CHAR → r[i] = a[i]) ∧ (a[i] > MAX_CHAR → r[i] = 0xFFFD)) ∧
    (a.length < MAX_LENGTH → isGood r = true) := by
  have hs : CtorSpec f := by
    rcases hf with rfl | rfl | rfl | rfl
    · exact ctor_spec.1
    · exact ctor_spec.2.1
    · exact ctor_spec.2.2.1
    · exact ctor_spec.2.2.2
  rw [hs a] at h
  split at h
  · cases h
    refine ⟨WFs_map_repl a, by simp, ?_, ?_⟩
    · intro i hi hr
      simp only [List.getElem_map]
      exact ⟨(repl_spec _).1, (repl_spec _).2.1⟩
    · intro hl
      rw [isGood_iff]; exact ⟨by simpa using hl, WFs_map_repl a⟩
  · cases h

theorem ctor_char_good (x : Nat) :
    ∃ r, fromU32 x = some r ∧ fromChar x = some r ∧ isGood r = true ∧
      r = [if x ≤ MAX_CHAR then x else 0xFFFD] := by
  refine ⟨[repl x], (ctor_char_spec x).1, (ctor_char_spec x).2, ?_, rfl⟩
  rw [isGood_iff]
  exact ⟨by simp [MAX_LENGTH], WFs_cons (repl_le x) WFs_nil⟩

/-- **parse_good**: for every text, whatever `parse_smt_literal` returns consists of SMT-LIB
    characters only (escape values are ≤ 0x2FFFF, copied characters are replaced if needed) -/
theorem parse_good (t r : List Nat) (h : parseSmtLiteral t = some r) : WFs r := by
  rw [parse_spec] at h
  have := make_some h; subst this
  exact specParse_good t

theorem parse_is_good (t r : List Nat) (ht : t.length < MAX_LENGTH) (h : parseSmtLiteral t = some r) :
    isGood r = true := by
  have hw := parse_good t r h
  rw [parse_spec] at h
  have := make_some h; subst this
  rw [isGood_iff]
  refine ⟨?_, hw⟩
  have := specParse_length_le t
  omega

/-- **ops_preserve_good**: each `str_*` function that returns a string maps good arguments to a
    good result, for all integer arguments (`str_at`, `str_from_code`, `str_from_int` need no
    hypothesis at all: they go through `From<u32>` / `From<&str>`) -/
theorem ops_preserve_good :
    (∀ s1 s2 r, WFs s1 → WFs s2 → Str.strConcat s1 s2 = some r → WFs r) ∧
    (∀ s i r, Str.strAt s i = some r → WFs r) ∧
    (∀ s i n r, WFs s → Str.strSubstr s i n = some r → WFs r) ∧
    (∀ s p r x, WFs s → WFs r → Str.strReplace s p r = some x → WFs x) ∧
    (∀ s p r x, WFs s → WFs r → Str.strReplaceAll s p r = some x → WFs x) ∧
    (∀ x r, Str.strFromCode x = some r → WFs r) ∧
    (∀ x r, Str.strFromInt x = some r → WFs r) :=
  ⟨fun _ _ _ h1 h2 h => strConcat_good h1 h2 h,
   fun _ _ _ h => strAt_good h,
   fun _ _ _ _ hs h => strSubstr_good hs h,
   fun _ _ _ _ hs hr h => strReplace_good hs hr h,
   fun _ _ _ _ hs hr h => strReplaceAll_good hs hr h,
   fun _ _ h => strFromCode_good h,
   fun _ _ h => strFromInt_good h⟩

/-- **good_usable**: none of the assertions `assert!(x <= MAX_CHAR)` that `ReManager::str` runs
    through (`ReManager::char`, once per character) fires on a good string — and one of them
    fires on any string that is not good -/
theorem good_usable (s : List Nat) : reStrAsserts s = true ↔ WFs s := by
  simp [reStrAsserts, WFs]

/-- all results of the constructors and of the parser can be turned into a regular expression -/
theorem ctor_usable (f : List Nat → Option (List Nat))
    (hf : f = fromStr ∨ f = fromString ∨ f = fromSlice ∨ f = fromVec ∨ f = parseSmtLiteral)
    (a r : List Nat) (h : f a = some r) : reStrAsserts r = true := by
  rw [good_usable]
  rcases hf with hf | hf | hf | hf | rfl
  · exact (ctor_good f (Or.inl hf) a r h).1
  · exact (ctor_good f (Or.inr (Or.inl hf)) a r h).1
  · exact (ctor_good f (Or.inr (Or.inr (Or.inl hf))) a r h).1
  · exact (ctor_good f (Or.inr (Or.inr (Or.inr hf))) a r h).1
  · exact parse_good a r h

/-! ### non-vacuity -/

/-- Rust strings / chars with U+2FFFF (kept), U+30000 and U+10FFFF (replaced): D6's witnesses -/
example : ScalarText [97, 0x2FFFF, 0x30000, 0x10FFFF] ∧
    fromStr [97, 0x2FFFF, 0x30000, 0x10FFFF] = some [97, 0x2FFFF, 0xFFFD, 0xFFFD] ∧
    fromChar 0x30000 = some [0xFFFD] ∧ fromChar 0x2FFFF = some [0x2FFFF] := by decide

/-- u32 slices including `u32::MAX` -/
example : fromSlice [0, 0x2FFFF, 0x30000, 4294967295] = some [0, 0x2FFFF, 0xFFFD, 0xFFFD] ∧
    fromVec [0, 0x2FFFF, 0x30000, 4294967295] = some [0, 0x2FFFF, 0xFFFD, 0xFFFD] ∧
    fromVec [1, 2] = some [1, 2] ∧ fromU32 4294967295 = some [0xFFFD] := by decide

/-- a literal text containing U+30000 raw -/
example : parseSmtLiteral [97, 0x30000, 92, 117, 123, 50, 70, 70, 70, 70, 125] =
    some [97, 0xFFFD, 0x2FFFF] ∧ isGood [97, 0xFFFD, 0x2FFFF] = true ∧
    reStrAsserts [97, 0xFFFD, 0x2FFFF] = true ∧ reStrAsserts [0x30000] = false := by decide

end Smt.C17
