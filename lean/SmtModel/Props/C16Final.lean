/-
  C16, hypothesis-free statements.  Props/C16.lean proves soundness of `included_in` from the
  bundle `CoreFacts16` (every well-formed term denotes a set of SMT strings; the `nullable` flag is
  exact).  Both facts are theorems of Proofs/ReLangCore.lean; this file instantiates the bundle.
  No hypothesis is left except well-formedness of the terms (`RE.WF`, which every term a manager
  can build satisfies: the `*_wf` theorems of Proofs/ReLangCore.lean and Proofs/ReSetOps.lean).

  Names: `Smt.C16.Final.*`.
-/
import SmtModel.Props.C16
import SmtModel.Proofs.ReLangCore
import SmtModel.Proofs.RefMatch

namespace Smt.C16
open Smt Smt.RE

/-- the bundle of Props/C16.lean, proved -/
theorem coreFacts16 : CoreFacts16 := ⟨lang_sub_allStrings, nullable_iff⟩

/-- `catLang` (Proofs/SubLang.lean) and `concatLangs` (Proofs/ReLangCore.lean) are the same
    function: the product `L(x₁) · … · L(xₙ)` -/
theorem catLang_eq_concatLangs (l : List RE) : catLang l = concatLangs l := by
  induction l with
  | nil => rfl
  | cons x xs ih => simp only [catLang, concatLangs, ih]

namespace Final

/-- T:`concat_inclusion_sound`: `concat_inclusion(u, v) = true` implies
    `L(u₁)·…·L(uₘ) ⊆ L(v₁)·…·L(vₙ)` (forward or reverse pass) -/
theorem concat_inclusion_sound (u v : List RE) (hu : ∀ x ∈ u, x.WF)
    (h : concatInclusion u v = true) : concatLangs u ≤ concatLangs v := by
  rw [← catLang_eq_concatLangs, ← catLang_eq_concatLangs]
  exact C16.concat_inclusion_sound coreFacts16 u v hu h

/-- T:`sub_language_sound`: for all well-formed `r`, `s`,
    `sub_language(r, s) = true` implies `L(r) ⊆ L(s)` -/
theorem sub_language_sound (r s : RE) (hr : r.WF) (hs : s.WF)
    (h : subLanguage r s = true) : r.lang ≤ s.lang :=
  C16.sub_language_sound coreFacts16 r s hr hs h

/-- T:`included_in_sound` — C16: whenever `r.included_in(s)` returns true, every string of the
    language of `r` is in the language of `s` -/
theorem included_in_sound (r s : RE) (hr : r.WF) (hs : s.WF) (h : includedIn r s = true) :
    ∀ w : List ℕ, w ∈ r.lang → w ∈ s.lang :=
  C16.included_in_sound coreFacts16 r s hr hs h

/-- the same statement against the executable reference matcher that the correspondence check
    uses as its specification column (Driver/FamRe.lean, op `included_in`): when the answer is
    `true`, no SMT string can be a counterexample `refMatch r w && !refMatch s w` -/
theorem included_in_sound_refMatch (r s : RE) (hr : r.WF) (hs : s.WF)
    (h : includedIn r s = true) (w : List ℕ) (hw : WFs w) :
    (refMatch r w && !refMatch s w) = false := by
  cases hrw : refMatch r w with
  | false => rfl
  | true =>
    have := (refMatch_iff s hs w hw).2
      (included_in_sound r s hr hs h w ((refMatch_iff r hr w hw).1 hrw))
    simp [this]

/-- T:`remove_subsumed_lang` — C16, second sentence: pruning the operands of a union with the
    inclusion test never loses a string -/
theorem remove_subsumed_lang (a : List RE) (ha : WFList a) :
    langAny (removeSubsumed a) = langAny a :=
  C16.remove_subsumed_lang coreFacts16 a ha

end Final
end Smt.C16
