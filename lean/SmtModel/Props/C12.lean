/-
  C12 — merge_partitions returns the coarsest common refinement (DESIGN.md §7 C12, §8).

  Property theorems only; helper lemmas are in `Proofs/PartitionWF.lean` (well-formedness, `cls`)
  and `Proofs/Merge.lean` (the sweep).  Throughout, `p.WF` is the invariant of `CharPartition`
  (intervals WF, sorted with gaps, `comp_witness` = least non-member), `cls p x` is the
  set-theoretic class of `x` (first interval containing `x`, else the complement), and
  `m = mergePartitions p1 p2`.

  * `merge_fuel_sufficient`   the loop terminates within `mergeFuel` iterations (the `getD` in
                              `mergePartitions` is never used); `merge_built_by_pushes`,
                              `merge_no_debug_assert`: every `push` of the sweep satisfies the
                              two `debug_assert!`s of `push`
  * `merge_wf`                the result is sorted, disjoint and its witness is correct
  * `merge_complement`        complementary class of `m` = intersection of the two complements
  * `merge_refines`           same class in `m` → same class in `p1` and in `p2`   ("only if")
  * `merge_maximal`           a run `[x,y]` that is uniform for `p1` and `p2` lies in one class
                              of `m` (the "if" half for interval-shaped classes, DESIGN.md §8;
                              proved without the side condition "not both complementary", which
                              is not needed)
  * `merge_same_class_iff`    the two halves as one equivalence
  * `merge_canonical`         a WF partition is determined by its class relation and complement
  * `merge_comm`, `merge_assoc`, `merge_empty_left/right`, `merge_idem`   structural equalities
  * `merge_list_fuel_sufficient`, `merge_list_wf`, `merge_list_perm`, `merge_list_nil`, `merge_list_complement`,
    `merge_list_refines`, `merge_list_maximal`   the fold over a list, independent of order

  All theorems hold for all naturals `x`, `y` (in particular for all characters `≤ MAX_CHAR`).
  Nothing here is partial.
-/
import SmtModel.Proofs.Merge

namespace Smt.C12
open Smt CharPartition

/-! ### termination and shape of the result -/

/-- the fuel of the model always suffices: `merge_partitions` terminates -/
theorem merge_fuel_sufficient {p1 p2 : CharPartition} (h1 : p1.WF) (h2 : p2.WF) :
    mergePartitions? p1 p2 ≠ none := by
  obtain ⟨m, hm, _⟩ := merge_spec h1.1 h2.1
  simp [hm]

/-- the result is built from `new()` by `push`ing the intervals of a sorted list: every call of
    `push` in the sweep satisfies `start <= end <= MAX_CHAR` and `start > last.end` -/
theorem merge_built_by_pushes {p1 p2 : CharPartition} (h1 : p1.WF) (h2 : p2.WF) :
    ∃ m, Sorted m ∧ mergePartitions? p1 p2 = some (pushAll CharPartition.new m) ∧
      mergePartitions p1 p2 = pushAll CharPartition.new m ∧ (mergePartitions p1 p2).list = m := by
  obtain ⟨m, hm, hs, _⟩ := merge_spec h1.1 h2.1
  refine ⟨m, hs, hm, by simp [mergePartitions, hm], ?_⟩
  simp [mergePartitions, hm, pushAll_list, CharPartition.new]

/-- with `debug_assert!` enabled (dev profile) no assertion of `push` fails inside the sweep:
    the checked push sequence of the emitted intervals succeeds and yields the result -/
theorem merge_no_debug_assert {p1 p2 : CharPartition} (h1 : p1.WF) (h2 : p2.WF) :
    pushSeqChecked CharPartition.new (mergePartitions p1 p2).list
      = some (mergePartitions p1 p2) := by
  obtain ⟨m, hs, _, he, hl⟩ := merge_built_by_pushes h1 h2
  rw [hl, he]
  exact pushSeqChecked_eq (by simpa [CharPartition.new] using hs)

/-- the result is a well-formed partition: intervals sorted and disjoint, witness correct -/
theorem merge_wf {p1 p2 : CharPartition} (h1 : p1.WF) (h2 : p2.WF) :
    (mergePartitions p1 p2).WF := by
  obtain ⟨m, hs, _, he, _⟩ := merge_built_by_pushes h1 h2
  rw [he]
  exact pushAll_wf wf_new (by simpa [CharPartition.new] using hs)

/-- the union of the intervals of `m` is the union of those of `p1` and `p2` -/
theorem merge_inList {p1 p2 : CharPartition} (h1 : p1.WF) (h2 : p2.WF) (x : Nat) :
    InList (mergePartitions p1 p2).list x ↔ InList p1.list x ∨ InList p2.list x := by
  obtain ⟨m, hm, _, hS, _⟩ := merge_spec h1.1 h2.1
  simpa [mergePartitions, hm, pushAll_list, CharPartition.new] using hS x

/-- the class boundaries of `m` are exactly the class boundaries of `p1` and of `p2` -/
theorem merge_isCut {p1 p2 : CharPartition} (h1 : p1.WF) (h2 : p2.WF) (x : Nat) :
    IsCut (mergePartitions p1 p2).list x ↔ IsCut p1.list x ∨ IsCut p2.list x := by
  obtain ⟨m, hm, _, _, hC⟩ := merge_spec h1.1 h2.1
  simpa [mergePartitions, hm, pushAll_list, CharPartition.new] using hC x

/-! ### the classes of the result -/

/-- the complementary class of the result is the intersection of the two complementary classes -/
theorem merge_complement {p1 p2 : CharPartition} (h1 : p1.WF) (h2 : p2.WF) (x : Nat) :
    cls (mergePartitions p1 p2) x = .complement ↔
      cls p1 x = .complement ∧ cls p2 x = .complement := by
  simp only [cls_eq_complement_iff, merge_inList h1 h2, not_or]

/-- the witness of the result is a correct witness: it is the least character that is in the
    complementary class of both `p1` and `p2`, or `MAX_CHAR + 1` if there is none -/
theorem merge_witness {p1 p2 : CharPartition} (h1 : p1.WF) (h2 : p2.WF) :
    let w := (mergePartitions p1 p2).compWitness
    w ≤ MAX_CHAR + 1 ∧
    (w ≤ MAX_CHAR → cls p1 w = .complement ∧ cls p2 w = .complement) ∧
    ∀ x, x < w → ¬ (cls p1 x = .complement ∧ cls p2 x = .complement) := by
  obtain ⟨_, hw1, hw2, hw3⟩ := merge_wf h1 h2
  refine ⟨hw1, fun _ => ?_, fun x hx => ?_⟩
  · rw [← merge_complement h1 h2, cls_eq_complement_iff]; exact hw2
  · rw [← merge_complement h1 h2, cls_eq_complement_iff]; exact fun h => h (hw3 x hx)

/-- one direction of refinement, for a partition `p` all of whose members and cut points are
    members and cut points of `m` -/
private theorem refines_of {m p : CharPartition} (hm : Sorted m.list) (hp : Sorted p.list)
    (hS : ∀ x, InList p.list x → InList m.list x) (hC : ∀ x, IsCut p.list x → IsCut m.list x)
    {x y : Nat} (h : cls m x = cls m y) : cls p x = cls p y := by
  have main : ∀ x y, x ≤ y → cls m x = cls m y → cls p x = cls p y := by
    intro x y hxy h
    by_cases hc : cls m x = .complement
    · have hx : cls p x = .complement := by
        rw [cls_eq_complement_iff] at hc ⊢; exact fun h => hc (hS x h)
      have hy : cls p y = .complement := by
        rw [h, cls_eq_complement_iff] at hc
        rw [cls_eq_complement_iff]; exact fun h => hc (hS y h)
      rw [hx, hy]
    · apply cls_eq_of_no_cut hp hxy
      intro z hz1 hz2 hcut
      exact no_cut_of_cls_eq hm hxy h hc z hz1 hz2 (hC z hcut)
  rcases Nat.le_total x y with hxy | hxy
  · exact main x y hxy h
  · exact (main y x hxy h.symm).symm

/-- a run that is uniform for every partition contributing cut points to `m` is in one class -/
private theorem maximal_of {m : CharPartition} (hm : Sorted m.list) (F : CharPartition → Prop)
    (hF : ∀ p, F p → Sorted p.list)
    (hC : ∀ z, IsCut m.list z → ∃ p, F p ∧ IsCut p.list z)
    {x y : Nat} (hxy : x ≤ y) (hrun : ∀ z, x ≤ z → z ≤ y → ∀ p, F p → cls p z = cls p x) :
    cls m x = cls m y := by
  apply cls_eq_of_no_cut hm hxy
  intro z hz1 hz2 hcut
  obtain ⟨p, hp, hpc⟩ := hC z hcut
  obtain ⟨w, rfl⟩ : ∃ w, z = w + 1 := ⟨z - 1, by omega⟩
  have e1 := hrun w (by omega) (by omega) p hp
  have e2 := hrun (w + 1) (by omega) hz2 p hp
  exact cls_ne_of_cut (hF p hp) hpc (e1.trans e2.symm)

/-- "only if": two characters in the same class of the result are in the same class of `p1`
    and in the same class of `p2` -/
theorem merge_refines {p1 p2 : CharPartition} (h1 : p1.WF) (h2 : p2.WF) {x y : Nat}
    (h : cls (mergePartitions p1 p2) x = cls (mergePartitions p1 p2) y) :
    cls p1 x = cls p1 y ∧ cls p2 x = cls p2 y := by
  have hm := (merge_wf h1 h2).1
  constructor
  · exact refines_of hm h1.1 (fun x hx => (merge_inList h1 h2 x).2 (.inl hx))
      (fun x hx => (merge_isCut h1 h2 x).2 (.inl hx)) h
  · exact refines_of hm h2.1 (fun x hx => (merge_inList h1 h2 x).2 (.inr hx))
      (fun x hx => (merge_isCut h1 h2 x).2 (.inr hx)) h

/-- "if", for interval-shaped classes: every interval of the result is a maximal run -/
theorem merge_maximal {p1 p2 : CharPartition} (h1 : p1.WF) (h2 : p2.WF) {x y : Nat}
    (hxy : x ≤ y)
    (hrun : ∀ z, x ≤ z → z ≤ y → cls p1 z = cls p1 x ∧ cls p2 z = cls p2 x) :
    cls (mergePartitions p1 p2) x = cls (mergePartitions p1 p2) y := by
  apply maximal_of (merge_wf h1 h2).1 (fun p => p = p1 ∨ p = p2)
    (by rintro p (rfl | rfl) <;> first | exact h1.1 | exact h2.1) ?_ hxy ?_
  · intro z hz
    rcases (merge_isCut h1 h2 z).1 hz with h | h
    · exact ⟨p1, .inl rfl, h⟩
    · exact ⟨p2, .inr rfl, h⟩
  · rintro z hz1 hz2 p (rfl | rfl)
    · exact (hrun z hz1 hz2).1
    · exact (hrun z hz1 hz2).2

/-- both halves: `x ≤ y` are in the same class of the result exactly when they are both in both
    complements, or the whole run `[x,y]` is uniform for `p1` and `p2` and nowhere in both
    complements -/
theorem merge_same_class_iff {p1 p2 : CharPartition} (h1 : p1.WF) (h2 : p2.WF) {x y : Nat}
    (hxy : x ≤ y) :
    cls (mergePartitions p1 p2) x = cls (mergePartitions p1 p2) y ↔
      ((cls p1 x = .complement ∧ cls p2 x = .complement) ∧
        (cls p1 y = .complement ∧ cls p2 y = .complement)) ∨
      (∀ z, x ≤ z → z ≤ y → (cls p1 z = cls p1 x ∧ cls p2 z = cls p2 x) ∧
        ¬ (cls p1 z = .complement ∧ cls p2 z = .complement)) := by
  have hm := (merge_wf h1 h2).1
  constructor
  · intro h
    cases hc : cls (mergePartitions p1 p2) x with
    | complement =>
      left
      exact ⟨(merge_complement h1 h2 x).1 hc, (merge_complement h1 h2 y).1 (h ▸ hc)⟩
    | interval k =>
      right
      intro z hz1 hz2
      obtain ⟨hk, hx1, _⟩ := (cls_eq_interval_iff hm x k).1 hc
      obtain ⟨_, _, hy2⟩ := (cls_eq_interval_iff hm y k).1 (h ▸ hc)
      have hz : cls (mergePartitions p1 p2) z = .interval k :=
        (cls_eq_interval_iff hm z k).2 ⟨hk, by omega, by omega⟩
      refine ⟨merge_refines h1 h2 (hz.trans hc.symm), ?_⟩
      rw [← merge_complement h1 h2, hz]
      simp
  · rintro (⟨hx, hy⟩ | hrun)
    · rw [(merge_complement h1 h2 x).2 hx, (merge_complement h1 h2 y).2 hy]
    · exact merge_maximal h1 h2 hxy (fun z a b => (hrun z a b).1)

/-! ### canonicity and the algebraic laws -/

/-- a well-formed partition is determined by its union and its cut points -/
theorem wf_ext {p q : CharPartition} (hp : p.WF) (hq : q.WF)
    (hS : ∀ x, InList p.list x ↔ InList q.list x) (hC : ∀ x, IsCut p.list x ↔ IsCut q.list x) :
    p = q := by
  have hl : p.list = q.list := sorted_ext hp.1 hq.1 hS hC
  have hw : p.compWitness = q.compWitness :=
    leastNonMember_unique hp.2 (hl ▸ hq.2)
  cases p; cases q; simp_all

/-- a well-formed partition is determined by its interval-class relation and its complementary
    class (on the alphabet) -/
theorem merge_canonical {p q : CharPartition} (hp : p.WF) (hq : q.WF)
    (hcomp : ∀ x, x ≤ MAX_CHAR → (cls p x = .complement ↔ cls q x = .complement))
    (hrel : ∀ x y, x ≤ MAX_CHAR → y ≤ MAX_CHAR → (cls p x = cls p y ↔ cls q x = cls q y)) :
    p = q := by
  have hS : ∀ x, InList p.list x ↔ InList q.list x := by
    intro x
    rcases Nat.lt_or_ge MAX_CHAR x with hx | hx
    · constructor <;> intro h
      · have := hp.1.inList_le_max h; omega
      · have := hq.1.inList_le_max h; omega
    · have := hcomp x hx
      rw [cls_eq_complement_iff, cls_eq_complement_iff] at this
      exact Decidable.not_iff_not.1 this
  apply wf_ext hp hq hS
  intro x
  cases x with
  | zero => rw [isCut_zero_iff, isCut_zero_iff, hS 0]
  | succ z =>
    rw [isCut_succ_iff hp.1, isCut_succ_iff hq.1]
    apply not_congr
    rcases Nat.lt_or_ge MAX_CHAR (z + 1) with hz | hz
    · rw [cls_gt_max hp.1 hz, cls_gt_max hq.1 hz]
      rcases Nat.lt_or_ge MAX_CHAR z with hz' | hz'
      · rw [cls_gt_max hp.1 hz', cls_gt_max hq.1 hz']
      · exact hcomp z hz'
    · exact hrel z (z + 1) (by omega) hz

/-- `merge p1 p2` is the only WF partition with the union and the cut points of `p1` and `p2` -/
private theorem merge_eq_of {p1 p2 r : CharPartition} (h1 : p1.WF) (h2 : p2.WF) (hr : r.WF)
    (hS : ∀ x, InList r.list x ↔ InList p1.list x ∨ InList p2.list x)
    (hC : ∀ x, IsCut r.list x ↔ IsCut p1.list x ∨ IsCut p2.list x) :
    mergePartitions p1 p2 = r :=
  wf_ext (merge_wf h1 h2) hr (fun x => by rw [merge_inList h1 h2, hS])
    (fun x => by rw [merge_isCut h1 h2, hC])

theorem merge_comm {p1 p2 : CharPartition} (h1 : p1.WF) (h2 : p2.WF) :
    mergePartitions p1 p2 = mergePartitions p2 p1 :=
  merge_eq_of h1 h2 (merge_wf h2 h1)
    (fun x => by rw [merge_inList h2 h1]; exact or_comm)
    (fun x => by rw [merge_isCut h2 h1]; exact or_comm)

theorem merge_assoc {p1 p2 p3 : CharPartition} (h1 : p1.WF) (h2 : p2.WF) (h3 : p3.WF) :
    mergePartitions (mergePartitions p1 p2) p3 = mergePartitions p1 (mergePartitions p2 p3) :=
  merge_eq_of (merge_wf h1 h2) h3 (merge_wf h1 (merge_wf h2 h3))
    (fun x => by
      rw [merge_inList h1 (merge_wf h2 h3), merge_inList h2 h3, merge_inList h1 h2, or_assoc])
    (fun x => by
      rw [merge_isCut h1 (merge_wf h2 h3), merge_isCut h2 h3, merge_isCut h1 h2, or_assoc])

/-- the empty partition is a left neutral element (the intervals of `p` are kept as they are) -/
theorem merge_empty_left {p : CharPartition} (hp : p.WF) :
    mergePartitions CharPartition.new p = p :=
  merge_eq_of wf_new hp hp (fun x => by simp [CharPartition.new])
    (fun x => by simp [CharPartition.new])

/-- the empty partition is a right neutral element -/
theorem merge_empty_right {p : CharPartition} (hp : p.WF) :
    mergePartitions p CharPartition.new = p :=
  merge_eq_of hp wf_new hp (fun x => by simp [CharPartition.new])
    (fun x => by simp [CharPartition.new])

theorem merge_idem {p : CharPartition} (hp : p.WF) : mergePartitions p p = p :=
  merge_eq_of hp hp hp (fun x => by simp) (fun x => by simp)

/-! ### `merge_partition_list` -/

private theorem foldl_wf {l : List CharPartition} (hl : ∀ p ∈ l, p.WF) {init : CharPartition}
    (hi : init.WF) : (l.foldl mergePartitions init).WF := by
  induction l generalizing init with
  | nil => exact hi
  | cons p l ih =>
    simp only [List.foldl_cons]
    exact ih (fun q hq => hl q (by simp [hq])) (merge_wf hi (hl p (by simp)))

theorem merge_list_wf {l : List CharPartition} (hl : ∀ p ∈ l, p.WF) :
    (mergePartitionList l).WF :=
  foldl_wf hl wf_new

theorem merge_list_nil : mergePartitionList [] = CharPartition.new := rfl

/-- the fold with the fuel channel visible never runs out of fuel -/
theorem merge_list_fuel_sufficient {l : List CharPartition} (hl : ∀ p ∈ l, p.WF) :
    l.foldlM (fun acc p => mergePartitions? acc p) CharPartition.new
      = some (mergePartitionList l) := by
  have key : ∀ init : CharPartition, init.WF →
      l.foldlM (fun acc p => mergePartitions? acc p) init
        = some (l.foldl mergePartitions init) := by
    induction l with
    | nil => intros; rfl
    | cons p l ih =>
      intro init hi
      have hp := hl p (by simp)
      obtain ⟨m, _, hm, he, _⟩ := merge_built_by_pushes hi hp
      simp only [List.foldlM_cons, List.foldl_cons, hm, ← he]
      exact ih (fun q hq => hl q (by simp [hq])) _ (merge_wf hi hp)
  exact key _ wf_new

theorem merge_list_singleton {p : CharPartition} (hp : p.WF) : mergePartitionList [p] = p :=
  merge_empty_left hp

theorem merge_list_cons {p : CharPartition} {l : List CharPartition} (hp : p.WF)
    (hl : ∀ q ∈ l, q.WF) :
    mergePartitionList (p :: l) = mergePartitions p (mergePartitionList l) := by
  have key : ∀ (l : List CharPartition), (∀ q ∈ l, q.WF) → ∀ a b : CharPartition, a.WF → b.WF →
      l.foldl mergePartitions (mergePartitions a b) = mergePartitions a (l.foldl mergePartitions b) := by
    intro l
    induction l with
    | nil => intros; rfl
    | cons q l ih =>
      intro hl a b ha hb
      have hq := hl q (by simp)
      simp only [List.foldl_cons]
      rw [merge_assoc ha hb hq]
      exact ih (fun r hr => hl r (by simp [hr])) a _ ha (merge_wf hb hq)
  unfold mergePartitionList
  simp only [List.foldl_cons]
  rw [merge_empty_left hp, ← merge_empty_right hp]
  rw [key l hl p _ hp wf_new, merge_empty_right hp]

/-- any order of the list gives the same partition -/
theorem merge_list_perm {l l' : List CharPartition} (hl : ∀ p ∈ l, p.WF) (hperm : l.Perm l') :
    mergePartitionList l = mergePartitionList l' := by
  have key : ∀ init : CharPartition, init.WF →
      l.foldl mergePartitions init = l'.foldl mergePartitions init := by
    induction hperm with
    | nil => intros; rfl
    | cons p _ ih =>
      intro init hi
      simp only [List.foldl_cons]
      exact ih (fun q hq => hl q (by simp [hq])) _ (merge_wf hi (hl p (by simp)))
    | swap p q l =>
      intro init hi
      have hp := hl p (by simp)
      have hq := hl q (by simp)
      simp only [List.foldl_cons]
      rw [merge_assoc hi hq hp, merge_comm hq hp, ← merge_assoc hi hp hq]
    | trans h12 _ ih1 ih2 =>
      intro init hi
      rw [ih1 hl init hi]
      exact ih2 (fun p hp => hl p (h12.mem_iff.2 hp)) init hi
  exact key _ wf_new

private theorem foldl_inList {l : List CharPartition} (hl : ∀ p ∈ l, p.WF) {init : CharPartition}
    (hi : init.WF) (x : Nat) :
    (InList (l.foldl mergePartitions init).list x ↔
      InList init.list x ∨ ∃ p ∈ l, InList p.list x) ∧
    (IsCut (l.foldl mergePartitions init).list x ↔
      IsCut init.list x ∨ ∃ p ∈ l, IsCut p.list x) := by
  induction l generalizing init with
  | nil => simp
  | cons p l ih =>
    have hp := hl p (by simp)
    simp only [List.foldl_cons]
    obtain ⟨a, b⟩ := ih (fun q hq => hl q (by simp [hq])) (merge_wf hi hp)
    rw [a, b, merge_inList hi hp, merge_isCut hi hp]
    refine ⟨?_, ?_⟩ <;> simp only [List.mem_cons, exists_eq_or_imp, or_assoc]

/-- the complementary class of the merged list is the intersection of all complementary classes -/
theorem merge_list_complement {l : List CharPartition} (hl : ∀ p ∈ l, p.WF) (x : Nat) :
    cls (mergePartitionList l) x = .complement ↔ ∀ p ∈ l, cls p x = .complement := by
  simp only [cls_eq_complement_iff, mergePartitionList, (foldl_inList hl wf_new x).1]
  simp [CharPartition.new]

/-- the merged list refines every partition of the list -/
theorem merge_list_refines {l : List CharPartition} (hl : ∀ p ∈ l, p.WF) {x y : Nat}
    (h : cls (mergePartitionList l) x = cls (mergePartitionList l) y) :
    ∀ p ∈ l, cls p x = cls p y := by
  intro p hp
  refine refines_of (merge_list_wf hl).1 (hl p hp).1 ?_ ?_ h
  · intro z hz; exact (foldl_inList hl wf_new z).1.2 (.inr ⟨p, hp, hz⟩)
  · intro z hz; exact (foldl_inList hl wf_new z).2.2 (.inr ⟨p, hp, hz⟩)

/-- a run that is uniform for every partition of the list lies in one class of the merged list -/
theorem merge_list_maximal {l : List CharPartition} (hl : ∀ p ∈ l, p.WF) {x y : Nat}
    (hxy : x ≤ y) (hrun : ∀ z, x ≤ z → z ≤ y → ∀ p ∈ l, cls p z = cls p x) :
    cls (mergePartitionList l) x = cls (mergePartitionList l) y := by
  apply maximal_of (merge_list_wf hl).1 (fun p => p ∈ l) (fun p hp => (hl p hp).1) ?_ hxy hrun
  intro z hz
  rcases (foldl_inList hl wf_new z).2.1 hz with h | h
  · simp [CharPartition.new] at h
  · exact h

/-! ### non-vacuity -/

/-- the partitions of the doc example of `merge_partitions` -/
def exP : CharPartition := (CharPartition.new.push 48 57).push 97 103
def exQ : CharPartition := (CharPartition.new.push 53 53).push 99 122
/-- a partition that touches both ends of the alphabet (witness = 11) -/
def exR : CharPartition := (CharPartition.new.push 0 10).push 100 MAX_CHAR

example : exP.WF ∧ exQ.WF ∧ exR.WF := by decide

/-- the doc example: six intervals -/
example : mergePartitions exP exQ =
    ⟨[⟨48, 52⟩, ⟨53, 53⟩, ⟨54, 57⟩, ⟨97, 98⟩, ⟨99, 103⟩, ⟨104, 122⟩], 0⟩ := by decide

example : mergePartitions? exP exQ ≠ none := merge_fuel_sufficient (by decide) (by decide)

example : mergePartitions exP exR =
    ⟨[⟨0, 10⟩, ⟨48, 57⟩, ⟨97, 99⟩, ⟨100, 103⟩, ⟨104, MAX_CHAR⟩], 11⟩ := by decide

/-- `merge_refines` is not vacuous: 48 and 52 share a class of the result -/
example : cls (mergePartitions exP exQ) 48 = cls (mergePartitions exP exQ) 52 := by decide

/-- the relational reading of "exactly when" fails by design (DESIGN.md §8): 48 and 54 are in the
    same class of `exP` and of `exQ` (its complement) but not of the result -/
example : cls exP 48 = cls exP 54 ∧ cls exQ 48 = cls exQ 54 ∧
    cls (mergePartitions exP exQ) 48 ≠ cls (mergePartitions exP exQ) 54 := by decide

example : mergePartitionList [exP, exQ, exR] = mergePartitionList [exR, exP, exQ] :=
  merge_list_perm (by decide) (by decide)

end Smt.C12
