/-
  C10 — Regex replace uses the leftmost, then shortest, match: the hypothesis-free form.

  The theorems of Props/C10.lean with the hypothesis bundle `DerivFacts` discharged
  (Proofs/DerivFactsFinal.lean, from C03): for EVERY id assignment `ord` with `PairSound ord`
  (DESIGN.md §6; proved for every history of a manager in C07), every well-formed pattern `r`
  without a `[0,0]` loop (`r.WF ∧ r.NZ`: all terms a manager can build), every SMT string `s`
  (`WFs s`) and every replacement text `t`.
-/
import SmtModel.Props.C10
import SmtModel.Proofs.DerivFactsFinal

namespace Smt.C10.Final
open Smt RE DerivFactsFinal

variable {ord : RE → Nat}

/-- T:match_from_spec -/
theorem match_from_spec (hp : PairSound ord) (p : RE) (rest : List ℕ) (n : ℕ)
    (he : p.WF) (hnz : p.NZ) (hw : WFs rest) :
    (∀ m, matchFrom ord p rest n = some m ↔
      ∃ len, m = n + len ∧ 1 ≤ len ∧ len ≤ rest.length ∧ rest.take len ∈ p.lang ∧
        ∀ l, 1 ≤ l → l < len → rest.take l ∉ p.lang) ∧
    (matchFrom ord p rest n = none ↔ ∀ l, 1 ≤ l → l ≤ rest.length → rest.take l ∉ p.lang) :=
  C10.match_from_spec (derivFacts hp) p rest n ⟨he, hnz⟩ hw

/-- T:re_search_spec -/
theorem re_search_spec (hp : PairSound ord) (r : RE) (s : List ℕ) (k : ℕ) (allow : Bool)
    (he : r.WF) (hnz : r.NZ) (hw : WFs s) (hk : k ≤ s.length) :
    (∀ i j, naiveReSearch ord r s k allow = some (i, j) ↔ firstMatch r.lang s k (!allow) i j) ∧
    (naiveReSearch ord r s k allow = none ↔ ∀ i j, ¬ IsMatch r.lang s k (!allow) i j) :=
  C10.re_search_spec (derivFacts hp) r s k allow ⟨he, hnz⟩ hw hk

/-- T:replace_re_spec -/
theorem replace_re_spec (hp : PairSound ord) (r : RE) (s t : List ℕ)
    (he : r.WF) (hnz : r.NZ) (hw : WFs s) :
    (∀ i j, firstMatch r.lang s 0 false i j →
        strReplaceRe ord s r t = s.take i ++ t ++ s.drop j) ∧
    ((∀ i j, ¬ IsMatch r.lang s 0 false i j) → strReplaceRe ord s r t = s) ∧
    strReplaceRe ord s r t = specReplaceRe r.lang t s :=
  C10.replace_re_spec (derivFacts hp) r s t ⟨he, hnz⟩ hw

/-- an empty match: `t` is inserted in front -/
theorem replace_re_nullable (hp : PairSound ord) (r : RE) (s t : List ℕ)
    (he : r.WF) (hnz : r.NZ) (hw : WFs s) (hnil : [] ∈ r.lang) :
    strReplaceRe ord s r t = t ++ s :=
  C10.replace_re_nullable (derivFacts hp) r s t ⟨he, hnz⟩ hw hnil

/-- T:replace_all_fuel_sufficient -/
theorem replace_all_fuel_sufficient (hp : PairSound ord) (r : RE) (s t : List ℕ)
    (he : r.WF) (hnz : r.NZ) (hw : WFs s) : strReplaceReAll ord s r t ≠ none :=
  C10.replace_all_fuel_sufficient (derivFacts hp) r s t ⟨he, hnz⟩ hw

/-- T:replace_re_all_spec -/
theorem replace_re_all_spec (hp : PairSound ord) (r : RE) (s t : List ℕ)
    (he : r.WF) (hnz : r.NZ) (hw : WFs s) :
    strReplaceReAll ord s r t = some (specReplaceAll r.lang t s) :=
  C10.replace_re_all_spec (derivFacts hp) r s t ⟨he, hnz⟩ hw

/-! ### non-vacuity -/

example : PairSound (fun _ => 1) := fun x y h => by simp at h

/-- `a*` (the pattern of the crate's doc test) and a pattern with complement are in the domain;
    `"baab"` is an SMT string -/
example : (RE.loop (.range ⟨97, 97⟩) LoopRange.star).WF ∧
    (RE.loop (.range ⟨97, 97⟩) LoopRange.star).NZ := by
  refine ⟨?_, by decide⟩
  simp only [RE.WF, LoopRange.star, LoopRange.infinite]
  decide
example : (RE.compl (.concat (.range ⟨97, 97⟩) sigmaStar)).WF ∧
    (RE.compl (.concat (.range ⟨97, 97⟩) sigmaStar)).NZ := by
  refine ⟨?_, by decide⟩
  simp only [RE.WF, sigmaStar, sigma, LoopRange.star, LoopRange.infinite]
  decide
example : WFs [98, 97, 97, 98] := by
  intro c hc
  have : MAX_CHAR = 196607 := rfl
  simp only [List.mem_cons, List.not_mem_nil, or_false] at hc
  omega

end Smt.C10.Final
