/-
  C16 — `included_in` never claims an inclusion that does not hold.

  "Whenever r.included_in(s) returns true, every string of the language of r is in the language
   of s; returning false carries no information.  Because unions are pruned with the same test, a
   union never loses strings that only a dropped operand contributed."

  Model: Model/SubLang.lean (`sub_language` and everything below it, regular_expressions.rs
  617-985) and `remove_subsumed` in Model/ReCons.lean.  Specification: the denotation
  `RE.lang : RE → Language ℕ` of Proofs/ReLang.lean (SMT-LIB semantics), `≤` is set inclusion.
  Helper lemmas: Proofs/SubLang.lean.

  The theorems hold for ALL ordered pairs of well-formed terms (`RE.WF`: ranges are intervals
  of the alphabet, loop ranges have lo ≤ hi), whatever mixture of ranges, Σ*, loops, complements,
  unions and intersections occurs on either side.  Both passes of `concat_inclusion` (forward and
  reverse search) are covered; nothing is partial.

  The two facts about `RE.lang` proved elsewhere (Proofs/ReLangCore.lean) enter through the
  hypothesis bundle `CoreFacts16` (kept as an explicit bundle because Proofs/ReSetOpsFinal.lean
  instantiates it); Props/C16Final.lean discharges it and exports the hypothesis-free statements.
-/
import SmtModel.Proofs.SubLang
import SmtModel.Proofs.ReSetOps

namespace Smt.C16
open Smt Smt.RE

/-- the facts about `RE.lang` used below (proved in Proofs/ReLangCore.lean):
    every well-formed term denotes a set of SMT strings; the `nullable` flag is exact -/
structure CoreFacts16 : Prop where
  lang_sub : ∀ e : RE, e.WF → e.lang ≤ allStrings
  nullable_iff : ∀ e : RE, e.WF → (e.nullable = true ↔ [] ∈ e.lang)

/-! ### rigid matching -/

/-- T:`rigid_match_sound`.  If `rigid_match_at(pattern, s, i)` succeeds then `s[i .. i+|pattern|]`
    exists and, because each element is a range covered by the pattern's character set at the same
    position, the concatenation of that slice is included in the pattern's language. -/
theorem rigid_match_sound (cs : List CharSet) (s : List RE) (i : Nat)
    (h : rigidMatchAt cs s i = true) :
    cs.length ≤ s.length - i ∧ catLang (slice s i (i + cs.length)) ≤ rangesLang cs :=
  rigidMatchAt_sound h

/-- `next_rigid_match` returns a region at or after `i`, of the pattern's length, inside `s`,
    whose language is included in the pattern's -/
theorem next_rigid_match_sound (cs : List CharSet) (s : List RE) (i j k : Nat)
    (h : nextRigidMatch cs s i = some (j, k)) :
    i ≤ j ∧ k = j + cs.length ∧ k ≤ s.length ∧ catLang (slice s j k) ≤ rangesLang cs :=
  nextRigidMatch_sound h

/-- `prev_rigid_match` returns a region ending at or before `i`, of the pattern's length,
    whose language is included in the pattern's -/
theorem prev_rigid_match_sound (cs : List CharSet) (s : List RE) (i j k : Nat)
    (h : prevRigidMatch cs s i = some (j, k)) :
    k ≤ i ∧ k = j + cs.length ∧ catLang (slice s j k) ≤ rangesLang cs :=
  prevRigidMatch_sound h

/-- `rigid_prefix_match` / `rigid_suffix_match`: the first / last `p.len` elements of `u` are
    included in the slice `v[p.start .. p.end]` -/
theorem rigid_prefix_suffix_match_sound (u v : List RE) (p : BasePattern)
    (hp : p.start ≤ p.stop) (hv : p.stop ≤ v.length) :
    (rigidPrefixMatch u v p = true →
      p.len ≤ u.length ∧ catLang (u.take p.len) ≤ catLang (slice v p.start p.stop)) ∧
    (rigidSuffixMatch u v p = true →
      p.len ≤ u.length ∧
        catLang (u.drop (u.length - p.len)) ≤ catLang (slice v p.start p.stop)) :=
  ⟨rigidPrefixMatch_sound hp hv, rigidSuffixMatch_sound hp hv⟩

/-! ### `is_full`, `decompose_concat` -/

/-- a term passing `is_full` is Σ* and denotes all SMT strings -/
theorem isFull_lang (x : RE) (h : x.isFull = true) : x.lang = allStrings := by
  rw [isFull_eq_sigmaStar h]; exact SetOps.sigmaStar_lang

/-- T:`decompose_lang`: the language of a term is the concatenation of its decomposition -/
theorem decompose_lang (r : RE) : r.lang = catLang (decomposeConcat r) :=
  (flattenConcat_catLang r).symm

/-! ### `concat_inclusion` -/

/-- forward pass only (`find_rigid_matches` + `match_flexible_patterns`), on a pattern list that
    tiles `v` and alternates flexible/rigid/…/flexible (or is empty) -/
theorem concat_inclusion_sound_forward (cf : CoreFacts16) (u v : List RE)
    (hu : ∀ x ∈ u, x.WF) (ps ps' : List BasePattern)
    (halt : ps = [] ∨ FlexAlt ps) (ht : Tiles v.length 0 ps)
    (hf : findRigidMatches u v 0 ps = some ps')
    (h : matchFlexiblePatterns u v ps' = true) : catLang u ≤ catLang v :=
  forward_pass_sound (fun x hx => cf.lang_sub x (hu x hx)) isFull_lang halt ht hf h

/-- reverse pass only (`find_rigid_matches_rev` + `match_flexible_patterns`) -/
theorem concat_inclusion_sound_reverse (cf : CoreFacts16) (u v : List RE)
    (hu : ∀ x ∈ u, x.WF) (ps ps' : List BasePattern)
    (halt : ps = [] ∨ FlexAlt ps) (ht : Tiles v.length 0 ps)
    (hf : findRigidMatchesRev u v ps = some ps')
    (h : matchFlexiblePatterns u v ps' = true) : catLang u ≤ catLang v :=
  reverse_pass_sound (fun x hx => cf.lang_sub x (hu x hx)) isFull_lang halt ht hf h

/-- T:`concat_inclusion_sound`.  `concat_inclusion(u, v) = true` implies that the concatenation
    of `u` is included in the concatenation of `v`: the base patterns tile `v`; the rigid prefix
    and suffix, then the rigid regions found by either search, are included pointwise; the regions
    `set_flexible_regions` assigns to the flexible patterns fill the gaps, so all regions tile `u`,
    and each flexible region is included in Σ*, the only flexible pattern `flexible_match`
    accepts.  Only the elements of `u` need to be well-formed. -/
theorem concat_inclusion_sound (cf : CoreFacts16) (u v : List RE) (hu : ∀ x ∈ u, x.WF)
    (h : concatInclusion u v = true) : catLang u ≤ catLang v :=
  concatInclusion_sound' (fun x hx => cf.lang_sub x (hu x hx)) isFull_lang h

/-! ### `sub_language`, `included_in` -/

theorem mem_flattenConcat_wf : ∀ (r : RE), r.WF → ∀ x ∈ flattenConcat r, x.WF
  | .epsilon, _, x, hx => by simp [flattenConcat] at hx
  | .concat a b, h, x, hx => by
      rw [WF] at h
      simp only [flattenConcat, List.mem_append] at hx
      rcases hx with hx | hx
      · exact mem_flattenConcat_wf a h.1 x hx
      · exact mem_flattenConcat_wf b h.2 x hx
  | .empty, h, x, hx => by simp [flattenConcat] at hx; subst hx; exact h
  | .range _, h, x, hx => by simp [flattenConcat] at hx; subst hx; exact h
  | .loop _ _, h, x, hx => by simp [flattenConcat] at hx; subst hx; exact h
  | .compl _, h, x, hx => by simp [flattenConcat] at hx; subst hx; exact h
  | .union _, h, x, hx => by simp [flattenConcat] at hx; subst hx; exact h
  | .inter _, h, x, hx => by simp [flattenConcat] at hx; subst hx; exact h

/-- T:`sub_language_sound`.  For all well-formed `r`, `s`: `sub_language(r, s) = true` implies
    `L(r) ⊆ L(s)`.  By induction along the recursion of `sub_language`, case by case in the order
    of the code: identical terms; ∅ on the left; ε on the left (`nullable` is exact); complements
    by contraposition (both complements are relative to the SMT strings); a union on the right /
    an intersection on the left (one operand suffices); a union on the left / an intersection on
    the right (all operands needed); otherwise `decompose_concat` and `concat_inclusion`. -/
theorem sub_language_sound (cf : CoreFacts16) (r s : RE) :
    r.WF → s.WF → subLanguage r s = true → r.lang ≤ s.lang := by
  fun_induction subLanguage r s with
  | case1 s => intro _ _ _; exact le_refl _
  | case2 s _ =>
    intro _ _ _ w hw
    rw [lang] at hw
    exact absurd hw (Language.notMem_zero w)
  | case3 r _ _ => intro _ _ h; cases h
  | case4 s _ _ =>
    intro _ hs h w hw
    rw [lang] at hw
    have hw' : w = [] := (Language.mem_one w).1 hw
    subst hw'
    exact (cf.nullable_iff s hs).1 h
  | case5 r _ _ _ => intro _ _ h; cases h
  | case6 r1 s2 _ ih =>
    intro hr hs h w hw
    rw [WF] at hr hs
    have hle := ih hs hr h
    rw [lang] at hw ⊢
    exact ⟨hw.1, fun hc => hw.2 (hle hc)⟩
  | case7 r list _ _ _ ih =>
    intro hr hs h w hw
    rw [WF, WFList_iff] at hs
    simp only [Bool.and_eq_true, List.any_eq_true, List.mem_attach, true_and, Subtype.exists,
      exists_prop] at h
    obtain ⟨_, x, hx, hsub⟩ := h
    rw [lang]
    exact (langAny_iff list w).2 ⟨x, hx, ih x hx hr (hs x hx) hsub hw⟩
  | case8 s list _ _ _ _ ih =>
    intro hr hs h w hw
    rw [WF, WFList_iff] at hr
    simp only [Bool.and_eq_true, List.any_eq_true, List.mem_attach, true_and, Subtype.exists,
      exists_prop] at h
    obtain ⟨_, x, hx, hsub⟩ := h
    rw [lang] at hw
    exact ih x hx (hr x hx) hs hsub ((langAll_iff list w).1 hw.2 x hx)
  | case9 s list _ _ _ _ ih =>
    intro hr hs h w hw
    rw [WF, WFList_iff] at hr
    simp only [Bool.and_eq_true, List.all_eq_true, List.mem_attach, forall_const,
      Subtype.forall] at h
    rw [lang] at hw
    obtain ⟨x, hx, hwx⟩ := (langAny_iff list w).1 hw
    exact ih x hx (hr x hx) hs (h.2 x hx) hwx
  | case10 r list _ _ _ _ _ ih =>
    intro hr hs h w hw
    rw [WF, WFList_iff] at hs
    simp only [Bool.and_eq_true, List.all_eq_true, List.mem_attach, forall_const,
      Subtype.forall] at h
    rw [lang]
    refine ⟨cf.lang_sub r hr hw, (langAll_iff list w).2 ?_⟩
    intro x hx
    exact ih x hx hr (hs x hx) (h.2 x hx) hw
  | case11 r s _ _ _ _ _ _ _ _ _ _ =>
    intro hr _ h
    rw [decompose_lang r, decompose_lang s]
    exact concat_inclusion_sound cf _ _ (mem_flattenConcat_wf r hr) h

/-- T:`included_in_sound` — the property: whenever `r.included_in(s)` returns true, every string
    of the language of `r` is in the language of `s`.  (`false` carries no information: see the
    last example of this file.) -/
theorem included_in_sound (cf : CoreFacts16) (r s : RE) (hr : r.WF) (hs : s.WF)
    (h : includedIn r s = true) : ∀ w : List ℕ, w ∈ r.lang → w ∈ s.lang :=
  fun _ hw => sub_language_sound cf r s hr hs h hw

/-- the hypothesis `SubSound` of Proofs/ReSetOps.lean -/
theorem subSound (cf : CoreFacts16) : SubSound := sub_language_sound cf

/-- T:`remove_subsumed_lang` — the consumer: pruning the operand list of a union with
    `is_subsumed`/`sub_language` never loses a string: an operand is dropped only when it is
    included in another operand that is still present. -/
theorem remove_subsumed_lang (cf : CoreFacts16) (a : List RE) (ha : WFList a) :
    langAny (removeSubsumed a) = langAny a :=
  removeSubsumed_lang (subSound cf) a ha

/-! ### the model's out-of-range guard is never taken

  `match_flexible_patterns` slices `u[p.start_match .. p.end_match]`, which panics in the Rust when
  the range is not a valid slice of `u`; the model has a guard there that answers `false`.  On the
  arguments `concat_inclusion` passes (`ciArgs`: what is left after the prefix and suffix steps)
  the guard always holds, for both search directions: the regions come out in order and inside `u`.
  So the guard never changes a result and `concat_inclusion` has no reachable slice panic. -/

/-- `concat_inclusion u v` is the two passes (`ciCore`) run on `ciArgs u v` -/
theorem concat_inclusion_passes (u v : List RE) :
    concatInclusion u v =
      (match ciArgs u v with
      | none => false
      | some (u', v', p) => ciCore u' v' p) :=
  concatInclusion_eq_ciArgs u v

/-- every region that `set_flexible_regions` produces after either search is a valid slice of
    `u'`: `start_match ≤ end_match ≤ u'.len()` -/
theorem flexible_regions_in_bounds (u v u' v' : List RE) (p : List BasePattern)
    (h : ciArgs u v = some (u', v', p)) :
    (∀ p', findRigidMatches u' v' 0 p = some p' →
      ∀ q ∈ setFlexibleRegions u'.length 0 p',
        q.startMatch ≤ q.stopMatch ∧ q.stopMatch ≤ u'.length) ∧
    (∀ p', findRigidMatchesRev u' v' p = some p' →
      ∀ q ∈ setFlexibleRegions u'.length 0 p',
        q.startMatch ≤ q.stopMatch ∧ q.stopMatch ≤ u'.length) :=
  ⟨fun _ hf => forward_regions_in_bounds (ciArgs_shape h).1 hf,
   fun _ hf => reverse_regions_in_bounds (ciArgs_shape h).1 hf⟩

/-! ### Non-vacuity -/

section examples

private def ch (c : Nat) : RE := .range ⟨c, c⟩
private def rg (a b : Nat) : RE := .range ⟨a, b⟩
private def cat : List RE → RE
  | [] => .epsilon
  | [x] => x
  | x :: xs => .concat x (cat xs)

private def abc : RE := cat [ch 97, ch 98, ch 99]
private def hasB : RE := cat [sigmaStar, ch 98, sigmaStar]
/-- `a · b* · ¬(\x05) · (b|ε) · c · d · a` -/
private def mixedL : RE :=
  cat [ch 97, .loop (ch 98) LoopRange.star, .compl (ch 5), .union [ch 98, .epsilon],
    ch 99, ch 100, ch 97]
/-- `[Z-c] · Σ* · c · [d-e] · Σ* · a` -/
private def mixedR : RE := cat [rg 90 99, sigmaStar, rg 99 99, rg 100 101, sigmaStar, ch 97]

/-- `abc ⊆ Σ*·b·Σ*` through the rigid search and two flexible regions (`a` and `c`) -/
example : subLanguage abc hasB = true := by rw [subLanguage.eq_def]; decide

/-- `a·[b-c]·d ⊆ a·Σ·d`: a purely rigid right-hand side, matched by the prefix step -/
example : subLanguage (cat [ch 97, rg 98 99, ch 100]) (cat [ch 97, sigma, ch 100]) = true := by
  rw [subLanguage.eq_def]; decide

/-- rigid prefix, rigid suffix, an inner rigid pattern and two flexible regions holding a loop,
    a complement and a union -/
example : subLanguage mixedL mixedR = true := by rw [subLanguage.eq_def]; decide

/-- the terms of these examples are well-formed, so the theorems apply to them -/
example : abc.WF ∧ hasB.WF ∧ mixedL.WF ∧ mixedR.WF := by
  simp [abc, hasB, mixedL, mixedR, cat, ch, rg, sigmaStar, sigma, WF, WFList, CharSet.WF,
    CharSet.allChars, LoopRange.star, LoopRange.infinite, MAX_CHAR]

/-- `remove_subsumed` really drops an operand: `abc` disappears next to `Σ*·b·Σ*` -/
example : removeSubsumed [abc, hasB, ch 100] = [hasB, ch 100] := by
  have h1 : subLanguage abc hasB = true := by rw [subLanguage.eq_def]; decide
  have h2 : subLanguage hasB (ch 100) = false := by rw [subLanguage.eq_def]; decide
  have h3 : subLanguage (ch 100) hasB = false := by rw [subLanguage.eq_def]; decide
  have h4 : hasB ≠ abc := by decide
  have h5 : ch 100 ≠ hasB := by decide
  simp [removeSubsumed, removeSubsumedAux, isSubsumed, h1, h2, h3, h4, h5, h5.symm]

/-- incompleteness is allowed: `a ⊆ a?` holds but the test answers `false`
    (a flexible pattern other than Σ* is never matched) -/
example : subLanguage (ch 97) (.loop (ch 97) LoopRange.opt) = false ∧
    (ch 97).lang ≤ (RE.loop (ch 97) LoopRange.opt).lang := by
  constructor
  · rw [subLanguage.eq_def]; decide
  · intro w hw
    rw [lang]
    exact ⟨1, by simp [RE.LoopRange.Mem, LoopRange.opt, LoopRange.finite],
      by rw [pow_one]; exact hw⟩

end examples

end Smt.C16
