/-
  C14 — Reachability pruning and the compiled successor table agree with the automaton
  (DESIGN.md §7 C14).

  Hypothesis throughout: `AutWF A`, the invariant of every automaton the crate hands out
  (Proofs/AutomatonOps.lean): `num_states`/`num_final_states` consistent with the state array,
  `states[i].id = i`, the initial state and every stored successor/default index in range, every
  per-state partition well-formed, as many successors as intervals, and a default successor exactly
  when the complementary class is non-empty.  `build_wf`: every automaton returned by
  `AutomatonBuilder::build` satisfies it; `unreachable_wf`: so does the result of pruning.

  * `unreachable_exact`     `remove_unreachable_states` succeeds and keeps exactly the states
                            reachable from the initial state, in increasing order of old index,
                            each with its successor indices renumbered
  * `remap_commutes`        `next` commutes with the renumbering
  * `unreachable_lang`      `accepts A' w = accepts A w` for every string `w`
  * `combined_uniform`      two characters in the same class of `combined_char_partition` have the
                            same successor in every state (from C12 `merge_list_refines`)
  * `pick_alphabet_reps`    `pick_alphabet` lists one character of each class, in class order,
                            all in the alphabet; every character has its representative
  * `edges_spec`            `edges(s)` = the pairs `(cid, class_next(s, cid))` over the valid class
                            ids of `s`, in the order of `class_ids()`; `next_total`
  * `final_states_spec`, `counts_consistent`
  * `first_fit_terminates`, `compact_invariant`   the invariant of `CompactTableBuilder` (every
                            cell is free or belongs to exactly one stored (state, char) pair) is
                            preserved by first-fit `set_successors`, which terminates within its
                            fuel and never trips its `assert!`; `eval` on the table built reads
                            the stored value or the default
  * `compile_successors_eval`   `compile_successors` succeeds and
                            `eval(s, i) = id(next(state s, pick_alphabet()[i]))` for every state
                            and every alphabet index
  Nothing here is partial.
-/
import SmtModel.Props.C13
import SmtModel.Props.C12
import SmtModel.Proofs.AutomatonPrune
import SmtModel.Proofs.AutomatonCompile

namespace Smt.C14
open Smt CharPartition BuilderSpec StateInConstruction CompactTableBuilder

/-! ### automata returned by the builder are well-formed -/

/-- **build_wf**: every automaton returned by `build` (hence by `build_unchecked` on a valid
    specification) satisfies `AutWF` -/
theorem build_wf {k0 : Nat} {ops : List BuilderOp} (hwf : C13.WFOps ops) {A : Automaton}
    (h : (Builder.run k0 ops).build = some (.ok A)) : AutWF A := by
  have hvalid := (C13.build_ok_iff hwf).1 ⟨A, h⟩
  obtain ⟨A', hA', hn, hinit, hnf, hlen, hst⟩ := C13.build_of_valid hwf hvalid
  rw [h] at hA'
  cases hA'
  have hcl := (inv_run k0 ops).closed
  -- every state, by position
  have hstate : ∀ j (hj : j < A.states.length),
      (A.states[j]).id = j ∧ (A.states[j]).isFinal = final ops ((keys k0 ops)[j]'(hlen ▸ hj)) ∧
        StateWF A.states.length A.states[j] := by
    intro j hj
    have hj' : j < (keys k0 ops).length := hlen ▸ hj
    obtain ⟨st, h1, h2⟩ := hst j hj'
    rw [List.getElem?_eq_getElem hj] at h1
    cases h1
    have hk : (keys k0 ops)[j] ∈ keys k0 ops := List.getElem_mem hj'
    have hv : Verdict (expSIC (keys k0 ops) ops (keys k0 ops)[j]) none :=
      (C13.verdict_expSIC hwf _ _ none).2 (.valid (hvalid _ hk))
    have hw := C13.wfl_expSIC hwf (keys k0 ops) (keys k0 ops)[j]
    obtain ⟨st', hst', hid, hfin, hcls, hsl, hsucc, hdef, _⟩ := (buildState_spec hw j).2 hv
    rw [h2] at hst'
    cases hst'
    have hdv := buildState_defValid hw hv h2
    have tr : ∀ x, (∃ t ∈ (expSIC (keys k0 ops) ops (keys k0 ops)[j]).transitions, t.2 = x) →
        x < A.states.length := by
      rintro x ⟨t, ht, rfl⟩
      simp only [expSIC, List.mem_map] at ht
      obtain ⟨u, hu, rfl⟩ := ht
      have := idx_spec (hcl _ (transitions_source_mem hu) u.2 (by simp [keysOf]))
      rw [hlen]
      exact (indexOf_lt this).1
    refine ⟨hid, by rw [hfin]; rfl, hcls, hsl, fun x hx => tr x (hsucc x hx), ?_, hdv⟩
    intro d hd
    rcases hdef d hd with h' | h'
    · simp only [expSIC] at h'
      cases hdd : default ops (keys k0 ops)[j] with
      | none => rw [hdd] at h'; cases h'
      | some k' =>
        rw [hdd] at h'
        simp only [Option.map_some, Option.some.injEq] at h'
        have := idx_spec (hcl _ (default_source_mem hdd) k' (by simp [keysOf]))
        rw [h'] at this
        rw [hlen]
        exact (indexOf_lt this).1
    · exact tr d h'
  refine ⟨by rw [hn, hlen], fun i hi => (hstate i hi).1, ?_, ?_, ?_⟩
  · rw [hinit, hlen]
    exact (indexOf_lt (inv_run k0 ops).init).1
  · intro s hs
    obtain ⟨j, hj, rfl⟩ := List.getElem_of_mem hs
    exact (hstate j hj).2.2
  · rw [hnf]
    -- the final flags, position by position
    have : A.states.map (·.isFinal) = (keys k0 ops).map (final ops) := by
      apply List.ext_getElem
      · simp [hlen]
      · intro j h1 h2
        simp only [List.length_map] at h1 h2
        simp only [List.getElem_map]
        exact (hstate j h1).2.1
    have e1 : (A.states.filter (·.isFinal)).length = ((A.states.map (·.isFinal)).filter id).length := by
      rw [List.filter_map]; simp [Function.comp_def]
    have e2 : ((keys k0 ops).filter (final ops)).length =
        (((keys k0 ops).map (final ops)).filter id).length := by
      rw [List.filter_map]; simp [Function.comp_def]
    rw [e1, e2, this]

/-! ### `next`, `edges`, iterators, counters -/

/-- `next` is defined on the whole alphabet -/
theorem next_total {A : Automaton} (h : AutWF A) {s : State} (hs : s ∈ A.states) {c : Nat}
    (hc : c ≤ MAX_CHAR) : ∃ t, A.next s c = some t ∧ t ∈ A.states :=
  h.next_total hs hc

/-- **edges_spec**: `edges(s)` never fails and yields exactly the pairs
    `(cid, class_next(s, cid))` for the valid class ids of `s`, the class ids in the order of
    `class_ids()`; so `edges` and `next` describe the same transition structure: for `c ≤ MAX_CHAR`
    the pair `(class_of_char(c), next(s, c))` is one of the edges -/
theorem edges_spec {A : Automaton} (h : AutWF A) {s : State} (hs : s ∈ A.states) :
    ∃ es, A.edges s = some es ∧
      (∀ cid t, (cid, t) ∈ es ↔ (s.validClassId cid = true ∧ A.classNext s cid = some t)) ∧
      es.map (·.1) = s.classes.classIds ∧
      ∀ c, c ≤ MAX_CHAR → ∃ t, A.next s c = some t ∧ (s.classes.classOfChar c, t) ∈ es := by
  obtain ⟨es, hes⟩ := h.edges_isSome hs
  obtain ⟨h1, h2⟩ := h.edges_next hs hes
  refine ⟨es, hes, h1, h2, ?_⟩
  intro c hc
  obtain ⟨t, ht, _⟩ := h.next_total hs hc
  refine ⟨t, ht, (h1 _ t).2 ⟨(h.states s hs).valid_classOfChar hc, ?_⟩⟩
  simpa [Automaton.next] using ht

/-- **final_states_spec**: `final_states()` yields exactly the final states, in increasing id, and
    a string is accepted iff it leads from the initial state to one of them -/
theorem final_states_spec {A : Automaton} (h : AutWF A) :
    (∀ s, s ∈ A.finalStates ↔ s ∈ A.states ∧ s.isFinal = true) ∧
    (A.finalStates.map (·.id)).Pairwise (· < ·) ∧
    ∀ w, A.accepts w = some true ↔
      ∃ s0 t, A.initial = some s0 ∧ A.strNext s0 w = some t ∧ t ∈ A.finalStates := by
  refine ⟨fun s => by simp [Automaton.finalStates, List.mem_filter], ?_, ?_⟩
  · -- the ids of the state array are 0, 1, 2, …; a filtered sublist is increasing
    have hids : A.states.map (·.id) = List.range A.states.length := by
      apply List.ext_getElem
      · simp
      · intro i h1 h2
        simp only [List.length_map] at h1
        simp [h.ids i h1]
    have hpw : (A.states.map (·.id)).Pairwise (· < ·) := by
      rw [hids]; exact List.pairwise_lt_range
    have hsub : (A.finalStates.map (·.id)).Sublist (A.states.map (·.id)) :=
      List.Sublist.map _ List.filter_sublist
    exact hpw.sublist hsub
  · intro w
    unfold Automaton.accepts
    cases hi : A.initial with
    | none => simp
    | some s0 =>
      simp only [Option.map_eq_some_iff, Option.some.injEq]
      constructor
      · rintro ⟨t, ht, hf⟩
        -- `t` is a state of the array
        have : t ∈ A.states := by
          have hs0 : s0 ∈ A.states := List.mem_of_getElem? hi
          clear hi
          induction w generalizing s0 with
          | nil => simp only [Automaton.strNext, Option.some.injEq] at ht; exact ht ▸ hs0
          | cons c w ih =>
            simp only [Automaton.strNext] at ht
            cases hn : A.next s0 c with
            | none => rw [hn] at ht; cases ht
            | some s1 =>
              rw [hn] at ht
              refine ih s1 ht ?_
              rw [Automaton.next_eq_rawNext] at hn
              cases hr : s0.rawNext c with
              | none => rw [hr] at hn; cases hn
              | some j => rw [hr] at hn; exact List.mem_of_getElem? hn
        exact ⟨s0, t, rfl, ht, by simp [Automaton.finalStates, List.mem_filter, this, hf]⟩
      · rintro ⟨s0', t, he, ht, hf⟩
        subst he
        simp only [Automaton.finalStates, List.mem_filter] at hf
        exact ⟨t, ht, hf.2⟩

/-- **counts_consistent**: `num_states` is the length of the state array (the number of states
    `states()` yields) and `num_final_states` the number of states `final_states()` yields -/
theorem counts_consistent {A : Automaton} (h : AutWF A) :
    A.numStates = A.states.length ∧ A.numFinalStates = A.finalStates.length :=
  ⟨h.num, h.numFinal⟩

/-! ### `remove_unreachable_states` -/

/-- **unreachable_exact**: on a well-formed automaton `remove_unreachable_states` succeeds; the
    states kept are exactly those reachable from the initial state, listed by increasing old
    index (`keep`), and new state `k` is old state `keep[k]` with every successor index replaced
    by its position in `keep` (`Pruned`: same final flag, same partition) -/
theorem unreachable_exact {A : Automaton} (h : AutWF A) :
    ∃ keep A', A.removeUnreachableStates = some A' ∧
      keep.Pairwise (· < ·) ∧ (∀ x, x ∈ keep ↔ Reachable A x) ∧
      A'.numStates = keep.length ∧ A'.states.length = keep.length ∧
      keep[A'.initialState]? = some A.initialState ∧
      ∀ k (hk : k < keep.length), ∃ s s', A.states[keep[k]]? = some s ∧
        A'.states[k]? = some s' ∧ Pruned keep s s' k := by
  obtain ⟨keep, A', h0, hp⟩ := removeUnreachable_pruneOf h
  exact ⟨keep, A', h0, hp.sorted, hp.mem, hp.num, hp.len, hp.init, hp.states⟩

/-- the pruned automaton is well-formed (so everything in this file applies to it again) and
    all its states are reachable -/
theorem unreachable_wf {A A' : Automaton} (h : AutWF A)
    (h' : A.removeUnreachableStates = some A') : AutWF A' := by
  obtain ⟨keep, A'', h0, hp⟩ := removeUnreachable_pruneOf h
  rw [h'] at h0
  cases h0
  exact hp.wf h

/-- **remap_commutes**: for a kept state `s` with image `s'`, `next` in the pruned automaton is
    the image of `next` in the original (both undefined together) -/
theorem remap_commutes {A A' : Automaton} (h : AutWF A)
    (h' : A.removeUnreachableStates = some A') :
    ∃ keep, PruneOf A A' keep ∧ ∀ s s', PruneRel A A' keep s s' → ∀ c,
      (A.next s c = none ∧ A'.next s' c = none) ∨
      ∃ t t', A.next s c = some t ∧ A'.next s' c = some t' ∧ PruneRel A A' keep t t' := by
  obtain ⟨keep, A'', h0, hp⟩ := removeUnreachable_pruneOf h
  rw [h'] at h0
  cases h0
  exact ⟨keep, hp, fun s s' hr c => hp.next h hr c⟩

/-- **unreachable_lang**: the pruned automaton accepts the same strings -/
theorem unreachable_lang {A A' : Automaton} (h : AutWF A)
    (h' : A.removeUnreachableStates = some A') (w : List Nat) : A'.accepts w = A.accepts w := by
  obtain ⟨keep, A'', h0, hp⟩ := removeUnreachable_pruneOf h
  rw [h'] at h0
  cases h0
  exact hp.accepts h w

/-! ### `combined_char_partition`, `pick_alphabet` -/

theorem combined_wf {A : Automaton} (h : AutWF A) : A.combinedCharPartition.WF :=
  C12.merge_list_wf (fun p hp => by
    obtain ⟨s, hs, rfl⟩ := List.mem_map.1 hp
    exact (h.states s hs).classes)

/-- **combined_uniform**: two characters in the same class of the combined partition have the
    same class, hence the same successor, in every state -/
theorem combined_uniform {A : Automaton} (h : AutWF A) {x y : Nat}
    (hxy : A.combinedCharPartition.classOfChar x = A.combinedCharPartition.classOfChar y) :
    ∀ s ∈ A.states, s.classes.classOfChar x = s.classes.classOfChar y ∧ A.next s x = A.next s y := by
  intro s hs
  have hwfl : ∀ p ∈ A.states.map (·.classes), p.WF := by
    intro p hp
    obtain ⟨s, hs, rfl⟩ := List.mem_map.1 hp
    exact (h.states s hs).classes
  have hc := combined_wf h
  rw [classOfChar_eq_cls hc.1, classOfChar_eq_cls hc.1] at hxy
  have := C12.merge_list_refines hwfl hxy s.classes (List.mem_map.2 ⟨s, hs, rfl⟩)
  have hsorted := (h.states s hs).classes.1
  rw [← classOfChar_eq_cls hsorted, ← classOfChar_eq_cls hsorted] at this
  exact ⟨this, by simp [Automaton.next, this]⟩

/-- the representatives of a well-formed partition: one per class, in class order -/
theorem picks_spec {p : CharPartition} (hp : p.WF) :
    p.picks.map p.classOfChar = p.classIds ∧ (∀ r ∈ p.picks, r ≤ MAX_CHAR) ∧
    ∀ c, c ≤ MAX_CHAR → ∃ r ∈ p.picks, p.classOfChar r = p.classOfChar c := by
  obtain ⟨hs, hw1, hw2, hw3⟩ := hp
  have hstart : ∀ i (hi : i < p.list.length), p.classOfChar (p.list[i]).start = .interval i := by
    intro i hi
    rw [classOfChar_eq_cls hs, cls_eq_interval_iff hs]
    exact ⟨hi, Nat.le_refl _, (hs.get_wf hi).1⟩
  have hwit : p.classOfChar p.compWitness = .complement := by
    rw [classOfChar_eq_cls hs, cls_eq_complement_iff]; exact hw2
  refine ⟨?_, ?_, ?_⟩
  · unfold picks classIds
    rw [List.map_append]
    congr 1
    · apply List.ext_getElem
      · simp [CharPartition.len]
      · intro i h1 h2
        simp only [List.length_map] at h1
        simp [hstart i h1]
    · cases p.emptyComplement <;> simp [hwit]
  · intro r hr
    unfold picks at hr
    rcases List.mem_append.1 hr with hr | hr
    · obtain ⟨s, hs', rfl⟩ := List.mem_map.1 hr
      have hsw := hs.1 s hs'
      have := hsw.1; have := hsw.2
      omega
    · cases he : p.emptyComplement with
      | true => rw [he] at hr; cases hr
      | false =>
        rw [he] at hr
        simp only [Bool.false_eq_true, if_false, List.mem_singleton] at hr
        simp only [emptyComplement, decide_eq_false_iff_not] at he
        omega
  · intro c hc
    cases hcls : p.classOfChar c with
    | interval i =>
      rw [classOfChar_eq_cls hs, cls_eq_interval_iff hs] at hcls
      obtain ⟨hi, _⟩ := hcls
      refine ⟨(p.list[i]).start, ?_, hstart i hi⟩
      unfold picks
      exact List.mem_append_left _ (List.mem_map.2 ⟨_, List.getElem_mem hi, rfl⟩)
    | complement =>
      rw [classOfChar_eq_cls hs, cls_eq_complement_iff] at hcls
      have he : p.emptyComplement = false := by
        simp only [emptyComplement, decide_eq_false_iff_not]
        intro hgt
        exact hcls (hw3 c (by omega))
      refine ⟨p.compWitness, ?_, hwit⟩
      unfold picks
      exact List.mem_append_right _ (by simp [he])

/-- **pick_alphabet_reps**: `pick_alphabet` returns one character of each class of the combined
    partition, in the order of its class ids, all in the alphabet; every character of the alphabet
    has a representative in it, which has the same successor in every state -/
theorem pick_alphabet_reps {A : Automaton} (h : AutWF A) :
    A.pickAlphabet.map A.combinedCharPartition.classOfChar = A.combinedCharPartition.classIds ∧
    (∀ r ∈ A.pickAlphabet, r ≤ MAX_CHAR) ∧
    ∀ c, c ≤ MAX_CHAR → ∃ r ∈ A.pickAlphabet, ∀ s ∈ A.states, A.next s r = A.next s c := by
  obtain ⟨h1, h2, h3⟩ := picks_spec (combined_wf h)
  refine ⟨h1, h2, ?_⟩
  intro c hc
  obtain ⟨r, hr, hrc⟩ := h3 c hc
  exact ⟨r, hr, fun s hs => (combined_uniform h hrc s hs).2⟩

/-! ### the compact table and `compile_successors` -/

/-- **first_fit_terminates**: on a builder in its invariant, `set_successors(i, row)` for a state
    not stored yet and a row of distinct in-range characters terminates within the model's fuel,
    never trips the `assert!(new_size >= b + alphabet_size)` or an index check, and
    **compact_invariant** is preserved: afterwards every cell of `check` is free
    (`= num_states`) or is cell `base[s] + c` of exactly one stored pair `(c, v)` of one stored
    state `s` and holds `s` / `v` (`Cells`) -/
theorem first_fit_terminates {t : CompactTableBuilder} {D : List (Nat × Row)} (hs : Shape t)
    (hc : Cells t D) {i : Nat} (hi : i < t.numStates) (hiD : i ∉ D.map (·.1)) {row : Row}
    (hrow : GoodRow t.alphabetSize row) :
    ∃ t', t.setSuccessors i row = some t' ∧ Shape t' ∧ Cells t' ((i, row) :: D) :=
  let ⟨t', h1, h2, h3, _⟩ := setSuccessors_spec hs hc hi hiD hrow
  ⟨t', h1, h2, h3⟩

/-- **compact_invariant**, read on the table built: `eval(s, c)` is the value stored for `(s, c)`
    if the row of `s` contains `c`, and `default[s]` otherwise -/
theorem compact_invariant {t : CompactTableBuilder} {D : List (Nat × Row)} (hs : Shape t)
    (hc : Cells t D) :
    ∃ T, t.build = some T ∧ T.numStates = t.numStates ∧ T.alphabetSize = t.alphabetSize ∧
      ∀ s row, (s, row) ∈ D → ∀ c, c < t.alphabetSize →
        (∀ v, (c, v) ∈ row → T.eval s c = some v) ∧
        ((∀ v, (c, v) ∉ row) → T.eval s c = t.default[s]?) :=
  let ⟨T, h1, h2, h3, _, h5⟩ := build_spec hs hc
  ⟨T, h1, h2, h3, h5⟩

theorem pickAlphabet_ne_nil {A : Automaton} (h : AutWF A) : A.pickAlphabet ≠ [] := by
  have hp := combined_wf h
  unfold Automaton.pickAlphabet picks
  intro he
  obtain ⟨h1, h2⟩ := List.append_eq_nil_iff.1 he
  have hl : A.combinedCharPartition.list = [] := by simpa using h1
  obtain ⟨_, _, _, hw3⟩ := hp
  rw [hl] at hw3
  cases hec : A.combinedCharPartition.emptyComplement with
  | false => rw [hec] at h2; simp at h2
  | true =>
    simp only [emptyComplement, decide_eq_true_eq] at hec
    have := hw3 0 (by omega)
    simp at this

/-- **compile_successors_eval**: on a well-formed automaton `compile_successors` succeeds (no
    assertion, no index out of bounds, first-fit within its fuel) and the table it returns,
    evaluated at (state id, alphabet index), is the id of `next(state, pick_alphabet()[index])`,
    for every state and every index -/
theorem compile_successors_eval {A : Automaton} (h : AutWF A) :
    ∃ T, A.compileSuccessors = some T ∧ T.numStates = A.states.length ∧
      T.alphabetSize = A.pickAlphabet.length ∧
      ∀ j (hj : j < A.states.length) i (hi : i < A.pickAlphabet.length),
        ∃ t, A.next A.states[j] A.pickAlphabet[i] = some t ∧ T.eval j i = some t.id := by
  have hn : 0 < A.numStates := by rw [h.num]; exact Nat.lt_of_le_of_lt (Nat.zero_le _) h.init
  have ha : 0 < A.pickAlphabet.length := List.length_pos_iff.2 (pickAlphabet_ne_nil h)
  have halpha : ∀ c ∈ A.pickAlphabet, c ≤ MAX_CHAR := (pick_alphabet_reps h).2.1
  obtain ⟨b0, hb0, hs0, hc0, hn0, ha0⟩ := new_spec hn ha
  obtain ⟨b', D', hl, hinv⟩ := compileLoop_spec h halpha A.states [] b0 [] (by simp)
    ⟨hs0, hc0, by rw [hn0, h.num], ha0, fun x hx => (by cases hx), fun s hs => (by cases hs),
      fun s hs => (by cases hs)⟩
  obtain ⟨T, hT, hTn, hTa, _, heval⟩ := build_spec hinv.shape hinv.cells
  refine ⟨T, by simp only [Automaton.compileSuccessors, hb0, hl, hT], by rw [hTn, hinv.num],
    by rw [hTa, hinv.alpha], ?_⟩
  intro j hj i hi
  have hsm : A.states[j] ∈ A.states := List.getElem_mem hj
  have hid : (A.states[j]).id = j := h.ids j hj
  obtain ⟨row, hrowD, hspec⟩ := hinv.rows _ hsm
  rw [hid] at hrowD
  obtain ⟨e1, e2⟩ := heval j row hrowD i (by rw [hinv.alpha]; exact hi)
  obtain ⟨r1, r2⟩ := hspec i hi
  cases hm : (A.states[j]).charMapsToDefault A.pickAlphabet[i] with
  | false =>
    obtain ⟨t, ht, hmem, _⟩ := r1 hm
    exact ⟨t, ht, e1 _ hmem⟩
  | true =>
    -- the character is in the complementary class and the state has a default successor
    simp only [State.charMapsToDefault, State.hasDefaultSuccessor, Bool.and_eq_true,
      beq_iff_eq] at hm
    obtain ⟨hsome, hcls⟩ := hm
    obtain ⟨d, hd⟩ := Option.isSome_iff_exists.1 hsome
    have hw := h.states _ hsm
    have hdn := hw.defBound d hd
    have hv : (A.states[j]).validClassId .complement = true := by
      have := hw.defValid
      rw [hsome] at this
      simp only [State.validClassId, validClassId]
      exact this.symm
    refine ⟨A.states[d], ?_, ?_⟩
    · unfold Automaton.next
      rw [hcls, Automaton.classNext_eq, if_pos hv]
      simp [State.rawClassNext, hd, hdn]
    · rw [e2 (r2 (by simp [State.charMapsToDefault, State.hasDefaultSuccessor, hsome, hcls]))]
      have := hinv.defaults _ hsm d hd
      rw [hid] at this
      rw [this, h.ids d hdn]

/-! ### non-vacuity -/

/-- the automaton of `C13.exOps` (a*b over {a,b} with a sink) plus a state nothing leads to -/
def exOps : List BuilderOp := C13.exOps ++ [.setDefault 7 0, .markFinal 7]

theorem exOps_wf : C13.WFOps exOps := by
  intro k set k' h
  simp only [exOps, C13.exOps, List.cons_append, List.nil_append, List.mem_cons,
    BuilderOp.addTransition.injEq, reduceCtorEq, List.mem_nil_iff, or_false] at h
  rcases h with ⟨_, rfl, _⟩ | ⟨_, rfl, _⟩ <;> decide

/-- a well-formed automaton with four states exists (so the hypotheses above are satisfiable) … -/
example : ∃ A, (Builder.run 0 exOps).build = some (.ok A) ∧ AutWF A ∧ A.numStates = 4 := by
  obtain ⟨A, hA⟩ := (C13.build_verdict_exec (k0 := 0) exOps_wf).1.1 (by decide)
  exact ⟨A, hA, build_wf exOps_wf hA, by
    rw [(C13.build_finals exOps_wf hA).1]; decide⟩

def exA : Option Automaton := C13.okOf (Builder.run 0 exOps).build

/-- … pruning it removes exactly the unreachable state 3 and keeps the language … -/
example : (exA.bind Automaton.removeUnreachableStates).map (fun A => (A.numStates, A.numFinalStates)) =
    some (3, 1) := by decide +kernel
example : (exA.bind (fun A => A.accepts [97, 97, 98])) = some true ∧
    ((exA.bind Automaton.removeUnreachableStates).bind (fun A => A.accepts [97, 97, 98])) = some true ∧
    ((exA.bind Automaton.removeUnreachableStates).bind (fun A => A.accepts [98, 97])) = some false := by
  decide +kernel

/-- … its alphabet has three representatives and the compiled table agrees with `next` -/
example : exA.map Automaton.pickAlphabet = some [97, 98, 0] := by decide +kernel
example : (exA.bind Automaton.compileSuccessors).map
    (fun T => (List.range 4).map (fun s => (List.range 3).map (fun c => T.eval s c))) =
    some [[some 0, some 1, some 2], [some 2, some 2, some 2], [some 2, some 2, some 2],
          [some 0, some 0, some 0]] := by decide +kernel

end Smt.C14
